(* C08 theory, part 4: the action law.  Reordering by p and then reordering the result by q is
   reordering by the composed table (new position j takes the original column p[q[j]]) - as
   results, success and failure included.  Identity and inverse are instances; a table built in
   the wrong direction (position of the i-th old column instead of the old column of the i-th
   position) satisfies identity and every involution but not this law. *)
From FB Require Import C08.Model C08.TheoryA C08.TheoryB C08.Theory C08.Theory2.
From Coq Require Import Arith Lia Permutation.

(* ---------- rows ---------- *)
Lemma in_range_spec n q : in_range n q = true <-> forall j, In j q -> (j < n)%nat.
Proof.
  unfold in_range. rewrite forallb_forall. split; intros H j Hj.
  - apply Nat.ltb_lt. exact (H j Hj).
  - apply Nat.ltb_lt. exact (H j Hj).
Qed.

Lemma permute_compose {A} (d : A) p q l :
  in_range (length p) q = true -> permute d q (permute d p l) = permute d (compose p q) l.
Proof.
  intros H. unfold compose. unfold permute at 1 3. rewrite map_map. apply map_ext_in. intros j Hj.
  apply nth_permute. exact (proj1 (in_range_spec _ _) H j Hj).
Qed.

Lemma compose_cons p q0 qr : compose p (q0 :: qr) = nth q0 p O :: compose p qr.
Proof. reflexivity. Qed.

Lemma is_permb_in_range n p : is_permb n p = true -> in_range n p = true.
Proof.
  intros H. apply is_permb_Permutation in H. apply in_range_spec. intros j Hj.
  apply (Permutation_in _ H) in Hj. apply in_seq in Hj. lia.
Qed.

(* composing with the inverse gives the identity table (so the inverse law is an instance) *)
Lemma compose_inv n p : is_permb n p = true -> compose p (inv_perm p) = seq 0 n.
Proof.
  intros H. pose proof (proj1 (is_permb_spec n p) H) as [Hlen Hin].
  unfold compose, inv_perm. rewrite map_map, Hlen. rewrite <- (map_id (seq 0 n)) at 2.
  apply map_ext_in. intros j Hj. apply in_seq in Hj.
  destruct (index_of_spec j p) as [_ E]; [apply Hin; lia|]. exact E.
Qed.

Lemma compose_id_l n q : in_range n q = true -> compose (seq 0 n) q = q.
Proof.
  intros H. unfold compose. rewrite <- (map_id q) at 2. apply map_ext_in. intros j Hj.
  apply seq_nth. exact (proj1 (in_range_spec _ _) H j Hj).
Qed.

Lemma compose_id_r p : compose p (seq 0 (length p)) = p.
Proof.
  unfold compose. apply (nth_ext _ _ O O).
  - rewrite map_length, seq_length. reflexivity.
  - intros k Hk. rewrite map_length, seq_length in Hk.
    rewrite (nth_map_lt (fun j => nth j p O) (seq 0 (length p)) k O O) by (rewrite seq_length; exact Hk).
    rewrite seq_nth by exact Hk. reflexivity.
Qed.

(* ---------- descriptors ---------- *)
Lemma map_desc_compose f g h d d1 :
  map_desc f d = Ok d1 ->
  (forall x, In x (desc_classes d) -> f x <> [] /\ ~ In cSEMI (f x) /\ g (f x) = h x) ->
  map_desc g d1 = map_desc h d.
Proof.
  intros H Hfg. rewrite map_desc_tokens in H. apply bind_ok in H. destruct H as (t & Ht & [= <-]).
  unfold desc_classes in Hfg. rewrite Ht in Hfg.
  destruct (tokens_sound d t Ht) as [Hp Hwf].
  assert (Hwf' : toks_wf (map (map_tok f) t)).
  { unfold toks_wf in *. rewrite Forall_forall in *. intros tk Hin. apply in_map_iff in Hin.
    destruct Hin as (tk0 & <- & Hin0). specialize (Hwf tk0 Hin0).
    destruct tk0 as [c|n]; cbn [map_tok tok_wf] in *; [exact Hwf|].
    assert (Hn : In n (tok_classes t)).
    { unfold tok_classes. apply in_flat_map. exists (TCls n). split; [exact Hin0|left; reflexivity]. }
    destruct (Hfg n Hn) as (H1 & H2 & _). split; assumption. }
  rewrite !map_desc_tokens, (tokens_complete _ Hwf'), Ht. cbn [bind]. rewrite map_map.
  assert (E : map (fun x => map_tok g (map_tok f x)) t = map (map_tok h) t).
  { apply map_ext_in. intros tk Hin. destruct tk as [c|n]; [reflexivity|].
    cbn [map_tok]. f_equal. apply Hfg. unfold tok_classes. apply in_flat_map. exists (TCls n).
    split; [exact Hin|left; reflexivity]. }
  rewrite E. reflexivity.
Qed.

(* ---------- pointwise composition of relations along a list ---------- *)
Lemma Forall2_compose_iff {A B C} (R1 : A -> B -> Prop) (R2 : B -> C -> Prop) (R3 : A -> C -> Prop) l l1 :
  Forall2 R1 l l1 ->
  (forall x x1, In x l -> R1 x x1 -> forall x2, R2 x1 x2 <-> R3 x x2) ->
  forall l2, Forall2 R2 l1 l2 <-> Forall2 R3 l l2.
Proof.
  intros HF. induction HF as [|x x1 l l1 Hx HF IH]; intros H l2.
  - split; intros H2; inversion H2; constructor.
  - assert (IH' := IH (fun a a1 Ha => H a a1 (or_intror Ha))).
    split; intros H2; inversion H2 as [|? x2 ? l2' Hx2 HF2]; subst; constructor.
    + apply (H x x1 (or_introl eq_refl) Hx). exact Hx2.
    + apply IH'. exact HF2.
    + apply (H x x1 (or_introl eq_refl) Hx). exact Hx2.
    + apply IH'. exact HF2.
Qed.

(* ---------- one class ---------- *)
Lemma param_rel_compose p q x x1 :
  in_range (length p) q = true -> param_rel p x x1 ->
  forall x2, param_rel q x1 x2 <-> param_rel (compose p q) x x2.
Proof.
  intros Hq (H1 & H2 & H3) x2. unfold param_rel. rewrite H1, H2, H3, (permute_compose None p q _ Hq). reflexivity.
Qed.

Lemma class_rel_compose p q f g h c c1 :
  in_range (length p) q = true ->
  (forall d x, In d (class_descs c) -> In x (desc_classes d) -> f x <> [] /\ ~ In cSEMI (f x) /\ g (f x) = h x) ->
  class_rel f p c c1 ->
  forall c2, class_rel g q c1 c2 <-> class_rel h (compose p q) c c2.
Proof.
  intros Hq Hfg (Hn & Hd & HFf & _ & HFm & _) c2.
  assert (HF : forall fs2, Forall2 (field_rel g q) (c_fields c1) fs2 <-> Forall2 (field_rel h (compose p q)) (c_fields c) fs2).
  { apply (Forall2_compose_iff _ _ _ _ _ HFf). intros x x1 Hx (H1 & H2 & H3) x2. unfold field_rel.
    rewrite (map_desc_compose f g h _ _ H1), H2, H3, (permute_compose None p q _ Hq); [reflexivity|].
    intros y Hy. apply (Hfg (f_desc x)); [|exact Hy]. apply in_or_app. left. apply in_map. exact Hx. }
  assert (HM : forall ms2, Forall2 (meth_rel g q) (c_methods c1) ms2 <-> Forall2 (meth_rel h (compose p q)) (c_methods c) ms2).
  { apply (Forall2_compose_iff _ _ _ _ _ HFm). intros x x1 Hx (H1 & H2 & H3 & H4 & _) x2. unfold meth_rel.
    rewrite (map_desc_compose f g h _ _ H1), H2, H3, (permute_compose None p q _ Hq).
    2:{ intros y Hy. apply (Hfg (m_desc x)); [|exact Hy]. apply in_or_app. right. apply in_map. exact Hx. }
    assert (HP : Forall2 (param_rel q) (m_params x1) (m_params x2) <-> Forall2 (param_rel (compose p q)) (m_params x) (m_params x2)).
    { apply (Forall2_compose_iff _ _ _ _ _ H4). intros a a1 _ Ha. apply param_rel_compose; assumption. }
    rewrite HP. reflexivity. }
  unfold class_rel. rewrite Hn, Hd, (permute_compose None p q _ Hq), (HF (c_fields c2)), (HM (c_methods c2)). reflexivity.
Qed.

(* ---------- the class renamings compose ---------- *)
(* a successful reorder shows that every class had a name in the new first namespace *)
Lemma keys_named f t0 tr cs cs' :
  Forall2 (class_rel f (t0 :: tr)) cs cs' -> keys_good class_key cs' ->
  forall c, In c cs -> exists b, col_name t0 c = Some b.
Proof.
  intros HF [Hk _] c Hc. destruct (Forall2_in_l _ _ _ c HF Hc) as (c' & Hc' & (Hn & _)).
  rewrite Forall_forall in Hk. specialize (Hk c' Hc'). unfold class_key in Hk.
  rewrite Hn, first_name_permute in Hk. unfold col_name.
  destruct (nth_name (c_names c) t0) as [b|]; [exists b; reflexivity|congruence].
Qed.

Lemma class_maps_compose M p0 pr q0 M1 d x :
  wf M = true -> no_collision M p0 = true -> class_names_clean M = true ->
  Forall2 (class_rel (map_class (remapper_a M 0 p0)) (p0 :: pr)) (ms_classes M) (ms_classes M1) ->
  keys_good class_key (ms_classes M1) ->
  (q0 < length (p0 :: pr))%nat ->
  (forall c, In c (ms_classes M) -> exists b, col_name (nth q0 (p0 :: pr) O) c = Some b) ->
  In d (all_descs M) -> In x (desc_classes d) ->
  map_class (remapper_a M 0 p0) x <> []
  /\ ~ In cSEMI (map_class (remapper_a M 0 p0) x)
  /\ map_class (remapper_a M1 0 q0) (map_class (remapper_a M 0 p0) x)
     = map_class (remapper_a M 0 (nth q0 (p0 :: pr) O)) x.
Proof.
  intros Hwf Hnc Hcl HF Hk1 Hq0 Hall Hd Hx.
  destruct (wf_parts M Hwf) as (Hn & Hcls & Hkeys).
  set (pq0 := nth q0 (p0 :: pr) O) in *.
  assert (Hnd : NoDup (map (col_name 0) (ms_classes M))) by (rewrite <- keys_cols; exact (proj2 Hkeys)).
  assert (Hnd1 : NoDup (map (col_name 0) (ms_classes M1))) by (rewrite <- keys_cols; exact (proj2 Hk1)).
  assert (Hfirst : forall c c', class_rel (map_class (remapper_a M 0 p0)) (p0 :: pr) c c' ->
                                col_name 0 c' = col_name p0 c).
  { intros c c' (Hcn & _). unfold col_name. rewrite <- first_name_nth, Hcn. apply first_name_permute. }
  destruct (in_column x (column M 0)) eqn:Ecol.
  - (* x is a key of M: both routes lead to the name of that class in column p[q0] *)
    apply in_column_spec in Ecol. unfold column in Ecol. apply in_map_iff in Ecol.
    destruct Ecol as (c & Hc0 & Hc). destruct (Forall2_in_l _ _ _ c HF Hc) as (c1 & Hc1 & Hrel).
    destruct (keys_named _ _ _ _ _ HF Hk1 c Hc) as (b & Hb).
    destruct (Hall c Hc) as (e & He).
    rewrite (map_class_mapped M 0 p0 c x b Hnd Hc Hc0 Hb).
    rewrite (map_class_mapped M 0 pq0 c x e Hnd Hc Hc0 He).
    destruct (wf_class_parts _ c (Hcls c Hc)) as (Hcn & _).
    split; [exact (names_ok_nonempty _ _ p0 b Hcn Hb)|]. split; [exact (clean_name M c p0 b Hcl Hc Hb)|].
    apply (map_class_mapped M1 0 q0 c1 b e Hnd1 Hc1).
    + rewrite (Hfirst c c1 Hrel). exact Hb.
    + destruct Hrel as (Hcn' & _). unfold col_name, nth_name. rewrite Hcn'.
      rewrite nth_permute by exact Hq0. exact He.
  - (* x is not a key of M: it stays under every table *)
    assert (Hno : forall c, In c (ms_classes M) -> col_name 0 c <> Some x).
    { intros c Hc E. assert (Hi : In (Some x) (column M 0)).
      { unfold column. apply in_map_iff. exists c. split; [exact E|exact Hc]. }
      apply in_column_spec in Hi. congruence. }
    rewrite (map_class_unmapped M 0 p0 x Hno), (map_class_unmapped M 0 pq0 x Hno).
    destruct (desc_classes_wf d x Hx) as [Hne Hns]. split; [exact Hne|]. split; [exact Hns|].
    unfold no_collision in Hnc. rewrite forallb_forall in Hnc. specialize (Hnc d Hd).
    rewrite forallb_forall in Hnc. specialize (Hnc x Hx). rewrite Ecol in Hnc. cbn [orb] in Hnc.
    rewrite negb_true_iff in Hnc.
    apply map_class_unmapped. intros c1 Hc1 E.
    destruct (Forall2_in_r _ _ _ c1 HF Hc1) as (c & Hc & Hrel).
    rewrite (Hfirst c c1 Hrel) in E.
    assert (Hi : In (Some x) (column M p0)).
    { unfold column. apply in_map_iff. exists c. split; [exact E|exact Hc]. }
    apply in_column_spec in Hi. congruence.
Qed.

(* ---------- the action law ---------- *)
Theorem reorder_compose M p q M1 :
  wf M = true -> in_range (length p) q = true ->
  no_collision M (hd O p) = true -> class_names_clean M = true ->
  reorder M p = Ok M1 ->
  forall M2, reorder M1 q = Ok M2 <-> reorder M (compose p q) = Ok M2.
Proof.
  intros Hwf Hq Hnc Hcl H M2. apply reorder_spec in H. destruct H as (Hne & Hns & Hdoc & HF & Hk1).
  destruct p as [|p0 pr]; [congruence|]. cbn [hd] in *.
  rewrite !reorder_spec. unfold reordered.
  destruct q as [|q0 qr]; [cbn [compose map]; split; intros (Hx & _); congruence|].
  assert (Ehd : hd O (compose (p0 :: pr) (q0 :: qr)) = nth q0 (p0 :: pr) O) by reflexivity.
  rewrite Ehd. cbn [hd]. set (pq0 := nth q0 (p0 :: pr) O).
  assert (Hq0 : (q0 < length (p0 :: pr))%nat) by (apply (proj1 (in_range_spec _ _) Hq); left; reflexivity).
  rewrite Hns, Hdoc, (permute_compose [] (p0 :: pr) (q0 :: qr) _ Hq).
  (* with every class named in column p[q0], the class lists correspond *)
  assert (Hmain : (forall c, In c (ms_classes M) -> exists b, col_name pq0 c = Some b) ->
            (Forall2 (class_rel (map_class (remapper_a M1 0 q0)) (q0 :: qr)) (ms_classes M1) (ms_classes M2)
             <-> Forall2 (class_rel (map_class (remapper_a M 0 pq0)) (compose (p0 :: pr) (q0 :: qr))) (ms_classes M) (ms_classes M2))).
  { intros Hall. apply (Forall2_compose_iff _ _ _ _ _ HF). intros c c1 Hc Hrel.
    apply (class_rel_compose (p0 :: pr) (q0 :: qr) (map_class (remapper_a M 0 p0))); [exact Hq| |exact Hrel].
    intros d x Hd Hx.
    exact (class_maps_compose M p0 pr q0 M1 d x Hwf Hnc Hcl HF Hk1 Hq0 Hall (in_all_descs M c d Hc Hd) Hx). }
  split.
  - intros (_ & E1 & E2 & HF2 & Hk2).
    assert (Hall : forall c, In c (ms_classes M) -> exists b, col_name pq0 c = Some b).
    { intros c Hc. destruct (Forall2_in_l _ _ _ c HF Hc) as (c1 & Hc1 & (Hcn & _)).
      destruct (keys_named _ _ _ _ _ HF2 Hk2 c1 Hc1) as (b & Hb). exists b.
      unfold col_name, nth_name in *. rewrite Hcn, nth_permute in Hb by exact Hq0. exact Hb. }
    split; [rewrite compose_cons; discriminate|]. split; [exact E1|]. split; [exact E2|].
    split; [apply (Hmain Hall); exact HF2|exact Hk2].
  - intros (_ & E1 & E2 & HF2 & Hk2).
    assert (Hall : forall c, In c (ms_classes M) -> exists b, col_name pq0 c = Some b).
    { rewrite compose_cons in HF2. exact (keys_named _ _ _ _ _ HF2 Hk2). }
    split; [discriminate|]. split; [exact E1|]. split; [exact E2|].
    split; [apply (Hmain Hall); exact HF2|exact Hk2].
Qed.

(* the same as an equation between results: failure of the second step included *)
Theorem reorder_compose_eq M p q M1 :
  wf M = true -> in_range (length p) q = true ->
  no_collision M (hd O p) = true -> class_names_clean M = true ->
  reorder M p = Ok M1 -> reorder M1 q = reorder M (compose p q).
Proof.
  intros Hwf Hq Hnc Hcl H. pose proof (reorder_compose M p q M1 Hwf Hq Hnc Hcl H) as Hiff.
  destruct (reorder M1 q) as [M2|] eqn:E1.
  - symmetry. apply Hiff. reflexivity.
  - destruct (reorder M (compose p q)) as [M2|] eqn:E2; [|reflexivity].
    pose proof (proj2 (Hiff M2) eq_refl) as Hc. discriminate Hc.
Qed.

(* ---------- the public entry point: the order asked for last is the order one gets ---------- *)
Lemma get_namespace_In ns x : In x ns -> exists i, get_namespace ns x = Ok i.
Proof.
  induction ns as [|y ns IH]; intros H; [destruct H|]. cbn [get_namespace].
  destruct (str_eqb_spec y x) as [_|Hne]; [exists O; reflexivity|].
  destruct H as [E|H]; [congruence|]. destruct (IH H) as (i & Hi). exists (S i). rewrite Hi. reflexivity.
Qed.

(* looking a name up in the original header = looking it up in the reordered header and going
   through the table *)
Lemma get_namespace_permuted ns t x :
  NoDup ns -> is_permb (length ns) t = true ->
  get_namespace ns x = do j <- get_namespace (permute [] t ns) x; Ok (nth j t O).
Proof.
  intros Hnd Hp. pose proof (proj1 (is_permb_spec _ _) Hp) as [Hlen Hin].
  pose proof (proj1 (in_range_spec _ _) (is_permb_in_range _ _ Hp)) as Hrange.
  destruct (get_namespace (permute [] t ns) x) as [j|] eqn:E; cbn [bind].
  - destruct (get_namespace_spec _ _ _ E) as [Hj Hx]. rewrite permute_length in Hj.
    rewrite nth_permute in Hx by exact Hj. rewrite <- Hx. apply get_namespace_nth; [exact Hnd|].
    apply Hrange. apply nth_In. exact Hj.
  - destruct (get_namespace ns x) as [k|] eqn:E2; [|reflexivity]. exfalso.
    destruct (get_namespace_spec _ _ _ E2) as [Hk Hx].
    destruct (index_of_spec k t (Hin k Hk)) as [Hj Hjk].
    assert (Hi : In x (permute [] t ns)).
    { assert (E3 : nth (index_of k t) (permute [] t ns) [] = x)
        by (rewrite nth_permute by exact Hj; rewrite Hjk; exact Hx).
      rewrite <- E3. apply nth_In. rewrite permute_length. exact Hj. }
    destruct (get_namespace_In _ _ Hi) as (i & Hi'). congruence.
Qed.

Lemma map_res_through {A B C} (f : A -> res B) (g : B -> C) (f' : A -> res C) l :
  (forall x, f' x = do j <- f x; Ok (g j)) ->
  map_res f' l = do q <- map_res f l; Ok (map g q).
Proof.
  intros H. induction l as [|x l IH]; [reflexivity|]. cbn [map_res]. rewrite H, IH.
  destruct (f x) as [j|]; cbn [bind]; [|reflexivity].
  destruct (map_res f l) as [q|]; reflexivity.
Qed.

Theorem reorder_by_names_compose M nms M1 :
  wf M = true -> nodup_ns M = true -> Permutation nms (ms_ns M) ->
  no_collision_names M nms = true -> class_names_clean M = true ->
  reorder_by_names M nms = Ok M1 ->
  forall nms2, reorder_by_names M1 nms2 = reorder_by_names M nms2.
Proof.
  intros Hwf Hnd Hperm Hnc Hcl H nms2. apply nodup_ns_spec in Hnd.
  destruct (reorder_table_perm M nms Hnd Hperm) as (t & Ht & Hp & Hnms).
  unfold reorder_by_names in H. unfold no_collision_names in Hnc. rewrite Ht in H, Hnc. cbn [bind] in H.
  assert (Hns1 : ms_ns M1 = nms).
  { apply reorder_spec in H. destruct H as (_ & Hns & _). rewrite Hns. exact Hnms. }
  assert (Hnc' : no_collision M (hd O t) = true) by (destruct t; [cbn [reorder] in H; discriminate H|exact Hnc]).
  unfold reorder_by_names, reorder_table. rewrite Hns1.
  rewrite (map_res_through (get_namespace nms) (fun j => nth j t O) (get_namespace (ms_ns M)) nms2).
  2:{ intros x. rewrite <- Hnms. apply get_namespace_permuted; assumption. }
  destruct (map_res (get_namespace nms) nms2) as [q|] eqn:Eq; cbn [bind]; [|reflexivity].
  change (map (fun j => nth j t O) q) with (compose t q).
  apply reorder_compose_eq; try assumption.
  apply in_range_spec. intros j Hj. apply map_res_Forall2 in Eq.
  destruct (Forall2_in_r _ _ _ j Eq Hj) as (x & _ & Hx).
  destruct (get_namespace_spec _ _ _ Hx) as [Hlt _]. rewrite <- Hnms, permute_length in Hlt. exact Hlt.
Qed.

(* ---------- non-vacuity, and: the law separates the two directions of the table ---------- *)
(* A lookup table built the other way round (the position of old column i instead of the old column
   of position i, i.e. [inv_perm t]) is indistinguishable from the right one on the identity and on
   every involution - in particular on every order of two namespaces - and even satisfies the inverse
   law.  The action law tells them apart on two orders of three namespaces that do not commute. *)
Definition compose_example : Prop :=
  let p := [1; 2; 0]%nat in
  let q := [1; 0; 2]%nat in
  wf M_ex = true /\ in_range (length p) q = true /\ no_collision M_ex (hd O p) = true /\ class_names_clean M_ex = true
  /\ compose p q = [2; 1; 0]%nat
  /\ match reorder M_ex p with
     | Ok M1 => is_ok (reorder M1 q) && res_eqb mappings_eqb (reorder M1 q) (reorder M_ex (compose p q))
     | Err => false
     end = true
  (* the other direction: first by p, then by q, against the composed table - all three inverted *)
  /\ match reorder M_ex (inv_perm p) with
     | Ok M1 => is_ok (reorder M1 (inv_perm q))
                && negb (res_eqb mappings_eqb (reorder M1 (inv_perm q)) (reorder M_ex (inv_perm (compose p q))))
     | Err => false
     end = true
  (* by names: going to one order and from there to another is going to the other directly *)
  /\ match reorder_by_names M_ex (ms_ns M_ex_201) with
     | Ok M1 => forallb (fun nms2 => is_ok (reorder_by_names M1 nms2)
                                     && res_eqb mappings_eqb (reorder_by_names M1 nms2) (reorder_by_names M_ex nms2))
                        (perms (ms_ns M_ex))
     | Err => false
     end = true.
Lemma compose_example_holds : compose_example.
Proof. unfold compose_example. repeat split; vm_compute; reflexivity. Qed.

(* ---------- the header, the comment of the set, and the direction of the table, spelled out ---------- *)
Theorem reorder_header M t M' :
  reorder M t = Ok M' ->
  ms_ns M' = map (fun i => nth i (ms_ns M) []) t /\ ms_doc M' = ms_doc M.
Proof. intros H. apply reorder_spec in H. destruct H as (_ & Hns & Hdoc & _). split; assumption. Qed.

(* by names: the header of the result is the list of names that was asked for *)
Theorem reorder_by_names_header M nms M' :
  reorder_by_names M nms = Ok M' -> ms_ns M' = nms /\ ms_doc M' = ms_doc M.
Proof.
  unfold reorder_by_names. intros H. apply bind_ok in H. destruct H as (t & Ht & H).
  destruct (reorder_header M t M' H) as [Hns Hdoc]. split; [|exact Hdoc]. rewrite Hns.
  unfold reorder_table in Ht. apply map_res_Forall2 in Ht. clear -Ht.
  induction Ht as [|x i nms t Hx Ht IH]; [reflexivity|]. cbn [map]. f_equal; [|exact IH].
  exact (proj2 (get_namespace_spec _ _ _ Hx)).
Qed.

Lemma Forall2_nth_error {A B} (R : A -> B -> Prop) l l' : Forall2 R l l' ->
  forall k x, nth_error l k = Some x -> exists y, nth_error l' k = Some y /\ R x y.
Proof.
  intros HF. induction HF as [|a b l l' Hab HF IH]; intros k x Hk; [destruct k; discriminate|].
  destruct k as [|k]; cbn [nth_error] in *.
  - injection Hk as <-. exists b. split; [reflexivity|exact Hab].
  - exact (IH k x Hk).
Qed.

(* direction: the k-th class stays the k-th class, and its name at NEW position i is its name in
   OLD column t[i]; likewise for its j-th field and method *)
Theorem reorder_direction M t M' :
  reorder M t = Ok M' ->
  forall k c, nth_error (ms_classes M) k = Some c ->
  exists c', nth_error (ms_classes M') k = Some c'
    /\ c_doc c' = c_doc c
    /\ (forall i, (i < length t)%nat -> nth_name (c_names c') i = nth_name (c_names c) (nth i t O))
    /\ (forall j f, nth_error (c_fields c) j = Some f -> exists f', nth_error (c_fields c') j = Some f'
          /\ f_doc f' = f_doc f
          /\ forall i, (i < length t)%nat -> nth_name (f_names f') i = nth_name (f_names f) (nth i t O))
    /\ (forall j m, nth_error (c_methods c) j = Some m -> exists m', nth_error (c_methods c') j = Some m'
          /\ m_doc m' = m_doc m
          /\ (forall i, (i < length t)%nat -> nth_name (m_names m') i = nth_name (m_names m) (nth i t O))
          /\ forall l x, nth_error (m_params m) l = Some x -> exists x', nth_error (m_params m') l = Some x'
               /\ p_index x' = p_index x /\ p_doc x' = p_doc x
               /\ forall i, (i < length t)%nat -> nth_name (p_names x') i = nth_name (p_names x) (nth i t O)).
Proof.
  intros H k c Hk. apply reorder_spec in H. destruct H as (_ & _ & _ & HF & _).
  destruct (Forall2_nth_error _ _ _ HF k c Hk) as (c' & Hk' & (Hn & Hd & HFf & _ & HFm & _)).
  assert (Hrow : forall (l l' : names), l' = permute None t l ->
                 forall i, (i < length t)%nat -> nth_name l' i = nth_name l (nth i t O)).
  { intros l l' -> i Hi. unfold nth_name. apply nth_permute. exact Hi. }
  exists c'. split; [exact Hk'|]. split; [exact Hd|]. split; [exact (Hrow _ _ Hn)|]. split.
  - intros j f Hj. destruct (Forall2_nth_error _ _ _ HFf j f Hj) as (f' & Hj' & (_ & F2 & F3)).
    exists f'. split; [exact Hj'|]. split; [exact F3|exact (Hrow _ _ F2)].
  - intros j m Hj. destruct (Forall2_nth_error _ _ _ HFm j m Hj) as (m' & Hj' & (_ & M2 & M3 & M4 & _)).
    exists m'. split; [exact Hj'|]. split; [exact M3|]. split; [exact (Hrow _ _ M2)|].
    intros l x Hl. destruct (Forall2_nth_error _ _ _ M4 l x Hl) as (x' & Hl' & (P1 & P2 & P3)).
    exists x'. split; [exact Hl'|]. split; [exact P1|]. split; [exact P3|exact (Hrow _ _ P2)].
Qed.
