(* C01 — executable model of duke's code-array reader (duke/src/class_reader.rs read_code,
   class_reader/labels.rs) and of the GENERAL encoder of instruction streams the theorems quantify
   over.  Definitions only; proofs are in Theory*.v.

   Instructions are modelled as duke delivers them: [Gen ctor ops] is the Instruction constructor
   named by its canonical opcode (Opcodes.v, generated from the second-pass match) with the operand
   values in the order they are read; constant-pool operands stay indices here (resolution is the
   pool layer, Pool.v).  Branch targets have type T: instruction indices (nat) in bodies handed to
   the encoder, bytecode offsets (N) in what the reader produces before [sem]. *)
From FB Require Export C01.Bytes C01.Opcodes.
From FB Require Import Base.Sort.

(* OpC: a constant-pool index together with the accessor it is resolved with (numbering of Opcodes.v) *)
Inductive operand (T : Type) := OpN (n : N) | OpZ (z : Z) | OpT (t : T) | OpC (kind idx : N).
Arguments OpN {T} n. Arguments OpZ {T} z. Arguments OpT {T} t. Arguments OpC {T} kind idx.

Inductive ainsn (T : Type) :=
| Gen (ctor : N) (ops : list (operand T))
| TSw (dflt : T) (low high : Z) (tbl : list T)
| LSw (dflt : T) (pairs : list (Z * T)).
Arguments Gen {T} ctor ops. Arguments TSw {T} dflt low high tbl. Arguments LSw {T} dflt pairs.

Definition map_op {A B} (f : A -> B) (o : operand A) : operand B :=
  match o with OpN n => OpN n | OpZ z => OpZ z | OpT t => OpT (f t) | OpC k i => OpC k i end.
Definition map_insn {A B} (f : A -> B) (i : ainsn A) : ainsn B :=
  match i with
  | Gen c ops => Gen c (map (map_op f) ops)
  | TSw d lo hi tbl => TSw (f d) lo hi (map f tbl)
  | LSw d ps => LSw (f d) (map (fun p => (fst p, f (snd p))) ps)
  end.

Definition op_targets {T} (o : operand T) : list T := match o with OpT t => [t] | _ => [] end.
Definition targets {T} (i : ainsn T) : list T :=
  match i with
  | Gen _ ops => flat_map op_targets ops
  | TSw d _ _ tbl => d :: tbl
  | LSw d ps => d :: map snd ps
  end.

(* ------------------------------------------------------------------------------------------ *)
(* operand reads (generated type rdk): width, and whether the read creates/uses a label *)
Definition rd_len (r : rdk) : N :=
  match r with
  | RU8 | RI8 | RLv8 | RSkip8 | RAtype | RCp8 _ => 1
  | RI16 | RLv16 | RBr16 | RCp16 _ => 2
  | RBr32 => 4
  end.
Fixpoint reads_len (rs : list rdk) : N :=
  match rs with [] => 0 | r :: rs' => rd_len r + reads_len rs' end.
Definition is_br (r : rdk) : bool := match r with RBr16 | RBr32 => true | _ => false end.
Definition no_br (rs : list rdk) : bool := forallb (fun r => negb (is_br r)) rs.

(* number of alignment bytes after a switch opcode at offset pos (align_to_4_byte_boundary: the
   cursor stands at pos+1) *)
Definition pad_of (pos : N) : N := 3 - pos mod 4.

(* ------------------------------------------------------------------------------------------ *)
(* THE ENCODER.  A choice picks, per instruction, the opcode form (any opcode whose second-pass arm
   builds the instruction's constructor, directly or behind the wide prefix) and the value of the
   bytes the reader ignores (invokeinterface count, invokedynamic zeros, switch padding). *)
Inductive form := FPlain (op : N) | FWide (op : N).
(* [c_fill]: the values of the bytes the reader ignores, in the order they stand in the instruction
   (invokeinterface count and zero, the two zeros of invokedynamic, up to three bytes of switch
   padding); missing ones are 0 *)
Record choice := { c_form : form; c_fill : list N }.
Definition pad_bytes (fill : list N) (n : nat) : bytes := firstn n (fill ++ repeat 0 n).

Definition p2_len (e : p2) : N :=
  match e with P2 _ rs => reads_len rs | _ => 0 end.

Definition size (c : choice) (pos : N) (i : ainsn nat) : N :=
  match i with
  | Gen _ _ => match c_form c with
               | FPlain op => 1 + p2_len (pass2_entry op)
               | FWide op => 2 + p2_len (pass2_wide_entry op)
               end
  | TSw _ _ _ tbl => 1 + pad_of pos + 12 + 4 * N.of_nat (length tbl)
  | LSw _ ps => 1 + pad_of pos + 8 + 8 * N.of_nat (length ps)
  end.

Fixpoint layout_from (ch : nat -> choice) (k : nat) (pos : N) (body : list (ainsn nat)) : list N :=
  match body with
  | [] => [pos]
  | i :: rest => pos :: layout_from ch (S k) (pos + size (ch k) pos i) rest
  end.
Definition layout (ch : nat -> choice) (body : list (ainsn nat)) : list N := layout_from ch 0 0 body.
Definition posf_of (lay : list N) (t : nat) : N := nth t lay 0.

Definition rel_off (posf : nat -> N) (pos : N) (t : nat) : Z := (Z.of_N (posf t) - Z.of_N pos)%Z.

Definition enc_op (posf : nat -> N) (pos : N) (r : rdk) (o : operand nat) : option bytes :=
  match r, o with
  | RU8, OpN n | RLv8, OpN n => if n <? 256 then Some [n] else None
  | RCp8 k, OpC k' n => if (k =? k') && (n <? 256) then Some [n] else None
  | RCp16 k, OpC k' n => if (k =? k') && (n <? 65536) then Some (be16 n) else None
  | RAtype, OpN n => if mem_N n atypes then Some [n] else None
  | RI8, OpZ z => if fits8 z then Some [u8 z] else None
  | RI16, OpZ z => if fits16 z then Some (bei16 z) else None
  | RLv16, OpN n => if n <? 65536 then Some (be16 n) else None
  | RBr16, OpT t => if fits16 (rel_off posf pos t) then Some (bei16 (rel_off posf pos t)) else None
  | RBr32, OpT t => if fits32 (rel_off posf pos t) then Some (bei32 (rel_off posf pos t)) else None
  | _, _ => None
  end.

Fixpoint enc_ops (posf : nat -> N) (pos : N) (fill : list N) (rs : list rdk) (ops : list (operand nat)) : option bytes :=
  match rs with
  | [] => match ops with [] => Some [] | _ => None end
  | RSkip8 :: rs' => match enc_ops posf pos (tl fill) rs' ops with Some b => Some (hd 0 fill :: b) | None => None end
  | r :: rs' =>
    match ops with
    | o :: ops' =>
      match enc_op posf pos r o, enc_ops posf pos fill rs' ops' with
      | Some a, Some b => Some (a ++ b)
      | _, _ => None
      end
    | [] => None
    end
  end.

Definition all_fit32 (zs : list Z) : bool := forallb fits32 zs.

Definition enc1 (posf : nat -> N) (pos : N) (c : choice) (i : ainsn nat) : option bytes :=
  let fill := c_fill c in
  match i with
  | Gen ctor ops =>
    match c_form c with
    | FPlain op =>
      match pass2_entry op with
      | P2 ctor' rs => if ctor' =? ctor
                       then match enc_ops posf pos fill rs ops with Some b => Some (op :: b) | None => None end
                       else None
      | P2Short ctor' idx => match ops with
                             | [OpN n] => if (ctor' =? ctor) && (n =? idx) then Some [op] else None
                             | _ => None
                             end
      | _ => None
      end
    | FWide op =>
      match pass2_wide_entry op with
      | P2 ctor' rs => if ctor' =? ctor
                       then match enc_ops posf pos fill rs ops with Some b => Some (op_WIDE :: op :: b) | None => None end
                       else None
      | _ => None
      end
    end
  | TSw d lo hi tbl =>
    if (lo <=? hi)%Z && (Z.of_nat (length tbl) =? hi - lo + 1)%Z && fits32 lo && fits32 hi
       && all_fit32 (map (rel_off posf pos) (d :: tbl))
    then Some (op_TABLESWITCH :: pad_bytes fill (N.to_nat (pad_of pos)) ++ bei32 (rel_off posf pos d) ++ bei32 lo ++ bei32 hi
               ++ flat_map (fun t => bei32 (rel_off posf pos t)) tbl)
    else None
  | LSw d ps =>
    if fits32 (Z.of_nat (length ps)) && all_fit32 (map fst ps) && all_fit32 (map (rel_off posf pos) (d :: map snd ps))
    then Some (op_LOOKUPSWITCH :: pad_bytes fill (N.to_nat (pad_of pos)) ++ bei32 (rel_off posf pos d) ++ bei32 (Z.of_nat (length ps))
               ++ flat_map (fun p => bei32 (fst p) ++ bei32 (rel_off posf pos (snd p))) ps)
    else None
  end.

Fixpoint encode_from (ch : nat -> choice) (posf : nat -> N) (k : nat) (pos : N) (body : list (ainsn nat)) : option bytes :=
  match body with
  | [] => Some []
  | i :: rest =>
    match enc1 posf pos (ch k) i, encode_from ch posf (S k) (pos + size (ch k) pos i) rest with
    | Some b, Some bs => Some (b ++ bs)
    | _, _ => None
    end
  end.

Definition encode (ch : nat -> choice) (body : list (ainsn nat)) : option bytes :=
  encode_from ch (posf_of (layout ch body)) 0 0 body.

(* ------------------------------------------------------------------------------------------ *)
(* Labels (class_reader/labels.rs): the set of bytecode offsets that received a label, in creation
   order (the id duke hands out is the position in this list; ids are erased by [sem]) *)
Definition labels := list N.
Definition lbl_add (ls : labels) (pc : N) : labels := if mem_N pc ls then ls else ls ++ [pc].
Definition lbl_create (clen : N) (ls : labels) (pc : N) : res labels :=        (* create / get_or_create *)
  if pc <? clen then Ok (lbl_add ls pc) else Err.
Definition lbl_create_excl (clen : N) (ls : labels) (pc : N) : res labels :=   (* get_or_create_check_exclusive *)
  if pc <=? clen then Ok (lbl_add ls pc) else Err.
Definition lbl_range (clen : N) (ls : labels) (start len : N) : res labels :=  (* get_or_create_range *)
  do ls1 <- lbl_create clen ls start;
  if start + len <? 65536 then lbl_create_excl clen ls1 (start + len) else Err. (* u16 overflow: panic in duke *)
Definition lbl_get (ls : labels) (pc : N) : bool := mem_N pc ls.

(* read_i16/i32_as_branch_target_label: checked_add_signed on u16, resp. on u32 then try_into u16 *)
Definition br_target (pos : N) (off : Z) : res N :=
  let t := (Z.of_N pos + off)%Z in
  if (0 <=? t)%Z && (t <? 65536)%Z then Ok (Z.to_N t) else Err.

Fixpoint skip_nat (k : nat) (s : bytes) : res bytes :=
  match k with
  | O => Ok s
  | S k' => match s with [] => Err | _ :: r => skip_nat k' r end
  end.
Definition skip_res (k : N) (s : bytes) : res bytes := skip_nat (N.to_nat k) s.

(* n consecutive i32 branch offsets (tableswitch arms), each creating a label *)
Fixpoint scan_arms (clen pos : N) (n : nat) (s : bytes) (ls : labels) : res (bytes * labels) :=
  match n with
  | O => Ok (s, ls)
  | S n' =>
    do (off, s1) <- rd_i32 s;
    do t <- br_target pos off;
    do ls1 <- lbl_create clen ls t;
    scan_arms clen pos n' s1 ls1
  end.
Fixpoint scan_pairs (clen pos : N) (n : nat) (s : bytes) (ls : labels) : res (bytes * labels) :=
  match n with
  | O => Ok (s, ls)
  | S n' =>
    do (_, s0) <- rd_i32 s;
    do (off, s1) <- rd_i32 s0;
    do t <- br_target pos off;
    do ls1 <- lbl_create clen ls t;
    scan_pairs clen pos n' s1 ls1
  end.

(* a count taken from the input is only turned into a nat after checking that the remaining bytes
   can hold that many entries (otherwise some read fails: Err) *)
Definition count_ok (n : Z) (entry : N) (s : bytes) : bool :=
  ((0 <=? n) && (n * Z.of_N entry <=? Z.of_nat (length s)))%Z.

(* PASS 1, one instruction: new offset, remaining bytes, labels *)
Definition scan1 (clen pos : N) (s : bytes) (ls : labels) : res (N * bytes * labels) :=
  match s with
  | [] => Err
  | op :: r =>
    match pass1_class op with
    | OFixed k => do r' <- skip_res k r; Ok (pos + 1 + k, r', ls)
    | OWide =>
      match r with
      | sub :: r1 =>
        match pass1_wide sub with
        | Some k => do r' <- skip_res k r1; Ok (pos + 2 + k, r', ls)
        | None => Err
        end
      | [] => Err
      end
    | OBr16 =>
      do (off, r') <- rd_i16 r; do t <- br_target pos off; do ls' <- lbl_create clen ls t;
      Ok (pos + 3, r', ls')
    | OBr32 =>
      do (off, r') <- rd_i32 r; do t <- br_target pos off; do ls' <- lbl_create clen ls t;
      Ok (pos + 5, r', ls')
    | OTSwitch =>
      do r1 <- skip_res (pad_of pos) r;
      do (d, r2) <- rd_i32 r1; do t <- br_target pos d; do ls1 <- lbl_create clen ls t;
      do (lo, r3) <- rd_i32 r2;
      do (hi, r4) <- rd_i32 r3;
      if (lo >? hi)%Z then Err else
      let n := (hi - lo + 1)%Z in
      if count_ok n 4 r4 then
        do (r5, ls2) <- scan_arms clen pos (Z.to_nat n) r4 ls1;
        Ok (pos + 1 + pad_of pos + 12 + 4 * Z.to_N n, r5, ls2)
      else Err
    | OLSwitch =>
      do r1 <- skip_res (pad_of pos) r;
      do (d, r2) <- rd_i32 r1; do t <- br_target pos d; do ls1 <- lbl_create clen ls t;
      do (n, r3) <- rd_i32 r2;
      if count_ok n 8 r3 then
        do (r4, ls2) <- scan_pairs clen pos (Z.to_nat n) r3 ls1;
        Ok (pos + 1 + pad_of pos + 8 + 8 * Z.to_N n, r4, ls2)
      else Err
    | OBad => Err
    end
  end.

Fixpoint scan (fuel : nat) (clen pos : N) (s : bytes) (ls : labels) : res labels :=
  match s with
  | [] => Ok ls
  | _ =>
    match fuel with
    | O => Err
    | S f => do (pos', s', ls') <- scan1 clen pos s ls; scan f clen pos' s' ls'
    end
  end.

(* PASS 2 *)
Definition try_get (ls : labels) (pc : N) : res N := if lbl_get ls pc then Ok pc else Err.

Fixpoint dec_ops (ls : labels) (pos : N) (rs : list rdk) (s : bytes) : res (list (operand N) * bytes) :=
  match rs with
  | [] => Ok ([], s)
  | r :: rs' =>
    match r with
    | RSkip8 => do (_, s1) <- rd_u8 s; dec_ops ls pos rs' s1
    | RU8 | RLv8 =>
      do (v, s1) <- rd_u8 s; do (os, s2) <- dec_ops ls pos rs' s1; Ok (OpN v :: os, s2)
    | RCp8 k =>
      do (v, s1) <- rd_u8 s; do (os, s2) <- dec_ops ls pos rs' s1; Ok (OpC k v :: os, s2)
    | RCp16 k =>
      do (v, s1) <- rd_u16 s; do (os, s2) <- dec_ops ls pos rs' s1; Ok (OpC k v :: os, s2)
    | RAtype =>
      do (v, s1) <- rd_u8 s;
      if mem_N v atypes then do (os, s2) <- dec_ops ls pos rs' s1; Ok (OpN v :: os, s2) else Err
    | RI8 => do (v, s1) <- rd_i8 s; do (os, s2) <- dec_ops ls pos rs' s1; Ok (OpZ v :: os, s2)
    | RI16 => do (v, s1) <- rd_i16 s; do (os, s2) <- dec_ops ls pos rs' s1; Ok (OpZ v :: os, s2)
    | RLv16 =>
      do (v, s1) <- rd_u16 s; do (os, s2) <- dec_ops ls pos rs' s1; Ok (OpN v :: os, s2)
    | RBr16 =>
      do (off, s1) <- rd_i16 s; do t <- br_target pos off; do l <- try_get ls t;
      do (os, s2) <- dec_ops ls pos rs' s1; Ok (OpT l :: os, s2)
    | RBr32 =>
      do (off, s1) <- rd_i32 s; do t <- br_target pos off; do l <- try_get ls t;
      do (os, s2) <- dec_ops ls pos rs' s1; Ok (OpT l :: os, s2)
    end
  end.

Fixpoint dec_arms (ls : labels) (pos : N) (n : nat) (s : bytes) : res (list N * bytes) :=
  match n with
  | O => Ok ([], s)
  | S n' =>
    do (off, s1) <- rd_i32 s; do t <- br_target pos off; do l <- try_get ls t;
    do (ts, s2) <- dec_arms ls pos n' s1; Ok (l :: ts, s2)
  end.
Fixpoint dec_pairs (ls : labels) (pos : N) (n : nat) (s : bytes) : res (list (Z * N) * bytes) :=
  match n with
  | O => Ok ([], s)
  | S n' =>
    do (key, s0) <- rd_i32 s;
    do (off, s1) <- rd_i32 s0; do t <- br_target pos off; do l <- try_get ls t;
    do (ps, s2) <- dec_pairs ls pos n' s1; Ok ((key, l) :: ps, s2)
  end.

Definition dec_entry (ls : labels) (pos : N) (hdr : N) (op : N) (e : p2) (r : bytes) : res (ainsn N * N * bytes) :=
  match e with
  | P2 ctor rs => do (ops, r') <- dec_ops ls pos rs r; Ok (Gen ctor ops, pos + hdr + reads_len rs, r')
  | P2Short ctor idx => Ok (Gen ctor [OpN idx], pos + hdr, r)
  | _ => Err
  end.

Definition dec1 (ls : labels) (pos : N) (s : bytes) : res (ainsn N * N * bytes) :=
  match s with
  | [] => Err
  | op :: r =>
    match pass2_entry op with
    | P2Wide =>
      match r with
      | sub :: r1 =>
        match pass2_wide_entry sub with
        | P2 ctor rs => dec_entry ls pos 2 sub (P2 ctor rs) r1
        | _ => Err
        end
      | [] => Err
      end
    | P2TSwitch =>
      do r1 <- skip_res (pad_of pos) r;
      do (d, r2) <- rd_i32 r1; do t <- br_target pos d; do dl <- try_get ls t;
      do (lo, r3) <- rd_i32 r2;
      do (hi, r4) <- rd_i32 r3;
      if (lo >? hi)%Z then Err else
      let n := (hi - lo + 1)%Z in
      if count_ok n 4 r4 then
        do (tbl, r5) <- dec_arms ls pos (Z.to_nat n) r4;
        Ok (TSw dl lo hi tbl, pos + 1 + pad_of pos + 12 + 4 * Z.to_N n, r5)
      else Err
    | P2LSwitch =>
      do r1 <- skip_res (pad_of pos) r;
      do (d, r2) <- rd_i32 r1; do t <- br_target pos d; do dl <- try_get ls t;
      do (n, r3) <- rd_i32 r2;
      if count_ok n 8 r3 then
        do (ps, r4) <- dec_pairs ls pos (Z.to_nat n) r3;
        Ok (LSw dl ps, pos + 1 + pad_of pos + 8 + 8 * Z.to_N n, r4)
      else Err
    | e => dec_entry ls pos 1 op e r
    end
  end.

(* the second loop: every instruction with the offset of its opcode *)
Fixpoint decode (fuel : nat) (ls : labels) (pos : N) (s : bytes) : res (list (N * ainsn N)) :=
  match s with
  | [] => Ok []
  | _ =>
    match fuel with
    | O => Err
    | S f => do (i, pos', s') <- dec1 ls pos s; do rest <- decode f ls pos' s'; Ok ((pos, i) :: rest)
    end
  end.

(* ------------------------------------------------------------------------------------------ *)
(* The Code attribute as the reader sees it: the code array plus the label-carrying tables, already
   split into their u16 fields (the framing of these tables is plain; Attr.v). *)
Record code_in := {
  ci_code : bytes;
  ci_exc : list (N * N * N);          (* start_pc, end_pc, handler_pc *)
  ci_lines : list (N * N);            (* start_pc, line *)
  ci_ranges : list (N * N);           (* start_pc, length of LocalVariable(Type)Table and localvar type-annotation targets *)
  ci_frames : list N;                 (* offset_delta of each StackMapTable frame, in order *)
  ci_cldc : option (list N);          (* the CLDC StackMap attribute, if there is one: the offset of each entry, in file order *)
  ci_points : list N                  (* other offsets resolved with get_or_create: Uninitialized verification
                                         types, offset targets of type annotations *)
}.

(* what the reader hands to the visitor, labels still being offsets *)
Record code_raw := {
  cr_insns : list (N * ainsn N);      (* opcode offset, instruction *)
  cr_labels : labels;
  cr_clen : N;
  cr_frames : list N                  (* absolute offsets of the frames *)
}.

Fixpoint fold_res {A B} (f : A -> B -> res A) (a : A) (l : list B) : res A :=
  match l with [] => Ok a | x :: l' => do a' <- f a x; fold_res f a' l' end.

(* offset += offset_delta + (if i == 0 { 0 } else { 1 }); u16 arithmetic (overflow: panic in duke) *)
Fixpoint frame_offsets (first : bool) (acc : N) (ds : list N) : res (list N) :=
  match ds with
  | [] => Ok []
  | d :: ds' =>
    let o := acc + d + (if first then 0 else 1) in
    if o <? 65536 then do r <- frame_offsets false o ds'; Ok (o :: r) else Err
  end.

Definition read_code_raw (ci : code_in) : res code_raw :=
  let code := ci_code ci in
  let clen := N.of_nat (length code) in
  if (clen =? 0) || (65535 <? clen) then Err else
  do ls0 <- scan (S (length code)) clen 0 code [];
  do ls1 <- fold_res (fun ls e => match e with (s, e', h) =>
              do a <- lbl_create clen ls s; do b <- lbl_create_excl clen a e'; lbl_create clen b h end) ls0 (ci_exc ci);
  (* StackMapTable: offsets from the deltas.  StackMap (CLDC): absolute offsets in any order; the
     frames are queued in the order of their offsets (`sort_by_key(offset)`, stable).  Both fill the
     same slot (`insert_if_empty`). *)
  do fr <- match ci_cldc ci with
           | None => frame_offsets true 0 (ci_frames ci)
           | Some os => match ci_frames ci with [] => Ok (isort N.leb os) | _ :: _ => Err end
           end;
  (* attributes are read in file order; the label SET does not depend on that order *)
  do ls2 <- fold_res (lbl_create clen) ls1 fr;
  do ls3 <- fold_res (fun ls e => lbl_create clen ls (fst e)) ls2 (ci_lines ci);
  do ls4 <- fold_res (fun ls e => lbl_range clen ls (fst e) (snd e)) ls3 (ci_ranges ci);
  do ls5 <- fold_res (lbl_create clen) ls4 (ci_points ci);
  do insns <- decode (S (length code)) ls5 0 code;
  Ok {| cr_insns := insns; cr_labels := ls5; cr_clen := clen; cr_frames := fr |}.

(* ------------------------------------------------------------------------------------------ *)
(* sem: the label-free form.  A label is replaced by the index of the instruction that carries it
   (the instruction whose opcode offset is the label's offset); the offset code_length is the
   "last label" and becomes the number of instructions; an offset inside an instruction designates
   nothing (None). *)
Fixpoint index_of (pc : N) (offs : list N) (k : nat) : option nat :=
  match offs with
  | [] => None
  | o :: offs' => if o =? pc then Some k else index_of pc offs' (S k)
  end.

Record code_sem := {
  cs_insns : list (bool * option nat * ainsn (option nat));  (* has a label; index of the attached frame; instruction *)
  cs_last : bool;                                            (* visit_last_label was called *)
  cs_exc : list (option nat * option nat * option nat);
  cs_lines : list (option nat * N);
  cs_ranges : list (option nat * option nat);
  cs_points : list (option nat)
}.

(* frames are attached in order: the front of the queue is popped when its label is the label of
   the current instruction *)
Fixpoint attach (insns : list (N * ainsn N)) (q : list N) (k : nat) : list (option nat) :=
  match insns with
  | [] => []
  | (pos, _) :: rest =>
    match q with
    | f :: q' => if f =? pos then Some k :: attach rest q' (S k) else None :: attach rest q k
    | [] => None :: attach rest q k
    end
  end.

Fixpoint zip3 {A B C} (a : list A) (b : list B) (c : list C) : list (A * B * C) :=
  match a, b, c with
  | x :: a', y :: b', z :: c' => (x, y, z) :: zip3 a' b' c'
  | _, _, _ => []
  end.

Definition sem (ci : code_in) (cr : code_raw) : code_sem :=
  let offs := map fst (cr_insns cr) ++ [cr_clen cr] in
  let ix := fun pc => index_of pc offs 0 in
  {| cs_insns := zip3 (map (fun p => lbl_get (cr_labels cr) (fst p)) (cr_insns cr))
                      (attach (cr_insns cr) (cr_frames cr) 0)
                      (map (fun p => map_insn ix (snd p)) (cr_insns cr));
     cs_last := lbl_get (cr_labels cr) (cr_clen cr);
     cs_exc := map (fun e => match e with (s, e', h) => (ix s, ix e', ix h) end) (ci_exc ci);
     cs_lines := map (fun e => (ix (fst e), snd e)) (ci_lines ci);
     cs_ranges := map (fun e => (ix (fst e), ix (fst e + snd e))) (ci_ranges ci);
     cs_points := map ix (ci_points ci) |}.

Definition read_code (ci : code_in) : res code_sem :=
  do cr <- read_code_raw ci; Ok (sem ci cr).
