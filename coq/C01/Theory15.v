(* C01 — theory, part 15 (round 4): the closed characterisation of [tags_agree], the first conjuncts
   of [known_free] (F13t).  A format is [indep] when no tag test on its paths depends on [impl];
   structures of such a format always agree.  The header, the fields and the class attributes are
   [indep]; in the methods exactly one tag test depends on [impl] — target_type 0x13 of a type
   annotation directly inside a method_info — and [tags_agree] fails exactly when it occurs. *)
From FB Require Import C01.Model C01.Pool C01.Resolve C01.Attr C01.Fmt C01.Formats C01.ClassFile C01.Theory7.

Fixpoint indep (f : fmt) : Prop :=
  match f with
  | FSeq l => (fix all (l : list fmt) : Prop := match l with [] => True | x :: l' => indep x /\ all l' end) l
  | FVec8 f' | FVec16 f' => indep f'
  | FTag ok sel => (forall t, ok true t = ok false t) /\ (forall t, indep (sel t))
  | FAttr sel => forall name len, indep (sel name len)
  | _ => True
  end.

Lemma indep_agree rs : forall f, indep f -> forall r, tags_agree rs f r = true.
Proof.
  induction f using fmt_ind'; intros I r; try (destruct r; reflexivity).
  - (* FSeq *) destruct r; try reflexivity. cbn [tags_agree]. cbn [indep] in I.
    revert l0. induction l as [|x l IHl]; intros rl; [destruct rl; reflexivity|].
    destruct rl as [|y rl]; [reflexivity|]. cbn [map test_all]. destruct I as [Ix Il].
    rewrite (Forall_inv H Ix y). cbn [andb]. apply IHl; [exact (Forall_inv_tail H)|exact Il].
  - (* FVec8 *) destruct r; try reflexivity. cbn [tags_agree]. apply forallb_forall. intros x _. apply IHf. exact I.
  - (* FVec16 *) destruct r; try reflexivity. cbn [tags_agree]. apply forallb_forall. intros x _. apply IHf. exact I.
  - (* FTag *) destruct r; try reflexivity. cbn [tags_agree]. destruct I as [Iok Isel].
    rewrite (Iok t), Bool.eqb_reflx. cbn [andb]. apply H. apply Isel.
  - (* FAttr *) destruct r; try reflexivity. cbn [tags_agree].
    destruct (rs 8 name) as [[]|]; try reflexivity. apply H. apply I.
Qed.

(* ---------------------------------------------------------------------------------------------- *)
(* the building blocks *)
Lemma indep_seq_map (g : N -> fmt) : (forall c, indep (g c)) -> forall l, indep (FSeq (map g l)).
Proof. intros G l. cbn [indep]. induction l as [|x l IH]; [exact I|]. cbn [map]. split; [apply G|exact IH]. Qed.
Lemma indep_seq_repeat f n : indep f -> indep (FSeq (repeat f n)).
Proof. intros F. cbn [indep]. induction n as [|n IH]; [exact I|]. cbn [repeat]. split; [exact F|exact IH]. Qed.

Lemma indep_target_field c : indep (target_field_fmt c).
Proof. unfold target_field_fmt. destruct c as [|[[p|p|]|[p|p|]|]]; cbn; tauto. Qed.
Lemma indep_target tbl : indep (target_fmt tbl []).
Proof.
  unfold target_fmt. cbn [indep]. split.
  - intros t. unfold in_tbl at 2 4. cbn [existsb]. rewrite !Bool.andb_false_r. reflexivity.
  - intros t. apply indep_seq_map. exact indep_target_field.
Qed.

Lemma indep_ev_sel inner t : match inner with Some f => indep f | None => True end -> indep (ev_sel inner t).
Proof.
  intros Hi. unfold ev_sel. destruct (assoc_N t ev_consts); [exact I|].
  destruct (t =? ev_enum_tag); [cbn; tauto|]. destruct (t =? ev_class_tag); [exact I|].
  destruct inner as [f|]; [|exact I]. destruct (t =? ev_annot_tag); cbn; tauto.
Qed.
Lemma indep_ev : forall k, indep (ev_fmt k).
Proof.
  induction k as [|k IH]; cbn [ev_fmt indep]; (split; [intros t; reflexivity|]); intros t; apply indep_ev_sel; [exact I|exact IH].
Qed.
Lemma indep_pairs : indep pairs_fmt.
Proof. unfold pairs_fmt. cbn [indep]. split; [exact I|]. split; [apply indep_ev|exact I]. Qed.
Lemma indep_annotations : indep annotations_fmt.
Proof. unfold annotations_fmt, annotation_fmt. cbn [indep]. split; [exact I|]. split; [exact indep_pairs|exact I]. Qed.
Lemma indep_type_path : indep type_path_fmt.
Proof.
  unfold type_path_fmt. cbn [indep]. split; [intros t; reflexivity|]. intros t. destruct (t <=? 2); exact I.
Qed.
Lemma indep_type_annotations target : indep target -> indep (type_annotations_fmt target).
Proof.
  intros T. unfold type_annotations_fmt. cbn [indep]. split; [exact T|]. split; [exact indep_type_path|].
  split; [exact I|]. split; [exact indep_pairs|exact I].
Qed.

Lemma indep_vti : indep vti_fmt.
Proof.
  unfold vti_fmt. cbn [indep]. split; [intros t; reflexivity|]. intros t.
  destruct (t =? vti_object_tag); [exact I|]. destruct (t =? vti_uninit_tag); exact I.
Qed.
Lemma indep_frame : indep frame_fmt.
Proof.
  unfold frame_fmt. cbn [indep]. split; [intros t; reflexivity|]. intros t.
  destruct (t <? 64); [exact I|]. destruct (t <? 128); [exact indep_vti|].
  destruct (t =? 247); [cbn [indep]; split; [exact I|split; [exact indep_vti|exact I]]|].
  destruct (t <? 252); [exact I|].
  destruct (t <? 255).
  - change (indep FU16 /\ indep (FSeq (repeat vti_fmt (N.to_nat (t - 251)))) /\ True).
    split; [exact I|]. split; [apply indep_seq_repeat; exact indep_vti|exact I].
  - cbn [indep]. split; [exact I|]. split; [exact indep_vti|]. split; [exact indep_vti|exact I].
Qed.

(* name-selected payload formats *)
Lemma indep_pick name : forall tbl dflt, (forall n f, In (n, f) tbl -> indep f) -> indep dflt -> indep (pick name tbl dflt).
Proof.
  induction tbl as [|[n f] tbl IH]; intros dflt H D; [exact D|]. cbn [pick].
  destruct (str_eqb n name); [apply (H n f); left; reflexivity|]. apply IH; [|exact D].
  intros n' f' Hin. apply (H n' f'). right. exact Hin.
Qed.
Lemma indep_ann_rows target : indep target -> forall n f, In (n, f) (ann_rows target) -> indep f.
Proof.
  intros T n f H. unfold ann_rows in H. cbn [In] in H.
  destruct H as [H|[H|[H|[H|[]]]]]; injection H as _ <-;
    first [exact indep_annotations | apply indep_type_annotations; exact T].
Qed.

Ltac in_rows H :=
  repeat match type of H with
         | In _ (_ ++ _) => apply in_app_or in H; destruct H as [H|H]
         end.

Lemma indep_formats_generated :
  indep f_ConstantValue /\ indep f_Signature /\ indep f_Exceptions /\ indep f_MethodParameters /\ indep f_InnerClasses /\
  indep f_EnclosingMethod /\ indep f_SourceFile /\ indep f_Module /\ indep f_ModulePackages /\ indep f_ModuleMainClass /\
  indep f_NestHost /\ indep f_NestMembers /\ indep f_PermittedSubclasses /\ indep f_BootstrapMethods /\ indep f_exception_table /\
  (forall len, indep (f_SourceDebugExtension len)).
Proof. repeat split; cbn; tauto. Qed.

Lemma indep_record_sel name len : indep (record_sel name len).
Proof.
  unfold record_sel. apply indep_pick; [|exact I]. intros n f [H|H].
  - injection H as _ <-. exact I.
  - apply (indep_ann_rows _ (indep_target _) n f H).
Qed.
Lemma indep_field_sel name len : indep (field_sel name len).
Proof.
  unfold field_sel. apply indep_pick; [|exact I]. intros n f H. in_rows H.
  - cbn [In] in H. destruct H as [H|[H|[H|[H|[]]]]]; injection H as _ <-; exact I.
  - apply (indep_ann_rows _ (indep_target _) n f H).
Qed.
Lemma indep_code_sel name len : indep (code_sel name len).
Proof.
  unfold code_sel. apply indep_pick; [|exact I]. intros n f H. cbn [In] in H.
  destruct H as [H|[H|[H|[H|[H|[H|[H|[]]]]]]]]; injection H as _ <-.
  - cbn [indep]. exact indep_frame.
  - unfold cldc_frame_fmt. cbn [indep]. split; [exact I|]. split; [exact indep_vti|]. split; [exact indep_vti|exact I].
  - cbn; tauto.
  - cbn; tauto.
  - cbn; tauto.
  - apply indep_type_annotations. apply indep_target.
  - apply indep_type_annotations. apply indep_target.
Qed.
Lemma indep_code : indep code_fmt.
Proof.
  unfold code_fmt. change (indep FU16 /\ indep FU16 /\ indep FBytes32 /\ indep f_exception_table /\ indep (FVec16 (FAttr code_sel)) /\ True).
  repeat split. intros name len. apply indep_code_sel.
Qed.
Lemma indep_class_sel name len : indep (class_sel name len).
Proof.
  unfold class_sel. apply indep_pick; [|exact I]. intros n f H. in_rows H.
  - cbn [In] in H. destruct H as [H|[H|[H|[H|[H|[H|[H|[]]]]]]]]; injection H as _ <-; cbn; tauto.
  - apply (indep_ann_rows _ (indep_target _) n f H).
  - cbn [In] in H. destruct H as [H|[H|[H|[H|[H|[H|[H|[H|[]]]]]]]]]; injection H as _ <-; try (cbn; tauto).
    cbn [indep]. split; [exact I|]. split; [exact I|]. split; [|exact I]. intros name' len'. apply indep_record_sel.
Qed.

(* the header, the fields and the class attributes never disagree *)
Theorem tags_agree_elsewhere rs r :
  tags_agree rs head_fmt r = true /\ tags_agree rs fields_fmt r = true /\ tags_agree rs class_attrs_fmt r = true.
Proof.
  repeat split; apply indep_agree.
  - cbn; tauto.
  - unfold fields_fmt. cbn [indep]. split; [exact I|]. split; [exact I|]. split; [exact I|]. split; [|exact I].
    intros name len. apply indep_field_sel.
  - unfold class_attrs_fmt. cbn [indep]. intros name len. apply indep_class_sel.
Qed.

(* ---------------------------------------------------------------------------------------------- *)
(* the methods *)
Definition ta_is_field_target (ta : raw) : bool := match ta with RSeq (RTag t _ :: _) => t =? 19 | _ => false end.
Definition is_ta_name (name : str) : bool := str_eqb name a_RuntimeVisibleTypeAnnotations || str_eqb name a_RuntimeInvisibleTypeAnnotations.
Definition attr_has_field_target (rs : N -> N -> res cval) (a : raw) : bool :=
  match a with
  | RAttr i (RVec16 tas) =>
    match rs 8 i with Ok (VUtf8 name) => is_ta_name name && existsb ta_is_field_target tas | _ => false end
  | _ => false
  end.
Definition method_has_field_target (rs : N -> N -> res cval) (m : raw) : bool :=
  match m with RSeq (_ :: _ :: _ :: RVec16 attrs :: _) => existsb (attr_has_field_target rs) attrs | _ => false end.
(* some method_info carries a Runtime(In)VisibleTypeAnnotations attribute with a type annotation whose target_type is 0x13 *)
Definition field_target_in_method (rs : N -> N -> res cval) (methods : raw) : bool :=
  match methods with RVec16 ms => existsb (method_has_field_target rs) ms | _ => false end.

Definition target_m : fmt := target_fmt target_method_tbl target_method_extra.

Lemma test_all_cons (t : raw -> bool) ts x l d : test_all (t :: ts) (x :: l) d = t x && test_all ts l d.
Proof. reflexivity. Qed.

Lemma ta_agree rs ta : tags_agree rs (FSeq [target_m; type_path_fmt; FIdx 8; pairs_fmt]) ta = negb (ta_is_field_target ta).
Proof.
  destruct ta as [| | | |l| | | |]; try reflexivity. cbn [tags_agree map].
  destruct l as [|x l]; [reflexivity|]. rewrite test_all_cons.
  match goal with |- _ && ?T = _ => assert (R : T = true) end.
  { destruct l as [|a l]; [reflexivity|]. rewrite test_all_cons, (indep_agree rs _ indep_type_path a). cbn [andb].
    destruct l as [|b l]; [reflexivity|]. rewrite test_all_cons. cbn beta. cbn [andb].
    destruct l as [|c l]; [reflexivity|]. rewrite test_all_cons, (indep_agree rs _ indep_pairs c). destruct l; reflexivity. }
  rewrite R, Bool.andb_true_r.
  destruct x as [| | | | | | |t r'|]; try reflexivity. cbn [ta_is_field_target].
  unfold target_m, target_fmt. cbn [tags_agree].
  match goal with |- _ && ?X = _ => replace X with true end.
  2:{ symmetry. exact (indep_agree rs (FSeq (map target_field_fmt (tbl_get t (target_method_tbl ++ target_method_extra))))
                         (indep_seq_map target_field_fmt indep_target_field _) r'). }
  rewrite Bool.andb_true_r.
  cbn [negb andb]. rewrite Bool.orb_false_r.
  unfold target_method_extra, in_tbl at 3. cbn [existsb fst]. rewrite Bool.orb_false_r.
  destruct (N.eqb_spec 19 t) as [<-|N].
  - vm_compute. reflexivity.
  - destruct (N.eqb_spec t 19) as [->|_]; [congruence|]. rewrite Bool.orb_false_r. apply Bool.eqb_reflx.
Qed.

Lemma forallb_negb_existsb {A} (f g : A -> bool) l : (forall x, f x = negb (g x)) -> forallb f l = negb (existsb g l).
Proof.
  intros H. induction l as [|x l IH]; [reflexivity|]. cbn [forallb existsb]. rewrite H, IH, Bool.negb_orb. reflexivity.
Qed.

Lemma method_sel_cases name len :
  (is_ta_name name = true /\ method_sel name len = type_annotations_fmt target_m) \/
  (is_ta_name name = false /\ indep (method_sel name len)).
Proof.
  unfold is_ta_name.
  destruct (str_eqb name a_RuntimeVisibleTypeAnnotations) eqn:EV.
  { left. split; [reflexivity|]. apply str_eqb_eq in EV. subst name. vm_compute pick. reflexivity. }
  destruct (str_eqb name a_RuntimeInvisibleTypeAnnotations) eqn:EI.
  { left. split; [reflexivity|]. apply str_eqb_eq in EI. subst name. reflexivity. }
  right. split; [reflexivity|].
  assert (NV : str_eqb a_RuntimeVisibleTypeAnnotations name = false)
    by (apply str_eqb_neq; intros E; subst name; rewrite str_eqb_refl in EV; discriminate).
  assert (NI : str_eqb a_RuntimeInvisibleTypeAnnotations name = false)
    by (apply str_eqb_neq; intros E; subst name; rewrite str_eqb_refl in EI; discriminate).
  unfold method_sel, ann_rows. cbn [app pick]. rewrite NV, NI.
  repeat match goal with
         | |- indep (if ?c then _ else _) => destruct c
         end; try exact I; try (cbn; tauto).
  - exact indep_code.
  - exact indep_annotations.
  - exact indep_annotations.
  - apply indep_ev.
Qed.

Lemma attr_agree rs a : tags_agree rs (FAttr method_sel) a = negb (attr_has_field_target rs a).
Proof.
  destruct a as [| | | | | | | |i r']; try reflexivity. cbn [tags_agree attr_has_field_target].
  destruct (rs 8 i) as [[| | | |name| | | | | | | | | | |]|]; try (destruct r'; reflexivity).
  destruct (method_sel_cases name (N.of_nat (length (enc_raw r')))) as [[T E]|[T E]].
  - rewrite E, T. cbn [andb]. unfold type_annotations_fmt. destruct r' as [| | | | | |tas| |]; try reflexivity.
    cbn [tags_agree]. apply forallb_negb_existsb. intros ta. apply ta_agree.
  - rewrite (indep_agree rs _ E r'). rewrite T. destruct r'; reflexivity.
Qed.

Lemma method_agree rs m :
  tags_agree rs (FSeq [FFlags 2; FIdx 8; FIdx 8; FVec16 (FAttr method_sel)]) m = negb (method_has_field_target rs m).
Proof.
  destruct m as [| | | |l| | | |]; try reflexivity. cbn [tags_agree map].
  destruct l as [|a l]; [reflexivity|]. rewrite test_all_cons. cbn beta. cbn [andb].
  destruct l as [|b l]; [reflexivity|]. rewrite test_all_cons. cbn beta. cbn [andb].
  destruct l as [|c l]; [reflexivity|]. rewrite test_all_cons. cbn beta. cbn [andb].
  destruct l as [|d l]; [reflexivity|]. rewrite test_all_cons. cbn [method_has_field_target].
  replace (test_all [] l true) with true by (destruct l; reflexivity). rewrite Bool.andb_true_r.
  destruct d as [| | | | | |attrs| |]; try reflexivity. cbn [tags_agree].
  apply forallb_negb_existsb. intros x. apply attr_agree.
Qed.

(* [tags_agree] fails on the methods exactly when a type annotation directly inside a method_info has
   target_type 0x13 *)
Theorem tags_agree_methods rs r : tags_agree rs methods_fmt r = negb (field_target_in_method rs r).
Proof.
  unfold methods_fmt. destruct r as [| | | | | |ms| |]; try reflexivity. cbn [tags_agree field_target_in_method].
  apply forallb_negb_existsb. intros m. apply method_agree.
Qed.

(* [known_free] in closed form: the three known classes, each a direct test on the structure *)
Theorem known_free_closed dec c :
  known_free dec c =
  match decode_pool dec (rc_pool c) with
  | Err => true
  | Ok p =>
    let rs := acc p in
    negb (field_target_in_method rs (rc_methods c))                                                              (* F13t *)
    && match desc_fmt false dec rs class_attrs_fmt (rc_attrs c) with Ok a => no_empty_record a | Err => true end     (* F13r *)
    && match desc_fmt false dec rs methods_fmt (rc_methods c) with Ok m => no_param_annotations m | Err => true end  (* F13p *)
  end.
Proof.
  unfold known_free. destruct (decode_pool dec (rc_pool c)) as [p|]; [|reflexivity]. cbn zeta.
  destruct (tags_agree_elsewhere (acc p) (rc_head c)) as (A & _ & _).
  destruct (tags_agree_elsewhere (acc p) (rc_fields c)) as (_ & B & _).
  destruct (tags_agree_elsewhere (acc p) (rc_attrs c)) as (_ & _ & C).
  rewrite A, B, C, tags_agree_methods. reflexivity.
Qed.
