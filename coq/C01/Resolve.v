(* C01 — the instructions as duke delivers them: pool operands resolved (Pool.v), labels already
   replaced by instruction indices (Model.sem).  Definitions only. *)
From FB Require Export C01.Model C01.Pool.

Inductive xop := XN (n : N) | XZ (z : Z) | XT (t : option nat) | XV (v : cval).
Inductive xinsn :=
| XGen (ctor : N) (ops : list xop)
| XTSw (d : option nat) (lo hi : Z) (tbl : list (option nat))
| XLSw (d : option nat) (pairs : list (Z * option nat)).

Definition resolve_op (p : pool) (b : bsms) (o : operand (option nat)) : res xop :=
  match o with
  | OpN n => Ok (XN n)
  | OpZ z => Ok (XZ z)
  | OpT t => Ok (XT t)
  | OpC k i => do v <- resolve_kind p b k i; Ok (XV v)
  end.
Definition resolve_insn (p : pool) (b : bsms) (i : ainsn (option nat)) : res xinsn :=
  match i with
  | Gen c ops => do xs <- map_res (resolve_op p b) ops; Ok (XGen c xs)
  | TSw d lo hi tbl => Ok (XTSw d lo hi tbl)
  | LSw d ps => Ok (XLSw d ps)
  end.

Record xsem := {
  xs_insns : list (bool * option nat * xinsn);
  xs_last : bool;
  xs_exc : list (option nat * option nat * option nat * option str);   (* with the resolved catch type *)
  xs_lines : list (option nat * N);
  xs_ranges : list (option nat * option nat);
  xs_points : list (option nat)
}.

Definition resolve_catch (p : pool) (i : N) : res (option str) :=
  if i =? 0 then Ok None else do s <- get_class p i; Ok (Some s).

Fixpoint zip_exc (a : list (option nat * option nat * option nat)) (c : list (option str))
  : list (option nat * option nat * option nat * option str) :=
  match a, c with
  | x :: a', y :: c' => (x, y) :: zip_exc a' c'
  | _, _ => []
  end.

(* one method: the Code attribute's tables, and the catch_type indices of its exception table *)
Definition read_method (p : pool) (b : bsms) (m : code_in * list N) : res xsem :=
  do cs <- read_code (fst m);
  do xi <- map_res (fun e => do x <- resolve_insn p b (snd e); Ok (fst e, x)) (cs_insns cs);
  do cc <- map_res (resolve_catch p) (snd m);
  Ok {| xs_insns := xi; xs_last := cs_last cs; xs_exc := zip_exc (cs_exc cs) cc;
        xs_lines := cs_lines cs; xs_ranges := cs_ranges cs; xs_points := cs_points cs |}.
