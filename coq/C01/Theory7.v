(* C01 — theory, part 7: the format interpreter.  Reading the encoding of a structure yields its
   description, whatever follows it in the stream; for every format, every accessor, every
   decoder of modified UTF-8. *)
From FB Require Import C01.Bytes C01.Fmt C01.Theory6.
Arguments N.add : simpl never.
Arguments N.mul : simpl never.

(* ---------- writers ---------- *)
Lemma rd_u8_w8 n r : n < 256 -> rd_u8 (w8 n ++ r) = Ok (n, r).
Proof. intros H. unfold w8, rd_u8. cbn [app]. rewrite N.mod_small by exact H. reflexivity. Qed.
Lemma rd_u16_w16 n r : n < 65536 -> rd_u16 (w16 n ++ r) = Ok (n, r).
Proof. intros H. unfold w16. rewrite N.mod_small by exact H. apply rd_u16_be16. Qed.
Lemma rd_u32_w32 n r : n < 4294967296 -> rd_u32 (w32 n ++ r) = Ok (n, r).
Proof. intros H. unfold w32. rewrite N.mod_small by exact H. apply rd_u32_be32. Qed.

Lemma all_bytes_w8 n : all_bytes (w8 n) = true.
Proof.
  unfold all_bytes, w8. cbn [forallb]. assert (H : n mod 256 < 256) by (apply N.mod_lt; lia).
  apply N.ltb_lt in H. rewrite H. reflexivity.
Qed.
Lemma all_bytes_w16 n : all_bytes (w16 n) = true.
Proof. unfold w16. apply all_bytes_be16. apply N.mod_lt. lia. Qed.
Lemma all_bytes_w32 n : all_bytes (w32 n) = true.
Proof. unfold w32. apply all_bytes_be32. apply N.mod_lt. lia. Qed.

Lemma take_lenient_app (a t : bytes) : take_lenient (N.of_nat (length a)) (a ++ t) = (a, t).
Proof.
  unfold take_lenient. rewrite app_length.
  destruct (N.leb_spec (N.of_nat (length a)) (N.of_nat (length a + length t))) as [_|H]; [|lia].
  rewrite Nnat.Nat2N.id, firstn_app, firstn_all, Nat.sub_diag, skipn_app, skipn_all, Nat.sub_diag.
  cbn [firstn skipn]. rewrite app_nil_r. reflexivity.
Qed.

(* ---------- induction over formats (nested through lists and selectors) ---------- *)
Fixpoint fmt_ind' (P : fmt -> Prop)
  (H1 : P FU8) (H2 : P FU16) (H3 : forall k, P (FFlags k)) (H4 : forall v, P (FConst8 v))
  (H5 : forall a, P (FIdx a)) (H6 : forall a, P (FOptIdx a)) (H7 : forall a, P (FIdxRaw a))
  (H8 : forall k, P (FPc k)) (H9 : P FRange) (H10 : forall n, P (FBytes n)) (H11 : forall n, P (FSkip n))
  (H12 : forall n, P (FMutf8 n)) (H13 : P FBytes32)
  (HSeq : forall l, Forall P l -> P (FSeq l))
  (HV8 : forall f, P f -> P (FVec8 f)) (HV16 : forall f, P f -> P (FVec16 f))
  (HTag : forall ok sel, (forall t, P (sel t)) -> P (FTag ok sel))
  (HAttr : forall sel, (forall n l, P (sel n l)) -> P (FAttr sel))
  (f : fmt) {struct f} : P f :=
  let rec := fmt_ind' P H1 H2 H3 H4 H5 H6 H7 H8 H9 H10 H11 H12 H13 HSeq HV8 HV16 HTag HAttr in
  match f with
  | FU8 => H1 | FU16 => H2 | FFlags k => H3 k | FConst8 v => H4 v
  | FIdx a => H5 a | FOptIdx a => H6 a | FIdxRaw a => H7 a
  | FPc k => H8 k | FRange => H9 | FBytes n => H10 n | FSkip n => H11 n | FMutf8 n => H12 n | FBytes32 => H13
  | FSeq l => HSeq l ((fix go (l : list fmt) : Forall P l :=
                         match l with [] => Forall_nil P | x :: l' => Forall_cons x (rec x) (go l') end) l)
  | FVec8 f' => HV8 f' (rec f')
  | FVec16 f' => HV16 f' (rec f')
  | FTag ok sel => HTag ok sel (fun t => rec (sel t))
  | FAttr sel => HAttr sel (fun n l => rec (sel n l))
  end.

(* ---------- repetition ---------- *)
Lemma rd_rep_map {A} (p : parser A) (e : raw -> bytes) (d : raw -> res A) :
  forall (rl : list raw) rest,
  (forall r, In r rl -> forall rest, p (e r ++ rest) = (do v <- d r; Ok (v, rest))) ->
  rd_rep (length rl) p (flat_map e rl ++ rest) = (do vs <- map_res d rl; Ok (vs, rest)).
Proof.
  induction rl as [|r rl IH]; intros rest H; [reflexivity|].
  cbn [length rd_rep flat_map map_res]. rewrite <- app_assoc, (H r (or_introl eq_refl)).
  destruct (d r) as [v|]; cbn [bind]; [|reflexivity].
  rewrite IH by (intros r' Hr; apply H; right; exact Hr).
  destruct (map_res d rl); reflexivity.
Qed.


Definition rt_ok (impl : bool) (dec : bytes -> res str) (rs : N -> N -> res cval) (f : fmt) : Prop :=
  forall r rest, fits impl rs f r = true ->
  rd_fmt impl dec rs f (enc_raw r ++ rest) = (do v <- desc_fmt impl dec rs f r; Ok (v, rest)).

Ltac fits_false := cbn [fits]; intros; discriminate.

Theorem fmt_roundtrip impl dec rs : forall f, rt_ok impl dec rs f.
Proof.
  induction f using fmt_ind'; unfold rt_ok in *; intros r rest HF.
  - (* FU8 *) destruct r; try (cbn [fits] in HF; discriminate). cbn [fits] in HF. apply N.ltb_lt in HF.
    cbn [rd_fmt enc_raw desc_fmt bind]. rewrite rd_u8_w8 by exact HF. reflexivity.
  - (* FU16 *) destruct r; try (cbn [fits] in HF; discriminate). cbn [fits] in HF. apply N.ltb_lt in HF.
    cbn [rd_fmt enc_raw desc_fmt bind]. rewrite rd_u16_w16 by exact HF. reflexivity.
  - (* FFlags *) destruct r; try (cbn [fits] in HF; discriminate). cbn [fits] in HF. apply N.ltb_lt in HF.
    cbn [rd_fmt enc_raw desc_fmt bind]. rewrite rd_u16_w16 by exact HF. reflexivity.
  - (* FConst8 *) destruct r; try (cbn [fits] in HF; discriminate). cbn [fits] in HF.
    apply andb_true_iff in HF. destruct HF as [E HF]. apply N.ltb_lt in HF.
    cbn [rd_fmt enc_raw desc_fmt bind]. rewrite rd_u8_w8 by exact HF. cbn [bind]. rewrite E. reflexivity.
  - (* FIdx *) destruct r; try (cbn [fits] in HF; discriminate). cbn [fits] in HF. apply N.ltb_lt in HF.
    cbn [rd_fmt enc_raw desc_fmt bind]. rewrite rd_u16_w16 by exact HF. cbn [bind]. destruct (rs a n); reflexivity.
  - (* FOptIdx *) destruct r; try (cbn [fits] in HF; discriminate). cbn [fits] in HF. apply N.ltb_lt in HF.
    cbn [rd_fmt enc_raw desc_fmt bind]. rewrite rd_u16_w16 by exact HF. cbn [bind].
    destruct (n =? 0); [reflexivity|]. destruct (rs a n); reflexivity.
  - (* FIdxRaw *) destruct r; try (cbn [fits] in HF; discriminate). cbn [fits] in HF. apply N.ltb_lt in HF.
    cbn [rd_fmt enc_raw desc_fmt bind]. rewrite rd_u16_w16 by exact HF. cbn [bind]. destruct (rs a n); reflexivity.
  - (* FPc *) destruct r; try (cbn [fits] in HF; discriminate). cbn [fits] in HF. apply N.ltb_lt in HF.
    cbn [rd_fmt enc_raw desc_fmt bind]. rewrite rd_u16_w16 by exact HF. reflexivity.
  - (* FRange *) destruct r as [| | | |l| | | |]; try (cbn [fits] in HF; discriminate).
    destruct l as [|[] [|[] [|]]]; try (cbn [fits] in HF; discriminate).
    cbn [fits] in HF. apply andb_true_iff in HF. destruct HF as [A B]. apply N.ltb_lt in A, B.
    cbn [rd_fmt enc_raw desc_fmt bind flat_map]. rewrite <- app_assoc, rd_u16_w16 by exact A. cbn [bind].
    rewrite app_nil_r, rd_u16_w16 by exact B. reflexivity.
  - (* FBytes *) destruct r; try (cbn [fits] in HF; discriminate). cbn [fits] in HF. apply N.eqb_eq in HF. subst n.
    cbn [rd_fmt enc_raw desc_fmt bind]. rewrite take_res_app. reflexivity.
  - (* FSkip *) destruct r; try (cbn [fits] in HF; discriminate). cbn [fits] in HF. apply N.eqb_eq in HF. subst n.
    cbn [rd_fmt enc_raw desc_fmt bind]. rewrite take_lenient_app. reflexivity.
  - (* FMutf8 *) destruct r; try (cbn [fits] in HF; discriminate). cbn [fits] in HF. apply N.eqb_eq in HF. subst n.
    cbn [rd_fmt enc_raw desc_fmt bind]. rewrite take_res_app. cbn [bind]. destruct (dec b); reflexivity.
  - (* FBytes32 *) destruct r; try (cbn [fits] in HF; discriminate). cbn [fits] in HF. apply N.ltb_lt in HF.
    cbn [rd_fmt enc_raw desc_fmt bind]. rewrite <- app_assoc, rd_u32_w32 by exact HF. cbn [bind].
    rewrite take_res_app. reflexivity.
  - (* FSeq *) destruct r as [| | | |rl| | | |]; try (cbn [fits] in HF; discriminate).
    cbn [rd_fmt enc_raw desc_fmt fits] in *.
    assert (K : forall rl rest, test_all (map (fits impl rs) l) rl false = true ->
      rd_all (map (rd_fmt impl dec rs) l) (flat_map enc_raw rl ++ rest)
      = (do vs <- desc_all (map (desc_fmt impl dec rs) l) rl; Ok (vs, rest))).
    { clear HF rl rest. induction H as [|f l Hf Hl IH]; intros rl rest HF.
      - destruct rl; [reflexivity|discriminate].
      - destruct rl as [|r rl]; [discriminate|]. cbn [map test_all] in HF.
        apply andb_true_iff in HF. destruct HF as [F1 F2].
        cbn [map rd_all desc_all flat_map]. rewrite <- app_assoc. rewrite (Hf r _ F1).
        destruct (desc_fmt impl dec rs f r) as [v|]; cbn [bind]; [|reflexivity].
        rewrite (IH rl rest F2).
        destruct (desc_all (map (desc_fmt impl dec rs) l) rl); reflexivity. }
    rewrite (K rl rest HF). destruct (desc_all (map (desc_fmt impl dec rs) l) rl); reflexivity.
  - (* FVec8 *) destruct r as [| | | | |rl| | |]; try (cbn [fits] in HF; discriminate).
    cbn [fits] in HF. apply andb_true_iff in HF. destruct HF as [L HF]. apply N.ltb_lt in L.
    cbn [rd_fmt enc_raw desc_fmt]. rewrite <- app_assoc, rd_u8_w8 by exact L. cbn [bind].
    rewrite Nnat.Nat2N.id.
    rewrite (rd_rep_map (rd_fmt impl dec rs f) enc_raw (desc_fmt impl dec rs f)).
    + destruct (map_res (desc_fmt impl dec rs f) rl); reflexivity.
    + intros r Hr rest'. apply IHf. rewrite forallb_forall in HF. apply HF. exact Hr.
  - (* FVec16 *) destruct r as [| | | | | |rl| |]; try (cbn [fits] in HF; discriminate).
    cbn [fits] in HF. apply andb_true_iff in HF. destruct HF as [L HF]. apply N.ltb_lt in L.
    cbn [rd_fmt enc_raw desc_fmt]. rewrite <- app_assoc, rd_u16_w16 by exact L. cbn [bind].
    rewrite Nnat.Nat2N.id.
    rewrite (rd_rep_map (rd_fmt impl dec rs f) enc_raw (desc_fmt impl dec rs f)).
    + destruct (map_res (desc_fmt impl dec rs f) rl); reflexivity.
    + intros r Hr rest'. apply IHf. rewrite forallb_forall in HF. apply HF. exact Hr.
  - (* FTag *) destruct r as [| | | | | | |t r|]; try (cbn [fits] in HF; discriminate).
    cbn [fits] in HF. apply andb_true_iff in HF. destruct HF as [HF F2]. apply andb_true_iff in HF. destruct HF as [L O].
    apply N.ltb_lt in L.
    cbn [rd_fmt enc_raw desc_fmt]. rewrite <- app_assoc, rd_u8_w8 by exact L. cbn [bind]. rewrite O.
    rewrite (H t r rest F2). destruct (desc_fmt impl dec rs (sel t) r); reflexivity.
  - (* FAttr *) destruct r as [| | | | | | | |i r]; try (cbn [fits] in HF; discriminate).
    cbn [fits] in HF. apply andb_true_iff in HF. destruct HF as [HF F2]. apply andb_true_iff in HF. destruct HF as [L1 L2].
    apply N.ltb_lt in L1, L2.
    cbn [rd_fmt enc_raw desc_fmt]. rewrite <- app_assoc, rd_u16_w16 by exact L1. cbn [bind].
    destruct (rs 8 i) as [c|]; cbn [bind]; [|reflexivity].
    destruct c; try reflexivity.
    rewrite <- app_assoc, rd_u32_w32 by exact L2. cbn [bind].
    rewrite (H s _ r rest F2).
    destruct (desc_fmt impl dec rs (sel s (N.of_nat (length (enc_raw r)))) r); reflexivity.
Qed.

(* ---------- duke's tag tables against the JVMS': the same description where they agree ---------- *)
Lemma map_res_ext {A B} (f g : A -> res B) : forall l, (forall x, In x l -> f x = g x) -> map_res f l = map_res g l.
Proof.
  induction l as [|x l IH]; intros H; [reflexivity|]. cbn [map_res].
  rewrite (H x (or_introl eq_refl)), IH by (intros y Hy; apply H; right; exact Hy). reflexivity.
Qed.

Theorem desc_agree dec rs : forall f r, tags_agree rs f r = true ->
  desc_fmt true dec rs f r = desc_fmt false dec rs f r.
Proof.
  induction f using fmt_ind'; intros r HT; try (destruct r; reflexivity).
  - (* FSeq *) destruct r as [| | | |rl| | | |]; try reflexivity. cbn [desc_fmt tags_agree] in *.
    match goal with |- bind ?X _ = bind ?Y _ => assert (E : X = Y); [|rewrite E; reflexivity] end.
    revert rl HT. induction H as [|f0 l0 Hf Hl IH]; intros rl HT; [destruct rl; reflexivity|].
    destruct rl as [|r rl]; [reflexivity|]. cbn [map test_all] in HT.
    apply andb_true_iff in HT. destruct HT as [T1 T2]. cbn [map desc_all].
    rewrite (Hf r T1). destruct (desc_fmt false dec rs f0 r); cbn [bind]; [|reflexivity].
    rewrite (IH rl T2). reflexivity.
  - (* FVec8 *) destruct r as [| | | | |rl| | |]; try reflexivity. cbn [desc_fmt tags_agree] in *.
    rewrite (map_res_ext (desc_fmt true dec rs f) (desc_fmt false dec rs f)); [reflexivity|].
    intros x Hx. apply IHf. rewrite forallb_forall in HT. apply HT. exact Hx.
  - (* FVec16 *) destruct r as [| | | | | |rl| |]; try reflexivity. cbn [desc_fmt tags_agree] in *.
    rewrite (map_res_ext (desc_fmt true dec rs f) (desc_fmt false dec rs f)); [reflexivity|].
    intros x Hx. apply IHf. rewrite forallb_forall in HT. apply HT. exact Hx.
  - (* FTag *) destruct r as [| | | | | | |t r|]; try reflexivity. cbn [desc_fmt tags_agree] in *.
    apply andb_true_iff in HT. destruct HT as [E T]. apply eqb_prop in E. rewrite E.
    rewrite (H t r T). reflexivity.
  - (* FAttr *) destruct r as [| | | | | | | |i r]; try reflexivity. cbn [desc_fmt tags_agree] in *.
    destruct (rs 8 i) as [c|]; [|reflexivity]. destruct c; try reflexivity. cbn [bind].
    rewrite (H s _ r HT). reflexivity.
Qed.
