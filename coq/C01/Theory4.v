(* C01 — theory, part 4: the whole Code attribute.  [read_encode]: for every body, every choice
   function and every set of tables over instruction indices, reading the encoded attribute gives
   back the body, the tables designate the instructions they were built from, exactly the
   referenced instructions carry a label, and every stack-map frame is attached to its instruction. *)
From FB Require Import Base.Sort C01.Model C01.Theory1 C01.Theory2 C01.Theory3.
Arguments N.add : simpl never.
Arguments N.mul : simpl never.
Arguments N.sub : simpl never.

(* ---------------------------------------------------------------------------------------------- *)
(* label sets *)
Lemma lbl_get_add ls pc x : lbl_get (lbl_add ls pc) x = true <-> x = pc \/ lbl_get ls x = true.
Proof.
  unfold lbl_get, lbl_add. destruct (mem_N pc ls) eqn:M.
  - split; [auto|]. intros [->|H]; [exact M|exact H].
  - rewrite !mem_N_In, in_app_iff. cbn [In]. split.
    + intros [H|[H|[]]]; [right; exact H|left; symmetry; exact H].
    + intros [->|H]; [right; left; reflexivity|left; exact H].
Qed.

Lemma lbl_get_fold xs : forall ls x,
  lbl_get (fold_left lbl_add xs ls) x = true <-> In x xs \/ lbl_get ls x = true.
Proof.
  induction xs as [|y xs IH]; intros ls x; cbn [fold_left In].
  - tauto.
  - rewrite IH, lbl_get_add. split; [intros [H|[H|H]]|intros [[H|H]|H]]; auto.
Qed.

Lemma lbl_get_nil x : lbl_get [] x = false.
Proof. reflexivity. Qed.

Lemma lbl_create_excl_ok clen ls t : t <= clen -> lbl_create_excl clen ls t = Ok (lbl_add ls t).
Proof. intros H. unfold lbl_create_excl. apply N.leb_le in H. rewrite H. reflexivity. Qed.

(* folds of label creation over tables of admissible offsets *)
Lemma fold_create clen : forall xs ls, (forall x, In x xs -> x < clen) ->
  fold_res (lbl_create clen) ls xs = Ok (fold_left lbl_add xs ls).
Proof.
  induction xs as [|x xs IH]; intros ls H; [reflexivity|].
  cbn [fold_res fold_left]. rewrite lbl_create_ok by (apply H; left; reflexivity). cbn [bind].
  apply IH. intros y Hy. apply H. right. exact Hy.
Qed.

Definition exc_offs (e : N * N * N) : list N := match e with (s, e', h) => [s; e'; h] end.
Lemma fold_exc clen : forall xs ls,
  (forall s e h, In (s, e, h) xs -> s < clen /\ e <= clen /\ h < clen) ->
  fold_res (fun ls e => match e with (s, e', h) =>
     do a <- lbl_create clen ls s; do b <- lbl_create_excl clen a e'; lbl_create clen b h end) ls xs
  = Ok (fold_left lbl_add (flat_map exc_offs xs) ls).
Proof.
  induction xs as [|[[s e] h] xs IH]; intros ls H; [reflexivity|].
  destruct (H s e h (or_introl eq_refl)) as (Hs & He & Hh).
  cbn [fold_res flat_map exc_offs app fold_left].
  rewrite lbl_create_ok by exact Hs. cbn [bind]. rewrite lbl_create_excl_ok by exact He. cbn [bind].
  rewrite lbl_create_ok by exact Hh. cbn [bind].
  apply IH. intros s' e' h' Hin. apply H. right. exact Hin.
Qed.

Lemma fold_lines clen : forall (xs : list (N * N)) ls, (forall x, In x xs -> fst x < clen) ->
  fold_res (fun ls e => lbl_create clen ls (fst e)) ls xs = Ok (fold_left lbl_add (map fst xs) ls).
Proof.
  induction xs as [|x xs IH]; intros ls H; [reflexivity|].
  cbn [fold_res map fold_left]. rewrite lbl_create_ok by (apply H; left; reflexivity). cbn [bind].
  apply IH. intros y Hy. apply H. right. exact Hy.
Qed.

Definition range_offs (e : N * N) : list N := [fst e; fst e + snd e].
Lemma fold_ranges clen : clen <= 65535 -> forall (xs : list (N * N)) ls,
  (forall x, In x xs -> fst x < clen /\ fst x + snd x <= clen) ->
  fold_res (fun ls e => lbl_range clen ls (fst e) (snd e)) ls xs = Ok (fold_left lbl_add (flat_map range_offs xs) ls).
Proof.
  intros HC. induction xs as [|x xs IH]; intros ls H; [reflexivity|].
  destruct (H x (or_introl eq_refl)) as [Hs He].
  cbn [fold_res flat_map range_offs app fold_left]. unfold lbl_range.
  rewrite lbl_create_ok by exact Hs. cbn [bind].
  destruct (N.ltb_spec (fst x + snd x) 65536) as [_|Hx]; [|lia].
  rewrite lbl_create_excl_ok by exact He. cbn [bind].
  apply IH. intros y Hy. apply H. right. exact Hy.
Qed.

(* ---------------------------------------------------------------------------------------------- *)
(* tables over instruction indices, and their encoding through a position function *)
Record tables := {
  t_exc : list (nat * nat * nat);      (* start, end (exclusive, may be the number of instructions), handler *)
  t_lines : list (nat * N);
  t_ranges : list (nat * nat);         (* start, end (exclusive) *)
  t_frames : list nat;                 (* strictly increasing *)
  t_points : list nat
}.

Fixpoint incr_from (lo : nat) (l : list nat) : Prop :=
  match l with [] => True | f :: l' => (lo <= f)%nat /\ incr_from (S f) l' end.

Definition tables_ok (n : nat) (t : tables) : Prop :=
  (forall s e h, In (s, e, h) (t_exc t) -> (s < n /\ e <= n /\ h < n)%nat) /\
  (forall x, In x (t_lines t) -> (fst x < n)%nat) /\
  (forall x, In x (t_ranges t) -> (fst x < n /\ fst x <= snd x /\ snd x <= n)%nat) /\
  incr_from 0 (t_frames t) /\ (forall f, In f (t_frames t) -> (f < n)%nat) /\
  (forall p, In p (t_points t) -> (p < n)%nat).

Fixpoint frame_deltas (posf : nat -> N) (first : bool) (acc : N) (fs : list nat) : list N :=
  match fs with
  | [] => []
  | f :: fs' => (if first then posf f - acc else posf f - acc - 1) :: frame_deltas posf false (posf f) fs'
  end.

Definition code_in_of (posf : nat -> N) (t : tables) (bs : bytes) : code_in :=
  {| ci_code := bs;
     ci_exc := map (fun e => match e with (s, e', h) => (posf s, posf e', posf h) end) (t_exc t);
     ci_lines := map (fun e => (posf (fst e), snd e)) (t_lines t);
     ci_ranges := map (fun e => (posf (fst e), posf (snd e) - posf (fst e))) (t_ranges t);
     ci_frames := frame_deltas posf true 0 (t_frames t);
     ci_cldc := None;
     ci_points := map posf (t_points t) |}.

(* every instruction index some table or instruction refers to *)
Definition exc_refs (e : nat * nat * nat) : list nat := match e with (s, e', h) => [s; e'; h] end.
Definition range_refs (e : nat * nat) : list nat := [fst e; snd e].
Definition refs (body : list (ainsn nat)) (t : tables) : list nat :=
  flat_map targets body ++ flat_map exc_refs (t_exc t) ++ t_frames t ++ map fst (t_lines t)
  ++ flat_map range_refs (t_ranges t) ++ t_points t.

Definition mem_nat (k : nat) (l : list nat) : bool := existsb (Nat.eqb k) l.
Lemma mem_nat_In k l : mem_nat k l = true <-> In k l.
Proof.
  unfold mem_nat. rewrite existsb_exists. split.
  - intros (y & Hy & E). apply Nat.eqb_eq in E. subst. exact Hy.
  - intros H. exists k. split; [exact H|apply Nat.eqb_refl].
Qed.

(* frame attachment on indices *)
Fixpoint attach_idx (k cnt : nat) (fs : list nat) (j : nat) : list (option nat) :=
  match cnt with
  | O => []
  | S c =>
    match fs with
    | f :: fs' => if Nat.eqb f k then Some j :: attach_idx (S k) c fs' (S j) else None :: attach_idx (S k) c fs j
    | [] => None :: attach_idx (S k) c [] j
    end
  end.

Definition expected (body : list (ainsn nat)) (t : tables) : code_sem :=
  let n := length body in
  {| cs_insns := zip3 (map (fun k => mem_nat k (refs body t)) (seq 0 n))
                      (attach_idx 0 n (t_frames t) 0)
                      (map (map_insn Some) body);
     cs_last := mem_nat n (refs body t);
     cs_exc := map (fun e => match e with (s, e', h) => (Some s, Some e', Some h) end) (t_exc t);
     cs_lines := map (fun e => (Some (fst e), snd e)) (t_lines t);
     cs_ranges := map (fun e => (Some (fst e), Some (snd e))) (t_ranges t);
     cs_points := map Some (t_points t) |}.

(* ---------------------------------------------------------------------------------------------- *)
(* frames: deltas decode back to the offsets *)
Lemma frame_offsets_deltas posf n :
  (forall a b, (a < b)%nat -> (b <= n)%nat -> posf a < posf b) -> posf n <= 65535 ->
  forall fs lo (first : bool) (acc : N), incr_from lo fs -> (forall f, In f fs -> (f < n)%nat) ->
  (if first then acc = 0 else (exists p, (p < lo)%nat /\ acc = posf p)) ->
  frame_offsets first acc (frame_deltas posf first acc fs) = Ok (map posf fs).
Proof.
  intros Hmono Hn. induction fs as [|f fs IH]; intros lo first acc Hi Hf Ha; [reflexivity|].
  cbn [incr_from] in Hi. destruct Hi as [Hlo Hi].
  assert (Hfn : (f < n)%nat) by (apply Hf; left; reflexivity).
  assert (Hpf : posf f < 65536) by (pose proof (Hmono f n Hfn (Nat.le_refl n)); lia).
  cbn [frame_deltas frame_offsets map].
  assert (E : acc + (if first then posf f - acc else posf f - acc - 1) + (if first then 0 else 1) = posf f).
  { destruct first.
    - subst acc. lia.
    - destruct Ha as (p & Hp & ->). pose proof (Hmono p f ltac:(lia) ltac:(lia)). lia. }
  rewrite E. destruct (N.ltb_spec (posf f) 65536) as [_|]; [|lia].
  rewrite (IH (S f) false (posf f)); [reflexivity|exact Hi| |].
  - intros g Hg. apply Hf. right. exact Hg.
  - exists f. split; [lia|reflexivity].
Qed.

(* attach on offsets = attach on indices, along a strictly increasing position function *)
Lemma attach_along posf n :
  (forall a b, (a < b)%nat -> (b <= n)%nat -> posf a < posf b) ->
  forall (is : list (ainsn N)) k fs j,
  (k + length is <= n)%nat -> incr_from k fs -> (forall f, In f fs -> (f < n)%nat) ->
  attach (combine (map posf (seq k (length is))) is) (map posf fs) j = attach_idx k (length is) fs j.
Proof.
  intros Hmono. induction is as [|i is IH]; intros k fs j Hk Hi Hf; [reflexivity|].
  cbn [length seq map combine attach attach_idx]. cbn [length] in Hk.
  destruct fs as [|f fs]; cbn [map].
  - f_equal. apply (IH (S k) [] j); [lia|exact I|intros ? []].
  - cbn [incr_from] in Hi. destruct Hi as [Hkf Hi].
    assert (Hfn : (f < n)%nat) by (apply Hf; left; reflexivity).
    destruct (Nat.eqb_spec f k) as [->|Hne].
    + rewrite N.eqb_refl. f_equal. apply IH; [lia|exact Hi|intros g Hg; apply Hf; right; exact Hg].
    + assert (posf k < posf f) by (apply Hmono; lia).
      destruct (N.eqb_spec (posf f) (posf k)) as [E|_]; [lia|]. f_equal.
      apply (IH (S k) (f :: fs) j); [lia| |exact Hf]. cbn [incr_from]. split; [lia|exact Hi].
Qed.

(* every frame ends up on the instruction it names *)
Lemma incr_from_nth : forall fs lo m f, incr_from lo fs -> nth_error fs m = Some f -> (lo + m <= f)%nat.
Proof.
  induction fs as [|x fs IH]; intros lo m f Hi Hm; [destruct m; discriminate|].
  cbn [incr_from] in Hi. destruct Hi as [Hx Hi]. destruct m as [|m].
  - injection Hm as <-. lia.
  - cbn [nth_error] in Hm. specialize (IH (S x) m f Hi Hm). lia.
Qed.

Lemma attach_idx_spec : forall cnt k fs j, incr_from k fs -> (forall f, In f fs -> (f < k + cnt)%nat) ->
  forall m f, nth_error fs m = Some f -> nth_error (attach_idx k cnt fs j) (f - k) = Some (Some (j + m)%nat).
Proof.
  induction cnt as [|c IH]; intros k fs j Hi Hf m f Hm.
  - exfalso. assert (Hin : In f fs) by (eapply nth_error_In; exact Hm). specialize (Hf f Hin).
    pose proof (incr_from_nth fs k m f Hi Hm). lia.
  - cbn [attach_idx]. destruct fs as [|g fs]; [destruct m; discriminate|].
    pose proof Hi as Hi0. cbn [incr_from] in Hi. destruct Hi as [Hkg Hi].
    destruct (Nat.eqb_spec g k) as [->|Hne].
    + destruct m as [|m].
      * injection Hm as <-. rewrite Nat.sub_diag. cbn [nth_error]. f_equal. f_equal. lia.
      * cbn [nth_error] in Hm. pose proof (incr_from_nth fs (S k) m f Hi Hm) as Hge.
        replace (f - k)%nat with (S (f - S k)) by lia. cbn [nth_error].
        rewrite (IH (S k) fs (S j) Hi) with (m := m); [f_equal; f_equal; lia| |exact Hm].
        intros x Hx. specialize (Hf x (or_intror Hx)). lia.
    + assert (Hge : (S k <= f)%nat).
      { pose proof (incr_from_nth (g :: fs) k m f Hi0 Hm). destruct m as [|m]; [injection Hm as <-; lia|lia]. }
      replace (f - k)%nat with (S (f - S k)) by lia. cbn [nth_error].
      apply (IH (S k) (g :: fs) j); [cbn [incr_from]; split; [lia|exact Hi]| |exact Hm].
      intros x Hx. specialize (Hf x Hx). lia.
Qed.

(* ---------------------------------------------------------------------------------------------- *)
Lemma map_insn_compose {A B C} (f : A -> B) (g : B -> C) (i : ainsn A) :
  map_insn g (map_insn f i) = map_insn (fun x => g (f x)) i.
Proof.
  destruct i as [c ops|d lo hi tbl|d ps]; cbn [map_insn].
  - f_equal. rewrite map_map. apply map_ext. intros [| | |]; reflexivity.
  - f_equal. apply map_map.
  - f_equal. rewrite map_map. apply map_ext. intros [k t]. reflexivity.
Qed.

Lemma map_insn_ext {A B} (f g : A -> B) (i : ainsn A) :
  (forall t, In t (targets i) -> f t = g t) -> map_insn f i = map_insn g i.
Proof.
  destruct i as [c ops|d lo hi tbl|d ps]; cbn [map_insn targets]; intros H.
  - f_equal. apply map_ext_in. intros o Ho. destruct o as [| |t|]; try reflexivity.
    cbn [map_op]. f_equal. apply H. apply in_flat_map. exists (OpT t). split; [exact Ho|left; reflexivity].
  - f_equal; [apply H; left; reflexivity|]. apply map_ext_in. intros t Ht. apply H. right. exact Ht.
  - f_equal; [apply H; left; reflexivity|]. apply map_ext_in. intros [k t] Ht. cbn [fst snd]. f_equal.
    apply H. right. apply in_map_iff. exists (k, t). split; [reflexivity|exact Ht].
Qed.

Lemma flat_map_map {A B C} (f : A -> B) (g : B -> list C) (l : list A) :
  flat_map g (map f l) = flat_map (fun x => g (f x)) l.
Proof. induction l as [|x l IH]; [reflexivity|]. cbn [map flat_map]. rewrite IH. reflexivity. Qed.

Lemma flat_map_ext_in {A B} (f g : A -> list B) (l : list A) :
  (forall x, In x l -> f x = g x) -> flat_map f l = flat_map g l.
Proof.
  induction l as [|x l IH]; intros H; [reflexivity|]. cbn [flat_map].
  rewrite (H x (or_introl eq_refl)), IH; [reflexivity|]. intros y Hy. apply H. right. exact Hy.
Qed.

Lemma map_flat_map {A B C} (f : B -> C) (g : A -> list B) (l : list A) :
  map f (flat_map g l) = flat_map (fun x => map f (g x)) l.
Proof. induction l as [|x l IH]; [reflexivity|]. cbn [flat_map]. rewrite map_app, IH. reflexivity. Qed.

Lemma map_fst_combine {A B} : forall (a : list A) (b : list B), length a = length b -> map fst (combine a b) = a.
Proof. induction a as [|x a IH]; intros [|y b] H; try discriminate; [reflexivity|]. cbn [combine map fst]. f_equal. apply IH. cbn in H. lia. Qed.
Lemma map_snd_combine {A B} : forall (a : list A) (b : list B), length a = length b -> map snd (combine a b) = b.
Proof. induction a as [|x a IH]; intros [|y b] H; try discriminate; [reflexivity|]. cbn [combine map snd]. f_equal. apply IH. cbn in H. lia. Qed.

Lemma starts_are_posf ch : forall body k pos,
  starts_from ch k pos body = map (fun j => nth j (layout_from ch k pos body) 0) (seq 0 (length body)).
Proof.
  induction body as [|i rest IH]; intros k pos; [reflexivity|].
  cbn [starts_from length seq map layout_from nth]. f_equal.
  rewrite IH, <- seq_shift, map_map. reflexivity.
Qed.

Lemma zip3_map_seq {A B C} (f : nat -> A) (l2 : list B) (l3 : list C) (g : nat -> A) n :
  (forall k, (k < n)%nat -> f k = g k) -> zip3 (map f (seq 0 n)) l2 l3 = zip3 (map g (seq 0 n)) l2 l3.
Proof.
  intros H. f_equal. apply map_ext_in. intros k Hk. apply in_seq in Hk. apply H. lia.
Qed.

(* the frames of a Code attribute as the reader is handed them: StackMapTable deltas, or the offsets
   of a CLDC StackMap attribute in file order *)
Definition frames_res (fr : list N) (cl : option (list N)) : res (list N) :=
  match cl with
  | None => frame_offsets true 0 fr
  | Some os => match fr with [] => Ok (isort N.leb os) | _ :: _ => Err end
  end.
Definition code_in_with (posf : nat -> N) (t : tables) (bs : bytes) (fr : list N) (cl : option (list N)) : code_in :=
  {| ci_code := bs;
     ci_exc := map (fun e => match e with (s, e', h) => (posf s, posf e', posf h) end) (t_exc t);
     ci_lines := map (fun e => (posf (fst e), snd e)) (t_lines t);
     ci_ranges := map (fun e => (posf (fst e), posf (snd e) - posf (fst e))) (t_ranges t);
     ci_frames := fr;
     ci_cldc := cl;
     ci_points := map posf (t_points t) |}.

Lemma read_encode_gen ch body bs t fr cl :
  encode ch body = Some bs -> body <> [] -> N.of_nat (length bs) <= 65535 ->
  targets_ok body -> tables_ok (length body) t ->
  frames_res fr cl = Ok (map (posf_of (layout ch body)) (t_frames t)) ->
  read_code (code_in_with (posf_of (layout ch body)) t bs fr cl) = Ok (expected body t).
Proof.
  intros HE HNE HL HT HTab HFR.
  set (posf := posf_of (layout ch body)). set (n := length body). set (clen := N.of_nat (length bs)).
  assert (Hmono : forall a b, (a < b)%nat -> (b <= n)%nat -> posf a < posf b).
  { intros a b Hab Hb. unfold posf, posf_of, layout. apply layout_from_nth_lt; assumption. }
  assert (Hend : posf n = clen) by (apply (layout_end _ _ _ HE)).
  assert (Hlt : forall k, (k < n)%nat -> posf k < clen) by (intros k Hk; apply (posf_lt ch body bs k HE Hk)).
  assert (Hle : forall k, (k <= n)%nat -> posf k <= clen) by (intros k Hk; apply (posf_le ch body bs k HE Hk)).
  assert (Hinj : forall a b, (a <= n)%nat -> (b <= n)%nat -> posf a = posf b -> a = b).
  { intros a b Ha Hb E. destruct (Nat.lt_trichotomy a b) as [H|[H|H]]; [|exact H|].
    - pose proof (Hmono a b H Hb). lia.
    - pose proof (Hmono b a H Ha). lia. }
  assert (Hn0 : (0 < n)%nat) by (unfold n; destruct body; [congruence|cbn; lia]).
  assert (Hc0 : 0 < clen) by (pose proof (Hlt 0%nat Hn0); lia).
  destruct HTab as (Texc & Tlines & Tranges & Tincr & Tframes & Tpoints).
  unfold read_code, read_code_raw. cbn [code_in_with ci_code ci_exc ci_lines ci_ranges ci_frames ci_cldc ci_points].
  fold clen. fold (frames_res fr cl). fold posf in HFR. rewrite HFR.
  destruct (N.eqb_spec clen 0) as [E0|_]; [lia|]. destruct (N.ltb_spec 65535 clen) as [E1|_]; [lia|]. cbn [orb].
  (* pass 1 *)
  unfold clen at 1 2. rewrite (scan_encode ch body bs HE HT HL). fold posf. cbn [bind]. fold clen.
  (* exception table *)
  rewrite fold_exc.
  2:{ intros s e h Hin. apply in_map_iff in Hin. destruct Hin as ([[s0 e0] h0] & Heq & Hin).
      injection Heq as <- <- <-. destruct (Texc _ _ _ Hin) as (A & B & C).
      repeat split; [apply Hlt; exact A|apply Hle; exact B|apply Hlt; exact C]. }
  cbn [bind].
  (* frames *)
  rewrite fold_create by (intros x Hx; apply in_map_iff in Hx; destruct Hx as (f & <- & Hf); apply Hlt; apply Tframes; exact Hf).
  cbn [bind].
  (* line numbers *)
  rewrite fold_lines by (intros x Hx; apply in_map_iff in Hx; destruct Hx as (e & <- & He); cbn [fst]; apply Hlt; apply Tlines; exact He).
  cbn [bind].
  (* local variable ranges *)
  rewrite (fold_ranges clen HL).
  2:{ intros x Hx. apply in_map_iff in Hx. destruct Hx as (e & <- & He). cbn [fst snd].
      destruct (Tranges e He) as (A & B & C). split; [apply Hlt; exact A|].
      assert (posf (fst e) <= posf (snd e)).
      { destruct (Nat.eq_dec (fst e) (snd e)) as [->|Hne]; [lia|]. pose proof (Hmono (fst e) (snd e) ltac:(lia) C). lia. }
      pose proof (Hle (snd e) C). lia. }
  cbn [bind].
  (* other points *)
  rewrite fold_create by (intros x Hx; apply in_map_iff in Hx; destruct Hx as (f & <- & Hf); apply Hlt; apply Tpoints; exact Hf).
  cbn [bind].
  (* the final label set is the set of offsets of all referenced instructions *)
  match goal with |- context [decode _ ?L _ _] => set (ls := L) end.
  assert (HLS : forall x, lbl_get ls x = true <-> In x (map posf (refs body t))).
  { intros x. unfold ls. rewrite !lbl_get_fold, lbl_get_nil. unfold refs. rewrite !map_app, !in_app_iff.
    rewrite (flat_map_map _ exc_offs), (map_flat_map posf exc_refs).
    rewrite (flat_map_ext_in (fun x0 => exc_offs (let '(s, e', h) := x0 in (posf s, posf e', posf h))) (fun x0 => map posf (exc_refs x0)))
      by (intros [[s e] h] _; reflexivity).
    rewrite map_map. cbn [fst].
    rewrite (flat_map_map _ range_offs), (map_flat_map posf range_refs).
    rewrite (flat_map_ext_in (fun x0 => range_offs (posf (fst x0), posf (snd x0) - posf (fst x0))) (fun x0 => map posf (range_refs x0))).
    2:{ intros e He. unfold range_offs, range_refs. cbn [fst snd map]. destruct (Tranges e He) as (A & B & C).
        assert (posf (fst e) <= posf (snd e)).
        { destruct (Nat.eq_dec (fst e) (snd e)) as [->|Hne]; [lia|]. pose proof (Hmono (fst e) (snd e) ltac:(lia) C). lia. }
        f_equal. f_equal. lia. }
    rewrite (map_map fst posf). intuition discriminate. }
  (* pass 2 *)
  unfold clen at 1. rewrite (decode_encode ch body bs ls HE HT HL).
  2:{ intros x Hx. apply HLS. apply in_map. unfold refs. apply in_or_app. left. exact Hx. }
  fold posf. cbn [bind]. f_equal.
  (* sem *)
  assert (Hoffs : map fst (combine (starts_from ch 0 0 body) (map (map_insn posf) body)) ++ [clen] = layout ch body).
  { rewrite map_fst_combine by (rewrite starts_from_length, map_length; reflexivity).
    unfold layout. rewrite layout_from_starts. f_equal. f_equal.
    unfold encode in HE. apply encode_from_length in HE. unfold clen. lia. }
  assert (Hix : forall k, (k <= n)%nat ->
            index_of (posf k) (map fst (combine (starts_from ch 0 0 body) (map (map_insn posf) body)) ++ [clen]) 0 = Some k).
  { intros k Hk. rewrite Hoffs. apply offset_designates. exact Hk. }
  assert (Hrefs : forall k, In k (refs body t) -> (k <= n)%nat).
  { intros k Hk. unfold refs in Hk. rewrite !in_app_iff in Hk. destruct Hk as [H|[H|[H|[H|[H|H]]]]].
    - apply in_flat_map in H. destruct H as (i & Hi & Hti). specialize (HT i k Hi Hti). fold n in HT. lia.
    - apply in_flat_map in H. destruct H as ([[s e] h] & He & Hk). destruct (Texc _ _ _ He) as (A & B & C).
      cbn in Hk. destruct Hk as [<-|[<-|[<-|[]]]]; lia.
    - specialize (Tframes k H). lia.
    - apply in_map_iff in H. destruct H as (e & <- & He). specialize (Tlines e He). lia.
    - apply in_flat_map in H. destruct H as (e & He & Hk). destruct (Tranges e He) as (A & B & C).
      cbn in Hk. destruct Hk as [<-|[<-|[]]]; lia.
    - specialize (Tpoints k H). lia. }
  assert (Hflag : forall k, (k <= n)%nat -> lbl_get ls (posf k) = mem_nat k (refs body t)).
  { intros k Hk. apply eq_true_iff_eq. rewrite HLS, mem_nat_In, in_map_iff. split.
    - intros (j & Ej & Hj). rewrite <- (Hinj j k (Hrefs j Hj) Hk Ej). exact Hj.
    - intros H. exists k. split; [reflexivity|exact H]. }
  unfold sem, expected.
  cbn [cr_insns cr_labels cr_clen cr_frames code_in_with ci_exc ci_lines ci_ranges ci_points].
  fold n. f_equal; fold clen.
  - (* instructions *)
    assert (S : starts_from ch 0 0 body = map posf (seq 0 n)) by (rewrite starts_are_posf; reflexivity).
    assert (L1 : length (map posf (seq 0 n)) = length (map (map_insn posf) body)) by (rewrite !map_length, seq_length; reflexivity).
    rewrite S in *. f_equal.
    + rewrite <- (map_map fst (lbl_get ls)), (map_fst_combine _ _ L1), map_map.
      apply map_ext_in. intros k Hk. apply in_seq in Hk. apply (Hflag k). lia.
    + pose proof (attach_along posf n Hmono (map (map_insn posf) body) 0 (t_frames t) 0) as A.
      rewrite map_length in A. fold n in A. apply A; [lia|exact Tincr|exact Tframes].
    + rewrite <- (map_map snd), (map_snd_combine _ _ L1), map_map.
      apply map_ext_in. intros i Hi. rewrite map_insn_compose. apply map_insn_ext.
      intros x Hx. apply Hix. specialize (HT i x Hi Hx). fold n in HT. lia.
  - (* last label *) rewrite <- Hend. apply Hflag. lia.
  - (* exceptions *)
    rewrite map_map. apply map_ext_in. intros [[s e] h] Hin. destruct (Texc _ _ _ Hin) as (A & B & C).
    rewrite !Hix by lia. reflexivity.
  - rewrite map_map. apply map_ext_in. intros e Hin. cbn [fst snd]. rewrite Hix; [reflexivity|].
    specialize (Tlines e Hin). lia.
  - rewrite map_map. apply map_ext_in. intros e Hin. cbn [fst snd]. destruct (Tranges e Hin) as (A & B & C).
    assert (posf (fst e) <= posf (snd e)).
    { destruct (Nat.eq_dec (fst e) (snd e)) as [->|Hne]; [lia|]. pose proof (Hmono (fst e) (snd e) ltac:(lia) C). lia. }
    replace (posf (fst e) + (posf (snd e) - posf (fst e))) with (posf (snd e)) by lia.
    rewrite !Hix by lia. reflexivity.
  - rewrite map_map. apply map_ext_in. intros p Hin. apply Hix. specialize (Tpoints p Hin). lia.
Qed.

Theorem read_encode ch body bs t :
  encode ch body = Some bs -> body <> [] -> N.of_nat (length bs) <= 65535 ->
  targets_ok body -> tables_ok (length body) t ->
  read_code (code_in_of (posf_of (layout ch body)) t bs) = Ok (expected body t).
Proof.
  intros HE HNE HL HT HTab.
  change (code_in_of (posf_of (layout ch body)) t bs)
    with (code_in_with (posf_of (layout ch body)) t bs (frame_deltas (posf_of (layout ch body)) true 0 (t_frames t)) None).
  apply read_encode_gen; try assumption.
  set (posf := posf_of (layout ch body)). set (n := length body).
  assert (Hmono : forall a b, (a < b)%nat -> (b <= n)%nat -> posf a < posf b).
  { intros a b Hab Hb. unfold posf, posf_of, layout. apply layout_from_nth_lt; assumption. }
  assert (Hend : posf n = N.of_nat (length bs)) by (apply (layout_end _ _ _ HE)).
  destruct HTab as (_ & _ & _ & Tincr & Tframes & _).
  unfold frames_res.
  apply (frame_offsets_deltas posf n Hmono ltac:(lia) (t_frames t) 0%nat true 0 Tincr Tframes eq_refl).
Qed.

(* ---------------------------------------------------------------------------------------------- *)
(* the CLDC StackMap attribute: absolute offsets, in ANY order.  The reader queues the frames in the
   order of their offsets (fix 15936f8: it used to order them by label id, i.e. by the order in
   which the labels had been created), so each frame reaches the instruction at its offset. *)
Definition code_in_cldc (posf : nat -> N) (t : tables) (order : list nat) (bs : bytes) : code_in :=
  code_in_with posf t bs [] (Some (map posf order)).

Lemma N_leb_total : total_on N.leb (fun _ : N => True).
Proof. intros a b _ _. destruct (N.leb_spec a b) as [H|H]; [left; reflexivity|right; apply N.leb_le; lia]. Qed.
Lemma N_leb_trans : trans_on N.leb (fun _ : N => True).
Proof. intros a b c _ _ _ H1 H2. apply N.leb_le in H1, H2. apply N.leb_le. lia. Qed.
Lemma N_leb_antisym : antisym_on N.leb (fun _ : N => True).
Proof. intros a b _ _ H1 H2. apply N.leb_le in H1, H2. lia. Qed.

Lemma sorted_map_posf posf n :
  (forall a b, (a < b)%nat -> (b <= n)%nat -> posf a < posf b) ->
  forall fs lo, incr_from lo fs -> (forall f, In f fs -> (f < n)%nat) -> Sorted (lebP N.leb) (map posf fs).
Proof.
  intros Hmono. induction fs as [|f fs IH]; intros lo Hi Hf; [constructor|].
  cbn [map]. destruct Hi as [Hlo Hi]. constructor.
  - apply (IH (S f) Hi). intros x Hx. apply Hf. right. exact Hx.
  - destruct fs as [|g fs]; [constructor|]. cbn [map]. constructor. unfold lebP. apply N.leb_le.
    destruct Hi as [Hg _]. assert (posf f < posf g); [|lia].
    apply Hmono; [lia|]. assert ((g < n)%nat) by (apply Hf; right; left; reflexivity). lia.
Qed.

Theorem read_encode_cldc ch body bs t order :
  encode ch body = Some bs -> body <> [] -> N.of_nat (length bs) <= 65535 ->
  targets_ok body -> tables_ok (length body) t -> Permutation order (t_frames t) ->
  read_code (code_in_cldc (posf_of (layout ch body)) t order bs) = Ok (expected body t).
Proof.
  intros HE HNE HL HT HTab HP. unfold code_in_cldc. apply read_encode_gen; try assumption.
  set (posf := posf_of (layout ch body)). set (n := length body).
  assert (Hmono : forall a b, (a < b)%nat -> (b <= n)%nat -> posf a < posf b).
  { intros a b Hab Hb. unfold posf, posf_of, layout. apply layout_from_nth_lt; assumption. }
  destruct HTab as (_ & _ & _ & Tincr & Tframes & _).
  unfold frames_res. f_equal.
  rewrite (sorted_perm_unique N.leb (fun _ => True) (map posf order) (map posf (t_frames t))
             N_leb_total N_leb_trans N_leb_antisym).
  - apply isort_id_sorted. apply (sorted_map_posf posf n Hmono (t_frames t) 0%nat Tincr Tframes).
  - apply Forall_forall. intros; exact I.
  - apply Permutation_map. exact HP.
Qed.

(* ---------------------------------------------------------------------------------------------- *)
(* what [expected] says, spelled out: as many instructions as the body has, the k-th being the k-th
   instruction of the body, labelled iff some instruction or table refers to k *)
Lemma attach_idx_length : forall cnt k fs j, length (attach_idx k cnt fs j) = cnt.
Proof.
  induction cnt as [|c IH]; intros k fs j; [reflexivity|]. cbn [attach_idx].
  destruct fs as [|f fs]; [cbn [length]; rewrite IH; reflexivity|].
  destruct (Nat.eqb f k); cbn [length]; rewrite IH; reflexivity.
Qed.

Lemma zip3_nth {A B C} : forall (a : list A) (b : list B) (c : list C) k x y z,
  nth_error a k = Some x -> nth_error b k = Some y -> nth_error c k = Some z ->
  nth_error (zip3 a b c) k = Some (x, y, z).
Proof.
  induction a as [|a0 a IH]; intros b c k x y z Ha Hb Hc; [destruct k; discriminate|].
  destruct b as [|b0 b]; [destruct k; discriminate|]. destruct c as [|c0 c]; [destruct k; discriminate|].
  destruct k as [|k]; cbn [nth_error zip3] in *.
  - injection Ha as ->. injection Hb as ->. injection Hc as ->. reflexivity.
  - apply IH; assumption.
Qed.
Lemma zip3_length {A B C} : forall (a : list A) (b : list B) (c : list C),
  length a = length b -> length b = length c -> length (zip3 a b c) = length a.
Proof.
  induction a as [|a0 a IH]; intros [|b0 b] [|c0 c] H1 H2; try discriminate; [reflexivity|].
  cbn [zip3 length]. f_equal. apply IH; [cbn in H1; lia|cbn in H2; lia].
Qed.

Theorem expected_shape body t :
  length (cs_insns (expected body t)) = length body /\
  forall k i, nth_error body k = Some i ->
    exists fr, nth_error (cs_insns (expected body t)) k = Some (mem_nat k (refs body t), fr, map_insn Some i).
Proof.
  unfold expected. cbn [cs_insns]. split.
  - rewrite zip3_length; rewrite ?map_length, ?seq_length, ?attach_idx_length; reflexivity.
  - intros k i Hk.
    assert (Hlt : (k < length body)%nat) by (apply nth_error_Some; congruence).
    destruct (nth_error (attach_idx 0 (length body) (t_frames t) 0) k) as [fr|] eqn:Ef.
    2:{ apply nth_error_None in Ef. rewrite attach_idx_length in Ef. lia. }
    exists fr. apply zip3_nth; [|exact Ef|].
    + rewrite nth_error_map. rewrite (nth_error_nth' (seq 0 (length body)) 0%nat) by (rewrite seq_length; exact Hlt).
      rewrite seq_nth by exact Hlt. reflexivity.
    + rewrite nth_error_map, Hk. reflexivity.
Qed.
