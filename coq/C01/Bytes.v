(* C01 — byte-level helpers: big-endian u16/u32 and two's-complement i8/i16/i32, with the
   decode∘encode lemmas.  A byte is an N (values < 256 for well-formed inputs); a code array
   is a [list N].  (This file belongs in Base/ as Bytes.v; it lives here because Base/ is
   shared.) *)
From Coq Require Export List NArith ZArith Bool Lia.
From FB Require Export Base.Str.
Export ListNotations.
Open Scope N_scope.

Definition bytes := list N.

(* ---------- unsigned big endian ---------- *)
Definition be16 (n : N) : bytes := [n / 256; n mod 256].
Definition be32 (n : N) : bytes := [n / 16777216; (n / 65536) mod 256; (n / 256) mod 256; n mod 256].
Definition dec16 (a b : N) : N := a * 256 + b.
Definition dec32 (a b c d : N) : N := ((a * 256 + b) * 256 + c) * 256 + d.

Lemma dec16_be16 n : dec16 (n / 256) (n mod 256) = n.
Proof. unfold dec16. pose proof (N.div_mod n 256). lia. Qed.

Lemma be16_bytes n : n < 65536 -> n / 256 < 256 /\ n mod 256 < 256.
Proof.
  intros H. split.
  - apply N.div_lt_upper_bound; lia.
  - apply N.mod_lt. lia.
Qed.

Lemma dec32_be32 n :
  dec32 (n / 16777216) ((n / 65536) mod 256) ((n / 256) mod 256) (n mod 256) = n.
Proof.
  unfold dec32.
  pose proof (N.div_mod n 256) as H0.
  pose proof (N.div_mod (n / 256) 256) as H1.
  pose proof (N.div_mod (n / 65536) 256) as H2.
  assert (E1 : n / 256 / 256 = n / 65536) by (rewrite N.div_div by lia; reflexivity).
  assert (E2 : n / 65536 / 256 = n / 16777216) by (rewrite N.div_div by lia; reflexivity).
  rewrite E1 in H1. rewrite E2 in H2. lia.
Qed.

Lemma be32_bytes n : n < 4294967296 ->
  n / 16777216 < 256 /\ (n / 65536) mod 256 < 256 /\ (n / 256) mod 256 < 256 /\ n mod 256 < 256.
Proof.
  intros H. repeat split; try (apply N.mod_lt; lia).
  apply N.div_lt_upper_bound; lia.
Qed.

(* ---------- two's complement ---------- *)
(* [sN u] interprets the unsigned value u (< 2^N) as a signed one; [uN z] is the inverse *)
Definition s8 (u : N) : Z := if u <? 128 then Z.of_N u else (Z.of_N u - 256)%Z.
Definition s16 (u : N) : Z := if u <? 32768 then Z.of_N u else (Z.of_N u - 65536)%Z.
Definition s32 (u : N) : Z := if u <? 2147483648 then Z.of_N u else (Z.of_N u - 4294967296)%Z.
Definition u8 (z : Z) : N := Z.to_N (z mod 256).
Definition u16 (z : Z) : N := Z.to_N (z mod 65536).
Definition u32 (z : Z) : N := Z.to_N (z mod 4294967296).

Definition fits8 (z : Z) : bool := ((-128 <=? z) && (z <? 128))%Z.
Definition fits16 (z : Z) : bool := ((-32768 <=? z) && (z <? 32768))%Z.
Definition fits32 (z : Z) : bool := ((-2147483648 <=? z) && (z <? 2147483648))%Z.

Lemma fits8_spec z : fits8 z = true <-> (-128 <= z < 128)%Z.
Proof. unfold fits8. rewrite andb_true_iff, Z.leb_le, Z.ltb_lt. tauto. Qed.
Lemma fits16_spec z : fits16 z = true <-> (-32768 <= z < 32768)%Z.
Proof. unfold fits16. rewrite andb_true_iff, Z.leb_le, Z.ltb_lt. tauto. Qed.
Lemma fits32_spec z : fits32 z = true <-> (-2147483648 <= z < 2147483648)%Z.
Proof. unfold fits32. rewrite andb_true_iff, Z.leb_le, Z.ltb_lt. tauto. Qed.

Lemma u8_lt z : u8 z < 256.
Proof. unfold u8. pose proof (Z.mod_pos_bound z 256). lia. Qed.
Lemma u16_lt z : u16 z < 65536.
Proof. unfold u16. pose proof (Z.mod_pos_bound z 65536). lia. Qed.
Lemma u32_lt z : u32 z < 4294967296.
Proof. unfold u32. pose proof (Z.mod_pos_bound z 4294967296). lia. Qed.

Lemma s8_u8 z : (-128 <= z < 128)%Z -> s8 (u8 z) = z.
Proof.
  intros H. unfold s8, u8.
  destruct (Z.ltb_spec z 0) as [Hn|Hp].
  - assert (E : (z mod 256 = z + 256)%Z).
    { symmetry. apply (Z.mod_unique z 256 (-1) (z + 256)); lia. }
    rewrite E. destruct (N.ltb_spec (Z.to_N (z + 256)) 128); lia.
  - rewrite Z.mod_small by lia. destruct (N.ltb_spec (Z.to_N z) 128); lia.
Qed.

Lemma s16_u16 z : (-32768 <= z < 32768)%Z -> s16 (u16 z) = z.
Proof.
  intros H. unfold s16, u16.
  destruct (Z.ltb_spec z 0) as [Hn|Hp].
  - assert (E : (z mod 65536 = z + 65536)%Z).
    { symmetry. apply (Z.mod_unique z 65536 (-1) (z + 65536)); lia. }
    rewrite E. destruct (N.ltb_spec (Z.to_N (z + 65536)) 32768); lia.
  - rewrite Z.mod_small by lia. destruct (N.ltb_spec (Z.to_N z) 32768); lia.
Qed.

Lemma s32_u32 z : (-2147483648 <= z < 2147483648)%Z -> s32 (u32 z) = z.
Proof.
  intros H. unfold s32, u32.
  destruct (Z.ltb_spec z 0) as [Hn|Hp].
  - assert (E : (z mod 4294967296 = z + 4294967296)%Z).
    { symmetry. apply (Z.mod_unique z 4294967296 (-1) (z + 4294967296)); lia. }
    rewrite E. destruct (N.ltb_spec (Z.to_N (z + 4294967296)) 2147483648); lia.
  - rewrite Z.mod_small by lia. destruct (N.ltb_spec (Z.to_N z) 2147483648); lia.
Qed.

Lemma u8_s8 u : u < 256 -> u8 (s8 u) = u.
Proof.
  intros H. unfold s8, u8. destruct (N.ltb_spec u 128).
  - rewrite Z.mod_small by lia. lia.
  - assert (E : ((Z.of_N u - 256) mod 256 = Z.of_N u)%Z).
    { symmetry. apply (Z.mod_unique _ 256 (-1)); lia. }
    rewrite E. lia.
Qed.
Lemma u16_s16 u : u < 65536 -> u16 (s16 u) = u.
Proof.
  intros H. unfold s16, u16. destruct (N.ltb_spec u 32768).
  - rewrite Z.mod_small by lia. lia.
  - assert (E : ((Z.of_N u - 65536) mod 65536 = Z.of_N u)%Z).
    { symmetry. apply (Z.mod_unique _ 65536 (-1)); lia. }
    rewrite E. lia.
Qed.
Lemma u32_s32 u : u < 4294967296 -> u32 (s32 u) = u.
Proof.
  intros H. unfold s32, u32. destruct (N.ltb_spec u 2147483648).
  - rewrite Z.mod_small by lia. lia.
  - assert (E : ((Z.of_N u - 4294967296) mod 4294967296 = Z.of_N u)%Z).
    { symmetry. apply (Z.mod_unique _ 4294967296 (-1)); lia. }
    rewrite E. lia.
Qed.

(* signed encoders *)
Definition bei16 (z : Z) : bytes := be16 (u16 z).
Definition bei32 (z : Z) : bytes := be32 (u32 z).

(* ---------- readers over a byte list: value and remaining bytes ---------- *)
Definition rd_u8 (s : bytes) : res (N * bytes) :=
  match s with a :: r => Ok (a, r) | _ => Err end.
Definition rd_u16 (s : bytes) : res (N * bytes) :=
  match s with a :: b :: r => Ok (dec16 a b, r) | _ => Err end.
Definition rd_u32 (s : bytes) : res (N * bytes) :=
  match s with a :: b :: c :: d :: r => Ok (dec32 a b c d, r) | _ => Err end.
Definition rd_i8 (s : bytes) : res (Z * bytes) :=
  match s with a :: r => Ok (s8 a, r) | _ => Err end.
Definition rd_i16 (s : bytes) : res (Z * bytes) :=
  match s with a :: b :: r => Ok (s16 (dec16 a b), r) | _ => Err end.
Definition rd_i32 (s : bytes) : res (Z * bytes) :=
  match s with a :: b :: c :: d :: r => Ok (s32 (dec32 a b c d), r) | _ => Err end.

Lemma rd_u16_be16 n r : rd_u16 (be16 n ++ r) = Ok (n, r).
Proof. unfold be16, rd_u16. cbn [app]. rewrite dec16_be16. reflexivity. Qed.
Lemma rd_u32_be32 n r : rd_u32 (be32 n ++ r) = Ok (n, r).
Proof. unfold be32, rd_u32. cbn [app]. rewrite dec32_be32. reflexivity. Qed.
Lemma rd_i16_bei16 z r : fits16 z = true -> rd_i16 (bei16 z ++ r) = Ok (z, r).
Proof.
  intros H. apply fits16_spec in H. unfold bei16, be16, rd_i16. cbn [app].
  rewrite dec16_be16, s16_u16 by exact H. reflexivity.
Qed.
Lemma rd_i32_bei32 z r : fits32 z = true -> rd_i32 (bei32 z ++ r) = Ok (z, r).
Proof.
  intros H. apply fits32_spec in H. unfold bei32, be32, rd_i32. cbn [app].
  rewrite dec32_be32, s32_u32 by exact H. reflexivity.
Qed.
Lemma rd_i8_u8 z r : fits8 z = true -> rd_i8 (u8 z :: r) = Ok (z, r).
Proof. intros H. apply fits8_spec in H. unfold rd_i8. rewrite s8_u8 by exact H. reflexivity. Qed.

Lemma be16_length n : length (be16 n) = 2%nat. Proof. reflexivity. Qed.
Lemma be32_length n : length (be32 n) = 4%nat. Proof. reflexivity. Qed.
Lemma bei16_length n : length (bei16 n) = 2%nat. Proof. reflexivity. Qed.
Lemma bei32_length n : length (bei32 n) = 4%nat. Proof. reflexivity. Qed.

(* all bytes of a list are < 256 *)
Definition all_bytes (s : bytes) : bool := forallb (fun b => b <? 256) s.
Lemma all_bytes_be16 n : n < 65536 -> all_bytes (be16 n) = true.
Proof.
  intros H. destruct (be16_bytes n H) as [A B]. unfold all_bytes, be16. cbn [forallb].
  apply N.ltb_lt in A, B. rewrite A, B. reflexivity.
Qed.
Lemma all_bytes_be32 n : n < 4294967296 -> all_bytes (be32 n) = true.
Proof.
  intros H. destruct (be32_bytes n H) as (A & B & C & D). unfold all_bytes, be32. cbn [forallb].
  apply N.ltb_lt in A, B, C, D. rewrite A, B, C, D. reflexivity.
Qed.
