(* C01 — theory, part 6: attribute framing and dispatch; access flags. *)
From Coq Require Import Permutation.
From FB Require Import C01.Bytes C01.Attr.
Arguments N.add : simpl never.
Arguments N.mul : simpl never.

(* ---------------------------------------------------------------------------------------------- *)
(* framing: an encoded attribute list is parsed back, payloads byte for byte *)
Lemma take_res_app (a t : bytes) : take_res (N.of_nat (length a)) (a ++ t) = Ok (a, t).
Proof.
  unfold take_res. rewrite app_length.
  destruct (N.leb_spec (N.of_nat (length a)) (N.of_nat (length a + length t))) as [_|H]; [|lia].
  rewrite Nnat.Nat2N.id, firstn_app, firstn_all, Nat.sub_diag, skipn_app, skipn_all, Nat.sub_diag.
  cbn [firstn skipn]. rewrite app_nil_r. reflexivity.
Qed.

Definition attr_raw_ok (a : attr_raw) : Prop := fst a < 65536 /\ N.of_nat (length (snd a)) < 4294967296.

Lemma parse_enc_attrs_n : forall l rest, (forall a, In a l -> attr_raw_ok a) ->
  parse_attrs_n (length l) (flat_map enc_attr l ++ rest) = Ok (l, rest).
Proof.
  induction l as [|[name payload] l IH]; intros rest H; [reflexivity|].
  cbn [length parse_attrs_n flat_map]. unfold enc_attr at 1. cbn [fst snd]. rewrite <- !app_assoc.
  rewrite rd_u16_be16. cbn [bind]. rewrite rd_u32_be32. cbn [bind].
  rewrite take_res_app. cbn [bind]. rewrite IH by (intros a Ha; apply H; right; exact Ha). reflexivity.
Qed.

Theorem parse_enc_attrs l rest :
  N.of_nat (length l) < 65536 -> (forall a, In a l -> attr_raw_ok a) ->
  parse_attrs (enc_attrs l ++ rest) = Ok (l, rest).
Proof.
  intros HL H. unfold parse_attrs, enc_attrs. rewrite <- app_assoc, rd_u16_be16. cbn [bind].
  rewrite Nnat.Nat2N.id. apply parse_enc_attrs_n. exact H.
Qed.

(* ---------------------------------------------------------------------------------------------- *)
(* dispatch: unknown attributes are delivered verbatim, exactly those, in file order *)
Theorem unknown_verbatim known (l : list attr) name payload :
  In (name, payload) l -> mem_str name known = false -> In (name, payload) (unknown_of known l).
Proof.
  intros Hin Hk. unfold unknown_of. apply filter_In. split; [exact Hin|]. cbn [fst]. rewrite Hk. reflexivity.
Qed.

Theorem unknown_nothing_invented known (l : list attr) a :
  In a (unknown_of known l) -> In a l /\ mem_str (fst a) known = false.
Proof.
  unfold unknown_of. rewrite filter_In. intros [H1 H2]. split; [exact H1|].
  apply negb_true_iff in H2. exact H2.
Qed.

Theorem unknown_in_order known (l1 l2 : list attr) :
  unknown_of known (l1 ++ l2) = unknown_of known l1 ++ unknown_of known l2.
Proof. unfold unknown_of. apply filter_app. Qed.

(* order independence for lists with distinct names *)
Lemma lookup_attr_In name : forall (l : list attr) b,
  NoDup (map fst l) -> In (name, b) l -> lookup_attr name l = Some b.
Proof.
  induction l as [|[n b'] l IH]; intros b ND Hin; [destruct Hin|].
  cbn [lookup_attr]. cbn [map fst] in ND. inversion ND as [|? ? Hnot ND']; subst.
  destruct Hin as [E|Hin].
  - injection E as -> ->. rewrite str_eqb_refl. reflexivity.
  - destruct (str_eqb_spec n name) as [->|Hne].
    + exfalso. apply Hnot. apply in_map_iff. exists (name, b). split; [reflexivity|exact Hin].
    + apply IH; assumption.
Qed.
Lemma lookup_attr_None name : forall (l : list attr),
  (forall b, ~ In (name, b) l) -> lookup_attr name l = None.
Proof.
  induction l as [|[n b'] l IH]; intros H; [reflexivity|]. cbn [lookup_attr].
  destruct (str_eqb_spec n name) as [->|Hne].
  - exfalso. apply (H b'). left. reflexivity.
  - apply IH. intros b Hb. apply (H b). right. exact Hb.
Qed.
Lemma lookup_attr_Some_In name : forall (l : list attr) b, lookup_attr name l = Some b -> In (name, b) l.
Proof.
  induction l as [|[n b'] l IH]; intros b H; [discriminate|]. cbn [lookup_attr] in H.
  destruct (str_eqb_spec n name) as [->|Hne].
  - injection H as ->. left. reflexivity.
  - right. apply IH. exact H.
Qed.

Theorem attr_order_independent known (l l' : list attr) :
  NoDup (map fst l) -> Permutation l l' ->
  (forall name, lookup_attr name l = lookup_attr name l') /\
  Permutation (unknown_of known l) (unknown_of known l').
Proof.
  intros ND HP. split.
  - intros name.
    assert (ND' : NoDup (map fst l')) by (eapply Permutation_NoDup; [apply Permutation_map; exact HP|exact ND]).
    destruct (lookup_attr name l) as [b|] eqn:E.
    + symmetry. apply lookup_attr_In; [exact ND'|]. eapply Permutation_in; [exact HP|].
      apply lookup_attr_Some_In. exact E.
    + symmetry. apply lookup_attr_None. intros b Hb.
      assert (Hin : In (name, b) l) by (eapply Permutation_in; [apply Permutation_sym; exact HP|exact Hb]).
      rewrite (lookup_attr_In name l b ND Hin) in E. discriminate.
  - unfold unknown_of. clear ND. induction HP as [|x l l' HP IH|x y l|l l' l'' HP1 IH1 HP2 IH2].
    + constructor.
    + cbn [filter]. destruct (negb (mem_str (fst x) known)); [constructor|]; exact IH.
    + cbn [filter]. destruct (negb (mem_str (fst y) known)), (negb (mem_str (fst x) known)); try apply Permutation_refl.
      apply perm_swap.
    + eapply Permutation_trans; eassumption.
Qed.

(* ---------------------------------------------------------------------------------------------- *)
(* access flags *)
(* every value below 2^k, by binary splitting (no large nat anywhere) *)
Fixpoint all_below (k : nat) (base : N) (f : N -> bool) : bool :=
  match k with
  | O => f base
  | S k' => all_below k' base f && all_below k' (base + 2 ^ N.of_nat k') f
  end.
Lemma all_below_spec f : forall k base, all_below k base f = true ->
  forall v, base <= v < base + 2 ^ N.of_nat k -> f v = true.
Proof.
  induction k as [|k IH]; intros base H v Hv.
  - cbn [all_below] in H. cbn in Hv. replace v with base by lia. exact H.
  - cbn [all_below] in H. apply andb_true_iff in H. destruct H as [H1 H2].
    rewrite Nnat.Nat2N.inj_succ, N.pow_succ_r' in Hv.
    destruct (N.ltb_spec v (base + 2 ^ N.of_nat k)) as [Hlt|Hge].
    + apply (IH base H1). lia.
    + apply (IH _ H2). lia.
Qed.

Definition access_ok (kind v : N) : bool :=
  let t := flag_tables kind in
  (access_back kind v =? N.land v (mask_of (fst t))).

Lemma access_all : forallb (fun kind => all_below 16 0 (access_ok kind)) [0; 1; 2; 3; 4; 5; 6; 7; 8] = true.
Proof. vm_compute. reflexivity. Qed.

(* reading a u16 into the flag struct and writing it back keeps exactly the defined bits *)
Theorem access_roundtrip kind v : kind <= 8 -> v < 65536 ->
  access_back kind v = N.land v (mask_of (fst (flag_tables kind))).
Proof.
  intros Hk Hv. pose proof access_all as A. rewrite forallb_forall in A.
  assert (Hin : In kind [0; 1; 2; 3; 4; 5; 6; 7; 8]).
  { cbn [In]. assert (kind = 0 \/ kind = 1 \/ kind = 2 \/ kind = 3 \/ kind = 4 \/ kind = 5 \/ kind = 6 \/ kind = 7 \/ kind = 8) by lia.
    intuition. }
  specialize (A kind Hin). apply N.eqb_eq. apply (all_below_spec (access_ok kind) 16 0 A). change (2 ^ N.of_nat 16) with 65536. lia.
Qed.

(* the bit tables of the reader and of the writer are those of JVMS 4.1-B, 4.5-A, 4.6-A, 4.7.6-A,
   4.7.24, 4.7.25 (transcribed by hand: the specification side) *)
Definition jvms_flags (kind : N) : list N :=
  match kind with
  | 0 => [1; 16; 32; 512; 1024; 4096; 8192; 16384; 32768]                 (* ClassFile.access_flags *)
  | 1 => [1; 2; 4; 8; 16; 64; 128; 4096; 16384]                          (* field_info *)
  | 2 => [1; 2; 4; 8; 16; 32; 64; 128; 256; 1024; 2048; 4096]            (* method_info *)
  | 3 => [1; 2; 4; 8; 16; 512; 1024; 4096; 8192; 16384]                  (* inner_class_access_flags *)
  | 4 => [16; 4096; 32768]                                               (* MethodParameters *)
  | 5 => [32; 4096; 32768]                                               (* module_flags: ACC_OPEN is 0x0020 *)
  | 6 => [32; 64; 4096; 32768]                                           (* requires_flags *)
  | _ => [4096; 32768]                                                   (* exports_flags, opens_flags *)
  end.
Definition nlist_eqb (a b : list N) : bool := str_eqb a b.
Theorem flags_match_jvms : forall kind, kind <= 8 ->
  fst (flag_tables kind) = jvms_flags kind /\ snd (flag_tables kind) = jvms_flags kind.
Proof.
  intros kind Hk.
  assert (kind = 0 \/ kind = 1 \/ kind = 2 \/ kind = 3 \/ kind = 4 \/ kind = 5 \/ kind = 6 \/ kind = 7 \/ kind = 8) as H by lia.
  destruct H as [->|[->|[->|[->|[->|[->|[->|[->| ->]]]]]]]]; split; reflexivity.
Qed.

(* ---------------------------------------------------------------------------------------------- *)
(* which attributes with an arm of their own are handed to the visitor *)
Definition ctx_known (c : N) : list str := match c with 0 => known_class | 1 => known_field | 2 => known_method | 3 => known_code | _ => known_record end.
Definition ctx_parsed (c : N) : list str := match c with 0 => parsed_class | 1 => parsed_field | 2 => parsed_method | 3 => parsed_code | _ => parsed_record end.
Definition ctx_flagged (c : N) : list str := match c with 0 => flagged_class | 1 => flagged_field | 2 => flagged_method | 3 => flagged_code | _ => flagged_record end.
Definition ctx_dropped (c : N) : list str := match c with 0 => dropped_class | 1 => dropped_field | 2 => dropped_method | 3 => dropped_code | _ => dropped_record end.

(* the known finding F13p: the two parameter-annotation attributes of a method are recognised and skipped *)
Definition s_RVPA : str := [82; 117; 110; 116; 105; 109; 101; 86; 105; 115; 105; 98; 108; 101; 80; 97; 114; 97; 109; 101; 116; 101; 114; 65; 110; 110; 111; 116; 97; 116; 105; 111; 110; 115].
Definition s_RIPA : str := [82; 117; 110; 116; 105; 109; 101; 73; 110; 118; 105; 115; 105; 98; 108; 101; 80; 97; 114; 97; 109; 101; 116; 101; 114; 65; 110; 110; 111; 116; 97; 116; 105; 111; 110; 115].
Definition known_class_f13p (c : N) (name : str) : bool := (c =? 2) && (str_eqb name s_RVPA || str_eqb name s_RIPA).

Definition delivered (c : N) (name : str) : Prop := In name (ctx_parsed c) \/ In name (ctx_flagged c).

Definition nothing_dropped_b : bool :=
  forallb (fun c => forallb (fun name => known_class_f13p c name || mem_str name (ctx_parsed c) || mem_str name (ctx_flagged c)) (ctx_known c))
          [0; 1; 2; 3; 4].

Lemma mem_str_In s l : mem_str s l = true <-> In s l.
Proof.
  unfold mem_str. rewrite existsb_exists. split.
  - intros (y & Hy & E). apply str_eqb_eq in E. subst. exact Hy.
  - intros H. exists s. split; [exact H|apply str_eqb_refl].
Qed.

Theorem nothing_dropped_partial : forall c name, c <= 4 ->
  known_class_f13p c name = false -> In name (ctx_known c) -> delivered c name.
Proof.
  intros c name Hc Hk Hin.
  assert (B : nothing_dropped_b = true) by (vm_compute; reflexivity).
  unfold nothing_dropped_b in B. rewrite forallb_forall in B.
  assert (Hcin : In c [0; 1; 2; 3; 4]).
  { cbn [In]. assert (c = 0 \/ c = 1 \/ c = 2 \/ c = 3 \/ c = 4) by lia. intuition. }
  specialize (B c Hcin). rewrite forallb_forall in B. specialize (B name Hin).
  rewrite Hk in B. cbn [orb] in B. apply orb_true_iff in B. unfold delivered.
  destruct B as [B|B]; apply mem_str_In in B; [left|right]; exact B.
Qed.

Theorem nothing_dropped_refuted : exists c name,
  known_class_f13p c name = true /\ In name (ctx_known c) /\ ~ delivered c name.
Proof.
  exists 2, s_RVPA. split; [reflexivity|]. split.
  - apply mem_str_In. vm_compute. reflexivity.
  - intros [H|H]; apply mem_str_In in H; vm_compute in H; discriminate.
Qed.

(* the unrestricted statement, NOT proved (false today, see nothing_dropped_refuted) *)
Definition nothing_dropped_full : Prop := forall c name, c <= 4 -> In name (ctx_known c) -> delivered c name.

(* the code reader hands the local variable tables to the visitor (F13, repaired) *)
Definition s_visit_local_variables : str := [118; 105; 115; 105; 116; 95; 108; 111; 99; 97; 108; 95; 118; 97; 114; 105; 97; 98; 108; 101; 115].
Theorem local_variables_visited : mem_str s_visit_local_variables code_visits = true.
Proof. vm_compute. reflexivity. Qed.

(* ---------------------------------------------------------------------------------------------- *)
(* header: every class file version of the JVMS (45.0 .. 67.0, minor 0 or 65535 from 56 on, any minor
   below) passes the gate, nothing above 67.0 does *)
Theorem header_gate mg minor major : minor < 65536 ->
  (header_ok mg minor major = true <-> mg = 3405691582 /\ (major < 67 \/ (major = 67 /\ minor = 0))).
Proof.
  intros Hm. unfold header_ok, version_le, magic, max_version_major, max_version_minor.
  rewrite andb_true_iff, orb_true_iff, andb_true_iff, N.eqb_eq, N.ltb_lt, N.eqb_eq, N.leb_le. split.
  - intros [-> [H|[-> H]]]; split; try reflexivity; [left; exact H|right; split; [reflexivity|lia]].
  - intros [-> [H|[-> ->]]]; split; try reflexivity; [left; exact H|right; split; [reflexivity|lia]].
Qed.
