(* C01 — theory, part 24 (round 7): NO JUNK for the WHOLE class file, in one statement.
   [read_class_strict] is read_class (ClassFile.v) with the format reader replaced by the checked one of
   Theory23 (attribute_length = bytes the payload takes, no skip past the end) and two more checks: the
   constant pool fills exactly constant_pool_count slots (duke's `while pool.len() < count` lets a Long /
   Double in the last slot overshoot), and nothing follows the class attributes.  It keeps read_class's
   structure: the members are first skipped by their declared attribute lengths, the class attributes are
   read where the skipping ended, then the reader goes back to the members and reads them by content —
   that the two walks end at the same place is not checked, it is proved.
   (1) whatever read_class_strict accepts, read_class (duke) accepts with the same answer;
   (2) for byte strings: read_class_strict s = Ok d  iff  s = encode_class c for a structure c that fits
       and whose description is d. *)
From FB Require Import C01.Bytes C01.Model C01.Pool C01.Fmt C01.Formats C01.ClassFile
  C01.Theory1 C01.Theory6 C01.Theory7 C01.Theory8 C01.Theory14 C01.Theory23.
Arguments N.add : simpl never.
Arguments N.mul : simpl never.
Arguments N.div : simpl never.
Arguments N.modulo : simpl never.

(* ---------------------------------------------------------------------------------------------- *)
(* the constant pool, inverted *)
Definition rd_pool_strict (dec : bytes -> res str) : parser pool := fun s =>
  do (count, s1) <- rd_u16 s;
  do (sl, s2) <- rd_entries dec (N.to_nat count) 1 count s1;
  if 1 + N.of_nat (length sl) =? count then Ok (None :: sl, s2) else Err.

Lemma rd_pool_strict_rd_pool dec s x : rd_pool_strict dec s = Ok x -> rd_pool dec s = Ok x.
Proof.
  unfold rd_pool_strict, rd_pool. destruct (rd_u16 s) as [[count s1]|]; [|discriminate]. cbn [bind].
  destruct (rd_entries dec (N.to_nat count) 1 count s1) as [[sl s2]|]; [|discriminate]. cbn [bind].
  destruct (1 + N.of_nat (length sl) =? count); [exact (fun H => H)|discriminate].
Qed.

Lemma rd_u64_inv s n s2 : rd_u64 s = Ok (n, s2) -> is_bytes s ->
  s = w64 n ++ s2 /\ n < 18446744073709551616 /\ is_bytes s2.
Proof.
  unfold rd_u64. intros E B.
  destruct (rd_u32 s) as [[a s1]|] eqn:E1; [|discriminate]. cbn [bind] in E.
  destruct (rd_u32_inv _ _ _ E1 B) as (-> & La & B1).
  destruct (rd_u32 s1) as [[b s3]|] eqn:E2; [|discriminate]. cbn [bind] in E.
  destruct (rd_u32_inv _ _ _ E2 B1) as (-> & Lb & B2).
  injection E as <- <-.
  assert (Q : (a * 4294967296 + b) / 4294967296 = a).
  { symmetry. apply (N.div_unique _ 4294967296 a b); lia. }
  assert (R : (a * 4294967296 + b) mod 4294967296 = b).
  { symmetry. apply (N.mod_unique _ 4294967296 a b); lia. }
  unfold w64, w32. rewrite Q, R, (N.mod_small a) by exact La. rewrite <- app_assoc.
  split; [reflexivity|]. split; [lia|exact B2].
Qed.

Lemma u64_s64 n : n < 18446744073709551616 -> u64 (s64 n) = n.
Proof.
  intros L. unfold u64, s64. destruct (N.ltb_spec n 9223372036854775808) as [H|H].
  - rewrite Z.mod_small by lia. apply N2Z.id.
  - assert (E : ((Z.of_N n - 18446744073709551616) mod 18446744073709551616 = Z.of_N n)%Z).
    { symmetry. apply (Z.mod_unique _ 18446744073709551616 (-1) (Z.of_N n)); lia. }
    rewrite E. apply N2Z.id.
Qed.
Lemma fits64_s64 n : n < 18446744073709551616 -> fits64 (s64 n) = true.
Proof.
  intros L. unfold fits64, s64. apply andb_true_iff.
  destruct (N.ltb_spec n 9223372036854775808) as [H|H]; split; try apply Z.leb_le; try apply Z.ltb_lt; lia.
Qed.

Ltac inv16 E :=
  match type of E with context [rd_u16 ?s] =>
    let n := fresh "n" in let s' := fresh "s" in let E1 := fresh "E" in
    destruct (rd_u16 s) as [[n s']|] eqn:E1; [|discriminate E]; cbn [bind] in E;
    match goal with B : is_bytes s |- _ => destruct (rd_u16_inv _ _ _ E1 B) as (-> & ? & ?) end
  end.
Ltac inv8 E :=
  match type of E with context [rd_u8 ?s] =>
    let n := fresh "n" in let s' := fresh "s" in let E1 := fresh "E" in
    destruct (rd_u8 s) as [[n s']|] eqn:E1; [|discriminate E]; cbn [bind] in E;
    match goal with B : is_bytes s |- _ => destruct (rd_u8_inv _ _ _ E1 B) as (-> & ? & ?) end
  end.
Ltac inv32 E :=
  match type of E with context [rd_u32 ?s] =>
    let n := fresh "n" in let s' := fresh "s" in let E1 := fresh "E" in
    destruct (rd_u32 s) as [[n s']|] eqn:E1; [|discriminate E]; cbn [bind] in E;
    match goal with B : is_bytes s |- _ => destruct (rd_u32_inv _ _ _ E1 B) as (-> & ? & ?) end
  end.
Ltac inv64 E :=
  match type of E with context [rd_u64 ?s] =>
    let n := fresh "n" in let s' := fresh "s" in let E1 := fresh "E" in
    destruct (rd_u64 s) as [[n s']|] eqn:E1; [|discriminate E]; cbn [bind] in E;
    match goal with B : is_bytes s |- _ => destruct (rd_u64_inv _ _ _ E1 B) as (-> & ? & ?) end
  end.
Ltac fits_tac :=
  cbn [entry_fits]; rewrite ?andb_true_iff; repeat split; first [apply N.ltb_lt; assumption | assumption].

Lemma rd_entry_inv dec s e' s1 : is_bytes s -> rd_entry dec s = Ok (e', s1) ->
  exists e, entry_fits e = true /\ s = enc_entry e ++ s1 /\ dec_entry dec e = Ok e' /\ is_bytes s1.
Proof.
  intros B E. unfold rd_entry in E.
  destruct (rd_u8 s) as [[tag s0]|] eqn:E0; [|discriminate E]. cbn [bind] in E.
  destruct (rd_u8_inv _ _ _ E0 B) as (-> & Lt & B0). clear E0 B.
  destruct tag as [|p]; [discriminate E|].
  do 5 (try (destruct p as [p|p|]; cbn beta iota in E; try discriminate E)).
  all: repeat first [inv16 E | inv8 E | inv32 E | inv64 E].
  all: try (match type of E with context [EInt] => idtac | context [ELong] => idtac | context [take_res] => idtac end; shelve).
  all: try (injection E as <- <-;
            match goal with |- exists e, _ /\ _ /\ dec_entry _ e = Ok ?x /\ _ => exists x end;
            cbn [enc_entry dec_entry];
            rewrite ?w16_small, ?w8_small, ?w32_small by assumption; rewrite <- ?app_assoc; cbn [app];
            split; [fits_tac|split; [reflexivity|split; [reflexivity|assumption]]]).
  Unshelve.
  all: match type of E with
  | context [take_res ?n ?s] =>
    (* 1 Utf8 *)
    let b := fresh "b" in let s3 := fresh "s" in let E2 := fresh "E" in let ED := fresh "ED" in let x := fresh "x" in let L := fresh "L" in
    destruct (take_res n s) as [[b s3]|] eqn:E2; [|discriminate E]; cbn [bind] in E;
    destruct (dec b) as [x|] eqn:ED; [|discriminate E]; cbn [bind] in E; injection E as <- <-;
    destruct (take_res_inv _ _ _ _ E2) as (-> & L);
    exists (EUtf8 b); cbn [entry_fits enc_entry dec_entry]; rewrite ED, L, w16_small by assumption; cbn [bind];
    cbn [app]; rewrite <- ?app_assoc;
    (split; [apply N.ltb_lt; assumption|]); (split; [reflexivity|]); (split; [reflexivity|]);
    eapply is_bytes_app; eassumption
  | context [EInt (s32 ?n)] =>
    injection E as <- <-; exists (EInt (s32 n)); cbn [entry_fits enc_entry dec_entry];
    rewrite u32_s32, w32_small by assumption; cbn [app];
    (split; [apply fits32_s32; assumption|]); (split; [reflexivity|]); (split; [reflexivity|assumption])
  | context [ELong (s64 ?n)] =>
    injection E as <- <-; exists (ELong (s64 n)); cbn [entry_fits enc_entry dec_entry];
    rewrite u64_s64 by assumption; cbn [app];
    (split; [apply fits64_s64; assumption|]); (split; [reflexivity|]); (split; [reflexivity|assumption])
  end.
Qed.

Lemma slots_of_length e : N.of_nat (length (slots_of e)) = if two_slot e then 2 else 1.
Proof. unfold slots_of. destruct (two_slot e); reflexivity. Qed.

Lemma rd_entries_inv dec : forall fuel have count s sl rest, is_bytes s ->
  rd_entries dec fuel have count s = Ok (sl, rest) ->
  exists es es', forallb entry_fits es = true /\ s = flat_map enc_entry es ++ rest /\
    map_res (dec_entry dec) es = Ok es' /\ sl = flat_map slots_of es' /\
    N.of_nat (length sl) = pool_slots es /\ is_bytes rest.
Proof.
  induction fuel as [|fuel IH]; intros have count s sl rest B E; cbn [rd_entries] in E.
  - destruct (count <=? have); [|discriminate E]. injection E as <- <-.
    exists [], []. repeat split; try reflexivity. exact B.
  - destruct (count <=? have).
    + injection E as <- <-. exists [], []. repeat split; try reflexivity. exact B.
    + destruct (rd_entry dec s) as [[e' s1]|] eqn:E1; [|discriminate E]. cbn [bind] in E.
      destruct (rd_entries dec fuel (have + (if two_slot e' then 2 else 1)) count s1) as [[sl' s2]|] eqn:E2; [|discriminate E].
      cbn [bind] in E. injection E as <- <-.
      destruct (rd_entry_inv dec s e' s1 B E1) as (e & F1 & -> & D1 & B1).
      destruct (IH _ _ _ _ _ B1 E2) as (es & es' & F2 & -> & D2 & -> & L & B2).
      exists (e :: es), (e' :: es').
      cbn [forallb flat_map map_res pool_slots]. rewrite F1, F2, D1, D2. cbn [bind].
      rewrite <- app_assoc, app_length, Nnat.Nat2N.inj_add, slots_of_length, L, (two_slot_dec dec e e' D1).
      repeat split; try reflexivity. exact B2.
Qed.

Theorem rd_pool_strict_inv dec s p rest : is_bytes s -> rd_pool_strict dec s = Ok (p, rest) ->
  exists es, pool_fits es = true /\ s = enc_pool es ++ rest /\ decode_pool dec es = Ok p /\ is_bytes rest.
Proof.
  intros B E. unfold rd_pool_strict in E.
  destruct (rd_u16 s) as [[count s1]|] eqn:E0; [|discriminate E]. cbn [bind] in E.
  destruct (rd_u16_inv _ _ _ E0 B) as (-> & Lc & B0).
  destruct (rd_entries dec (N.to_nat count) 1 count s1) as [[sl s2]|] eqn:E1; [|discriminate E]. cbn [bind] in E.
  destruct (1 + N.of_nat (length sl) =? count) eqn:EC; [|discriminate E]. injection E as <- <-.
  apply N.eqb_eq in EC.
  destruct (rd_entries_inv dec _ _ _ _ _ _ B0 E1) as (es & es' & F & -> & D & -> & L & B1).
  exists es. unfold pool_fits, enc_pool, decode_pool. rewrite F, D, <- L, EC, (w16_small count Lc), <- app_assoc. cbn [bind].
  split; [apply andb_true_iff; split; [apply N.ltb_lt; exact Lc|reflexivity]|].
  split; [reflexivity|]. split; [reflexivity|exact B1].
Qed.

Theorem rd_pool_strict_enc dec es rest : pool_fits es = true ->
  rd_pool_strict dec (enc_pool es ++ rest) = (do p <- decode_pool dec es; Ok (p, rest)).
Proof.
  intros HP. pose proof HP as HP'. unfold pool_fits in HP'. apply andb_true_iff in HP'. destruct HP' as [HC HF]. apply N.ltb_lt in HC.
  unfold rd_pool_strict, enc_pool, decode_pool. rewrite <- app_assoc, rd_u16_w16 by exact HC. cbn [bind].
  rewrite (rd_entries_enc dec es _ 1 (1 + pool_slots es) rest HF eq_refl).
  - destruct (map_res (dec_entry dec) es) as [es'|] eqn:D; cbn [bind]; [|reflexivity].
    assert (L : N.of_nat (length (flat_map slots_of es')) = pool_slots es).
    { clear -D. revert es' D. induction es as [|e es IH]; intros es' D; cbn [map_res] in D.
      - injection D as <-. reflexivity.
      - destruct (dec_entry dec e) as [e'|] eqn:D1; [|discriminate D]. cbn [bind] in D.
        destruct (map_res (dec_entry dec) es) as [es0|]; [|discriminate D]. cbn [bind] in D. injection D as <-.
        cbn [flat_map pool_slots]. rewrite app_length, Nnat.Nat2N.inj_add, slots_of_length, (IH es0 eq_refl), (two_slot_dec dec e e' D1).
        reflexivity. }
    rewrite L, N.eqb_refl. reflexivity.
  - pose proof (pool_slots_length es). lia.
Qed.

Corollary pool_no_junk dec s p rest : is_bytes s ->
  (rd_pool_strict dec s = Ok (p, rest) <->
   exists es, pool_fits es = true /\ s = enc_pool es ++ rest /\ decode_pool dec es = Ok p).
Proof.
  intros B. split.
  - intros E. destruct (rd_pool_strict_inv dec s p rest B E) as (es & F & S & D & _). exists es. tauto.
  - intros (es & F & -> & D). rewrite (rd_pool_strict_enc dec es rest F), D. reflexivity.
Qed.

(* ---------------------------------------------------------------------------------------------- *)
(* the whole file *)
Definition read_class_strict (impl : bool) (dec : bytes -> res str) (s : bytes) : res class_desc :=
  do (mg, s1) <- rd_u32 s;
  do (minor, s2) <- rd_u16 s1;
  do (major, s3) <- rd_u16 s2;
  if negb (header_ok mg minor major) then Err else
  do (p, s4) <- rd_pool_strict dec s3;
  let rs := acc p in
  do (head, s5) <- rd_strict impl dec rs head_fmt s4;
  do s6 <- skip_members s5;
  do s7 <- skip_members s6;
  do (attrs, s9) <- rd_strict impl dec rs class_attrs_fmt s7;
  match s9 with
  | [] =>
    do (fields, s8) <- rd_strict impl dec rs fields_fmt s5;
    do (methods, _) <- rd_strict impl dec rs methods_fmt s8;
    build_class impl p minor major head attrs fields methods
  | _ :: _ => Err
  end.

(* (1) a restriction of duke's reader *)
Theorem read_class_strict_read_class impl dec s d :
  read_class_strict impl dec s = Ok d -> read_class impl dec s = Ok d.
Proof.
  unfold read_class_strict, read_class.
  destruct (rd_u32 s) as [[mg s1]|]; [|discriminate]. cbn [bind].
  destruct (rd_u16 s1) as [[minor s2]|]; [|discriminate]. cbn [bind].
  destruct (rd_u16 s2) as [[major s3]|]; [|discriminate]. cbn [bind].
  destruct (negb (header_ok mg minor major)); [discriminate|].
  destruct (rd_pool_strict dec s3) as [[p s4]|] eqn:EP; [|discriminate]. rewrite (rd_pool_strict_rd_pool dec s3 _ EP). cbn [bind].
  destruct (rd_strict impl dec (acc p) head_fmt s4) as [[head s5]|] eqn:EH; [|discriminate].
  rewrite (rd_strict_rd_fmt impl dec (acc p) _ _ _ EH). cbn [bind].
  destruct (skip_members s5) as [s6|]; [|discriminate]. cbn [bind].
  destruct (skip_members s6) as [s7|]; [|discriminate]. cbn [bind].
  destruct (rd_strict impl dec (acc p) class_attrs_fmt s7) as [[attrs s9]|] eqn:EA; [|discriminate].
  rewrite (rd_strict_rd_fmt impl dec (acc p) _ _ _ EA). cbn [bind].
  destruct s9; [|discriminate].
  destruct (rd_strict impl dec (acc p) fields_fmt s5) as [[fields s8]|] eqn:EF; [|discriminate].
  rewrite (rd_strict_rd_fmt impl dec (acc p) _ _ _ EF). cbn [bind].
  destruct (rd_strict impl dec (acc p) methods_fmt s8) as [[methods s10]|] eqn:EM; [|discriminate].
  rewrite (rd_strict_rd_fmt impl dec (acc p) _ _ _ EM). cbn [bind].
  exact (fun H => H).
Qed.

(* (2a) every encoding of a fitting structure is accepted, with its description *)
Theorem read_class_strict_encode impl dec c : class_fits impl dec c = true ->
  read_class_strict impl dec (encode_class c) = describe impl dec c.
Proof.
  unfold class_fits. intros HF.
  repeat (apply andb_true_iff in HF; destruct HF as [HF ?]).
  apply N.ltb_lt in HF. match goal with H : (rc_major c <? _) = true |- _ => apply N.ltb_lt in H end.
  unfold read_class_strict, encode_class, describe.
  rewrite rd_u32_be32. cbn [bind]. rewrite rd_u16_w16 by assumption. cbn [bind]. rewrite rd_u16_w16 by assumption. cbn [bind].
  destruct (header_ok magic (rc_minor c) (rc_major c)); cbn [negb]; [|reflexivity].
  rewrite rd_pool_strict_enc by assumption.
  destruct (decode_pool dec (rc_pool c)) as [p|]; cbn [bind]; [|reflexivity].
  match goal with H : (_ && _) = true |- _ => rename H into HS end.
  repeat (apply andb_true_iff in HS; destruct HS as [HS ?]).
  rewrite (rd_strict_roundtrip impl dec (acc p) head_fmt (rc_head c) _ HS).
  destruct (desc_fmt impl dec (acc p) head_fmt (rc_head c)) as [head|]; cbn [bind]; [|reflexivity].
  rewrite (skip_members_enc impl (acc p) 1 field_sel (rc_fields c)) by assumption. cbn [bind].
  rewrite (skip_members_enc impl (acc p) 2 method_sel (rc_methods c)) by assumption. cbn [bind].
  rewrite <- (app_nil_r (enc_raw (rc_attrs c))).
  match goal with H : fits _ _ class_attrs_fmt _ = true |- _ => rewrite (rd_strict_roundtrip impl dec (acc p) class_attrs_fmt (rc_attrs c) [] H) end.
  destruct (desc_fmt impl dec (acc p) class_attrs_fmt (rc_attrs c)) as [attrs|]; cbn [bind]; [|reflexivity].
  match goal with H : fits _ _ fields_fmt _ = true |- _ => rewrite (rd_strict_roundtrip impl dec (acc p) fields_fmt (rc_fields c) _ H) end.
  destruct (desc_fmt impl dec (acc p) fields_fmt (rc_fields c)) as [fields|]; cbn [bind]; [|reflexivity].
  match goal with H : fits _ _ methods_fmt _ = true |- _ => rewrite (rd_strict_roundtrip impl dec (acc p) methods_fmt (rc_methods c) _ H) end.
  destruct (desc_fmt impl dec (acc p) methods_fmt (rc_methods c)) as [methods|]; reflexivity.
Qed.

(* (2b) NO JUNK: whatever is accepted is such an encoding *)
Theorem read_class_strict_inv impl dec s d : is_bytes s -> read_class_strict impl dec s = Ok d ->
  exists c, class_fits impl dec c = true /\ s = encode_class c /\ describe impl dec c = Ok d.
Proof.
  intros B E. unfold read_class_strict in E.
  destruct (rd_u32 s) as [[mg s1]|] eqn:E1; [|discriminate E]. cbn [bind] in E.
  destruct (rd_u32_inv _ _ _ E1 B) as (-> & Lmg & B1).
  destruct (rd_u16 s1) as [[minor s2]|] eqn:E2; [|discriminate E]. cbn [bind] in E.
  destruct (rd_u16_inv _ _ _ E2 B1) as (-> & Lmi & B2).
  destruct (rd_u16 s2) as [[major s3]|] eqn:E3; [|discriminate E]. cbn [bind] in E.
  destruct (rd_u16_inv _ _ _ E3 B2) as (-> & Lma & B3).
  destruct (header_ok mg minor major) eqn:EH; cbn [negb] in E; [|discriminate E].
  assert (Emg : mg = magic). { apply (header_gate mg minor major Lmi) in EH. destruct EH as [-> _]. reflexivity. }
  destruct (rd_pool_strict dec s3) as [[p s4]|] eqn:EP; [|discriminate E]. cbn [bind] in E.
  destruct (rd_pool_strict_inv dec _ _ _ B3 EP) as (es & FP & -> & DP & B4).
  cbv zeta in E.
  destruct (rd_strict impl dec (acc p) head_fmt s4) as [[head s5]|] eqn:E5; [|discriminate E]. cbn [bind] in E.
  destruct (no_junk_fmt impl dec (acc p) head_fmt s4 head s5 B4 E5) as (rh & Fh & -> & Dh & B5).
  destruct (skip_members s5) as [s6|] eqn:E6; [|discriminate E]. cbn [bind] in E.
  destruct (skip_members s6) as [s7|] eqn:E7; [|discriminate E]. cbn [bind] in E.
  destruct (rd_strict impl dec (acc p) class_attrs_fmt s7) as [[attrs s9]|] eqn:E9; [|discriminate E]. cbn [bind] in E.
  destruct s9 as [|x s9]; [|discriminate E].
  destruct (rd_strict impl dec (acc p) fields_fmt s5) as [[fields s8]|] eqn:E8; [|discriminate E]. cbn [bind] in E.
  destruct (no_junk_fmt impl dec (acc p) fields_fmt s5 fields s8 B5 E8) as (rf & Ff & -> & Df & B8).
  destruct (rd_strict impl dec (acc p) methods_fmt s8) as [[methods s10]|] eqn:E10; [|discriminate E]. cbn [bind] in E.
  destruct (no_junk_fmt impl dec (acc p) methods_fmt s8 methods s10 B8 E10) as (rm & Fm & -> & Dm & B10).
  (* the walk by declared lengths ends where the walk by content ends *)
  rewrite (skip_members_enc impl (acc p) 1 field_sel rf _ Ff) in E6. injection E6 as <-.
  rewrite (skip_members_enc impl (acc p) 2 method_sel rm _ Fm) in E7. injection E7 as <-.
  destruct (no_junk_fmt impl dec (acc p) class_attrs_fmt s10 attrs [] B10 E9) as (ra & Fa & -> & Da & _).
  exists {| rc_minor := minor; rc_major := major; rc_pool := es; rc_head := rh; rc_fields := rf; rc_methods := rm; rc_attrs := ra |}.
  subst mg. split; [|split].
  - unfold class_fits. cbn [rc_minor rc_major rc_pool rc_head rc_fields rc_methods rc_attrs].
    apply N.ltb_lt in Lmi, Lma. rewrite Lmi, Lma, FP, DP. cbv beta iota zeta. rewrite Fh, Ff, Fm, Fa. reflexivity.
  - unfold encode_class. cbn [rc_minor rc_major rc_pool rc_head rc_fields rc_methods rc_attrs].
    rewrite !w16_small, app_nil_r by assumption. reflexivity.
  - unfold describe. cbn [rc_minor rc_major rc_pool rc_head rc_fields rc_methods rc_attrs].
    rewrite EH. cbn [negb]. rewrite DP. cbn [bind]. cbv zeta. rewrite Dh. cbn [bind]. rewrite Da. cbn [bind].
    rewrite Df. cbn [bind]. rewrite Dm. cbn [bind]. exact E.
Qed.

Corollary read_class_no_junk impl dec s d : is_bytes s ->
  (read_class_strict impl dec s = Ok d <->
   exists c, class_fits impl dec c = true /\ s = encode_class c /\ describe impl dec c = Ok d).
Proof.
  intros B. split; [apply read_class_strict_inv; exact B|].
  intros (c & F & -> & D). rewrite (read_class_strict_encode impl dec c F). exact D.
Qed.

(* ---------------------------------------------------------------------------------------------- *)
(* non-vacuity, and what duke accepts beyond the encodings at the level of the file *)
From FB Require Import C01.Mutf8 C01.Examples C01.Witness.
(* constant_pool_count = 2 and one Long entry: the entry takes the slots 1 and 2 *)
Definition overshoot_pool : bytes := [0; 2; 5; 0; 0; 0; 0; 0; 0; 0; 7].
Definition nonvacuous24 : Prop :=
  (* the example class (Witness.v): its encoding consists of bytes and is accepted by the checked reader *)
  is_bytes (encode_class ex_class) /\
  (exists d, read_class_strict true mutf8_dec (encode_class ex_class) = Ok d) /\
  (* a byte behind the class attributes: duke reads the file (the rest is left to the caller), the checked reader refuses *)
  (exists d, read_class true mutf8_dec (encode_class ex_class ++ [0]) = Ok d) /\
  read_class_strict true mutf8_dec (encode_class ex_class ++ [0]) = Err /\
  (* a Long in the last slot overshoots constant_pool_count: duke's pool reader takes it, the checked one refuses *)
  (exists p, rd_pool mutf8_dec overshoot_pool = Ok (p, [])) /\ rd_pool_strict mutf8_dec overshoot_pool = Err.
Lemma nonvacuous24_holds : nonvacuous24.
Proof.
  unfold nonvacuous24. split.
  { apply Forall_forall. intros x Hx.
    assert (A : forallb (fun x => x <? 256) (encode_class ex_class) = true) by (vm_compute; reflexivity).
    rewrite forallb_forall in A. apply N.ltb_lt. apply A. exact Hx. }
  split.
  { destruct (read_class_strict true mutf8_dec (encode_class ex_class)) as [d|] eqn:E; [exists d; reflexivity|]. vm_compute in E. discriminate E. }
  split.
  { destruct (read_class true mutf8_dec (encode_class ex_class ++ [0])) as [d|] eqn:E; [exists d; reflexivity|]. vm_compute in E. discriminate E. }
  split; [vm_compute; reflexivity|]. split; [|vm_compute; reflexivity].
  destruct (rd_pool mutf8_dec overshoot_pool) as [[p r]|] eqn:E; [|vm_compute in E; discriminate E].
  exists p. vm_compute in E. injection E as <- <-. reflexivity.
Qed.
