(* C01 — non-vacuity of the round-5 theorem on pool layouts (Theory21.class_layout_independent):
   a class with a BootstrapMethods table, a SourceFile attribute and a method
       ldc_w #16 (a Dynamic constant "a":I of bootstrap method 0); ldc #17 (Integer 42);
       invokestatic #11; return
   and the same class over the constant pool in REVERSE order (index i becomes 20 - i): every index in
   the header, the method, the attributes, the BootstrapMethods table and the code array is another
   one, ldc keeps its one-byte form.  The pair satisfies [class_iso]; both classes fit and have a
   description. *)
From Coq Require Import String Ascii.
From FB Require Import C01.Bytes C01.Model C01.Pool C01.Resolve C01.Fmt C01.Formats C01.ClassFile C01.Mutf8 C01.Witness
  C01.Theory3 C01.Theory5 C01.Theory8 C01.Theory13 C01.Theory18 C01.Theory19 C01.Theory20 C01.Theory21.
Open Scope N_scope.

Definition l_pool : list entry :=
  [EUtf8 (b "p/T"); EClass 1; EUtf8 (b "java/lang/Object"); EClass 3; EUtf8 (b "Code"); EUtf8 (b "m"); EUtf8 (b "()V");
   EUtf8 (b "BootstrapMethods"); EUtf8 (b "bsm"); ENameAndType 9 7; EMethodRef 2 10; EMethodHandle 6 11;
   EUtf8 (b "a"); EUtf8 (b "I"); ENameAndType 13 14; EDynamic 0 15; EInt 42; EUtf8 (b "SourceFile"); EUtf8 (b "T.java")].
Definition l_pi (i : N) : N := if (1 <=? i) && (i <=? 19) then 20 - i else i.
Definition l_body : list (ainsn nat) := [Gen 18 [OpC 0 16]; Gen 18 [OpC 0 17]; Gen 184 [OpC 3 11]; Gen 177 []].
Definition l_ch (k : nat) : choice :=
  {| c_form := FPlain (match k with 0%nat => 19 | 1%nat => 18 | 2%nat => 184 | _ => 177 end); c_fill := [] |}.
Definition l_code : bytes := [19; 0; 16; 18; 17; 184; 0; 11; 177].
Definition l_code' : bytes := [19; 0; 4; 18; 3; 184; 0; 9; 177].
Definition l_method (code : bytes) (nm ds ca : N) : raw :=
  RSeq [Rw16 9; Rw16 nm; Rw16 ds; RVec16 [RAttr ca (RSeq [Rw16 2; Rw16 0; RBytes32 code; RVec16 []; RVec16 []])]].
Definition l_class : rclass :=
  {| rc_minor := 0; rc_major := 55; rc_pool := l_pool;
     rc_head := RSeq [Rw16 33; Rw16 2; Rw16 4; RVec16 []]; rc_fields := RVec16 [];
     rc_methods := RVec16 [l_method l_code 6 7 5];
     rc_attrs := RVec16 [RAttr 18 (Rw16 19); RAttr 8 (RVec16 [RSeq [Rw16 12; RVec16 [Rw16 17]]])] |}.
Definition l_class' : rclass :=
  {| rc_minor := 0; rc_major := 55; rc_pool := map (rename_entry l_pi) (rev l_pool);
     rc_head := RSeq [Rw16 33; Rw16 18; Rw16 16; RVec16 []]; rc_fields := RVec16 [];
     rc_methods := RVec16 [l_method l_code' 14 13 15];
     rc_attrs := RVec16 [RAttr 2 (Rw16 1); RAttr 12 (RVec16 [RSeq [Rw16 8; RVec16 [Rw16 3]]])] |}.
Definition pool_or_nil (r : res pool) : pool := match r with Ok p => p | Err => [] end.
Definition l_p : pool := pool_or_nil (decode_pool mutf8_dec l_pool).
Definition l_p' : pool := pool_or_nil (decode_pool mutf8_dec (rc_pool l_class')).

Lemma l_strict : pool_iso_strict l_pi l_p l_p'.
Proof.
  intros i. destruct (N.ltb_spec i 20) as [Hi|Hi].
  - assert (E : i = 0 \/ i = 1 \/ i = 2 \/ i = 3 \/ i = 4 \/ i = 5 \/ i = 6 \/ i = 7 \/ i = 8 \/ i = 9 \/ i = 10 \/ i = 11 \/ i = 12
                \/ i = 13 \/ i = 14 \/ i = 15 \/ i = 16 \/ i = 17 \/ i = 18 \/ i = 19) by lia.
    repeat (destruct E as [->|E]; [vm_compute; reflexivity|]). subst i. vm_compute. reflexivity.
  - assert (P : l_pi i = i).
    { unfold l_pi. destruct (N.leb_spec i 19) as [H|H]; [lia|]. rewrite andb_false_r. reflexivity. }
    rewrite P.
    assert (L : length l_p = 20%nat) by (vm_compute; reflexivity). assert (L' : length l_p' = 20%nat) by (vm_compute; reflexivity).
    assert (A : forall q, length q = 20%nat -> pget q i = Err).
    { intros q Lq. unfold pget. destruct (nth_error q (N.to_nat i)) eqn:E; [|reflexivity].
      exfalso. assert (N.to_nat i < length q)%nat by (apply nth_error_Some; congruence). lia. }
    rewrite (A l_p L), (A l_p' L'). reflexivity.
Qed.
Lemma l_nonzero : nonzero l_pi.
Proof.
  intros i Hi. unfold l_pi. destruct (N.leb_spec 1 i) as [A|A]; destruct (N.leb_spec i 19) as [B|B]; cbn [andb]; lia.
Qed.

Lemma l_code_rel : code_rel l_pi l_code l_code'.
Proof.
  apply (code_rel_encode l_pi l_ch l_body); [vm_compute; reflexivity|vm_compute; reflexivity|].
  apply targets_okb_spec. vm_compute. reflexivity.
Qed.

Lemma l_iso : class_iso mutf8_dec l_pi l_class l_class' l_p l_p'.
Proof.
  constructor; try (vm_compute; reflexivity).
  - exact l_strict.
  - exact l_nonzero.
  - assert (E : ren_raw l_pi (acc l_p) methods_fmt (rc_methods l_class) = RVec16 [l_method l_code 14 13 15]) by (vm_compute; reflexivity).
    rewrite E. cbn [methods_rel rc_methods l_class']. eexists. split; [reflexivity|]. constructor; [|constructor].
    unfold l_method. cbn [member_rel]. eexists. split; [reflexivity|]. constructor; [|constructor].
    unfold mattr_rel. replace (acc l_p' 8 15) with (@Ok cval (VUtf8 a_Code)) by (vm_compute; reflexivity).
    rewrite str_eqb_refl. eexists. split; [reflexivity|]. constructor. exact l_code_rel.
Qed.

Definition nonvacuous5 : Prop :=
  class_iso mutf8_dec l_pi l_class l_class' l_p l_p' /\ l_pi 16 = 4 /\
  class_fits true mutf8_dec l_class = true /\ class_fits true mutf8_dec l_class' = true /\
  (exists d, describe true mutf8_dec l_class = Ok d) /\
  read_class true mutf8_dec (encode_class l_class') = read_class true mutf8_dec (encode_class l_class).
Lemma nonvacuous5_holds : nonvacuous5.
Proof.
  split; [exact l_iso|]. split; [reflexivity|]. split; [vm_compute; reflexivity|]. split; [vm_compute; reflexivity|]. split.
  - destruct (describe true mutf8_dec l_class) as [d|] eqn:E; [exists d; reflexivity|]. vm_compute in E. discriminate E.
  - rewrite !read_class_encode by (vm_compute; reflexivity). apply (class_layout_independent true mutf8_dec l_pi l_class l_class' l_p l_p' l_iso).
Qed.
