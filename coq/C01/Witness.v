(* C01 — the example class of the non-vacuity statements and the witness classes of the three known
   findings, as class-file structures.  Definitions only (Examples2.v states what holds of them; the
   correspondence run sends their bytes through duke and through the independent parser).
   The example class has a field with a ConstantValue and an unknown attribute, a method whose Code
   attribute carries a code array with ifeq, goto_w, a padded tableswitch and wide iload, an exception
   range ending at the code length, a LineNumberTable, a StackMapTable (a same frame and a full frame
   with an Object and an Uninitialized entry), a LocalVariableTable and a type annotation on an offset
   with a type path; a nested annotation (array of an int and an annotation); Exceptions;
   InnerClasses; an unknown class attribute; a two-slot pool entry. *)
From Coq Require Import String Ascii.
From FB Require Import C01.Bytes C01.Fmt C01.Formats C01.ClassFile.
Open Scope N_scope.

(* iconst_0; ifeq +8; goto_w -4; tableswitch (2 padding bytes) default +28, 1..2 -> -9, -8; wide iload 300; iload_3; return *)
Definition w_code : bytes :=
  [3; 153; 0; 8; 200; 255; 255; 255; 252; 170; 7; 7; 0; 0; 0; 28; 0; 0; 0; 1; 0; 0; 0; 2; 255; 255; 255; 247; 255; 255; 255; 248; 196; 21; 1; 44; 29; 177].

Fixpoint b (s : string) : bytes := match s with EmptyString => [] | String a s' => N_of_ascii a :: b s' end.

Definition ex_pool : list entry :=
  [EUtf8 (b "p/T"); EClass 1; EUtf8 (b "java/lang/Object"); EClass 3; EUtf8 (b "Code"); EUtf8 (b "m"); EUtf8 (b "()V");
   EUtf8 (b "StackMapTable"); EUtf8 (b "LineNumberTable"); EUtf8 (b "RuntimeVisibleAnnotations"); EUtf8 (b "LA;"); EUtf8 (b "v");
   EInt 7; EUtf8 (b "x"); EUtf8 (b "I"); EUtf8 (b "ConstantValue"); EUtf8 (b "Custom"); ELong 5;
   EUtf8 (b "LocalVariableTable"); EUtf8 (b "Exceptions"); EUtf8 (b "InnerClasses"); EUtf8 (b "RuntimeInvisibleTypeAnnotations");
   EUtf8 (b "RuntimeVisibleParameterAnnotations"); EUtf8 (b "Record"); EUtf8 (b "RuntimeVisibleTypeAnnotations")].

Definition ex_code : raw :=
  RSeq [Rw16 2; Rw16 301; RBytes32 w_code;
        RVec16 [RSeq [Rw16 0; Rw16 38; Rw16 4; Rw16 0]];
        RVec16 [RAttr 9 (RVec16 [RSeq [Rw16 4; Rw16 10]]);
                RAttr 8 (RVec16 [RTag 4 (RSeq []);
                                 RTag 255 (RSeq [Rw16 4; RVec16 [RTag 7 (Rw16 2); RTag 8 (Rw16 32)]; RVec16 [RTag 1 (RSeq [])]])]);
                RAttr 20 (RVec16 [RSeq [RSeq [Rw16 0; Rw16 38]; Rw16 14; Rw16 15; Rw16 0]]);
                RAttr 23 (RVec16 [RSeq [RTag 68 (RSeq [Rw16 32]); RVec8 [RTag 3 (Rw8 1); RTag 0 (Rw8 0)]; Rw16 11; RVec16 []]])]].
Definition ex_method (extra : list raw) : raw :=
  RSeq [Rw16 9; Rw16 6; Rw16 7; RVec16 ([
    RAttr 5 ex_code;
    RAttr 10 (RVec16 [RSeq [Rw16 11; RVec16 [RSeq [Rw16 12; RTag 91 (RVec16 [RTag 73 (Rw16 13); RTag 64 (RSeq [Rw16 11; RVec16 []])])]]]]);
    RAttr 21 (RVec16 [Rw16 2])] ++ extra)].
Definition ex_with (method_extra class_extra : list raw) : rclass :=
  {| rc_minor := 0; rc_major := 61; rc_pool := ex_pool;
     rc_head := RSeq [Rw16 33; Rw16 2; Rw16 4; RVec16 [Rw16 4]];
     rc_fields := RVec16 [RSeq [Rw16 25; Rw16 14; Rw16 15; RVec16 [RAttr 16 (Rw16 13); RAttr 17 (RBytes [1; 2; 3])]]];
     rc_methods := RVec16 [ex_method method_extra];
     rc_attrs := RVec16 ([RAttr 22 (RVec16 [RSeq [Rw16 2; Rw16 0; Rw16 0; Rw16 9]]); RAttr 17 (RBytes [])] ++ class_extra) |}.
Definition ex_class : rclass := ex_with [] [].

(* F13p: the method also has a RuntimeVisibleParameterAnnotations attribute (one parameter, no annotation) *)
Definition w_f13p : rclass := ex_with [RAttr 24 (RBytes [1; 0; 0])] [].
(* F13r: a Record attribute without components *)
Definition w_f13r : rclass := ex_with [] [RAttr 25 (RVec16 [])].
(* F13t: a type annotation with target_type 0x13 (FIELD) on the method, as javac 16/17 write it for records *)
Definition w_f13t : rclass := ex_with [RAttr 26 (RVec16 [RSeq [RTag 19 (RSeq []); RVec8 []; Rw16 11; RVec16 []]])] [].

