(* C01 — theory, part 14 (round 4): NO JUNK ACCEPTED in the code array.
   Theory1..4 go from instruction lists to bytes ("reading an encoding gives back the body").  Here
   the other way round: whatever byte string the second pass of the reader accepts IS an encoding —
   under the opcode forms and ignored bytes read off the string itself — of exactly the instruction
   list it delivered, provided every branch / switch target it read is the offset of an instruction
   (an offset inside an instruction receives a label that no instruction carries: the reader does
   not notice, and no instruction list has such a target). *)
From FB Require Import C01.Model C01.Theory1 C01.Theory2 C01.Theory3 C01.Theory4.
Arguments N.add : simpl never.
Arguments N.mul : simpl never.
Arguments N.sub : simpl never.
Arguments N.modulo : simpl never.
Arguments N.div : simpl never.
Arguments Z.add : simpl never.
Arguments Z.sub : simpl never.
Arguments Z.mul : simpl never.

Definition is_bytes (b : bytes) : Prop := Forall (fun x => x < 256) b.
Lemma is_bytes_cons a r : is_bytes (a :: r) -> a < 256 /\ is_bytes r.
Proof. intros H. split; [exact (Forall_inv H)|exact (Forall_inv_tail H)]. Qed.
Lemma is_bytes_app_r a r : is_bytes (a ++ r) -> is_bytes r.
Proof. intros H. unfold is_bytes in *. rewrite Forall_app in H. apply H. Qed.

(* ---------------------------------------------------------------------------------------------- *)
(* bytes -> numbers -> the same bytes *)
Lemma be16_dec16 a b : a < 256 -> b < 256 -> be16 (dec16 a b) = [a; b] /\ dec16 a b < 65536.
Proof.
  intros Ha Hb. unfold be16, dec16. split; [|lia].
  assert (D : (a * 256 + b) / 256 = a) by (symmetry; apply (N.div_unique _ 256 a b); lia).
  assert (M : (a * 256 + b) mod 256 = b) by (symmetry; apply (N.mod_unique _ 256 a b); lia).
  rewrite D, M. reflexivity.
Qed.
Lemma be32_dec32 a b c d : a < 256 -> b < 256 -> c < 256 -> d < 256 ->
  be32 (dec32 a b c d) = [a; b; c; d] /\ dec32 a b c d < 4294967296.
Proof.
  intros Ha Hb Hc Hd. unfold be32, dec32. split; [|lia].
  set (n := ((a * 256 + b) * 256 + c) * 256 + d).
  assert (D1 : n / 16777216 = a) by (symmetry; apply (N.div_unique n 16777216 a (b * 65536 + c * 256 + d)); unfold n; lia).
  assert (D2 : n / 65536 = a * 256 + b) by (symmetry; apply (N.div_unique n 65536 (a * 256 + b) (c * 256 + d)); unfold n; lia).
  assert (D3 : n / 256 = (a * 256 + b) * 256 + c) by (symmetry; apply (N.div_unique n 256 _ d); unfold n; lia).
  assert (M2 : (a * 256 + b) mod 256 = b) by (symmetry; apply (N.mod_unique _ 256 a b); lia).
  assert (M3 : ((a * 256 + b) * 256 + c) mod 256 = c) by (symmetry; apply (N.mod_unique _ 256 (a * 256 + b) c); lia).
  assert (M4 : n mod 256 = d) by (symmetry; apply (N.mod_unique n 256 ((a * 256 + b) * 256 + c) d); unfold n; lia).
  rewrite D1, D2, D3, M2, M3, M4. reflexivity.
Qed.

Lemma fits8_s8 a : a < 256 -> fits8 (s8 a) = true.
Proof. intros H. apply fits8_spec. unfold s8. destruct (N.ltb_spec a 128); lia. Qed.
Lemma fits16_s16 a : a < 65536 -> fits16 (s16 a) = true.
Proof. intros H. apply fits16_spec. unfold s16. destruct (N.ltb_spec a 32768); lia. Qed.
Lemma fits32_s32 a : a < 4294967296 -> fits32 (s32 a) = true.
Proof. intros H. apply fits32_spec. unfold s32. destruct (N.ltb_spec a 2147483648); lia. Qed.

Lemma rd_u8_inv s v s1 : rd_u8 s = Ok (v, s1) -> is_bytes s -> s = v :: s1 /\ v < 256 /\ is_bytes s1.
Proof.
  unfold rd_u8. destruct s as [|a r]; [discriminate|]. intros [= <- <-] B. apply is_bytes_cons in B. tauto.
Qed.
Lemma rd_u16_inv s v s1 : rd_u16 s = Ok (v, s1) -> is_bytes s -> s = be16 v ++ s1 /\ v < 65536 /\ is_bytes s1.
Proof.
  unfold rd_u16. destruct s as [|a [|b r]]; try discriminate. intros [= <- <-] B.
  apply is_bytes_cons in B. destruct B as [Ha B]. apply is_bytes_cons in B. destruct B as [Hb B].
  destruct (be16_dec16 a b Ha Hb) as [E L]. rewrite E. tauto.
Qed.
Lemma rd_i8_inv s z s1 : rd_i8 s = Ok (z, s1) -> is_bytes s -> s = u8 z :: s1 /\ fits8 z = true /\ is_bytes s1.
Proof.
  unfold rd_i8. destruct s as [|a r]; [discriminate|]. intros [= <- <-] B. apply is_bytes_cons in B. destruct B as [Ha B].
  rewrite (u8_s8 a Ha), (fits8_s8 a Ha). tauto.
Qed.
Lemma rd_i16_inv s z s1 : rd_i16 s = Ok (z, s1) -> is_bytes s -> s = bei16 z ++ s1 /\ fits16 z = true /\ is_bytes s1.
Proof.
  unfold rd_i16. destruct s as [|a [|b r]]; try discriminate. intros [= <- <-] B.
  apply is_bytes_cons in B. destruct B as [Ha B]. apply is_bytes_cons in B. destruct B as [Hb B].
  destruct (be16_dec16 a b Ha Hb) as [E L]. unfold bei16. rewrite (u16_s16 _ L), E, (fits16_s16 _ L). tauto.
Qed.
Lemma rd_i32_inv s z s1 : rd_i32 s = Ok (z, s1) -> is_bytes s -> s = bei32 z ++ s1 /\ fits32 z = true /\ is_bytes s1.
Proof.
  unfold rd_i32. destruct s as [|a [|b [|c [|d r]]]]; try discriminate. intros [= <- <-] B.
  apply is_bytes_cons in B. destruct B as [Ha B]. apply is_bytes_cons in B. destruct B as [Hb B].
  apply is_bytes_cons in B. destruct B as [Hc B]. apply is_bytes_cons in B. destruct B as [Hd B].
  destruct (be32_dec32 a b c d Ha Hb Hc Hd) as [E L]. unfold bei32. rewrite (u32_s32 _ L), E, (fits32_s32 _ L). tauto.
Qed.

Lemma skip_nat_inv : forall k s s1, skip_nat k s = Ok s1 -> exists a, s = a ++ s1 /\ length a = k.
Proof.
  induction k as [|k IH]; intros s s1 H; cbn [skip_nat] in H.
  - injection H as <-. exists []. split; reflexivity.
  - destruct s as [|x r]; [discriminate|]. destruct (IH r s1 H) as (a & -> & L). exists (x :: a). split; [reflexivity|cbn; lia].
Qed.
Lemma skip_res_inv k s s1 : skip_res k s = Ok s1 -> exists a, s = a ++ s1 /\ length a = N.to_nat k.
Proof. apply skip_nat_inv. Qed.

Lemma br_target_inv pos off t : br_target pos off = Ok t -> Z.of_N t = (Z.of_N pos + off)%Z.
Proof.
  unfold br_target. destruct (Z.leb_spec 0 (Z.of_N pos + off)); [|discriminate].
  destruct (Z.ltb_spec (Z.of_N pos + off) 65536); [|discriminate]. cbn [andb]. intros [= <-]. lia.
Qed.
Lemma try_get_inv ls t l : try_get ls t = Ok l -> l = t.
Proof. unfold try_get. destruct (lbl_get ls t); [intros [= <-]; reflexivity|discriminate]. Qed.

(* a target read back through [posf (ix t) = t] has the relative offset that was read *)
Lemma rel_off_back posf ix pos off t : br_target pos off = Ok t -> posf (ix t) = t -> rel_off posf pos (ix t) = off.
Proof. intros H E. apply br_target_inv in H. unfold rel_off. rewrite E. lia. Qed.

Lemma pad_bytes_exact (a : bytes) n : length a = n -> pad_bytes a n = a.
Proof. intros <-. unfold pad_bytes. rewrite firstn_app, Nat.sub_diag, firstn_all. cbn [firstn]. apply app_nil_r. Qed.

(* ---------------------------------------------------------------------------------------------- *)
(* operands *)
Ltac bstep H B x s1 :=
  match type of H with
  | bind (?rd ?s) _ = Ok _ => destruct (rd s) as [[x s1]|] eqn:?E; [|discriminate]; cbn [bind] in H
  end.

Lemma enc_ops_dec_ops ls pos : forall rs s ops s',
  dec_ops ls pos rs s = Ok (ops, s') -> is_bytes s ->
  exists fill b, s = b ++ s' /\ is_bytes s' /\
    forall posf ix, (forall t, In t (flat_map op_targets ops) -> posf (ix t) = t) ->
      enc_ops posf pos fill rs (map (map_op ix) ops) = Some b.
Proof.
  induction rs as [|r rs IH]; intros s ops s' H B.
  - cbn [dec_ops] in H. injection H as <- <-. exists [], []. split; [reflexivity|]. split; [exact B|]. reflexivity.
  - destruct r; cbn [dec_ops] in H.
    + (* RU8 *) bstep H B v s1. apply (rd_u8_inv _ _ _ E) in B. destruct B as (-> & Hv & B).
      destruct (dec_ops ls pos rs s1) as [[os s2]|] eqn:ED; [|discriminate]. cbn [bind] in H. injection H as <- <-.
      destruct (IH _ _ _ ED B) as (fill & b & -> & B' & HE). exists fill, (v :: b). split; [reflexivity|]. split; [exact B'|].
      intros posf ix HT. cbn [map map_op enc_ops enc_op]. apply N.ltb_lt in Hv. rewrite Hv, (HE posf ix) by (intros t Ht; apply HT; exact Ht). reflexivity.
    + (* RI8 *) bstep H B v s1. apply (rd_i8_inv _ _ _ E) in B. destruct B as (-> & Hv & B).
      destruct (dec_ops ls pos rs s1) as [[os s2]|] eqn:ED; [|discriminate]. cbn [bind] in H. injection H as <- <-.
      destruct (IH _ _ _ ED B) as (fill & b & -> & B' & HE). exists fill, (u8 v :: b). split; [reflexivity|]. split; [exact B'|].
      intros posf ix HT. cbn [map map_op enc_ops enc_op]. rewrite Hv, (HE posf ix) by (intros t Ht; apply HT; exact Ht). reflexivity.
    + (* RI16 *) bstep H B v s1. apply (rd_i16_inv _ _ _ E) in B. destruct B as (-> & Hv & B).
      destruct (dec_ops ls pos rs s1) as [[os s2]|] eqn:ED; [|discriminate]. cbn [bind] in H. injection H as <- <-.
      destruct (IH _ _ _ ED B) as (fill & b & -> & B' & HE). exists fill, (bei16 v ++ b). split; [rewrite app_assoc; reflexivity|]. split; [exact B'|].
      intros posf ix HT. cbn [map map_op enc_ops enc_op]. rewrite Hv, (HE posf ix) by (intros t Ht; apply HT; exact Ht). reflexivity.
    + (* RLv8 *) bstep H B v s1. apply (rd_u8_inv _ _ _ E) in B. destruct B as (-> & Hv & B).
      destruct (dec_ops ls pos rs s1) as [[os s2]|] eqn:ED; [|discriminate]. cbn [bind] in H. injection H as <- <-.
      destruct (IH _ _ _ ED B) as (fill & b & -> & B' & HE). exists fill, (v :: b). split; [reflexivity|]. split; [exact B'|].
      intros posf ix HT. cbn [map map_op enc_ops enc_op]. apply N.ltb_lt in Hv. rewrite Hv, (HE posf ix) by (intros t Ht; apply HT; exact Ht). reflexivity.
    + (* RLv16 *) bstep H B v s1. apply (rd_u16_inv _ _ _ E) in B. destruct B as (-> & Hv & B).
      destruct (dec_ops ls pos rs s1) as [[os s2]|] eqn:ED; [|discriminate]. cbn [bind] in H. injection H as <- <-.
      destruct (IH _ _ _ ED B) as (fill & b & -> & B' & HE). exists fill, (be16 v ++ b). split; [rewrite app_assoc; reflexivity|]. split; [exact B'|].
      intros posf ix HT. cbn [map map_op enc_ops enc_op]. apply N.ltb_lt in Hv. rewrite Hv, (HE posf ix) by (intros t Ht; apply HT; exact Ht). reflexivity.
    + (* RBr16 *) bstep H B off s1. apply (rd_i16_inv _ _ _ E) in B. destruct B as (-> & Hv & B).
      destruct (br_target pos off) as [t|] eqn:ET; [|discriminate]. cbn [bind] in H.
      destruct (try_get ls t) as [l|] eqn:EL; [|discriminate]. cbn [bind] in H. apply try_get_inv in EL. subst l.
      destruct (dec_ops ls pos rs s1) as [[os s2]|] eqn:ED; [|discriminate]. cbn [bind] in H. injection H as <- <-.
      destruct (IH _ _ _ ED B) as (fill & b & -> & B' & HE). exists fill, (bei16 off ++ b). split; [rewrite app_assoc; reflexivity|]. split; [exact B'|].
      intros posf ix HT. cbn [map map_op enc_ops enc_op].
      rewrite (rel_off_back posf ix pos off t ET) by (apply HT; cbn [flat_map op_targets app]; left; reflexivity).
      rewrite Hv, (HE posf ix) by (intros t' Ht; apply HT; cbn [flat_map op_targets app]; right; exact Ht). reflexivity.
    + (* RBr32 *) bstep H B off s1. apply (rd_i32_inv _ _ _ E) in B. destruct B as (-> & Hv & B).
      destruct (br_target pos off) as [t|] eqn:ET; [|discriminate]. cbn [bind] in H.
      destruct (try_get ls t) as [l|] eqn:EL; [|discriminate]. cbn [bind] in H. apply try_get_inv in EL. subst l.
      destruct (dec_ops ls pos rs s1) as [[os s2]|] eqn:ED; [|discriminate]. cbn [bind] in H. injection H as <- <-.
      destruct (IH _ _ _ ED B) as (fill & b & -> & B' & HE). exists fill, (bei32 off ++ b). split; [rewrite app_assoc; reflexivity|]. split; [exact B'|].
      intros posf ix HT. cbn [map map_op enc_ops enc_op].
      rewrite (rel_off_back posf ix pos off t ET) by (apply HT; cbn [flat_map op_targets app]; left; reflexivity).
      rewrite Hv, (HE posf ix) by (intros t' Ht; apply HT; cbn [flat_map op_targets app]; right; exact Ht). reflexivity.
    + (* RSkip8 *) bstep H B v s1. apply (rd_u8_inv _ _ _ E) in B. destruct B as (-> & Hv & B).
      destruct (IH _ _ _ H B) as (fill & b & -> & B' & HE). exists (v :: fill), (v :: b). split; [reflexivity|]. split; [exact B'|].
      intros posf ix HT. cbn [enc_ops tl hd]. rewrite (HE posf ix HT). reflexivity.
    + (* RAtype *) bstep H B v s1. apply (rd_u8_inv _ _ _ E) in B. destruct B as (-> & Hv & B).
      destruct (mem_N v atypes) eqn:M; [|discriminate].
      destruct (dec_ops ls pos rs s1) as [[os s2]|] eqn:ED; [|discriminate]. cbn [bind] in H. injection H as <- <-.
      destruct (IH _ _ _ ED B) as (fill & b & -> & B' & HE). exists fill, (v :: b). split; [reflexivity|]. split; [exact B'|].
      intros posf ix HT. cbn [map map_op enc_ops enc_op]. rewrite M, (HE posf ix) by (intros t Ht; apply HT; exact Ht). reflexivity.
    + (* RCp8 *) bstep H B v s1. apply (rd_u8_inv _ _ _ E) in B. destruct B as (-> & Hv & B).
      destruct (dec_ops ls pos rs s1) as [[os s2]|] eqn:ED; [|discriminate]. cbn [bind] in H. injection H as <- <-.
      destruct (IH _ _ _ ED B) as (fill & b & -> & B' & HE). exists fill, (v :: b). split; [reflexivity|]. split; [exact B'|].
      intros posf ix HT. cbn [map map_op enc_ops enc_op]. apply N.ltb_lt in Hv. rewrite N.eqb_refl, Hv, (HE posf ix) by (intros t Ht; apply HT; exact Ht). reflexivity.
    + (* RCp16 *) bstep H B v s1. apply (rd_u16_inv _ _ _ E) in B. destruct B as (-> & Hv & B).
      destruct (dec_ops ls pos rs s1) as [[os s2]|] eqn:ED; [|discriminate]. cbn [bind] in H. injection H as <- <-.
      destruct (IH _ _ _ ED B) as (fill & b & -> & B' & HE). exists fill, (be16 v ++ b). split; [rewrite app_assoc; reflexivity|]. split; [exact B'|].
      intros posf ix HT. cbn [map map_op enc_ops enc_op]. apply N.ltb_lt in Hv. rewrite N.eqb_refl, Hv, (HE posf ix) by (intros t Ht; apply HT; exact Ht). reflexivity.
Qed.

(* switch arms *)
Lemma dec_arms_inv ls pos : forall n s tbl s', dec_arms ls pos n s = Ok (tbl, s') -> is_bytes s ->
  length tbl = n /\ is_bytes s' /\ exists b, s = b ++ s' /\
  forall posf ix, (forall t, In t tbl -> posf (ix t) = t) ->
    b = flat_map (fun t => bei32 (rel_off posf pos t)) (map ix tbl) /\ all_fit32 (map (rel_off posf pos) (map ix tbl)) = true.
Proof.
  induction n as [|n IH]; intros s tbl s' H B; cbn [dec_arms] in H.
  - injection H as <- <-. split; [reflexivity|]. split; [exact B|]. exists []. split; [reflexivity|]. intros; split; reflexivity.
  - bstep H B off s1. apply (rd_i32_inv _ _ _ E) in B. destruct B as (-> & Hv & B).
    destruct (br_target pos off) as [t|] eqn:ET; [|discriminate]. cbn [bind] in H.
    destruct (try_get ls t) as [l|] eqn:EL; [|discriminate]. cbn [bind] in H. apply try_get_inv in EL. subst l.
    destruct (dec_arms ls pos n s1) as [[ts s2]|] eqn:ED; [|discriminate]. cbn [bind] in H. injection H as <- <-.
    destruct (IH _ _ _ ED B) as (L & B' & b & -> & HE). split; [cbn [length]; lia|]. split; [exact B'|].
    exists (bei32 off ++ b). split; [rewrite app_assoc; reflexivity|].
    intros posf ix HT. destruct (HE posf ix) as [-> F]; [intros t' Ht; apply HT; right; exact Ht|].
    cbn [map flat_map all_fit32 forallb]. rewrite (rel_off_back posf ix pos off t ET) by (apply HT; left; reflexivity).
    rewrite Hv. split; [reflexivity|exact F].
Qed.
Lemma dec_pairs_inv ls pos : forall n s ps s', dec_pairs ls pos n s = Ok (ps, s') -> is_bytes s ->
  length ps = n /\ is_bytes s' /\ exists b, s = b ++ s' /\
  forall posf ix, (forall t, In t (map snd ps) -> posf (ix t) = t) ->
    let ps' := map (fun p => (fst p, ix (snd p))) ps in
    b = flat_map (fun p => bei32 (fst p) ++ bei32 (rel_off posf pos (snd p))) ps' /\
    all_fit32 (map fst ps') = true /\ all_fit32 (map (rel_off posf pos) (map snd ps')) = true.
Proof.
  induction n as [|n IH]; intros s ps s' H B; cbn [dec_pairs] in H.
  - injection H as <- <-. split; [reflexivity|]. split; [exact B|]. exists []. split; [reflexivity|]. intros; repeat split; reflexivity.
  - bstep H B key s0. apply (rd_i32_inv _ _ _ E) in B. destruct B as (-> & Hk & B).
    bstep H B off s1. apply (rd_i32_inv _ _ _ E0) in B. destruct B as (-> & Hv & B).
    destruct (br_target pos off) as [t|] eqn:ET; [|discriminate]. cbn [bind] in H.
    destruct (try_get ls t) as [l|] eqn:EL; [|discriminate]. cbn [bind] in H. apply try_get_inv in EL. subst l.
    destruct (dec_pairs ls pos n s1) as [[ts s2]|] eqn:ED; [|discriminate]. cbn [bind] in H. injection H as <- <-.
    destruct (IH _ _ _ ED B) as (L & B' & b & -> & HE). split; [cbn [length]; lia|]. split; [exact B'|].
    exists (bei32 key ++ bei32 off ++ b). split; [rewrite <- !app_assoc; reflexivity|].
    intros posf ix HT. destruct (HE posf ix) as (-> & F1 & F2); [intros t' Ht; apply HT; right; exact Ht|].
    cbn [map flat_map all_fit32 forallb fst snd]. rewrite (rel_off_back posf ix pos off t ET) by (apply HT; left; reflexivity).
    rewrite Hk, Hv, <- !app_assoc. repeat split; assumption.
Qed.

(* the three opcodes with a layout of their own are recognised by their entry *)
Definition special_ok (op : N) : bool :=
  match pass2_entry op with
  | P2Wide => op =? op_WIDE | P2TSwitch => op =? op_TABLESWITCH | P2LSwitch => op =? op_LOOKUPSWITCH | _ => true
  end.
Lemma special_256 : forallb special_ok range256 = true.
Proof. vm_compute. reflexivity. Qed.
Lemma special_all op : special_ok op = true.
Proof.
  destruct (N.ltb_spec op 256) as [H|H].
  - pose proof special_256 as T. rewrite forallb_forall in T. apply T. apply in_range256. exact H.
  - unfold special_ok, pass2_entry. destruct tables_length as (_ & _ & L2 & _).
    rewrite (nth_overflow pass2_table) by (rewrite L2; lia). reflexivity.
Qed.

Lemma size_map_insn c pos (f : nat -> nat) i : size c pos (map_insn f i) = size c pos i.
Proof. destruct i as [ct ops|d lo hi tbl|d ps]; cbn [map_insn size]; rewrite ?map_length; reflexivity. Qed.

(* ---------------------------------------------------------------------------------------------- *)
(* one instruction *)
Lemma enc1_dec1 ls pos s i pos' s' :
  dec1 ls pos s = Ok (i, pos', s') -> is_bytes s ->
  exists c b, s = b ++ s' /\ is_bytes s' /\
    (forall ix : N -> nat, pos' = pos + size c pos (map_insn ix i)) /\
    forall posf ix, (forall t, In t (targets i) -> posf (ix t) = t) ->
      enc1 posf pos c (map_insn ix i) = Some b.
Proof.
  intros H B. unfold dec1 in H. destruct s as [|op r]; [discriminate|].
  apply is_bytes_cons in B. destruct B as [Hop B].
  pose proof (special_all op) as SP. unfold special_ok in SP.
  destruct (pass2_entry op) as [ctor rs|ctor idx| | | |] eqn:E2.
  - (* plain *)
    unfold dec_entry in H. destruct (dec_ops ls pos rs r) as [[ops r']|] eqn:ED; [|discriminate]. cbn [bind] in H.
    injection H as <- <- <-.
    destruct (enc_ops_dec_ops ls pos rs r ops r' ED B) as (fill & b & -> & B' & HE).
    exists {| c_form := FPlain op; c_fill := fill |}, (op :: b). split; [reflexivity|]. split; [exact B'|]. split.
    + intros ix. cbn [map_insn size c_form]. rewrite E2. cbn [p2_len]. lia.
    + intros posf ix HT. unfold enc1. cbn [map_insn c_form c_fill]. rewrite E2, N.eqb_refl, (HE posf ix HT). reflexivity.
  - (* short form *)
    unfold dec_entry in H. injection H as <- <- <-.
    exists {| c_form := FPlain op; c_fill := [] |}, [op]. split; [reflexivity|]. split; [exact B|]. split.
    + intros ix. cbn [map_insn size c_form]. rewrite E2. cbn [p2_len]. lia.
    + intros posf ix HT. unfold enc1. cbn [map_insn map map_op c_form c_fill]. rewrite E2, !N.eqb_refl. reflexivity.
  - (* wide *)
    apply N.eqb_eq in SP. subst op.
    destruct r as [|sub r1]; [discriminate|]. apply is_bytes_cons in B. destruct B as [Hsub B].
    destruct (pass2_wide_entry sub) as [ctor rs|? ?| | | |] eqn:EW; try discriminate.
    unfold dec_entry in H. destruct (dec_ops ls pos rs r1) as [[ops r']|] eqn:ED; [|discriminate]. cbn [bind] in H.
    injection H as <- <- <-.
    destruct (enc_ops_dec_ops ls pos rs r1 ops r' ED B) as (fill & b & -> & B' & HE).
    exists {| c_form := FWide sub; c_fill := fill |}, (op_WIDE :: sub :: b). split; [reflexivity|]. split; [exact B'|]. split.
    + intros ix. cbn [map_insn size c_form]. rewrite EW. cbn [p2_len]. lia.
    + intros posf ix HT. unfold enc1. cbn [map_insn c_form c_fill]. rewrite EW, N.eqb_refl, (HE posf ix HT). reflexivity.
  - (* tableswitch *)
    apply N.eqb_eq in SP. subst op.
    destruct (skip_res (pad_of pos) r) as [r1|] eqn:ES; [|discriminate]. cbn [bind] in H.
    destruct (skip_res_inv _ _ _ ES) as (padb & -> & LP). pose proof (is_bytes_app_r _ _ B) as B1.
    bstep H B1 d r2. apply (rd_i32_inv _ _ _ E) in B1. destruct B1 as (-> & Fd & B1).
    destruct (br_target pos d) as [t|] eqn:ET; [|discriminate]. cbn [bind] in H.
    destruct (try_get ls t) as [dl|] eqn:EL; [|discriminate]. cbn [bind] in H. apply try_get_inv in EL. subst dl.
    bstep H B1 lo r3. apply (rd_i32_inv _ _ _ E0) in B1. destruct B1 as (-> & Flo & B1).
    bstep H B1 hi r4. apply (rd_i32_inv _ _ _ E1) in B1. destruct B1 as (-> & Fhi & B1).
    destruct (Z.gtb_spec lo hi) as [G|G]; [discriminate|].
    destruct (count_ok (hi - lo + 1) 4 r4); [|discriminate].
    destruct (dec_arms ls pos (Z.to_nat (hi - lo + 1)) r4) as [[tbl r5]|] eqn:EA; [|discriminate]. cbn [bind] in H.
    injection H as <- <- <-.
    destruct (dec_arms_inv ls pos _ _ _ _ EA B1) as (LT & B' & b & -> & HE).
    exists {| c_form := FPlain 0; c_fill := padb |},
      (op_TABLESWITCH :: padb ++ bei32 d ++ bei32 lo ++ bei32 hi ++ b).
    split; [cbn [app]; rewrite <- !app_assoc; reflexivity|]. split; [exact B'|]. split.
    + intros ix. cbn [map_insn size]. rewrite map_length, LT. lia.
    + intros posf ix HT. unfold enc1. cbn [map_insn c_fill].
      destruct (HE posf ix) as [-> F]; [intros t' Ht; apply HT; cbn [targets]; right; exact Ht|].
      rewrite map_length, LT.
      assert (C : ((lo <=? hi)%Z && (Z.of_nat (Z.to_nat (hi - lo + 1)) =? hi - lo + 1)%Z && fits32 lo && fits32 hi
                   && all_fit32 (map (rel_off posf pos) (ix t :: map ix tbl))) = true).
      { cbn [map all_fit32 forallb]. rewrite (rel_off_back posf ix pos d t ET) by (apply HT; cbn [targets]; left; reflexivity).
        rewrite Flo, Fhi, Fd. change (forallb fits32 (map (rel_off posf pos) (map ix tbl))) with (all_fit32 (map (rel_off posf pos) (map ix tbl))).
        rewrite F. rewrite (proj2 (Z.leb_le lo hi)) by lia. rewrite (proj2 (Z.eqb_eq _ _)) by lia. reflexivity. }
      rewrite C. rewrite (pad_bytes_exact padb _ LP).
      rewrite (rel_off_back posf ix pos d t ET) by (apply HT; cbn [targets]; left; reflexivity). reflexivity.
  - (* lookupswitch *)
    apply N.eqb_eq in SP. subst op.
    destruct (skip_res (pad_of pos) r) as [r1|] eqn:ES; [|discriminate]. cbn [bind] in H.
    destruct (skip_res_inv _ _ _ ES) as (padb & -> & LP). pose proof (is_bytes_app_r _ _ B) as B1.
    bstep H B1 d r2. apply (rd_i32_inv _ _ _ E) in B1. destruct B1 as (-> & Fd & B1).
    destruct (br_target pos d) as [t|] eqn:ET; [|discriminate]. cbn [bind] in H.
    destruct (try_get ls t) as [dl|] eqn:EL; [|discriminate]. cbn [bind] in H. apply try_get_inv in EL. subst dl.
    bstep H B1 n r3. apply (rd_i32_inv _ _ _ E0) in B1. destruct B1 as (-> & Fn & B1).
    destruct (count_ok n 8 r3) eqn:CO; [|discriminate].
    destruct (dec_pairs ls pos (Z.to_nat n) r3) as [[ps r4]|] eqn:EA; [|discriminate]. cbn [bind] in H.
    injection H as <- <- <-.
    destruct (dec_pairs_inv ls pos _ _ _ _ EA B1) as (LT & B' & b & -> & HE).
    assert (Hn : (0 <= n)%Z) by (unfold count_ok in CO; apply andb_true_iff in CO; destruct CO as [CO _]; apply Z.leb_le in CO; exact CO).
    exists {| c_form := FPlain 0; c_fill := padb |},
      (op_LOOKUPSWITCH :: padb ++ bei32 d ++ bei32 n ++ b).
    split; [cbn [app]; rewrite <- !app_assoc; reflexivity|]. split; [exact B'|]. split.
    + intros ix. cbn [map_insn size]. rewrite map_length, LT. lia.
    + intros posf ix HT. unfold enc1. cbn [map_insn c_fill].
      destruct (HE posf ix) as (-> & F1 & F2); [intros t' Ht; apply HT; cbn [targets]; right; exact Ht|].
      rewrite map_length, LT. rewrite Z2Nat.id by exact Hn.
      assert (C : (fits32 n && all_fit32 (map fst (map (fun p => (fst p, ix (snd p))) ps))
                   && all_fit32 (map (rel_off posf pos) (ix t :: map snd (map (fun p => (fst p, ix (snd p))) ps)))) = true).
      { cbn [map all_fit32 forallb]. rewrite (rel_off_back posf ix pos d t ET) by (apply HT; cbn [targets]; left; reflexivity).
        rewrite Fn, Fd.
        change (forallb fits32 (map fst (map (fun p => (fst p, ix (snd p))) ps))) with (all_fit32 (map fst (map (fun p => (fst p, ix (snd p))) ps))).
        change (forallb fits32 (map (rel_off posf pos) (map snd (map (fun p => (fst p, ix (snd p))) ps))))
          with (all_fit32 (map (rel_off posf pos) (map snd (map (fun p => (fst p, ix (snd p))) ps)))).
        rewrite F1, F2. reflexivity. }
      rewrite C. rewrite (pad_bytes_exact padb _ LP).
      rewrite (rel_off_back posf ix pos d t ET) by (apply HT; cbn [targets]; left; reflexivity). reflexivity.
  - (* bad opcode *) unfold dec_entry in H. discriminate.
Qed.

(* ---------------------------------------------------------------------------------------------- *)
(* the whole array *)
Definition dflt_choice : choice := {| c_form := FPlain 0; c_fill := [] |}.
Definition body_of (ix : N -> nat) (insns : list (N * ainsn N)) : list (ainsn nat) := map (fun e => map_insn ix (snd e)) insns.

Lemma encode_decode_from ls : forall fuel pos s insns,
  decode fuel ls pos s = Ok insns -> is_bytes s ->
  exists chs, length chs = length insns /\
    forall chf k, (forall j, (j < length chs)%nat -> chf (k + j)%nat = nth j chs dflt_choice) ->
      (forall ix, starts_from chf k pos (body_of ix insns) = map fst insns) /\
      forall posf ix, (forall p i t, In (p, i) insns -> In t (targets i) -> posf (ix t) = t) ->
        encode_from chf posf k pos (body_of ix insns) = Some s.
Proof.
  induction fuel as [|f IH]; intros pos s insns H B.
  - destruct s; [|discriminate]. cbn [decode] in H. injection H as <-. exists []. split; [reflexivity|].
    intros chf k _. split; [reflexivity|]. intros; reflexivity.
  - destruct s as [|x r]; [cbn [decode] in H; injection H as <-; exists []; split; [reflexivity|]; intros chf k _; split; [reflexivity|]; intros; reflexivity|].
    rewrite decode_step in H by discriminate.
    destruct (dec1 ls pos (x :: r)) as [[[i pos'] s1]|] eqn:E1; [|discriminate]. cbn [bind] in H.
    destruct (decode f ls pos' s1) as [rest|] eqn:ER; [|discriminate]. cbn [bind] in H. injection H as <-.
    destruct (enc1_dec1 ls pos _ i pos' s1 E1 B) as (c & b & Eb & B1 & HS & HE).
    destruct (IH pos' s1 rest ER B1) as (chs & L & HR).
    exists (c :: chs). split; [cbn [length]; lia|].
    intros chf k Hch.
    assert (C0 : chf k = c) by (specialize (Hch 0%nat ltac:(cbn; lia)); rewrite Nat.add_0_r in Hch; exact Hch).
    assert (Hch' : forall j, (j < length chs)%nat -> chf (S k + j)%nat = nth j chs dflt_choice).
    { intros j Hj. specialize (Hch (S j) ltac:(cbn; lia)). replace (k + S j)%nat with (S k + j)%nat in Hch by lia. exact Hch. }
    destruct (HR chf (S k) Hch') as [HST HEN]. split.
    + intros ix. cbn [body_of map starts_from snd fst]. rewrite C0, <- (HS ix). f_equal. apply HST.
    + intros posf ix HT. cbn [body_of map encode_from snd]. rewrite C0.
      rewrite (HE posf ix) by (intros t Ht; apply (HT pos i t); [left; reflexivity|exact Ht]).
      rewrite <- (HS ix).
      change (map (fun e => map_insn ix (snd e)) rest) with (body_of ix rest).
      rewrite (HEN posf ix) by (intros p i' t Hi Ht; apply (HT p i' t); [right; exact Hi|exact Ht]).
      rewrite Eb. reflexivity.
Qed.

Lemma index_of_sound pc : forall offs k j, index_of pc offs k = Some j -> (k <= j)%nat /\ nth_error offs (j - k) = Some pc.
Proof.
  induction offs as [|o offs IH]; intros k j H; [discriminate|]. cbn [index_of] in H.
  destruct (N.eqb_spec o pc) as [->|N].
  - injection H as <-. rewrite Nat.sub_diag. split; [lia|reflexivity].
  - destruct (IH _ _ H) as [L E]. split; [lia|]. replace (j - k)%nat with (S (j - S k)) by lia. exact E.
Qed.
Lemma index_of_complete pc : forall offs k, In pc offs -> exists j, index_of pc offs k = Some j.
Proof.
  induction offs as [|o offs IH]; intros k H; [destruct H|]. cbn [index_of].
  destruct (N.eqb_spec o pc) as [->|N]; [eexists; reflexivity|]. destruct H as [->|H]; [congruence|]. apply IH. exact H.
Qed.
Lemma combine_fst_snd {A B} (l : list (A * B)) : combine (map fst l) (map snd l) = l.
Proof. induction l as [|[a b] l IH]; [reflexivity|]. cbn [map combine fst snd]. rewrite IH. reflexivity. Qed.

Lemma map_insn_id {A} (i : ainsn A) : map_insn (fun x => x) i = i.
Proof.
  destruct i as [c ops|d lo hi tbl|d ps]; cbn [map_insn].
  - f_equal. rewrite <- (map_id ops) at 2. apply map_ext. intros [| | |]; reflexivity.
  - f_equal. apply map_id.
  - f_equal. rewrite <- (map_id ps) at 2. apply map_ext. intros [k t]; reflexivity.
Qed.

(* the index of an offset among the instruction starts (0 for an offset that is none) *)
Definition ix_of (offs : list N) (t : N) : nat := match index_of t offs 0 with Some k => k | None => 0%nat end.

Theorem no_junk_code ls bs insns :
  is_bytes bs -> decode (S (length bs)) ls 0 bs = Ok insns ->
  (forall p i t, In (p, i) insns -> In t (targets i) -> In t (map fst insns)) ->
  exists ch body,
    encode ch body = Some bs /\
    insns = combine (starts_from ch 0 0 body) (map (map_insn (posf_of (layout ch body))) body).
Proof.
  intros B H HT.
  destruct (encode_decode_from ls _ 0 bs insns H B) as (chs & L & HR).
  set (ch := fun k => nth k chs dflt_choice).
  set (ix := ix_of (map fst insns)).
  set (body := body_of ix insns).
  destruct (HR ch 0%nat ltac:(intros j _; reflexivity)) as [HST HEN].
  assert (LAY : layout ch body = map fst insns ++ [end_from ch 0 0 body]).
  { unfold layout. rewrite layout_from_starts. unfold body. rewrite (HST ix). reflexivity. }
  assert (PF : forall p i t, In (p, i) insns -> In t (targets i) -> posf_of (layout ch body) (ix t) = t).
  { intros p i t Hi Ht. specialize (HT p i t Hi Ht).
    destruct (index_of_complete t (map fst insns) 0 HT) as (j & Ej).
    unfold ix, ix_of. rewrite Ej. destruct (index_of_sound _ _ _ _ Ej) as [_ EN]. rewrite Nat.sub_0_r in EN.
    unfold posf_of. rewrite LAY.
    assert (Hj : (j < length (map fst insns))%nat) by (apply nth_error_Some; congruence).
    rewrite app_nth1 by exact Hj. apply nth_error_nth. exact EN. }
  exists ch, body. split.
  - unfold encode. apply HEN. exact PF.
  - unfold body at 1. rewrite (HST ix).
    assert (M : map (map_insn (posf_of (layout ch body))) body = map snd insns).
    { unfold body, body_of. rewrite map_map. apply map_ext_in. intros [p i] Hi. cbn [snd].
      rewrite map_insn_compose.
      rewrite (map_insn_ext _ (fun x => x) i) by (intros t Ht; apply (PF p i t Hi Ht)).
      apply map_insn_id. }
    rewrite M. symmetry. apply combine_fst_snd.
Qed.

(* the reader itself: the code array of every Code attribute it accepts is such an encoding, of the
   instruction list it hands to the visitor *)
Theorem no_junk_read_code ci cr :
  read_code_raw ci = Ok cr -> is_bytes (ci_code ci) ->
  (forall p i t, In (p, i) (cr_insns cr) -> In t (targets i) -> In t (map fst (cr_insns cr))) ->
  exists ch body,
    encode ch body = Some (ci_code ci) /\
    cr_insns cr = combine (starts_from ch 0 0 body) (map (map_insn (posf_of (layout ch body))) body).
Proof.
  intros H B HT. unfold read_code_raw in H.
  destruct (_ || _); [discriminate|].
  repeat match type of H with
         | bind ?x _ = Ok _ => let E := fresh "E" in destruct x eqn:E; [|discriminate]; cbn [bind] in H
         end.
  injection H as <-. cbn [cr_insns] in *.
  match goal with E : decode _ ?l 0 _ = Ok _ |- _ => apply (no_junk_code l (ci_code ci) _ B E HT) end.
Qed.
