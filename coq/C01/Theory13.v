(* C01 — theory, part 13 (round 4): constant-pool layout independence as an EQUATION.
   Theory5 proves  "resolves in p  =>  resolves identically in the re-laid-out p'".  Here the
   re-layout is exact — p' holds at the renamed index the renamed entry of p and nothing where p holds
   nothing ([pool_iso_strict]) — and every accessor gives the same answer in both pools, refusals
   included: the converse direction, the narrowing accessors of element values (ClassFile.acc 13..20)
   and instruction operands. *)
From FB Require Import C01.Model C01.Pool C01.Resolve C01.Fmt C01.Formats C01.ClassFile C01.Theory5.

Definition pool_iso_strict (pi : N -> N) (p p' : pool) : Prop :=
  forall i, pget p' (pi i) = match pget p i with Ok e => Ok (rename_entry pi e) | Err => Err end.

Ltac triv := match goal with |- ?x = ?x => reflexivity | _ => idtac end.

Lemma strict_iso pi p p' : pool_iso_strict pi p p' -> pool_iso pi p p'.
Proof. intros H i e E. rewrite (H i), E. reflexivity. Qed.

Lemma get_utf8_eq pi p p' : pool_iso_strict pi p p' -> forall i, get_utf8 p' (pi i) = get_utf8 p i.
Proof. intros H i. unfold get_utf8. rewrite (H i). destruct (pget p i) as [e|]; [destruct e|]; reflexivity. Qed.
Lemma get_class_eq pi p p' : pool_iso_strict pi p p' -> forall i, get_class p' (pi i) = get_class p i.
Proof.
  intros H i. unfold get_class. rewrite (H i). destruct (pget p i) as [e|]; [destruct e|]; try reflexivity.
  cbn [bind rename_entry]. apply (get_utf8_eq pi p p' H).
Qed.
Lemma get_nt_eq pi p p' : pool_iso_strict pi p p' -> forall i, get_nt p' (pi i) = get_nt p i.
Proof.
  intros H i. unfold get_nt. rewrite (H i). destruct (pget p i) as [e|]; [destruct e|]; try reflexivity.
  cbn [bind rename_entry]. rewrite !(get_utf8_eq pi p p' H). reflexivity.
Qed.
Ltac ref_eq H :=
  cbn [bind rename_entry]; rewrite ?(get_class_eq _ _ _ H), ?(get_nt_eq _ _ _ H); reflexivity.
Lemma get_field_ref_eq pi p p' : pool_iso_strict pi p p' -> forall i, get_field_ref p' (pi i) = get_field_ref p i.
Proof. intros H i. unfold get_field_ref. rewrite (H i). destruct (pget p i) as [e|]; [destruct e|]; try reflexivity. ref_eq H. Qed.
Lemma get_method_ref_eq pi p p' : pool_iso_strict pi p p' -> forall i, get_method_ref p' (pi i) = get_method_ref p i.
Proof. intros H i. unfold get_method_ref. rewrite (H i). destruct (pget p i) as [e|]; [destruct e|]; try reflexivity. ref_eq H. Qed.
Lemma get_imethod_ref_eq pi p p' : pool_iso_strict pi p p' -> forall i, get_imethod_ref p' (pi i) = get_imethod_ref p i.
Proof. intros H i. unfold get_imethod_ref. rewrite (H i). destruct (pget p i) as [e|]; [destruct e|]; try reflexivity. ref_eq H. Qed.
Lemma get_any_method_ref_eq pi p p' : pool_iso_strict pi p p' -> forall i, get_any_method_ref p' (pi i) = get_any_method_ref p i.
Proof. intros H i. unfold get_any_method_ref. rewrite (H i). destruct (pget p i) as [e|]; [destruct e|]; try reflexivity; ref_eq H. Qed.

Lemma handle_of_eq pi p p' : pool_iso_strict pi p p' -> forall k r, handle_of p' k (pi r) = handle_of p k r.
Proof.
  intros H k r. unfold handle_of.
  rewrite (get_field_ref_eq pi p p' H), (get_method_ref_eq pi p p' H), (get_any_method_ref_eq pi p p' H), (get_imethod_ref_eq pi p p' H).
  reflexivity.
Qed.
Lemma get_method_handle_eq pi p p' : pool_iso_strict pi p p' -> forall i, get_method_handle p' (pi i) = get_method_handle p i.
Proof.
  intros H i. unfold get_method_handle. rewrite (H i). destruct (pget p i) as [e|]; [destruct e|]; try reflexivity.
  cbn [bind rename_entry]. apply (handle_of_eq pi p p' H).
Qed.

Lemma map_res_map_eq {A B} (f g : A -> res B) (pi : A -> A) : forall l,
  (forall x, In x l -> g (pi x) = f x) -> map_res g (map pi l) = map_res f l.
Proof.
  induction l as [|x l IH]; intros Hfg; [reflexivity|]. cbn [map map_res].
  rewrite (Hfg x (or_introl eq_refl)). rewrite IH by (intros y Hy; apply Hfg; right; exact Hy). reflexivity.
Qed.
Lemma nth_error_rename_bsm_eq pi b k :
  nth_error (rename_bsm pi b) k = match nth_error b k with Some (h, args) => Some (pi h, map pi args) | None => None end.
Proof. unfold rename_bsm. rewrite nth_error_map. destruct (nth_error b k) as [[h args]|]; reflexivity. Qed.

Lemma get_loadable_eq pi p p' b : pool_iso_strict pi p p' -> forall fuel i,
  get_loadable fuel p' (rename_bsm pi b) (pi i) = get_loadable fuel p b i.
Proof.
  intros H. induction fuel as [|f IH]; intros i; [reflexivity|].
  cbn [get_loadable]. rewrite (H i). destruct (pget p i) as [e|]; [|reflexivity].
  destruct e; cbn [bind rename_entry]; try reflexivity.
  - rewrite (get_utf8_eq pi p p' H). reflexivity.
  - rewrite (get_utf8_eq pi p p' H). reflexivity.
  - apply (handle_of_eq pi p p' H).
  - rewrite (get_utf8_eq pi p p' H). reflexivity.
  - destruct f as [|f']; triv.
    rewrite (get_nt_eq pi p p' H). destruct (get_nt p nt) as [[n d]|]; cbn [bind]; triv.
    rewrite nth_error_rename_bsm_eq. destruct (nth_error b (N.to_nat bsm)) as [[h args]|]; triv.
    rewrite (get_method_handle_eq pi p p' H).
    rewrite (map_res_map_eq (get_loadable (S f') p b) (get_loadable (S f') p' (rename_bsm pi b)) pi args)
      by (intros x _; apply IH).
    triv.
Qed.
Lemma get_invoke_dynamic_eq pi p p' b : pool_iso_strict pi p p' -> forall i,
  get_invoke_dynamic p' (rename_bsm pi b) (pi i) = get_invoke_dynamic p b i.
Proof.
  intros H i. unfold get_invoke_dynamic. rewrite (H i).
  destruct (pget p i) as [e|]; [destruct e|]; cbn [bind rename_entry]; triv.
  rewrite (get_nt_eq pi p p' H). destruct (get_nt p nt) as [[n d]|]; cbn [bind]; triv.
  rewrite nth_error_rename_bsm_eq. destruct (nth_error b (N.to_nat bsm)) as [[h args]|]; triv.
  rewrite (get_method_handle_eq pi p p' H).
  rewrite (map_res_map_eq (get_loadable (pred nesting_fuel) p b) (get_loadable (pred nesting_fuel) p' (rename_bsm pi b)) pi args)
    by (intros x _; apply (get_loadable_eq pi p p' b H)).
  triv.
Qed.
Lemma get_constant_value_eq pi p p' : pool_iso_strict pi p p' -> forall i, get_constant_value p' (pi i) = get_constant_value p i.
Proof.
  intros H i. unfold get_constant_value. rewrite (H i). destruct (pget p i) as [e|]; [destruct e|]; try reflexivity.
  cbn [bind rename_entry]. rewrite (get_utf8_eq pi p p' H). reflexivity.
Qed.
Lemma get_module_eq pi p p' : pool_iso_strict pi p p' -> forall i, get_module p' (pi i) = get_module p i.
Proof.
  intros H i. unfold get_module. rewrite (H i). destruct (pget p i) as [e|]; [destruct e|]; try reflexivity.
  cbn [bind rename_entry]. rewrite (get_utf8_eq pi p p' H). reflexivity.
Qed.
Lemma get_package_eq pi p p' : pool_iso_strict pi p p' -> forall i, get_package p' (pi i) = get_package p i.
Proof.
  intros H i. unfold get_package. rewrite (H i). destruct (pget p i) as [e|]; [destruct e|]; try reflexivity.
  cbn [bind rename_entry]. rewrite (get_utf8_eq pi p p' H). reflexivity.
Qed.

(* both directions at once: the same answer, Ok or Err, for every accessor *)
Theorem pool_layout_exact pi p p' b : pool_iso_strict pi p p' -> forall kind i,
  resolve_kind p' (rename_bsm pi b) kind (pi i) = resolve_kind p b kind i.
Proof.
  intros H kind i. unfold resolve_kind.
  rewrite (get_loadable_eq pi p p' b H), (get_field_ref_eq pi p p' H), (get_method_ref_eq pi p p' H),
    (get_any_method_ref_eq pi p p' H), (get_imethod_ref_eq pi p p' H), (get_invoke_dynamic_eq pi p p' b H),
    (get_class_eq pi p p' H), (get_constant_value_eq pi p p' H), (get_utf8_eq pi p p' H), (get_method_handle_eq pi p p' H),
    (get_nt_eq pi p p' H), (get_module_eq pi p p' H), (get_package_eq pi p p' H).
  reflexivity.
Qed.

(* the converse of C01_pool_layout_independent *)
Corollary pool_layout_converse pi p p' b : pool_iso_strict pi p p' -> forall kind i v,
  resolve_kind p' (rename_bsm pi b) kind (pi i) = Ok v -> resolve_kind p b kind i = Ok v.
Proof. intros H kind i v E. rewrite <- (pool_layout_exact pi p p' b H). exact E. Qed.

(* the accessors of the class-file formats (0..12 as above without bootstrap methods, 13..20 the
   narrowing accessors of element values) *)
Theorem acc_layout_exact pi p p' : pool_iso_strict pi p p' -> forall k i, acc p' k (pi i) = acc p k i.
Proof.
  intros H k i. unfold acc. destruct (k <? 13).
  - exact (pool_layout_exact pi p p' [] H k i).
  - rewrite (H i). destruct (pget p i) as [e|]; [|reflexivity]. cbn [bind].
    destruct e; cbn [rename_entry]; reflexivity.
Qed.

(* instruction operands *)
Theorem insn_layout_exact pi p p' b : pool_iso_strict pi p p' -> forall (i : ainsn (option nat)),
  resolve_insn p' (rename_bsm pi b) (rename_insn pi i) = resolve_insn p b i.
Proof.
  intros H i. destruct i as [c ops|d lo hi tbl|d ps]; cbn [rename_insn resolve_insn]; try reflexivity.
  rewrite (map_res_map_eq (resolve_op p b) (resolve_op p' (rename_bsm pi b)) (rename_op pi) ops); [reflexivity|].
  intros o _. destruct o as [n|z|t|k j]; cbn [rename_op resolve_op]; try reflexivity.
  rewrite (pool_layout_exact pi p p' b H). reflexivity.
Qed.

(* non-vacuity: a pool, a re-layout with another order and an extra entry, and the renaming *)
Definition ex_p : pool := [None; Some (EUtf8 [65]); Some (EClass 1); Some (ELong 7); None; Some (EString 1)].
Definition ex_p' : pool := [None; Some (ELong 7); None; Some (EString 6); Some (EInt 3); Some (EClass 6); Some (EUtf8 [65])].
Definition ex_pi (i : N) : N :=
  match i with 1 => 6 | 2 => 5 | 3 => 1 | 4 => 2 | 5 => 3 | 0 => 0 | _ => i + 2 end.
Lemma ex_strict : pool_iso_strict ex_pi ex_p ex_p'.
Proof.
  intros i. destruct (N.ltb_spec i 6) as [Hi|Hi].
  - assert (E : i = 0 \/ i = 1 \/ i = 2 \/ i = 3 \/ i = 4 \/ i = 5) by lia.
    destruct E as [->|[->|[->|[->|[->| ->]]]]]; reflexivity.
  - assert (A : pget ex_p i = Err).
    { unfold pget. destruct (nth_error ex_p (N.to_nat i)) eqn:E; [|reflexivity].
      exfalso. assert (N.to_nat i < length ex_p)%nat by (apply nth_error_Some; congruence). cbn in H. lia. }
    rewrite A.
    assert (P : ex_pi i = i + 2).
    { unfold ex_pi. destruct i as [|q]; [lia|]. do 3 (destruct q as [q|q|]; try reflexivity; try lia). }
    rewrite P. unfold pget. destruct (nth_error ex_p' (N.to_nat (i + 2))) eqn:E; [|reflexivity].
    exfalso. assert (N.to_nat (i + 2) < length ex_p')%nat by (apply nth_error_Some; congruence). cbn in H. lia.
Qed.
Definition nonvacuous13 : Prop :=
  pool_iso_strict ex_pi ex_p ex_p' /\ resolve_kind ex_p [] 6 2 = Ok (VClass [65]) /\ resolve_kind ex_p [] 6 5 = Err.
Lemma nonvacuous13_holds : nonvacuous13.
Proof. split; [exact ex_strict|]. split; reflexivity. Qed.
