(* C01 — theory, part 18 (round 5): constant-pool layout independence lifted to class-file STRUCTURES.
   Theory5 / Theory13 say what a single pool index resolves to after the pool has been laid out
   differently.  Here the renaming is carried out on a whole structure as it stands in the file:
   [ren_raw pi rs f r] rewrites every constant-pool index of the raw structure [r] — found by reading
   it along its format [f], exactly as the reader does: FIdx, FOptIdx (0 stays 0: "absent"), the
   attribute_name_index of every attribute, recursively through vectors, tagged unions and nested
   attribute lists — and leaves every other byte alone.  For every format without a raw-index field
   (everything but the BootstrapMethods table, which keeps indices for later) the description of the
   renamed structure over the re-laid-out pool IS the description of the original structure over the
   original pool: field by field, refusals included. *)
From FB Require Import C01.Bytes C01.Pool C01.Fmt C01.Formats C01.ClassFile C01.Theory5 C01.Theory6 C01.Theory7 C01.Theory13.
Arguments N.add : simpl never.
Arguments N.mul : simpl never.

Fixpoint ren_all (fs : list (raw -> raw)) (rl : list raw) : list raw :=
  match fs, rl with
  | g :: fs', r :: rl' => g r :: ren_all fs' rl'
  | _, _ => rl
  end.

Fixpoint ren_raw (pi : N -> N) (rs : N -> N -> res cval) (f : fmt) (r : raw) {struct f} : raw :=
  match f, r with
  | FIdx _, Rw16 i => Rw16 (pi i)
  | FIdxRaw _, Rw16 i => Rw16 (pi i)
  | FOptIdx _, Rw16 i => if i =? 0 then Rw16 0 else Rw16 (pi i)
  | FSeq l, RSeq rl => RSeq (ren_all (map (ren_raw pi rs) l) rl)
  | FVec8 f', RVec8 rl => RVec8 (map (ren_raw pi rs f') rl)
  | FVec16 f', RVec16 rl => RVec16 (map (ren_raw pi rs f') rl)
  | FTag _ sel, RTag t r' => RTag t (ren_raw pi rs (sel t) r')
  | FAttr sel, RAttr i r' =>
      match rs 8 i with
      | Ok (VUtf8 name) => RAttr (pi i) (ren_raw pi rs (sel name (N.of_nat (length (enc_raw r')))) r')
      | _ => RAttr (pi i) r'
      end
  | _, _ => r
  end.

(* formats without a field that keeps its index beside the resolution *)
Fixpoint closed (f : fmt) : Prop :=
  match f with
  | FIdxRaw _ => False
  | FSeq l => fold_right and True (map closed l)
  | FVec8 f' | FVec16 f' => closed f'
  | FTag _ sel => forall t, closed (sel t)
  | FAttr sel => forall n l, closed (sel n l)
  | _ => True
  end.

(* ---------- the renaming does not move a byte: every length, hence every attribute_length, stays ---------- *)
Lemma w16_length n : length (w16 n) = 2%nat. Proof. reflexivity. Qed.
Lemma w32_length n : length (w32 n) = 4%nat. Proof. reflexivity. Qed.

Lemma flat_map_length_eq {A} (e : A -> bytes) (g : A -> A) : forall l,
  (forall x, In x l -> length (e (g x)) = length (e x)) -> length (flat_map e (map g l)) = length (flat_map e l).
Proof.
  induction l as [|x l IH]; intros H; [reflexivity|]. cbn [map flat_map]. rewrite !app_length.
  rewrite (H x (or_introl eq_refl)), IH by (intros y Hy; apply H; right; exact Hy). reflexivity.
Qed.

Theorem ren_raw_length pi rs : forall f r, length (enc_raw (ren_raw pi rs f r)) = length (enc_raw r).
Proof.
  induction f using fmt_ind'; intros r; try (destruct r; reflexivity).
  - (* FOptIdx *) destruct r; try reflexivity. cbn [ren_raw]. destruct (n =? 0); reflexivity.
  - (* FSeq *) destruct r as [| | | |rl| | | |]; try reflexivity. cbn [ren_raw enc_raw].
    revert rl. induction H as [|f0 l0 Hf Hl IH]; intros rl; [destruct rl; reflexivity|].
    destruct rl as [|r rl]; [reflexivity|]. cbn [map ren_all flat_map]. rewrite !app_length, Hf, IH. reflexivity.
  - (* FVec8 *) destruct r as [| | | | |rl| | |]; try reflexivity. cbn [ren_raw enc_raw].
    rewrite !app_length, map_length. f_equal. apply flat_map_length_eq. intros x _. apply IHf.
  - (* FVec16 *) destruct r as [| | | | | |rl| |]; try reflexivity. cbn [ren_raw enc_raw].
    rewrite !app_length, map_length. f_equal. apply flat_map_length_eq. intros x _. apply IHf.
  - (* FTag *) destruct r as [| | | | | | |t r|]; try reflexivity. cbn [ren_raw enc_raw].
    rewrite !app_length, H. reflexivity.
  - (* FAttr *) destruct r as [| | | | | | | |i r]; try reflexivity. cbn [ren_raw].
    destruct (rs 8 i) as [c|]; [destruct c|]; cbn [enc_raw]; rewrite ?app_length, ?w16_length, ?w32_length, ?H; reflexivity.
Qed.

(* ---------- the description is the same ---------- *)
Definition nonzero (pi : N -> N) : Prop := forall i, i <> 0 -> pi i <> 0.

Theorem ren_raw_desc impl dec pi p p' : pool_iso_strict pi p p' -> nonzero pi ->
  forall f, closed f -> forall r,
  desc_fmt impl dec (acc p') f (ren_raw pi (acc p) f r) = desc_fmt impl dec (acc p) f r.
Proof.
  intros Hiso Hnz.
  induction f using fmt_ind'; intros HC r; try (destruct r; reflexivity).
  - (* FIdx *) destruct r; try reflexivity. cbn [ren_raw desc_fmt]. rewrite (acc_layout_exact pi p p' Hiso). reflexivity.
  - (* FOptIdx *) destruct r; try reflexivity. cbn [ren_raw]. destruct (N.eqb_spec n 0) as [->|Hn]; [reflexivity|].
    cbn [desc_fmt]. destruct (N.eqb_spec (pi n) 0) as [E|_]; [exfalso; exact (Hnz n Hn E)|].
    destruct (N.eqb_spec n 0) as [E|_]; [contradiction|]. rewrite (acc_layout_exact pi p p' Hiso). reflexivity.
  - (* FIdxRaw *) destruct HC.
  - (* FSeq *) destruct r as [| | | |rl| | | |]; try reflexivity. cbn [ren_raw desc_fmt]. cbn [closed] in HC.
    match goal with |- bind ?X _ = bind ?Y _ => assert (E : X = Y); [|rewrite E; reflexivity] end.
    revert rl HC. induction H as [|f0 l0 Hf Hl IH]; intros rl HC; [destruct rl; reflexivity|].
    destruct rl as [|r rl]; [reflexivity|]. cbn [map fold_right] in HC. destruct HC as [C1 C2].
    cbn [map ren_all desc_all]. rewrite (Hf C1 r). destruct (desc_fmt impl dec (acc p) f0 r); cbn [bind]; [|reflexivity].
    rewrite (IH rl C2). reflexivity.
  - (* FVec8 *) destruct r as [| | | | |rl| | |]; try reflexivity. cbn [ren_raw desc_fmt]. cbn [closed] in HC.
    match goal with |- bind ?X _ = bind ?Y _ => assert (E : X = Y); [|rewrite E; reflexivity] end.
    induction rl as [|x rl IH]; [reflexivity|]. cbn [map map_res]. rewrite (IHf HC x), IH. reflexivity.
  - (* FVec16 *) destruct r as [| | | | | |rl| |]; try reflexivity. cbn [ren_raw desc_fmt]. cbn [closed] in HC.
    match goal with |- bind ?X _ = bind ?Y _ => assert (E : X = Y); [|rewrite E; reflexivity] end.
    induction rl as [|x rl IH]; [reflexivity|]. cbn [map map_res]. rewrite (IHf HC x), IH. reflexivity.
  - (* FTag *) destruct r as [| | | | | | |t r|]; try reflexivity. cbn [ren_raw desc_fmt]. cbn [closed] in HC.
    destruct (ok impl t); [|reflexivity]. rewrite (H t (HC t) r). reflexivity.
  - (* FAttr *) destruct r as [| | | | | | | |i r]; try reflexivity. cbn [ren_raw]. cbn [closed] in HC.
    destruct (acc p 8 i) as [c|] eqn:E.
    + destruct c; cbn [desc_fmt]; rewrite (acc_layout_exact pi p p' Hiso), E; cbn [bind]; try reflexivity.
      rewrite ren_raw_length. rewrite (H s _ (HC s _) r). reflexivity.
    + cbn [desc_fmt]. rewrite (acc_layout_exact pi p p' Hiso), E. reflexivity.
Qed.

(* ---------- the formats of the class file are closed, the BootstrapMethods table excepted ---------- *)
Ltac cl := cbn [closed map fold_right]; try tauto.

Lemma closed_pick name : forall tbl dflt,
  Forall (fun e => str_eqb (fst e) name = true -> closed (snd e)) tbl -> closed dflt -> closed (pick name tbl dflt).
Proof.
  induction tbl as [|[n f] tbl IH]; intros dflt H D; cbn [pick]; [exact D|].
  inversion H as [|x y Hx Hy]; subst. cbn [fst snd] in Hx.
  destruct (str_eqb n name); [apply Hx; reflexivity|apply IH; assumption].
Qed.
Lemma closed_seq l : Forall closed l -> closed (FSeq l).
Proof. intros H. cbn [closed]. induction H; cbn [map fold_right]; [exact I|split; assumption]. Qed.
Lemma closed_repeat f n : closed f -> closed (FSeq (repeat f n)).
Proof. intros H. apply closed_seq. induction n; cbn [repeat]; constructor; assumption. Qed.

Lemma closed_ev_sel inner t : (forall f, inner = Some f -> closed f) -> closed (ev_sel inner t).
Proof.
  intros H. unfold ev_sel. destruct (assoc_N t ev_consts); [exact I|].
  destruct (t =? ev_enum_tag); [cl|]. destruct (t =? ev_class_tag); [exact I|].
  destruct inner as [f|]; [|exact I]. specialize (H f eq_refl). destruct (t =? ev_annot_tag); cl.
Qed.
Lemma closed_ev k : closed (ev_fmt k).
Proof.
  induction k as [|k IH]; cbn [ev_fmt closed]; intros t; apply closed_ev_sel; intros f E; [discriminate|].
  injection E as <-. exact IH.
Qed.
Lemma closed_pairs : closed pairs_fmt.
Proof. unfold pairs_fmt. cbn [closed map fold_right]. split; [exact I|]. split; [apply closed_ev|exact I]. Qed.
Lemma closed_annotations : closed annotations_fmt.
Proof. unfold annotations_fmt, annotation_fmt. cbn [closed map fold_right]. pose proof closed_pairs. tauto. Qed.
Lemma closed_type_path : closed type_path_fmt.
Proof. unfold type_path_fmt. cbn [closed]. intros k. destruct (k <=? 2); exact I. Qed.
Lemma closed_target_field c : closed (target_field_fmt c).
Proof.
  unfold target_field_fmt.
  repeat match goal with |- context [match ?x with _ => _ end] => destruct x end; cl.
Qed.
Lemma closed_target tbl extra : closed (target_fmt tbl extra).
Proof.
  unfold target_fmt. cbn [closed]. intros t. apply closed_seq.
  induction (tbl_get t (tbl ++ extra)) as [|c l IH]; cbn [map]; constructor; [apply closed_target_field|exact IH].
Qed.
Lemma closed_type_annotations target : closed target -> closed (type_annotations_fmt target).
Proof.
  intros H. unfold type_annotations_fmt. cbn [closed map fold_right].
  pose proof closed_pairs. pose proof closed_type_path. tauto.
Qed.
Lemma closed_vti : closed vti_fmt.
Proof.
  unfold vti_fmt. cbn [closed]. intros t. destruct (t =? vti_object_tag); [exact I|]. destruct (t =? vti_uninit_tag); cl.
Qed.
Lemma closed_frame : closed frame_fmt.
Proof.
  unfold frame_fmt. cbn [closed]. intros t. pose proof closed_vti as V.
  destruct (t <? 64); [cl|]. destruct (t <? 128); [exact V|]. destruct (t =? 247); [cl|]. destruct (t <? 252); [cl|].
  destruct (t <? 255); cbn [closed map fold_right]; [|tauto].
  split; [exact I|]. split; [|exact I]. exact (closed_repeat vti_fmt _ V).
Qed.
Lemma closed_cldc_frame : closed cldc_frame_fmt.
Proof. unfold cldc_frame_fmt. pose proof closed_vti. cl. Qed.

Ltac rows :=
  repeat (apply Forall_cons; [cbn [fst snd]; intros _|]); try apply Forall_nil.

Lemma closed_ann_rows target : closed target ->
  Forall (fun e => closed (snd e)) (ann_rows target).
Proof.
  intros H. unfold ann_rows. repeat (apply Forall_cons; [cbn [snd]|]); try apply Forall_nil;
    try apply closed_annotations; apply closed_type_annotations; exact H.
Qed.
Lemma Forall_weaken_rows name (l : list (str * fmt)) :
  Forall (fun e => closed (snd e)) l -> Forall (fun e => str_eqb (fst e) name = true -> closed (snd e)) l.
Proof. intros H. induction H; constructor; auto. Qed.

Lemma closed_code_sel name len : closed (code_sel name len).
Proof.
  unfold code_sel. apply closed_pick; [|exact I]. apply Forall_weaken_rows.
  pose proof closed_frame. pose proof closed_cldc_frame. pose proof (closed_type_annotations _ (closed_target target_code_tbl [])).
  repeat (apply Forall_cons; [cbn [snd]; cl|]). apply Forall_nil.
Qed.
Lemma closed_code : closed code_fmt.
Proof.
  unfold code_fmt, f_exception_table. cbn [closed map fold_right]. pose proof closed_code_sel. tauto.
Qed.
Lemma closed_field_sel name len : closed (field_sel name len).
Proof.
  unfold field_sel. apply closed_pick; [|exact I]. apply Forall_weaken_rows. apply Forall_app. split.
  - unfold f_ConstantValue, f_Signature. repeat (apply Forall_cons; [cbn [snd]; cl|]). apply Forall_nil.
  - apply closed_ann_rows. apply closed_target.
Qed.
Lemma closed_record_sel name len : closed (record_sel name len).
Proof.
  unfold record_sel. apply closed_pick; [|exact I]. apply Forall_weaken_rows. constructor; [exact I|].
  apply closed_ann_rows. apply closed_target.
Qed.
Lemma closed_method_sel name len : closed (method_sel name len).
Proof.
  unfold method_sel. apply closed_pick; [|exact I]. apply Forall_weaken_rows.
  apply Forall_app. split; [|apply Forall_app; split].
  - pose proof closed_code. unfold f_Exceptions, f_Signature. repeat (apply Forall_cons; [cbn [snd]; cl|]). apply Forall_nil.
  - apply closed_ann_rows. apply closed_target.
  - pose proof (closed_ev max_ev_nesting). unfold f_MethodParameters. repeat (apply Forall_cons; [cbn [snd]; cl|]). apply Forall_nil.
Qed.
Lemma closed_head : closed head_fmt. Proof. unfold head_fmt. cl. Qed.
Lemma closed_fields : closed fields_fmt.
Proof. unfold fields_fmt. cbn [closed map fold_right]. pose proof closed_field_sel. tauto. Qed.
Lemma closed_methods : closed methods_fmt.
Proof. unfold methods_fmt. cbn [closed map fold_right]. pose proof closed_method_sel. tauto. Qed.

(* every class attribute but BootstrapMethods *)
Lemma closed_class_sel name len : str_eqb a_BootstrapMethods name = false -> closed (class_sel name len).
Proof.
  intros Hne. unfold class_sel. apply closed_pick; [|exact I].
  apply Forall_app. split; [|apply Forall_app; split].
  - apply Forall_weaken_rows.
    unfold f_InnerClasses, f_EnclosingMethod, f_Signature, f_SourceFile, f_SourceDebugExtension.
    repeat (apply Forall_cons; [cbn [snd]; cl|]). apply Forall_nil.
  - apply Forall_weaken_rows. apply closed_ann_rows. apply closed_target.
  - pose proof closed_record_sel.
    unfold f_Module, f_ModulePackages, f_ModuleMainClass, f_NestHost, f_NestMembers, f_PermittedSubclasses.
    repeat (apply Forall_cons; [cbn [fst snd]; intros E; try (rewrite E in Hne; discriminate); cl|]). apply Forall_nil.
Qed.
