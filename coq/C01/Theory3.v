(* C01 — theory, part 3: the statements for [encode] (the layout the encoder itself computes). *)
From FB Require Import C01.Model C01.Theory1 C01.Theory2.
Arguments N.add : simpl never.
Arguments N.mul : simpl never.
Arguments N.sub : simpl never.

(* every branch / switch target is an instruction of the body *)
Definition targets_ok (body : list (ainsn nat)) : Prop :=
  forall i t, In i body -> In t (targets i) -> (t < length body)%nat.

Definition targets_okb (body : list (ainsn nat)) : bool :=
  forallb (fun i => forallb (fun t => Nat.ltb t (length body)) (targets i)) body.
Lemma targets_okb_spec body : targets_okb body = true <-> targets_ok body.
Proof.
  unfold targets_okb, targets_ok. rewrite forallb_forall. split.
  - intros H i t Hi Ht. specialize (H i Hi). rewrite forallb_forall in H. apply Nat.ltb_lt. apply H. exact Ht.
  - intros H i Hi. apply forallb_forall. intros t Ht. apply Nat.ltb_lt. apply (H i t Hi Ht).
Qed.

Lemma layout_end ch body bs : encode ch body = Some bs ->
  posf_of (layout ch body) (length body) = N.of_nat (length bs).
Proof.
  intros H. unfold posf_of, layout. rewrite layout_from_starts.
  rewrite app_nth2 by (rewrite starts_from_length; lia).
  rewrite starts_from_length, Nat.sub_diag. cbn [nth].
  unfold encode in H. apply encode_from_length in H. lia.
Qed.

Lemma posf_lt ch body bs t : encode ch body = Some bs -> (t < length body)%nat ->
  posf_of (layout ch body) t < N.of_nat (length bs).
Proof.
  intros H Ht. rewrite <- (layout_end _ _ _ H). unfold posf_of, layout.
  apply layout_from_nth_lt; lia.
Qed.

Lemma posf_le ch body bs t : encode ch body = Some bs -> (t <= length body)%nat ->
  posf_of (layout ch body) t <= N.of_nat (length bs).
Proof.
  intros H Ht. destruct (Nat.eq_dec t (length body)) as [->|Hn].
  - rewrite (layout_end _ _ _ H). lia.
  - pose proof (posf_lt ch body bs t H ltac:(lia)). lia.
Qed.

(* PASS 1: instruction boundaries are found and exactly the targets' labels are created *)
Theorem scan_encode ch body bs :
  encode ch body = Some bs -> targets_ok body -> N.of_nat (length bs) <= 65535 ->
  scan (S (length bs)) (N.of_nat (length bs)) 0 bs []
  = Ok (fold_left lbl_add (map (posf_of (layout ch body)) (flat_map targets body)) []).
Proof.
  intros H HT HL. unfold encode in H.
  apply (scan_encode_from ch (posf_of (layout ch body)) (N.of_nat (length bs)) ltac:(lia) body 0 0 bs [] _ H); [|lia].
  intros i t Hi Ht. apply (posf_lt ch body bs t H). apply (HT i t Hi Ht).
Qed.

(* PASS 2: with any label set containing the targets, the body is decoded back, every instruction
   at the offset the layout assigns to it, every target the offset of the designated instruction *)
Theorem decode_encode ch body bs ls :
  encode ch body = Some bs -> targets_ok body -> N.of_nat (length bs) <= 65535 ->
  (forall t, In t (flat_map targets body) -> lbl_get ls (posf_of (layout ch body) t) = true) ->
  decode (S (length bs)) ls 0 bs
  = Ok (combine (starts_from ch 0 0 body) (map (map_insn (posf_of (layout ch body))) body)).
Proof.
  intros H HT HL HS. unfold encode in H.
  apply (decode_encode_from ch (posf_of (layout ch body)) ls body 0 0 bs _ H); [|lia].
  intros i t Hi Ht. split.
  - pose proof (posf_lt ch body bs t H (HT i t Hi Ht)). lia.
  - apply HS. apply in_flat_map. exists i. split; assumption.
Qed.

(* an offset that the layout assigns to instruction t designates t and nothing else *)
Theorem offset_designates ch body t : (t <= length body)%nat ->
  index_of (posf_of (layout ch body) t) (layout ch body) 0 = Some t.
Proof.
  intros Ht. unfold posf_of.
  assert (L : length (layout ch body) = S (length body)).
  { unfold layout. rewrite layout_from_starts, app_length, starts_from_length. cbn. lia. }
  rewrite index_of_nth; [f_equal|rewrite L; lia|].
  intros a b Hab Hb. unfold layout. apply layout_from_nth_lt; [exact Hab|rewrite L in Hb; lia].
Qed.
