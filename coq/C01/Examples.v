(* C01 — non-vacuity: a concrete body (iconst_0; ifeq; goto_w; tableswitch with 2 padding bytes; wide
   iload 300; iload_3; return) with exception, line, local-variable and frame tables satisfies every
   hypothesis of read_encode, and a concrete re-laid-out pool satisfies pool_iso. *)
From FB Require Import C01.Model C01.Pool C01.Theory3 C01.Theory4 C01.Theory5.

Definition ex_ch (k : nat) : choice :=
  match k with
  | 0%nat => {| c_form := FPlain 3; c_fill := [] |}
  | 1%nat => {| c_form := FPlain 153; c_fill := [] |}
  | 2%nat => {| c_form := FPlain 200; c_fill := [] |}
  | 3%nat => {| c_form := FPlain 0; c_fill := [7; 7] |}
  | 4%nat => {| c_form := FWide 21; c_fill := [7; 7] |}
  | 5%nat => {| c_form := FPlain 29; c_fill := [7; 7] |}
  | _ => {| c_form := FPlain 177; c_fill := [] |}
  end.
Definition ex_body : list (ainsn nat) :=
  [Gen 3 []; Gen 153 [OpT 3%nat]; Gen 167 [OpT 0%nat]; TSw 6%nat 1 2 [0%nat; 1%nat]; Gen 21 [OpN 300]; Gen 21 [OpN 3]; Gen 177 []].
Definition ex_bytes : bytes :=
  [3; 153; 0; 8; 200; 255; 255; 255; 252; 170; 7; 7; 0; 0; 0; 28; 0; 0; 0; 1; 0; 0; 0; 2; 255; 255; 255; 247; 255; 255; 255; 248; 196; 21; 1; 44; 29; 177].
Definition ex_tables : tables :=
  {| t_exc := [(0, 7, 3)%nat]; t_lines := [(2%nat, 10)]; t_ranges := [(0, 7)%nat; (4, 4)%nat]; t_frames := [2; 3]%nat; t_points := [6%nat] |}.

Definition nonvacuous : Prop :=
  encode ex_ch ex_body = Some ex_bytes /\ ex_body <> [] /\ N.of_nat (length ex_bytes) <= 65535 /\
  targets_ok ex_body /\ tables_ok (length ex_body) ex_tables /\
  (* and a pool re-laid-out with an extra entry in front and the two entries swapped *)
  pool_iso (fun i => match i with 1 => 3 | 2 => 2 | _ => i end)
           [None; Some (EUtf8 [65]); Some (EClass 1)]
           [None; Some (EInt 5); Some (EClass 3); Some (EUtf8 [65])].

Lemma nonvacuous_holds : nonvacuous.
Proof.
  unfold nonvacuous. split; [vm_compute; reflexivity|]. split; [discriminate|]. split; [vm_compute; discriminate|].
  split; [apply targets_okb_spec; vm_compute; reflexivity|]. split.
  - unfold tables_ok, ex_tables. cbn [t_exc t_lines t_ranges t_frames t_points length ex_body].
    repeat split; intros; cbn [In fst snd incr_from] in *;
      repeat match goal with
             | H : _ \/ _ |- _ => destruct H
             | H : False |- _ => destruct H
             | H : (_, _) = (_, _) |- _ => injection H; clear H; intros; subst
             | H : _ = _ |- _ => subst
             end; cbn [fst snd]; try lia.
  - intros i e H.
    destruct (N.eq_dec i 1) as [->|N1]; [cbn in H; injection H as <-; reflexivity|].
    destruct (N.eq_dec i 2) as [->|N2]; [cbn in H; injection H as <-; reflexivity|].
    exfalso. unfold pget in H. destruct (N.to_nat i) as [|[|[|n]]] eqn:E; cbn in H; try discriminate; try lia. destruct n; discriminate.
Qed.
