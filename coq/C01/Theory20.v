(* C01 — theory, part 20 (round 5): constant-pool layout independence of WHOLE CLASS FILES.
   A class file c' that is c with its constant pool laid out differently — every index of the header,
   the fields, the methods and the attributes renamed along [pi] (Theory18.ren_raw), the indices kept in
   the BootstrapMethods table renamed ([ren_bsm_raw]), every code array replaced by a related one
   (Theory19.code_rel: same boundaries, renamed pool operands) — has the same description:
   [describe impl dec c' = describe impl dec c], refusals included; hence, with C01_read_class_encode,
   duke reads both files to the same tree.  This file: the BootstrapMethods table and the class
   attributes. *)
From FB Require Import C01.Bytes C01.Model C01.Pool C01.Resolve C01.Fmt C01.Formats C01.ClassFile
  C01.Theory5 C01.Theory6 C01.Theory7 C01.Theory13 C01.Theory18 C01.Theory19.
Arguments N.add : simpl never.
Arguments N.mul : simpl never.

Definition omap {A B} (f : A -> B) (r : res A) : res B := match r with Ok a => Ok (f a) | Err => Err end.

Lemma map_res_omap {A B} (f f' : A -> res B) (h : A -> A) (g : B -> B) :
  (forall x, f' (h x) = omap g (f x)) -> forall l, map_res f' (map h l) = omap (map g) (map_res f l).
Proof.
  intros H. induction l as [|x l IH]; [reflexivity|]. cbn [map map_res]. rewrite H.
  destruct (f x) as [y|]; cbn [omap bind]; [|reflexivity]. rewrite IH. destruct (map_res f l); reflexivity.
Qed.

(* ---------- the BootstrapMethods table: bootstrap_method_ref and the arguments stay indices ---------- *)
Definition ren_arg_raw (pi : N -> N) (a : raw) : raw := match a with Rw16 x => Rw16 (pi x) | a => a end.
Definition bsm1_parts (m : raw) : option (N * list raw) :=
  match m with RSeq [Rw16 h; RVec16 args] => Some (h, args) | _ => None end.
Definition ren_bsm1_raw (pi : N -> N) (m : raw) : raw :=
  match bsm1_parts m with Some (h, args) => RSeq [Rw16 (pi h); RVec16 (map (ren_arg_raw pi) args)] | None => m end.
Definition ren_bsm_raw (pi : N -> N) (r : raw) : raw :=
  match r with RVec16 ms => RVec16 (map (ren_bsm1_raw pi) ms) | r => r end.

Definition ren_arg (pi : N -> N) (a : val) : val := match a with VN x => VN (pi x) | a => a end.
Definition bsmv_parts (m : val) : option (N * cval * list val) :=
  match m with VSeq [VIx h c; VList args] => Some (h, c, args) | _ => None end.
Definition ren_bsm1 (pi : N -> N) (m : val) : val :=
  match bsmv_parts m with Some (h, c, args) => VSeq [VIx (pi h) c; VList (map (ren_arg pi) args)] | None => m end.
Definition ren_bsm_val (pi : N -> N) (v : val) : val :=
  match v with VList ms => VList (map (ren_bsm1 pi) ms) | v => v end.

Definition bsm1_fmt : fmt := FSeq [FIdxRaw 9; FVec16 FU16].

Lemma bsm1_parts_some m h args : bsm1_parts m = Some (h, args) -> m = RSeq [Rw16 h; RVec16 args].
Proof.
  destruct m as [| | | |l| | | |]; try discriminate. destruct l as [|r1 [|r2 [|r3 l]]]; try discriminate;
    destruct r1; try discriminate; destruct r2; try discriminate. cbn. intros H. injection H as <- <-. reflexivity.
Qed.
Lemma bind_err {A B} (x : res A) : bind x (fun _ => @Err B) = Err.
Proof. destruct x; reflexivity. Qed.
Lemma bsm1_parts_none impl dec rs m : bsm1_parts m = None -> desc_fmt impl dec rs bsm1_fmt m = Err.
Proof.
  unfold bsm1_fmt. destruct m as [| | | |l| | | |]; try reflexivity. destruct l as [|r1 [|r2 [|r3 l]]]; intros H; try reflexivity.
  - destruct r1; cbn [desc_fmt map desc_all bind]; try reflexivity. destruct (rs 9 n); reflexivity.
  - destruct r1; try reflexivity; destruct r2; try discriminate H; cbn [desc_fmt map desc_all bind]; destruct (rs 9 n); reflexivity.
  - destruct r1; cbn [desc_fmt map desc_all bind]; try reflexivity. destruct (rs 9 n); cbn [bind]; [|reflexivity].
    destruct r2; cbn [bind]; try reflexivity. rewrite bind_err. reflexivity.
Qed.

Lemma args_desc impl dec rs rs' pi : forall args,
  map_res (desc_fmt impl dec rs' FU16) (map (ren_arg_raw pi) args) = omap (map (ren_arg pi)) (map_res (desc_fmt impl dec rs FU16) args).
Proof. apply map_res_omap. intros a. destruct a; reflexivity. Qed.

Lemma bsm1_desc_main impl dec rs h args :
  desc_fmt impl dec rs bsm1_fmt (RSeq [Rw16 h; RVec16 args])
  = (do c <- rs 9 h; do vs <- map_res (desc_fmt impl dec rs FU16) args; Ok (VSeq [VIx h c; VList vs])).
Proof.
  change (desc_fmt impl dec rs bsm1_fmt (RSeq [Rw16 h; RVec16 args]))
    with (do vs <- desc_all [desc_fmt impl dec rs (FIdxRaw 9); desc_fmt impl dec rs (FVec16 FU16)] [Rw16 h; RVec16 args]; Ok (VSeq vs)).
  cbn [desc_all].
  change (desc_fmt impl dec rs (FIdxRaw 9) (Rw16 h)) with (do c <- rs 9 h; Ok (VIx h c)).
  change (desc_fmt impl dec rs (FVec16 FU16) (RVec16 args)) with (do vs <- map_res (desc_fmt impl dec rs FU16) args; Ok (VList vs)).
  destruct (rs 9 h); cbn [bind]; [|reflexivity]. destruct (map_res (desc_fmt impl dec rs FU16) args); reflexivity.
Qed.

Lemma bsm1_desc impl dec pi p p' : pool_iso_strict pi p p' -> forall m,
  desc_fmt impl dec (acc p') bsm1_fmt (ren_bsm1_raw pi m) = omap (ren_bsm1 pi) (desc_fmt impl dec (acc p) bsm1_fmt m).
Proof.
  intros Hiso m. unfold ren_bsm1_raw. destruct (bsm1_parts m) as [[h args]|] eqn:E.
  - apply bsm1_parts_some in E. subst m. rewrite !bsm1_desc_main.
    rewrite (acc_layout_exact pi p p' Hiso). destruct (acc p 9 h) as [c|]; cbn [bind omap]; [|reflexivity].
    rewrite (args_desc impl dec (acc p) (acc p') pi args).
    destruct (map_res (desc_fmt impl dec (acc p) FU16) args); reflexivity.
  - rewrite !bsm1_parts_none by exact E. reflexivity.
Qed.

Theorem bsm_desc impl dec pi p p' : pool_iso_strict pi p p' -> forall r,
  desc_fmt impl dec (acc p') f_BootstrapMethods (ren_bsm_raw pi r) = omap (ren_bsm_val pi) (desc_fmt impl dec (acc p) f_BootstrapMethods r).
Proof.
  intros Hiso r. change f_BootstrapMethods with (FVec16 bsm1_fmt). destruct r; try reflexivity.
  cbn [ren_bsm_raw desc_fmt].
  rewrite (map_res_omap (desc_fmt impl dec (acc p) bsm1_fmt) (desc_fmt impl dec (acc p') bsm1_fmt) (ren_bsm1_raw pi) (ren_bsm1 pi))
    by (apply bsm1_desc; exact Hiso).
  destruct (map_res (desc_fmt impl dec (acc p) bsm1_fmt) l); reflexivity.
Qed.

(* what the constants take from the table: the renamed bootstrap methods *)
Definition arg_num (x : val) : res N := match x with VN n => Ok n | _ => Err end.
Lemma bsmv_parts_some m h c args : bsmv_parts m = Some (h, c, args) -> m = VSeq [VIx h c; VList args].
Proof.
  destruct m as [| | | | | | | | | |l| | |]; try discriminate. destruct l as [|r1 [|r2 [|r3 l]]]; try discriminate;
    destruct r1; try discriminate; destruct r2; try discriminate. cbn. intros H. injection H as <- <- <-. reflexivity.
Qed.
Lemma bsmv_parts_none m : bsmv_parts m = None -> bsm_entry m = Err.
Proof.
  destruct m as [| | | | | | | | | |l| | |]; try reflexivity. destruct l as [|r1 [|r2 [|r3 l]]]; try reflexivity;
    destruct r1; try reflexivity; destruct r2; try reflexivity. discriminate.
Qed.
Lemma bsm_entry_ren pi m : bsm_entry (ren_bsm1 pi m) = omap (fun e => (pi (fst e), map pi (snd e))) (bsm_entry m).
Proof.
  unfold ren_bsm1. destruct (bsmv_parts m) as [[[h c] args]|] eqn:E.
  - apply bsmv_parts_some in E. subst m. cbn [bsm_entry].
    change (fun x : val => match x with VN n => Ok n | _ => Err end) with arg_num.
    rewrite (map_res_omap arg_num arg_num (ren_arg pi) pi) by (intros x; destruct x; reflexivity).
    destruct (map_res arg_num args); reflexivity.
  - rewrite (bsmv_parts_none m E). reflexivity.
Qed.
Lemma bsm_entries_ren pi l : map_res bsm_entry (map (ren_bsm1 pi) l) = omap (rename_bsm pi) (map_res bsm_entry l).
Proof. unfold rename_bsm. apply map_res_omap. apply bsm_entry_ren. Qed.

(* ---------- one slot of the attribute state may hold a transformed value ---------- *)
Notation nB := a_BootstrapMethods.

Fixpoint smap1 (g : val -> val) (l : list (str * val)) : list (str * val) :=
  match l with
  | [] => []
  | (k, v) :: r => if str_eqb k nB then (k, g v) :: r else (k, v) :: smap1 g r
  end.
Definition stmap (g : val -> val) (st : astate) : astate :=
  {| st_slots := smap1 g (st_slots st); st_unknown := st_unknown st; st_code := st_code st; st_had_record := st_had_record st |}.
Definition amap (g : val -> val) (a : val) : val :=
  match a with VAttr k v => if str_eqb k nB then VAttr k (g v) else a | _ => a end.

Lemma key_ne k x : str_eqb k nB = true -> str_eqb x nB = false -> str_eqb k x = false.
Proof. intros A B. apply str_eqb_eq in A. subst k. apply str_eqb_neq. apply str_eqb_neq in B. congruence. Qed.

Lemma slot_get_smap1 g x : str_eqb x nB = false -> forall l, slot_get x (smap1 g l) = slot_get x l.
Proof.
  intros Hx. induction l as [|[k v] l IH]; [reflexivity|]. cbn [smap1]. destruct (str_eqb k nB) eqn:E; cbn [slot_get].
  - rewrite (key_ne k x E Hx). reflexivity.
  - rewrite IH. reflexivity.
Qed.
Lemma slot_put_smap1 g x w : str_eqb x nB = false -> forall l, slot_put x w (smap1 g l) = smap1 g (slot_put x w l).
Proof.
  intros Hx. induction l as [|[k v] l IH]; cbn [smap1 slot_put]; [rewrite Hx; reflexivity|].
  destruct (str_eqb k nB) eqn:E; cbn [slot_put].
  - rewrite (key_ne k x E Hx). cbn [smap1]. rewrite E. reflexivity.
  - destruct (str_eqb k x); cbn [smap1]; rewrite E; [reflexivity|]. rewrite IH. reflexivity.
Qed.
Lemma slot_get_nB g : forall l, slot_get nB (smap1 g l) = match slot_get nB l with Some v => Some (g v) | None => None end.
Proof.
  induction l as [|[k v] l IH]; [reflexivity|]. cbn [smap1]. destruct (str_eqb k nB) eqn:E; cbn [slot_get]; rewrite E; [reflexivity|exact IH].
Qed.
Lemma slot_put_nB g v : forall l, slot_get nB l = None -> slot_put nB (g v) (smap1 g l) = smap1 g (slot_put nB v l).
Proof.
  induction l as [|[k w] l IH]; intros H.
  - cbn [smap1 slot_put]. rewrite str_eqb_refl. reflexivity.
  - cbn [slot_get] in H. destruct (str_eqb k nB) eqn:E; [discriminate|]. cbn [smap1 slot_put]. rewrite E. cbn [slot_put smap1]. rewrite E, IH by exact H. reflexivity.
Qed.
Lemma slot_del_nB g : forall l, slot_del nB (smap1 g l) = slot_del nB l.
Proof.
  induction l as [|[k v] l IH]; [reflexivity|]. cbn [smap1]. destruct (str_eqb k nB) eqn:E; cbn [slot_del]; rewrite E; [reflexivity|]. rewrite IH. reflexivity.
Qed.
Lemma slot_list_smap1 g x : str_eqb x nB = false -> forall l, slot_list x (smap1 g l) = slot_list x l.
Proof. intros Hx l. unfold slot_list. rewrite slot_get_smap1 by exact Hx. reflexivity. Qed.

Lemma st_put_stmap g st x w : str_eqb x nB = false -> st_put (stmap g st) x w = stmap g (st_put st x w).
Proof. intros Hx. unfold st_put, stmap. cbn [st_slots st_unknown st_code st_had_record]. rewrite slot_put_smap1 by exact Hx. reflexivity. Qed.

Lemma lvt_ne : str_eqb a_LocalVariableTable nB = false. Proof. reflexivity. Qed.
Lemma smt_ne : str_eqb a_StackMapTable nB = false. Proof. reflexivity. Qed.
Lemma sm_ne : str_eqb a_StackMap nB = false. Proof. reflexivity. Qed.

Lemma apply_simple_stmap impl ctx g st k v : str_eqb k nB = false ->
  apply_simple impl ctx (stmap g st) k v = omap (stmap g) (apply_simple impl ctx st k v).
Proof.
  intros Hk. unfold apply_simple. change (st_slots (stmap g st)) with (smap1 g (st_slots st)).
  destruct (policy_of impl ctx k).
  - destruct v; reflexivity.
  - cbn [omap]. rewrite st_put_stmap by exact Hk. reflexivity.
  - rewrite slot_get_smap1 by exact Hk. destruct (slot_get k (st_slots st)); [reflexivity|]. cbn [omap]. rewrite st_put_stmap by exact Hk. reflexivity.
  - cbn [omap]. rewrite st_put_stmap by exact Hk. reflexivity.
  - destruct v; try reflexivity. rewrite slot_list_smap1 by exact Hk. cbn [omap]. rewrite st_put_stmap by exact Hk. reflexivity.
  - destruct v; try reflexivity. rewrite slot_list_smap1 by exact lvt_ne. cbn [omap]. rewrite st_put_stmap by exact lvt_ne. reflexivity.
  - reflexivity.
  - reflexivity.
  - reflexivity.
  - rewrite (slot_get_smap1 g _ smt_ne), (slot_get_smap1 g _ sm_ne).
    destruct (slot_get a_StackMapTable (st_slots st)); [reflexivity|]. destruct (slot_get a_StackMap (st_slots st)); [reflexivity|].
    cbn [omap]. rewrite st_put_stmap by exact Hk. reflexivity.
Qed.

Lemma apply_attr_stmap impl p b ctx g st k v : str_eqb k nB = false ->
  apply_attr impl p b ctx (stmap g st) k v = omap (stmap g) (apply_attr impl p b ctx st k v).
Proof.
  intros Hk. unfold apply_attr. destruct (policy_of impl ctx k) eqn:EP; try (apply apply_simple_stmap; exact Hk).
  - (* PCode *) change (st_code (stmap g st)) with (st_code st). destruct (st_code st); [reflexivity|]. destruct (build_code impl p b v); reflexivity.
  - (* PRecord *) change (st_had_record (stmap g st)) with (st_had_record st). destruct (st_had_record st); [reflexivity|]. destruct v; try reflexivity.
    destruct (map_res (build_component impl) l) as [cs|]; cbn [bind omap]; [|reflexivity].
    unfold stmap. cbn [st_slots st_unknown st_code st_had_record]. f_equal. f_equal.
    destruct cs; [destruct impl; [reflexivity|]|]; rewrite slot_put_smap1 by exact Hk; reflexivity.
Qed.

Lemma policy_nB impl : policy_of impl 0 nB = POnce.
Proof. destruct impl; reflexivity. Qed.

Lemma apply_attr_nB impl p b g st v :
  apply_attr impl p b 0 (stmap g st) nB (g v) = omap (stmap g) (apply_attr impl p b 0 st nB v).
Proof.
  unfold apply_attr, apply_simple. rewrite policy_nB. cbn [stmap st_slots].
  rewrite slot_get_nB. destruct (slot_get nB (st_slots st)) eqn:E; [reflexivity|]. cbn [omap]. f_equal.
  unfold st_put, stmap. cbn [st_slots st_unknown st_code st_had_record]. rewrite slot_put_nB by exact E. reflexivity.
Qed.

Theorem fold_attrs_amap impl p b g : forall al st,
  fold_attrs (apply_attr impl p b 0) (stmap g st) (map (amap g) al) = omap (stmap g) (fold_attrs (apply_attr impl p b 0) st al).
Proof.
  unfold fold_attrs. induction al as [|a al IH]; intros st; [reflexivity|]. cbn [map fold_res].
  destruct a; try reflexivity. cbn [amap]. destruct (str_eqb name nB) eqn:E.
  - apply str_eqb_eq in E. subst name. rewrite apply_attr_nB. destruct (apply_attr impl p b 0 st nB a); cbn [omap bind]; [apply IH|reflexivity].
  - rewrite apply_attr_stmap by exact E. destruct (apply_attr impl p b 0 st name a); cbn [omap bind]; [apply IH|reflexivity].
Qed.

(* the class attributes do not look at the pool once they are described (no Code attribute at class level) *)
Lemma apply_attr_pool_free impl p b p' b' ctx st k v : str_eqb k a_Code = false ->
  apply_attr impl p' b' ctx st k v = apply_attr impl p b ctx st k v.
Proof.
  intros H. unfold apply_attr. destruct (policy_of impl ctx k) eqn:EP; try (match goal with |- ?x = ?x => reflexivity end).
  exfalso. unfold policy_of in EP. rewrite H in EP.
  repeat match type of EP with (if ?c then _ else _) = _ => destruct c end; discriminate.
Qed.
Lemma apply_attr_class impl p b p' b' st k v : apply_attr impl p' b' 0 st k v = apply_attr impl p b 0 st k v.
Proof.
  destruct (str_eqb k a_Code) eqn:E; [|apply apply_attr_pool_free; exact E].
  apply str_eqb_eq in E. subst k. unfold apply_attr. replace (policy_of impl 0 a_Code) with PUnknown by (destruct impl; reflexivity). reflexivity.
Qed.
Lemma fold_attrs_class impl p b p' b' : forall al st,
  fold_attrs (apply_attr impl p' b' 0) st al = fold_attrs (apply_attr impl p b 0) st al.
Proof.
  unfold fold_attrs. induction al as [|a al IH]; intros st; cbn [fold_res]; [reflexivity|].
  destruct a; try (cbn [bind]; match goal with |- ?x = ?x => reflexivity end).
  rewrite (apply_attr_class impl p b p' b'). destruct (apply_attr impl p b 0 st name a); cbn [bind]; [apply IH|reflexivity].
Qed.
