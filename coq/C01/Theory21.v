(* C01 — theory, part 21 (round 5): constant-pool layout independence of whole class files, continued:
   the methods with their code arrays, and the statement for [describe] / [read_class]. *)
From FB Require Import C01.Bytes C01.Model C01.Pool C01.Resolve C01.Fmt C01.Formats C01.ClassFile
  C01.Theory5 C01.Theory6 C01.Theory7 C01.Theory10 C01.Theory13 C01.Theory18 C01.Theory19 C01.Theory20.
Arguments N.add : simpl never.
Arguments N.mul : simpl never.

Ltac srefl := match goal with |- ?x = ?x => reflexivity end.

(* ---------- relations carried through map_res ---------- *)
Definition res_rel {A} (R : A -> A -> Prop) (x x' : res A) : Prop :=
  match x with Ok y => exists y', x' = Ok y' /\ R y y' | Err => x' = Err end.

Lemma map_res_rel {A B} (f f' : A -> res B) (RA : A -> A -> Prop) (RB : B -> B -> Prop) :
  (forall x x', RA x x' -> res_rel RB (f x) (f' x')) ->
  forall l l', Forall2 RA l l' -> res_rel (Forall2 RB) (map_res f l) (map_res f' l').
Proof.
  intros H. induction 1 as [|x x' l l' Hx Hl IH]; cbn [map_res].
  - exists []. split; [reflexivity|constructor].
  - specialize (H x x' Hx). unfold res_rel in H. destruct (f x) as [y|]; [|rewrite H; reflexivity].
    destruct H as (y' & -> & Hy). cbn [bind]. unfold res_rel in IH. destruct (map_res f l) as [ys|]; [|rewrite IH; reflexivity].
    destruct IH as (ys' & -> & Hys). cbn [bind]. exists (y' :: ys'). split; [reflexivity|constructor; assumption].
Qed.

(* ---------- a method's attributes: the Code attribute may carry a related code array ---------- *)
Inductive code_attr_rel (pi : N -> N) : raw -> raw -> Prop :=
| CAR x y code code' e t : code_rel pi code code' ->
    code_attr_rel pi (RSeq [x; y; RBytes32 code; e; t]) (RSeq [x; y; RBytes32 code'; e; t]).

Definition mattr_rel (pi : N -> N) (rs : N -> N -> res cval) (a a' : raw) : Prop :=
  match a with
  | RAttr i r =>
    match rs 8 i with
    | Ok (VUtf8 name) => if str_eqb name a_Code then exists r', a' = RAttr i r' /\ code_attr_rel pi r r' else a' = a
    | _ => a' = a
    end
  | _ => a' = a
  end.
Definition member_rel (pi : N -> N) (rs : N -> N -> res cval) (m m' : raw) : Prop :=
  match m with
  | RSeq [a; n; d; RVec16 attrs] => exists attrs', m' = RSeq [a; n; d; RVec16 attrs'] /\ Forall2 (mattr_rel pi rs) attrs attrs'
  | _ => m' = m
  end.
(* [r'] is [r] with code arrays replaced by related ones *)
Definition methods_rel (pi : N -> N) (rs : N -> N -> res cval) (r r' : raw) : Prop :=
  match r with RVec16 ms => exists ms', r' = RVec16 ms' /\ Forall2 (member_rel pi rs) ms ms' | _ => r' = r end.

Definition vattr_rel (pi : N -> N) (a a' : val) : Prop :=
  (a' = a /\ forall v, a <> VAttr a_Code v) \/
  exists ms ml code code' exc attrs, code_rel pi code code' /\
    a = VAttr a_Code (VSeq [VN ms; VN ml; VB code; VList exc; VList attrs]) /\
    a' = VAttr a_Code (VSeq [VN ms; VN ml; VB code'; VList exc; VList attrs]).
Definition member_val_rel (pi : N -> N) (m m' : val) : Prop :=
  exists va vn vd vs vs', m = VSeq [va; vn; vd; VList vs] /\ m' = VSeq [va; vn; vd; VList vs'] /\ Forall2 (vattr_rel pi) vs vs'.

Lemma method_sel_code len : method_sel a_Code len = code_fmt.
Proof. reflexivity. Qed.

Lemma desc_code_main impl dec rs x y code e t :
  desc_fmt impl dec rs code_fmt (RSeq [x; y; RBytes32 code; e; t])
  = (do vx <- desc_fmt impl dec rs FU16 x; do vy <- desc_fmt impl dec rs FU16 y;
     do ve <- desc_fmt impl dec rs f_exception_table e; do vt <- desc_fmt impl dec rs (FVec16 (FAttr code_sel)) t;
     Ok (VSeq [vx; vy; VB code; ve; vt])).
Proof.
  change (desc_fmt impl dec rs code_fmt (RSeq [x; y; RBytes32 code; e; t]))
    with (do vs <- desc_all [desc_fmt impl dec rs FU16; desc_fmt impl dec rs FU16; desc_fmt impl dec rs FBytes32;
                             desc_fmt impl dec rs f_exception_table; desc_fmt impl dec rs (FVec16 (FAttr code_sel))]
                            [x; y; RBytes32 code; e; t]; Ok (VSeq vs)).
  cbn [desc_all]. change (desc_fmt impl dec rs FBytes32 (RBytes32 code)) with (@Ok val (VB code)).
  destruct (desc_fmt impl dec rs FU16 x); cbn [bind]; [|reflexivity].
  destruct (desc_fmt impl dec rs FU16 y); cbn [bind]; [|reflexivity].
  destruct (desc_fmt impl dec rs f_exception_table e); cbn [bind]; [|reflexivity].
  destruct (desc_fmt impl dec rs (FVec16 (FAttr code_sel)) t); reflexivity.
Qed.
Lemma desc_u16_shape impl dec rs x v : desc_fmt impl dec rs FU16 x = Ok v -> exists n, v = VN n.
Proof. destruct x; try discriminate. cbn [desc_fmt]. intros H. injection H as <-. eexists; reflexivity. Qed.
Lemma desc_vec16_shape impl dec rs f x v : desc_fmt impl dec rs (FVec16 f) x = Ok v -> exists l, v = VList l.
Proof.
  destruct x; try discriminate. rewrite desc_vec16. destruct (map_res (desc_fmt impl dec rs f) l); [|discriminate].
  cbn [bind]. intros H. injection H as <-. eexists; reflexivity.
Qed.

Lemma desc_attr_main impl dec rs sel i r :
  desc_fmt impl dec rs (FAttr sel) (RAttr i r)
  = (do c <- rs 8 i; match c with VUtf8 name => do v <- desc_fmt impl dec rs (sel name (N.of_nat (length (enc_raw r)))) r; Ok (VAttr name v) | _ => Err end).
Proof. reflexivity. Qed.

Lemma mattr_desc impl dec pi rs a a' : mattr_rel pi rs a a' ->
  res_rel (vattr_rel pi) (desc_fmt impl dec rs (FAttr method_sel) a) (desc_fmt impl dec rs (FAttr method_sel) a').
Proof.
  intros H. unfold res_rel. destruct a as [| | | | | | | |i r]; try (cbn in H; subst a'; reflexivity).
  cbn [mattr_rel] in H. rewrite desc_attr_main. destruct (rs 8 i) as [c|] eqn:E; [|subst a'; rewrite desc_attr_main, E; reflexivity].
  destruct c; try (subst a'; rewrite desc_attr_main, E; reflexivity). cbn [bind].
  destruct (str_eqb s a_Code) eqn:EC.
  - apply str_eqb_eq in EC. subst s. destruct H as (r' & -> & HR). rewrite desc_attr_main, E. cbn [bind]. rewrite !method_sel_code.
    destruct HR as [x y code code' e t HC]. rewrite !desc_code_main.
    destruct (desc_fmt impl dec rs FU16 x) as [vx|] eqn:Ex; cbn [bind]; [|reflexivity].
    destruct (desc_fmt impl dec rs FU16 y) as [vy|] eqn:Ey; cbn [bind]; [|reflexivity].
    destruct (desc_fmt impl dec rs f_exception_table e) as [ve|] eqn:Ee; cbn [bind]; [|reflexivity].
    destruct (desc_fmt impl dec rs (FVec16 (FAttr code_sel)) t) as [vt|] eqn:Et; cbn [bind]; [|reflexivity].
    destruct (desc_u16_shape _ _ _ _ _ Ex) as (ms & ->). destruct (desc_u16_shape _ _ _ _ _ Ey) as (ml & ->).
    unfold f_exception_table in Ee. destruct (desc_vec16_shape _ _ _ _ _ _ Ee) as (exc & ->).
    destruct (desc_vec16_shape _ _ _ _ _ _ Et) as (attrs & ->).
    eexists. split; [reflexivity|]. right. exists ms, ml, code, code', exc, attrs. repeat split. exact HC.
  - subst a'. rewrite desc_attr_main, E. cbn [bind].
    destruct (desc_fmt impl dec rs (method_sel s (N.of_nat (length (enc_raw r)))) r) as [v|]; cbn [bind]; [|reflexivity].
    eexists. split; [reflexivity|]. left. split; [reflexivity|]. intros v' Hv. injection Hv as -> _. rewrite str_eqb_refl in EC. discriminate.
Qed.

Definition member_fmt : fmt := FSeq [FFlags 2; FIdx 8; FIdx 8; FVec16 (FAttr method_sel)].
Lemma desc_member_main impl dec rs a n d attrs :
  desc_fmt impl dec rs member_fmt (RSeq [a; n; d; RVec16 attrs])
  = (do va <- desc_fmt impl dec rs (FFlags 2) a; do vn <- desc_fmt impl dec rs (FIdx 8) n; do vd <- desc_fmt impl dec rs (FIdx 8) d;
     do vs <- map_res (desc_fmt impl dec rs (FAttr method_sel)) attrs; Ok (VSeq [va; vn; vd; VList vs])).
Proof.
  change (desc_fmt impl dec rs member_fmt (RSeq [a; n; d; RVec16 attrs]))
    with (do vs <- desc_all [desc_fmt impl dec rs (FFlags 2); desc_fmt impl dec rs (FIdx 8); desc_fmt impl dec rs (FIdx 8);
                             desc_fmt impl dec rs (FVec16 (FAttr method_sel))] [a; n; d; RVec16 attrs]; Ok (VSeq vs)).
  cbn [desc_all]. rewrite desc_vec16.
  destruct (desc_fmt impl dec rs (FFlags 2) a); cbn [bind]; [|reflexivity].
  destruct (desc_fmt impl dec rs (FIdx 8) n); cbn [bind]; [|reflexivity].
  destruct (desc_fmt impl dec rs (FIdx 8) d); cbn [bind]; [|reflexivity].
  destruct (map_res (desc_fmt impl dec rs (FAttr method_sel)) attrs); reflexivity.
Qed.

Lemma desc_member_seq impl dec rs l :
  desc_fmt impl dec rs member_fmt (RSeq l)
  = (do vs <- desc_all [desc_fmt impl dec rs (FFlags 2); desc_fmt impl dec rs (FIdx 8); desc_fmt impl dec rs (FIdx 8);
                        desc_fmt impl dec rs (FVec16 (FAttr method_sel))] l; Ok (VSeq vs)).
Proof. reflexivity. Qed.

(* a structure that has not the shape of a method_info has no description *)
Lemma member_shape_err impl dec rs m : (forall a n d attrs, m <> RSeq [a; n; d; RVec16 attrs]) ->
  desc_fmt impl dec rs member_fmt m = Err.
Proof.
  intros H. destruct m as [| | | |l| | | |]; try reflexivity. rewrite desc_member_seq.
  destruct l as [|a [|n [|d [|t [|u l]]]]]; cbn [desc_all bind]; try reflexivity;
    try (repeat (rewrite ?bind_err; cbn [bind]); reflexivity).
  destruct t; try (exfalso; eapply H; reflexivity); cbn [desc_fmt bind]; repeat (rewrite ?bind_err; cbn [bind]); reflexivity.
Qed.

Lemma member_desc impl dec pi rs m m' : member_rel pi rs m m' ->
  res_rel (member_val_rel pi) (desc_fmt impl dec rs member_fmt m) (desc_fmt impl dec rs member_fmt m').
Proof.
  intros H.
  assert (Same : (forall a n d attrs, m <> RSeq [a; n; d; RVec16 attrs]) -> m' = m ->
                 res_rel (member_val_rel pi) (desc_fmt impl dec rs member_fmt m) (desc_fmt impl dec rs member_fmt m')).
  { intros Hs ->. rewrite (member_shape_err impl dec rs m Hs). reflexivity. }
  destruct m as [| | | |l| | | |]; try (apply Same; [intros; discriminate|exact H]).
  destruct l as [|a [|n [|d [|t l0]]]]; try (apply Same; [intros; discriminate|exact H]).
  destruct t; try (apply Same; [intros; discriminate|exact H]).
  destruct l0 as [|u l0]; [|apply Same; [intros; discriminate|exact H]].
  cbn [member_rel] in H. destruct H as (attrs' & -> & HF). rewrite !desc_member_main. unfold res_rel.
  destruct (desc_fmt impl dec rs (FFlags 2) a) as [va|]; cbn [bind]; [|reflexivity].
  destruct (desc_fmt impl dec rs (FIdx 8) n) as [vn|]; cbn [bind]; [|reflexivity].
  destruct (desc_fmt impl dec rs (FIdx 8) d) as [vd|]; cbn [bind]; [|reflexivity].
  pose proof (map_res_rel (desc_fmt impl dec rs (FAttr method_sel)) (desc_fmt impl dec rs (FAttr method_sel)) (mattr_rel pi rs) (vattr_rel pi)
                (mattr_desc impl dec pi rs) l attrs' HF) as HM.
  unfold res_rel in HM. destruct (map_res (desc_fmt impl dec rs (FAttr method_sel)) l) as [vs|]; [|rewrite HM; reflexivity].
  destruct HM as (vs' & -> & HV). cbn [bind]. eexists. split; [reflexivity|]. exists va, vn, vd, vs, vs'. repeat split. exact HV.
Qed.

Lemma methods_desc impl dec pi rs r r' : methods_rel pi rs r r' ->
  res_rel (fun v v' => exists ml ml', v = VList ml /\ v' = VList ml' /\ Forall2 (member_val_rel pi) ml ml')
          (desc_fmt impl dec rs methods_fmt r) (desc_fmt impl dec rs methods_fmt r').
Proof.
  intros H. change methods_fmt with (FVec16 member_fmt).
  destruct r as [| | | | | |ms| |]; try (cbn in H; subst r'; reflexivity).
  cbn [methods_rel] in H. destruct H as (ms' & -> & HF). rewrite !desc_vec16.
  pose proof (map_res_rel (desc_fmt impl dec rs member_fmt) (desc_fmt impl dec rs member_fmt) (member_rel pi rs) _ (member_desc impl dec pi rs) ms ms' HF) as HM.
  unfold res_rel in *. destruct (map_res (desc_fmt impl dec rs member_fmt) ms) as [vs|]; [|rewrite HM; reflexivity].
  destruct HM as (vs' & -> & HV). cbn [bind]. eexists. split; [reflexivity|]. exists vs, vs'. repeat split. exact HV.
Qed.

(* ---------- building the members ---------- *)
Lemma policy_code impl : policy_of impl 2 a_Code = PCode.
Proof. destruct impl; reflexivity. Qed.

Lemma fold_attrs_methods impl pi p p' b : pool_iso_strict pi p p' -> forall al al', Forall2 (vattr_rel pi) al al' -> forall st,
  fold_attrs (apply_attr impl p' (rename_bsm pi b) 2) st al' = fold_attrs (apply_attr impl p b 2) st al.
Proof.
  intros Hiso. unfold fold_attrs. induction 1 as [|a a' al al' Ha Hl IH]; intros st; cbn [fold_res]; [reflexivity|].
  assert (E : match a' with VAttr n v => apply_attr impl p' (rename_bsm pi b) 2 st n v | _ => Err end
            = match a with VAttr n v => apply_attr impl p b 2 st n v | _ => Err end).
  { destruct Ha as [[-> Hn]|(ms & ml & code & code' & exc & attrs & HC & -> & ->)].
    - destruct a; try srefl. apply apply_attr_pool_free. apply str_eqb_neq. intros ->. exact (Hn a eq_refl).
    - unfold apply_attr. rewrite policy_code. destruct (st_code st); [reflexivity|].
      rewrite (build_code_rel impl pi p p' b code code' ms ml exc attrs Hiso HC). reflexivity. }
  rewrite E. destruct (match a with VAttr n v => apply_attr impl p b 2 st n v | _ => Err end); cbn [bind]; [apply IH|reflexivity].
Qed.

Lemma build_member_rel impl pi p p' b m m' : pool_iso_strict pi p p' -> member_val_rel pi m m' ->
  build_member impl p' (rename_bsm pi b) 2 m' = build_member impl p b 2 m.
Proof.
  intros Hiso (va & vn & vd & vs & vs' & -> & -> & HV). unfold build_member.
  destruct va as [a| | | | | | | | | | | | |]; cbn [member_parts]; try srefl.
  destruct vn as [|cn| | | | | | | | | | | |]; cbn [member_parts]; try srefl.
  destruct cn; cbn [member_parts]; try srefl.
  destruct vd as [|cd| | | | | | | | | | | |]; cbn [member_parts]; try srefl.
  destruct cd; cbn [member_parts]; try srefl.
  rewrite (fold_attrs_methods impl pi p p' b Hiso vs vs' HV). reflexivity.
Qed.

(* ---------- the class attributes: everything renamed along the formats, the BootstrapMethods table by hand ---------- *)
Notation nB := a_BootstrapMethods.
Definition ren_cattr (pi : N -> N) (rs : N -> N -> res cval) (a : raw) : raw :=
  match a with
  | RAttr i r =>
    match rs 8 i with
    | Ok (VUtf8 name) =>
      if str_eqb name nB then RAttr (pi i) (ren_bsm_raw pi r)
      else RAttr (pi i) (ren_raw pi rs (class_sel name (N.of_nat (length (enc_raw r)))) r)
    | _ => RAttr (pi i) r
    end
  | a => a
  end.
Definition ren_cattrs (pi : N -> N) (rs : N -> N -> res cval) (r : raw) : raw :=
  match r with RVec16 al => RVec16 (map (ren_cattr pi rs) al) | r => r end.
Definition amap_list (g : val -> val) (v : val) : val := match v with VList al => VList (map (amap g) al) | v => v end.

Lemma class_sel_bsm len : class_sel nB len = f_BootstrapMethods.
Proof. reflexivity. Qed.

Lemma cattr_desc impl dec pi p p' : pool_iso_strict pi p p' -> nonzero pi -> forall a,
  desc_fmt impl dec (acc p') (FAttr class_sel) (ren_cattr pi (acc p) a)
  = omap (amap (ren_bsm_val pi)) (desc_fmt impl dec (acc p) (FAttr class_sel) a).
Proof.
  intros Hiso Hnz a. destruct a as [| | | | | | | |i r]; try reflexivity.
  cbn [ren_cattr]. rewrite (desc_attr_main impl dec (acc p)).
  destruct (acc p 8 i) as [c|] eqn:E; cbn [bind omap].
  2:{ rewrite desc_attr_main, (acc_layout_exact pi p p' Hiso), E. reflexivity. }
  destruct c; try (rewrite desc_attr_main, (acc_layout_exact pi p p' Hiso), E; reflexivity).
  destruct (str_eqb s nB) eqn:EB.
  - apply str_eqb_eq in EB. subst s. rewrite desc_attr_main, (acc_layout_exact pi p p' Hiso), E. cbn [bind].
    rewrite !class_sel_bsm, (bsm_desc impl dec pi p p' Hiso).
    destruct (desc_fmt impl dec (acc p) f_BootstrapMethods r); cbn [omap bind amap]; [|reflexivity]. rewrite str_eqb_refl. reflexivity.
  - rewrite desc_attr_main, (acc_layout_exact pi p p' Hiso), E. cbn [bind]. rewrite ren_raw_length.
    rewrite (ren_raw_desc impl dec pi p p' Hiso Hnz).
    2:{ apply closed_class_sel. apply str_eqb_neq. apply str_eqb_neq in EB. congruence. }
    destruct (desc_fmt impl dec (acc p) (class_sel s (N.of_nat (length (enc_raw r)))) r); cbn [omap bind amap]; [|reflexivity].
    rewrite EB. reflexivity.
Qed.

Lemma cattrs_desc impl dec pi p p' : pool_iso_strict pi p p' -> nonzero pi -> forall r,
  desc_fmt impl dec (acc p') class_attrs_fmt (ren_cattrs pi (acc p) r)
  = omap (amap_list (ren_bsm_val pi)) (desc_fmt impl dec (acc p) class_attrs_fmt r).
Proof.
  intros Hiso Hnz r. unfold class_attrs_fmt. destruct r; try reflexivity. cbn [ren_cattrs]. rewrite !desc_vec16.
  rewrite (map_res_omap (desc_fmt impl dec (acc p) (FAttr class_sel)) (desc_fmt impl dec (acc p') (FAttr class_sel))
             (ren_cattr pi (acc p)) (amap (ren_bsm_val pi))) by (apply cattr_desc; assumption).
  destruct (map_res (desc_fmt impl dec (acc p) (FAttr class_sel)) l); reflexivity.
Qed.

(* ---------- fields: no attribute of a field looks at the pool once described ---------- *)
Lemma apply_attr_field impl p b p' b' st k v : apply_attr impl p' b' 1 st k v = apply_attr impl p b 1 st k v.
Proof.
  destruct (str_eqb k a_Code) eqn:E; [|apply apply_attr_pool_free; exact E].
  apply str_eqb_eq in E. subst k. unfold apply_attr. replace (policy_of impl 1 a_Code) with PUnknown by (destruct impl; reflexivity). reflexivity.
Qed.
Lemma build_member_field impl p b p' b' m : build_member impl p' b' 1 m = build_member impl p b 1 m.
Proof.
  unfold build_member. destruct (member_parts m) as [[[[a n] d] attrs]|]; [|reflexivity].
  assert (E : forall al st, fold_attrs (apply_attr impl p' b' 1) st al = fold_attrs (apply_attr impl p b 1) st al).
  { unfold fold_attrs. induction al as [|x al IH]; intros st; cbn [fold_res]; [reflexivity|].
    destruct x; try (cbn [bind]; srefl). rewrite (apply_attr_field impl p b p' b').
    destruct (apply_attr impl p b 1 st name x); cbn [bind]; [apply IH|reflexivity]. }
  rewrite E. reflexivity.
Qed.

Lemma map_res_forall2 {A B} (f f' : A -> res B) : forall l l', Forall2 (fun x x' => f' x' = f x) l l' -> map_res f' l' = map_res f l.
Proof. induction 1 as [|x x' l l' Hx Hl IH]; [reflexivity|]. cbn [map_res]. rewrite Hx, IH. reflexivity. Qed.

Lemma slot_list_bsm pi l :
  map_res bsm_entry (slot_list nB (smap1 (ren_bsm_val pi) l)) = omap (rename_bsm pi) (map_res bsm_entry (slot_list nB l)).
Proof.
  unfold slot_list. rewrite slot_get_nB. destruct (slot_get nB l) as [w|]; [|reflexivity].
  destruct w; try reflexivity. cbn [ren_bsm_val]. apply bsm_entries_ren.
Qed.

Theorem build_class_rel impl pi p p' minor major head al fields ml ml' :
  pool_iso_strict pi p p' -> Forall2 (member_val_rel pi) ml ml' ->
  build_class impl p' minor major head (VList (map (amap (ren_bsm_val pi)) al)) fields (VList ml')
  = build_class impl p minor major head (VList al) fields (VList ml).
Proof.
  intros Hiso HM. unfold build_class. cbn [list_of].
  destruct (head_parts head) as [[[[a this] sup] itfs]|]; [|reflexivity].
  destruct (list_of fields) as [fl|]; [|reflexivity].
  destruct (super_name sup) as [su|]; cbn [bind]; [|reflexivity].
  destruct (map_res class_name itfs) as [its|]; cbn [bind]; [|reflexivity].
  rewrite (fold_attrs_class impl p [] p' []). change st_empty with (stmap (ren_bsm_val pi) st_empty) at 1.
  rewrite fold_attrs_amap. destruct (fold_attrs (apply_attr impl p [] 0) st_empty al) as [st|]; cbn [omap bind]; [|reflexivity].
  change (st_slots (stmap (ren_bsm_val pi) st)) with (smap1 (ren_bsm_val pi) (st_slots st)).
  rewrite slot_list_bsm. destruct (map_res bsm_entry (slot_list nB (st_slots st))) as [b|]; cbn [omap bind]; [|reflexivity].
  rewrite (map_res_forall2 (build_member impl p b 1) (build_member impl p' (rename_bsm pi b) 1) fl fl).
  2:{ clear. induction fl; constructor; [apply build_member_field|assumption]. }
  destruct (map_res (build_member impl p b 1) fl) as [fs|]; cbn [bind]; [|reflexivity].
  rewrite (map_res_forall2 (build_member impl p b 2) (build_member impl p' (rename_bsm pi b) 2) ml ml').
  2:{ clear - Hiso HM. induction HM; constructor; [apply build_member_rel; assumption|assumption]. }
  destruct (map_res (build_member impl p b 2) ml) as [ms|]; cbn [bind]; [|reflexivity].
  rewrite slot_del_nB. reflexivity.
Qed.

(* ---------- THE WHOLE CLASS FILE ---------- *)
(* c' is c over a re-laid-out constant pool: same version; the pools decode to p and p', p' holding at
   pi i the renamed entry of p's i and nothing else; head, fields and class attributes are c's with
   every index renamed; the methods are c's with every index renamed and every code array replaced by a
   related one.  Then both have the same description. *)
Record class_iso (dec : bytes -> res str) (pi : N -> N) (c c' : rclass) (p p' : pool) : Prop := {
  iso_minor : rc_minor c' = rc_minor c;
  iso_major : rc_major c' = rc_major c;
  iso_pool : decode_pool dec (rc_pool c) = Ok p;
  iso_pool' : decode_pool dec (rc_pool c') = Ok p';
  iso_strict : pool_iso_strict pi p p';
  iso_nonzero : nonzero pi;
  iso_head : rc_head c' = ren_raw pi (acc p) head_fmt (rc_head c);
  iso_fields : rc_fields c' = ren_raw pi (acc p) fields_fmt (rc_fields c);
  iso_attrs : rc_attrs c' = ren_cattrs pi (acc p) (rc_attrs c);
  iso_methods : methods_rel pi (acc p') (ren_raw pi (acc p) methods_fmt (rc_methods c)) (rc_methods c')
}.

Theorem class_layout_independent impl dec pi c c' p p' : class_iso dec pi c c' p p' ->
  describe impl dec c' = describe impl dec c.
Proof.
  intros [Hmi Hma Hp Hp' Hiso Hnz Hh Hf Ha Hm]. unfold describe. rewrite Hmi, Hma.
  destruct (negb (header_ok magic (rc_minor c) (rc_major c))); [reflexivity|].
  rewrite Hp, Hp'. cbn [bind].
  rewrite Hh, (ren_raw_desc impl dec pi p p' Hiso Hnz head_fmt closed_head).
  destruct (desc_fmt impl dec (acc p) head_fmt (rc_head c)) as [head|]; cbn [bind]; [|reflexivity].
  rewrite Ha, (cattrs_desc impl dec pi p p' Hiso Hnz).
  destruct (desc_fmt impl dec (acc p) class_attrs_fmt (rc_attrs c)) as [attrs|] eqn:EA; cbn [omap bind]; [|reflexivity].
  unfold class_attrs_fmt in EA. destruct (desc_vec16_shape _ _ _ _ _ _ EA) as (al & ->). cbn [amap_list].
  rewrite Hf, (ren_raw_desc impl dec pi p p' Hiso Hnz fields_fmt closed_fields).
  destruct (desc_fmt impl dec (acc p) fields_fmt (rc_fields c)) as [fields|]; cbn [bind]; [|reflexivity].
  pose proof (methods_desc impl dec pi (acc p') _ _ Hm) as HM. unfold res_rel in HM.
  rewrite (ren_raw_desc impl dec pi p p' Hiso Hnz methods_fmt closed_methods) in HM.
  destruct (desc_fmt impl dec (acc p) methods_fmt (rc_methods c)) as [methods|]; [|rewrite HM; cbn [bind]; reflexivity].
  destruct HM as (methods' & -> & ml & ml' & -> & -> & HF). cbn [bind].
  apply build_class_rel; assumption.
Qed.

(* … hence duke reads both files to the same tree (C01_read_class_encode on both sides) *)
From FB Require Import C01.Theory8.
Corollary read_class_layout_independent impl dec pi c c' p p' : class_iso dec pi c c' p p' ->
  class_fits impl dec c = true -> class_fits impl dec c' = true ->
  read_class impl dec (encode_class c') = read_class impl dec (encode_class c).
Proof.
  intros H F F'. rewrite (read_class_encode impl dec c F), (read_class_encode impl dec c' F').
  exact (class_layout_independent impl dec pi c c' p p' H).
Qed.
