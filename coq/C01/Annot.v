(* C01 — annotations as a typed structure: element_value trees (JVMS 4.7.16.1) with their pool
   indices, their place in the format language ([raw_of_ev]), their nesting depth, and their
   description by structural recursion (no format, no bytes).  Definitions only; Theory10.v shows
   that duke's reader — which refuses annotations and arrays nested more than 64 deep — reads the
   encoding of every element value within that limit to its description. *)
From FB Require Export C01.Fmt C01.Formats C01.ClassFile.

Inductive evalue :=
| EvConst (tag idx : N)                         (* B C D F I J S Z s: const_value_index *)
| EvEnum (type_name const_name : N)             (* e *)
| EvClass (class_info : N)                      (* c *)
| EvAnnot (type_index : N) (pairs : list (N * evalue))   (* @: annotation_value *)
| EvArray (values : list evalue).               (* [ *)

Fixpoint raw_of_ev (e : evalue) : raw :=
  match e with
  | EvConst t i => RTag t (Rw16 i)
  | EvEnum t c => RTag ev_enum_tag (RSeq [Rw16 t; Rw16 c])
  | EvClass c => RTag ev_class_tag (Rw16 c)
  | EvAnnot ty ps => RTag ev_annot_tag (RSeq [Rw16 ty; RVec16 (map (fun p => RSeq [Rw16 (fst p); raw_of_ev (snd p)]) ps)])
  | EvArray vs => RTag ev_array_tag (RVec16 (map raw_of_ev vs))
  end.

Fixpoint max_list (l : list nat) : nat := match l with [] => O | x :: r => Nat.max x (max_list r) end.
(* levels of annotation / array nesting *)
Fixpoint ev_depth (e : evalue) : nat :=
  match e with
  | EvAnnot _ ps => S (max_list (map (fun p => ev_depth (snd p)) ps))
  | EvArray vs => S (max_list (map ev_depth vs))
  | _ => O
  end.

(* indices and counts fit their fields, constant tags are the nine of the JVMS *)
Fixpoint ev_ok (e : evalue) : bool :=
  match e with
  | EvConst t i => match assoc_N t ev_consts with Some _ => i <? 65536 | None => false end
  | EvEnum t c => (t <? 65536) && (c <? 65536)
  | EvClass c => c <? 65536
  | EvAnnot ty ps => (ty <? 65536) && (N.of_nat (length ps) <? 65536)
                     && forallb (fun p => (fst p <? 65536) && ev_ok (snd p)) ps
  | EvArray vs => (N.of_nat (length vs) <? 65536) && forallb ev_ok vs
  end.

(* what an element value says: every index resolved ([rs 8]: Utf8; constants by the accessor of their tag) *)
Fixpoint describe_ev (rs : N -> N -> res cval) (e : evalue) : res val :=
  match e with
  | EvConst t i =>
    match assoc_N t ev_consts with Some a => do c <- rs a i; Ok (VTag t (VC c)) | None => Err end
  | EvEnum t c => do x <- rs 8 t; do y <- rs 8 c; Ok (VTag ev_enum_tag (VSeq [VC x; VC y]))
  | EvClass c => do x <- rs 8 c; Ok (VTag ev_class_tag (VC x))
  | EvAnnot ty ps =>
    do x <- rs 8 ty;
    do vs <- (fix go (ps : list (N * evalue)) : res (list val) :=
                match ps with
                | [] => Ok []
                | p :: ps' => do n <- rs 8 (fst p); do v <- describe_ev rs (snd p); do r <- go ps'; Ok (VSeq [VC n; v] :: r)
                end) ps;
    Ok (VTag ev_annot_tag (VSeq [VC x; VList vs]))
  | EvArray l =>
    do vs <- (fix go (l : list evalue) : res (list val) :=
                match l with [] => Ok [] | e' :: l' => do v <- describe_ev rs e'; do r <- go l'; Ok (v :: r) end) l;
    Ok (VTag ev_array_tag (VList vs))
  end.
Definition describe_pairs (rs : N -> N -> res cval) (ps : list (N * evalue)) : res (list val) :=
  map_res (fun p => do n <- rs 8 (fst p); do v <- describe_ev rs (snd p); Ok (VSeq [VC n; v])) ps.

(* an annotation: type_index and element_value_pairs *)
Definition annotation := (N * list (N * evalue))%type.
Definition raw_of_annotation (a : annotation) : raw :=
  RSeq [Rw16 (fst a); RVec16 (map (fun p => RSeq [Rw16 (fst p); raw_of_ev (snd p)]) (snd a))].
Definition annotation_ok (a : annotation) : bool :=
  (fst a <? 65536) && (N.of_nat (length (snd a)) <? 65536) && forallb (fun p => (fst p <? 65536) && ev_ok (snd p)) (snd a).
Definition annotation_depth (a : annotation) : nat := max_list (map (fun p => ev_depth (snd p)) (snd a)).
Definition describe_annotation (rs : N -> N -> res cval) (a : annotation) : res val :=
  do x <- rs 8 (fst a); do vs <- describe_pairs rs (snd a); Ok (VSeq [VC x; VList vs]).

(* an array nested n deep around an int constant *)
Fixpoint nested_array (n : nat) (idx : N) : evalue :=
  match n with O => EvConst 73 idx | S n' => EvArray [nested_array n' idx] end.
