(* C01 — theory, part 5: constant-pool layout independence.  If p' holds, at the renamed index, the
   renamed entry of every entry of p (pool_iso), then every accessor resolves the renamed index to
   the same value — for the pool itself, the bootstrap-method table and instruction operands. *)
From FB Require Import C01.Model C01.Pool C01.Resolve.

Definition rename_entry (pi : N -> N) (e : entry) : entry :=
  match e with
  | EClass n => EClass (pi n)
  | EString s => EString (pi s)
  | EFieldRef c nt => EFieldRef (pi c) (pi nt)
  | EMethodRef c nt => EMethodRef (pi c) (pi nt)
  | EIMethodRef c nt => EIMethodRef (pi c) (pi nt)
  | ENameAndType n d => ENameAndType (pi n) (pi d)
  | EMethodHandle k r => EMethodHandle k (pi r)
  | EMethodType d => EMethodType (pi d)
  | EDynamic b nt => EDynamic b (pi nt)
  | EInvokeDynamic b nt => EInvokeDynamic b (pi nt)
  | EModule n => EModule (pi n)
  | EPackage n => EPackage (pi n)
  | e => e
  end.

(* p' is a re-layout of p along pi: any order, any additional entries, any duplicates *)
Definition pool_iso (pi : N -> N) (p p' : pool) : Prop :=
  forall i e, pget p i = Ok e -> pget p' (pi i) = Ok (rename_entry pi e).

Definition rename_bsm (pi : N -> N) (b : bsms) : bsms :=
  map (fun m => (pi (fst m), map pi (snd m))) b.

Ltac step H E :=
  match type of H with
  | bind (pget ?p ?i) _ = Ok _ => destruct (pget p i) as [?e|] eqn:E; [|discriminate]; cbn [bind] in H
  end.

Lemma get_utf8_iso pi p p' : pool_iso pi p p' -> forall i s, get_utf8 p i = Ok s -> get_utf8 p' (pi i) = Ok s.
Proof.
  intros Hiso i s H. unfold get_utf8 in *. step H E. rewrite (Hiso _ _ E). cbn [bind].
  destruct e; try discriminate. exact H.
Qed.

Lemma get_class_iso pi p p' : pool_iso pi p p' -> forall i s, get_class p i = Ok s -> get_class p' (pi i) = Ok s.
Proof.
  intros Hiso i s H. unfold get_class in *. step H E. rewrite (Hiso _ _ E). cbn [bind].
  destruct e; try discriminate. cbn [rename_entry]. apply (get_utf8_iso pi p p' Hiso). exact H.
Qed.

Lemma get_nt_iso pi p p' : pool_iso pi p p' -> forall i r, get_nt p i = Ok r -> get_nt p' (pi i) = Ok r.
Proof.
  intros Hiso i r H. unfold get_nt in *. step H E. rewrite (Hiso _ _ E). cbn [bind].
  destruct e; try discriminate. cbn [rename_entry].
  destruct (get_utf8 p n) as [a|] eqn:Ea; [|discriminate]. cbn [bind] in H.
  destruct (get_utf8 p d) as [b|] eqn:Eb; [|discriminate]. cbn [bind] in H.
  rewrite (get_utf8_iso pi p p' Hiso _ _ Ea), (get_utf8_iso pi p p' Hiso _ _ Eb). exact H.
Qed.

Ltac ref_case Hiso H :=
  match type of H with
  | bind (get_class ?p ?c) _ = Ok _ =>
    let Ec := fresh "Ec" in let En := fresh "En" in
    destruct (get_class p c) as [?cs|] eqn:Ec; [|discriminate]; cbn [bind] in H;
    match type of H with
    | bind (get_nt ?p ?nt) _ = Ok _ =>
      destruct (get_nt p nt) as [[?n ?d]|] eqn:En; [|discriminate]; cbn [bind] in H;
      rewrite (get_class_iso _ _ _ Hiso _ _ Ec); cbn [bind];
      rewrite (get_nt_iso _ _ _ Hiso _ _ En); cbn [bind]; exact H
    end
  end.

Lemma get_field_ref_iso pi p p' : pool_iso pi p p' -> forall i v, get_field_ref p i = Ok v -> get_field_ref p' (pi i) = Ok v.
Proof.
  intros Hiso i v H. unfold get_field_ref in *. step H E. rewrite (Hiso _ _ E). cbn [bind].
  destruct e; try discriminate. cbn [rename_entry]. ref_case Hiso H.
Qed.
Lemma get_method_ref_iso pi p p' : pool_iso pi p p' -> forall i v, get_method_ref p i = Ok v -> get_method_ref p' (pi i) = Ok v.
Proof.
  intros Hiso i v H. unfold get_method_ref in *. step H E. rewrite (Hiso _ _ E). cbn [bind].
  destruct e; try discriminate. cbn [rename_entry]. ref_case Hiso H.
Qed.
Lemma get_imethod_ref_iso pi p p' : pool_iso pi p p' -> forall i v, get_imethod_ref p i = Ok v -> get_imethod_ref p' (pi i) = Ok v.
Proof.
  intros Hiso i v H. unfold get_imethod_ref in *. step H E. rewrite (Hiso _ _ E). cbn [bind].
  destruct e; try discriminate. cbn [rename_entry]. ref_case Hiso H.
Qed.
Lemma get_any_method_ref_iso pi p p' : pool_iso pi p p' -> forall i v, get_any_method_ref p i = Ok v -> get_any_method_ref p' (pi i) = Ok v.
Proof.
  intros Hiso i v H. unfold get_any_method_ref in *. step H E. rewrite (Hiso _ _ E). cbn [bind].
  destruct e; try discriminate; cbn [rename_entry]; ref_case Hiso H.
Qed.

Lemma handle_of_iso pi p p' : pool_iso pi p p' -> forall k r v, handle_of p k r = Ok v -> handle_of p' k (pi r) = Ok v.
Proof.
  intros Hiso k r v H. unfold handle_of in *.
  repeat match type of H with (if ?c then _ else _) = Ok _ => destruct c end; try discriminate;
  match type of H with
  | bind (?g p r) _ = Ok _ => destruct (g p r) as [x|] eqn:E; [|discriminate]; cbn [bind] in H
  end;
  first [ rewrite (get_field_ref_iso _ _ _ Hiso _ _ E) | rewrite (get_method_ref_iso _ _ _ Hiso _ _ E)
        | rewrite (get_any_method_ref_iso _ _ _ Hiso _ _ E) | rewrite (get_imethod_ref_iso _ _ _ Hiso _ _ E) ];
  exact H.
Qed.

Lemma get_method_handle_iso pi p p' : pool_iso pi p p' -> forall i v, get_method_handle p i = Ok v -> get_method_handle p' (pi i) = Ok v.
Proof.
  intros Hiso i v H. unfold get_method_handle in *. step H E. rewrite (Hiso _ _ E). cbn [bind].
  destruct e; try discriminate. cbn [rename_entry]. apply (handle_of_iso _ _ _ Hiso). exact H.
Qed.

Lemma map_res_iso {A B} (f g : A -> res B) (pi : A -> A) : forall l vs,
  (forall x v, In x l -> f x = Ok v -> g (pi x) = Ok v) ->
  map_res f l = Ok vs -> map_res g (map pi l) = Ok vs.
Proof.
  induction l as [|x l IH]; intros vs Hfg H; [exact H|].
  cbn [map_res map] in *. destruct (f x) as [y|] eqn:Ey; [|discriminate]. cbn [bind] in H.
  destruct (map_res f l) as [ys|] eqn:Eys; [|discriminate]. cbn [bind] in H.
  rewrite (Hfg x y (or_introl eq_refl) Ey). cbn [bind].
  rewrite (IH ys); [exact H| |reflexivity]. intros x' v Hin. apply Hfg. right. exact Hin.
Qed.

Lemma nth_error_rename_bsm pi b k h args :
  nth_error b k = Some (h, args) -> nth_error (rename_bsm pi b) k = Some (pi h, map pi args).
Proof. intros H. unfold rename_bsm. rewrite nth_error_map, H. reflexivity. Qed.

Lemma get_loadable_iso pi p p' b : pool_iso pi p p' -> forall fuel i v,
  get_loadable fuel p b i = Ok v -> get_loadable fuel p' (rename_bsm pi b) (pi i) = Ok v.
Proof.
  intros Hiso. induction fuel as [|f IH]; intros i v H; [discriminate|].
  cbn [get_loadable] in *. step H E. rewrite (Hiso _ _ E). cbn [bind].
  destruct e; try discriminate; cbn [rename_entry]; try exact H.
  - (* class *) destruct (get_utf8 p name) as [s|] eqn:Es; [|discriminate]. cbn [bind] in H.
    rewrite (get_utf8_iso _ _ _ Hiso _ _ Es). exact H.
  - (* string *) destruct (get_utf8 p s) as [s'|] eqn:Es; [|discriminate]. cbn [bind] in H.
    rewrite (get_utf8_iso _ _ _ Hiso _ _ Es). exact H.
  - (* handle *) apply (handle_of_iso _ _ _ Hiso). exact H.
  - (* method type *) destruct (get_utf8 p d) as [s'|] eqn:Es; [|discriminate]. cbn [bind] in H.
    rewrite (get_utf8_iso _ _ _ Hiso _ _ Es). exact H.
  - (* dynamic *) destruct f as [|f']; [discriminate|].
    destruct (get_nt p nt) as [[n d]|] eqn:En; [|discriminate]. cbn [bind] in H.
    rewrite (get_nt_iso _ _ _ Hiso _ _ En). cbn [bind].
    destruct (nth_error b (N.to_nat bsm)) as [[h args]|] eqn:Eb; [|discriminate].
    rewrite (nth_error_rename_bsm pi b _ h args Eb).
    destruct (get_method_handle p h) as [hv|] eqn:Eh; [|discriminate]. cbn [bind] in H.
    rewrite (get_method_handle_iso _ _ _ Hiso _ _ Eh). cbn [bind].
    destruct (map_res (get_loadable (S f') p b) args) as [avs|] eqn:Ea; [|discriminate]. cbn [bind] in H.
    rewrite (map_res_iso (get_loadable (S f') p b) (get_loadable (S f') p' (rename_bsm pi b)) pi args avs); [exact H| |exact Ea].
    intros x v' _ Hx. apply IH. exact Hx.
Qed.

Lemma get_invoke_dynamic_iso pi p p' b : pool_iso pi p p' -> forall i v,
  get_invoke_dynamic p b i = Ok v -> get_invoke_dynamic p' (rename_bsm pi b) (pi i) = Ok v.
Proof.
  intros Hiso i v H. unfold get_invoke_dynamic in *. step H E. rewrite (Hiso _ _ E). cbn [bind].
  destruct e; try discriminate. cbn [rename_entry].
  destruct (get_nt p nt) as [[n d]|] eqn:En; [|discriminate]. cbn [bind] in H.
  rewrite (get_nt_iso _ _ _ Hiso _ _ En). cbn [bind].
  destruct (nth_error b (N.to_nat bsm)) as [[h args]|] eqn:Eb; [|discriminate].
  rewrite (nth_error_rename_bsm pi b _ h args Eb).
  destruct (get_method_handle p h) as [hv|] eqn:Eh; [|discriminate]. cbn [bind] in H.
  rewrite (get_method_handle_iso _ _ _ Hiso _ _ Eh). cbn [bind].
  destruct (map_res (get_loadable (pred nesting_fuel) p b) args) as [avs|] eqn:Ea; [|discriminate]. cbn [bind] in H.
  rewrite (map_res_iso (get_loadable (pred nesting_fuel) p b) (get_loadable (pred nesting_fuel) p' (rename_bsm pi b)) pi args avs); [exact H| |exact Ea].
  intros x v' _ Hx. apply (get_loadable_iso pi p p' b Hiso). exact Hx.
Qed.

Lemma get_constant_value_iso pi p p' : pool_iso pi p p' -> forall i v, get_constant_value p i = Ok v -> get_constant_value p' (pi i) = Ok v.
Proof.
  intros Hiso i v H. unfold get_constant_value in *. step H E. rewrite (Hiso _ _ E). cbn [bind].
  destruct e; try discriminate; cbn [rename_entry]; try exact H.
  destruct (get_utf8 p s) as [s'|] eqn:Es; [|discriminate]. cbn [bind] in H.
  rewrite (get_utf8_iso _ _ _ Hiso _ _ Es). exact H.
Qed.
Lemma get_module_iso pi p p' : pool_iso pi p p' -> forall i v, get_module p i = Ok v -> get_module p' (pi i) = Ok v.
Proof.
  intros Hiso i v H. unfold get_module in *. step H E. rewrite (Hiso _ _ E). cbn [bind].
  destruct e; try discriminate; cbn [rename_entry].
  destruct (get_utf8 p n) as [s'|] eqn:Es; [|discriminate]. cbn [bind] in H.
  rewrite (get_utf8_iso _ _ _ Hiso _ _ Es). exact H.
Qed.
Lemma get_package_iso pi p p' : pool_iso pi p p' -> forall i v, get_package p i = Ok v -> get_package p' (pi i) = Ok v.
Proof.
  intros Hiso i v H. unfold get_package in *. step H E. rewrite (Hiso _ _ E). cbn [bind].
  destruct e; try discriminate; cbn [rename_entry].
  destruct (get_utf8 p n) as [s'|] eqn:Es; [|discriminate]. cbn [bind] in H.
  rewrite (get_utf8_iso _ _ _ Hiso _ _ Es). exact H.
Qed.

Theorem pool_layout_independent pi p p' b : pool_iso pi p p' -> forall kind i v,
  resolve_kind p b kind i = Ok v -> resolve_kind p' (rename_bsm pi b) kind (pi i) = Ok v.
Proof.
  intros Hiso kind i v H. unfold resolve_kind in *.
  repeat match type of H with (if ?c then _ else _) = Ok _ => destruct c end; try discriminate.
  - apply (get_loadable_iso _ _ _ _ Hiso). exact H.
  - apply (get_field_ref_iso _ _ _ Hiso). exact H.
  - apply (get_method_ref_iso _ _ _ Hiso). exact H.
  - apply (get_any_method_ref_iso _ _ _ Hiso). exact H.
  - apply (get_imethod_ref_iso _ _ _ Hiso). exact H.
  - apply (get_invoke_dynamic_iso _ _ _ _ Hiso). exact H.
  - destruct (get_class p i) as [s|] eqn:E; [|discriminate]. cbn [bind] in H.
    rewrite (get_class_iso _ _ _ Hiso _ _ E). exact H.
  - apply (get_constant_value_iso _ _ _ Hiso). exact H.
  - destruct (get_utf8 p i) as [s|] eqn:E; [|discriminate]. cbn [bind] in H.
    rewrite (get_utf8_iso _ _ _ Hiso _ _ E). exact H.
  - apply (get_method_handle_iso _ _ _ Hiso). exact H.
  - destruct (get_nt p i) as [nd|] eqn:E; [|discriminate]. cbn [bind] in H.
    rewrite (get_nt_iso _ _ _ Hiso _ _ E). exact H.
  - apply (get_module_iso _ _ _ Hiso). exact H.
  - apply (get_package_iso _ _ _ Hiso). exact H.
Qed.

(* lift to instructions: the same instruction with its pool operands renamed resolves identically *)
Definition rename_op {T} (pi : N -> N) (o : operand T) : operand T :=
  match o with OpC k i => OpC k (pi i) | o => o end.
Definition rename_insn {T} (pi : N -> N) (i : ainsn T) : ainsn T :=
  match i with Gen c ops => Gen c (map (rename_op pi) ops) | i => i end.

Theorem insn_layout_independent pi p p' b : pool_iso pi p p' -> forall i x,
  resolve_insn p b i = Ok x -> resolve_insn p' (rename_bsm pi b) (rename_insn pi i) = Ok x.
Proof.
  intros Hiso i x H. destruct i as [c ops|d lo hi tbl|d ps]; cbn [rename_insn resolve_insn] in *; try exact H.
  destruct (map_res (resolve_op p b) ops) as [xs|] eqn:E; [|discriminate]. cbn [bind] in H.
  rewrite (map_res_iso (resolve_op p b) (resolve_op p' (rename_bsm pi b)) (rename_op pi) ops xs); [exact H| |exact E].
  intros o v _ Ho. destruct o as [n|z|t|k j]; cbn [rename_op resolve_op] in *; try exact Ho.
  destruct (resolve_kind p b k j) as [w|] eqn:Ew; [|discriminate]. cbn [bind] in Ho.
  rewrite (pool_layout_independent pi p p' b Hiso _ _ _ Ew). exact Ho.
Qed.

(* two-slot entries: the slot after a Long/Double holds nothing, every entry sits at its slot *)
Fixpoint slots_before (es : list entry) : N :=
  match es with [] => 0 | e :: es' => (if two_slot e then 2 else 1) + slots_before es' end.

Lemma pget_pool_of_entries : forall es1 e es2,
  pget (pool_of_entries (es1 ++ e :: es2)) (1 + slots_before es1) = Ok e.
Proof.
  intros es1 e es2. unfold pget, pool_of_entries.
  replace (N.to_nat (1 + slots_before es1)) with (S (N.to_nat (slots_before es1))) by lia.
  cbn [nth_error]. rewrite flat_map_app.
  assert (L : length (flat_map (fun e0 => if two_slot e0 then [Some e0; None] else [Some e0]) es1) = N.to_nat (slots_before es1)).
  { induction es1 as [|x es1 IH]; [reflexivity|]. cbn [flat_map slots_before]. rewrite app_length, IH.
    destruct (two_slot x); cbn [length]; lia. }
  rewrite nth_error_app2 by lia. rewrite L, Nat.sub_diag. cbn [flat_map].
  destruct (two_slot e); reflexivity.
Qed.

Lemma pget_second_slot : forall es1 e es2, two_slot e = true ->
  pget (pool_of_entries (es1 ++ e :: es2)) (2 + slots_before es1) = Err.
Proof.
  intros es1 e es2 T. unfold pget, pool_of_entries.
  assert (L : length (flat_map (fun e0 => if two_slot e0 then [Some e0; None] else [Some e0]) es1) = N.to_nat (slots_before es1)).
  { induction es1 as [|x es1 IH]; [reflexivity|]. cbn [flat_map slots_before]. rewrite app_length, IH.
    destruct (two_slot x); cbn [length]; lia. }
  replace (N.to_nat (2 + slots_before es1))
    with (S (length (flat_map (fun e0 => if two_slot e0 then [Some e0; None] else [Some e0]) es1) + 1)) by lia.
  cbn [nth_error]. rewrite flat_map_app.
  rewrite nth_error_app2 by lia.
  replace (length (flat_map (fun e0 => if two_slot e0 then [Some e0; None] else [Some e0]) es1) + 1
           - length (flat_map (fun e0 => if two_slot e0 then [Some e0; None] else [Some e0]) es1))%nat with 1%nat by lia.
  cbn [flat_map]. rewrite T. reflexivity.
Qed.
