(* C01 — theory, part 1: the two generated opcode tables agree; one instruction encoded by ANY
   admissible form is skipped correctly by pass 1 (creating exactly its targets' labels) and decoded
   to itself by pass 2. *)
From FB Require Import C01.Model.
Arguments N.add : simpl never.
Arguments N.mul : simpl never.
Arguments N.sub : simpl never.
Arguments N.modulo : simpl never.
Arguments N.div : simpl never.
Arguments Z.add : simpl never.
Arguments Z.sub : simpl never.
Arguments Z.mul : simpl never.

(* ---------------------------------------------------------------------------------------------- *)
(* the first-pass and the second-pass match agree on every opcode: same operand length, labels
   created for exactly the branch reads *)
Definition agree_top (op : N) : bool :=
  match pass2_entry op, pass1_class op with
  | P2 _ [RBr16], OBr16 => true
  | P2 _ [RBr32], OBr32 => true
  | P2 _ rs, OFixed k => no_br rs && (reads_len rs =? k)
  | P2Short _ _, OFixed 0 => true
  | P2Wide, OWide => true
  | P2TSwitch, OTSwitch => true
  | P2LSwitch, OLSwitch => true
  | P2Bad, OBad => true
  | _, _ => false
  end.
Definition agree_wide (op : N) : bool :=
  match pass2_wide_entry op, pass1_wide op with
  | P2 _ rs, Some k => no_br rs && (reads_len rs =? k)
  | P2Bad, None => true
  | _, _ => false
  end.
Definition range256 : list N := map N.of_nat (seq 0 256).

Lemma tables_agree_256 : forallb agree_top range256 && forallb agree_wide range256 = true.
Proof. vm_compute. reflexivity. Qed.

Lemma in_range256 op : op < 256 -> In op range256.
Proof.
  intros H. unfold range256. apply in_map_iff. exists (N.to_nat op). split; [lia|].
  apply in_seq. lia.
Qed.

Lemma tables_length : length pass1_table = 256%nat /\ length pass1_wide_table = 256%nat
  /\ length pass2_table = 256%nat /\ length pass2_wide_table = 256%nat.
Proof. repeat split; reflexivity. Qed.

Lemma agree_top_all op : agree_top op = true.
Proof.
  destruct (N.ltb_spec op 256) as [H|H].
  - pose proof tables_agree_256 as T. apply andb_true_iff in T. destruct T as [T _].
    rewrite forallb_forall in T. apply T. apply in_range256. exact H.
  - unfold agree_top, pass2_entry, pass1_class.
    destruct tables_length as (L1 & _ & L2 & _).
    rewrite (nth_overflow pass2_table) by (rewrite L2; lia).
    rewrite (nth_overflow pass1_table) by (rewrite L1; lia). reflexivity.
Qed.
Lemma agree_wide_all op : agree_wide op = true.
Proof.
  destruct (N.ltb_spec op 256) as [H|H].
  - pose proof tables_agree_256 as T. apply andb_true_iff in T. destruct T as [_ T].
    rewrite forallb_forall in T. apply T. apply in_range256. exact H.
  - unfold agree_wide, pass2_wide_entry, pass1_wide.
    destruct tables_length as (_ & L1 & _ & L2).
    rewrite (nth_overflow pass2_wide_table) by (rewrite L2; lia).
    rewrite (nth_overflow pass1_wide_table) by (rewrite L1; lia). reflexivity.
Qed.

(* ---------------------------------------------------------------------------------------------- *)
(* small facts *)
Lemma skip_res_app (a t : bytes) k : N.of_nat (length a) = k -> skip_res k (a ++ t) = Ok t.
Proof.
  intros <-. unfold skip_res. rewrite Nnat.Nat2N.id.
  induction a as [|x a IH]; [reflexivity|]. cbn [length skip_nat app]. exact IH.
Qed.

Lemma skip_res_0 (t : bytes) : skip_res 0 t = Ok t.
Proof. apply (skip_res_app [] t 0). reflexivity. Qed.

Lemma br_target_rel posf pos t :
  posf t < 65536 -> br_target pos (rel_off posf pos t) = Ok (posf t).
Proof.
  intros H. unfold br_target, rel_off.
  replace (Z.of_N pos + (Z.of_N (posf t) - Z.of_N pos))%Z with (Z.of_N (posf t)) by lia.
  destruct (Z.leb_spec 0 (Z.of_N (posf t))); [|lia].
  destruct (Z.ltb_spec (Z.of_N (posf t)) 65536); [|lia].
  cbn [andb]. rewrite N2Z.id. reflexivity.
Qed.

Lemma enc_op_length posf pos r o b : enc_op posf pos r o = Some b -> N.of_nat (length b) = rd_len r.
Proof.
  unfold enc_op. intros H.
  destruct r, o; try discriminate;
    repeat match type of H with
           | (if ?c then _ else _) = Some _ => destruct c; [|discriminate]
           end; injection H as <-; reflexivity.
Qed.

Lemma enc_ops_length posf pos rs : forall fill ops b,
  enc_ops posf pos fill rs ops = Some b -> N.of_nat (length b) = reads_len rs.
Proof.
  induction rs as [|r rs IH]; intros fill ops b H.
  - cbn [enc_ops] in H. destruct ops; [|discriminate]. injection H as <-. reflexivity.
  - cbn [reads_len].
    assert (G : forall ops b, (match ops with
              | o :: ops' => match enc_op posf pos r o, enc_ops posf pos fill rs ops' with
                             | Some a, Some b => Some (a ++ b) | _, _ => None end
              | [] => None end) = Some b -> N.of_nat (length b) = rd_len r + reads_len rs).
    { clear H ops b. intros ops b H. destruct ops as [|o ops']; [discriminate|].
      destruct (enc_op posf pos r o) as [a|] eqn:Ea; [|discriminate].
      destruct (enc_ops posf pos fill rs ops') as [b'|] eqn:Eb; [|discriminate].
      injection H as <-. rewrite app_length, Nnat.Nat2N.inj_add.
      rewrite (enc_op_length _ _ _ _ _ Ea), (IH _ _ _ Eb). reflexivity. }
    destruct r; try (apply (G ops b); exact H).
    (* RSkip8 *)
    cbn [enc_ops] in H. destruct (enc_ops posf pos (tl fill) rs ops) as [b'|] eqn:Eb; [|discriminate].
    injection H as <-. cbn [length rd_len]. rewrite Nnat.Nat2N.inj_succ, (IH _ _ _ Eb). lia.
Qed.

Lemma enc_op_nobr_targets posf pos r o b :
  enc_op posf pos r o = Some b -> is_br r = false -> op_targets o = [].
Proof. destruct r, o; cbn; intros; try reflexivity; discriminate. Qed.

Lemma enc_ops_nobr_targets posf pos rs : forall fill ops b,
  enc_ops posf pos fill rs ops = Some b -> no_br rs = true -> flat_map op_targets ops = [].
Proof.
  induction rs as [|r rs IH]; intros fill ops b H NB.
  - cbn [enc_ops] in H. destruct ops; [reflexivity|discriminate].
  - cbn [no_br forallb] in NB. apply andb_true_iff in NB. destruct NB as [NB1 NB2].
    apply negb_true_iff in NB1.
    assert (G : (match ops with
              | o :: ops' => match enc_op posf pos r o, enc_ops posf pos fill rs ops' with
                             | Some a, Some b => Some (a ++ b) | _, _ => None end
              | [] => None end) = Some b -> flat_map op_targets ops = []).
    { intros H'. destruct ops as [|o ops']; [discriminate|].
      destruct (enc_op posf pos r o) as [a|] eqn:Ea; [|discriminate].
      destruct (enc_ops posf pos fill rs ops') as [b'|] eqn:Eb; [|discriminate].
      cbn [flat_map]. rewrite (enc_op_nobr_targets _ _ _ _ _ Ea NB1). cbn [app].
      apply (IH _ _ _ Eb NB2). }
    destruct r; try (apply G; exact H).
    cbn [enc_ops] in H. destruct (enc_ops posf pos (tl fill) rs ops) as [b'|] eqn:Eb; [|discriminate].
    apply (IH _ _ _ Eb NB2).
Qed.

(* ---------------------------------------------------------------------------------------------- *)
(* pass 2 on the operands *)
Lemma dec_ops_enc_ops posf ls pos rs : forall fill ops b tail,
  enc_ops posf pos fill rs ops = Some b ->
  (forall t, In t (flat_map op_targets ops) -> posf t < 65536 /\ lbl_get ls (posf t) = true) ->
  dec_ops ls pos rs (b ++ tail) = Ok (map (map_op posf) ops, tail).
Proof.
  induction rs as [|r rs IH]; intros fill ops b tail H HT.
  - cbn [enc_ops] in H. destruct ops; [|discriminate]. injection H as <-. reflexivity.
  - destruct r.
    all: try (cbn [enc_ops] in H; destruct ops as [|o ops']; [discriminate|];
      destruct (enc_op posf pos _ o) as [a|] eqn:Ea; [|discriminate];
      destruct (enc_ops posf pos fill rs ops') as [b'|] eqn:Eb; [|discriminate];
      injection H as <-;
      assert (HT' : forall t, In t (flat_map op_targets ops') -> posf t < 65536 /\ lbl_get ls (posf t) = true)
        by (intros t Ht; apply HT; cbn [flat_map]; apply in_or_app; right; exact Ht);
      specialize (IH _ _ _ tail Eb HT'); rewrite <- app_assoc;
      unfold enc_op in Ea; destruct o as [n|z|t|k' n]; try discriminate).
    + (* RU8 *) destruct (n <? 256); [|discriminate]. injection Ea as <-.
      cbn [dec_ops app rd_u8 bind]. rewrite IH. reflexivity.
    + (* RI8 *) destruct (fits8 z) eqn:F; [|discriminate]. injection Ea as <-.
      cbn [dec_ops app]. rewrite (rd_i8_u8 _ _ F). cbn [bind]. rewrite IH. reflexivity.
    + (* RI16 *) destruct (fits16 z) eqn:F; [|discriminate]. injection Ea as <-.
      cbn [dec_ops]. rewrite (rd_i16_bei16 _ _ F). cbn [bind]. rewrite IH. reflexivity.
    + (* RLv8 *) destruct (n <? 256); [|discriminate]. injection Ea as <-.
      cbn [dec_ops app rd_u8 bind]. rewrite IH. reflexivity.
    + (* RLv16 *) destruct (n <? 65536); [|discriminate]. injection Ea as <-.
      cbn [dec_ops]. rewrite rd_u16_be16. cbn [bind]. rewrite IH. reflexivity.
    + (* RBr16 *) destruct (fits16 (rel_off posf pos t)) eqn:F; [|discriminate]. injection Ea as <-.
      destruct (HT t) as [Hlt Hin]; [cbn [flat_map op_targets]; left; reflexivity|].
      cbn [dec_ops]. rewrite (rd_i16_bei16 _ _ F). cbn [bind].
      rewrite (br_target_rel _ _ _ Hlt). cbn [bind]. unfold try_get. rewrite Hin. cbn [bind].
      rewrite IH. reflexivity.
    + (* RBr32 *) destruct (fits32 (rel_off posf pos t)) eqn:F; [|discriminate]. injection Ea as <-.
      destruct (HT t) as [Hlt Hin]; [cbn [flat_map op_targets]; left; reflexivity|].
      cbn [dec_ops]. rewrite (rd_i32_bei32 _ _ F). cbn [bind].
      rewrite (br_target_rel _ _ _ Hlt). cbn [bind]. unfold try_get. rewrite Hin. cbn [bind].
      rewrite IH. reflexivity.
    + (* RSkip8 *) cbn [enc_ops] in H.
      destruct (enc_ops posf pos (tl fill) rs ops) as [b'|] eqn:Eb; [|discriminate]. injection H as <-.
      cbn [dec_ops app rd_u8 bind]. apply (IH _ _ _ tail Eb HT).
    + (* RAtype *) destruct (mem_N n atypes) eqn:M; [|discriminate]. injection Ea as <-.
      cbn [dec_ops app rd_u8 bind]. rewrite M, IH. reflexivity.
    + (* RCp8 *) destruct (N.eqb_spec kind k') as [->|]; [|discriminate].
      destruct (n <? 256); [|discriminate]. injection Ea as <-.
      cbn [dec_ops app rd_u8 bind]. rewrite IH. reflexivity.
    + (* RCp16 *) destruct (N.eqb_spec kind k') as [->|]; [|discriminate].
      destruct (n <? 65536); [|discriminate]. injection Ea as <-.
      cbn [dec_ops]. rewrite rd_u16_be16. cbn [bind]. rewrite IH. reflexivity.
Qed.

(* ---------------------------------------------------------------------------------------------- *)
(* labels *)
Lemma lbl_create_ok clen ls t : t < clen -> lbl_create clen ls t = Ok (lbl_add ls t).
Proof. intros H. unfold lbl_create. apply N.ltb_lt in H. rewrite H. reflexivity. Qed.

(* switch arms *)
Lemma arms_length posf pos (tbl : list nat) :
  length (flat_map (fun t => bei32 (rel_off posf pos t)) tbl) = (4 * length tbl)%nat.
Proof. induction tbl as [|t tbl IH]; [reflexivity|]. cbn [flat_map length]. rewrite app_length, IH. cbn. lia. Qed.
Lemma pairs_length posf pos (ps : list (Z * nat)) :
  length (flat_map (fun p => bei32 (fst p) ++ bei32 (rel_off posf pos (snd p))) ps) = (8 * length ps)%nat.
Proof. induction ps as [|p ps IH]; [reflexivity|]. cbn [flat_map length]. rewrite !app_length, IH. cbn. lia. Qed.

Lemma scan_arms_enc posf clen pos : forall (tbl : list nat) tail ls,
  all_fit32 (map (rel_off posf pos) tbl) = true ->
  (forall t, In t tbl -> posf t < clen) -> clen <= 65536 ->
  scan_arms clen pos (length tbl) (flat_map (fun t => bei32 (rel_off posf pos t)) tbl ++ tail) ls
  = Ok (tail, fold_left lbl_add (map posf tbl) ls).
Proof.
  induction tbl as [|t tbl IH]; intros tail ls F HT HC; [reflexivity|].
  cbn [map all_fit32 forallb] in F. apply andb_true_iff in F. destruct F as [F1 F2].
  cbn [length scan_arms flat_map]. rewrite <- app_assoc, (rd_i32_bei32 _ _ F1). cbn [bind].
  assert (Ht : posf t < clen) by (apply HT; left; reflexivity).
  rewrite br_target_rel by lia. cbn [bind]. rewrite (lbl_create_ok _ _ _ Ht). cbn [bind map fold_left].
  apply IH; [exact F2| |exact HC]. intros t' Ht'. apply HT. right. exact Ht'.
Qed.

Lemma scan_pairs_enc posf clen pos : forall (ps : list (Z * nat)) tail ls,
  all_fit32 (map fst ps) = true ->
  all_fit32 (map (rel_off posf pos) (map snd ps)) = true ->
  (forall t, In t (map snd ps) -> posf t < clen) -> clen <= 65536 ->
  scan_pairs clen pos (length ps) (flat_map (fun p => bei32 (fst p) ++ bei32 (rel_off posf pos (snd p))) ps ++ tail) ls
  = Ok (tail, fold_left lbl_add (map posf (map snd ps)) ls).
Proof.
  induction ps as [|[key t] ps IH]; intros tail ls K F HT HC; [reflexivity|].
  cbn [map all_fit32 forallb fst snd] in K, F. apply andb_true_iff in K, F. destruct K as [K1 K2], F as [F1 F2].
  cbn [length scan_pairs flat_map fst snd]. rewrite <- !app_assoc, (rd_i32_bei32 _ _ K1). cbn [bind].
  rewrite (rd_i32_bei32 _ _ F1). cbn [bind].
  assert (Ht : posf t < clen) by (apply HT; left; reflexivity).
  rewrite br_target_rel by lia. cbn [bind]. rewrite (lbl_create_ok _ _ _ Ht). cbn [bind map fold_left snd].
  apply IH; [exact K2|exact F2| |exact HC]. intros t' Ht'. apply HT. right. exact Ht'.
Qed.

Lemma dec_arms_enc posf ls pos : forall (tbl : list nat) tail,
  all_fit32 (map (rel_off posf pos) tbl) = true ->
  (forall t, In t tbl -> posf t < 65536 /\ lbl_get ls (posf t) = true) ->
  dec_arms ls pos (length tbl) (flat_map (fun t => bei32 (rel_off posf pos t)) tbl ++ tail)
  = Ok (map posf tbl, tail).
Proof.
  induction tbl as [|t tbl IH]; intros tail F HT; [reflexivity|].
  cbn [map all_fit32 forallb] in F. apply andb_true_iff in F. destruct F as [F1 F2].
  cbn [length dec_arms flat_map]. rewrite <- app_assoc, (rd_i32_bei32 _ _ F1). cbn [bind].
  destruct (HT t) as [Hlt Hin]; [left; reflexivity|].
  rewrite (br_target_rel _ _ _ Hlt). cbn [bind]. unfold try_get at 1. rewrite Hin. cbn [bind].
  rewrite IH; [reflexivity|exact F2|]. intros t' Ht'. apply HT. right. exact Ht'.
Qed.

Lemma dec_pairs_enc posf ls pos : forall (ps : list (Z * nat)) tail,
  all_fit32 (map fst ps) = true ->
  all_fit32 (map (rel_off posf pos) (map snd ps)) = true ->
  (forall t, In t (map snd ps) -> posf t < 65536 /\ lbl_get ls (posf t) = true) ->
  dec_pairs ls pos (length ps) (flat_map (fun p => bei32 (fst p) ++ bei32 (rel_off posf pos (snd p))) ps ++ tail)
  = Ok (map (fun p => (fst p, posf (snd p))) ps, tail).
Proof.
  induction ps as [|[key t] ps IH]; intros tail K F HT; [reflexivity|].
  cbn [map all_fit32 forallb fst snd] in K, F. apply andb_true_iff in K, F. destruct K as [K1 K2], F as [F1 F2].
  cbn [length dec_pairs flat_map fst snd]. rewrite <- !app_assoc, (rd_i32_bei32 _ _ K1). cbn [bind].
  rewrite (rd_i32_bei32 _ _ F1). cbn [bind].
  destruct (HT t) as [Hlt Hin]; [left; reflexivity|].
  rewrite (br_target_rel _ _ _ Hlt). cbn [bind]. unfold try_get at 1. rewrite Hin. cbn [bind].
  rewrite IH; [reflexivity|exact K2|exact F2|]. intros t' Ht'. apply HT. right. exact Ht'.
Qed.

Lemma Some_inj {A} (a b : A) : Some a = Some b -> a = b.
Proof. congruence. Qed.

Lemma pad_of_lt pos : pad_of pos < 4.
Proof. unfold pad_of. generalize (pos mod 4). intros x. lia. Qed.

(* ---------------------------------------------------------------------------------------------- *)
(* one instruction: length of its encoding *)
Lemma pad_bytes_length fill n : length (pad_bytes fill n) = n.
Proof. unfold pad_bytes. rewrite firstn_length, app_length, repeat_length. lia. Qed.
Lemma enc1_length posf pos c i b : enc1 posf pos c i = Some b -> N.of_nat (length b) = size c pos i.
Proof.
  unfold enc1, size. destruct i as [ctor ops|d lo hi tbl|d ps].
  - destruct (c_form c) as [op|op].
    + destruct (pass2_entry op) as [ctor' rs|ctor' idx| | | |]; try discriminate.
      * destruct (ctor' =? ctor); [|discriminate].
        destruct (enc_ops posf pos (c_fill c) rs ops) as [b'|] eqn:E; [|discriminate].
        intros [= <-]. cbn [length p2_len]. rewrite Nnat.Nat2N.inj_succ, (enc_ops_length _ _ _ _ _ _ E). lia.
      * destruct ops as [|[n| | |] [|]]; try discriminate.
        destruct ((ctor' =? ctor) && (n =? idx)); [|discriminate]. intros [= <-]. reflexivity.
    + destruct (pass2_wide_entry op) as [ctor' rs|ctor' idx| | | |]; try discriminate.
      destruct (ctor' =? ctor); [|discriminate].
      destruct (enc_ops posf pos (c_fill c) rs ops) as [b'|] eqn:E; [|discriminate].
      intros [= <-]. cbn [length p2_len]. rewrite !Nnat.Nat2N.inj_succ, (enc_ops_length _ _ _ _ _ _ E). lia.
  - match goal with |- (if ?c then _ else _) = _ -> _ => destruct c; [|discriminate] end.
    intros H. apply Some_inj in H. subst b. cbn [length]. rewrite !app_length, pad_bytes_length, arms_length.
    cbn [bei32 be32 length]. lia.
  - match goal with |- (if ?c then _ else _) = _ -> _ => destruct c; [|discriminate] end.
    intros H. apply Some_inj in H. subst b. cbn [length]. rewrite !app_length, pad_bytes_length, pairs_length.
    cbn [bei32 be32 length]. lia.
Qed.

Lemma size_pos c pos i : 1 <= size c pos i.
Proof. unfold size. destruct i; [destruct (c_form c)|..]; lia. Qed.

(* the facts about the three fixed opcodes that the model needs, read off the generated tables *)
Lemma wide_entries : pass2_entry op_WIDE = P2Wide /\ pass1_class op_WIDE = OWide.
Proof. split; reflexivity. Qed.
Lemma tswitch_entries : pass2_entry op_TABLESWITCH = P2TSwitch /\ pass1_class op_TABLESWITCH = OTSwitch.
Proof. split; reflexivity. Qed.
Lemma lswitch_entries : pass2_entry op_LOOKUPSWITCH = P2LSwitch /\ pass1_class op_LOOKUPSWITCH = OLSwitch.
Proof. split; reflexivity. Qed.

Lemma repeat_skip fill pos (rest : bytes) :
  skip_res (pad_of pos) (pad_bytes fill (N.to_nat (pad_of pos)) ++ rest) = Ok rest.
Proof. apply skip_res_app. rewrite pad_bytes_length. lia. Qed.

(* ---------------------------------------------------------------------------------------------- *)
Ltac fin3 := match goal with |- Ok (?a, ?t, ?l) = Ok (?b, ?t, ?l) => replace a with b by lia; reflexivity end.

(* PASS 1 on one encoded instruction *)
Lemma scan1_enc1 posf clen pos c i b tail ls :
  enc1 posf pos c i = Some b ->
  (forall t, In t (targets i) -> posf t < clen) -> clen <= 65536 ->
  scan1 clen pos (b ++ tail) ls = Ok (pos + size c pos i, tail, fold_left lbl_add (map posf (targets i)) ls).
Proof.
  intros H HT HC. unfold enc1 in H. unfold size. destruct i as [ctor ops|d lo hi tbl|d ps].
  - destruct (c_form c) as [op|op].
    + pose proof (agree_top_all op) as A. unfold agree_top in A.
      destruct (pass2_entry op) as [ctor' rs|ctor' idx| | | |] eqn:E2; try discriminate.
      * destruct (ctor' =? ctor); [|discriminate].
        destruct (enc_ops posf pos (c_fill c) rs ops) as [b'|] eqn:E; [|discriminate].
        apply Some_inj in H; subst b. cbn [app scan1 p2_len targets].
        destruct (pass1_class op) as [k| | | | | |] eqn:E1.
        -- (* fixed *)
           assert (A' : no_br rs && (reads_len rs =? k) = true).
           { destruct rs as [|[] [|? ?]]; exact A. }
           apply andb_true_iff in A'. destruct A' as [NB LK]. apply N.eqb_eq in LK. subst k.
           rewrite (skip_res_app b' tail _ (enc_ops_length _ _ _ _ _ _ E)). cbn [bind].
           rewrite (enc_ops_nobr_targets _ _ _ _ _ _ E NB). cbn [map fold_left].
           fin3.
        -- destruct rs as [|[] [|? ?]]; discriminate.
        -- (* br16 *)
           destruct rs as [|[] [|? ?]]; try discriminate.
           cbn [enc_ops] in E. destruct ops as [|o ops']; [discriminate|].
           destruct (enc_op posf pos RBr16 o) as [a|] eqn:Ea; [|discriminate].
           destruct ops'; [|discriminate]. injection E as <-.
           unfold enc_op in Ea. destruct o as [| |t|]; try discriminate.
           destruct (fits16 (rel_off posf pos t)) eqn:F; [|discriminate]. injection Ea as <-.
           rewrite app_nil_r, (rd_i16_bei16 _ _ F). cbn [bind].
           assert (Ht : posf t < clen) by (apply HT; cbn; left; reflexivity).
           rewrite br_target_rel by lia. cbn [bind]. rewrite (lbl_create_ok _ _ _ Ht).
           cbn [bind flat_map op_targets app map fold_left reads_len rd_len].
           fin3.
        -- (* br32 *)
           destruct rs as [|[] [|? ?]]; try discriminate.
           cbn [enc_ops] in E. destruct ops as [|o ops']; [discriminate|].
           destruct (enc_op posf pos RBr32 o) as [a|] eqn:Ea; [|discriminate].
           destruct ops'; [|discriminate]. injection E as <-.
           unfold enc_op in Ea. destruct o as [| |t|]; try discriminate.
           destruct (fits32 (rel_off posf pos t)) eqn:F; [|discriminate]. injection Ea as <-.
           rewrite app_nil_r, (rd_i32_bei32 _ _ F). cbn [bind].
           assert (Ht : posf t < clen) by (apply HT; cbn; left; reflexivity).
           rewrite br_target_rel by lia. cbn [bind]. rewrite (lbl_create_ok _ _ _ Ht).
           cbn [bind flat_map op_targets app map fold_left reads_len rd_len].
           fin3.
        -- destruct rs as [|[] [|? ?]]; discriminate.
        -- destruct rs as [|[] [|? ?]]; discriminate.
        -- destruct rs as [|[] [|? ?]]; discriminate.
      * destruct ops as [|[n| | |] [|]]; try discriminate.
        destruct ((ctor' =? ctor) && (n =? idx)); [|discriminate]. apply Some_inj in H; subst b.
        cbn [app scan1 p2_len targets flat_map op_targets map fold_left].
        destruct (pass1_class op) as [k| | | | | |]; try discriminate.
        destruct k; [|discriminate]. rewrite skip_res_0. cbn [bind]. fin3.
    + pose proof (agree_wide_all op) as A. unfold agree_wide in A.
      destruct (pass2_wide_entry op) as [ctor' rs|ctor' idx| | | |] eqn:E2; try discriminate.
      destruct (ctor' =? ctor); [|discriminate].
      destruct (enc_ops posf pos (c_fill c) rs ops) as [b'|] eqn:E; [|discriminate].
      apply Some_inj in H; subst b. cbn [app scan1 p2_len targets].
      destruct wide_entries as [_ W]. rewrite W.
      destruct (pass1_wide op) as [k|]; [|discriminate].
      apply andb_true_iff in A. destruct A as [NB LK]. apply N.eqb_eq in LK. subst k.
      rewrite (skip_res_app b' tail _ (enc_ops_length _ _ _ _ _ _ E)). cbn [bind].
      rewrite (enc_ops_nobr_targets _ _ _ _ _ _ E NB). cbn [map fold_left].
      fin3.
  - (* tableswitch *)
    match type of H with (if ?c then _ else _) = _ => destruct c eqn:C; [|discriminate] end.
    apply Some_inj in H; subst b.
    repeat (apply andb_true_iff in C; destruct C as [C ?C]).
    cbn [map all_fit32 forallb] in C0. apply andb_true_iff in C0. destruct C0 as [Fd Ft].
    apply Z.leb_le in C. apply Z.eqb_eq in C3.
    cbn [app scan1]. destruct tswitch_entries as [_ W]. rewrite W.
    rewrite <- !app_assoc, repeat_skip. cbn [bind].
    rewrite (rd_i32_bei32 _ _ Fd). cbn [bind].
    assert (Hd : posf d < clen) by (apply HT; cbn; left; reflexivity).
    rewrite br_target_rel by lia. cbn [bind]. rewrite (lbl_create_ok _ _ _ Hd). cbn [bind].
    rewrite (rd_i32_bei32 _ _ C2). cbn [bind]. rewrite (rd_i32_bei32 _ _ C1). cbn [bind].
    destruct (Z.gtb_spec lo hi) as [G|G]; [lia|].
    assert (CO : count_ok (hi - lo + 1) 4 (flat_map (fun t => bei32 (rel_off posf pos t)) tbl ++ tail) = true).
    { unfold count_ok. rewrite app_length, arms_length. apply andb_true_iff. split; [apply Z.leb_le|apply Z.leb_le]; lia. }
    rewrite CO. rewrite <- C3, Nat2Z.id.
    rewrite (scan_arms_enc posf clen pos tbl tail _ Ft); [| |exact HC].
    + cbn [bind targets map fold_left]. fin3.
    + intros t Ht. apply HT. cbn. right. exact Ht.
  - (* lookupswitch *)
    match type of H with (if ?c then _ else _) = _ => destruct c eqn:C; [|discriminate] end.
    apply Some_inj in H; subst b.
    apply andb_true_iff in C. destruct C as [C C0]. apply andb_true_iff in C. destruct C as [C C1].
    cbn [map all_fit32 forallb] in C0. apply andb_true_iff in C0. destruct C0 as [Fd Ft].
    cbn [app scan1]. destruct lswitch_entries as [_ W]. rewrite W.
    rewrite <- !app_assoc, repeat_skip. cbn [bind].
    rewrite (rd_i32_bei32 _ _ Fd). cbn [bind].
    assert (Hd : posf d < clen) by (apply HT; cbn; left; reflexivity).
    rewrite br_target_rel by lia. cbn [bind]. rewrite (lbl_create_ok _ _ _ Hd). cbn [bind].
    rewrite (rd_i32_bei32 _ _ C). cbn [bind].
    assert (CO : count_ok (Z.of_nat (length ps)) 8
                 (flat_map (fun p => bei32 (fst p) ++ bei32 (rel_off posf pos (snd p))) ps ++ tail) = true).
    { unfold count_ok. rewrite app_length, pairs_length. apply andb_true_iff. split; [apply Z.leb_le|apply Z.leb_le]; lia. }
    rewrite CO, Nat2Z.id.
    rewrite (scan_pairs_enc posf clen pos ps tail _ C1 Ft); [| |exact HC].
    + cbn [bind targets map fold_left]. fin3.
    + intros t Ht. apply HT. cbn. right. exact Ht.
Qed.

(* ---------------------------------------------------------------------------------------------- *)
(* PASS 2 on one encoded instruction *)
Ltac fin2 := match goal with |- Ok (?x, ?a, ?t) = Ok (?x, ?b, ?t) => replace a with b by lia; reflexivity end.
Lemma dec1_enc1 posf ls pos c i b tail :
  enc1 posf pos c i = Some b ->
  (forall t, In t (targets i) -> posf t < 65536 /\ lbl_get ls (posf t) = true) ->
  dec1 ls pos (b ++ tail) = Ok (map_insn posf i, pos + size c pos i, tail).
Proof.
  intros H HT. unfold enc1 in H. unfold size. destruct i as [ctor ops|d lo hi tbl|d ps].
  - destruct (c_form c) as [op|op].
    + destruct (pass2_entry op) as [ctor' rs|ctor' idx| | | |] eqn:E2; try discriminate.
      * destruct (N.eqb_spec ctor' ctor) as [->|]; [|discriminate].
        destruct (enc_ops posf pos (c_fill c) rs ops) as [b'|] eqn:E; [|discriminate].
        apply Some_inj in H; subst b. cbn [app dec1 p2_len]. rewrite E2. unfold dec_entry.
        rewrite (dec_ops_enc_ops _ _ _ _ _ _ _ tail E HT). cbn [bind map_insn].
        fin2.
      * destruct ops as [|[n| | |] [|]]; try discriminate.
        destruct (N.eqb_spec ctor' ctor) as [->|]; [|discriminate].
        destruct (N.eqb_spec n idx) as [->|]; [|discriminate]. cbn [andb] in H.
        apply Some_inj in H; subst b. cbn [app dec1 p2_len]. rewrite E2. unfold dec_entry.
        cbn [map_insn map map_op]. fin2.
    + destruct (pass2_wide_entry op) as [ctor' rs|ctor' idx| | | |] eqn:E2; try discriminate.
      destruct (N.eqb_spec ctor' ctor) as [->|]; [|discriminate].
      destruct (enc_ops posf pos (c_fill c) rs ops) as [b'|] eqn:E; [|discriminate].
      apply Some_inj in H; subst b. cbn [app dec1 p2_len].
      destruct wide_entries as [W _]. rewrite W, E2. unfold dec_entry.
      rewrite (dec_ops_enc_ops _ _ _ _ _ _ _ tail E HT). cbn [bind map_insn]. fin2.
  - (* tableswitch *)
    match type of H with (if ?c then _ else _) = _ => destruct c eqn:C; [|discriminate] end.
    apply Some_inj in H; subst b.
    repeat (apply andb_true_iff in C; destruct C as [C ?C]).
    cbn [map all_fit32 forallb] in C0. apply andb_true_iff in C0. destruct C0 as [Fd Ft].
    apply Z.leb_le in C. apply Z.eqb_eq in C3.
    cbn [app dec1]. destruct tswitch_entries as [W _]. rewrite W.
    rewrite <- !app_assoc, repeat_skip. cbn [bind].
    rewrite (rd_i32_bei32 _ _ Fd). cbn [bind].
    destruct (HT d) as [Hlt Hin]; [cbn; left; reflexivity|].
    rewrite (br_target_rel _ _ _ Hlt). cbn [bind]. unfold try_get at 1. rewrite Hin. cbn [bind].
    rewrite (rd_i32_bei32 _ _ C2). cbn [bind]. rewrite (rd_i32_bei32 _ _ C1). cbn [bind].
    destruct (Z.gtb_spec lo hi) as [G|G]; [lia|].
    assert (CO : count_ok (hi - lo + 1) 4 (flat_map (fun t => bei32 (rel_off posf pos t)) tbl ++ tail) = true).
    { unfold count_ok. rewrite app_length, arms_length. apply andb_true_iff. split; [apply Z.leb_le|apply Z.leb_le]; lia. }
    rewrite CO. rewrite <- C3, Nat2Z.id.
    rewrite (dec_arms_enc posf ls pos tbl tail Ft).
    + cbn [bind map_insn]. fin2.
    + intros t Ht. apply HT. cbn. right. exact Ht.
  - (* lookupswitch *)
    match type of H with (if ?c then _ else _) = _ => destruct c eqn:C; [|discriminate] end.
    apply Some_inj in H; subst b.
    apply andb_true_iff in C. destruct C as [C C0]. apply andb_true_iff in C. destruct C as [C C1].
    cbn [map all_fit32 forallb] in C0. apply andb_true_iff in C0. destruct C0 as [Fd Ft].
    cbn [app dec1]. destruct lswitch_entries as [W _]. rewrite W.
    rewrite <- !app_assoc, repeat_skip. cbn [bind].
    rewrite (rd_i32_bei32 _ _ Fd). cbn [bind].
    destruct (HT d) as [Hlt Hin]; [cbn; left; reflexivity|].
    rewrite (br_target_rel _ _ _ Hlt). cbn [bind]. unfold try_get at 1. rewrite Hin. cbn [bind].
    rewrite (rd_i32_bei32 _ _ C). cbn [bind].
    assert (CO : count_ok (Z.of_nat (length ps)) 8
                 (flat_map (fun p => bei32 (fst p) ++ bei32 (rel_off posf pos (snd p))) ps ++ tail) = true).
    { unfold count_ok. rewrite app_length, pairs_length. apply andb_true_iff. split; [apply Z.leb_le|apply Z.leb_le]; lia. }
    rewrite CO, Nat2Z.id.
    rewrite (dec_pairs_enc posf ls pos ps tail C1 Ft).
    + cbn [bind map_insn]. fin2.
    + intros t Ht. apply HT. cbn. right. exact Ht.
Qed.
