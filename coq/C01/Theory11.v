(* C01 — theory, part 11: the Code attribute inside the class file, composed with the code-array
   theorems.  If the code array of a method is the encoding of a body under a choice function and
   the label-carrying tables of its Code attribute (exception table, LineNumberTable,
   LocalVariable(Type)Table, StackMapTable offsets and Uninitialized offsets, type-annotation
   targets) point at instructions through the layout of that encoding, then what the class reader
   builds for the method is: the instructions of the body with their targets, labels exactly on the
   referenced instructions, every table position turned into the index of the instruction it was
   built from. *)
From FB Require Import C01.Bytes C01.Model C01.Pool C01.Resolve C01.Fmt C01.Formats C01.ClassFile
  C01.Theory2 C01.Theory3 C01.Theory4.
Arguments N.add : simpl never.
Arguments N.mul : simpl never.

(* induction over values *)
Fixpoint val_ind' (P : val -> Prop)
  (H0 : forall v, (match v with VSeq _ | VList _ | VTag _ _ | VAttr _ _ => False | _ => True end) -> P v)
  (HS : forall l, Forall P l -> P (VSeq l)) (HL : forall l, Forall P l -> P (VList l))
  (HT : forall t v, P v -> P (VTag t v)) (HA : forall n v, P v -> P (VAttr n v))
  (v : val) {struct v} : P v :=
  let go := fix go (l : list val) : Forall P l :=
              match l with [] => Forall_nil _ | x :: l' => Forall_cons x (val_ind' P H0 HS HL HT HA x) (go l') end in
  match v with
  | VSeq l => HS l (go l)
  | VList l => HL l (go l)
  | VTag t v' => HT t v' (val_ind' P H0 HS HL HT HA v')
  | VAttr n v' => HA n v' (val_ind' P H0 HS HL HT HA v')
  | VN n => H0 (VN n) I | VC c => H0 (VC c) I | VO o => H0 (VO o) I | VIx i c => H0 (VIx i c) I
  | VB x => H0 (VB x) I | VS x => H0 (VS x) I | VPc k x => H0 (VPc k x) I | VRange a l => H0 (VRange a l) I
  | VAt k => H0 (VAt k) I | VSpan a c => H0 (VSpan a c) I
  end.

Lemma map_pcs_ext (f g : N -> option nat) : (forall pc, f pc = g pc) -> forall v, map_pcs f v = map_pcs g v.
Proof.
  intros E. induction v using val_ind'.
  - destruct v; try contradiction; cbn [map_pcs]; rewrite ?E; reflexivity.
  - cbn [map_pcs]. f_equal. induction H as [|x l Hx Hl IH]; [reflexivity|]. cbn [map]. rewrite Hx, IH. reflexivity.
  - cbn [map_pcs]. f_equal. induction H as [|x l Hx Hl IH]; [reflexivity|]. cbn [map]. rewrite Hx, IH. reflexivity.
  - cbn [map_pcs]. rewrite IHv. reflexivity.
  - cbn [map_pcs]. rewrite IHv. reflexivity.
Qed.
Lemma map_map_pcs_ext (f g : N -> option nat) (h : val -> val) : (forall pc, f pc = g pc) ->
  forall l, map (fun v => map_pcs f (h v)) l = map (fun v => map_pcs g (h v)) l.
Proof. intros E l. apply map_ext. intros v. apply map_pcs_ext. exact E. Qed.

(* the label of a bytecode offset, by the layout of the encoding *)
Definition ix_of_layout (ch : nat -> choice) (body : list (ainsn nat)) (pc : N) : option nat :=
  index_of pc (layout ch body) 0.
Lemma ix_of_layout_designates ch body k : (k <= length body)%nat ->
  ix_of_layout ch body (posf_of (layout ch body) k) = Some k.
Proof. apply offset_designates. Qed.

(* the first half of read_encode: what read_code_raw returns *)
Lemma read_code_raw_encode ch body bs t :
  encode ch body = Some bs -> body <> [] -> N.of_nat (length bs) <= 65535 ->
  targets_ok body -> tables_ok (length body) t ->
  exists ls, read_code_raw (code_in_of (posf_of (layout ch body)) t bs)
    = Ok {| cr_insns := combine (starts_from ch 0 0 body) (map (map_insn (posf_of (layout ch body))) body);
            cr_labels := ls; cr_clen := N.of_nat (length bs);
            cr_frames := map (posf_of (layout ch body)) (t_frames t) |}.
Proof.
  intros HE HNE HL HT HTab.
  set (posf := posf_of (layout ch body)). set (n := length body). set (clen := N.of_nat (length bs)).
  assert (Hmono : forall a b, (a < b)%nat -> (b <= n)%nat -> posf a < posf b).
  { intros a b Hab Hb. unfold posf, posf_of, layout. apply layout_from_nth_lt; assumption. }
  assert (Hend : posf n = clen) by (apply (layout_end _ _ _ HE)).
  assert (Hlt : forall k, (k < n)%nat -> posf k < clen) by (intros k Hk; apply (posf_lt ch body bs k HE Hk)).
  assert (Hle : forall k, (k <= n)%nat -> posf k <= clen) by (intros k Hk; apply (posf_le ch body bs k HE Hk)).
  assert (Hn0 : (0 < n)%nat) by (unfold n; destruct body; [congruence|cbn; lia]).
  assert (Hc0 : 0 < clen) by (pose proof (Hlt 0%nat Hn0); lia).
  destruct HTab as (Texc & Tlines & Tranges & Tincr & Tframes & Tpoints).
  unfold read_code_raw. cbn [code_in_of ci_code ci_exc ci_lines ci_ranges ci_frames ci_cldc ci_points].
  fold clen.
  destruct (N.eqb_spec clen 0) as [E0|_]; [lia|]. destruct (N.ltb_spec 65535 clen) as [E1|_]; [lia|]. cbn [orb].
  unfold clen at 1 2. rewrite (scan_encode ch body bs HE HT HL). fold posf. cbn [bind]. fold clen.
  rewrite fold_exc.
  2:{ intros s e h Hin. apply in_map_iff in Hin. destruct Hin as ([[s0 e0] h0] & Heq & Hin).
      injection Heq as <- <- <-. destruct (Texc _ _ _ Hin) as (A & B & C).
      repeat split; [apply Hlt; exact A|apply Hle; exact B|apply Hlt; exact C]. }
  cbn [bind].
  rewrite (frame_offsets_deltas posf n Hmono ltac:(lia) (t_frames t) 0%nat true 0 Tincr Tframes eq_refl). cbn [bind].
  rewrite fold_create by (intros x Hx; apply in_map_iff in Hx; destruct Hx as (f & <- & Hf); apply Hlt; apply Tframes; exact Hf).
  cbn [bind].
  rewrite fold_lines by (intros x Hx; apply in_map_iff in Hx; destruct Hx as (e & <- & He); cbn [fst]; apply Hlt; apply Tlines; exact He).
  cbn [bind].
  rewrite (fold_ranges clen HL).
  2:{ intros x Hx. apply in_map_iff in Hx. destruct Hx as (e & <- & He). cbn [fst snd].
      destruct (Tranges e He) as (A & B & C). split; [apply Hlt; exact A|].
      assert (posf (fst e) <= posf (snd e)).
      { destruct (Nat.eq_dec (fst e) (snd e)) as [->|Hne]; [lia|]. pose proof (Hmono (fst e) (snd e) ltac:(lia) C). lia. }
      pose proof (Hle (snd e) C). lia. }
  cbn [bind].
  rewrite fold_create by (intros x Hx; apply in_map_iff in Hx; destruct Hx as (f & <- & Hf); apply Hlt; apply Tpoints; exact Hf).
  cbn [bind].
  match goal with |- context [decode _ ?L _ _] => set (ls := L) end.
  assert (HLS : forall x, In x (map posf (flat_map targets body)) -> lbl_get ls x = true).
  { intros x Hx. unfold ls. rewrite !lbl_get_fold. right. right. right. right. right. left. exact Hx. }
  unfold clen at 1. rewrite (decode_encode ch body bs ls HE HT HL).
  2:{ intros x Hx. apply HLS. apply in_map. exact Hx. }
  fold posf. cbn [bind]. exists ls. reflexivity.
Qed.

Lemma ixf_layout ch body bs ls fr : encode ch body = Some bs -> forall pc,
  ixf {| cr_insns := combine (starts_from ch 0 0 body) (map (map_insn (posf_of (layout ch body))) body);
         cr_labels := ls; cr_clen := N.of_nat (length bs); cr_frames := fr |} pc
  = ix_of_layout ch body pc.
Proof.
  intros HE pc. unfold ixf, ix_of_layout. cbn [cr_insns cr_clen].
  rewrite map_fst_combine by (rewrite starts_from_length, map_length; reflexivity).
  unfold layout. rewrite layout_from_starts. f_equal. f_equal. f_equal.
  unfold encode in HE. apply encode_from_length in HE. lia.
Qed.

Lemma Ok_inj {A} (a b : A) : Ok a = Ok b -> a = b.
Proof. intros H. injection H. auto. Qed.

(* THE CODE ATTRIBUTE IN THE CLASS *)
Theorem code_in_class impl p b ch body bs t v ms ml exc attrs st :
  encode ch body = Some bs -> body <> [] -> N.of_nat (length bs) <= 65535 ->
  targets_ok body -> tables_ok (length body) t ->
  code_parts v = Some (ms, ml, bs, exc, attrs) ->
  fold_attrs (apply_simple impl 3) st_empty attrs = Ok st ->
  code_in_of_state bs exc st = Ok (code_in_of (posf_of (layout ch body)) t bs) ->
  build_code impl p b v =
    (do xi <- map_res (resolve_entry p b) (cs_insns (expected body t));
     Ok (code_desc_of ms ml xi (cs_last (expected body t)) (ix_of_layout ch body) exc st
           (count_some (map (fun x => snd (fst x)) (cs_insns (expected body t)))))).
Proof.
  intros HE HNE HL HT HTab HP HS HC.
  pose proof (read_encode ch body bs t HE HNE HL HT HTab) as HR.
  destruct (read_code_raw_encode ch body bs t HE HNE HL HT HTab) as (ls & HRaw).
  unfold read_code in HR. rewrite HRaw in HR. cbn [bind] in HR. apply Ok_inj in HR. rename HR into HSem.
  unfold build_code. rewrite HP, HS. cbn [bind]. rewrite HC. cbn [bind]. rewrite HRaw. cbn [bind].
  rewrite HSem.
  destruct (map_res (resolve_entry p b) (cs_insns (expected body t))) as [xi|]; cbn [bind]; [|reflexivity].
  f_equal. unfold code_desc_of.
  pose proof (ixf_layout ch body bs ls (map (posf_of (layout ch body)) (t_frames t)) HE) as EX.
  f_equal; try (apply map_ext; intros x; apply map_pcs_ext; exact EX).
  f_equal. apply map_ext. intros x. apply map_pcs_ext. exact EX.
Qed.
