(* C01 — theory, part 17 (round 5): resolution of CONSTANT_Dynamic / CONSTANT_InvokeDynamic entries.
   What a Dynamic entry resolves to is made of two independent halves: name and descriptor are those
   of the entry's OWN NameAndType; method handle and arguments are those of the bootstrap method the
   entry names.  Two entries that share a bootstrap method therefore agree on handle and arguments
   and differ exactly as their NameAndType entries differ (a cache of resolved constants keyed by the
   bootstrap index alone would hand out the first entry's name and type for all of them: seed C01-a4).
   The model is a function of (pool, bootstrap table, index): the answer does not depend on what was
   resolved before, in which method, or how often. *)
From FB Require Import C01.Model C01.Pool C01.Resolve.

(* closed form, at every nesting level that still has room for a Dynamic (fuel >= 2) *)
Theorem dynamic_resolution f p b i bi nt :
  pget p i = Ok (EDynamic bi nt) ->
  get_loadable (S (S f)) p b i =
  (do nd <- get_nt p nt;
   match nth_error b (N.to_nat bi) with
   | Some (h, args) =>
     do hv <- get_method_handle p h;
     do avs <- map_res (get_loadable (S f) p b) args;
     Ok (VDynamic (fst nd) (snd nd) hv avs)
   | None => Err
   end).
Proof.
  intros H. cbn [get_loadable]. rewrite H. cbn [bind].
  destruct (get_nt p nt) as [[n d]|]; reflexivity.
Qed.

Theorem invoke_dynamic_resolution p b i bi nt :
  pget p i = Ok (EInvokeDynamic bi nt) ->
  get_invoke_dynamic p b i =
  (do nd <- get_nt p nt;
   match nth_error b (N.to_nat bi) with
   | Some (h, args) =>
     do hv <- get_method_handle p h;
     do avs <- map_res (get_loadable (pred nesting_fuel) p b) args;
     Ok (VIndy (fst nd) (snd nd) hv avs)
   | None => Err
   end).
Proof.
  intros H. unfold get_invoke_dynamic. rewrite H. cbn [bind].
  destruct (get_nt p nt) as [[n d]|]; reflexivity.
Qed.

(* a resolved Dynamic constant, read back: the name and type ARE the entry's NameAndType, the handle
   and the arguments ARE those of bootstrap method [bi] *)
Theorem dynamic_parts f p b i bi nt v :
  pget p i = Ok (EDynamic bi nt) -> get_loadable (S (S f)) p b i = Ok v ->
  exists n d h args hv avs,
    v = VDynamic n d hv avs /\ get_nt p nt = Ok (n, d) /\ nth_error b (N.to_nat bi) = Some (h, args) /\
    get_method_handle p h = Ok hv /\ map_res (get_loadable (S f) p b) args = Ok avs.
Proof.
  intros H R. rewrite (dynamic_resolution f p b i bi nt H) in R.
  destruct (get_nt p nt) as [[n d]|] eqn:En; [|discriminate]. cbn [bind fst snd] in R.
  destruct (nth_error b (N.to_nat bi)) as [[h args]|] eqn:Eb; [|discriminate].
  destruct (get_method_handle p h) as [hv|] eqn:Eh; [|discriminate]. cbn [bind] in R.
  destruct (map_res (get_loadable (S f) p b) args) as [avs|] eqn:Ea; [|discriminate]. cbn [bind] in R.
  injection R as <-. exists n, d, h, args, hv, avs. repeat split; assumption || reflexivity.
Qed.

(* two Dynamic entries sharing a bootstrap method, at the same nesting level (in particular two ldc
   operands, or two arguments of one bootstrap method): same handle, same arguments, each its own
   name and type *)
Theorem dynamic_share_bootstrap f p b i j bi nt nt' v v' :
  pget p i = Ok (EDynamic bi nt) -> pget p j = Ok (EDynamic bi nt') ->
  get_loadable (S (S f)) p b i = Ok v -> get_loadable (S (S f)) p b j = Ok v' ->
  exists n d n' d' hv avs,
    v = VDynamic n d hv avs /\ v' = VDynamic n' d' hv avs /\
    get_nt p nt = Ok (n, d) /\ get_nt p nt' = Ok (n', d').
Proof.
  intros Hi Hj Ri Rj.
  destruct (dynamic_parts f p b i bi nt v Hi Ri) as (n & d & h & args & hv & avs & -> & Hnt & Hb & Hh & Ha).
  destruct (dynamic_parts f p b j bi nt' v' Hj Rj) as (n' & d' & h' & args' & hv' & avs' & -> & Hnt' & Hb' & Hh' & Ha').
  rewrite Hb in Hb'. injection Hb' as <- <-. rewrite Hh in Hh'. injection Hh' as <-. rewrite Ha in Ha'. injection Ha' as <-.
  exists n, d, n', d', hv, avs. repeat split; assumption.
Qed.

(* … as instruction operands (accessor 0 = ldc / ldc_w / ldc2_w) *)
Corollary ldc_dynamic_share_bootstrap p b i j bi nt nt' v v' :
  pget p i = Ok (EDynamic bi nt) -> pget p j = Ok (EDynamic bi nt') ->
  resolve_kind p b 0 i = Ok v -> resolve_kind p b 0 j = Ok v' ->
  exists n d n' d' hv avs,
    v = VDynamic n d hv avs /\ v' = VDynamic n' d' hv avs /\
    get_nt p nt = Ok (n, d) /\ get_nt p nt' = Ok (n', d').
Proof. exact (dynamic_share_bootstrap 64 p b i j bi nt nt'  v v'). Qed.

(* the same for two invokedynamic call sites *)
Theorem indy_share_bootstrap p b i j bi nt nt' v v' :
  pget p i = Ok (EInvokeDynamic bi nt) -> pget p j = Ok (EInvokeDynamic bi nt') ->
  get_invoke_dynamic p b i = Ok v -> get_invoke_dynamic p b j = Ok v' ->
  exists n d n' d' hv avs,
    v = VIndy n d hv avs /\ v' = VIndy n' d' hv avs /\
    get_nt p nt = Ok (n, d) /\ get_nt p nt' = Ok (n', d').
Proof.
  intros Hi Hj Ri Rj.
  rewrite (invoke_dynamic_resolution p b i bi nt Hi) in Ri. rewrite (invoke_dynamic_resolution p b j bi nt' Hj) in Rj.
  destruct (get_nt p nt) as [[n d]|]; [|discriminate]. destruct (get_nt p nt') as [[n' d']|]; [|discriminate].
  cbn [bind fst snd] in Ri, Rj.
  destruct (nth_error b (N.to_nat bi)) as [[h args]|]; [|discriminate].
  destruct (get_method_handle p h) as [hv|]; [|discriminate]. cbn [bind] in Ri, Rj.
  destruct (map_res (get_loadable (pred nesting_fuel) p b) args) as [avs|]; [|discriminate]. cbn [bind] in Ri, Rj.
  injection Ri as <-. injection Rj as <-. exists n, d, n', d', hv, avs. repeat split; reflexivity.
Qed.

(* non-vacuity — the witness of seed C01-a4: one bootstrap method (REF_invokeStatic p/M.bsm:()V, one
   Integer argument), two Dynamic entries naming it, "a":I at index 11 and "b":J at index 13.  Both
   resolve; the values differ in name and type and in nothing else; a third entry (index 16) nests
   both as arguments of a second bootstrap method and delivers them side by side. *)
Definition ex_dyn_pool : pool :=
  [None;
   Some (EUtf8 [112; 47; 77]); Some (EClass 1);                                   (*  1 "p/M", 2 Class *)
   Some (EUtf8 [98; 115; 109]); Some (EUtf8 [40; 41; 86]); Some (ENameAndType 3 4); (*  3 "bsm", 4 "()V", 5 NT *)
   Some (EMethodRef 2 5); Some (EMethodHandle 6 6);                               (*  6 Methodref, 7 MethodHandle invokeStatic *)
   Some (EUtf8 [97]); Some (EUtf8 [73]); Some (ENameAndType 8 9);                 (*  8 "a", 9 "I", 10 NT a:I *)
   Some (EDynamic 0 10);                                                          (* 11 Dynamic #0 a:I *)
   Some (ENameAndType 14 15);                                                     (* 12 NT b:J *)
   Some (EDynamic 0 12);                                                          (* 13 Dynamic #0 b:J *)
   Some (EUtf8 [98]); Some (EUtf8 [74]);                                          (* 14 "b", 15 "J" *)
   Some (EDynamic 1 10);                                                          (* 16 Dynamic #1 a:I, arguments 11 13 11 *)
   Some (EInt 42)].                                                               (* 17 *)
Definition ex_dyn_bsm : bsms := [(7, [17]); (7, [11; 13; 11])].
Definition ex_handle : cval := VHandle 6 (VMethod [112; 47; 77] [98; 115; 109] [40; 41; 86] false).

Definition nonvacuous17 : Prop :=
  resolve_kind ex_dyn_pool ex_dyn_bsm 0 11 = Ok (VDynamic [97] [73] ex_handle [VInt 42]) /\
  resolve_kind ex_dyn_pool ex_dyn_bsm 0 13 = Ok (VDynamic [98] [74] ex_handle [VInt 42]) /\
  resolve_kind ex_dyn_pool ex_dyn_bsm 0 16 =
    Ok (VDynamic [97] [73] ex_handle
          [VDynamic [97] [73] ex_handle [VInt 42]; VDynamic [98] [74] ex_handle [VInt 42]; VDynamic [97] [73] ex_handle [VInt 42]]).
Lemma nonvacuous17_holds : nonvacuous17.
Proof. repeat split; vm_compute; reflexivity. Qed.
