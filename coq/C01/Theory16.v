(* C01 — theory, part 16 (round 4): the CLDC StackMap attribute at the class-file level.  The frames
   the tree receives ([frames_of_state]) are the entries of the attribute — all of them, nothing else
   — in the order of their offsets, entries of equal offset in file order (fix 15936f8). *)
From FB Require Import Base.Sort C01.Model C01.Pool C01.Resolve C01.Attr C01.Fmt C01.Formats C01.ClassFile.

Definition cldc_leb (a b : val) : bool := cldc_key a <=? cldc_key b.

Lemma cldc_total : total_on cldc_leb (fun _ => True).
Proof. intros a b _ _. unfold cldc_leb. destruct (N.leb_spec (cldc_key a) (cldc_key b)); [left; reflexivity|right; apply N.leb_le; lia]. Qed.

Theorem cldc_sorted_spec l :
  Permutation (cldc_sorted l) l /\ Sorted (fun a b => cldc_key a <= cldc_key b) (cldc_sorted l).
Proof.
  split; [apply isort_perm|].
  assert (S : Sorted (lebP cldc_leb) (cldc_sorted l)).
  { apply (isort_sorted cldc_leb (fun _ => True)); [exact cldc_total|]. apply Forall_forall. intros; exact I. }
  induction S as [|x m S IH Hd]; constructor; [exact IH|].
  destruct Hd as [|y m' Hxy]; constructor. unfold lebP, cldc_leb in Hxy. apply N.leb_le. exact Hxy.
Qed.

(* a list already in the order of its offsets (what a preverifier writes) is left as it is *)
Theorem cldc_sorted_id l : Sorted (fun a b => cldc_key a <= cldc_key b) l -> cldc_sorted l = l.
Proof.
  intros S. apply isort_id_sorted. induction S as [|x m S IH Hd]; constructor; [exact IH|].
  destruct Hd as [|y m' Hxy]; constructor. unfold lebP. apply N.leb_le. exact Hxy.
Qed.

(* with a StackMap attribute in the state, the frames handed on are its sorted entries *)
Theorem frames_of_state_cldc st l : slot_get a_StackMap (st_slots st) = Some (VList l) ->
  frames_of_state st = map cldc_norm (cldc_sorted l).
Proof. intros H. unfold frames_of_state. rewrite H. reflexivity. Qed.
