(* C01 — theory, part 23 (round 5): NO JUNK outside the code array.  [rd_strict] is the format reader
   with two more checks: an attribute's payload must take exactly attribute_length bytes, and a skip may
   not pass the end of the input.  (1) Whatever rd_strict accepts, duke's reader [rd_fmt] accepts with
   the same answer.  (2) Whatever rd_strict accepts is the encoding of a structure that fits the format,
   followed by the bytes left over, and the answer is that structure's description: nothing is accepted
   that is not a class-file structure.  (3) rd_strict accepts every such encoding.  So the byte strings
   duke accepts beyond the encodings are exactly those with an attribute_length that disagrees with the
   attribute's content, or a skipped attribute running past the end. *)
From FB Require Import C01.Bytes C01.Model C01.Pool C01.Fmt C01.Theory1 C01.Theory6 C01.Theory7 C01.Theory14.
Arguments N.add : simpl never.
Arguments N.mul : simpl never.

Fixpoint rd_strict (impl : bool) (dec : bytes -> res str) (rs : N -> N -> res cval) (f : fmt) {struct f} : parser val :=
  match f with
  | FSkip n => fun s => do (b, s1) <- take_res n s; Ok (VB b, s1)
  | FSeq l => fun s => do (vs, s1) <- rd_all (map (rd_strict impl dec rs) l) s; Ok (VSeq vs, s1)
  | FVec8 f' => fun s =>
      do (n, s1) <- rd_u8 s; do (vs, s2) <- rd_rep (N.to_nat n) (rd_strict impl dec rs f') s1; Ok (VList vs, s2)
  | FVec16 f' => fun s =>
      do (n, s1) <- rd_u16 s; do (vs, s2) <- rd_rep (N.to_nat n) (rd_strict impl dec rs f') s1; Ok (VList vs, s2)
  | FTag ok sel => fun s =>
      do (t, s1) <- rd_u8 s;
      if ok impl t then do (v, s2) <- rd_strict impl dec rs (sel t) s1; Ok (VTag t v, s2) else Err
  | FAttr sel => fun s =>
      do (i, s1) <- rd_u16 s;
      do c <- rs 8 i;
      match c with
      | VUtf8 name =>
        do (len, s2) <- rd_u32 s1;
        do (v, s3) <- rd_strict impl dec rs (sel name len) s2;
        if N.of_nat (length s2) =? N.of_nat (length s3) + len then Ok (VAttr name v, s3) else Err
      | _ => Err
      end
  | f => rd_fmt impl dec rs f
  end.

Lemma rd_u32_inv s v s1 : rd_u32 s = Ok (v, s1) -> is_bytes s -> s = be32 v ++ s1 /\ v < 4294967296 /\ is_bytes s1.
Proof.
  unfold rd_u32. destruct s as [|a [|b [|c [|d r]]]]; try discriminate. intros [= <- <-] B.
  apply is_bytes_cons in B. destruct B as [Ha B]. apply is_bytes_cons in B. destruct B as [Hb B].
  apply is_bytes_cons in B. destruct B as [Hc B]. apply is_bytes_cons in B. destruct B as [Hd B].
  destruct (be32_dec32 a b c d Ha Hb Hc Hd) as [E L]. rewrite E. tauto.
Qed.
Lemma take_res_inv n s b s1 : take_res n s = Ok (b, s1) -> s = b ++ s1 /\ N.of_nat (length b) = n.
Proof.
  unfold take_res. destruct (N.leb_spec n (N.of_nat (length s))) as [H|H]; [|discriminate]. intros [= <- <-].
  split; [symmetry; apply firstn_skipn|]. rewrite firstn_length. lia.
Qed.
Lemma is_bytes_app a r : is_bytes (a ++ r) -> is_bytes a /\ is_bytes r.
Proof. unfold is_bytes. rewrite Forall_app. tauto. Qed.

(* (1) the strict reader is a restriction of the reader *)
Lemma rd_all_imp {A} (ps qs : list (parser A)) : Forall2 (fun p q => forall s x, p s = Ok x -> q s = Ok x) ps qs ->
  forall s x, rd_all ps s = Ok x -> rd_all qs s = Ok x.
Proof.
  induction 1 as [|p q ps qs H HF IH]; intros s x E; [exact E|]. cbn [rd_all] in *.
  destruct (p s) as [[v s1]|] eqn:E1; [|discriminate]. rewrite (H s _ E1). cbn [bind] in *.
  destruct (rd_all ps s1) as [[vs s2]|] eqn:E2; [|discriminate]. rewrite (IH s1 _ E2). exact E.
Qed.
Lemma rd_rep_imp {A} (p q : parser A) : (forall s x, p s = Ok x -> q s = Ok x) ->
  forall n s x, rd_rep n p s = Ok x -> rd_rep n q s = Ok x.
Proof.
  intros H. induction n as [|n IH]; intros s x E; [exact E|]. cbn [rd_rep] in *.
  destruct (p s) as [[v s1]|] eqn:E1; [|discriminate]. rewrite (H s _ E1). cbn [bind] in *.
  destruct (rd_rep n p s1) as [[vs s2]|] eqn:E2; [|discriminate]. rewrite (IH s1 _ E2). exact E.
Qed.

Theorem rd_strict_rd_fmt impl dec rs : forall f s x, rd_strict impl dec rs f s = Ok x -> rd_fmt impl dec rs f s = Ok x.
Proof.
  induction f using fmt_ind'; intros s x E; try exact E.
  - (* FSkip *) cbn [rd_strict rd_fmt] in *. destruct (take_res n s) as [[b s1]|] eqn:E1; [|discriminate]. cbn [bind] in E.
    unfold take_res in E1. unfold take_lenient. destruct (n <=? N.of_nat (length s)); [|discriminate]. injection E1 as <- <-. exact E.
  - (* FSeq *) cbn [rd_strict rd_fmt] in *.
    destruct (rd_all (map (rd_strict impl dec rs) l) s) as [[vs s1]|] eqn:E1; [|discriminate].
    rewrite (rd_all_imp (map (rd_strict impl dec rs) l) (map (rd_fmt impl dec rs) l)) with (x := (vs, s1)); [exact E| |exact E1].
    clear -H. induction H; cbn [map]; constructor; assumption.
  - (* FVec8 *) cbn [rd_strict rd_fmt] in *. destruct (rd_u8 s) as [[n s1]|]; [|discriminate]. cbn [bind] in *.
    destruct (rd_rep (N.to_nat n) (rd_strict impl dec rs f) s1) as [[vs s2]|] eqn:E1; [|discriminate].
    rewrite (rd_rep_imp _ _ IHf _ _ _ E1). exact E.
  - (* FVec16 *) cbn [rd_strict rd_fmt] in *. destruct (rd_u16 s) as [[n s1]|]; [|discriminate]. cbn [bind] in *.
    destruct (rd_rep (N.to_nat n) (rd_strict impl dec rs f) s1) as [[vs s2]|] eqn:E1; [|discriminate].
    rewrite (rd_rep_imp _ _ IHf _ _ _ E1). exact E.
  - (* FTag *) cbn [rd_strict rd_fmt] in *. destruct (rd_u8 s) as [[t s1]|]; [|discriminate]. cbn [bind] in *.
    destruct (ok impl t); [|discriminate]. destruct (rd_strict impl dec rs (sel t) s1) as [[v s2]|] eqn:E1; [|discriminate].
    rewrite (H t _ _ E1). exact E.
  - (* FAttr *) cbn [rd_strict rd_fmt] in *. destruct (rd_u16 s) as [[i s1]|]; [|discriminate]. cbn [bind] in *.
    destruct (rs 8 i) as [c|]; [|discriminate]. cbn [bind] in *. destruct c; try discriminate.
    destruct (rd_u32 s1) as [[len s2]|]; [|discriminate]. cbn [bind] in *.
    destruct (rd_strict impl dec rs (sel s0 len) s2) as [[v s3]|] eqn:E1; [|discriminate]. cbn [bind] in *.
    rewrite (H s0 len _ _ E1). cbn [bind]. destruct (N.of_nat (length s2) =? N.of_nat (length s3) + len); [exact E|discriminate].
Qed.

(* (2) no junk *)
Definition nj (impl : bool) (dec : bytes -> res str) (rs : N -> N -> res cval) (f : fmt) : Prop :=
  forall s v rest, is_bytes s -> rd_strict impl dec rs f s = Ok (v, rest) ->
  exists r, fits impl rs f r = true /\ s = enc_raw r ++ rest /\ desc_fmt impl dec rs f r = Ok v /\ is_bytes rest.

Lemma w8_small v : v < 256 -> w8 v = [v].
Proof. intros H. unfold w8. rewrite N.mod_small by exact H. reflexivity. Qed.
Lemma w16_small v : v < 65536 -> w16 v = be16 v.
Proof. intros H. unfold w16. rewrite N.mod_small by exact H. reflexivity. Qed.
Lemma w32_small v : v < 4294967296 -> w32 v = be32 v.
Proof. intros H. unfold w32. rewrite N.mod_small by exact H. reflexivity. Qed.

Ltac rest3 := split; [reflexivity|split; [reflexivity|first [assumption|eapply is_bytes_app; eassumption]]].

Lemma rd_all_nj impl dec rs l : Forall (nj impl dec rs) l -> forall s vs rest, is_bytes s ->
  rd_all (map (rd_strict impl dec rs) l) s = Ok (vs, rest) ->
  exists rl, test_all (map (fits impl rs) l) rl false = true /\ s = flat_map enc_raw rl ++ rest /\
             desc_all (map (desc_fmt impl dec rs) l) rl = Ok vs /\ is_bytes rest.
Proof.
  induction 1 as [|f l Hf Hl IH]; intros s vs rest B E; cbn [map rd_all] in E.
  - injection E as <- <-. exists []. split; [reflexivity|rest3].
  - destruct (rd_strict impl dec rs f s) as [[v s1]|] eqn:E1; [|discriminate]. cbn [bind] in E.
    destruct (rd_all (map (rd_strict impl dec rs) l) s1) as [[vs' s2]|] eqn:E2; [|discriminate]. cbn [bind] in E. injection E as <- <-.
    destruct (Hf s v s1 B E1) as (r & F1 & -> & D1 & B1).
    destruct (IH s1 vs' s2 B1 E2) as (rl & F2 & -> & D2 & B2).
    exists (r :: rl). cbn [map test_all flat_map desc_all]. rewrite F1, F2, D1, D2, app_assoc. split; [reflexivity|rest3].
Qed.
Lemma rd_rep_nj impl dec rs f : nj impl dec rs f -> forall n s vs rest, is_bytes s ->
  rd_rep n (rd_strict impl dec rs f) s = Ok (vs, rest) ->
  exists rl, length rl = n /\ forallb (fits impl rs f) rl = true /\ s = flat_map enc_raw rl ++ rest /\
             map_res (desc_fmt impl dec rs f) rl = Ok vs /\ is_bytes rest.
Proof.
  intros Hf. induction n as [|n IH]; intros s vs rest B E; cbn [rd_rep] in E.
  - injection E as <- <-. exists []. split; [reflexivity|split; [reflexivity|rest3]].
  - destruct (rd_strict impl dec rs f s) as [[v s1]|] eqn:E1; [|discriminate]. cbn [bind] in E.
    destruct (rd_rep n (rd_strict impl dec rs f) s1) as [[vs' s2]|] eqn:E2; [|discriminate]. cbn [bind] in E. injection E as <- <-.
    destruct (Hf s v s1 B E1) as (r & F1 & -> & D1 & B1).
    destruct (IH s1 vs' s2 B1 E2) as (rl & L & F2 & -> & D2 & B2).
    exists (r :: rl). cbn [length forallb flat_map map_res]. rewrite F1, F2, D1, D2, L, app_assoc. split; [reflexivity|split; [reflexivity|rest3]].
Qed.

Ltac u16 E B := let n := fresh "n" in let s1 := fresh "s1" in let E1 := fresh "E1" in
  match type of E with context [rd_u16 ?s] => destruct (rd_u16 s) as [[n s1]|] eqn:E1; [|discriminate]; cbn [bind] in E;
    destruct (rd_u16_inv _ _ _ E1 B) as (-> & ? & ?) end.

Theorem no_junk_fmt impl dec rs : forall f, nj impl dec rs f.
Proof.
  induction f using fmt_ind'; unfold nj in *; intros s w rest B E; cbn [rd_strict rd_fmt] in E.
  - (* FU8 *) destruct (rd_u8 s) as [[n s1]|] eqn:E1; [|discriminate]. cbn [bind] in E. injection E as <- <-.
    destruct (rd_u8_inv _ _ _ E1 B) as (-> & L & B1). exists (Rw8 n). cbn [fits enc_raw desc_fmt]. rewrite (w8_small n L).
    split; [apply N.ltb_lt; exact L|rest3].
  - (* FU16 *) u16 E B. injection E as <- <-. exists (Rw16 n). cbn [fits enc_raw desc_fmt]. rewrite w16_small by assumption.
    split; [apply N.ltb_lt; assumption|rest3].
  - (* FFlags *) u16 E B. injection E as <- <-. exists (Rw16 n). cbn [fits enc_raw desc_fmt]. rewrite w16_small by assumption.
    split; [apply N.ltb_lt; assumption|rest3].
  - (* FConst8 *) destruct (rd_u8 s) as [[n s1]|] eqn:E1; [|discriminate]. cbn [bind] in E.
    destruct (n =? v) eqn:EV; [|discriminate]. injection E as <- <-.
    destruct (rd_u8_inv _ _ _ E1 B) as (-> & L & B1). exists (Rw8 n). cbn [fits enc_raw desc_fmt]. rewrite (w8_small n L), EV.
    split; [apply andb_true_iff; split; [reflexivity|apply N.ltb_lt; exact L]|rest3].
  - (* FIdx *) u16 E B. destruct (rs a n) as [c|] eqn:EC; [|discriminate]. cbn [bind] in E. injection E as <- <-.
    exists (Rw16 n). cbn [fits enc_raw desc_fmt]. rewrite w16_small, EC by assumption.
    split; [apply N.ltb_lt; assumption|rest3].
  - (* FOptIdx *) u16 E B. exists (Rw16 n). cbn [fits enc_raw desc_fmt]. rewrite w16_small by assumption.
    destruct (n =? 0).
    + injection E as <- <-. split; [apply N.ltb_lt; assumption|rest3].
    + destruct (rs a n) as [c|] eqn:EC; [|discriminate]. cbn [bind] in E. injection E as <- <-.
      split; [apply N.ltb_lt; assumption|rest3].
  - (* FIdxRaw *) u16 E B. destruct (rs a n) as [c|] eqn:EC; [|discriminate]. cbn [bind] in E. injection E as <- <-.
    exists (Rw16 n). cbn [fits enc_raw desc_fmt]. rewrite w16_small, EC by assumption.
    split; [apply N.ltb_lt; assumption|rest3].
  - (* FPc *) u16 E B. injection E as <- <-. exists (Rw16 n). cbn [fits enc_raw desc_fmt]. rewrite w16_small by assumption.
    split; [apply N.ltb_lt; assumption|rest3].
  - (* FRange *) u16 E B. u16 E H0. injection E as <- <-. exists (RSeq [Rw16 n; Rw16 n0]). cbn [fits enc_raw desc_fmt flat_map].
    rewrite !w16_small, app_nil_r, <- app_assoc by assumption.
    split; [apply andb_true_iff; split; apply N.ltb_lt; assumption|rest3].
  - (* FBytes *) destruct (take_res n s) as [[b s1]|] eqn:E1; [|discriminate]. cbn [bind] in E. injection E as <- <-.
    destruct (take_res_inv _ _ _ _ E1) as (-> & L). exists (RBytes b). cbn [fits enc_raw desc_fmt].
    split; [apply N.eqb_eq; exact L|rest3].
  - (* FSkip *) destruct (take_res n s) as [[b s1]|] eqn:E1; [|discriminate]. cbn [bind] in E. injection E as <- <-.
    destruct (take_res_inv _ _ _ _ E1) as (-> & L). exists (RBytes b). cbn [fits enc_raw desc_fmt].
    split; [apply N.eqb_eq; exact L|rest3].
  - (* FMutf8 *) destruct (take_res n s) as [[b s1]|] eqn:E1; [|discriminate]. cbn [bind] in E.
    destruct (dec b) as [x|] eqn:ED; [|discriminate]. cbn [bind] in E. injection E as <- <-.
    destruct (take_res_inv _ _ _ _ E1) as (-> & L). exists (RBytes b). cbn [fits enc_raw desc_fmt]. rewrite ED.
    split; [apply N.eqb_eq; exact L|rest3].
  - (* FBytes32 *) destruct (rd_u32 s) as [[n s1]|] eqn:E0; [|discriminate]. cbn [bind] in E.
    destruct (rd_u32_inv _ _ _ E0 B) as (-> & Ln & B0).
    destruct (take_res n s1) as [[b s2]|] eqn:E1; [|discriminate]. cbn [bind] in E. injection E as <- <-.
    destruct (take_res_inv _ _ _ _ E1) as (-> & L). exists (RBytes32 b). cbn [fits enc_raw desc_fmt]. rewrite L, w32_small, <- app_assoc by exact Ln.
    split; [apply N.ltb_lt; exact Ln|rest3].
  - (* FSeq *) destruct (rd_all (map (rd_strict impl dec rs) l) s) as [[vs s1]|] eqn:E1; [|discriminate]. cbn [bind] in E. injection E as <- <-.
    destruct (rd_all_nj impl dec rs l H s vs s1 B E1) as (rl & F & -> & D & B1).
    exists (RSeq rl). cbn [fits enc_raw desc_fmt]. rewrite F, D. split; [reflexivity|rest3].
  - (* FVec8 *) destruct (rd_u8 s) as [[n s1]|] eqn:E0; [|discriminate]. cbn [bind] in E.
    destruct (rd_u8_inv _ _ _ E0 B) as (-> & Ln & B0).
    destruct (rd_rep (N.to_nat n) (rd_strict impl dec rs f) s1) as [[vs s2]|] eqn:E1; [|discriminate]. cbn [bind] in E. injection E as <- <-.
    destruct (rd_rep_nj impl dec rs f IHf _ _ _ _ B0 E1) as (rl & L & F & -> & D & B1).
    exists (RVec8 rl). cbn [fits enc_raw desc_fmt]. rewrite L, Nnat.N2Nat.id, F, D, (w8_small n Ln).
    split; [apply andb_true_iff; split; [apply N.ltb_lt; exact Ln|reflexivity]|rest3].
  - (* FVec16 *) destruct (rd_u16 s) as [[n s1]|] eqn:E0; [|discriminate]. cbn [bind] in E.
    destruct (rd_u16_inv _ _ _ E0 B) as (-> & Ln & B0).
    destruct (rd_rep (N.to_nat n) (rd_strict impl dec rs f) s1) as [[vs s2]|] eqn:E1; [|discriminate]. cbn [bind] in E. injection E as <- <-.
    destruct (rd_rep_nj impl dec rs f IHf _ _ _ _ B0 E1) as (rl & L & F & -> & D & B1).
    exists (RVec16 rl). cbn [fits enc_raw desc_fmt]. rewrite L, Nnat.N2Nat.id, F, D, (w16_small n Ln), <- app_assoc.
    split; [apply andb_true_iff; split; [apply N.ltb_lt; exact Ln|reflexivity]|rest3].
  - (* FTag *) destruct (rd_u8 s) as [[t s1]|] eqn:E0; [|discriminate]. cbn [bind] in E.
    destruct (rd_u8_inv _ _ _ E0 B) as (-> & Lt & B0).
    destruct (ok impl t) eqn:EO; [|discriminate].
    destruct (rd_strict impl dec rs (sel t) s1) as [[v' s2]|] eqn:E1; [|discriminate]. cbn [bind] in E. injection E as <- <-.
    destruct (H t _ _ _ B0 E1) as (r & F & -> & D & B1).
    exists (RTag t r). cbn [fits enc_raw desc_fmt]. rewrite EO, F, D, (w8_small t Lt).
    split; [apply andb_true_iff; split; [apply andb_true_iff; split; [apply N.ltb_lt; exact Lt|reflexivity]|reflexivity]|rest3].
  - (* FAttr *) destruct (rd_u16 s) as [[i s1]|] eqn:E0; [|discriminate]. cbn [bind] in E.
    destruct (rd_u16_inv _ _ _ E0 B) as (-> & Li & B0).
    destruct (rs 8 i) as [c|] eqn:EC; [|discriminate]. cbn [bind] in E. destruct c; try discriminate.
    destruct (rd_u32 s1) as [[len s2]|] eqn:E1; [|discriminate]. cbn [bind] in E.
    destruct (rd_u32_inv _ _ _ E1 B0) as (-> & Ll & B1).
    match type of E with context [sel ?nm len] => rename nm into name end.
    destruct (rd_strict impl dec rs (sel name len) s2) as [[v' s3]|] eqn:E2; [|discriminate]. cbn [bind] in E.
    destruct (N.of_nat (length s2) =? N.of_nat (length s3) + len) eqn:EL; [|discriminate]. injection E as <- <-.
    destruct (H name len _ _ _ B1 E2) as (r & F & -> & D & B2).
    apply N.eqb_eq in EL. rewrite app_length in EL.
    assert (LR : N.of_nat (length (enc_raw r)) = len) by lia.
    exists (RAttr i r). cbn [fits enc_raw desc_fmt]. rewrite EC. cbn [bind]. rewrite LR, F, D, (w16_small i Li), (w32_small len Ll), <- !app_assoc.
    split; [apply andb_true_iff; split; [apply andb_true_iff; split; apply N.ltb_lt; assumption|reflexivity]|rest3].
Qed.

(* (3) every encoding of a fitting structure is accepted by the strict reader *)
Theorem rd_strict_roundtrip impl dec rs : forall f r rest, fits impl rs f r = true ->
  rd_strict impl dec rs f (enc_raw r ++ rest) = (do v <- desc_fmt impl dec rs f r; Ok (v, rest)).
Proof.
  induction f using fmt_ind'; intros r rest HF; try exact (fmt_roundtrip impl dec rs _ r rest HF).
  - (* FSkip *) destruct r; try (cbn [fits] in HF; discriminate). cbn [fits] in HF. apply N.eqb_eq in HF. subst n.
    cbn [rd_strict enc_raw desc_fmt bind]. rewrite take_res_app. reflexivity.
  - (* FSeq *) destruct r as [| | | |rl| | | |]; try (cbn [fits] in HF; discriminate).
    cbn [rd_strict enc_raw desc_fmt fits] in *.
    assert (K : forall rl rest, test_all (map (fits impl rs) l) rl false = true ->
      rd_all (map (rd_strict impl dec rs) l) (flat_map enc_raw rl ++ rest)
      = (do vs <- desc_all (map (desc_fmt impl dec rs) l) rl; Ok (vs, rest))).
    { clear HF rl rest. induction H as [|f l Hf Hl IH]; intros rl rest HF.
      - destruct rl; [reflexivity|discriminate].
      - destruct rl as [|r rl]; [discriminate|]. cbn [map test_all] in HF.
        apply andb_true_iff in HF. destruct HF as [F1 F2].
        cbn [map rd_all desc_all flat_map]. rewrite <- app_assoc. rewrite (Hf r _ F1).
        destruct (desc_fmt impl dec rs f r) as [v|]; cbn [bind]; [|reflexivity].
        rewrite (IH rl rest F2).
        destruct (desc_all (map (desc_fmt impl dec rs) l) rl); reflexivity. }
    rewrite (K rl rest HF). destruct (desc_all (map (desc_fmt impl dec rs) l) rl); reflexivity.
  - (* FVec8 *) destruct r as [| | | | |rl| | |]; try (cbn [fits] in HF; discriminate).
    cbn [fits] in HF. apply andb_true_iff in HF. destruct HF as [L HF]. apply N.ltb_lt in L.
    cbn [rd_strict enc_raw desc_fmt]. rewrite <- app_assoc, rd_u8_w8 by exact L. cbn [bind].
    rewrite Nnat.Nat2N.id.
    rewrite (rd_rep_map (rd_strict impl dec rs f) enc_raw (desc_fmt impl dec rs f)).
    + destruct (map_res (desc_fmt impl dec rs f) rl); reflexivity.
    + intros r Hr rest'. apply IHf. rewrite forallb_forall in HF. apply HF. exact Hr.
  - (* FVec16 *) destruct r as [| | | | | |rl| |]; try (cbn [fits] in HF; discriminate).
    cbn [fits] in HF. apply andb_true_iff in HF. destruct HF as [L HF]. apply N.ltb_lt in L.
    cbn [rd_strict enc_raw desc_fmt]. rewrite <- app_assoc, rd_u16_w16 by exact L. cbn [bind].
    rewrite Nnat.Nat2N.id.
    rewrite (rd_rep_map (rd_strict impl dec rs f) enc_raw (desc_fmt impl dec rs f)).
    + destruct (map_res (desc_fmt impl dec rs f) rl); reflexivity.
    + intros r Hr rest'. apply IHf. rewrite forallb_forall in HF. apply HF. exact Hr.
  - (* FTag *) destruct r as [| | | | | | |t r|]; try (cbn [fits] in HF; discriminate).
    cbn [fits] in HF. apply andb_true_iff in HF. destruct HF as [HF F2]. apply andb_true_iff in HF. destruct HF as [L O].
    apply N.ltb_lt in L.
    cbn [rd_strict enc_raw desc_fmt]. rewrite <- app_assoc, rd_u8_w8 by exact L. cbn [bind]. rewrite O.
    rewrite (H t r rest F2). destruct (desc_fmt impl dec rs (sel t) r); reflexivity.
  - (* FAttr *) destruct r as [| | | | | | | |i r]; try (cbn [fits] in HF; discriminate).
    cbn [fits] in HF. apply andb_true_iff in HF. destruct HF as [HF F2]. apply andb_true_iff in HF. destruct HF as [L1 L2].
    apply N.ltb_lt in L1, L2.
    cbn [rd_strict enc_raw desc_fmt]. rewrite <- app_assoc, rd_u16_w16 by exact L1. cbn [bind].
    destruct (rs 8 i) as [c|]; cbn [bind]; [|reflexivity].
    destruct c; try reflexivity.
    rewrite <- app_assoc, rd_u32_w32 by exact L2. cbn [bind].
    rewrite (H s _ r rest F2).
    destruct (desc_fmt impl dec rs (sel s (N.of_nat (length (enc_raw r)))) r); cbn [bind]; [|reflexivity].
    rewrite app_length, Nnat.Nat2N.inj_add, N.add_comm, N.eqb_refl. reflexivity.
Qed.

(* together: the strict reader accepts exactly the encodings, and duke's reader agrees with it there *)
Corollary strict_iff_encoding impl dec rs f s v rest : is_bytes s ->
  (rd_strict impl dec rs f s = Ok (v, rest) <->
   exists r, fits impl rs f r = true /\ s = enc_raw r ++ rest /\ desc_fmt impl dec rs f r = Ok v).
Proof.
  intros B. split.
  - intros E. destruct (no_junk_fmt impl dec rs f s v rest B E) as (r & F & S & D & _). exists r. tauto.
  - intros (r & F & -> & D). rewrite (rd_strict_roundtrip impl dec rs f r rest F), D. reflexivity.
Qed.

(* what duke accepts beyond that: e.g. a SourceFile attribute whose attribute_length says 7 although its
   content is the two bytes of an index — the strict reader refuses it, rd_fmt (as duke) reads on behind the two bytes *)
Definition lenient_example : bytes := [0; 1; 0; 0; 0; 7; 0; 2].
Definition sf_sel (name : str) (len : N) : fmt := FIdx 8.
Lemma lenient_example_holds :
  let rs := fun (a i : N) => Ok (VUtf8 [83]) in
  rd_fmt true (fun b => Ok b) rs (FAttr sf_sel) lenient_example = Ok (VAttr [83] (VC (VUtf8 [83])), []) /\
  rd_strict true (fun b => Ok b) rs (FAttr sf_sel) lenient_example = Err.
Proof. split; reflexivity. Qed.
