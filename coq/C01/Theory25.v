(* C01 — theory, part 25 (round 7): attribute order independence carried from the single attribute list
   (Theory22.fold_attrs_perm) to the class description: the class-level attribute list and the attribute list
   of every field and every method permuted (pairwise different keys in each list) — build_class, the stage of
   read_class behind the format reader, fails for both orders or gives equivalent descriptions. *)
From Coq Require Import Permutation.
From FB Require Import C01.Bytes C01.Model C01.Pool C01.Resolve C01.Fmt C01.Formats C01.ClassFile
  C01.Theory21 C01.Theory22.
Arguments N.add : simpl never.

(* equal except for the order of what is kept in file order: the slots (compared by name) and the unknown attributes *)
Definition slots_equiv (l l' : list (str * val)) : Prop := forall x, slot_get x l = slot_get x l'.
Definition mequiv (m m' : ClassFile.member_desc) : Prop :=
  md_access m = md_access m' /\ md_name m = md_name m' /\ md_desc m = md_desc m' /\
  slots_equiv (md_slots m) (md_slots m') /\ Permutation (md_unknown m) (md_unknown m') /\ md_code m = md_code m'.
(* BootstrapMethods is consumed by the constants and taken out of the slots *)
Definition cequiv (d d' : class_desc) : Prop :=
  cd_minor d = cd_minor d' /\ cd_major d = cd_major d' /\ cd_access d = cd_access d' /\ cd_this d = cd_this d' /\
  cd_super d = cd_super d' /\ cd_interfaces d = cd_interfaces d' /\
  Forall2 mequiv (cd_fields d) (cd_fields d') /\ Forall2 mequiv (cd_methods d) (cd_methods d') /\
  (forall x, str_eqb a_BootstrapMethods x = false -> slot_get x (cd_slots d) = slot_get x (cd_slots d')) /\
  Permutation (cd_unknown d) (cd_unknown d').

(* a member with its attribute list permuted *)
Inductive mperm : val -> val -> Prop :=
| mperm_intro a n d al al' : Permutation al al' -> NoDup (map akey al) ->
    mperm (VSeq [a; n; d; VList al]) (VSeq [a; n; d; VList al']).

Lemma slot_get_del k x : str_eqb k x = false -> forall l, slot_get x (slot_del k l) = slot_get x l.
Proof.
  intros H. induction l as [|[k' v] l IH]; [reflexivity|]. cbn [slot_del slot_get].
  destruct (str_eqb k' k) eqn:E.
  - apply str_eqb_eq in E. subst k'. rewrite H. reflexivity.
  - cbn [slot_get]. rewrite IH. reflexivity.
Qed.

Lemma build_member_perm impl p b ctx m m' : mperm m m' ->
  res_rel mequiv (build_member impl p b ctx m) (build_member impl p b ctx m').
Proof.
  intros [a n d al al' HP ND]. unfold build_member, member_parts.
  destruct a; try reflexivity. destruct n; try reflexivity.
  match goal with c : cval |- _ => destruct c; try reflexivity end.
  destruct d; try reflexivity.
  match goal with c : cval |- _ => destruct c; try reflexivity end.
  pose proof (fold_attrs_perm impl p b ctx al al' HP ND st_empty) as R.
  destruct (fold_attrs (apply_attr impl p b ctx) st_empty al) as [st|],
           (fold_attrs (apply_attr impl p b ctx) st_empty al') as [st'|]; cbn [requiv] in R; try contradiction; cbn [bind res_rel].
  - destruct R as (R1 & R2 & R3 & R4). eexists. split; [reflexivity|].
    unfold mequiv. cbn [md_access md_name md_desc md_slots md_unknown md_code]. repeat split; assumption.
  - reflexivity.
Qed.

Theorem build_class_perm impl p minor major head al al' fl fl' ml ml' :
  Permutation al al' -> NoDup (map akey al) -> Forall2 mperm fl fl' -> Forall2 mperm ml ml' ->
  res_rel cequiv (build_class impl p minor major head (VList al) (VList fl) (VList ml))
                 (build_class impl p minor major head (VList al') (VList fl') (VList ml')).
Proof.
  intros HP ND HF HM. unfold build_class. cbn [list_of].
  destruct (head_parts head) as [[[[a this] sup] itfs]|]; [|reflexivity].
  destruct (super_name sup) as [su|]; cbn [bind]; [|reflexivity].
  destruct (map_res class_name itfs) as [its|]; cbn [bind]; [|reflexivity].
  pose proof (fold_attrs_perm impl p [] 0 al al' HP ND st_empty) as R.
  destruct (fold_attrs (apply_attr impl p [] 0) st_empty al) as [st|],
           (fold_attrs (apply_attr impl p [] 0) st_empty al') as [st'|]; cbn [requiv] in R; try contradiction; cbn [bind]; [|reflexivity].
  destruct R as (R1 & R2 & R3 & R4).
  rewrite !slot_list_get, <- R1.
  destruct (map_res bsm_entry match slot_get a_BootstrapMethods (st_slots st) with Some (VList y) => y | _ => [] end) as [b|]; cbn [bind]; [|reflexivity].
  pose proof (map_res_rel (build_member impl p b 1) (build_member impl p b 1) mperm mequiv
                (fun x x' H => build_member_perm impl p b 1 x x' H) fl fl' HF) as RF.
  unfold res_rel in RF. destruct (map_res (build_member impl p b 1) fl) as [fs|]; [|rewrite RF; reflexivity].
  destruct RF as (fs' & -> & HFs). cbn [bind].
  pose proof (map_res_rel (build_member impl p b 2) (build_member impl p b 2) mperm mequiv
                (fun x x' H => build_member_perm impl p b 2 x x' H) ml ml' HM) as RM.
  unfold res_rel in RM. destruct (map_res (build_member impl p b 2) ml) as [ms|]; [|rewrite RM; reflexivity].
  destruct RM as (ms' & -> & HMs). cbn [bind res_rel].
  eexists. split; [reflexivity|]. unfold cequiv.
  cbn [cd_minor cd_major cd_access cd_this cd_super cd_interfaces cd_fields cd_methods cd_slots cd_unknown].
  repeat split; try assumption.
  intros x Hx. rewrite !(slot_get_del _ _ Hx). apply R1.
Qed.

(* ---------------------------------------------------------------------------------------------- *)
(* the same for class-file structures and their bytes *)
From FB Require Import C01.Theory6 C01.Theory7 C01.Theory8.

Definition rkey (rs : N -> N -> res cval) (r : raw) : str :=
  match r with RAttr i _ => match rs 8 i with Ok (VUtf8 n) => key n | _ => [] end | _ => [] end.
(* a field_info / method_info with its attribute list permuted *)
Inductive rmperm (rs : N -> N -> res cval) : raw -> raw -> Prop :=
| rmperm_intro a n d rl rl' : Permutation rl rl' -> NoDup (map (rkey rs) rl) ->
    rmperm rs (RSeq [a; n; d; RVec16 rl]) (RSeq [a; n; d; RVec16 rl']).
(* a class file with the class attributes and the attributes of every member permuted; the keys (attribute
   names through the constant pool) pairwise different in each list *)
Inductive cperm (dec : bytes -> res str) : rclass -> rclass -> Prop :=
| cperm_intro minor major es h fl fl' ml ml' al al' :
    (forall p, decode_pool dec es = Ok p ->
       Permutation al al' /\ NoDup (map (rkey (acc p)) al) /\
       Forall2 (rmperm (acc p)) fl fl' /\ Forall2 (rmperm (acc p)) ml ml') ->
    cperm dec {| rc_minor := minor; rc_major := major; rc_pool := es; rc_head := h;
                 rc_fields := RVec16 fl; rc_methods := RVec16 ml; rc_attrs := RVec16 al |}
              {| rc_minor := minor; rc_major := major; rc_pool := es; rc_head := h;
                 rc_fields := RVec16 fl'; rc_methods := RVec16 ml'; rc_attrs := RVec16 al' |}.

Lemma desc_attr_key impl dec rs sel r v : desc_fmt impl dec rs (FAttr sel) r = Ok v -> akey v = rkey rs r.
Proof.
  intros E. destruct r; cbn [desc_fmt] in E; try discriminate E. cbn [rkey].
  destruct (rs 8 name) as [c|]; [|discriminate E]. cbn [bind] in E. destruct c; try discriminate E.
  match type of E with (do v <- ?x; _) = _ => destruct x; [|discriminate E] end. cbn [bind] in E.
  injection E as <-. reflexivity.
Qed.

Lemma map_res_perm {A B} (f : A -> res B) l l' : Permutation l l' ->
  res_rel (@Permutation B) (map_res f l) (map_res f l').
Proof.
  induction 1 as [|x l l' HP IH|x y l|l l' l'' HP1 IH1 HP2 IH2].
  - exists []. split; [reflexivity|constructor].
  - cbn [map_res]. destruct (f x); cbn [bind]; [|reflexivity]. unfold res_rel in *.
    destruct (map_res f l); [destruct IH as (ys' & -> & H); cbn [bind]; eexists; split; [reflexivity|constructor; exact H]
                            |rewrite IH; reflexivity].
  - cbn [map_res]. destruct (f y), (f x); cbn [bind]; try reflexivity; destruct (map_res f l); cbn [bind]; try reflexivity.
    eexists. split; [reflexivity|apply perm_swap].
  - unfold res_rel in *. destruct (map_res f l).
    + destruct IH1 as (y' & E1 & P1). rewrite E1 in IH2. destruct IH2 as (y'' & E2 & P2).
      exists y''. split; [exact E2|eapply perm_trans; eassumption].
    + rewrite IH1 in IH2. exact IH2.
Qed.

Lemma map_res_map_eq {A B C} (f : A -> res B) (g : B -> C) (h : A -> C) :
  (forall r v, f r = Ok v -> g v = h r) -> forall l vl, map_res f l = Ok vl -> map g vl = map h l.
Proof.
  intros H. induction l as [|r l IH]; intros vl E; cbn [map_res] in E.
  - injection E as <-. reflexivity.
  - destruct (f r) as [v|] eqn:E1; [|discriminate E]. cbn [bind] in E.
    destruct (map_res f l) as [vs|]; [|discriminate E]. cbn [bind] in E. injection E as <-.
    cbn [map]. rewrite (H r v E1), (IH vs eq_refl). reflexivity.
Qed.

Lemma desc_vec16 impl dec rs f rl :
  desc_fmt impl dec rs (FVec16 f) (RVec16 rl) = (do vs <- map_res (desc_fmt impl dec rs f) rl; Ok (VList vs)).
Proof. reflexivity. Qed.
Lemma desc_seq4 impl dec rs f1 f2 f3 f4 a n d x :
  desc_fmt impl dec rs (FSeq [f1; f2; f3; f4]) (RSeq [a; n; d; x])
  = (do va <- desc_fmt impl dec rs f1 a; do vn <- desc_fmt impl dec rs f2 n; do vd <- desc_fmt impl dec rs f3 d;
     do vx <- desc_fmt impl dec rs f4 x; Ok (VSeq [va; vn; vd; vx])).
Proof.
  cbn [desc_fmt desc_all map].
  destruct (desc_fmt impl dec rs f1 a); cbn [bind]; [|reflexivity].
  destruct (desc_fmt impl dec rs f2 n); cbn [bind]; [|reflexivity].
  destruct (desc_fmt impl dec rs f3 d); cbn [bind]; [|reflexivity].
  destruct (desc_fmt impl dec rs f4 x); reflexivity.
Qed.

Lemma attrs_perm impl dec rs sel rl rl' : Permutation rl rl' -> NoDup (map (rkey rs) rl) ->
  res_rel (fun al al' => Permutation al al' /\ NoDup (map akey al))
    (map_res (desc_fmt impl dec rs (FAttr sel)) rl) (map_res (desc_fmt impl dec rs (FAttr sel)) rl').
Proof.
  intros HP ND. pose proof (map_res_perm (desc_fmt impl dec rs (FAttr sel)) rl rl' HP) as R. unfold res_rel in *.
  destruct (map_res (desc_fmt impl dec rs (FAttr sel)) rl) as [al|] eqn:E; [|exact R].
  destruct R as (al' & E' & P). exists al'. split; [exact E'|]. split; [exact P|].
  rewrite (map_res_map_eq _ akey (rkey rs) (desc_attr_key impl dec rs sel) rl al E). exact ND.
Qed.

Lemma member_desc_perm impl dec rs k sel m m' : rmperm rs m m' ->
  res_rel mperm (desc_fmt impl dec rs (FSeq [FFlags k; FIdx 8; FIdx 8; FVec16 (FAttr sel)]) m)
                (desc_fmt impl dec rs (FSeq [FFlags k; FIdx 8; FIdx 8; FVec16 (FAttr sel)]) m').
Proof.
  intros [a n d rl rl' HP ND]. rewrite !desc_seq4, !desc_vec16.
  destruct (desc_fmt impl dec rs (FFlags k) a); cbn [bind]; [|reflexivity].
  destruct (desc_fmt impl dec rs (FIdx 8) n); cbn [bind]; [|reflexivity].
  destruct (desc_fmt impl dec rs (FIdx 8) d); cbn [bind]; [|reflexivity].
  pose proof (attrs_perm impl dec rs sel rl rl' HP ND) as R. unfold res_rel in R.
  destruct (map_res (desc_fmt impl dec rs (FAttr sel)) rl) as [al|]; [|rewrite R; reflexivity].
  destruct R as (al' & -> & P & N). cbn [bind res_rel]. eexists. split; [reflexivity|]. constructor; assumption.
Qed.

Theorem describe_perm impl dec c c' : cperm dec c c' -> res_rel cequiv (describe impl dec c) (describe impl dec c').
Proof.
  intros [minor major es h fl fl' ml ml' al al' H]. unfold describe.
  cbn [rc_minor rc_major rc_pool rc_head rc_fields rc_methods rc_attrs].
  destruct (header_ok magic minor major); cbn [negb]; [|reflexivity].
  destruct (decode_pool dec es) as [p|]; cbn [bind]; [|reflexivity].
  destruct (H p eq_refl) as (HP & ND & HF & HM). cbv zeta.
  destruct (desc_fmt impl dec (acc p) head_fmt h) as [head|]; cbn [bind]; [|reflexivity].
  unfold class_attrs_fmt, fields_fmt, methods_fmt. rewrite !desc_vec16.
  pose proof (attrs_perm impl dec (acc p) class_sel al al' HP ND) as R. unfold res_rel in R.
  destruct (map_res (desc_fmt impl dec (acc p) (FAttr class_sel)) al) as [val|]; [|rewrite R; reflexivity].
  destruct R as (val' & -> & P & N). cbn [bind].
  pose proof (map_res_rel _ _ (rmperm (acc p)) mperm (member_desc_perm impl dec (acc p) 1 field_sel) fl fl' HF) as RF.
  unfold res_rel in RF.
  destruct (map_res (desc_fmt impl dec (acc p) (FSeq [FFlags 1; FIdx 8; FIdx 8; FVec16 (FAttr field_sel)])) fl) as [vfl|]; [|rewrite RF; reflexivity].
  destruct RF as (vfl' & -> & HF2). cbn [bind].
  pose proof (map_res_rel _ _ (rmperm (acc p)) mperm (member_desc_perm impl dec (acc p) 2 method_sel) ml ml' HM) as RM.
  unfold res_rel in RM.
  destruct (map_res (desc_fmt impl dec (acc p) (FSeq [FFlags 2; FIdx 8; FIdx 8; FVec16 (FAttr method_sel)])) ml) as [vml|]; [|rewrite RM; reflexivity].
  destruct RM as (vml' & -> & HM2). cbn [bind].
  apply build_class_perm; assumption.
Qed.

(* ATTRIBUTE ORDER, whole files: duke reads the two files to equivalent descriptions or refuses both *)
Theorem read_class_attr_order impl dec c c' :
  class_fits impl dec c = true -> class_fits impl dec c' = true -> cperm dec c c' ->
  res_rel cequiv (read_class impl dec (encode_class c)) (read_class impl dec (encode_class c')).
Proof.
  intros F F' H. rewrite (read_class_encode impl dec c F), (read_class_encode impl dec c' F'). apply describe_perm. exact H.
Qed.

(* ---------------------------------------------------------------------------------------------- *)
(* non-vacuity: the example class (Witness.v) with the class attributes (InnerClasses, an unknown one), the field's
   (ConstantValue, an unknown one) and the method's (Code, RuntimeVisibleAnnotations, Exceptions) reversed *)
From FB Require Import C01.Mutf8 C01.Witness.
Definition rev_member (m : raw) : raw :=
  match m with RSeq [a; n; d; RVec16 rl] => RSeq [a; n; d; RVec16 (rev rl)] | _ => m end.
Definition ex_class_rev : rclass :=
  {| rc_minor := 0; rc_major := 61; rc_pool := ex_pool; rc_head := rc_head ex_class;
     rc_fields := match rc_fields ex_class with RVec16 l => RVec16 (map rev_member l) | r => r end;
     rc_methods := match rc_methods ex_class with RVec16 l => RVec16 (map rev_member l) | r => r end;
     rc_attrs := match rc_attrs ex_class with RVec16 l => RVec16 (rev l) | r => r end |}.
Ltac nodup_tac :=
  vm_compute; repeat constructor; cbn [In]; intros H;
  repeat match goal with H : _ \/ _ |- _ => destruct H as [H|H] end; try contradiction; discriminate H.
Lemma ex_cperm : cperm mutf8_dec ex_class ex_class_rev.
Proof.
  unfold ex_class_rev, ex_class, ex_with, ex_method.
  cbn [rc_head rc_fields rc_methods rc_attrs map rev_member app].
  apply cperm_intro. intros p E. vm_compute in E. injection E as <-.
  split; [apply Permutation_rev|]. split; [nodup_tac|]. split.
  - constructor; [|constructor]. constructor; [apply Permutation_rev|nodup_tac].
  - constructor; [|constructor]. constructor; [apply Permutation_rev|nodup_tac].
Qed.
Definition nonvacuous25 : Prop :=
  cperm mutf8_dec ex_class ex_class_rev /\
  class_fits true mutf8_dec ex_class = true /\ class_fits true mutf8_dec ex_class_rev = true /\
  encode_class ex_class <> encode_class ex_class_rev /\
  (exists d, read_class true mutf8_dec (encode_class ex_class_rev) = Ok d).
Lemma nonvacuous25_holds : nonvacuous25.
Proof.
  split; [exact ex_cperm|]. split; [vm_compute; reflexivity|]. split; [vm_compute; reflexivity|]. split.
  - vm_compute. intros H. discriminate H.
  - destruct (read_class true mutf8_dec (encode_class ex_class_rev)) as [d|] eqn:E; [exists d; reflexivity|vm_compute in E; discriminate E].
Qed.
