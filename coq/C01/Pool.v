(* C01 — model of the reader's constant pool (duke/src/class_reader/pool.rs): entries as they stand
   in the file, two-slot Long/Double, and the lazy resolution functions PoolEntry::as_* /
   PoolRead::get_*, including the bootstrap-method indirection of Dynamic / InvokeDynamic.
   Definitions only.  Strings enter the model already decoded (MUTF-8 is not modelled); the
   validity checks of the name/descriptor newtypes (C18) are not repeated here: the theorems and
   the correspondence are about pools whose names are valid. *)
From FB Require Export C01.Bytes.

Inductive entry :=
| EUtf8 (s : str)
| EInt (z : Z) | EFloat (bits : N) | ELong (z : Z) | EDouble (bits : N)
| EClass (name : N) | EString (s : N)
| EFieldRef (c nt : N) | EMethodRef (c nt : N) | EIMethodRef (c nt : N)
| ENameAndType (n d : N)
| EMethodHandle (kind ref : N) | EMethodType (d : N)
| EDynamic (bsm nt : N) | EInvokeDynamic (bsm nt : N)
| EModule (n : N) | EPackage (n : N).

(* PoolRead::read: index 0 and the slot after a Long/Double hold nothing *)
Definition two_slot (e : entry) : bool := match e with ELong _ | EDouble _ => true | _ => false end.
Definition pool := list (option entry).
Definition pool_of_entries (es : list entry) : pool :=
  None :: flat_map (fun e => if two_slot e then [Some e; None] else [Some e]) es.

Definition pget (p : pool) (i : N) : res entry :=
  match nth_error p (N.to_nat i) with Some (Some e) => Ok e | _ => Err end.

(* resolved values, as duke's tree holds them *)
Inductive cval :=
| VInt (z : Z) | VFloat (bits : N) | VLong (z : Z) | VDouble (bits : N)
| VUtf8 (s : str)
| VClass (s : str) | VString (s : str)
| VField (c n d : str)
| VMethod (c n d : str) (itf : bool)
| VNameType (n d : str)
| VHandle (kind : N) (ref : cval)
| VMethodType (d : str)
| VDynamic (n d : str) (h : cval) (args : list cval)
| VIndy (n d : str) (h : cval) (args : list cval)
| VModule (s : str) | VPackage (s : str).

Definition get_utf8 (p : pool) (i : N) : res str :=
  do e <- pget p i; match e with EUtf8 s => Ok s | _ => Err end.
Definition get_class (p : pool) (i : N) : res str :=
  do e <- pget p i; match e with EClass n => get_utf8 p n | _ => Err end.
Definition get_nt (p : pool) (i : N) : res (str * str) :=
  do e <- pget p i;
  match e with ENameAndType n d => do a <- get_utf8 p n; do b <- get_utf8 p d; Ok (a, b) | _ => Err end.
Definition get_field_ref (p : pool) (i : N) : res cval :=
  do e <- pget p i;
  match e with
  | EFieldRef c nt => do cs <- get_class p c; do (n, d) <- get_nt p nt; Ok (VField cs n d)
  | _ => Err
  end.
Definition get_method_ref (p : pool) (i : N) : res cval :=
  do e <- pget p i;
  match e with
  | EMethodRef c nt => do cs <- get_class p c; do (n, d) <- get_nt p nt; Ok (VMethod cs n d false)
  | _ => Err
  end.
Definition get_imethod_ref (p : pool) (i : N) : res cval :=
  do e <- pget p i;
  match e with
  | EIMethodRef c nt => do cs <- get_class p c; do (n, d) <- get_nt p nt; Ok (VMethod cs n d true)
  | _ => Err
  end.
Definition get_any_method_ref (p : pool) (i : N) : res cval :=
  do e <- pget p i;
  match e with
  | EMethodRef c nt => do cs <- get_class p c; do (n, d) <- get_nt p nt; Ok (VMethod cs n d false)
  | EIMethodRef c nt => do cs <- get_class p c; do (n, d) <- get_nt p nt; Ok (VMethod cs n d true)
  | _ => Err
  end.

(* as_method_handle: which kind of reference each reference_kind demands *)
Definition handle_of (p : pool) (kind ref : N) : res cval :=
  if (1 <=? kind) && (kind <=? 4) then do r <- get_field_ref p ref; Ok (VHandle kind r)
  else if (kind =? 5) || (kind =? 8) then do r <- get_method_ref p ref; Ok (VHandle kind r)
  else if (kind =? 6) || (kind =? 7) then do r <- get_any_method_ref p ref; Ok (VHandle kind r)
  else if kind =? 9 then do r <- get_imethod_ref p ref; Ok (VHandle kind r)
  else Err.
Definition get_method_handle (p : pool) (i : N) : res cval :=
  do e <- pget p i; match e with EMethodHandle k r => handle_of p k r | _ => Err end.
Definition get_method_type (p : pool) (i : N) : res cval :=
  do e <- pget p i; match e with EMethodType d => do s <- get_utf8 p d; Ok (VMethodType s) | _ => Err end.

Fixpoint map_res {A B} (f : A -> res B) (l : list A) : res (list B) :=
  match l with
  | [] => Ok []
  | x :: l' => do y <- f x; do ys <- map_res f l'; Ok (y :: ys)
  end.

(* bootstrap methods: (pool index of the handle, pool indices of the arguments); duke resolves the
   handle when the attribute is read and the arguments lazily, recursively *)
Definition bsms := list (N * list N).

(* MAX_BOOTSTRAP_ARGUMENT_NESTING = 64: a Dynamic entry may stand at nesting 0..64 below the
   instruction; [fuel] is 66 - nesting.  (The budget of 65536 expanded arguments per instruction is
   not modelled.) *)
Fixpoint get_loadable (fuel : nat) (p : pool) (b : bsms) (i : N) : res cval :=
  match fuel with
  | O => Err
  | S f =>
    do e <- pget p i;
    match e with
    | EInt z => Ok (VInt z)
    | EFloat x => Ok (VFloat x)
    | ELong z => Ok (VLong z)
    | EDouble x => Ok (VDouble x)
    | EClass n => do s <- get_utf8 p n; Ok (VClass s)
    | EString n => do s <- get_utf8 p n; Ok (VString s)
    | EMethodHandle k r => handle_of p k r
    | EMethodType d => do s <- get_utf8 p d; Ok (VMethodType s)
    | EDynamic bi nt =>
      match f with
      | O => Err
      | S _ =>
        do (n, d) <- get_nt p nt;
        match nth_error b (N.to_nat bi) with
        | Some (h, args) =>
          do hv <- get_method_handle p h;
          do avs <- map_res (get_loadable f p b) args;
          Ok (VDynamic n d hv avs)
        | None => Err
        end
      end
    | _ => Err
    end
  end.
Definition nesting_fuel : nat := 66.

Definition get_invoke_dynamic (p : pool) (b : bsms) (i : N) : res cval :=
  do e <- pget p i;
  match e with
  | EInvokeDynamic bi nt =>
    do (n, d) <- get_nt p nt;
    match nth_error b (N.to_nat bi) with
    | Some (h, args) =>
      do hv <- get_method_handle p h;
      do avs <- map_res (get_loadable (pred nesting_fuel) p b) args;
      Ok (VIndy n d hv avs)
    | None => Err
    end
  | _ => Err
  end.

Definition get_constant_value (p : pool) (i : N) : res cval :=
  do e <- pget p i;
  match e with
  | EInt z => Ok (VInt z) | EFloat x => Ok (VFloat x) | ELong z => Ok (VLong z) | EDouble x => Ok (VDouble x)
  | EString n => do s <- get_utf8 p n; Ok (VString s)
  | _ => Err
  end.
Definition get_module (p : pool) (i : N) : res cval :=
  do e <- pget p i; match e with EModule n => do s <- get_utf8 p n; Ok (VModule s) | _ => Err end.
Definition get_package (p : pool) (i : N) : res cval :=
  do e <- pget p i; match e with EPackage n => do s <- get_utf8 p n; Ok (VPackage s) | _ => Err end.

(* the accessors by number: 0..6 are the operand kinds of Opcodes.v (RCp8/RCp16) *)
Definition resolve_kind (p : pool) (b : bsms) (kind i : N) : res cval :=
  if kind =? 0 then get_loadable nesting_fuel p b i
  else if kind =? 1 then get_field_ref p i
  else if kind =? 2 then get_method_ref p i
  else if kind =? 3 then get_any_method_ref p i
  else if kind =? 4 then get_imethod_ref p i
  else if kind =? 5 then get_invoke_dynamic p b i
  else if kind =? 6 then (do s <- get_class p i; Ok (VClass s))
  else if kind =? 7 then get_constant_value p i
  else if kind =? 8 then (do s <- get_utf8 p i; Ok (VUtf8 s))
  else if kind =? 9 then get_method_handle p i
  else if kind =? 10 then (do nd <- get_nt p i; Ok (VNameType (fst nd) (snd nd)))
  else if kind =? 11 then get_module p i
  else if kind =? 12 then get_package p i
  else Err.

(* equality of resolved values (for the correspondence check) *)
Fixpoint cval_eqb (a b : cval) : bool :=
  match a, b with
  | VInt x, VInt y | VLong x, VLong y => Z.eqb x y
  | VFloat x, VFloat y | VDouble x, VDouble y => N.eqb x y
  | VUtf8 x, VUtf8 y | VClass x, VClass y | VString x, VString y | VMethodType x, VMethodType y
  | VModule x, VModule y | VPackage x, VPackage y => str_eqb x y
  | VField c n d, VField c' n' d' => str_eqb c c' && str_eqb n n' && str_eqb d d'
  | VMethod c n d i, VMethod c' n' d' i' => str_eqb c c' && str_eqb n n' && str_eqb d d' && Bool.eqb i i'
  | VNameType n d, VNameType n' d' => str_eqb n n' && str_eqb d d'
  | VHandle k r, VHandle k' r' => N.eqb k k' && cval_eqb r r'
  | VDynamic n d h args, VDynamic n' d' h' args' | VIndy n d h args, VIndy n' d' h' args' =>
    str_eqb n n' && str_eqb d d' && cval_eqb h h'
    && (fix go (l l' : list cval) : bool :=
          match l, l' with
          | [], [] => true
          | x :: r, y :: r' => cval_eqb x y && go r r'
          | _, _ => false
          end) args args'
  | _, _ => false
  end.
