(* C01 — theory, part 22 (round 5): ATTRIBUTE ORDER INDEPENDENCE for the dispatch the whole-file reader uses.
   Theory6's attr_order_independent speaks about an abstract lookup by name (Attr.lookup_attr); the reader
   of whole class files (ClassFile.read_class) folds [apply_attr] over each attribute list, and the tree
   visitor's bookkeeping (store once / extend / overwrite / one list for both local-variable tables / one
   slot for both stack-map attributes / unknown attributes in file order) is part of that fold.  Here: every
   attribute is one of six kinds of operation on the attribute state, an operation touches only slots that
   have the attribute's key, operations on disjoint slots commute, hence the fold over any permutation of
   a list with pairwise different keys ends in an equivalent state or fails for both orders. *)
From Coq Require Import Permutation.
From FB Require Import C01.Bytes C01.Model C01.Pool C01.Resolve C01.Fmt C01.Formats C01.ClassFile.
Arguments N.add : simpl never.

Definition key (n : str) : str :=
  if str_eqb n a_LocalVariableTypeTable then a_LocalVariableTable
  else if str_eqb n a_StackMap then a_StackMapTable else n.

Definition sequiv (s s' : astate) : Prop :=
  (forall x, slot_get x (st_slots s) = slot_get x (st_slots s')) /\ Permutation (st_unknown s) (st_unknown s') /\
  st_code s = st_code s' /\ st_had_record s = st_had_record s'.
Definition requiv (r r' : res astate) : Prop :=
  match r, r' with Ok s, Ok s' => sequiv s s' | Err, Err => True | _, _ => False end.

Lemma sequiv_refl s : sequiv s s.
Proof. repeat split; reflexivity. Qed.
Lemma requiv_refl r : requiv r r.
Proof. destruct r; [apply sequiv_refl|exact I]. Qed.
Lemma sequiv_trans a b c : sequiv a b -> sequiv b c -> sequiv a c.
Proof. intros (A1 & A2 & A3 & A4) (B1 & B2 & B3 & B4). repeat split; [intros x; rewrite A1; apply B1|eapply Permutation_trans; eassumption|congruence|congruence]. Qed.
Lemma requiv_trans a b c : requiv a b -> requiv b c -> requiv a c.
Proof. destruct a, b, c; cbn; try tauto. apply sequiv_trans. Qed.
Lemma sequiv_sym a b : sequiv a b -> sequiv b a.
Proof. intros (A1 & A2 & A3 & A4). repeat split; [intros x; symmetry; apply A1|apply Permutation_sym; exact A2|congruence|congruence]. Qed.

Lemma slot_get_put x k w : forall l, slot_get x (slot_put k w l) = if str_eqb k x then Some w else slot_get x l.
Proof.
  induction l as [|[k' v'] l IH]; cbn [slot_put slot_get]; [reflexivity|].
  destruct (str_eqb k' k) eqn:E; cbn [slot_get].
  - apply str_eqb_eq in E. subst k'. destruct (str_eqb k x); reflexivity.
  - rewrite IH. destruct (str_eqb k' x) eqn:E1; [|reflexivity]. destruct (str_eqb k x) eqn:E2; [|reflexivity].
    apply str_eqb_eq in E1, E2. subst. rewrite str_eqb_refl in E. discriminate.
Qed.
Lemma slot_list_get x l : slot_list x l = match slot_get x l with Some (VList y) => y | _ => [] end.
Proof. reflexivity. Qed.

(* an operation on equivalent states *)
Lemma apply_attr_equiv impl p b ctx st st' n v : sequiv st st' ->
  requiv (apply_attr impl p b ctx st n v) (apply_attr impl p b ctx st' n v).
Proof.
  intros (H1 & H2 & H3 & H4). unfold apply_attr, apply_simple, st_put, slot_list.
  destruct (policy_of impl ctx n); rewrite <- ?H1, <- ?H3, <- ?H4;
    repeat first [ match goal with |- context [bind ?x _] => destruct x; cbn [bind] end
                 | match goal with |- context [match ?x with _ => _ end] => destruct x end ];
    cbn [requiv]; try exact I;
    repeat split; cbn [st_slots st_unknown st_code st_had_record]; try assumption; try reflexivity;
    try (intros x; rewrite !slot_get_put, H1; reflexivity).
  all: try (apply Permutation_app_tail; assumption).
Qed.

Lemma key_idem_lvt : key a_LocalVariableTable = a_LocalVariableTable. Proof. reflexivity. Qed.
Lemma key_smt : key a_StackMapTable = a_StackMapTable. Proof. reflexivity. Qed.
Lemma key_sm : key a_StackMap = a_StackMapTable. Proof. reflexivity. Qed.

Lemma touch_ne a b : key a <> key b -> str_eqb a b = false.
Proof. intros H. apply str_eqb_neq. intros ->. apply H. reflexivity. Qed.

Lemma key_other n : str_eqb n a_LocalVariableTypeTable = false -> str_eqb n a_StackMap = false -> key n = n.
Proof. intros A B. unfold key. rewrite A, B. reflexivity. Qed.

(* which slots an attribute touches, by its policy: all of them have the attribute's key *)
Lemma pol_facts impl ctx n :
  match policy_of impl ctx n with
  | PLocals _ => key n = a_LocalVariableTable
  | PFrames => key n = a_StackMapTable /\ (n = a_StackMapTable \/ n = a_StackMap)
  | PCode => n = a_Code
  | PRecord => n = a_Record
  | PUnknown | PDrop => True
  | _ => key n = n
  end.
Proof.
  unfold policy_of.
  destruct (negb (mem_str n (ctx_names ctx))); [exact I|].
  destruct (str_eqb n a_Deprecated || str_eqb n a_Synthetic) eqn:E1.
  { apply orb_true_iff in E1. destruct E1 as [E|E]; apply str_eqb_eq in E; subst n; reflexivity. }
  destruct (str_eqb n a_Code) eqn:E2; [apply str_eqb_eq in E2; exact E2|].
  destruct (str_eqb n a_Record) eqn:E3; [apply str_eqb_eq in E3; exact E3|].
  destruct (str_eqb n a_StackMapTable || str_eqb n a_StackMap) eqn:E4.
  { apply orb_true_iff in E4. destruct E4 as [E|E]; apply str_eqb_eq in E; subst n; split; try reflexivity; [left|right]; reflexivity. }
  apply orb_false_iff in E4. destruct E4 as [E4 E4'].
  destruct (mem_str n [a_RuntimeVisibleAnnotations; a_RuntimeInvisibleAnnotations; a_RuntimeVisibleTypeAnnotations;
                        a_RuntimeInvisibleTypeAnnotations; a_LineNumberTable]) eqn:E5.
  { unfold mem_str in E5. cbn [existsb] in E5. repeat (apply orb_true_iff in E5; destruct E5 as [E5|E5]); try discriminate;
      apply str_eqb_eq in E5; subst n; reflexivity. }
  destruct (str_eqb n a_LocalVariableTable) eqn:E6; [apply str_eqb_eq in E6; subst n; reflexivity|].
  destruct (str_eqb n a_LocalVariableTypeTable) eqn:E7; [apply str_eqb_eq in E7; subst n; reflexivity|].
  destruct (str_eqb n a_AnnotationDefault); [apply key_other; assumption|].
  destruct (mem_str n [a_RuntimeVisibleParameterAnnotations; a_RuntimeInvisibleParameterAnnotations]);
    [destruct impl; [exact I|apply key_other; assumption]|apply key_other; assumption].
Qed.


(* ---------- every attribute is one of six kinds of operation on the state ---------- *)
Definition lst (o : option val) : list val := match o with Some (VList x) => x | _ => [] end.

Inductive opk :=
| OErr | ONone
| OSlot (rd : list str) (w : str) (f : list (option val) -> res val)   (* reads the slots rd, writes slot w *)
| OUnknown (n : str) (bs : bytes)
| OCode (c : res code_desc)
| ORecord (k : str) (cs : res (option val)).                         (* writes slot k, or nothing *)

Definition run (o : opk) (st : astate) : res astate :=
  match o with
  | OErr => Err
  | ONone => Ok st
  | OSlot rd w f => do x <- f (map (fun k => slot_get k (st_slots st)) rd); Ok (st_put st w x)
  | OUnknown n bs => Ok {| st_slots := st_slots st; st_unknown := st_unknown st ++ [(n, bs)]; st_code := st_code st;
                           st_had_record := st_had_record st |}
  | OCode c => match st_code st with
               | Some _ => Err
               | None => do c' <- c; Ok {| st_slots := st_slots st; st_unknown := st_unknown st; st_code := Some c'; st_had_record := st_had_record st |}
               end
  | ORecord k cs => if st_had_record st then Err else
                    do w <- cs;
                    Ok {| st_slots := match w with Some v => slot_put k v (st_slots st) | None => st_slots st end;
                          st_unknown := st_unknown st; st_code := st_code st; st_had_record := true |}
  end.

Definition op_of (impl : bool) (p : pool) (b : bsms) (ctx : N) (n : str) (v : val) : opk :=
  match policy_of impl ctx n with
  | PUnknown => match v with VB bs => OUnknown n bs | _ => OErr end
  | PFlag => OSlot [] n (fun _ => Ok (VSeq []))
  | POnce => OSlot [n] n (fun os => match os with [None] => Ok v | _ => Err end)
  | POver => OSlot [] n (fun _ => Ok v)
  | PExtend => match v with
               | VList l => OSlot [n] n (fun os => match os with [o] => Ok (VList (lst o ++ l)) | _ => Err end)
               | _ => OErr
               end
  | PLocals t => match v with
                 | VList l => OSlot [a_LocalVariableTable] a_LocalVariableTable
                                (fun os => match os with [o] => Ok (VList (lst o ++ map (VTag t) l)) | _ => Err end)
                 | _ => OErr
                 end
  | PDrop => ONone
  | PFrames => OSlot [a_StackMapTable; a_StackMap] n (fun os => match os with [None; None] => Ok v | _ => Err end)
  | PCode => OCode (build_code impl p b v)
  | PRecord => match v with
               | VList comps => ORecord n (do cs <- map_res (build_component impl) comps;
                                           Ok (match cs with [] => if impl then None else Some (VList []) | _ => Some (VList cs) end))
               | _ => OErr
               end
  end.

Lemma apply_attr_run impl p b ctx st n v : apply_attr impl p b ctx st n v = run (op_of impl p b ctx n v) st.
Proof.
  unfold apply_attr, apply_simple, op_of, slot_list. destruct (policy_of impl ctx n); cbn [run].
  - destruct v; reflexivity.
  - reflexivity.
  - cbn [map]. destruct (slot_get n (st_slots st)); reflexivity.
  - reflexivity.
  - destruct v; reflexivity.
  - destruct v; reflexivity.
  - reflexivity.
  - destruct (st_code st); reflexivity.
  - destruct v; cbn [run]; try (destruct (st_had_record st); reflexivity).
    destruct (st_had_record st); [reflexivity|]. destruct (map_res (build_component impl) l) as [cs|]; cbn [bind]; [|reflexivity].
    destruct cs; [destruct impl|]; reflexivity.
  - cbn [map]. destruct (slot_get a_StackMapTable (st_slots st)); [reflexivity|]. destruct (slot_get a_StackMap (st_slots st)); reflexivity.
Qed.

Definition touches (o : opk) : list str :=
  match o with OSlot rd w _ => w :: rd | ORecord k _ => [k] | _ => [] end.
Definition clash (o1 o2 : opk) : Prop :=
  match o1, o2 with OCode _, OCode _ | ORecord _ _, ORecord _ _ => True | _, _ => False end.

Lemma touches_key impl p b ctx n v a : In a (touches (op_of impl p b ctx n v)) -> key a = key n.
Proof.
  unfold op_of. pose proof (pol_facts impl ctx n) as F. destruct (policy_of impl ctx n); cbn [touches In].
  - destruct v; cbn; tauto.
  - intros [<-|[]]; reflexivity.
  - intros [<-|[<-|[]]]; reflexivity.
  - intros [<-|[]]; reflexivity.
  - destruct v; cbn [touches In]; try tauto. intros [<-|[<-|[]]]; reflexivity.
  - destruct v; cbn [touches In]; try tauto. intros [<-|[<-|[]]]; rewrite F; reflexivity.
  - tauto.
  - tauto.
  - destruct v; cbn [touches In]; try tauto. intros [<-|[]]; reflexivity.
  - destruct F as [F _]. intros [<-|[<-|[<-|[]]]]; rewrite ?F; reflexivity.
Qed.
Lemma clash_key impl p b ctx n1 v1 n2 v2 : clash (op_of impl p b ctx n1 v1) (op_of impl p b ctx n2 v2) -> n1 = n2.
Proof.
  unfold op_of. pose proof (pol_facts impl ctx n1) as F1. pose proof (pol_facts impl ctx n2) as F2.
  destruct (policy_of impl ctx n1); destruct v1; cbn [clash]; try tauto;
    destruct (policy_of impl ctx n2); destruct v2; cbn [clash]; try tauto; intros _; congruence.
Qed.

(* ---------- operations on disjoint slots commute ---------- *)
Lemma reads_after rd w x l : ~ In w rd -> map (fun k => slot_get k (slot_put w x l)) rd = map (fun k => slot_get k l) rd.
Proof.
  intros H. apply map_ext_in. intros k Hk. rewrite slot_get_put. destruct (str_eqb w k) eqn:E; [|reflexivity].
  apply str_eqb_eq in E. subst. contradiction.
Qed.
Lemma put_put_ext w1 y1 w2 y2 l : w1 <> w2 -> forall x,
  slot_get x (slot_put w2 y2 (slot_put w1 y1 l)) = slot_get x (slot_put w1 y1 (slot_put w2 y2 l)).
Proof.
  intros H x. rewrite !slot_get_put. destruct (str_eqb w2 x) eqn:E2; destruct (str_eqb w1 x) eqn:E1; try reflexivity.
  apply str_eqb_eq in E1, E2. congruence.
Qed.

Definition disj (o1 o2 : opk) : Prop := forall a, In a (touches o1) -> In a (touches o2) -> False.

Lemma bind_err' {A} (x : res A) : requiv (do _ <- x; Err) Err.
Proof. destruct x; exact I. Qed.

Lemma requiv_sym a b : requiv a b -> requiv b a.
Proof. destruct a, b; cbn; try tauto. apply sequiv_sym. Qed.

Ltac fin := cbn [requiv]; try exact I; try apply sequiv_refl;
  try (repeat split; cbn [st_slots st_unknown st_code st_had_record]; try reflexivity).

Lemma comm_ss rd1 w1 f1 rd2 w2 f2 st : disj (OSlot rd1 w1 f1) (OSlot rd2 w2 f2) ->
  requiv (do s <- run (OSlot rd1 w1 f1) st; run (OSlot rd2 w2 f2) s) (do s <- run (OSlot rd2 w2 f2) st; run (OSlot rd1 w1 f1) s).
Proof.
  intros D. destruct st as [l u c r]. cbn [run st_slots].
  assert (N1 : ~ In w1 rd2) by (intros H; apply (D w1); [left; reflexivity|right; exact H]).
  assert (N2 : ~ In w2 rd1) by (intros H; apply (D w2); [right; exact H|left; reflexivity]).
  assert (NE : w1 <> w2) by (intros ->; apply (D w2); left; reflexivity).
  destruct (f1 (map (fun k => slot_get k l) rd1)) as [x1|] eqn:E1; cbn [bind st_put st_slots st_unknown st_code st_had_record].
  - rewrite (reads_after rd2 w1 x1 l N1).
    destruct (f2 (map (fun k => slot_get k l) rd2)) as [x2|] eqn:E2; cbn [bind st_put st_slots st_unknown st_code st_had_record].
    + rewrite (reads_after rd1 w2 x2 l N2), E1. cbn [bind]. fin. intros x. apply put_put_ext. exact NE.
    + exact I.
  - destruct (f2 (map (fun k => slot_get k l) rd2)) as [x2|] eqn:E2; cbn [bind st_put st_slots st_unknown st_code st_had_record]; [|exact I].
    rewrite (reads_after rd1 w2 x2 l N2), E1. exact I.
Qed.
Lemma comm_su rd1 w1 f1 n2 b2 st :
  requiv (do s <- run (OSlot rd1 w1 f1) st; run (OUnknown n2 b2) s) (do s <- run (OUnknown n2 b2) st; run (OSlot rd1 w1 f1) s).
Proof.
  destruct st as [l u c r]. cbn [run bind st_slots]. destruct (f1 (map (fun k => slot_get k l) rd1)); cbn [bind st_put st_slots st_unknown st_code st_had_record]; fin.
Qed.
Lemma comm_sc rd1 w1 f1 c2 st :
  requiv (do s <- run (OSlot rd1 w1 f1) st; run (OCode c2) s) (do s <- run (OCode c2) st; run (OSlot rd1 w1 f1) s).
Proof.
  destruct st as [l u c r]. cbn [run st_slots st_code].
  destruct (f1 (map (fun k => slot_get k l) rd1)) as [x1|] eqn:E1; cbn [bind st_put st_slots st_unknown st_code st_had_record run].
  - destruct c; [exact I|]. destruct c2; cbn [bind run st_slots st_put st_unknown st_code st_had_record]; [|exact I]. rewrite E1. cbn [bind]. fin.
  - destruct c; [exact I|]. destruct c2; cbn [bind run st_slots st_put st_unknown st_code st_had_record]; [|exact I]. rewrite E1. exact I.
Qed.
Lemma comm_sr rd1 w1 f1 k2 cs2 st : disj (OSlot rd1 w1 f1) (ORecord k2 cs2) ->
  requiv (do s <- run (OSlot rd1 w1 f1) st; run (ORecord k2 cs2) s) (do s <- run (ORecord k2 cs2) st; run (OSlot rd1 w1 f1) s).
Proof.
  intros D. destruct st as [l u c r]. cbn [run st_slots st_had_record].
  assert (N2 : ~ In k2 rd1) by (intros H; apply (D k2); [right; exact H|left; reflexivity]).
  assert (NE : w1 <> k2) by (intros ->; apply (D k2); left; reflexivity).
  destruct (f1 (map (fun k => slot_get k l) rd1)) as [x1|] eqn:E1; cbn [bind st_put st_slots st_unknown st_code st_had_record run].
  - destruct r; [exact I|]. destruct cs2 as [[v2|]|]; cbn [bind run st_slots st_put st_unknown st_code st_had_record]; try exact I.
    + rewrite (reads_after rd1 k2 v2 l N2), E1. cbn [bind]. fin. intros x. apply put_put_ext. exact NE.
    + rewrite E1. cbn [bind]. fin.
  - destruct r; [exact I|]. destruct cs2 as [[v2|]|]; cbn [bind run st_slots st_put st_unknown st_code st_had_record]; try exact I.
    + rewrite (reads_after rd1 k2 v2 l N2), E1. exact I.
    + rewrite E1. exact I.
Qed.
Lemma perm_app2 {A} (u : list A) a b : Permutation ((u ++ [a]) ++ [b]) ((u ++ [b]) ++ [a]).
Proof. rewrite <- !app_assoc. apply Permutation_app_head. apply perm_swap. Qed.
Lemma comm_uu n1 b1 n2 b2 st :
  requiv (do s <- run (OUnknown n1 b1) st; run (OUnknown n2 b2) s) (do s <- run (OUnknown n2 b2) st; run (OUnknown n1 b1) s).
Proof. destruct st as [l u c r]. cbn [run bind st_slots st_unknown st_code st_had_record]. fin. apply perm_app2. Qed.
Lemma comm_uc n1 b1 c2 st :
  requiv (do s <- run (OUnknown n1 b1) st; run (OCode c2) s) (do s <- run (OCode c2) st; run (OUnknown n1 b1) s).
Proof.
  destruct st as [l u c r]. cbn [run bind st_slots st_unknown st_code st_had_record].
  destruct c; [exact I|]. destruct c2; cbn [bind run st_slots st_unknown st_code st_had_record]; fin.
Qed.
Lemma comm_ur n1 b1 k2 cs2 st :
  requiv (do s <- run (OUnknown n1 b1) st; run (ORecord k2 cs2) s) (do s <- run (ORecord k2 cs2) st; run (OUnknown n1 b1) s).
Proof.
  destruct st as [l u c r]. cbn [run bind st_slots st_unknown st_code st_had_record].
  destruct r; [exact I|]. destruct cs2 as [[v2|]|]; cbn [bind run st_slots st_unknown st_code st_had_record]; fin.
Qed.
Lemma comm_cr c1 k2 cs2 st :
  requiv (do s <- run (OCode c1) st; run (ORecord k2 cs2) s) (do s <- run (ORecord k2 cs2) st; run (OCode c1) s).
Proof.
  destruct st as [l u c r]. cbn [run bind st_slots st_unknown st_code st_had_record].
  destruct c; [destruct r; [exact I|]; destruct cs2 as [[v2|]|]; cbn [bind run st_code]; exact I|].
  destruct c1; cbn [bind run st_slots st_unknown st_code st_had_record];
    destruct r; try exact I; destruct cs2 as [[v2|]|]; cbn [bind run st_slots st_unknown st_code st_had_record]; fin.
Qed.

Lemma disj_sym o1 o2 : disj o1 o2 -> disj o2 o1.
Proof. intros D a A B. exact (D a B A). Qed.

Theorem run_comm o1 o2 st : disj o1 o2 -> ~ clash o1 o2 ->
  requiv (do s <- run o1 st; run o2 s) (do s <- run o2 st; run o1 s).
Proof.
  intros D C.
  destruct o1 as [| |rd1 w1 f1|n1 b1|c1|k1 cs1]; destruct o2 as [| |rd2 w2 f2|n2 b2|c2|k2 cs2];
    try (exfalso; apply C; exact I).
  all: try (cbn [run bind]; match goal with |- requiv Err (do _ <- ?x; Err) => destruct x; exact I end).
  all: try (cbn [run bind]; match goal with |- requiv (do _ <- ?x; Err) Err => destruct x; exact I end).
  all: try (cbn [run bind]; match goal with |- requiv (do s <- ?x; Ok s) ?x => destruct x; [apply sequiv_refl|exact I] end).
  all: try (cbn [run bind]; match goal with |- requiv ?x (do s <- ?x; Ok s) => destruct x; [apply sequiv_refl|exact I] end).
  all: try (cbn [run bind requiv]; first [exact I|apply sequiv_refl]).
  - apply comm_ss; exact D.
  - apply comm_su.
  - apply comm_sc.
  - apply comm_sr; exact D.
  - apply requiv_sym. apply comm_su.
  - apply comm_uu.
  - apply comm_uc.
  - apply comm_ur.
  - apply requiv_sym. apply comm_sc.
  - apply requiv_sym. apply comm_uc.
  - apply comm_cr.
  - apply requiv_sym. apply comm_sr. apply disj_sym. exact D.
  - apply requiv_sym. apply comm_ur.
  - apply requiv_sym. apply comm_cr.
Qed.

(* ---------- attribute lists ---------- *)
Definition akey (a : val) : str := match a with VAttr n _ => key n | _ => [] end.
Definition step (impl : bool) (p : pool) (b : bsms) (ctx : N) (st : astate) (a : val) : res astate :=
  match a with VAttr n v => apply_attr impl p b ctx st n v | _ => Err end.
Lemma fold_attrs_cons impl p b ctx st a l :
  fold_attrs (apply_attr impl p b ctx) st (a :: l) = (do s <- step impl p b ctx st a; fold_attrs (apply_attr impl p b ctx) s l).
Proof. reflexivity. Qed.

Lemma bind_ext {A B} (x : res A) (f g : A -> res B) : (forall a, f a = g a) -> bind x f = bind x g.
Proof. intros H. destruct x; [apply H|reflexivity]. Qed.

Lemma swap_attr impl p b ctx st a1 a2 : akey a1 <> akey a2 ->
  requiv (do s <- step impl p b ctx st a1; step impl p b ctx s a2) (do s <- step impl p b ctx st a2; step impl p b ctx s a1).
Proof.
  intros Hk. destruct a1 as [| | | | | | | | | | | | |n1 v1]; try (cbn [step bind]; apply requiv_sym; apply bind_err').
  destruct a2 as [| | | | | | | | | | | | |n2 v2]; try (cbn [step bind]; apply bind_err').
  cbn [step akey] in *. rewrite !apply_attr_run.
  rewrite (bind_ext _ (fun s => apply_attr impl p b ctx s n2 v2) (fun s => run (op_of impl p b ctx n2 v2) s)) by (intros; apply apply_attr_run).
  rewrite (bind_ext _ (fun s => apply_attr impl p b ctx s n1 v1) (fun s => run (op_of impl p b ctx n1 v1) s)) by (intros; apply apply_attr_run).
  apply run_comm.
  - intros a A1 A2. apply Hk. rewrite <- (touches_key _ _ _ _ _ _ _ A1), <- (touches_key _ _ _ _ _ _ _ A2). reflexivity.
  - intros C. apply Hk. rewrite (clash_key _ _ _ _ _ _ _ _ C). reflexivity.
Qed.

Lemma fold_equiv impl p b ctx : forall l st st', sequiv st st' ->
  requiv (fold_attrs (apply_attr impl p b ctx) st l) (fold_attrs (apply_attr impl p b ctx) st' l).
Proof.
  induction l as [|a l IH]; intros st st' H; [exact H|]. rewrite !fold_attrs_cons.
  assert (R : requiv (step impl p b ctx st a) (step impl p b ctx st' a)).
  { destruct a; try exact I. apply apply_attr_equiv. exact H. }
  destruct (step impl p b ctx st a), (step impl p b ctx st' a); cbn [bind requiv] in *; try tauto. apply IH. exact R.
Qed.
Lemma bind_fold impl p b ctx l r r' : requiv r r' ->
  requiv (do s <- r; fold_attrs (apply_attr impl p b ctx) s l) (do s <- r'; fold_attrs (apply_attr impl p b ctx) s l).
Proof. destruct r, r'; cbn [bind requiv]; try tauto. apply fold_equiv. Qed.

(* ATTRIBUTE ORDER: over a permutation of an attribute list whose attributes have pairwise different keys
   (no name twice; not both LocalVariableTable and LocalVariableTypeTable, whose entries the tree keeps in
   one list in file order; not both StackMapTable and StackMap), the reader's fold — the dispatch that
   read_class actually uses, at class, field, method, Code and record-component level — fails for both
   orders or ends in equivalent states: the same value under every attribute name, the same Code, the same
   unknown attributes up to their order. *)
Theorem fold_attrs_perm impl p b ctx l l' : Permutation l l' -> NoDup (map akey l) -> forall st,
  requiv (fold_attrs (apply_attr impl p b ctx) st l) (fold_attrs (apply_attr impl p b ctx) st l').
Proof.
  induction 1 as [|x l l' HP IH|x y l|l l' l'' HP1 IH1 HP2 IH2]; intros ND st.
  - apply requiv_refl.
  - rewrite !fold_attrs_cons. cbn [map] in ND. inversion ND as [|? ? Hx ND']; subst.
    destruct (step impl p b ctx st x); cbn [bind]; [apply IH; exact ND'|exact I].
  - cbn [map] in ND. inversion ND as [|? ? Hy ND']; subst. inversion ND' as [|? ? Hx ND'']; subst.
    assert (Hk : akey y <> akey x) by (intros E; apply Hy; left; symmetry; exact E).
    rewrite !fold_attrs_cons.
    assert (A : forall a1 a2, (do s <- step impl p b ctx st a1; fold_attrs (apply_attr impl p b ctx) s (a2 :: l))
                = (do s <- (do s1 <- step impl p b ctx st a1; step impl p b ctx s1 a2); fold_attrs (apply_attr impl p b ctx) s l)).
    { intros a1 a2. destruct (step impl p b ctx st a1); reflexivity. }
    rewrite !A. apply bind_fold. apply swap_attr. exact Hk.
  - eapply requiv_trans; [apply IH1; exact ND|]. apply IH2.
    apply (Permutation_NoDup (Permutation_map akey HP1)). exact ND.
Qed.

(* non-vacuity: a Code attribute's list — LineNumberTable, LocalVariableTable, an unknown attribute, a
   StackMapTable — and its reverse; both orders succeed *)
Definition ex_attrs : list val :=
  [VAttr a_LineNumberTable (VList [VSeq [VPc 0 1; VN 5]]);
   VAttr a_LocalVariableTable (VList [VSeq [VRange 0 2; VC (VUtf8 [120]); VC (VUtf8 [73]); VN 0]]);
   VAttr [70; 111; 111] (VB [1; 2]);
   VAttr a_StackMapTable (VList [VTag 1 (VSeq [])])].
Definition nonvacuous22 : Prop :=
  NoDup (map akey ex_attrs) /\ Permutation ex_attrs (rev ex_attrs) /\
  (exists s, fold_attrs (apply_attr true [] [] 3) st_empty ex_attrs = Ok s) /\
  (exists s, fold_attrs (apply_attr true [] [] 3) st_empty (rev ex_attrs) = Ok s).
Lemma nonvacuous22_holds : nonvacuous22.
Proof.
  split; [|split; [apply Permutation_rev|split]].
  - cbn [map ex_attrs akey]. repeat constructor; cbn [In]; intros H;
      repeat match goal with H : _ \/ _ |- _ => destruct H as [H|H] end; try contradiction; vm_compute in H; discriminate H.
  - destruct (fold_attrs (apply_attr true [] [] 3) st_empty ex_attrs) as [s|] eqn:E; [exists s; reflexivity|vm_compute in E; discriminate E].
  - destruct (fold_attrs (apply_attr true [] [] 3) st_empty (rev ex_attrs)) as [s|] eqn:E; [exists s; reflexivity|vm_compute in E; discriminate E].
Qed.
