(* C01 — theory, part 19 (round 5): constant-pool layout independence of the CODE ARRAY.
   Two code arrays are related along a renaming [pi] of pool indices ([code_rel]) when, with the same
   label-carrying tables beside them, the reader takes both or refuses both, finds the same instruction
   boundaries, labels and frame offsets, and decodes instruction by instruction the same instruction
   with the renamed pool operands.  Then the Code attribute built over the re-laid-out pool is the one
   built over the original pool ([build_code_rel]).  Every pair of encodings of a body and of the same
   body with renamed operands, under one choice function, is related ([code_rel_encode]) — with
   C01_no_junk_code: every code array the reader accepts whose targets are instruction starts. *)
From FB Require Import Base.Sort C01.Model C01.Pool C01.Resolve C01.Fmt C01.Formats C01.ClassFile
  C01.Theory1 C01.Theory2 C01.Theory3 C01.Theory4 C01.Theory5 C01.Theory11 C01.Theory13.
Arguments N.add : simpl never.
Arguments N.mul : simpl never.
Arguments N.sub : simpl never.

Definition ren_pair (pi : N -> N) (e : N * ainsn N) : N * ainsn N := (fst e, rename_insn pi (snd e)).
Definition ren_cr (pi : N -> N) (cr : code_raw) : code_raw :=
  {| cr_insns := map (ren_pair pi) (cr_insns cr); cr_labels := cr_labels cr; cr_clen := cr_clen cr; cr_frames := cr_frames cr |}.
Definition set_code (ci : code_in) (c : bytes) : code_in :=
  {| ci_code := c; ci_exc := ci_exc ci; ci_lines := ci_lines ci; ci_ranges := ci_ranges ci;
     ci_frames := ci_frames ci; ci_cldc := ci_cldc ci; ci_points := ci_points ci |}.

Definition code_rel (pi : N -> N) (code code' : bytes) : Prop :=
  forall ci, ci_code ci = code ->
  read_code_raw (set_code ci code') = match read_code_raw ci with Ok cr => Ok (ren_cr pi cr) | Err => Err end.

(* ---------- renaming and the other maps over instructions commute ---------- *)
Lemma map_op_rename {A B} (f : A -> B) pi (o : operand A) : map_op f (rename_op pi o) = rename_op pi (map_op f o).
Proof. destruct o; reflexivity. Qed.
Lemma map_insn_rename {A B} (f : A -> B) pi (i : ainsn A) : map_insn f (rename_insn pi i) = rename_insn pi (map_insn f i).
Proof.
  destruct i as [c ops|d lo hi tbl|d ps]; cbn [rename_insn map_insn]; try reflexivity.
  f_equal. rewrite !map_map. apply map_ext. intros o. apply map_op_rename.
Qed.
Lemma targets_rename {T} pi (i : ainsn T) : targets (rename_insn pi i) = targets i.
Proof.
  destruct i as [c ops|d lo hi tbl|d ps]; cbn [rename_insn targets]; try reflexivity.
  induction ops as [|o ops IH]; [reflexivity|]. cbn [map flat_map]. rewrite IH. destruct o; reflexivity.
Qed.
Lemma flat_targets_rename {T} pi (body : list (ainsn T)) : flat_map targets (map (rename_insn pi) body) = flat_map targets body.
Proof. induction body as [|i body IH]; [reflexivity|]. cbn [map flat_map]. rewrite IH, targets_rename. reflexivity. Qed.
Lemma size_rename pi c pos (i : ainsn nat) : size c pos (rename_insn pi i) = size c pos i.
Proof. destruct i; reflexivity. Qed.
Lemma layout_from_rename pi ch : forall body k pos, layout_from ch k pos (map (rename_insn pi) body) = layout_from ch k pos body.
Proof. induction body as [|i body IH]; intros k pos; [reflexivity|]. cbn [map layout_from]. rewrite size_rename, IH. reflexivity. Qed.
Lemma layout_rename pi ch body : layout ch (map (rename_insn pi) body) = layout ch body.
Proof. apply layout_from_rename. Qed.
Lemma starts_from_rename pi ch : forall body k pos, starts_from ch k pos (map (rename_insn pi) body) = starts_from ch k pos body.
Proof. induction body as [|i body IH]; intros k pos; [reflexivity|]. cbn [map starts_from]. rewrite size_rename, IH. reflexivity. Qed.
Lemma targets_ok_rename pi body : targets_ok body -> targets_ok (map (rename_insn pi) body).
Proof.
  intros H i t Hi Ht. rewrite map_length. apply in_map_iff in Hi. destruct Hi as (j & <- & Hj).
  rewrite targets_rename in Ht. exact (H j t Hj Ht).
Qed.

(* ---------- sem ---------- *)
Definition ren_trip (pi : N -> N) (e : bool * option nat * ainsn (option nat)) : bool * option nat * ainsn (option nat) :=
  (fst e, rename_insn pi (snd e)).

Lemma map_fst_ren pi (l : list (N * ainsn N)) : map fst (map (ren_pair pi) l) = map fst l.
Proof. rewrite map_map. apply map_ext. intros e. reflexivity. Qed.
Lemma attach_ren pi : forall insns q k, attach (map (ren_pair pi) insns) q k = attach insns q k.
Proof.
  induction insns as [|[pos i] insns IH]; intros q k; [reflexivity|]. cbn [map ren_pair fst attach].
  destruct q as [|f q]; [rewrite IH; reflexivity|]. destruct (f =? pos); rewrite IH; reflexivity.
Qed.
Lemma zip3_map3 {A B C} (g : C -> C) : forall (a : list A) (b : list B) (c : list C),
  zip3 a b (map g c) = map (fun e => (fst e, g (snd e))) (zip3 a b c).
Proof.
  induction a as [|x a IH]; intros b c; [reflexivity|]. destruct b as [|y b]; [reflexivity|].
  destruct c as [|z c]; [reflexivity|]. cbn [map zip3 fst snd]. rewrite IH. reflexivity.
Qed.

Lemma sem_ren pi ci c' cr :
  sem (set_code ci c') (ren_cr pi cr) =
  {| cs_insns := map (ren_trip pi) (cs_insns (sem ci cr)); cs_last := cs_last (sem ci cr); cs_exc := cs_exc (sem ci cr);
     cs_lines := cs_lines (sem ci cr); cs_ranges := cs_ranges (sem ci cr); cs_points := cs_points (sem ci cr) |}.
Proof.
  unfold sem. cbn [ren_cr cr_insns cr_labels cr_clen cr_frames set_code ci_exc ci_lines ci_ranges ci_points
                   cs_insns cs_last cs_exc cs_lines cs_ranges cs_points].
  rewrite map_fst_ren, attach_ren. f_equal.
  rewrite !map_map. cbn [ren_pair fst snd].
  rewrite (map_ext (fun x : N * ainsn N => map_insn (fun pc => index_of pc (map fst (cr_insns cr) ++ [cr_clen cr]) 0) (rename_insn pi (snd x)))
                   (fun x => rename_insn pi (map_insn (fun pc => index_of pc (map fst (cr_insns cr) ++ [cr_clen cr]) 0) (snd x))))
    by (intros x; apply map_insn_rename).
  rewrite <- (map_map (fun x : N * ainsn N => map_insn (fun pc => index_of pc (map fst (cr_insns cr) ++ [cr_clen cr]) 0) (snd x)) (rename_insn pi)).
  rewrite zip3_map3. reflexivity.
Qed.

Lemma ixf_ren pi cr pc : ixf (ren_cr pi cr) pc = ixf cr pc.
Proof. unfold ixf. cbn [ren_cr cr_insns cr_clen]. rewrite map_fst_ren. reflexivity. Qed.

(* ---------- the Code attribute ---------- *)
Lemma code_in_of_state_set code code' exc st :
  code_in_of_state code' exc st = match code_in_of_state code exc st with Ok ci => Ok (set_code ci code') | Err => Err end.
Proof.
  unfold code_in_of_state.
  destruct (map_res exc_triple exc); cbn [bind]; [|reflexivity].
  destruct (map_res line_pair (slot_list a_LineNumberTable (st_slots st))); cbn [bind]; [|reflexivity].
  destruct (map_res frame_delta (slot_list a_StackMapTable (st_slots st))); cbn [bind]; reflexivity.
Qed.
Lemma code_in_of_state_code code exc st ci : code_in_of_state code exc st = Ok ci -> ci_code ci = code.
Proof.
  unfold code_in_of_state.
  destruct (map_res exc_triple exc); cbn [bind]; [|discriminate].
  destruct (map_res line_pair (slot_list a_LineNumberTable (st_slots st))); cbn [bind]; [|discriminate].
  destruct (map_res frame_delta (slot_list a_StackMapTable (st_slots st))); cbn [bind]; [|discriminate].
  intros H. injection H as <-. reflexivity.
Qed.

Theorem build_code_rel impl pi p p' b code code' ms ml exc attrs :
  pool_iso_strict pi p p' -> code_rel pi code code' ->
  build_code impl p' (rename_bsm pi b) (VSeq [VN ms; VN ml; VB code'; VList exc; VList attrs])
  = build_code impl p b (VSeq [VN ms; VN ml; VB code; VList exc; VList attrs]).
Proof.
  intros Hiso Hrel. unfold build_code. cbn [code_parts].
  destruct (fold_attrs (apply_simple impl 3) st_empty attrs) as [st|]; cbn [bind]; [|reflexivity].
  rewrite (code_in_of_state_set code code' exc st).
  destruct (code_in_of_state code exc st) as [ci|] eqn:Eci; cbn [bind]; [|reflexivity].
  rewrite (Hrel ci (code_in_of_state_code _ _ _ _ Eci)).
  destruct (read_code_raw ci) as [cr|]; cbn [bind]; [|reflexivity].
  rewrite sem_ren. cbn [cs_insns cs_last].
  rewrite (map_res_map_eq (resolve_entry p b) (resolve_entry p' (rename_bsm pi b)) (ren_trip pi)).
  2:{ intros e _. unfold resolve_entry, ren_trip. cbn [fst snd]. rewrite (insn_layout_exact pi p p' b Hiso). reflexivity. }
  destruct (map_res (resolve_entry p b) (cs_insns (sem ci cr))) as [xi|]; cbn [bind]; [|reflexivity].
  f_equal. unfold code_desc_of.
  rewrite map_map. cbn [ren_trip fst snd].
  f_equal; try (apply map_ext; intros x; apply map_pcs_ext; apply ixf_ren).
  f_equal. apply map_ext. intros x. apply map_pcs_ext. apply ixf_ren.
Qed.

(* ---------- label folds only add labels ---------- *)
Lemma lbl_add_mono ls pc x : lbl_get ls x = true -> lbl_get (lbl_add ls pc) x = true.
Proof. intros H. apply lbl_get_add. right. exact H. Qed.
Lemma lbl_create_mono clen ls pc ls' x : lbl_create clen ls pc = Ok ls' -> lbl_get ls x = true -> lbl_get ls' x = true.
Proof. unfold lbl_create. destruct (pc <? clen); [|discriminate]. intros H. injection H as <-. apply lbl_add_mono. Qed.
Lemma lbl_create_excl_mono clen ls pc ls' x : lbl_create_excl clen ls pc = Ok ls' -> lbl_get ls x = true -> lbl_get ls' x = true.
Proof. unfold lbl_create_excl. destruct (pc <=? clen); [|discriminate]. intros H. injection H as <-. apply lbl_add_mono. Qed.
Lemma lbl_range_mono clen ls s l ls' x : lbl_range clen ls s l = Ok ls' -> lbl_get ls x = true -> lbl_get ls' x = true.
Proof.
  unfold lbl_range. destruct (lbl_create clen ls s) as [a|] eqn:E; cbn [bind]; [|discriminate].
  destruct (s + l <? 65536); [|discriminate]. intros H G. eapply lbl_create_excl_mono; [exact H|]. eapply lbl_create_mono; eassumption.
Qed.
Lemma fold_res_mono {B} (f : labels -> B -> res labels) x :
  (forall ls e ls', f ls e = Ok ls' -> lbl_get ls x = true -> lbl_get ls' x = true) ->
  forall l ls ls', fold_res f ls l = Ok ls' -> lbl_get ls x = true -> lbl_get ls' x = true.
Proof.
  intros Hf. induction l as [|e l IH]; intros ls ls' H G; cbn [fold_res] in H.
  - injection H as <-. exact G.
  - destruct (f ls e) as [a|] eqn:E; cbn [bind] in H; [|discriminate]. eapply IH; [exact H|]. eapply Hf; eassumption.
Qed.

(* ---------- encodings of a body and of the body with renamed operands ---------- *)
Lemma encode_length_rename pi ch body bs bs' :
  encode ch body = Some bs -> encode ch (map (rename_insn pi) body) = Some bs' -> length bs' = length bs.
Proof.
  intros H H'. pose proof (layout_end _ _ _ H) as E. pose proof (layout_end _ _ _ H') as E'.
  rewrite layout_rename, map_length in E'. rewrite E in E'. lia.
Qed.

Theorem code_rel_encode pi ch body bs bs' :
  encode ch body = Some bs -> encode ch (map (rename_insn pi) body) = Some bs' -> targets_ok body ->
  code_rel pi bs bs'.
Proof.
  intros HE HE' HT ci Hci. pose proof (encode_length_rename pi ch body bs bs' HE HE') as HLen.
  pose proof (targets_ok_rename pi body HT) as HT'.
  unfold read_code_raw. cbn [set_code ci_code ci_exc ci_lines ci_ranges ci_frames ci_cldc ci_points]. rewrite Hci, HLen.
  destruct ((N.of_nat (length bs) =? 0) || (65535 <? N.of_nat (length bs))) eqn:EL; [reflexivity|].
  apply orb_false_iff in EL. destruct EL as [_ EL]. apply N.ltb_ge in EL.
  rewrite <- HLen at 1 2. rewrite (scan_encode ch _ bs' HE' HT') by (rewrite HLen; exact EL).
  rewrite (scan_encode ch body bs HE HT EL). rewrite layout_rename, flat_targets_rename. cbn [bind].
  set (posf := posf_of (layout ch body)).
  set (ls0 := fold_left lbl_add (map posf (flat_map targets body)) []).
  assert (H0 : forall t, In t (flat_map targets body) -> lbl_get ls0 (posf t) = true).
  { intros t Ht. unfold ls0. apply lbl_get_fold. left. apply in_map. exact Ht. }
  match goal with |- context [fold_res ?F ls0 (ci_exc ci)] => destruct (fold_res F ls0 (ci_exc ci)) as [ls1|] eqn:E1 end; cbn [bind]; [|reflexivity].
  assert (H1 : forall t, In t (flat_map targets body) -> lbl_get ls1 (posf t) = true).
  { intros t Ht. eapply fold_res_mono; [|exact E1|apply H0; exact Ht].
    intros ls [[s e] h] ls' Hf G. destruct (lbl_create (N.of_nat (length bs)) ls s) as [a|] eqn:Ea; cbn [bind] in Hf; [|discriminate].
    destruct (lbl_create_excl (N.of_nat (length bs)) a e) as [b0|] eqn:Eb; cbn [bind] in Hf; [|discriminate].
    eapply lbl_create_mono; [exact Hf|]. eapply lbl_create_excl_mono; [exact Eb|]. eapply lbl_create_mono; eassumption. }
  match goal with |- context [bind ?X _] => destruct X as [fr|] eqn:Efr end; cbn [bind]; [|reflexivity].
  destruct (fold_res (lbl_create (N.of_nat (length bs))) ls1 fr) as [ls2|] eqn:E2; cbn [bind]; [|reflexivity].
  assert (H2 : forall t, In t (flat_map targets body) -> lbl_get ls2 (posf t) = true).
  { intros t Ht. eapply fold_res_mono; [|exact E2|apply H1; exact Ht]. intros ls e ls'. apply lbl_create_mono. }
  match goal with |- context [fold_res ?F ls2 (ci_lines ci)] => destruct (fold_res F ls2 (ci_lines ci)) as [ls3|] eqn:E3 end; cbn [bind]; [|reflexivity].
  assert (H3 : forall t, In t (flat_map targets body) -> lbl_get ls3 (posf t) = true).
  { intros t Ht. eapply fold_res_mono; [|exact E3|apply H2; exact Ht]. intros ls e ls'. apply lbl_create_mono. }
  match goal with |- context [fold_res ?F ls3 (ci_ranges ci)] => destruct (fold_res F ls3 (ci_ranges ci)) as [ls4|] eqn:E4 end; cbn [bind]; [|reflexivity].
  assert (H4 : forall t, In t (flat_map targets body) -> lbl_get ls4 (posf t) = true).
  { intros t Ht. eapply fold_res_mono; [|exact E4|apply H3; exact Ht]. intros ls e ls'. apply lbl_range_mono. }
  destruct (fold_res (lbl_create (N.of_nat (length bs))) ls4 (ci_points ci)) as [ls5|] eqn:E5; cbn [bind]; [|reflexivity].
  assert (H5 : forall t, In t (flat_map targets body) -> lbl_get ls5 (posf t) = true).
  { intros t Ht. eapply fold_res_mono; [|exact E5|apply H4; exact Ht]. intros ls e ls'. apply lbl_create_mono. }
  rewrite <- HLen at 1. rewrite (decode_encode ch _ bs' ls5 HE' HT') by
    (rewrite ?HLen; try exact EL; rewrite layout_rename, flat_targets_rename; exact H5).
  rewrite (decode_encode ch body bs ls5 HE HT EL H5). cbn [bind].
  rewrite layout_rename, starts_from_rename. fold posf. f_equal. unfold ren_cr. cbn [cr_insns cr_labels cr_clen cr_frames]. f_equal.
  rewrite !map_map.
  rewrite (map_ext (fun x => map_insn posf (rename_insn pi x)) (fun x => rename_insn pi (map_insn posf x))) by (intros x; apply map_insn_rename).
  rewrite <- (map_map (map_insn posf) (rename_insn pi)).
  generalize (starts_from ch 0 0 body) (map (map_insn posf) body). clear.
  induction l as [|a l IH]; intros m; [reflexivity|]. destruct m as [|i m]; [reflexivity|].
  cbn [map combine]. rewrite IH. reflexivity.
Qed.
