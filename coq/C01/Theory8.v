(* C01 — theory, part 8: the whole class file.  Reading the bytes of a class-file structure yields
   its description: constant pool, header fields, the member loops that are first skipped by their
   attribute lengths and read afterwards, every attribute layout of Formats.v / ClassFile.v. *)
From FB Require Import C01.Bytes C01.Fmt C01.Formats C01.ClassFile C01.Theory6 C01.Theory7.
Arguments N.add : simpl never.
Arguments N.mul : simpl never.
Arguments N.div : simpl never.
Arguments N.modulo : simpl never.

(* ---------------------------------------------------------------------------------------------- *)
(* 64-bit fields *)
Lemma rd_u64_w64 n r : n < 18446744073709551616 -> rd_u64 (w64 n ++ r) = Ok (n, r).
Proof.
  intros H. unfold rd_u64, w64. rewrite <- app_assoc.
  rewrite rd_u32_w32 by (apply N.div_lt_upper_bound; lia). cbn [bind].
  unfold w32 at 1. rewrite rd_u32_be32. cbn [bind].
  pose proof (N.div_mod n 4294967296). f_equal. f_equal. lia.
Qed.
Lemma u64_lt z : u64 z < 18446744073709551616.
Proof. unfold u64. pose proof (Z.mod_pos_bound z 18446744073709551616). lia. Qed.
Lemma s64_u64 z : fits64 z = true -> s64 (u64 z) = z.
Proof.
  unfold fits64. rewrite andb_true_iff, Z.leb_le, Z.ltb_lt. intros H. unfold s64, u64.
  destruct (Z.ltb_spec z 0) as [Hn|Hp].
  - assert (E : (z mod 18446744073709551616 = z + 18446744073709551616)%Z).
    { symmetry. apply (Z.mod_unique z 18446744073709551616 (-1) (z + 18446744073709551616)); lia. }
    rewrite E. destruct (N.ltb_spec (Z.to_N (z + 18446744073709551616)) 9223372036854775808); lia.
  - rewrite Z.mod_small by lia. destruct (N.ltb_spec (Z.to_N z) 9223372036854775808); lia.
Qed.

(* ---------------------------------------------------------------------------------------------- *)
(* the constant pool *)
Lemma rd_entry_enc dec e rest : entry_fits e = true ->
  rd_entry dec (enc_entry e ++ rest) = (do e' <- dec_entry dec e; Ok (e', rest)).
Proof.
  intros HF. destruct e; cbn [entry_fits] in HF;
    repeat match goal with
           | H : (_ && _) = true |- _ => apply andb_true_iff in H; destruct H
           | H : (_ <? _) = true |- _ => apply N.ltb_lt in H
           end;
    unfold rd_entry, enc_entry, dec_entry; cbn [app rd_u8 bind];
    rewrite <- ?app_assoc;
    repeat (first [rewrite rd_u16_w16 by assumption | rewrite rd_u8_w8 by assumption | rewrite rd_u32_w32 by assumption
                  | rewrite rd_u64_w64 by assumption]; cbn [bind]);
    try reflexivity.
  - (* Utf8 *) rewrite take_res_app. cbn [bind]. destruct (dec s); reflexivity.
  - (* Int *) rewrite rd_u32_w32 by apply u32_lt. cbn [bind]. apply fits32_spec in HF. rewrite s32_u32 by exact HF. reflexivity.
  - (* Long *) rewrite rd_u64_w64 by apply u64_lt. cbn [bind]. rewrite s64_u64 by exact HF. reflexivity.
Qed.

Lemma two_slot_dec dec e e' : dec_entry dec e = Ok e' -> two_slot e' = two_slot e.
Proof. destruct e; cbn [dec_entry]; try (intros [= <-]; reflexivity). destruct (dec s); cbn [bind]; [intros [= <-]; reflexivity|discriminate]. Qed.

Lemma rd_entries_enc dec : forall es fuel have count rest,
  forallb entry_fits es = true -> have + pool_slots es = count -> (length es <= fuel)%nat ->
  rd_entries dec fuel have count (flat_map enc_entry es ++ rest)
  = (do es' <- map_res (dec_entry dec) es; Ok (flat_map slots_of es', rest)).
Proof.
  induction es as [|e es IH]; intros fuel have count rest HF HC HL.
  - cbn [pool_slots] in HC. cbn [flat_map app map_res bind].
    destruct fuel; cbn [rd_entries]; (destruct (N.leb_spec count have); [reflexivity|lia]).
  - cbn [forallb] in HF. apply andb_true_iff in HF. destruct HF as [F1 F2].
    cbn [pool_slots] in HC. cbn [length] in HL. destruct fuel as [|fuel]; [lia|].
    cbn [rd_entries flat_map map_res]. rewrite <- app_assoc.
    destruct (N.leb_spec count have) as [Hle|_]; [destruct (two_slot e); lia|].
    rewrite (rd_entry_enc dec e _ F1).
    destruct (dec_entry dec e) as [e'|] eqn:E; cbn [bind]; [|reflexivity].
    rewrite (two_slot_dec dec e e' E).
    rewrite (IH fuel (have + (if two_slot e then 2 else 1)) count rest F2) by lia.
    destruct (map_res (dec_entry dec) es); reflexivity.
Qed.

Lemma pool_slots_length : forall es, (N.of_nat (length es) <= pool_slots es).
Proof. induction es as [|e es IH]; cbn [length pool_slots]; [lia|]. destruct (two_slot e); lia. Qed.

Theorem rd_pool_enc dec es rest : pool_fits es = true ->
  rd_pool dec (enc_pool es ++ rest) = (do p <- decode_pool dec es; Ok (p, rest)).
Proof.
  unfold pool_fits. rewrite andb_true_iff. intros [HC HF]. apply N.ltb_lt in HC.
  unfold rd_pool, enc_pool, decode_pool. rewrite <- app_assoc, rd_u16_w16 by exact HC. cbn [bind].
  rewrite (rd_entries_enc dec es _ 1 (1 + pool_slots es) rest HF eq_refl).
  - destruct (map_res (dec_entry dec) es); reflexivity.
  - pose proof (pool_slots_length es). lia.
Qed.

(* ---------------------------------------------------------------------------------------------- *)
(* skipping the members by their attribute lengths lands behind them *)
Lemma skip_attrs_n_enc impl rs sel : forall attrs rest,
  forallb (fits impl rs (FAttr sel)) attrs = true ->
  skip_attrs_n (length attrs) (flat_map enc_raw attrs ++ rest) = Ok rest.
Proof.
  induction attrs as [|a attrs IH]; intros rest HF; [reflexivity|].
  cbn [forallb] in HF. apply andb_true_iff in HF. destruct HF as [F1 F2].
  destruct a as [| | | | | | | |i r]; try (cbn [fits] in F1; discriminate).
  cbn [fits] in F1. apply andb_true_iff in F1. destruct F1 as [F1 _]. apply andb_true_iff in F1. destruct F1 as [L1 L2].
  apply N.ltb_lt in L1, L2.
  cbn [length skip_attrs_n flat_map enc_raw]. rewrite <- !app_assoc.
  rewrite rd_u16_w16 by exact L1. cbn [bind]. rewrite rd_u32_w32 by exact L2. cbn [bind].
  rewrite take_lenient_app. cbn [snd]. apply IH. exact F2.
Qed.

Lemma test_all_cons_inv t ts rl : test_all (t :: ts) rl false = true ->
  exists r rl', rl = r :: rl' /\ t r = true /\ test_all ts rl' false = true.
Proof.
  destruct rl as [|r rl']; cbn [test_all]; [discriminate|]. rewrite andb_true_iff. intros [A B].
  exists r, rl'. auto.
Qed.
Lemma test_all_nil_inv rl : test_all [] rl false = true -> rl = [].
Proof. destruct rl; [reflexivity|discriminate]. Qed.

Lemma skip_members_enc impl rs k sel r rest :
  fits impl rs (FVec16 (FSeq [FFlags k; FIdx 8; FIdx 8; FVec16 (FAttr sel)])) r = true ->
  skip_members (enc_raw r ++ rest) = Ok rest.
Proof.
  intros HF. destruct r as [| | | | | |ms| |]; try (cbn [fits] in HF; discriminate).
  cbn [fits] in HF. apply andb_true_iff in HF. destruct HF as [L HF]. apply N.ltb_lt in L.
  unfold skip_members. cbn [enc_raw]. rewrite <- app_assoc, rd_u16_w16 by exact L. cbn [bind].
  rewrite Nnat.Nat2N.id. clear L. revert rest. induction ms as [|m ms IH]; intros rest; [reflexivity|].
  cbn [forallb] in HF. apply andb_true_iff in HF. destruct HF as [F1 F2].
  destruct m as [| | | |fl| | | |]; try (cbn [fits] in F1; discriminate).
  cbn [fits map] in F1.
  apply test_all_cons_inv in F1. destruct F1 as (a & fl1 & -> & Fa & F1).
  apply test_all_cons_inv in F1. destruct F1 as (n & fl2 & -> & Fn & F1).
  apply test_all_cons_inv in F1. destruct F1 as (d & fl3 & -> & Fd & F1).
  apply test_all_cons_inv in F1. destruct F1 as (av & fl4 & -> & Fv & F1).
  apply test_all_nil_inv in F1. subst fl4.
  destruct av as [| | | | | |attrs| |]; try (cbn [fits] in Fv; discriminate).
  cbn [fits] in Fv. apply andb_true_iff in Fv. destruct Fv as [LA FA].
  apply N.ltb_lt in LA.
  cbn [length skip_members_n flat_map enc_raw app]. rewrite !app_nil_r.
  rewrite <- !app_assoc. rewrite (app_assoc (enc_raw n)), (app_assoc (enc_raw a)).
  assert (L6 : N.of_nat (length (enc_raw a ++ enc_raw n ++ enc_raw d)) = 6).
  { destruct a; try (cbn [fits] in Fa; discriminate). destruct n; try (cbn [fits] in Fn; discriminate).
    destruct d; try (cbn [fits] in Fd; discriminate). reflexivity. }
  rewrite <- L6, take_lenient_app. cbn [snd]. unfold skip_attrs. rewrite rd_u16_w16 by exact LA. cbn [bind].
  rewrite Nnat.Nat2N.id. rewrite (skip_attrs_n_enc impl rs sel attrs _ FA). cbn [bind].
  apply IH. exact F2.
Qed.

(* ---------------------------------------------------------------------------------------------- *)
(* THE WHOLE CLASS FILE *)
Theorem read_class_encode impl dec c : class_fits impl dec c = true ->
  read_class impl dec (encode_class c) = describe impl dec c.
Proof.
  unfold class_fits. intros HF.
  repeat (apply andb_true_iff in HF; destruct HF as [HF ?]).
  apply N.ltb_lt in HF. match goal with H : (rc_major c <? _) = true |- _ => apply N.ltb_lt in H end.
  unfold read_class, encode_class, describe.
  rewrite rd_u32_be32. cbn [bind]. rewrite rd_u16_w16 by assumption. cbn [bind]. rewrite rd_u16_w16 by assumption. cbn [bind].
  destruct (header_ok magic (rc_minor c) (rc_major c)); cbn [negb]; [|reflexivity].
  rewrite rd_pool_enc by assumption.
  destruct (decode_pool dec (rc_pool c)) as [p|]; cbn [bind]; [|reflexivity].
  match goal with H : (_ && _) = true |- _ => rename H into HS end.
  repeat (apply andb_true_iff in HS; destruct HS as [HS ?]).
  rewrite (fmt_roundtrip impl dec (acc p) head_fmt (rc_head c) _ HS).
  destruct (desc_fmt impl dec (acc p) head_fmt (rc_head c)) as [head|]; cbn [bind]; [|reflexivity].
  rewrite (skip_members_enc impl (acc p) 1 field_sel (rc_fields c)) by assumption. cbn [bind].
  rewrite (skip_members_enc impl (acc p) 2 method_sel (rc_methods c)) by assumption. cbn [bind].
  rewrite <- (app_nil_r (enc_raw (rc_attrs c))).
  match goal with H : fits _ _ class_attrs_fmt _ = true |- _ => rewrite (fmt_roundtrip impl dec (acc p) class_attrs_fmt (rc_attrs c) [] H) end.
  destruct (desc_fmt impl dec (acc p) class_attrs_fmt (rc_attrs c)) as [attrs|]; cbn [bind]; [|reflexivity].
  match goal with H : fits _ _ fields_fmt _ = true |- _ => rewrite (fmt_roundtrip impl dec (acc p) fields_fmt (rc_fields c) _ H) end.
  destruct (desc_fmt impl dec (acc p) fields_fmt (rc_fields c)) as [fields|]; cbn [bind]; [|reflexivity].
  match goal with H : fits _ _ methods_fmt _ = true |- _ => rewrite (fmt_roundtrip impl dec (acc p) methods_fmt (rc_methods c) _ H) end.
  destruct (desc_fmt impl dec (acc p) methods_fmt (rc_methods c)) as [methods|]; reflexivity.
Qed.
