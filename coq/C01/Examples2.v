(* C01 — non-vacuity of the class-file theorems, and the witnesses of the three known findings.
   The example class has a field with a ConstantValue and an unknown attribute, a method whose Code
   attribute carries the code array of Examples.v (ifeq, goto_w, a padded tableswitch, wide iload)
   with an exception range ending at the code length, a LineNumberTable, a StackMapTable (a same
   frame and a full frame with an Object and an Uninitialized entry), a LocalVariableTable and a type
   annotation on a `new` offset with a type path; a nested annotation (array of an int and an
   annotation); Exceptions; InnerClasses; an unknown class attribute; a two-slot pool entry. *)
From Coq Require Import String Ascii.
From FB Require Import C01.Bytes C01.Fmt C01.Formats C01.ClassFile C01.Mutf8 C01.Examples C01.Witness C01.Theory9.
Open Scope N_scope.

(* the number of instructions of the first method's code *)
Definition insn_count (r : res class_desc) : option nat :=
  match r with
  | Ok d => match cd_methods d with m :: _ => match md_code m with Some k => Some (length (k_insns k)) | None => None end | [] => None end
  | Err => None
  end.

Definition nonvacuous2 : Prop :=
  class_fits true mutf8_dec ex_class = true /\ known_free mutf8_dec ex_class = true /\
  insn_count (describe false mutf8_dec ex_class) = Some 7%nat.
Lemma nonvacuous2_holds : nonvacuous2.
Proof. unfold nonvacuous2. repeat split; vm_compute; reflexivity. Qed.

(* ---- the known findings (witness classes: Witness.v) ---- *)
Definition refuted_on (c : rclass) : Prop :=
  class_fits false mutf8_dec c = true /\ known_free mutf8_dec c = false /\
  (exists d, describe false mutf8_dec c = Ok d) /\
  read_class true mutf8_dec (encode_class c) <> describe false mutf8_dec c.

Lemma f13p_refuted : refuted_on w_f13p /\ class_fits true mutf8_dec w_f13p = true.
Proof.
  split; [|vm_compute; reflexivity]. unfold refuted_on. split; [vm_compute; reflexivity|]. split; [vm_compute; reflexivity|]. split.
  - destruct (describe false mutf8_dec w_f13p) as [d|] eqn:E; [exists d; reflexivity|]. vm_compute in E. discriminate E.
  - vm_compute. intros H. discriminate H.
Qed.
Lemma f13r_refuted : refuted_on w_f13r /\ class_fits true mutf8_dec w_f13r = true.
Proof.
  split; [|vm_compute; reflexivity]. unfold refuted_on. split; [vm_compute; reflexivity|]. split; [vm_compute; reflexivity|]. split.
  - destruct (describe false mutf8_dec w_f13r) as [d|] eqn:E; [exists d; reflexivity|]. vm_compute in E. discriminate E.
  - vm_compute. intros H. discriminate H.
Qed.
(* here duke does not even accept the file *)
Lemma f13t_refuted : refuted_on w_f13t /\ read_class true mutf8_dec (encode_class w_f13t) = Err.
Proof.
  split; [|vm_compute; reflexivity]. unfold refuted_on. split; [vm_compute; reflexivity|]. split; [vm_compute; reflexivity|]. split.
  - destruct (describe false mutf8_dec w_f13t) as [d|] eqn:E; [exists d; reflexivity|]. vm_compute in E. discriminate E.
  - vm_compute. intros H. discriminate H.
Qed.

(* the statement without the restriction to the complement of the known classes — NOT proved (it is
   false: each of the three witnesses above refutes it) *)
Definition read_class_spec_full : Prop :=
  forall dec c, class_fits false dec c = true -> read_class true dec (encode_class c) = describe false dec c.
Lemma read_class_spec_full_refuted : ~ read_class_spec_full.
Proof. intros H. destruct f13p_refuted as [(F & _ & _ & N) _]. apply N. apply H. exact F. Qed.

(* ---- the example's Code attribute satisfies the hypotheses of code_in_class (Theory11) ---- *)
From FB Require Import C01.Model C01.Theory3 C01.Theory4 C01.Theory11.
Definition ex_tables2 : tables :=
  {| t_exc := [(0, 7, 2)%nat]; t_lines := [(2%nat, 10)]; t_ranges := [(0, 7)%nat]; t_frames := [2; 3]%nat; t_points := [4; 4]%nat |}.
Definition nonvacuous3 : Prop :=
  exists v ms ml exc attrs st p,
    decode_pool mutf8_dec ex_pool = Ok p /\
    desc_fmt true mutf8_dec (acc p) code_fmt ex_code = Ok v /\
    encode ex_ch ex_body = Some ex_bytes /\ ex_body <> [] /\ N.of_nat (length ex_bytes) <= 65535 /\
    targets_ok ex_body /\ tables_ok (length ex_body) ex_tables2 /\
    code_parts v = Some (ms, ml, ex_bytes, exc, attrs) /\
    fold_attrs (apply_simple true 3) st_empty attrs = Ok st /\
    code_in_of_state ex_bytes exc st = Ok (code_in_of (posf_of (layout ex_ch ex_body)) ex_tables2 ex_bytes).
Lemma nonvacuous3_holds : nonvacuous3.
Proof.
  unfold nonvacuous3.
  destruct (decode_pool mutf8_dec ex_pool) as [p|] eqn:EP; [|vm_compute in EP; discriminate EP].
  destruct (desc_fmt true mutf8_dec (acc p) code_fmt ex_code) as [v|] eqn:EV; [|vm_compute in EP; injection EP as <-; vm_compute in EV; discriminate EV].
  vm_compute in EP. injection EP as <-. vm_compute in EV. injection EV as <-.
  eexists _, _, _, _, _, _, _. split; [reflexivity|]. split; [reflexivity|].
  split; [vm_compute; reflexivity|]. split; [discriminate|]. split; [vm_compute; discriminate|].
  split; [apply targets_okb_spec; vm_compute; reflexivity|]. split.
  { unfold tables_ok, ex_tables2. cbn [t_exc t_lines t_ranges t_frames t_points length ex_body].
    repeat split; intros; cbn [In fst snd incr_from] in *;
      repeat match goal with
             | H : _ \/ _ |- _ => destruct H
             | H : False |- _ => destruct H
             | H : (_, _) = (_, _) |- _ => injection H; clear H; intros; subst
             | H : _ = _ |- _ => subst
             end; cbn [fst snd]; try lia. }
  split; [vm_compute; reflexivity|]. split; vm_compute; reflexivity.
Qed.
