(* C01 — attribute framing and dispatch, access flags.  Definitions only.
   An attribute list is framed as  u16 count, then per attribute  u16 name_index, u32 length, payload.
   The reader dispatches on the NAME (Tables.v, generated from the match arms): names with an arm of
   their own are parsed, every other attribute is handed to the visitor verbatim, in file order. *)
From FB Require Export C01.Bytes C01.Tables.

Definition mem_str (s : str) (l : list str) : bool := existsb (str_eqb s) l.

(* ---- framing ---- *)
Definition attr_raw := (N * bytes)%type.             (* name_index, payload *)

Definition enc_attr (a : attr_raw) : bytes := be16 (fst a) ++ be32 (N.of_nat (length (snd a))) ++ snd a.
Definition enc_attrs (l : list attr_raw) : bytes := be16 (N.of_nat (length l)) ++ flat_map enc_attr l.

Definition take_res (k : N) (s : bytes) : res (bytes * bytes) :=
  if k <=? N.of_nat (length s) then Ok (firstn (N.to_nat k) s, skipn (N.to_nat k) s) else Err.

Fixpoint parse_attrs_n (n : nat) (s : bytes) : res (list attr_raw * bytes) :=
  match n with
  | O => Ok ([], s)
  | S n' =>
    do (name, s1) <- rd_u16 s;
    do (len, s2) <- rd_u32 s1;
    do (payload, s3) <- take_res len s2;
    do (rest, s4) <- parse_attrs_n n' s3;
    Ok ((name, payload) :: rest, s4)
  end.
Definition parse_attrs (s : bytes) : res (list attr_raw * bytes) :=
  do (n, s1) <- rd_u16 s; parse_attrs_n (N.to_nat n) s1.

(* ---- dispatch, on attributes whose name is already resolved ---- *)
Definition attr := (str * bytes)%type.

(* what the visitor receives through visit_unknown_attribute, in order *)
Definition unknown_of (known : list str) (l : list attr) : list attr :=
  filter (fun a => negb (mem_str (fst a) known)) l.

(* the payload the arm of a known attribute gets to parse (first attribute of that name) *)
Fixpoint lookup_attr (name : str) (l : list attr) : option bytes :=
  match l with
  | [] => None
  | (n, b) :: l' => if str_eqb n name then Some b else lookup_attr name l'
  end.

(* ---- access flags ---- *)
(* From<u16>: one bool per bit of the table; Into<u16>: or of the bits whose bool is set *)
Definition flags_from (bits : list N) (v : N) : list bool := map (fun b => negb (N.land v b =? 0)) bits.
Fixpoint flags_to (bits : list N) (fs : list bool) : N :=
  match bits, fs with
  | b :: bits', f :: fs' => N.lor (if f then b else 0) (flags_to bits' fs')
  | _, _ => 0
  end.
Definition flag_tables (kind : N) : list N * list N :=
  match kind with
  | 0 => (flags_ClassAccess_read, flags_ClassAccess_write)
  | 1 => (flags_FieldAccess_read, flags_FieldAccess_write)
  | 2 => (flags_MethodAccess_read, flags_MethodAccess_write)
  | 3 => (flags_InnerClassFlags_read, flags_InnerClassFlags_write)
  | 4 => (flags_ParameterFlags_read, flags_ParameterFlags_write)
  | 5 => (flags_ModuleFlags_read, flags_ModuleFlags_write)
  | 6 => (flags_ModuleRequiresFlags_read, flags_ModuleRequiresFlags_write)
  | 7 => (flags_ModuleExportsFlags_read, flags_ModuleExportsFlags_write)
  | _ => (flags_ModuleOpensFlags_read, flags_ModuleOpensFlags_write)
  end.
Definition access_back (kind v : N) : N :=
  let t := flag_tables kind in flags_to (snd t) (flags_from (fst t) v).
Definition mask_of (bits : list N) : N := fold_right N.lor 0 bits.

(* ---- class file header: magic and version gate of [read] ---- *)
Definition version_le (M m M' m' : N) : bool := (M <? M') || ((M =? M') && (m <=? m')).
Definition header_ok (mg minor major : N) : bool :=
  (mg =? magic) && version_le major minor max_version_major max_version_minor.
