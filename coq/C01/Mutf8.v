(* C01 — a model of the string decoder duke calls for CONSTANT_Utf8 entries and SourceDebugExtension:
   jstring::from_vec_to_string = java_string::JavaString::from_modified_utf8 (third-party crate
   java_string 0.1.2, cesu8.rs): bytes that are valid (standard) UTF-8 are taken as they are — a
   raw NUL and four-byte sequences included —, otherwise the bytes are read as modified UTF-8
   (C0 80 is NUL, surrogate halves as three bytes each, a high half followed by a low half is one
   supplementary character, a lone half stays a code point D800..DFFF, no four-byte sequences).
   The result is the list of code points.

   The class-file theorems are parametric in the decoder; this model is what the correspondence
   run instantiates it with (and thereby compares with the crate on every pool string).
   Definitions only. *)
From FB Require Export C01.Bytes.

Definition is_cont (b : N) : bool := (128 <=? b) && (b <? 192).

(* std::str::from_utf8 validity, decoding on the way; fuel = number of bytes *)
Fixpoint utf8_strict (fuel : nat) (s : bytes) : res str :=
  match fuel with
  | O => match s with [] => Ok [] | _ => Err end
  | S k =>
    match s with
    | [] => Ok []
    | a :: r =>
      if a <? 128 then do t <- utf8_strict k r; Ok (a :: t)
      else if (194 <=? a) && (a <? 224) then
        match r with
        | b :: r1 => if is_cont b then do t <- utf8_strict k r1; Ok (((a - 192) * 64 + (b - 128)) :: t) else Err
        | _ => Err
        end
      else if (224 <=? a) && (a <? 240) then
        match r with
        | b :: c :: r1 =>
          let ok2 := if a =? 224 then (160 <=? b) && (b <? 192)
                     else if a =? 237 then (128 <=? b) && (b <? 160)
                     else is_cont b in
          if ok2 && is_cont c then do t <- utf8_strict k r1; Ok (((a - 224) * 4096 + (b - 128) * 64 + (c - 128)) :: t) else Err
        | _ => Err
        end
      else if (240 <=? a) && (a <? 245) then
        match r with
        | b :: c :: d :: r1 =>
          let ok2 := if a =? 240 then (144 <=? b) && (b <? 192)
                     else if a =? 244 then (128 <=? b) && (b <? 144)
                     else is_cont b in
          if ok2 && is_cont c && is_cont d
          then do t <- utf8_strict k r1; Ok (((a - 240) * 262144 + (b - 128) * 4096 + (c - 128) * 64 + (d - 128)) :: t)
          else Err
        | _ => Err
        end
      else Err
    end
  end.

(* from_modified_utf8_internal *)
Fixpoint mutf8_internal (fuel : nat) (s : bytes) : res str :=
  match fuel with
  | O => match s with [] => Ok [] | _ => Err end
  | S k =>
    match s with
    | [] => Ok []
    | a :: r =>
      if a =? 0 then Err
      else if a <? 128 then do t <- mutf8_internal k r; Ok (a :: t)
      else if a =? 192 then
        match r with b :: r1 => if b =? 128 then do t <- mutf8_internal k r1; Ok (0 :: t) else Err | _ => Err end
      else
        match r with
        | [] => Err
        | b :: r1 =>
          if negb (is_cont b) then Err
          else if (194 <=? a) && (a <? 224) then do t <- mutf8_internal k r1; Ok (((a - 192) * 64 + (b - 128)) :: t)
          else if (224 <=? a) && (a <? 240) then
            match r1 with
            | [] => Err
            | c :: r2 =>
              if negb (is_cont c) then Err
              else
                let cp := (a - 224) * 4096 + (b - 128) * 64 + (c - 128) in
                if ((a =? 224) && (160 <=? b)) || ((225 <=? a) && (a <=? 236)) || ((a =? 237) && (b <? 160))
                   || (238 <=? a) || ((a =? 237) && (176 <=? b))
                then do t <- mutf8_internal k r2; Ok (cp :: t)
                else if (a =? 237) && (160 <=? b) && (b <? 176) then
                  (* first half of a surrogate pair: pair it with a following second half *)
                  match r2 with
                  | 237 :: e :: f :: r3 =>
                    if (176 <=? e) && (e <? 192) && is_cont f
                    then let lo := 53248 + (e - 128) * 64 + (f - 128) in
                         do t <- mutf8_internal k r3; Ok ((65536 + (cp - 55296) * 1024 + (lo - 56320)) :: t)
                    else do t <- mutf8_internal k r2; Ok (cp :: t)
                  | _ => do t <- mutf8_internal k r2; Ok (cp :: t)
                  end
                else Err
            end
          else Err
        end
    end
  end.

Definition mutf8_dec (s : bytes) : res str :=
  match utf8_strict (length s) s with
  | Ok x => Ok x
  | Err => mutf8_internal (length s) s
  end.
