(* C01 — byte layouts of the class file outside the code array, as a small format language.

   duke's reader (duke/src/class_reader.rs) reads every structure of the class file with the same
   few moves: read_u8 / read_u16, a pool index resolved with one PoolRead accessor, a flag word turned
   into a flag struct, `read_vec` (a count and that many elements), a tag byte that selects the rest
   (element_value, verification_type_info, stack map frame, target_info, type_path_kind), an
   attribute (name index, u32 length, a payload whose layout depends on the name).  A [fmt] term
   describes such a layout; [rd_fmt] is the reader over a byte stream — it resolves every pool index
   at the moment it is read, as duke does —, [raw] is a class-file structure with its indices
   (what an encoder writes, [enc_raw]), [desc_fmt] is the structure-level description of a [raw]
   value: every index replaced by what it resolves to, everything else as written.
   The formats of the individual attributes are in Formats.v (generated from the reader's source).

   Definitions only; the theorem  rd_fmt (enc_raw r ++ rest) = (desc_fmt r, rest)  is in Theory7.v. *)
From FB Require Export C01.Bytes C01.Pool C01.Attr.

(* ---------- writers: a value is cut to the width of its field ---------- *)
Definition w8 (n : N) : bytes := [n mod 256].
Definition w16 (n : N) : bytes := be16 (n mod 65536).
Definition w32 (n : N) : bytes := be32 (n mod 4294967296).

Definition parser (A : Type) := bytes -> res (A * bytes).

Fixpoint rd_rep {A} (n : nat) (p : parser A) : parser (list A) := fun s =>
  match n with
  | O => Ok ([], s)
  | S n' => do (x, s1) <- p s; do (xs, s2) <- rd_rep n' p s1; Ok (x :: xs, s2)
  end.

(* ClassRead::skip is a seek: it may move past the end; every later read then fails.  The bytes
   passed over are kept (the payload of an attribute the reader recognises but does not parse). *)
Definition take_lenient (k : N) (s : bytes) : bytes * bytes :=
  if k <=? N.of_nat (length s) then (firstn (N.to_nat k) s, skipn (N.to_nat k) s) else (s, []).

(* ---------- structures as they stand in the file ---------- *)
Inductive raw :=
| Rw8 (n : N) | Rw16 (n : N)
| RBytes (b : bytes)                      (* bytes whose number is known from elsewhere *)
| RBytes32 (b : bytes)                    (* u32 length, bytes (the code array) *)
| RSeq (l : list raw)
| RVec8 (l : list raw) | RVec16 (l : list raw)   (* u8 / u16 count, elements *)
| RTag (t : N) (r : raw)                  (* u8 tag, rest *)
| RAttr (name : N) (r : raw).             (* u16 name_index, u32 attribute_length, payload *)

Fixpoint enc_raw (r : raw) : bytes :=
  match r with
  | Rw8 n => w8 n
  | Rw16 n => w16 n
  | RBytes b => b
  | RBytes32 b => w32 (N.of_nat (length b)) ++ b
  | RSeq l => flat_map enc_raw l
  | RVec8 l => w8 (N.of_nat (length l)) ++ flat_map enc_raw l
  | RVec16 l => w16 (N.of_nat (length l)) ++ flat_map enc_raw l
  | RTag t r' => w8 t ++ enc_raw r'
  | RAttr n r' => w16 n ++ w32 (N.of_nat (length (enc_raw r'))) ++ enc_raw r'
  end.

(* ---------- what the reader makes of them ---------- *)
Inductive val :=
| VN (n : N)                              (* a number as written (flag words: the defined bits) *)
| VC (c : cval)                           (* a resolved pool index *)
| VO (o : option cval)                    (* index 0 = absent *)
| VIx (i : N) (c : cval)                  (* index kept beside its resolution (bootstrap method handle) *)
| VB (b : bytes) | VS (s : str)
| VPc (kind pc : N)                       (* a bytecode offset that becomes a label; kind 1: may be the code length *)
| VRange (start len : N)                  (* start_pc, length: two labels *)
| VAt (k : option nat) | VSpan (a b : option nat)   (* the same once labels are instruction indices *)
| VSeq (l : list val) | VList (l : list val)
| VTag (t : N) (v : val)
| VAttr (name : str) (v : val).

Inductive fmt :=
| FU8 | FU16
| FFlags (kind : N)                       (* u16 -> flag struct (numbering of Attr.flag_tables) *)
| FConst8 (v : N)                         (* a u8 that must be v *)
| FIdx (acc : N) | FOptIdx (acc : N) | FIdxRaw (acc : N)   (* u16 pool index, accessor acc *)
| FPc (kind : N) | FRange
| FBytes (n : N)                          (* read_u8_vec(n) *)
| FSkip (n : N)                           (* skip(n) *)
| FMutf8 (n : N)                          (* read_u8_vec(n) decoded as modified UTF-8 *)
| FBytes32
| FSeq (l : list fmt)
| FVec8 (f : fmt) | FVec16 (f : fmt)
| FTag (ok : bool -> N -> bool) (sel : N -> fmt)
    (* [ok impl t]: is tag t accepted — by duke (impl = true), by the JVMS as javac writes it
       (impl = false); they differ in one place, known finding F13t *)
| FAttr (sel : str -> N -> fmt).          (* payload layout by attribute name and attribute_length *)

(* sequences: one reader / describer / test per component *)
Fixpoint rd_all {A} (ps : list (parser A)) : parser (list A) := fun s =>
  match ps with
  | [] => Ok ([], s)
  | p :: ps' => do (v, s1) <- p s; do (vs, s2) <- rd_all ps' s1; Ok (v :: vs, s2)
  end.
Fixpoint desc_all {A} (ds : list (raw -> res A)) (rl : list raw) : res (list A) :=
  match ds, rl with
  | [], [] => Ok []
  | d :: ds', r :: rl' => do v <- d r; do vs <- desc_all ds' rl'; Ok (v :: vs)
  | _, _ => Err
  end.
Fixpoint test_all (ts : list (raw -> bool)) (rl : list raw) (dflt : bool) : bool :=
  match ts, rl with
  | [], [] => true
  | t :: ts', r :: rl' => t r && test_all ts' rl' dflt
  | _, _ => dflt
  end.

(* [dec]: modified UTF-8 decoding (not modelled: a parameter); [rs acc i]: the pool accessor *)
Fixpoint rd_fmt (impl : bool) (dec : bytes -> res str) (rs : N -> N -> res cval) (f : fmt) {struct f} : parser val :=
  match f with
  | FU8 => fun s => do (n, s1) <- rd_u8 s; Ok (VN n, s1)
  | FU16 => fun s => do (n, s1) <- rd_u16 s; Ok (VN n, s1)
  | FFlags k => fun s => do (n, s1) <- rd_u16 s; Ok (VN (access_back k n), s1)
  | FConst8 v => fun s => do (n, s1) <- rd_u8 s; if n =? v then Ok (VN n, s1) else Err
  | FIdx a => fun s => do (i, s1) <- rd_u16 s; do c <- rs a i; Ok (VC c, s1)
  | FOptIdx a => fun s =>
      do (i, s1) <- rd_u16 s;
      if i =? 0 then Ok (VO None, s1) else do c <- rs a i; Ok (VO (Some c), s1)
  | FIdxRaw a => fun s => do (i, s1) <- rd_u16 s; do c <- rs a i; Ok (VIx i c, s1)
  | FPc k => fun s => do (n, s1) <- rd_u16 s; Ok (VPc k n, s1)
  | FRange => fun s => do (a, s1) <- rd_u16 s; do (l, s2) <- rd_u16 s1; Ok (VRange a l, s2)
  | FBytes n => fun s => do (b, s1) <- take_res n s; Ok (VB b, s1)
  | FSkip n => fun s => let (b, s1) := take_lenient n s in Ok (VB b, s1)
  | FMutf8 n => fun s => do (b, s1) <- take_res n s; do x <- dec b; Ok (VS x, s1)
  | FBytes32 => fun s => do (n, s1) <- rd_u32 s; do (b, s2) <- take_res n s1; Ok (VB b, s2)
  | FSeq l => fun s => do (vs, s1) <- rd_all (map (rd_fmt impl dec rs) l) s; Ok (VSeq vs, s1)
  | FVec8 f' => fun s =>
      do (n, s1) <- rd_u8 s; do (vs, s2) <- rd_rep (N.to_nat n) (rd_fmt impl dec rs f') s1; Ok (VList vs, s2)
  | FVec16 f' => fun s =>
      do (n, s1) <- rd_u16 s; do (vs, s2) <- rd_rep (N.to_nat n) (rd_fmt impl dec rs f') s1; Ok (VList vs, s2)
  | FTag ok sel => fun s =>
      do (t, s1) <- rd_u8 s;
      if ok impl t then do (v, s2) <- rd_fmt impl dec rs (sel t) s1; Ok (VTag t v, s2) else Err
  | FAttr sel => fun s =>
      do (i, s1) <- rd_u16 s;
      do c <- rs 8 i;
      match c with
      | VUtf8 name => do (len, s2) <- rd_u32 s1; do (v, s3) <- rd_fmt impl dec rs (sel name len) s2; Ok (VAttr name v, s3)
      | _ => Err
      end
  end.

(* the description of a structure: no bytes involved *)
Fixpoint desc_fmt (impl : bool) (dec : bytes -> res str) (rs : N -> N -> res cval) (f : fmt) (r : raw) {struct f} : res val :=
  match f, r with
  | FU8, Rw8 n => Ok (VN n)
  | FU16, Rw16 n => Ok (VN n)
  | FFlags k, Rw16 n => Ok (VN (access_back k n))
  | FConst8 v, Rw8 n => if n =? v then Ok (VN n) else Err
  | FIdx a, Rw16 i => do c <- rs a i; Ok (VC c)
  | FOptIdx a, Rw16 i => if i =? 0 then Ok (VO None) else do c <- rs a i; Ok (VO (Some c))
  | FIdxRaw a, Rw16 i => do c <- rs a i; Ok (VIx i c)
  | FPc k, Rw16 n => Ok (VPc k n)
  | FRange, RSeq [Rw16 a; Rw16 l] => Ok (VRange a l)
  | FBytes _, RBytes b => Ok (VB b)
  | FSkip _, RBytes b => Ok (VB b)
  | FMutf8 _, RBytes b => do x <- dec b; Ok (VS x)
  | FBytes32, RBytes32 b => Ok (VB b)
  | FSeq l, RSeq rl => do vs <- desc_all (map (desc_fmt impl dec rs) l) rl; Ok (VSeq vs)
  | FVec8 f', RVec8 rl => do vs <- map_res (desc_fmt impl dec rs f') rl; Ok (VList vs)
  | FVec16 f', RVec16 rl => do vs <- map_res (desc_fmt impl dec rs f') rl; Ok (VList vs)
  | FTag ok sel, RTag t r' => if ok impl t then do v <- desc_fmt impl dec rs (sel t) r'; Ok (VTag t v) else Err
  | FAttr sel, RAttr i r' =>
      do c <- rs 8 i;
      match c with
      | VUtf8 name => do v <- desc_fmt impl dec rs (sel name (N.of_nat (length (enc_raw r')))) r'; Ok (VAttr name v)
      | _ => Err
      end
  | _, _ => Err
  end.

(* decidable well-formedness: the structure has the shape of the format, every number fits its
   field, every count fits its count field, every tag is one the reader knows *)
Fixpoint fits (impl : bool) (rs : N -> N -> res cval) (f : fmt) (r : raw) {struct f} : bool :=
  match f, r with
  | FU8, Rw8 n => n <? 256
  | FU16, Rw16 n | FFlags _, Rw16 n | FIdx _, Rw16 n | FOptIdx _, Rw16 n | FIdxRaw _, Rw16 n | FPc _, Rw16 n => n <? 65536
  | FConst8 v, Rw8 n => (n =? v) && (n <? 256)
  | FRange, RSeq [Rw16 a; Rw16 l] => (a <? 65536) && (l <? 65536)
  | FBytes n, RBytes b | FSkip n, RBytes b | FMutf8 n, RBytes b => N.of_nat (length b) =? n
  | FBytes32, RBytes32 b => N.of_nat (length b) <? 4294967296
  | FSeq l, RSeq rl => test_all (map (fits impl rs) l) rl false
  | FVec8 f', RVec8 rl => (N.of_nat (length rl) <? 256) && forallb (fits impl rs f') rl
  | FVec16 f', RVec16 rl => (N.of_nat (length rl) <? 65536) && forallb (fits impl rs f') rl
  | FTag ok sel, RTag t r' => (t <? 256) && ok impl t && fits impl rs (sel t) r'
  | FAttr sel, RAttr i r' =>
      let len := N.of_nat (length (enc_raw r')) in
      (i <? 65536) && (len <? 4294967296) &&
      match rs 8 i with
      | Ok (VUtf8 name) => fits impl rs (sel name len) r'
      | _ => true       (* the name does not resolve: reader and description both fail *)
      end
  | _, _ => false
  end.

(* no tag on which duke and the JVMS disagree occurs in the structure *)
Fixpoint tags_agree (rs : N -> N -> res cval) (f : fmt) (r : raw) {struct f} : bool :=
  match f, r with
  | FSeq l, RSeq rl => test_all (map (tags_agree rs) l) rl true
  | FVec8 f', RVec8 rl | FVec16 f', RVec16 rl => forallb (tags_agree rs f') rl
  | FTag ok sel, RTag t r' => Bool.eqb (ok true t) (ok false t) && tags_agree rs (sel t) r'
  | FAttr sel, RAttr i r' =>
      match rs 8 i with
      | Ok (VUtf8 name) => tags_agree rs (sel name (N.of_nat (length (enc_raw r')))) r'
      | _ => true
      end
  | _, _ => true
  end.

(* ---------- label positions inside a value ---------- *)
Fixpoint pcs_of (v : val) : list N :=
  match v with
  | VPc _ pc => [pc]
  | VSeq l | VList l => flat_map pcs_of l
  | VTag _ v' | VAttr _ v' => pcs_of v'
  | _ => []
  end.
Fixpoint ranges_of (v : val) : list (N * N) :=
  match v with
  | VRange a l => [(a, l)]
  | VSeq l | VList l => flat_map ranges_of l
  | VTag _ v' | VAttr _ v' => ranges_of v'
  | _ => []
  end.
(* labels replaced by the index of the instruction carrying them *)
Fixpoint map_pcs (ix : N -> option nat) (v : val) : val :=
  match v with
  | VPc _ pc => VAt (ix pc)
  | VRange a l => VSpan (ix a) (ix (a + l))
  | VSeq l => VSeq (map (map_pcs ix) l)
  | VList l => VList (map (map_pcs ix) l)
  | VTag t v' => VTag t (map_pcs ix v')
  | VAttr n v' => VAttr n (map_pcs ix v')
  | _ => v
  end.
