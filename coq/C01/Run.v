(* C01 correspondence cases: what the harness' assembler and duke answered, compared with the model *)
From FB Require Export C01.Model C01.Pool C01.Resolve C01.Attr Base.Run.

Definition on_eqb (a b : option nat) : bool := opt_eqb Nat.eqb a b.

Definition operand_eqb {T} (teq : T -> T -> bool) (a b : operand T) : bool :=
  match a, b with
  | OpN x, OpN y => N.eqb x y
  | OpZ x, OpZ y => Z.eqb x y
  | OpT x, OpT y => teq x y
  | _, _ => false
  end.
Definition insn_eqb {T} (teq : T -> T -> bool) (a b : ainsn T) : bool :=
  match a, b with
  | Gen c ops, Gen c' ops' => N.eqb c c' && list_eqb (operand_eqb teq) ops ops'
  | TSw d lo hi tbl, TSw d' lo' hi' tbl' => teq d d' && Z.eqb lo lo' && Z.eqb hi hi' && list_eqb teq tbl tbl'
  | LSw d ps, LSw d' ps' => teq d d' && list_eqb (pair_eqb Z.eqb teq) ps ps'
  | _, _ => false
  end.

Definition xop_eqb (a b : xop) : bool :=
  match a, b with
  | XN x, XN y => N.eqb x y
  | XZ x, XZ y => Z.eqb x y
  | XT x, XT y => on_eqb x y
  | XV x, XV y => cval_eqb x y
  | _, _ => false
  end.
Definition xinsn_eqb (a b : xinsn) : bool :=
  match a, b with
  | XGen c ops, XGen c' ops' => N.eqb c c' && list_eqb xop_eqb ops ops'
  | XTSw d lo hi tbl, XTSw d' lo' hi' tbl' => on_eqb d d' && Z.eqb lo lo' && Z.eqb hi hi' && list_eqb on_eqb tbl tbl'
  | XLSw d ps, XLSw d' ps' => on_eqb d d' && list_eqb (pair_eqb Z.eqb on_eqb) ps ps'
  | _, _ => false
  end.

Definition xsem_eqb (a b : xsem) : bool :=
  list_eqb (fun x y => Bool.eqb (fst (fst x)) (fst (fst y)) && on_eqb (snd (fst x)) (snd (fst y))
                       && xinsn_eqb (snd x) (snd y)) (xs_insns a) (xs_insns b)
  && Bool.eqb (xs_last a) (xs_last b)
  && list_eqb (fun x y => match x, y with (s, e, h, c), (s', e', h', c') =>
                 on_eqb s s' && on_eqb e e' && on_eqb h h' && opt_eqb str_eqb c c' end)
       (xs_exc a) (xs_exc b)
  && list_eqb (pair_eqb on_eqb N.eqb) (xs_lines a) (xs_lines b)
  && list_eqb (pair_eqb on_eqb on_eqb) (xs_ranges a) (xs_ranges b)
  && list_eqb on_eqb (xs_points a) (xs_points b).

Definition default_choice : choice := {| c_form := FPlain 0; c_fill := 0 |}.
Definition ch_of (l : list choice) (k : nat) : choice := nth k l default_choice.

Definition bytes_eqb (a b : bytes) : bool := list_eqb N.eqb a b.

(* attribute contexts: 0 class, 1 field, 2 method, 3 code, 4 record component *)
Definition known_ctx (ctx : N) : list str :=
  match ctx with 0 => known_class | 1 => known_field | 2 => known_method | 3 => known_code | _ => known_record end.

Inductive case :=
(* the harness' assembler encoded [body] with the per-instruction choices [ch]: the model's general
   encoder must produce the same code array *)
| CEnc (body : list (ainsn nat)) (ch : list choice) (code : option bytes)
(* duke read a class with this constant pool and bootstrap methods whose methods have these Code
   attributes (label-carrying tables split into fields, catch_type indices); what it delivered per
   method, labels replaced by the index of the instruction carrying them, constants resolved *)
| CClass (p : pool) (bsm : bsms) (ms : list (code_in * list N)) (r : res (list xsem))
(* constant pool as written by the harness, and for (accessor kind, index) queries duke's resolved value *)
| CPool (p : pool) (bsm : bsms) (queries : list (N * N * res cval))
(* access flags: the u16 in the file and the u16 rebuilt from duke's flag struct *)
| CAccess (kind : N) (v : N) (back : N)
(* an attribute list (names, payloads) of a context in file order, and what duke reported as unknown attributes *)
(* a class file with this magic, minor and major version: did duke get past the header *)
| CHeader (mg minor major : N) (accepted : bool)
| CUnknown (ctx : N) (attrs : list (str * bytes)) (reported : list (str * bytes)).

Definition check (c : case) : bool :=
  match c with
  | CEnc body ch code => opt_eqb bytes_eqb (encode (ch_of ch) body) code
  | CClass p bsm ms r => res_eqb (list_eqb xsem_eqb) (map_res (read_method p bsm) ms) r
  | CPool p bsm qs => forallb (fun q => match q with (kind, idx, r) => res_eqb cval_eqb (resolve_kind p bsm kind idx) r end) qs
  | CAccess kind v back => N.eqb (access_back kind v) back
  | CHeader mg minor major accepted => Bool.eqb (header_ok mg minor major) accepted
  | CUnknown ctx attrs reported =>
      list_eqb (pair_eqb str_eqb bytes_eqb) (unknown_of (known_ctx ctx) attrs) reported
  end.
