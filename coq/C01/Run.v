(* C01 correspondence cases: what the harness' assembler and duke answered, compared with the model *)
From Coq Require Export Uint63.
From FB Require Export C01.Model C01.Pool C01.Resolve C01.Attr C01.ClassFile C01.Mutf8 C01.Witness Base.Run.

Definition on_eqb (a b : option nat) : bool := opt_eqb Nat.eqb a b.

Definition operand_eqb {T} (teq : T -> T -> bool) (a b : operand T) : bool :=
  match a, b with
  | OpN x, OpN y => N.eqb x y
  | OpZ x, OpZ y => Z.eqb x y
  | OpT x, OpT y => teq x y
  | _, _ => false
  end.
Definition insn_eqb {T} (teq : T -> T -> bool) (a b : ainsn T) : bool :=
  match a, b with
  | Gen c ops, Gen c' ops' => N.eqb c c' && list_eqb (operand_eqb teq) ops ops'
  | TSw d lo hi tbl, TSw d' lo' hi' tbl' => teq d d' && Z.eqb lo lo' && Z.eqb hi hi' && list_eqb teq tbl tbl'
  | LSw d ps, LSw d' ps' => teq d d' && list_eqb (pair_eqb Z.eqb teq) ps ps'
  | _, _ => false
  end.

Definition xop_eqb (a b : xop) : bool :=
  match a, b with
  | XN x, XN y => N.eqb x y
  | XZ x, XZ y => Z.eqb x y
  | XT x, XT y => on_eqb x y
  | XV x, XV y => cval_eqb x y
  | _, _ => false
  end.
Definition xinsn_eqb (a b : xinsn) : bool :=
  match a, b with
  | XGen c ops, XGen c' ops' => N.eqb c c' && list_eqb xop_eqb ops ops'
  | XTSw d lo hi tbl, XTSw d' lo' hi' tbl' => on_eqb d d' && Z.eqb lo lo' && Z.eqb hi hi' && list_eqb on_eqb tbl tbl'
  | XLSw d ps, XLSw d' ps' => on_eqb d d' && list_eqb (pair_eqb Z.eqb on_eqb) ps ps'
  | _, _ => false
  end.

Definition xsem_eqb (a b : xsem) : bool :=
  list_eqb (fun x y => Bool.eqb (fst (fst x)) (fst (fst y)) && on_eqb (snd (fst x)) (snd (fst y))
                       && xinsn_eqb (snd x) (snd y)) (xs_insns a) (xs_insns b)
  && Bool.eqb (xs_last a) (xs_last b)
  && list_eqb (fun x y => match x, y with (s, e, h, c), (s', e', h', c') =>
                 on_eqb s s' && on_eqb e e' && on_eqb h h' && opt_eqb str_eqb c c' end)
       (xs_exc a) (xs_exc b)
  && list_eqb (pair_eqb on_eqb N.eqb) (xs_lines a) (xs_lines b)
  && list_eqb (pair_eqb on_eqb on_eqb) (xs_ranges a) (xs_ranges b)
  && list_eqb on_eqb (xs_points a) (xs_points b).

Definition default_choice : choice := {| c_form := FPlain 0; c_fill := [] |}.
Definition ch_of (l : list choice) (k : nat) : choice := nth k l default_choice.

Definition bytes_eqb (a b : bytes) : bool := list_eqb N.eqb a b.

(* attribute contexts: 0 class, 1 field, 2 method, 3 code, 4 record component *)
Definition known_ctx (ctx : N) : list str :=
  match ctx with 0 => known_class | 1 => known_field | 2 => known_method | 3 => known_code | _ => known_record end.


(* ---------------------------------------------------------------------------------------------- *)
(* whole class files.  The bytes of a case are packed seven to a primitive 63-bit integer
   (i = count + 8 * (b0 + 256 * b1 + …)): coqc reads one such literal in the time of one numeral. *)
Definition int_N (i : int) : N := Z.to_N (Uint63.to_Z i).
Fixpoint int_bytes_from (k : nat) (i : int) : list N :=
  match k with O => [] | S k' => int_N (Uint63.land i 255) :: int_bytes_from k' (Uint63.lsr i 8) end.
Definition int_bytes (i : int) : list N := int_bytes_from (N.to_nat (int_N (Uint63.land i 7))) (Uint63.lsr i 3).
Definition pb (l : list int) : bytes := flat_map int_bytes l.
Arguments pb l%uint63.

(* abbreviations used by the harness' printer *)
Definition U (s : str) : val := VC (VUtf8 s).
Definition K (s : str) : val := VC (VClass s).

Fixpoint val_eqb (a b : val) : bool :=
  match a, b with
  | VN x, VN y => N.eqb x y
  | VC x, VC y => cval_eqb x y
  | VO x, VO y => opt_eqb cval_eqb x y
  | VIx i x, VIx j y => N.eqb i j && cval_eqb x y
  | VB x, VB y => bytes_eqb x y
  | VS x, VS y => str_eqb x y
  | VPc k x, VPc k' y => N.eqb k k' && N.eqb x y
  | VRange x l, VRange y l' => N.eqb x y && N.eqb l l'
  | VAt x, VAt y => on_eqb x y
  | VSpan x x', VSpan y y' => on_eqb x y && on_eqb x' y'
  | VSeq l, VSeq l' | VList l, VList l' =>
    (fix go (l l' : list val) : bool :=
       match l, l' with
       | [], [] => true
       | x :: r, y :: r' => val_eqb x y && go r r'
       | _, _ => false
       end) l l'
  | VTag t x, VTag t' y => N.eqb t t' && val_eqb x y
  | VAttr n x, VAttr n' y => str_eqb n n' && val_eqb x y
  | _, _ => false
  end.

(* equal up to order (lists the harness can only give sorted: duke's tree is read through the facts
   of fbh::classfile, which sort unknown attributes, line numbers and local variables) *)
Fixpoint remove_first {A} (eqb : A -> A -> bool) (x : A) (l : list A) : option (list A) :=
  match l with
  | [] => None
  | y :: r => if eqb x y then Some r else match remove_first eqb x r with Some r' => Some (y :: r') | None => None end
  end.
Fixpoint perm_eqb {A} (eqb : A -> A -> bool) (a b : list A) : bool :=
  match a with
  | [] => match b with [] => true | _ => false end
  | x :: a' => match remove_first eqb x b with Some b' => perm_eqb eqb a' b' | None => false end
  end.

Definition unknown_eqb (a b : list (str * bytes)) : bool := perm_eqb (pair_eqb str_eqb bytes_eqb) a b.
(* an attribute that is present but holds nothing compares as absent where the tree only has a Vec *)
Definition vec_slots : list str :=
  [a_RuntimeVisibleAnnotations; a_RuntimeInvisibleAnnotations; a_RuntimeVisibleTypeAnnotations; a_RuntimeInvisibleTypeAnnotations].
Definition empty_vec (nv : str * val) : bool :=
  mem_str (fst nv) vec_slots && match snd nv with VList [] => true | _ => false end.
(* the attribute state of a record component, inside the Record attribute's value: slots and unknown
   attributes up to order *)
Definition state_eqb (slot_eq : list (str * val) -> list (str * val) -> bool) (a b : val) : bool :=
  match a, b with
  | VSeq [VList sa; VList ua], VSeq [VList sb; VList ub] =>
    let sl := fun l => flat_map (fun x => match x with VAttr n v => [(n, v)] | _ => [] end) l in
    slot_eq (sl sa) (sl sb) && perm_eqb val_eqb ua ub
  | _, _ => false
  end.
Definition slot_val_eqb (slot_eq : list (str * val) -> list (str * val) -> bool) (n : str) (a b : val) : bool :=
  if str_eqb n a_Record then
    match a, b with
    | VList ca, VList cb =>
      list_eqb (fun x y => match x, y with
                           | VSeq [n1; d1; s1], VSeq [n2; d2; s2] => val_eqb n1 n2 && val_eqb d1 d2 && state_eqb slot_eq s1 s2
                           | _, _ => false end) ca cb
    | _, _ => false
    end
  else val_eqb a b.
Definition slots_eqb_with (inner : list (str * val) -> list (str * val) -> bool) (a b : list (str * val)) : bool :=
  let a' := filter (fun nv => negb (empty_vec nv)) a in
  let b' := filter (fun nv => negb (empty_vec nv)) b in
  Nat.eqb (length a') (length b')
  && forallb (fun nv => match slot_get (fst nv) b' with Some v => slot_val_eqb inner (fst nv) (snd nv) v | None => false end) a'.
Definition slots_eqb (a b : list (str * val)) : bool :=
  slots_eqb_with (slots_eqb_with (fun _ _ => false)) a b.

Definition insn_entry_eqb (x y : bool * option nat * xinsn) : bool :=
  Bool.eqb (fst (fst x)) (fst (fst y)) && on_eqb (snd (fst x)) (snd (fst y)) && xinsn_eqb (snd x) (snd y).
Definition code_eqb (a b : code_desc) : bool :=
  N.eqb (k_max_stack a) (k_max_stack b) && N.eqb (k_max_locals a) (k_max_locals b)
  && list_eqb insn_entry_eqb (k_insns a) (k_insns b) && Bool.eqb (k_last a) (k_last b)
  && list_eqb val_eqb (k_exc a) (k_exc b)
  && perm_eqb val_eqb (k_lines a) (k_lines b) && perm_eqb val_eqb (k_lvs a) (k_lvs b)
  && list_eqb val_eqb (k_frames a) (k_frames b)
  && list_eqb val_eqb (k_vta a) (k_vta b) && list_eqb val_eqb (k_ita a) (k_ita b)
  && unknown_eqb (k_unknown a) (k_unknown b).
Definition member_eqb (a b : member_desc) : bool :=
  N.eqb (md_access a) (md_access b) && str_eqb (md_name a) (md_name b) && str_eqb (md_desc a) (md_desc b)
  && slots_eqb (md_slots a) (md_slots b) && unknown_eqb (md_unknown a) (md_unknown b)
  && opt_eqb code_eqb (md_code a) (md_code b).
Definition class_eqb (a b : class_desc) : bool :=
  N.eqb (cd_minor a) (cd_minor b) && N.eqb (cd_major a) (cd_major b) && N.eqb (cd_access a) (cd_access b)
  && str_eqb (cd_this a) (cd_this b) && opt_eqb str_eqb (cd_super a) (cd_super b)
  && list_eqb str_eqb (cd_interfaces a) (cd_interfaces b)
  && list_eqb member_eqb (cd_fields a) (cd_fields b) && list_eqb member_eqb (cd_methods a) (cd_methods b)
  && slots_eqb (cd_slots a) (cd_slots b) && unknown_eqb (cd_unknown a) (cd_unknown b).

Inductive case :=
(* the harness' assembler encoded [body] with the per-instruction choices [ch]: the model's general
   encoder must produce the same code array *)
| CEnc (body : list (ainsn nat)) (ch : list choice) (code : option bytes)
(* duke read a class with this constant pool and bootstrap methods whose methods have these Code
   attributes (label-carrying tables split into fields, catch_type indices); what it delivered per
   method, labels replaced by the index of the instruction carrying them, constants resolved *)
| CClass (p : pool) (bsm : bsms) (ms : list (code_in * list N)) (r : res (list xsem))
(* constant pool as written by the harness, and for (accessor kind, index) queries duke's resolved value *)
| CPool (p : pool) (bsm : bsms) (queries : list (N * N * res cval))
(* the accessors of the class-file formats (ClassFile.acc: 0..12 without bootstrap methods, 13..20 the narrowing
   accessors of element values) asked through vehicle attributes; duke's resolved value *)
| CAcc (p : pool) (queries : list (N * N * res cval))
(* access flags: the u16 in the file and the u16 rebuilt from duke's flag struct *)
| CAccess (kind : N) (v : N) (back : N)
(* an attribute list (names, payloads) of a context in file order, and what duke reported as unknown attributes *)
(* a class file with this magic, minor and major version: did duke get past the header *)
| CHeader (mg minor major : N) (accepted : bool)
| CUnknown (ctx : N) (attrs : list (str * bytes)) (reported : list (str * bytes))
(* a whole class file (packed bytes) and the tree duke::read_class built from it, as a class description *)
| CFile (file : bytes) (r : res class_desc)
(* the bytes the harness holds of the example class (0) and of the witness classes of F13p (1), F13r (2), F13t (3):
   they are the encodings of the structures of Witness.v *)
| CWitness (k : N) (file : bytes)
(* a damaged class file (truncated, a byte changed): where duke still builds a tree the model must build the same
   one; where duke refuses, the model may accept (the validity checks of names and descriptors are not modelled) *)
| CFileM (file : bytes) (r : res class_desc).

Definition check (c : case) : bool :=
  match c with
  | CEnc body ch code => opt_eqb bytes_eqb (encode (ch_of ch) body) code
  | CClass p bsm ms r => res_eqb (list_eqb xsem_eqb) (map_res (read_method p bsm) ms) r
  | CPool p bsm qs => forallb (fun q => match q with (kind, idx, r) => res_eqb cval_eqb (resolve_kind p bsm kind idx) r end) qs
  | CAcc p qs => forallb (fun q => match q with (kind, idx, r) => res_eqb cval_eqb (acc p kind idx) r end) qs
  | CAccess kind v back => N.eqb (access_back kind v) back
  | CHeader mg minor major accepted => Bool.eqb (header_ok mg minor major) accepted
  | CUnknown ctx attrs reported =>
      list_eqb (pair_eqb str_eqb bytes_eqb) (unknown_of (known_ctx ctx) attrs) reported
  | CFile file r => res_eqb class_eqb (read_class true mutf8_dec file) r
  | CFileM file r => match r with Ok _ => res_eqb class_eqb (read_class true mutf8_dec file) r | Err => true end
  | CWitness k file =>
      bytes_eqb (encode_class (match k with 0 => ex_class | 1 => w_f13p | 2 => w_f13r | _ => w_f13t end)) file
  end.
