(* C01 — executable model of duke's class reader for the WHOLE class file
   (duke/src/class_reader.rs: read, read_field, read_method, read_code's framing,
   read_record_component, the annotation / type annotation / module readers;
   class_reader/pool.rs: PoolRead::read; visitor/implementations/tree.rs: how the tree keeps what
   it is handed) — and of the class file as a structure ([rclass]: what an encoder writes).

   The byte layouts are [fmt] terms (Fmt.v; the tables and the read_vec / struct layouts are
   generated into Formats.v).  The reader is  header gate; constant pool; the fixed header fields;
   members skipped by their attribute lengths; class attributes; back to the members  — as [read]
   does —, each attribute list a [FVec16 (FAttr sel)] whose payload layout depends on the name.
   What the tree visitor does with the attributes it is handed (store once / extend / push /
   overwrite / set a flag, "only one … attribute is allowed") is [apply_attr]; the Code attribute
   goes on to the code-array model (Model.read_code_raw, Resolve.resolve_insn).

   [impl = true] is the code as it is.  [impl = false] differs in exactly the three places of the
   known findings: parameter annotations are kept (F13p), a Record attribute without components
   leaves a trace (F13r), target_type 0x13 is accepted inside method_info as javac writes it (F13t).

   Definitions only. *)
From FB Require Export C01.Fmt C01.Formats C01.Model C01.Resolve.
From FB Require Import Base.Sort.

(* ---------------------------------------------------------------------------------------------- *)
(* pool accessors by number: 0..12 as Pool.resolve_kind, then the narrowing accessors of element values *)
Definition acc (p : pool) (k i : N) : res cval :=
  if k <? 13 then resolve_kind p [] k i
  else
    do e <- pget p i;
    match k, e with
    | 13, EInt z => Ok (VInt z)                                  (* get_integer *)
    | 14, EInt z => Ok (VInt (s8 (u8 z)))                        (* get_integer_as_byte: as i8 *)
    | 15, EInt z => Ok (VInt (Z.of_N (u16 z)))                   (* get_integer_as_char: as u16 *)
    | 16, EInt z => Ok (VInt (s16 (u16 z)))                      (* get_integer_as_short: as i16 *)
    | 17, EInt z => Ok (VInt (if (z =? 0)%Z then 0 else 1))      (* get_integer_as_boolean: != 0 *)
    | 18, ELong z => Ok (VLong z)
    | 19, EFloat b => Ok (VFloat b)
    | 20, EDouble b => Ok (VDouble b)
    | _, _ => Err
    end.

(* ---------------------------------------------------------------------------------------------- *)
(* formats built from the generated tables *)
Definition in_tbl (t : N) (tbl : list (N * list N)) : bool := existsb (fun e => fst e =? t) tbl.
Fixpoint tbl_get (t : N) (tbl : list (N * list N)) : list N :=
  match tbl with [] => [] | (k, fs) :: r => if k =? t then fs else tbl_get t r end.
Definition target_field_fmt (c : N) : fmt :=
  match c with 0 => FU8 | 1 => FU16 | 2 => FPc 0 | _ => FVec16 (FSeq [FRange; FU16]) end.
(* [extra]: target types the JVMS side accepts in addition *)
Definition target_fmt (tbl extra : list (N * list N)) : fmt :=
  FTag (fun impl t => in_tbl t tbl || (negb impl && in_tbl t extra))
       (fun t => FSeq (map target_field_fmt (tbl_get t (tbl ++ extra)))).
(* javac 16/17: the FIELD target (0x13) of a record component's type annotation is copied to the
   accessor method and the canonical constructor parameter *)
Definition target_method_extra : list (N * list N) := [(19, [])].

Fixpoint assoc_N (t : N) (l : list (N * N)) : option N :=
  match l with [] => None | (k, v) :: r => if k =? t then Some v else assoc_N t r end.

(* element_value; [nest]: may annotations and arrays occur here, [inner]: the element values inside them *)
Definition ev_tag_ok (nest : bool) (_ : bool) (t : N) : bool :=
  match assoc_N t ev_consts with
  | Some _ => true
  | None => (t =? ev_enum_tag) || (t =? ev_class_tag) || (nest && ((t =? ev_annot_tag) || (t =? ev_array_tag)))
  end.
Definition ev_sel (inner : option fmt) (t : N) : fmt :=
  match assoc_N t ev_consts with
  | Some a => FIdx a
  | None =>
    if t =? ev_enum_tag then FSeq [FIdx 8; FIdx 8]
    else if t =? ev_class_tag then FIdx 8
    else match inner with
         | None => FSeq []
         | Some f => if t =? ev_annot_tag then FSeq [FIdx 8; FVec16 (FSeq [FIdx 8; f])] else FVec16 f
         end
  end.
(* with k further levels of annotation / array nesting allowed *)
Fixpoint ev_fmt (k : nat) : fmt :=
  match k with
  | O => FTag (ev_tag_ok false) (ev_sel None)
  | S k' => FTag (ev_tag_ok true) (ev_sel (Some (ev_fmt k')))
  end.
Definition pairs_fmt : fmt := FVec16 (FSeq [FIdx 8; ev_fmt max_ev_nesting]).
Definition annotation_fmt : fmt := FSeq [FIdx 8; pairs_fmt].
Definition annotations_fmt : fmt := FVec16 annotation_fmt.
Definition type_path_fmt : fmt :=
  FVec8 (FTag (fun _ k => k <=? 3) (fun k => if k <=? 2 then FConst8 0 else FU8)).
Definition type_annotations_fmt (target : fmt) : fmt := FVec16 (FSeq [target; type_path_fmt; FIdx 8; pairs_fmt]).

Definition vti_fmt : fmt :=
  FTag (fun _ t => mem_N t vti_plain || (t =? vti_object_tag) || (t =? vti_uninit_tag))
       (fun t => if t =? vti_object_tag then FIdx 6 else if t =? vti_uninit_tag then FPc 0 else FSeq []).
Definition frame_fmt : fmt :=
  FTag (fun _ t => (t <? 128) || (247 <=? t))
       (fun t => if t <? 64 then FSeq []
                 else if t <? 128 then vti_fmt
                 else if t =? 247 then FSeq [FU16; vti_fmt]
                 else if t <? 252 then FU16
                 else if t <? 255 then FSeq [FU16; FSeq (repeat vti_fmt (N.to_nat (t - 251)))]
                 else FSeq [FU16; FVec16 vti_fmt; FVec16 vti_fmt]).
(* the CLDC StackMap attribute: per entry an absolute offset and a full frame (uoffset, ulocalvar and
   ustack are u2, as duke reads them) *)
Definition cldc_frame_fmt : fmt := FSeq [FPc 0; FVec16 vti_fmt; FVec16 vti_fmt].

Fixpoint pick (name : str) (tbl : list (str * fmt)) (dflt : fmt) : fmt :=
  match tbl with [] => dflt | (n, f) :: r => if str_eqb n name then f else pick name r dflt end.

Definition ann_rows (target : fmt) : list (str * fmt) :=
  [(a_RuntimeVisibleAnnotations, annotations_fmt); (a_RuntimeInvisibleAnnotations, annotations_fmt);
   (a_RuntimeVisibleTypeAnnotations, type_annotations_fmt target);
   (a_RuntimeInvisibleTypeAnnotations, type_annotations_fmt target)].

Definition code_sel (name : str) (len : N) : fmt :=
  pick name
    [(a_StackMapTable, FVec16 frame_fmt); (a_StackMap, FVec16 cldc_frame_fmt);
     (a_LineNumberTable, FVec16 (FSeq [FPc 0; FU16]));
     (a_LocalVariableTable, FVec16 (FSeq [FRange; FIdx 8; FIdx 8; FU16]));
     (a_LocalVariableTypeTable, FVec16 (FSeq [FRange; FIdx 8; FIdx 8; FU16]));
     (a_RuntimeVisibleTypeAnnotations, type_annotations_fmt (target_fmt target_code_tbl []));
     (a_RuntimeInvisibleTypeAnnotations, type_annotations_fmt (target_fmt target_code_tbl []))]
    (FBytes len).
Definition code_fmt : fmt := FSeq [FU16; FU16; FBytes32; f_exception_table; FVec16 (FAttr code_sel)].

Definition field_sel (name : str) (len : N) : fmt :=
  pick name
    ([(a_Deprecated, FSeq []); (a_Synthetic, FSeq []); (a_ConstantValue, f_ConstantValue); (a_Signature, f_Signature)]
     ++ ann_rows (target_fmt target_field_tbl []))
    (FBytes len).
Definition method_sel (name : str) (len : N) : fmt :=
  pick name
    ([(a_Deprecated, FSeq []); (a_Synthetic, FSeq []); (a_Code, code_fmt); (a_Exceptions, f_Exceptions);
      (a_Signature, f_Signature)]
     ++ ann_rows (target_fmt target_method_tbl target_method_extra)
     ++ [(a_RuntimeVisibleParameterAnnotations, FSkip len); (a_RuntimeInvisibleParameterAnnotations, FSkip len);
         (a_AnnotationDefault, ev_fmt max_ev_nesting); (a_MethodParameters, f_MethodParameters)])
    (FBytes len).
Definition record_sel (name : str) (len : N) : fmt :=
  pick name ((a_Signature, f_Signature) :: ann_rows (target_fmt target_field_tbl [])) (FBytes len).
Definition class_sel (name : str) (len : N) : fmt :=
  pick name
    ([(a_Deprecated, FSeq []); (a_Synthetic, FSeq []); (a_InnerClasses, f_InnerClasses);
      (a_EnclosingMethod, f_EnclosingMethod); (a_Signature, f_Signature); (a_SourceFile, f_SourceFile);
      (a_SourceDebugExtension, f_SourceDebugExtension len)]
     ++ ann_rows (target_fmt target_class_tbl [])
     ++ [(a_Module, f_Module); (a_ModulePackages, f_ModulePackages); (a_ModuleMainClass, f_ModuleMainClass);
         (a_NestHost, f_NestHost); (a_NestMembers, f_NestMembers); (a_PermittedSubclasses, f_PermittedSubclasses);
         (a_Record, FVec16 (FSeq [FIdx 8; FIdx 8; FVec16 (FAttr record_sel)]));
         (a_BootstrapMethods, f_BootstrapMethods)])
    (FBytes len).

Definition head_fmt : fmt := FSeq [FFlags 0; FIdx 6; FOptIdx 6; FVec16 (FIdx 6)].
Definition fields_fmt : fmt := FVec16 (FSeq [FFlags 1; FIdx 8; FIdx 8; FVec16 (FAttr field_sel)]).
Definition methods_fmt : fmt := FVec16 (FSeq [FFlags 2; FIdx 8; FIdx 8; FVec16 (FAttr method_sel)]).
Definition class_attrs_fmt : fmt := FVec16 (FAttr class_sel).

(* ---------------------------------------------------------------------------------------------- *)
(* the constant pool in bytes (PoolRead::read) *)
Definition w64 (n : N) : bytes := w32 (n / 4294967296) ++ w32 n.
Definition u64 (z : Z) : N := Z.to_N (z mod 18446744073709551616).
Definition s64 (u : N) : Z := if u <? 9223372036854775808 then Z.of_N u else (Z.of_N u - 18446744073709551616)%Z.
Definition fits64 (z : Z) : bool := ((-9223372036854775808 <=? z) && (z <? 9223372036854775808))%Z.
Definition rd_u64 (s : bytes) : res (N * bytes) :=
  do (a, s1) <- rd_u32 s; do (b, s2) <- rd_u32 s1; Ok (a * 4294967296 + b, s2).

(* in a class-file structure a Utf8 entry holds its bytes; [dec] turns them into a string *)
Definition rd_entry (dec : bytes -> res str) : parser entry := fun s =>
  do (tag, s1) <- rd_u8 s;
  match tag with
  | 1 => do (n, s2) <- rd_u16 s1; do (b, s3) <- take_res n s2; do x <- dec b; Ok (EUtf8 x, s3)
  | 3 => do (n, s2) <- rd_u32 s1; Ok (EInt (s32 n), s2)
  | 4 => do (n, s2) <- rd_u32 s1; Ok (EFloat n, s2)
  | 5 => do (n, s2) <- rd_u64 s1; Ok (ELong (s64 n), s2)
  | 6 => do (n, s2) <- rd_u64 s1; Ok (EDouble n, s2)
  | 7 => do (a, s2) <- rd_u16 s1; Ok (EClass a, s2)
  | 8 => do (a, s2) <- rd_u16 s1; Ok (EString a, s2)
  | 9 => do (a, s2) <- rd_u16 s1; do (b, s3) <- rd_u16 s2; Ok (EFieldRef a b, s3)
  | 10 => do (a, s2) <- rd_u16 s1; do (b, s3) <- rd_u16 s2; Ok (EMethodRef a b, s3)
  | 11 => do (a, s2) <- rd_u16 s1; do (b, s3) <- rd_u16 s2; Ok (EIMethodRef a b, s3)
  | 12 => do (a, s2) <- rd_u16 s1; do (b, s3) <- rd_u16 s2; Ok (ENameAndType a b, s3)
  | 15 => do (k, s2) <- rd_u8 s1; do (b, s3) <- rd_u16 s2; Ok (EMethodHandle k b, s3)
  | 16 => do (a, s2) <- rd_u16 s1; Ok (EMethodType a, s2)
  | 17 => do (a, s2) <- rd_u16 s1; do (b, s3) <- rd_u16 s2; Ok (EDynamic a b, s3)
  | 18 => do (a, s2) <- rd_u16 s1; do (b, s3) <- rd_u16 s2; Ok (EInvokeDynamic a b, s3)
  | 19 => do (a, s2) <- rd_u16 s1; Ok (EModule a, s2)
  | 20 => do (a, s2) <- rd_u16 s1; Ok (EPackage a, s2)
  | _ => Err
  end.

Definition slots_of (e : entry) : list (option entry) := if two_slot e then [Some e; None] else [Some e].

(* `while pool.len() < constant_pool_count`: [have] is pool.len() *)
Fixpoint rd_entries (dec : bytes -> res str) (fuel : nat) (have count : N) : parser (list (option entry)) := fun s =>
  if count <=? have then Ok ([], s) else
  match fuel with
  | O => Err
  | S f =>
    do (e, s1) <- rd_entry dec s;
    do (rest, s2) <- rd_entries dec f (have + (if two_slot e then 2 else 1)) count s1;
    Ok (slots_of e ++ rest, s2)
  end.
Definition rd_pool (dec : bytes -> res str) : parser pool := fun s =>
  do (count, s1) <- rd_u16 s;
  do (sl, s2) <- rd_entries dec (N.to_nat count) 1 count s1;
  Ok (None :: sl, s2).

Definition enc_entry (e : entry) : bytes :=
  match e with
  | EUtf8 b => 1 :: w16 (N.of_nat (length b)) ++ b
  | EInt z => 3 :: w32 (u32 z)
  | EFloat n => 4 :: w32 n
  | ELong z => 5 :: w64 (u64 z)
  | EDouble n => 6 :: w64 n
  | EClass a => 7 :: w16 a
  | EString a => 8 :: w16 a
  | EFieldRef a b => 9 :: w16 a ++ w16 b
  | EMethodRef a b => 10 :: w16 a ++ w16 b
  | EIMethodRef a b => 11 :: w16 a ++ w16 b
  | ENameAndType a b => 12 :: w16 a ++ w16 b
  | EMethodHandle k b => 15 :: w8 k ++ w16 b
  | EMethodType a => 16 :: w16 a
  | EDynamic a b => 17 :: w16 a ++ w16 b
  | EInvokeDynamic a b => 18 :: w16 a ++ w16 b
  | EModule a => 19 :: w16 a
  | EPackage a => 20 :: w16 a
  end.
Fixpoint pool_slots (es : list entry) : N :=
  match es with [] => 0 | e :: es' => (if two_slot e then 2 else 1) + pool_slots es' end.
Definition enc_pool (es : list entry) : bytes := w16 (1 + pool_slots es) ++ flat_map enc_entry es.

Definition entry_fits (e : entry) : bool :=
  match e with
  | EUtf8 b => N.of_nat (length b) <? 65536
  | EInt z => fits32 z
  | EFloat n => n <? 4294967296
  | ELong z => fits64 z
  | EDouble n => n <? 18446744073709551616
  | EClass a | EString a | EMethodType a | EModule a | EPackage a => a <? 65536
  | EFieldRef a b | EMethodRef a b | EIMethodRef a b | ENameAndType a b | EDynamic a b | EInvokeDynamic a b =>
      (a <? 65536) && (b <? 65536)
  | EMethodHandle k b => (k <? 256) && (b <? 65536)
  end.
Definition pool_fits (es : list entry) : bool := (1 + pool_slots es <? 65536) && forallb entry_fits es.

Definition dec_entry (dec : bytes -> res str) (e : entry) : res entry :=
  match e with EUtf8 b => do x <- dec b; Ok (EUtf8 x) | _ => Ok e end.
Definition decode_pool (dec : bytes -> res str) (es : list entry) : res pool :=
  do es' <- map_res (dec_entry dec) es; Ok (pool_of_entries es').

(* ---------------------------------------------------------------------------------------------- *)
(* what the tree holds *)
Record code_desc := {
  k_max_stack : N; k_max_locals : N;
  k_insns : list (bool * option nat * xinsn);   (* has a label, index of its frame, instruction *)
  k_last : bool;
  k_exc : list val;       (* VSeq [VAt start; VAt end; VAt handler; VO catch] *)
  k_lines : list val;     (* VSeq [VAt start; VN line], all LineNumberTable attributes in file order *)
  k_lvs : list val;       (* VTag 0 (LocalVariableTable) / 1 (…TypeTable) (VSeq [VSpan; name; descriptor / signature; VN index]) *)
  k_frames : list val;    (* the frames that were attached: VTag 0 same, 1 same_locals_1 vti, 2 chop (VN k), 3 append, 4 full *)
  k_vta : list val; k_ita : list val;
  k_unknown : list (str * bytes)
}.

Record astate := {
  st_slots : list (str * val);             (* what was stored under an attribute's name *)
  st_unknown : list (str * bytes);
  st_code : option code_desc;
  st_had_record : bool
}.
Definition st_empty : astate := {| st_slots := []; st_unknown := []; st_code := None; st_had_record := false |}.

Fixpoint slot_get (n : str) (l : list (str * val)) : option val :=
  match l with [] => None | (k, v) :: r => if str_eqb k n then Some v else slot_get n r end.
Fixpoint slot_put (n : str) (v : val) (l : list (str * val)) : list (str * val) :=
  match l with
  | [] => [(n, v)]
  | (k, v') :: r => if str_eqb k n then (k, v) :: r else (k, v') :: slot_put n v r
  end.
Definition st_put (st : astate) (n : str) (v : val) : astate :=
  {| st_slots := slot_put n v (st_slots st); st_unknown := st_unknown st; st_code := st_code st; st_had_record := st_had_record st |}.
Definition slot_list (n : str) (l : list (str * val)) : list val :=
  match slot_get n l with Some (VList x) => x | _ => [] end.

(* attribute contexts: 0 class, 1 field, 2 method, 3 code, 4 record component *)
Definition ctx_names (ctx : N) : list str :=
  match ctx with 0 => known_class | 1 => known_field | 2 => known_method | 3 => known_code | _ => known_record end.

Inductive policy := PUnknown | PFlag | POnce | POver | PExtend | PLocals (t : N) | PDrop | PCode | PRecord | PFrames.
Definition policy_of (impl : bool) (ctx : N) (name : str) : policy :=
  if negb (mem_str name (ctx_names ctx)) then PUnknown
  else if str_eqb name a_Deprecated || str_eqb name a_Synthetic then PFlag
  else if str_eqb name a_Code then PCode
  else if str_eqb name a_Record then PRecord
  else if str_eqb name a_StackMapTable || str_eqb name a_StackMap then PFrames
  else if mem_str name [a_RuntimeVisibleAnnotations; a_RuntimeInvisibleAnnotations; a_RuntimeVisibleTypeAnnotations;
                        a_RuntimeInvisibleTypeAnnotations; a_LineNumberTable] then PExtend
  else if str_eqb name a_LocalVariableTable then PLocals 0
  else if str_eqb name a_LocalVariableTypeTable then PLocals 1
  else if str_eqb name a_AnnotationDefault then POver
  else if mem_str name [a_RuntimeVisibleParameterAnnotations; a_RuntimeInvisibleParameterAnnotations]
       then (if impl then PDrop else POnce)
  else POnce.

(* attributes without a nested structure of their own *)
Definition apply_simple (impl : bool) (ctx : N) (st : astate) (name : str) (v : val) : res astate :=
  match policy_of impl ctx name with
  | PUnknown =>
    match v with
    | VB b => Ok {| st_slots := st_slots st; st_unknown := st_unknown st ++ [(name, b)]; st_code := st_code st;
                    st_had_record := st_had_record st |}
    | _ => Err
    end
  | PFlag => Ok (st_put st name (VSeq []))
  | POnce => match slot_get name (st_slots st) with Some _ => Err | None => Ok (st_put st name v) end
  | POver => Ok (st_put st name v)
  | PExtend =>
    match v with VList l => Ok (st_put st name (VList (slot_list name (st_slots st) ++ l))) | _ => Err end
  | PLocals t =>
    match v with
    | VList l => Ok (st_put st a_LocalVariableTable (VList (slot_list a_LocalVariableTable (st_slots st) ++ map (VTag t) l)))
    | _ => Err
    end
  | PDrop => Ok st
  | PFrames =>
    (* StackMapTable and StackMap fill the same Option (`stack_map_frame.insert_if_empty`) *)
    match slot_get a_StackMapTable (st_slots st), slot_get a_StackMap (st_slots st) with
    | None, None => Ok (st_put st name v)
    | _, _ => Err
    end
  | PCode | PRecord => Err
  end.

Definition fold_attrs (ap : astate -> str -> val -> res astate) (st : astate) (attrs : list val) : res astate :=
  fold_res (fun st a => match a with VAttr n v => ap st n v | _ => Err end) st attrs.

(* an attribute state as a value (record components sit inside the Record attribute's value) *)
Definition val_of_state (st : astate) : val :=
  VSeq [VList (map (fun nv => VAttr (fst nv) (snd nv)) (st_slots st));
        VList (map (fun nb => VAttr (fst nb) (VB (snd nb))) (st_unknown st))].

(* ---------------------------------------------------------------------------------------------- *)
(* the Code attribute *)
Definition frame_delta (f : val) : res N :=
  match f with
  | VTag t body =>
    if t <? 64 then Ok t else if t <? 128 then Ok (t - 64)
    else match body with VN d => Ok d | VSeq (VN d :: _) => Ok d | _ => Err end
  | _ => Err
  end.
Definition frame_norm (f : val) : val :=
  match f with
  | VTag t body =>
    if t <? 64 then VTag 0 (VSeq [])
    else if t <? 128 then VTag 1 body
    else if t =? 247 then match body with VSeq [_; x] => VTag 1 x | _ => f end
    else if t <? 251 then VTag 2 (VN (251 - t))
    else if t =? 251 then VTag 0 (VSeq [])
    else if t <? 255 then match body with VSeq [_; VSeq l] => VTag 3 (VList l) | _ => f end
    else match body with VSeq [_; a; b] => VTag 4 (VSeq [a; b]) | _ => f end
  | _ => f
  end.
(* a CLDC StackMap entry: its offset, and the full frame it holds *)
Definition cldc_key (f : val) : N := match f with VSeq (VPc _ o :: _) => o | _ => 0 end.
Definition cldc_norm (f : val) : val := match f with VSeq [_; a; b] => VTag 4 (VSeq [a; b]) | _ => f end.
Definition cldc_sorted (l : list val) : list val := isort (fun a b => cldc_key a <=? cldc_key b) l.
Definition exc_triple (v : val) : res (N * N * N) :=
  match v with VSeq [VPc _ s; VPc _ e; VPc _ h; _] => Ok (s, e, h) | _ => Err end.
Definition line_pair (v : val) : res (N * N) :=
  match v with VSeq [VPc _ s; VN l] => Ok (s, l) | _ => Err end.

Definition ixf (cr : code_raw) (pc : N) : option nat := index_of pc (map fst (cr_insns cr) ++ [cr_clen cr]) 0.
Definition count_some {A} (l : list (option A)) : nat := length (filter (fun o => match o with Some _ => true | None => false end) l).

Definition code_parts (v : val) : option (N * N * bytes * list val * list val) :=
  match v with VSeq [VN ms; VN ml; VB code; VList exc; VList attrs] => Some (ms, ml, code, exc, attrs) | _ => None end.

(* the label-carrying tables of a Code attribute, as the code-array reader takes them (Model.code_in) *)
(* the frames of the method in the order they are queued in, without their offsets *)
Definition frames_of_state (st : astate) : list val :=
  match slot_get a_StackMap (st_slots st) with
  | Some (VList l) => map cldc_norm (cldc_sorted l)
  | _ => map frame_norm (slot_list a_StackMapTable (st_slots st))
  end.
Definition code_in_of_state (code : bytes) (exc : list val) (st : astate) : res code_in :=
  let frames := slot_list a_StackMapTable (st_slots st) in
  let cldc := slot_list a_StackMap (st_slots st) in
  let lvs := slot_list a_LocalVariableTable (st_slots st) in
  let tas := slot_list a_RuntimeVisibleTypeAnnotations (st_slots st) ++ slot_list a_RuntimeInvisibleTypeAnnotations (st_slots st) in
  do ex <- map_res exc_triple exc;
  do ln <- map_res line_pair (slot_list a_LineNumberTable (st_slots st));
  do ds <- map_res frame_delta frames;
  Ok {| ci_code := code; ci_exc := ex; ci_lines := ln;
        ci_ranges := flat_map ranges_of lvs ++ flat_map ranges_of tas;
        ci_frames := ds;
        ci_cldc := match slot_get a_StackMap (st_slots st) with Some _ => Some (map cldc_key cldc) | None => None end;
        ci_points := flat_map pcs_of frames ++ flat_map pcs_of (map cldc_norm (cldc_sorted cldc)) ++ flat_map pcs_of tas |}.
(* what the tree holds of a Code attribute: [ix] turns a label into the index of its instruction,
   [attached] is the number of frames that found their instruction *)
Definition code_desc_of (ms ml : N) (xi : list (bool * option nat * xinsn)) (last : bool) (ix : N -> option nat)
    (exc : list val) (st : astate) (attached : nat) : code_desc :=
  {| k_max_stack := ms; k_max_locals := ml; k_insns := xi; k_last := last;
     k_exc := map (map_pcs ix) exc;
     k_lines := map (map_pcs ix) (slot_list a_LineNumberTable (st_slots st));
     k_lvs := map (map_pcs ix) (slot_list a_LocalVariableTable (st_slots st));
     k_frames := firstn attached (map (fun f => map_pcs ix f) (frames_of_state st));
     k_vta := map (map_pcs ix) (slot_list a_RuntimeVisibleTypeAnnotations (st_slots st));
     k_ita := map (map_pcs ix) (slot_list a_RuntimeInvisibleTypeAnnotations (st_slots st));
     k_unknown := st_unknown st |}.
Definition resolve_entry (p : pool) (b : bsms) (e : bool * option nat * ainsn (option nat)) : res (bool * option nat * xinsn) :=
  do x <- resolve_insn p b (snd e); Ok (fst e, x).

Definition build_code (impl : bool) (p : pool) (b : bsms) (v : val) : res code_desc :=
  match code_parts v with
  | Some (ms, ml, code, exc, attrs) =>
    do st <- fold_attrs (apply_simple impl 3) st_empty attrs;
    do ci <- code_in_of_state code exc st;
    do cr <- read_code_raw ci;
    let cs := sem ci cr in
    do xi <- map_res (resolve_entry p b) (cs_insns cs);
    Ok (code_desc_of ms ml xi (cs_last cs) (ixf cr) exc st (count_some (map (fun x => snd (fst x)) (cs_insns cs))))
  | None => Err
  end.

(* ---------------------------------------------------------------------------------------------- *)
(* class, field, method level *)
Definition component_parts (v : val) : option (str * str * list val) :=
  match v with VSeq [VC (VUtf8 n); VC (VUtf8 d); VList attrs] => Some (n, d, attrs) | _ => None end.
Definition build_component (impl : bool) (v : val) : res val :=
  match component_parts v with
  | Some (n, d, attrs) =>
    do st <- fold_attrs (apply_simple impl 4) st_empty attrs;
    Ok (VSeq [VS n; VS d; val_of_state st])
  | None => Err
  end.

Definition apply_attr (impl : bool) (p : pool) (b : bsms) (ctx : N) (st : astate) (name : str) (v : val) : res astate :=
  match policy_of impl ctx name with
  | PCode =>
    match st_code st with
    | Some _ => Err                                     (* only one Code attribute is allowed *)
    | None => do c <- build_code impl p b v;
              Ok {| st_slots := st_slots st; st_unknown := st_unknown st; st_code := Some c; st_had_record := st_had_record st |}
    end
  | PRecord =>
    if st_had_record st then Err else                  (* only one Record attribute is allowed *)
    match v with
    | VList comps =>
      do cs <- map_res (build_component impl) comps;
      (* the components are pushed one by one: nothing is stored when there are none (F13r) *)
      let slots := match cs with [] => if impl then st_slots st else slot_put name (VList []) (st_slots st)
                               | _ => slot_put name (VList cs) (st_slots st) end in
      Ok {| st_slots := slots; st_unknown := st_unknown st; st_code := st_code st; st_had_record := true |}
    | _ => Err
    end
  | _ => apply_simple impl ctx st name v
  end.

Record member_desc := {
  md_access : N; md_name : str; md_desc : str;
  md_slots : list (str * val); md_unknown : list (str * bytes); md_code : option code_desc
}.
Definition member_parts (v : val) : option (N * str * str * list val) :=
  match v with VSeq [VN a; VC (VUtf8 n); VC (VUtf8 d); VList attrs] => Some (a, n, d, attrs) | _ => None end.
Definition build_member (impl : bool) (p : pool) (b : bsms) (ctx : N) (v : val) : res member_desc :=
  match member_parts v with
  | Some (a, n, d, attrs) =>
    do st <- fold_attrs (apply_attr impl p b ctx) st_empty attrs;
    Ok {| md_access := a; md_name := n; md_desc := d; md_slots := st_slots st; md_unknown := st_unknown st; md_code := st_code st |}
  | None => Err
  end.

Record class_desc := {
  cd_minor : N; cd_major : N; cd_access : N;
  cd_this : str; cd_super : option str; cd_interfaces : list str;
  cd_fields : list member_desc; cd_methods : list member_desc;
  cd_slots : list (str * val);             (* BootstrapMethods excepted: it is consumed by the constants *)
  cd_unknown : list (str * bytes)
}.

Definition bsm_entry (v : val) : res (N * list N) :=
  match v with
  | VSeq [VIx h _; VList args] => do a <- map_res (fun x => match x with VN n => Ok n | _ => Err end) args; Ok (h, a)
  | _ => Err
  end.
Definition class_name (v : val) : res str := match v with VC (VClass s) => Ok s | _ => Err end.
Fixpoint slot_del (n : str) (l : list (str * val)) : list (str * val) :=
  match l with [] => [] | (k, v) :: r => if str_eqb k n then r else (k, v) :: slot_del n r end.

Definition head_parts (v : val) : option (N * str * option cval * list val) :=
  match v with VSeq [VN a; VC (VClass this); VO sup; VList itfs] => Some (a, this, sup, itfs) | _ => None end.
Definition list_of (v : val) : option (list val) := match v with VList l => Some l | _ => None end.
Definition super_name (sup : option cval) : res (option str) :=
  match sup with None => Ok None | Some (VClass s) => Ok (Some s) | Some _ => Err end.

Definition build_class (impl : bool) (p : pool) (minor major : N) (head attrs fields methods : val) : res class_desc :=
  match head_parts head, list_of attrs, list_of fields, list_of methods with
  | Some (a, this, sup, itfs), Some al, Some fl, Some ml =>
    do su <- super_name sup;
    do its <- map_res class_name itfs;
    do st <- fold_attrs (apply_attr impl p [] 0) st_empty al;
    do b <- map_res bsm_entry (slot_list a_BootstrapMethods (st_slots st));
    do fs <- map_res (build_member impl p b 1) fl;
    do ms <- map_res (build_member impl p b 2) ml;
    Ok {| cd_minor := minor; cd_major := major; cd_access := a; cd_this := this; cd_super := su; cd_interfaces := its;
          cd_fields := fs; cd_methods := ms; cd_slots := slot_del a_BootstrapMethods (st_slots st);
          cd_unknown := st_unknown st |}
  | _, _, _, _ => Err
  end.

(* ---------------------------------------------------------------------------------------------- *)
(* skip_attributes / the two member loops before the class attributes: by the declared lengths *)
Fixpoint skip_attrs_n (n : nat) (s : bytes) : res bytes :=
  match n with
  | O => Ok s
  | S n' => do (_, s1) <- rd_u16 s; do (len, s2) <- rd_u32 s1; skip_attrs_n n' (snd (take_lenient len s2))
  end.
Definition skip_attrs (s : bytes) : res bytes := do (n, s1) <- rd_u16 s; skip_attrs_n (N.to_nat n) s1.
Fixpoint skip_members_n (n : nat) (s : bytes) : res bytes :=
  match n with
  | O => Ok s
  | S n' => do s1 <- skip_attrs (snd (take_lenient 6 s)); skip_members_n n' s1
  end.
Definition skip_members (s : bytes) : res bytes := do (n, s1) <- rd_u16 s; skip_members_n (N.to_nat n) s1.

Definition read_class (impl : bool) (dec : bytes -> res str) (s : bytes) : res class_desc :=
  do (mg, s1) <- rd_u32 s;
  do (minor, s2) <- rd_u16 s1;
  do (major, s3) <- rd_u16 s2;
  if negb (header_ok mg minor major) then Err else
  do (p, s4) <- rd_pool dec s3;
  let rs := acc p in
  do (head, s5) <- rd_fmt impl dec rs head_fmt s4;
  do s6 <- skip_members s5;
  do s7 <- skip_members s6;
  do (attrs, _) <- rd_fmt impl dec rs class_attrs_fmt s7;
  do (fields, s8) <- rd_fmt impl dec rs fields_fmt s5;
  do (methods, _) <- rd_fmt impl dec rs methods_fmt s8;
  build_class impl p minor major head attrs fields methods.

(* ---------------------------------------------------------------------------------------------- *)
(* the class file as a structure, its bytes, its description *)
Record rclass := {
  rc_minor : N; rc_major : N;
  rc_pool : list entry;        (* EUtf8 holds the bytes of the entry *)
  rc_head : raw;               (* access_flags, this_class, super_class, interfaces *)
  rc_fields : raw; rc_methods : raw; rc_attrs : raw
}.
Definition encode_class (c : rclass) : bytes :=
  be32 magic ++ w16 (rc_minor c) ++ w16 (rc_major c) ++ enc_pool (rc_pool c)
  ++ enc_raw (rc_head c) ++ enc_raw (rc_fields c) ++ enc_raw (rc_methods c) ++ enc_raw (rc_attrs c).

Definition describe (impl : bool) (dec : bytes -> res str) (c : rclass) : res class_desc :=
  if negb (header_ok magic (rc_minor c) (rc_major c)) then Err else
  do p <- decode_pool dec (rc_pool c);
  let rs := acc p in
  do head <- desc_fmt impl dec rs head_fmt (rc_head c);
  do attrs <- desc_fmt impl dec rs class_attrs_fmt (rc_attrs c);
  do fields <- desc_fmt impl dec rs fields_fmt (rc_fields c);
  do methods <- desc_fmt impl dec rs methods_fmt (rc_methods c);
  build_class impl p (rc_minor c) (rc_major c) head attrs fields methods.

(* decidable well-formedness of the structure: every number fits its field, every count its count
   field, every tag is known, element values nest at most [max_ev_nesting] deep *)
Definition class_fits (impl : bool) (dec : bytes -> res str) (c : rclass) : bool :=
  (rc_minor c <? 65536) && (rc_major c <? 65536) && pool_fits (rc_pool c) &&
  match decode_pool dec (rc_pool c) with
  | Err => true
  | Ok p =>
    let rs := acc p in
    fits impl rs head_fmt (rc_head c) && fits impl rs fields_fmt (rc_fields c)
    && fits impl rs methods_fmt (rc_methods c) && fits impl rs class_attrs_fmt (rc_attrs c)
  end.

(* ---------------------------------------------------------------------------------------------- *)
(* the classes of the three known findings, decidable on the structure *)
Definition pa_names : list str := [a_RuntimeVisibleParameterAnnotations; a_RuntimeInvisibleParameterAnnotations].
Definition is_pa_attr (a : val) : bool := match a with VAttr n _ => mem_str n pa_names | _ => false end.
(* F13p: some method carries a Runtime(In)VisibleParameterAnnotations attribute *)
Definition no_param_annotations (methods : val) : bool :=
  match list_of methods with
  | Some ms => forallb (fun m => match member_parts m with Some (_, _, _, attrs) => negb (existsb is_pa_attr attrs) | None => true end) ms
  | None => true
  end.
(* F13r: a Record attribute with zero components *)
Definition is_empty_record (a : val) : bool := match a with VAttr n (VList []) => str_eqb n a_Record | _ => false end.
Definition no_empty_record (attrs : val) : bool :=
  match list_of attrs with Some al => negb (existsb is_empty_record al) | None => true end.
(* F13t ([tags_agree]: a tag duke rejects and javac writes — target_type 0x13 inside method_info), F13r, F13p *)
Definition known_free (dec : bytes -> res str) (c : rclass) : bool :=
  match decode_pool dec (rc_pool c) with
  | Err => true
  | Ok p =>
    let rs := acc p in
    tags_agree rs head_fmt (rc_head c) && tags_agree rs class_attrs_fmt (rc_attrs c)
    && tags_agree rs fields_fmt (rc_fields c) && tags_agree rs methods_fmt (rc_methods c)
    && match desc_fmt false dec rs class_attrs_fmt (rc_attrs c) with Ok a => no_empty_record a | Err => true end
    && match desc_fmt false dec rs methods_fmt (rc_methods c) with Ok m => no_param_annotations m | Err => true end
  end.
