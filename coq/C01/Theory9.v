(* C01 — theory, part 9: duke's reader against the description the JVMS (and javac) give of the
   same structure.  They agree outside the three known findings (F13p parameter annotations are
   dropped, F13r a Record attribute without components leaves no trace, F13t target_type 0x13 inside
   method_info is rejected); each of the three is refuted on a witness. *)
From FB Require Import C01.Bytes C01.Fmt C01.Formats C01.ClassFile C01.Theory6 C01.Theory7 C01.Theory8.
Arguments N.add : simpl never.
Arguments N.mul : simpl never.

Lemma mem_str_In s l : mem_str s l = true -> In s l.
Proof.
  unfold mem_str. rewrite existsb_exists. intros (y & Hy & E). apply str_eqb_eq in E. subst. exact Hy.
Qed.

Lemma fold_res_ext {A B} (f g : A -> B -> res A) : forall l a,
  (forall a x, In x l -> f a x = g a x) -> fold_res f a l = fold_res g a l.
Proof.
  induction l as [|x l IH]; intros a H; [reflexivity|]. cbn [fold_res].
  rewrite (H a x (or_introl eq_refl)). destruct (g a x); cbn [bind]; [|reflexivity].
  apply IH. intros a' y Hy. apply H. right. exact Hy.
Qed.
Lemma map_res_ext_in {A B} (f g : A -> res B) : forall l, (forall x, In x l -> f x = g x) -> map_res f l = map_res g l.
Proof. exact (map_res_ext f g). Qed.

(* the parameter-annotation names have an arm only in read_method *)
Lemma pa_only_method ctx n : ctx <> 2 -> mem_str n (ctx_names ctx) = true -> mem_str n pa_names = false.
Proof.
  intros Hc Hm. apply mem_str_In in Hm.
  assert (K : forallb (fun k => negb (mem_str k pa_names)) (ctx_names ctx) = true).
  { destruct ctx as [|[[q|q|]|[q|q|]|]]; try (vm_compute; reflexivity). exfalso. apply Hc. reflexivity. }
  rewrite forallb_forall in K. apply K in Hm. apply negb_true_iff in Hm. exact Hm.
Qed.

Lemma policy_agree ctx n : (ctx = 2 -> mem_str n pa_names = false) ->
  policy_of true ctx n = policy_of false ctx n.
Proof.
  intros H. unfold policy_of.
  destruct (mem_str n (ctx_names ctx)) eqn:M; cbn [negb]; [|reflexivity].
  assert (P : mem_str n pa_names = false).
  { destruct (N.eq_dec ctx 2) as [E|E]; [apply H; exact E|apply (pa_only_method ctx n E M)]. }
  unfold pa_names in P. rewrite P. reflexivity.
Qed.

Lemma apply_simple_agree ctx st n v : (ctx = 2 -> mem_str n pa_names = false) ->
  apply_simple true ctx st n v = apply_simple false ctx st n v.
Proof. intros H. unfold apply_simple. rewrite (policy_agree ctx n H). reflexivity. Qed.

Lemma fold_simple_agree ctx st l : ctx <> 2 ->
  fold_attrs (apply_simple true ctx) st l = fold_attrs (apply_simple false ctx) st l.
Proof.
  intros Hc. unfold fold_attrs. apply fold_res_ext. intros a x _. destruct x; try reflexivity.
  apply apply_simple_agree. intros E. exfalso. apply Hc. exact E.
Qed.

Lemma build_code_agree p b v : build_code true p b v = build_code false p b v.
Proof.
  unfold build_code. destruct (code_parts v) as [[[[[ms ml] code] exc] attrs]|]; [|reflexivity].
  rewrite (fold_simple_agree 3) by discriminate. reflexivity.
Qed.
Lemma build_component_agree v : build_component true v = build_component false v.
Proof.
  unfold build_component. destruct (component_parts v) as [[[n d] attrs]|]; [|reflexivity].
  rewrite (fold_simple_agree 4) by discriminate. reflexivity.
Qed.

Lemma map_res_nil_inv {A B} (f : A -> res B) l : map_res f l = Ok [] -> l = [].
Proof.
  destruct l as [|x l]; [reflexivity|]. cbn [map_res]. destruct (f x); cbn [bind]; [|discriminate].
  destruct (map_res f l); cbn [bind]; discriminate.
Qed.

Lemma apply_attr_agree p b ctx st n v :
  (ctx = 2 -> mem_str n pa_names = false) -> is_empty_record (VAttr n v) = false ->
  apply_attr true p b ctx st n v = apply_attr false p b ctx st n v.
Proof.
  intros H HR. unfold apply_attr. rewrite (policy_agree ctx n H).
  destruct (policy_of false ctx n) eqn:P; try (apply apply_simple_agree; exact H).
  - (* Code *) rewrite build_code_agree. reflexivity.
  - (* Record *)
    assert (NR : str_eqb n a_Record = true).
    { unfold policy_of in P. destruct (negb (mem_str n (ctx_names ctx))); [discriminate|].
      destruct (str_eqb n a_Deprecated || str_eqb n a_Synthetic); [discriminate|].
      destruct (str_eqb n a_Code); [discriminate|].
      destruct (str_eqb n a_Record); [reflexivity|].
      repeat match type of P with (if ?c then _ else _) = _ => destruct c; try discriminate end. }
    destruct (st_had_record st); [reflexivity|].
    destruct v as [| | | | | | | | | | |comps| |]; try reflexivity.
    rewrite (map_res_ext_in (build_component true) (build_component false)) by (intros; apply build_component_agree).
    destruct (map_res (build_component false) comps) as [cs|] eqn:E; cbn [bind]; [|reflexivity].
    destruct cs; [|reflexivity].
    apply map_res_nil_inv in E. subst comps. cbn [is_empty_record] in HR. rewrite NR in HR. discriminate.
Qed.

Lemma fold_attr_agree p b ctx : forall l st,
  (ctx = 2 -> existsb is_pa_attr l = false) -> existsb is_empty_record l = false ->
  fold_attrs (apply_attr true p b ctx) st l = fold_attrs (apply_attr false p b ctx) st l.
Proof.
  intros l st H1 H2. unfold fold_attrs. apply fold_res_ext. intros a x Hx. destruct x; try reflexivity.
  apply apply_attr_agree.
  - intros E. specialize (H1 E). destruct (mem_str name pa_names) eqn:M; [|reflexivity].
    assert (K : existsb is_pa_attr l = true) by (apply existsb_exists; exists (VAttr name x); split; [exact Hx|exact M]).
    congruence.
  - destruct (is_empty_record (VAttr name x)) eqn:M; [|reflexivity].
    assert (K : existsb is_empty_record l = true) by (apply existsb_exists; exists (VAttr name x); split; [exact Hx|exact M]).
    congruence.
Qed.

(* below the class level no attribute is named Record … unless a file says so: the policy of a
   Record attribute is PRecord only where the reader has an arm for it (the class level) *)
Lemma not_record_below ctx n v : ctx <> 0 -> policy_of false ctx n <> PRecord \/ is_empty_record (VAttr n v) = false.
Proof.
  intros Hc. destruct (is_empty_record (VAttr n v)) eqn:E; [|right; reflexivity]. left.
  assert (NR : str_eqb n a_Record = true) by (cbn [is_empty_record] in E; destruct v; try discriminate; destruct l; [exact E|discriminate]).
  apply str_eqb_eq in NR. subst n. unfold policy_of.
  assert (K : mem_str a_Record (ctx_names ctx) = false).
  { destruct ctx as [|[[q|q|]|[q|q|]|]]; try (vm_compute; reflexivity). exfalso. apply Hc. reflexivity. }
  rewrite K. discriminate.
Qed.

Lemma apply_attr_agree_member p b ctx st n v : ctx <> 0 ->
  (ctx = 2 -> mem_str n pa_names = false) ->
  apply_attr true p b ctx st n v = apply_attr false p b ctx st n v.
Proof.
  intros Hc H. destruct (not_record_below ctx n v Hc) as [NP|NE]; [|apply apply_attr_agree; assumption].
  unfold apply_attr. rewrite (policy_agree ctx n H).
  destruct (policy_of false ctx n) eqn:P; try (apply apply_simple_agree; exact H).
  - rewrite build_code_agree. reflexivity.
  - exfalso. apply NP. reflexivity.
Qed.

Lemma build_member_agree p b ctx v : ctx <> 0 ->
  (ctx = 2 -> match member_parts v with Some (_, _, _, attrs) => existsb is_pa_attr attrs = false | None => True end) ->
  build_member true p b ctx v = build_member false p b ctx v.
Proof.
  intros Hc H. unfold build_member.
  destruct (member_parts v) as [[[[a n] d] l]|]; [|reflexivity].
  assert (E : fold_attrs (apply_attr true p b ctx) st_empty l = fold_attrs (apply_attr false p b ctx) st_empty l).
  { unfold fold_attrs. apply fold_res_ext. intros a' x Hx. destruct x; try reflexivity.
    apply apply_attr_agree_member; [exact Hc|]. intros E. specialize (H E). cbn beta iota in H.
    destruct (mem_str name pa_names) eqn:M; [|reflexivity].
    assert (K : existsb is_pa_attr l = true) by (apply existsb_exists; exists (VAttr name x); split; [exact Hx|exact M]).
    congruence. }
  rewrite E. reflexivity.
Qed.

Lemma build_class_agree p mi ma head attrs fields methods :
  no_empty_record attrs = true -> no_param_annotations methods = true ->
  build_class true p mi ma head attrs fields methods = build_class false p mi ma head attrs fields methods.
Proof.
  intros HR HP. unfold build_class, no_empty_record, no_param_annotations in *.
  destruct (head_parts head) as [[[[a this] sup] itfs]|]; [|reflexivity].
  destruct (list_of attrs) as [al|]; [|reflexivity].
  destruct (list_of fields) as [fl|]; [|reflexivity].
  destruct (list_of methods) as [ml|]; [|reflexivity].
  apply negb_true_iff in HR.
  rewrite (fold_attr_agree p [] 0 al st_empty) by (try discriminate; exact HR).
  destruct (super_name sup); cbn [bind]; [|reflexivity].
  destruct (map_res class_name itfs); cbn [bind]; [|reflexivity].
  destruct (fold_attrs (apply_attr false p [] 0) st_empty al) as [st|]; cbn [bind]; [|reflexivity].
  destruct (map_res bsm_entry (slot_list a_BootstrapMethods (st_slots st))) as [b|]; cbn [bind]; [|reflexivity].
  rewrite (map_res_ext_in (build_member true p b 1) (build_member false p b 1))
    by (intros x _; apply build_member_agree; [discriminate|intros E; discriminate E]).
  rewrite (map_res_ext_in (build_member true p b 2) (build_member false p b 2)).
  - reflexivity.
  - intros x Hx. apply build_member_agree; [discriminate|]. intros _.
    rewrite forallb_forall in HP. specialize (HP x Hx).
    destruct (member_parts x) as [[[[xa xn] xd] xl]|]; [|exact I].
    apply negb_true_iff in HP. exact HP.
Qed.

Theorem describe_agree dec c : known_free dec c = true -> describe true dec c = describe false dec c.
Proof.
  unfold known_free, describe. intros HK.
  destruct (negb (header_ok magic (rc_minor c) (rc_major c))); [reflexivity|].
  destruct (decode_pool dec (rc_pool c)) as [p|]; cbn [bind]; [|reflexivity].
  repeat (apply andb_true_iff in HK; destruct HK as [HK ?]).
  rewrite (desc_agree dec (acc p) head_fmt (rc_head c)) by assumption.
  rewrite (desc_agree dec (acc p) class_attrs_fmt (rc_attrs c)) by assumption.
  rewrite (desc_agree dec (acc p) fields_fmt (rc_fields c)) by assumption.
  rewrite (desc_agree dec (acc p) methods_fmt (rc_methods c)) by assumption.
  destruct (desc_fmt false dec (acc p) head_fmt (rc_head c)); cbn [bind]; [|reflexivity].
  destruct (desc_fmt false dec (acc p) class_attrs_fmt (rc_attrs c)) as [attrs|]; cbn [bind]; [|reflexivity].
  destruct (desc_fmt false dec (acc p) fields_fmt (rc_fields c)); cbn [bind]; [|reflexivity].
  destruct (desc_fmt false dec (acc p) methods_fmt (rc_methods c)) as [methods|]; cbn [bind]; [|reflexivity].
  apply build_class_agree; assumption.
Qed.

(* what duke reads from the bytes of a class-file structure is what the structure says *)
Theorem read_class_spec dec c : class_fits true dec c = true -> known_free dec c = true ->
  read_class true dec (encode_class c) = describe false dec c.
Proof. intros HF HK. rewrite (read_class_encode true dec c HF). apply describe_agree. exact HK. Qed.
