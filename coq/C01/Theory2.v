(* C01 — theory, part 2: whole bodies.  For EVERY body and EVERY choice function, pass 1 over the
   encoded body visits exactly the instruction boundaries and creates exactly the labels of the
   branch targets (scan_encode); pass 2 decodes the body back (decode_encode).  Invariant of both
   inductions: the cursor is the prefix sum of the instruction sizes. *)
From FB Require Import C01.Model C01.Theory1.
Arguments N.add : simpl never.
Arguments N.mul : simpl never.
Arguments N.sub : simpl never.
Arguments N.modulo : simpl never.
Arguments N.div : simpl never.

Fixpoint starts_from (ch : nat -> choice) (k : nat) (pos : N) (body : list (ainsn nat)) : list N :=
  match body with
  | [] => []
  | i :: rest => pos :: starts_from ch (S k) (pos + size (ch k) pos i) rest
  end.
Fixpoint end_from (ch : nat -> choice) (k : nat) (pos : N) (body : list (ainsn nat)) : N :=
  match body with
  | [] => pos
  | i :: rest => end_from ch (S k) (pos + size (ch k) pos i) rest
  end.

Lemma layout_from_starts ch : forall body k pos,
  layout_from ch k pos body = starts_from ch k pos body ++ [end_from ch k pos body].
Proof. induction body as [|i rest IH]; intros k pos; [reflexivity|]. cbn [layout_from starts_from end_from app]. rewrite IH. reflexivity. Qed.

Lemma starts_from_length ch : forall body k pos, length (starts_from ch k pos body) = length body.
Proof. induction body as [|i rest IH]; intros k pos; [reflexivity|]. cbn [starts_from length]. rewrite IH. reflexivity. Qed.

Lemma encode_from_length ch posf : forall body k pos bs,
  encode_from ch posf k pos body = Some bs -> pos + N.of_nat (length bs) = end_from ch k pos body.
Proof.
  induction body as [|i rest IH]; intros k pos bs H.
  - cbn [encode_from] in H. apply Some_inj in H. subst bs. cbn [length end_from]. lia.
  - cbn [encode_from] in H.
    destruct (enc1 posf pos (ch k) i) as [b|] eqn:E1; [|discriminate].
    destruct (encode_from ch posf (S k) (pos + size (ch k) pos i) rest) as [bs'|] eqn:E2; [|discriminate].
    apply Some_inj in H. subst bs. cbn [end_from]. rewrite <- (IH _ _ _ E2).
    rewrite app_length, Nnat.Nat2N.inj_add, (enc1_length _ _ _ _ _ E1). lia.
Qed.

Lemma scan_step f clen pos s ls : s <> [] ->
  scan (S f) clen pos s ls = (do (pos', s', ls') <- scan1 clen pos s ls; scan f clen pos' s' ls').
Proof. destruct s; [congruence|reflexivity]. Qed.
Lemma decode_step f ls pos s : s <> [] ->
  decode (S f) ls pos s = (do (i, pos', s') <- dec1 ls pos s; do rest <- decode f ls pos' s'; Ok ((pos, i) :: rest)).
Proof. destruct s; [congruence|reflexivity]. Qed.
Lemma scan_nil fuel clen pos ls : scan fuel clen pos [] ls = Ok ls.
Proof. destruct fuel; reflexivity. Qed.
Lemma decode_nil fuel ls pos : decode fuel ls pos [] = Ok [].
Proof. destruct fuel; reflexivity. Qed.

Lemma enc1_nonempty posf pos c i b tail : enc1 posf pos c i = Some b -> b ++ tail <> [].
Proof.
  intros H. pose proof (enc1_length _ _ _ _ _ H) as L. pose proof (size_pos c pos i).
  destruct b; [cbn in L; lia|discriminate].
Qed.

(* PASS 1 over an encoded body *)
Lemma scan_encode_from ch posf clen : clen <= 65536 -> forall body k pos bs ls fuel,
  encode_from ch posf k pos body = Some bs ->
  (forall i t, In i body -> In t (targets i) -> posf t < clen) ->
  (length bs < fuel)%nat ->
  scan fuel clen pos bs ls = Ok (fold_left lbl_add (map posf (flat_map targets body)) ls).
Proof.
  intros HC. induction body as [|i rest IH]; intros k pos bs ls fuel H HT HF.
  - cbn [encode_from] in H. apply Some_inj in H. subst bs. apply scan_nil.
  - cbn [encode_from] in H.
    destruct (enc1 posf pos (ch k) i) as [b|] eqn:E1; [|discriminate].
    destruct (encode_from ch posf (S k) (pos + size (ch k) pos i) rest) as [bs'|] eqn:E2; [|discriminate].
    apply Some_inj in H. subst bs.
    destruct fuel as [|f]; [lia|].
    rewrite scan_step by (apply (enc1_nonempty _ _ _ _ _ _ E1)).
    rewrite (scan1_enc1 posf clen pos (ch k) i b bs' ls E1); [|intros t Ht; apply (HT i t); [left; reflexivity|exact Ht]|exact HC].
    cbn [bind flat_map]. rewrite map_app, fold_left_app.
    apply (IH (S k)); [exact E2|intros i' t Hi Ht; apply (HT i' t); [right; exact Hi|exact Ht]|].
    pose proof (enc1_length _ _ _ _ _ E1) as L. pose proof (size_pos (ch k) pos i).
    rewrite app_length in HF. lia.
Qed.

(* PASS 2 over an encoded body *)
Lemma decode_encode_from ch posf ls : forall body k pos bs fuel,
  encode_from ch posf k pos body = Some bs ->
  (forall i t, In i body -> In t (targets i) -> posf t < 65536 /\ lbl_get ls (posf t) = true) ->
  (length bs < fuel)%nat ->
  decode fuel ls pos bs = Ok (combine (starts_from ch k pos body) (map (map_insn posf) body)).
Proof.
  induction body as [|i rest IH]; intros k pos bs fuel H HT HF.
  - cbn [encode_from] in H. apply Some_inj in H. subst bs. apply decode_nil.
  - cbn [encode_from] in H.
    destruct (enc1 posf pos (ch k) i) as [b|] eqn:E1; [|discriminate].
    destruct (encode_from ch posf (S k) (pos + size (ch k) pos i) rest) as [bs'|] eqn:E2; [|discriminate].
    apply Some_inj in H. subst bs.
    destruct fuel as [|f]; [lia|].
    rewrite decode_step by (apply (enc1_nonempty _ _ _ _ _ _ E1)).
    rewrite (dec1_enc1 posf ls pos (ch k) i b bs' E1); [|intros t Ht; apply (HT i t); [left; reflexivity|exact Ht]].
    cbn [bind].
    rewrite (IH (S k) _ bs' f E2); [reflexivity|intros i' t Hi Ht; apply (HT i' t); [right; exact Hi|exact Ht]|].
    pose proof (enc1_length _ _ _ _ _ E1) as L. pose proof (size_pos (ch k) pos i).
    rewrite app_length in HF. lia.
Qed.

(* ---------------------------------------------------------------------------------------------- *)
(* the layout is strictly increasing, so an offset designates at most one instruction *)
Lemma starts_from_ge ch : forall body k pos x, In x (starts_from ch k pos body) -> pos <= x.
Proof.
  induction body as [|i rest IH]; intros k pos x H; [destruct H|].
  cbn [starts_from] in H. destruct H as [<-|H]; [lia|].
  apply IH in H. pose proof (size_pos (ch k) pos i). lia.
Qed.
Lemma end_from_ge ch : forall body k pos, pos <= end_from ch k pos body.
Proof.
  induction body as [|i rest IH]; intros k pos; cbn [end_from]; [lia|].
  specialize (IH (S k) (pos + size (ch k) pos i)). pose proof (size_pos (ch k) pos i). lia.
Qed.

Lemma layout_from_nth_lt ch : forall body k pos a b,
  (a < b)%nat -> (b <= length body)%nat ->
  nth a (layout_from ch k pos body) 0 < nth b (layout_from ch k pos body) 0.
Proof.
  induction body as [|i rest IH]; intros k pos a b Hab Hb; [cbn in Hb; lia|].
  cbn [layout_from]. destruct b as [|b]; [lia|]. cbn [length] in Hb.
  destruct a as [|a].
  - cbn [nth].
    assert (G : pos + size (ch k) pos i <= nth b (layout_from ch (S k) (pos + size (ch k) pos i) rest) 0).
    { rewrite layout_from_starts.
      destruct (Nat.ltb_spec b (length rest)) as [Hl|Hl].
      - rewrite app_nth1 by (rewrite starts_from_length; exact Hl).
        apply (starts_from_ge ch rest (S k)). apply nth_In. rewrite starts_from_length. exact Hl.
      - assert (b = length rest) by lia. subst b.
        rewrite app_nth2 by (rewrite starts_from_length; lia).
        rewrite starts_from_length, Nat.sub_diag. cbn [nth]. apply end_from_ge. }
    pose proof (size_pos (ch k) pos i). lia.
  - cbn [nth]. apply IH; lia.
Qed.

Lemma index_of_app_fresh pc : forall offs k, index_of pc offs k = None \/ exists j, index_of pc offs k = Some j.
Proof. intros. destruct (index_of pc offs k); [right; eauto|left; reflexivity]. Qed.

Lemma index_of_nth (l : list N) : forall k t,
  (t < length l)%nat ->
  (forall a b, (a < b)%nat -> (b < length l)%nat -> nth a l 0 < nth b l 0) ->
  index_of (nth t l 0) l k = Some (k + t)%nat.
Proof.
  induction l as [|x l IH]; intros k t Ht Hinc; [cbn in Ht; lia|].
  cbn [index_of]. destruct t as [|t].
  - cbn [nth]. rewrite N.eqb_refl. f_equal. lia.
  - cbn [nth]. destruct (N.eqb_spec x (nth t l 0)) as [E|E].
    + exfalso. specialize (Hinc 0%nat (S t)). cbn [nth length] in Hinc. cbn [length] in Ht.
      specialize (Hinc ltac:(lia) ltac:(lia)). lia.
    + rewrite IH.
      * f_equal. lia.
      * cbn [length] in Ht. lia.
      * intros a b Hab Hb. specialize (Hinc (S a) (S b)). cbn [nth length] in Hinc. apply Hinc; lia.
Qed.
