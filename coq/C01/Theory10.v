(* C01 — theory, part 10: annotations.  duke reads element values with a recursion that refuses
   annotations and arrays nested more than MAX_ELEMENT_VALUE_NESTING = 64 deep (fix cd3a624).
   Every element value / annotation within that depth is read from its encoding to its description;
   one level more is refused. *)
From FB Require Import C01.Bytes C01.Fmt C01.Formats C01.ClassFile C01.Annot C01.Theory6 C01.Theory7.
Arguments N.add : simpl never.
Arguments N.mul : simpl never.

(* induction over element values (nested through the lists of pairs and of array members) *)
Fixpoint evalue_ind' (P : evalue -> Prop)
  (HC : forall t i, P (EvConst t i)) (HE : forall t c, P (EvEnum t c)) (HK : forall c, P (EvClass c))
  (HA : forall ty ps, Forall (fun p => P (snd p)) ps -> P (EvAnnot ty ps))
  (HR : forall vs, Forall P vs -> P (EvArray vs))
  (e : evalue) {struct e} : P e :=
  match e with
  | EvConst t i => HC t i
  | EvEnum t c => HE t c
  | EvClass c => HK c
  | EvAnnot ty ps =>
    HA ty ps ((fix go (ps : list (N * evalue)) : Forall (fun p => P (snd p)) ps :=
                 match ps with
                 | [] => Forall_nil _
                 | p :: ps' => Forall_cons p (evalue_ind' P HC HE HK HA HR (snd p)) (go ps')
                 end) ps)
  | EvArray vs =>
    HR vs ((fix go (vs : list evalue) : Forall P vs :=
              match vs with [] => Forall_nil _ | v :: vs' => Forall_cons v (evalue_ind' P HC HE HK HA HR v) (go vs') end) vs)
  end.

Lemma ev_const_tag_lt t a : assoc_N t ev_consts = Some a -> t < 256.
Proof.
  unfold ev_consts. cbn [assoc_N].
  repeat match goal with |- (if ?k =? t then _ else _) = _ -> _ => destruct (N.eqb_spec k t); [subst; lia|] end.
  discriminate.
Qed.

Lemma max_list_le (l : list nat) k x : In x l -> (max_list l <= k)%nat -> (x <= k)%nat.
Proof.
  induction l as [|y l IH]; intros Hin H; [destruct Hin|]. cbn [max_list] in H.
  destruct Hin as [->|Hin]; [lia|]. apply IH; [exact Hin|lia].
Qed.

(* one-step unfoldings (the nested occurrences stay folded) *)
Lemma fits_tag impl rs ok sel t r : fits impl rs (FTag ok sel) (RTag t r) = (t <? 256) && ok impl t && fits impl rs (sel t) r.
Proof. reflexivity. Qed.
Lemma desc_tag impl dec rs ok sel t r : desc_fmt impl dec rs (FTag ok sel) (RTag t r)
  = if ok impl t then do v <- desc_fmt impl dec rs (sel t) r; Ok (VTag t v) else Err.
Proof. reflexivity. Qed.
Lemma fits_vec16 impl rs f rl : fits impl rs (FVec16 f) (RVec16 rl) = (N.of_nat (length rl) <? 65536) && forallb (fits impl rs f) rl.
Proof. reflexivity. Qed.
Lemma desc_vec16 impl dec rs f rl : desc_fmt impl dec rs (FVec16 f) (RVec16 rl) = (do vs <- map_res (desc_fmt impl dec rs f) rl; Ok (VList vs)).
Proof. reflexivity. Qed.
Lemma fits_seq2 impl rs f g a b : fits impl rs (FSeq [f; g]) (RSeq [a; b]) = fits impl rs f a && (fits impl rs g b && true).
Proof. reflexivity. Qed.
Lemma desc_seq2 impl dec rs f g a b : desc_fmt impl dec rs (FSeq [f; g]) (RSeq [a; b])
  = (do vs <- (do x <- desc_fmt impl dec rs f a; do ys <- (do y <- desc_fmt impl dec rs g b; do zs <- Ok []; Ok (y :: zs)); Ok (x :: ys)); Ok (VSeq vs)).
Proof. reflexivity. Qed.
Lemma fits_idx impl rs a i : fits impl rs (FIdx a) (Rw16 i) = (i <? 65536).
Proof. reflexivity. Qed.
Lemma desc_idx impl dec rs a i : desc_fmt impl dec rs (FIdx a) (Rw16 i) = (do c <- rs a i; Ok (VC c)).
Proof. reflexivity. Qed.

Lemma describe_ev_annot rs ty ps : describe_ev rs (EvAnnot ty ps)
  = (do x <- rs 8 ty; do vs <- describe_pairs rs ps; Ok (VTag ev_annot_tag (VSeq [VC x; VList vs]))).
Proof.
  cbn [describe_ev]. destruct (rs 8 ty); cbn [bind]; [|reflexivity].
  match goal with |- bind ?X _ = bind ?Y _ => assert (E : X = Y); [|rewrite E; reflexivity] end.
  unfold describe_pairs. induction ps as [|p ps IH]; [reflexivity|]. cbn [map_res]. rewrite IH.
  destruct (rs 8 (fst p)); cbn [bind]; [|reflexivity]. destruct (describe_ev rs (snd p)); reflexivity.
Qed.
Lemma describe_ev_array rs vs : describe_ev rs (EvArray vs)
  = (do l <- map_res (describe_ev rs) vs; Ok (VTag ev_array_tag (VList l))).
Proof.
  cbn [describe_ev].
  match goal with |- bind ?X _ = bind ?Y _ => assert (E : X = Y); [|rewrite E; reflexivity] end.
  induction vs as [|v vs IH]; [reflexivity|]. cbn [map_res]. rewrite IH. reflexivity.
Qed.

(* the typed structure fits the format of its depth, and the format-driven description is the
   structural one *)
Lemma ev_fits_desc impl dec rs : forall e k, ev_ok e = true -> (ev_depth e <= k)%nat ->
  fits impl rs (ev_fmt k) (raw_of_ev e) = true /\
  desc_fmt impl dec rs (ev_fmt k) (raw_of_ev e) = describe_ev rs e.
Proof.
  induction e using evalue_ind'; intros k HO HD.
  - (* constants *)
    cbn [ev_ok] in HO. destruct (assoc_N t ev_consts) as [a|] eqn:E; [|discriminate]. apply N.ltb_lt in HO.
    pose proof (ev_const_tag_lt t a E) as Ht. apply N.ltb_lt in Ht.
    destruct k; cbn [ev_fmt raw_of_ev fits desc_fmt describe_ev]; unfold ev_tag_ok, ev_sel; rewrite E, Ht;
      cbn [andb fits desc_fmt]; (split; [apply N.ltb_lt; exact HO|destruct (rs a i); reflexivity]).
  - (* enum *)
    cbn [ev_ok] in HO. apply andb_true_iff in HO. destruct HO as [A B].
    destruct k; cbn [ev_fmt raw_of_ev fits desc_fmt describe_ev];
      change (ev_tag_ok _ impl ev_enum_tag) with true; change (ev_sel _ ev_enum_tag) with (FSeq [FIdx 8; FIdx 8]);
      cbn [andb fits desc_fmt map test_all desc_all]; rewrite A, B; cbn [andb];
      (split; [reflexivity|destruct (rs 8 t); cbn [bind]; [|reflexivity]; destruct (rs 8 c); reflexivity]).
  - (* class *)
    cbn [ev_ok] in HO.
    destruct k; cbn [ev_fmt raw_of_ev fits desc_fmt describe_ev];
      change (ev_tag_ok _ impl ev_class_tag) with true; change (ev_sel _ ev_class_tag) with (FIdx 8);
      cbn [andb fits desc_fmt]; (split; [exact HO|destruct (rs 8 c); reflexivity]).
  - (* annotation *)
    cbn [ev_ok] in HO. apply andb_true_iff in HO. destruct HO as [HO HP]. apply andb_true_iff in HO. destruct HO as [A L].
    cbn [ev_depth] in HD. destruct k as [|k]; [lia|].
    rewrite describe_ev_annot. cbn [ev_fmt raw_of_ev]. rewrite fits_tag, desc_tag.
    change (ev_sel (Some (ev_fmt k)) ev_annot_tag) with (FSeq [FIdx 8; FVec16 (FSeq [FIdx 8; ev_fmt k])]).
    change (ev_tag_ok true impl ev_annot_tag) with true. change (ev_annot_tag <? 256) with true.
    rewrite fits_seq2, desc_seq2, fits_vec16, desc_vec16, fits_idx, desc_idx, A, map_length, L. cbn [andb].
    assert (K : forallb (fits impl rs (FSeq [FIdx 8; ev_fmt k])) (map (fun p => RSeq [Rw16 (fst p); raw_of_ev (snd p)]) ps) = true /\
                map_res (desc_fmt impl dec rs (FSeq [FIdx 8; ev_fmt k])) (map (fun p => RSeq [Rw16 (fst p); raw_of_ev (snd p)]) ps)
                = describe_pairs rs ps).
    { clear A L ty. unfold describe_pairs. induction H as [|p ps Hp Hps IH]; [split; reflexivity|].
      cbn [forallb] in HP. apply andb_true_iff in HP. destruct HP as [P1 P2]. apply andb_true_iff in P1. destruct P1 as [P1 P1'].
      cbn [map max_list] in HD.
      destruct (Hp k P1') as [F D]; [lia|].
      destruct IH as [IF ID]; [exact P2|cbn [map max_list] in *; lia|].
      cbn [map forallb map_res]. rewrite fits_seq2, desc_seq2, fits_idx, desc_idx, P1, F, IF, D, ID. cbn [andb]. split; [reflexivity|].
      destruct (rs 8 (fst p)); cbn [bind]; [|reflexivity].
      destruct (describe_ev rs (snd p)); cbn [bind]; [|reflexivity].
      match goal with |- bind ?X _ = bind ?X _ => destruct X end; reflexivity. }
    destruct K as [KF KD]. rewrite KF, KD. split; [reflexivity|].
    destruct (rs 8 ty); cbn [bind]; [|reflexivity].
    destruct (describe_pairs rs ps); reflexivity.
  - (* array *)
    cbn [ev_ok] in HO. apply andb_true_iff in HO. destruct HO as [L HP].
    cbn [ev_depth] in HD. destruct k as [|k]; [lia|].
    rewrite describe_ev_array. cbn [ev_fmt raw_of_ev]. rewrite fits_tag, desc_tag.
    change (ev_tag_ok true impl ev_array_tag) with true. change (ev_array_tag <? 256) with true.
    change (ev_sel (Some (ev_fmt k)) ev_array_tag) with (FVec16 (ev_fmt k)).
    rewrite fits_vec16, desc_vec16, map_length, L. cbn [andb].
    assert (K : forallb (fits impl rs (ev_fmt k)) (map raw_of_ev vs) = true /\
                map_res (desc_fmt impl dec rs (ev_fmt k)) (map raw_of_ev vs)
                = map_res (describe_ev rs) vs).
    { clear L. induction H as [|v vs Hv Hvs IH]; [split; reflexivity|].
      cbn [forallb] in HP. apply andb_true_iff in HP. destruct HP as [P1 P2]. cbn [map max_list] in HD.
      destruct (Hv k P1) as [F D]; [lia|].
      destruct IH as [IF ID]; [exact P2|cbn [map max_list] in *; lia|].
      cbn [map forallb map_res]. rewrite F, IF, D, ID. split; reflexivity. }
    destruct K as [KF KD]. rewrite KF, KD. split; [reflexivity|].
    destruct (map_res (describe_ev rs) vs); reflexivity.
Qed.

(* element values *)
Theorem ev_roundtrip impl dec rs e rest : ev_ok e = true -> (ev_depth e <= 64)%nat ->
  rd_fmt impl dec rs (ev_fmt max_ev_nesting) (enc_raw (raw_of_ev e) ++ rest) = (do v <- describe_ev rs e; Ok (v, rest)).
Proof.
  intros HO HD. destruct (ev_fits_desc impl dec rs e max_ev_nesting HO HD) as [F D].
  rewrite (fmt_roundtrip impl dec rs (ev_fmt max_ev_nesting) (raw_of_ev e) rest F), D. reflexivity.
Qed.

Lemma pairs_fits_desc impl dec rs : forall ps,
  forallb (fun p => (fst p <? 65536) && ev_ok (snd p)) ps = true ->
  (max_list (map (fun p => ev_depth (snd p)) ps) <= 64)%nat ->
  forallb (fits impl rs (FSeq [FIdx 8; ev_fmt max_ev_nesting])) (map (fun p => RSeq [Rw16 (fst p); raw_of_ev (snd p)]) ps) = true /\
  map_res (desc_fmt impl dec rs (FSeq [FIdx 8; ev_fmt max_ev_nesting])) (map (fun p => RSeq [Rw16 (fst p); raw_of_ev (snd p)]) ps)
  = describe_pairs rs ps.
Proof.
  induction ps as [|p ps IH]; intros HP HD; [split; reflexivity|].
  cbn [forallb] in HP. apply andb_true_iff in HP. destruct HP as [P1 P2]. apply andb_true_iff in P1. destruct P1 as [P1 P1'].
  cbn [map max_list] in HD.
  destruct (ev_fits_desc impl dec rs (snd p) max_ev_nesting P1') as [F D]; [unfold max_ev_nesting; lia|].
  destruct IH as [IF ID]; [exact P2|lia|].
  unfold describe_pairs in *. cbn [map forallb map_res]. rewrite fits_seq2, desc_seq2, fits_idx, desc_idx.
  rewrite P1, F, IF, D, ID. cbn [andb]. split; [reflexivity|].
  destruct (rs 8 (fst p)); cbn [bind]; [|reflexivity].
  destruct (describe_ev rs (snd p)); cbn [bind]; [|reflexivity].
  match goal with |- bind ?X _ = bind ?X _ => destruct X end; reflexivity.
Qed.

(* annotations (the entries of Runtime(In)VisibleAnnotations at class, field, method and record
   component level; AnnotationDefault is an element value) *)
Theorem annotation_roundtrip impl dec rs a rest : annotation_ok a = true -> (annotation_depth a <= 64)%nat ->
  rd_fmt impl dec rs annotation_fmt (enc_raw (raw_of_annotation a) ++ rest) = (do v <- describe_annotation rs a; Ok (v, rest)).
Proof.
  unfold annotation_ok, annotation_depth. intros HO HD.
  apply andb_true_iff in HO. destruct HO as [HO HP]. apply andb_true_iff in HO. destruct HO as [A L].
  destruct (pairs_fits_desc impl dec rs (snd a) HP HD) as [F D].
  assert (FA : fits impl rs annotation_fmt (raw_of_annotation a) = true).
  { unfold annotation_fmt, pairs_fmt, raw_of_annotation. rewrite fits_seq2, fits_idx, fits_vec16, A, map_length, L, F. reflexivity. }
  rewrite (fmt_roundtrip impl dec rs annotation_fmt (raw_of_annotation a) rest FA).
  unfold annotation_fmt, pairs_fmt, raw_of_annotation, describe_annotation. rewrite desc_seq2, desc_idx, desc_vec16, D.
  destruct (rs 8 (fst a)); cbn [bind]; [|reflexivity].
  destruct (describe_pairs rs (snd a)); reflexivity.
Qed.

(* the limit is the reader's: 64 levels are read, 65 are refused (whatever the pool says) *)
Theorem ev_nesting_limit impl dec rs :
  (exists v, rd_fmt impl dec (fun _ _ => Ok (VInt 0)) (ev_fmt max_ev_nesting) (enc_raw (raw_of_ev (nested_array 64 1))) = Ok (v, [])) /\
  rd_fmt impl dec rs (ev_fmt max_ev_nesting) (enc_raw (raw_of_ev (nested_array 65 1))) = Err.
Proof.
  split.
  - rewrite <- (app_nil_r (enc_raw _)). rewrite ev_roundtrip; [|reflexivity|vm_compute; lia].
    destruct (describe_ev (fun _ _ => Ok (VInt 0)) (nested_array 64 1)) as [v|] eqn:E; [exists v; reflexivity|].
    vm_compute in E. discriminate E.
  - vm_compute. reflexivity.
Qed.
