(* C01 — theory, part 12 (round 4):
   - the generated tag tables against hand-transcribed JVMS tables (verification_type_info,
     element_value, target_info per context, MethodHandle reference kinds) and the model's
     [handle_of] against the generated MethodHandle table;
   - the first-frame offset rule of StackMapTable, spelled out;
   - several LineNumberTable / LocalVariable(Type)Table attributes of one Code attribute are delivered
     concatenated in file order, nothing dropped;
   - every byte of an encoded class file is a byte. *)
From FB Require Import Base.Sort C01.Model C01.Pool C01.Resolve C01.Attr C01.Fmt C01.Formats C01.ClassFile C01.Theory14.
Arguments N.add : simpl never.
Arguments N.mul : simpl never.
Arguments N.sub : simpl never.

(* ---------------------------------------------------------------------------------------------- *)
(* JVMS tables, transcribed by hand (names are those of duke's enum variants, which follow the ITEM_ /
   REF_ names of the specification) *)
Definition s_ (l : list N) : str := l.
(* JVMS 4.7.4: ITEM_Top 0, ITEM_Integer 1, ITEM_Float 2, ITEM_Double 3, ITEM_Long 4, ITEM_Null 5,
   ITEM_UninitializedThis 6, ITEM_Object 7, ITEM_Uninitialized 8 *)
Definition jvms_vti : list (N * str) :=
  [(0, [84; 111; 112]);                                              (* Top *)
   (1, [73; 110; 116; 101; 103; 101; 114]);                          (* Integer *)
   (2, [70; 108; 111; 97; 116]);                                     (* Float *)
   (3, [68; 111; 117; 98; 108; 101]);                                (* Double *)
   (4, [76; 111; 110; 103]);                                         (* Long *)
   (5, [78; 117; 108; 108]);                                         (* Null *)
   (6, [85; 110; 105; 110; 105; 116; 105; 97; 108; 105; 122; 101; 100; 84; 104; 105; 115]);   (* UninitializedThis *)
   (7, [79; 98; 106; 101; 99; 116]);                                 (* Object *)
   (8, [85; 110; 105; 110; 105; 116; 105; 97; 108; 105; 122; 101; 100])].                    (* Uninitialized *)
(* JVMS 4.7.16.1, table 4.7.16.1-A: tag -> the kind of constant const_value_index must denote, and what
   duke narrows it to (accessors 13 int, 14 byte, 15 char, 16 short, 17 boolean, 18 long, 19 float,
   20 double, 8 Utf8); e enum_const_value, c class_info_index, @ annotation_value, [ array_value *)
Definition jvms_ev_consts : list (N * N) :=
  [(66, 14) (* B *); (67, 15) (* C *); (68, 20) (* D *); (70, 19) (* F *); (73, 13) (* I *); (74, 18) (* J *);
   (83, 16) (* S *); (90, 17) (* Z *); (115, 8) (* s *)].
(* JVMS 4.7.20, tables 4.7.20-A/B/C: target_type -> target_info layout, per location
   (fields: 0 u1, 1 u2, 2 u2 offset, 3 localvar table) *)
Definition jvms_target_class : list (N * list N) := [(0, [0]); (16, [1]); (17, [0; 0])].
Definition jvms_target_field : list (N * list N) := [(19, [])].
Definition jvms_target_method : list (N * list N) := [(1, [0]); (18, [0; 0]); (20, []); (21, []); (22, [0]); (23, [1])].
Definition jvms_target_code : list (N * list N) :=
  [(64, [3]); (65, [3]); (66, [1]); (67, [2]); (68, [2]); (69, [2]); (70, [2]);
   (71, [2; 0]); (72, [2; 0]); (73, [2; 0]); (74, [2; 0]); (75, [2; 0])].
(* JVMS 4.4.8 / table 5.4.3.5-A: reference_kind -> what reference_index must denote
   (1 Fieldref, 2 Methodref, 3 Methodref or InterfaceMethodref, 4 InterfaceMethodref) *)
Definition jvms_handles : list (N * str * N) :=
  [(1, [71; 101; 116; 70; 105; 101; 108; 100], 1);                                   (* REF_getField *)
   (2, [71; 101; 116; 83; 116; 97; 116; 105; 99], 1);                                (* REF_getStatic *)
   (3, [80; 117; 116; 70; 105; 101; 108; 100], 1);                                   (* REF_putField *)
   (4, [80; 117; 116; 83; 116; 97; 116; 105; 99], 1);                                (* REF_putStatic *)
   (5, [73; 110; 118; 111; 107; 101; 86; 105; 114; 116; 117; 97; 108], 2);           (* REF_invokeVirtual *)
   (6, [73; 110; 118; 111; 107; 101; 83; 116; 97; 116; 105; 99], 3);                 (* REF_invokeStatic *)
   (7, [73; 110; 118; 111; 107; 101; 83; 112; 101; 99; 105; 97; 108], 3);            (* REF_invokeSpecial *)
   (8, [78; 101; 119; 73; 110; 118; 111; 107; 101; 83; 112; 101; 99; 105; 97; 108], 2);   (* REF_newInvokeSpecial *)
   (9, [73; 110; 118; 111; 107; 101; 73; 110; 116; 101; 114; 102; 97; 99; 101], 4)].      (* REF_invokeInterface *)

(* the generated tables, put in the order of their tags (the order of the arms in the source is free) *)
Definition by_tag {A} (l : list (N * A)) : list (N * A) := isort (fun a b => fst a <=? fst b) l.
Definition by_tag3 {A B} (l : list (N * A * B)) : list (N * A * B) := isort (fun a b => fst (fst a) <=? fst (fst b)) l.

Definition tag_tables_match : Prop :=
  by_tag vti_ctor_tbl = jvms_vti /\
  by_tag ev_consts = jvms_ev_consts /\
  (ev_enum_tag = 101 /\ ev_class_tag = 99 /\ ev_annot_tag = 64 /\ ev_array_tag = 91) /\
  by_tag target_class_tbl = jvms_target_class /\ by_tag target_field_tbl = jvms_target_field /\
  by_tag target_method_tbl = jvms_target_method /\ by_tag target_code_tbl = jvms_target_code /\
  by_tag3 handle_tbl = jvms_handles /\
  (* the tags the format accepts are those of the table *)
  (vti_plain ++ [vti_object_tag; vti_uninit_tag] = map fst jvms_vti).
Theorem tag_tables_match_jvms : tag_tables_match.
Proof. unfold tag_tables_match. repeat split; vm_compute; reflexivity. Qed.

(* the model's [handle_of] (Pool.v, written by hand) uses, for every reference_kind, the accessor of
   the generated table; a kind without a row is refused *)
Fixpoint handle_acc (k : N) (tbl : list (N * str * N)) : option N :=
  match tbl with [] => None | (k', _, a) :: r => if k' =? k then Some a else handle_acc k r end.
Theorem handle_of_table p k r :
  handle_of p k r =
  match handle_acc k handle_tbl with
  | Some a => do x <- resolve_kind p [] a r; Ok (VHandle k x)
  | None => Err
  end.
Proof.
  unfold handle_of.
  destruct (N.eq_dec k 1) as [->|N1]; [reflexivity|]. destruct (N.eq_dec k 2) as [->|N2]; [reflexivity|].
  destruct (N.eq_dec k 3) as [->|N3]; [reflexivity|]. destruct (N.eq_dec k 4) as [->|N4]; [reflexivity|].
  destruct (N.eq_dec k 5) as [->|N5]; [reflexivity|]. destruct (N.eq_dec k 6) as [->|N6]; [reflexivity|].
  destruct (N.eq_dec k 7) as [->|N7]; [reflexivity|]. destruct (N.eq_dec k 8) as [->|N8]; [reflexivity|].
  destruct (N.eq_dec k 9) as [->|N9]; [reflexivity|].
  assert (E : forall c, c <> k -> (c =? k) = false) by (intros c Hc; apply N.eqb_neq; exact Hc).
  assert (E' : forall c, k <> c -> (k =? c) = false) by (intros c Hc; apply N.eqb_neq; exact Hc).
  cbn [handle_acc handle_tbl].
  rewrite !E by congruence. rewrite !E' by congruence. cbn [orb].
  destruct (N.leb_spec 1 k) as [H1|H1]; destruct (N.leb_spec k 4) as [H4|H4]; cbn [andb]; try reflexivity. lia.
Qed.

(* ---------------------------------------------------------------------------------------------- *)
(* StackMapTable, JVMS 4.7.4: the first frame applies at offset_delta, every later frame at
   (offset of the previous frame) + offset_delta + 1 *)
Lemma frame_offsets_length : forall ds first acc os, frame_offsets first acc ds = Ok os -> length os = length ds.
Proof.
  induction ds as [|d ds IH]; intros first acc os H; cbn [frame_offsets] in H.
  - injection H as <-. reflexivity.
  - destruct (_ <? 65536); [|discriminate].
    destruct (frame_offsets false _ ds) as [r|] eqn:E; [|discriminate]. cbn [bind] in H. injection H as <-.
    cbn [length]. f_equal. exact (IH _ _ _ E).
Qed.
Lemma frame_offsets_step : forall ds first acc os, frame_offsets first acc ds = Ok os ->
  forall i o d, nth_error os i = Some o -> nth_error ds (S i) = Some d -> nth_error os (S i) = Some (o + d + 1).
Proof.
  induction ds as [|d0 ds IH]; intros first acc os H i o d Ho Hd; [destruct i; discriminate|].
  cbn [frame_offsets] in H. destruct (_ <? 65536); [|discriminate].
  destruct (frame_offsets false _ ds) as [r|] eqn:E; [|discriminate]. cbn [bind] in H. injection H as <-.
  destruct i as [|i].
  - cbn [nth_error] in Ho, Hd |- *. injection Ho as <-.
    destruct ds as [|d1 ds]; [discriminate|]. cbn [nth_error] in Hd. injection Hd as ->.
    cbn [frame_offsets] in E. destruct (_ <? 65536); [|discriminate].
    destruct (frame_offsets false _ ds) as [r'|]; [|discriminate]. cbn [bind] in E. injection E as <-. reflexivity.
  - cbn [nth_error] in Ho, Hd |- *. exact (IH _ _ _ E i o d Ho Hd).
Qed.
Theorem frame_offsets_jvms ds os : frame_offsets true 0 ds = Ok os ->
  length os = length ds /\
  (forall d, nth_error ds 0 = Some d -> nth_error os 0 = Some d) /\
  (forall i o d, nth_error os i = Some o -> nth_error ds (S i) = Some d -> nth_error os (S i) = Some (o + d + 1)).
Proof.
  intros H. split; [exact (frame_offsets_length _ _ _ _ H)|]. split; [|exact (frame_offsets_step _ _ _ _ H)].
  intros d Hd. destruct ds as [|d0 ds]; [discriminate|]. cbn [nth_error] in Hd. injection Hd as ->.
  cbn [frame_offsets] in H. destruct (_ <? 65536); [|discriminate].
  destruct (frame_offsets false _ ds) as [r|]; [|discriminate]. cbn [bind] in H. injection H as <-.
  cbn [nth_error]. f_equal. lia.
Qed.

(* ---------------------------------------------------------------------------------------------- *)
(* debug tables: all LineNumberTable attributes of a Code attribute, in file order; likewise the
   entries of all LocalVariableTable (tag 0) and LocalVariableTypeTable (tag 1) attributes *)
Definition attr_entries (name : str) (a : val) : list val :=
  match a with VAttr n (VList l) => if str_eqb n name then l else [] | _ => [] end.
Definition lv_entries (a : val) : list val :=
  match a with
  | VAttr n (VList l) =>
    if str_eqb n a_LocalVariableTable then map (VTag 0) l
    else if str_eqb n a_LocalVariableTypeTable then map (VTag 1) l else []
  | _ => []
  end.

Lemma slot_get_put_same n v l : slot_get n (slot_put n v l) = Some v.
Proof.
  induction l as [|[k w] l IH]; cbn [slot_put slot_get]; [rewrite str_eqb_refl; reflexivity|].
  destruct (str_eqb k n) eqn:E; cbn [slot_get]; rewrite E; [reflexivity|exact IH].
Qed.
Lemma slot_get_put_other n m v l : str_eqb m n = false -> slot_get n (slot_put m v l) = slot_get n l.
Proof.
  intros Hne. induction l as [|[k w] l IH]; cbn [slot_put slot_get].
  - rewrite Hne. reflexivity.
  - destruct (str_eqb k m) eqn:E; cbn [slot_get].
    + apply str_eqb_eq in E. subst k. rewrite Hne. reflexivity.
    + destruct (str_eqb k n); [reflexivity|exact IH].
Qed.
Lemma slot_list_put_same n v l : slot_list n (slot_put n (VList v) l) = v.
Proof. unfold slot_list. rewrite slot_get_put_same. reflexivity. Qed.
Lemma slot_list_put_other n m v l : str_eqb m n = false -> slot_list n (slot_put m v l) = slot_list n l.
Proof. intros H. unfold slot_list. rewrite slot_get_put_other by exact H. reflexivity. Qed.

(* one step of the Code attribute loop *)
Definition code_names_distinct : Prop :=
  str_eqb a_LocalVariableTable a_LineNumberTable = false /\ str_eqb a_LineNumberTable a_LocalVariableTable = false.
Lemma code_step impl st n v st' :
  apply_simple impl 3 st n v = Ok st' ->
  slot_list a_LineNumberTable (st_slots st') = slot_list a_LineNumberTable (st_slots st) ++ attr_entries a_LineNumberTable (VAttr n v) /\
  slot_list a_LocalVariableTable (st_slots st') = slot_list a_LocalVariableTable (st_slots st) ++ lv_entries (VAttr n v).
Proof.
  unfold apply_simple. intros H.
  destruct (str_eqb n a_LineNumberTable) eqn:ELN.
  { apply str_eqb_eq in ELN. subst n.
    replace (policy_of impl 3 a_LineNumberTable) with PExtend in H by (destruct impl; vm_compute; reflexivity).
    destruct v; try discriminate. injection H as <-. cbn [st_slots st_put attr_entries lv_entries].
    rewrite str_eqb_refl. rewrite slot_list_put_same.
    replace (str_eqb a_LineNumberTable a_LocalVariableTable) with false by (vm_compute; reflexivity).
    replace (str_eqb a_LineNumberTable a_LocalVariableTypeTable) with false by (vm_compute; reflexivity).
    rewrite slot_list_put_other by (vm_compute; reflexivity). rewrite app_nil_r. split; reflexivity. }
  destruct (str_eqb n a_LocalVariableTable) eqn:ELV.
  { apply str_eqb_eq in ELV. subst n.
    replace (policy_of impl 3 a_LocalVariableTable) with (PLocals 0) in H by (destruct impl; vm_compute; reflexivity).
    destruct v; try discriminate. injection H as <-. cbn [st_slots st_put attr_entries lv_entries].
    rewrite ELN, str_eqb_refl, app_nil_r. rewrite slot_list_put_same.
    rewrite slot_list_put_other by (vm_compute; reflexivity). split; reflexivity. }
  destruct (str_eqb n a_LocalVariableTypeTable) eqn:ELT.
  { apply str_eqb_eq in ELT. subst n.
    replace (policy_of impl 3 a_LocalVariableTypeTable) with (PLocals 1) in H by (destruct impl; vm_compute; reflexivity).
    destruct v; try discriminate. injection H as <-. cbn [st_slots st_put attr_entries lv_entries].
    rewrite ELN, ELV, str_eqb_refl, app_nil_r. rewrite slot_list_put_same.
    rewrite slot_list_put_other by (vm_compute; reflexivity). split; reflexivity. }
  (* any other attribute leaves both slots alone *)
  assert (EA : attr_entries a_LineNumberTable (VAttr n v) = [] /\ lv_entries (VAttr n v) = []).
  { cbn [attr_entries lv_entries]. rewrite ELN, ELV, ELT. destruct v; split; reflexivity. }
  destruct EA as [-> ->]. rewrite !app_nil_r.
  assert (PUT : forall w, slot_list a_LineNumberTable (slot_put n w (st_slots st)) = slot_list a_LineNumberTable (st_slots st) /\
                          slot_list a_LocalVariableTable (slot_put n w (st_slots st)) = slot_list a_LocalVariableTable (st_slots st)).
  { intros w. split; apply slot_list_put_other; assumption. }
  destruct (policy_of impl 3 n) eqn:P.
  - destruct v; try discriminate. injection H as <-. cbn [st_slots]. split; reflexivity.
  - injection H as <-. cbn [st_slots st_put]. apply PUT.
  - destruct (slot_get n (st_slots st)); [discriminate|]. injection H as <-. cbn [st_slots st_put]. apply PUT.
  - injection H as <-. cbn [st_slots st_put]. apply PUT.
  - destruct v; try discriminate. injection H as <-. cbn [st_slots st_put]. apply PUT.
  - (* PLocals: only the two names above have it *)
    exfalso. unfold policy_of in P. rewrite ELV, ELT in P.
    destruct (negb (mem_str n (ctx_names 3))); [discriminate|].
    destruct (str_eqb n a_Deprecated || str_eqb n a_Synthetic); [discriminate|].
    destruct (str_eqb n a_Code); [discriminate|]. destruct (str_eqb n a_Record); [discriminate|].
    destruct (str_eqb n a_StackMapTable || str_eqb n a_StackMap); [discriminate|].
    destruct (mem_str n _); [discriminate|].
    destruct (str_eqb n a_AnnotationDefault); [discriminate|].
    destruct (mem_str n _); [destruct impl; discriminate|discriminate].
  - injection H as <-. split; reflexivity.
  - discriminate.
  - discriminate.
  - destruct (slot_get a_StackMapTable (st_slots st)); [discriminate|].
    destruct (slot_get a_StackMap (st_slots st)); [discriminate|]. injection H as <-. cbn [st_slots st_put]. apply PUT.
Qed.

Lemma code_fold impl : forall attrs st st',
  fold_attrs (apply_simple impl 3) st attrs = Ok st' ->
  slot_list a_LineNumberTable (st_slots st') = slot_list a_LineNumberTable (st_slots st) ++ flat_map (attr_entries a_LineNumberTable) attrs /\
  slot_list a_LocalVariableTable (st_slots st') = slot_list a_LocalVariableTable (st_slots st) ++ flat_map lv_entries attrs.
Proof.
  unfold fold_attrs. induction attrs as [|a attrs IH]; intros st st' H; cbn [fold_res flat_map] in *.
  - injection H as <-. rewrite !app_nil_r. split; reflexivity.
  - destruct a; try discriminate.
    destruct (apply_simple impl 3 st name a) as [st1|] eqn:E; [|discriminate]. cbn [bind] in H.
    destruct (code_step impl st name a st1 E) as [A B]. destruct (IH st1 st' H) as [C D].
    rewrite C, D, A, B, <- !app_assoc. split; reflexivity.
Qed.

(* the Code attribute as the tree holds it: every entry of every LineNumberTable attribute, in the
   order of the file, each offset replaced by (the index of) its instruction; the same for the
   local variable tables *)
Theorem debug_tables_in_file_order impl p b v ms ml code exc attrs cd :
  code_parts v = Some (ms, ml, code, exc, attrs) -> build_code impl p b v = Ok cd ->
  exists ix,
    k_lines cd = map (map_pcs ix) (flat_map (attr_entries a_LineNumberTable) attrs) /\
    k_lvs cd = map (map_pcs ix) (flat_map lv_entries attrs).
Proof.
  intros HP H. unfold build_code in H. rewrite HP in H.
  destruct (fold_attrs (apply_simple impl 3) st_empty attrs) as [st|] eqn:ES; [|discriminate]. cbn [bind] in H.
  destruct (code_in_of_state code exc st) as [ci|]; [|discriminate]. cbn [bind] in H.
  destruct (read_code_raw ci) as [cr|]; [|discriminate]. cbn [bind] in H.
  destruct (map_res _ _) as [xi|]; [|discriminate]. cbn [bind] in H. injection H as <-.
  exists (ixf cr). cbn [k_lines k_lvs code_desc_of].
  destruct (code_fold impl attrs st_empty st ES) as [A B]. cbn [st_empty st_slots slot_list slot_get app] in A, B.
  rewrite A, B. split; reflexivity.
Qed.

(* ---------------------------------------------------------------------------------------------- *)
(* every byte of the encoding of a class is a byte, provided its byte payloads (Utf8 entries, code
   arrays, unknown attributes, skipped payloads) are bytes *)
Fixpoint raw_bytes_ok (r : raw) : Prop :=
  match r with
  | Rw8 _ | Rw16 _ => True
  | RBytes b | RBytes32 b => is_bytes b
  | RSeq l | RVec8 l | RVec16 l => (fix all (l : list raw) : Prop := match l with [] => True | x :: l' => raw_bytes_ok x /\ all l' end) l
  | RTag _ r' | RAttr _ r' => raw_bytes_ok r'
  end.
Definition entry_bytes_ok (e : entry) : Prop := match e with EUtf8 b => is_bytes b | _ => True end.
Definition class_bytes_ok (c : rclass) : Prop :=
  Forall entry_bytes_ok (rc_pool c) /\ raw_bytes_ok (rc_head c) /\ raw_bytes_ok (rc_fields c)
  /\ raw_bytes_ok (rc_methods c) /\ raw_bytes_ok (rc_attrs c).

Lemma is_bytes_app a b : is_bytes a -> is_bytes b -> is_bytes (a ++ b).
Proof. intros A B. apply Forall_app. split; assumption. Qed.
Lemma is_bytes_w8 n : is_bytes (w8 n).
Proof. unfold w8. constructor; [apply N.mod_lt; discriminate|constructor]. Qed.
Lemma is_bytes_w16 n : is_bytes (w16 n).
Proof.
  unfold w16, be16. destruct (be16_bytes (n mod 65536)) as [A B]; [apply N.mod_lt; discriminate|].
  constructor; [exact A|constructor; [exact B|constructor]].
Qed.
Lemma is_bytes_w32 n : is_bytes (w32 n).
Proof.
  unfold w32, be32. destruct (be32_bytes (n mod 4294967296)) as (A & B & C & D); [apply N.mod_lt; discriminate|].
  repeat (constructor; [assumption|]). constructor.
Qed.
Lemma is_bytes_magic : is_bytes (be32 magic).
Proof. unfold is_bytes. repeat (constructor; [vm_compute; reflexivity|]). constructor. Qed.
Lemma is_bytes_w64 n : is_bytes (w64 n). Proof. unfold w64. apply is_bytes_app; apply is_bytes_w32. Qed.

Lemma is_bytes_flat_map {A} (f : A -> bytes) (l : list A) : (forall x, In x l -> is_bytes (f x)) -> is_bytes (flat_map f l).
Proof.
  induction l as [|x l IH]; intros H; cbn [flat_map]; [constructor|].
  apply is_bytes_app; [apply H; left; reflexivity|apply IH; intros y Hy; apply H; right; exact Hy].
Qed.

Lemma is_bytes_enc_raw : forall r, raw_bytes_ok r -> is_bytes (enc_raw r).
Proof.
  fix IH 1. intros r H. destruct r as [n|n|b|b|l|l|l|t r'|nm r']; cbn [enc_raw].
  - apply is_bytes_w8.
  - apply is_bytes_w16.
  - exact H.
  - apply is_bytes_app; [apply is_bytes_w32|exact H].
  - cbn [raw_bytes_ok] in H. induction l as [|x l IHl]; cbn [flat_map]; [constructor|].
    destruct H as [Hx Hl]. apply is_bytes_app; [apply IH; exact Hx|apply IHl; exact Hl].
  - apply is_bytes_app; [apply is_bytes_w8|].
    cbn [raw_bytes_ok] in H. induction l as [|x l IHl]; cbn [flat_map]; [constructor|].
    destruct H as [Hx Hl]. apply is_bytes_app; [apply IH; exact Hx|apply IHl; exact Hl].
  - apply is_bytes_app; [apply is_bytes_w16|].
    cbn [raw_bytes_ok] in H. induction l as [|x l IHl]; cbn [flat_map]; [constructor|].
    destruct H as [Hx Hl]. apply is_bytes_app; [apply IH; exact Hx|apply IHl; exact Hl].
  - apply is_bytes_app; [apply is_bytes_w8|apply IH; exact H].
  - apply is_bytes_app; [apply is_bytes_w16|]. apply is_bytes_app; [apply is_bytes_w32|apply IH; exact H].
Qed.

Lemma is_bytes_enc_entry e : entry_bytes_ok e -> is_bytes (enc_entry e).
Proof.
  intros H. destruct e; cbn [enc_entry];
    try (constructor; [lia|]); repeat (first [apply is_bytes_app | apply is_bytes_w16 | apply is_bytes_w32 | apply is_bytes_w64 | apply is_bytes_w8]).
  exact H.
Qed.

Theorem encode_class_bytes c : class_bytes_ok c -> is_bytes (encode_class c).
Proof.
  intros (HP & HH & HF & HM & HA). unfold encode_class.
  assert (P : is_bytes (enc_pool (rc_pool c))).
  { unfold enc_pool. apply is_bytes_app; [apply is_bytes_w16|].
    apply is_bytes_flat_map. intros e He. apply is_bytes_enc_entry. rewrite Forall_forall in HP. apply HP. exact He. }
  apply is_bytes_app; [apply is_bytes_magic|]. apply is_bytes_app; [apply is_bytes_w16|].
  apply is_bytes_app; [apply is_bytes_w16|]. apply is_bytes_app; [exact P|].
  apply is_bytes_app; [apply is_bytes_enc_raw; exact HH|]. apply is_bytes_app; [apply is_bytes_enc_raw; exact HF|].
  apply is_bytes_app; apply is_bytes_enc_raw; assumption.
Qed.
