(* C01 — non-vacuity of the round-4 theorems. *)
From FB Require Import Base.Sort C01.Model C01.Pool C01.Resolve C01.Fmt C01.Formats C01.ClassFile C01.Mutf8
  C01.Theory3 C01.Theory4 C01.Theory12 C01.Theory13 C01.Theory14 C01.Examples C01.Witness.
Open Scope N_scope.

(* a Code attribute with two LineNumberTable attributes around a LocalVariableTable *)
Definition ex_two_tables : val :=
  VSeq [VN 1; VN 1; VB [3; 177]; VList [];
        VList [VAttr a_LineNumberTable (VList [VSeq [VPc 0 1; VN 5]]);
               VAttr a_LocalVariableTable (VList [VSeq [VRange 0 2; VC (VUtf8 [120]); VC (VUtf8 [73]); VN 0]]);
               VAttr a_LineNumberTable (VList [VSeq [VPc 0 0; VN 6]; VSeq [VPc 0 1; VN 7]])]].

Definition nonvacuous4 : Prop :=
  (* the CLDC StackMap of the example body lists its two frames in descending order *)
  Permutation [3; 2]%nat (t_frames ex_tables) /\
  read_code (code_in_cldc (posf_of (layout ex_ch ex_body)) ex_tables [3; 2]%nat ex_bytes) = Ok (expected ex_body ex_tables) /\
  (* the example class consists of bytes *)
  class_bytes_ok ex_class /\
  (* two line number tables: three entries, in file order *)
  (exists cd, build_code true [] [] ex_two_tables = Ok cd /\
     k_lines cd = [VSeq [VAt (Some 1%nat); VN 5]; VSeq [VAt (Some 0%nat); VN 6]; VSeq [VAt (Some 1%nat); VN 7]]) /\
  nonvacuous13 /\
  (* the example code array is accepted, consists of bytes, and all its targets are instruction starts *)
  (exists cr, read_code_raw (code_in_of (posf_of (layout ex_ch ex_body)) ex_tables ex_bytes) = Ok cr /\
     Forall (fun x => x < 256) ex_bytes /\
     forall p i t, In (p, i) (cr_insns cr) -> In t (targets i) -> In t (map fst (cr_insns cr))).

Definition targets_at_starts (insns : list (N * ainsn N)) : bool :=
  forallb (fun e => forallb (fun t => mem_N t (map fst insns)) (targets (snd e))) insns.
Lemma targets_at_starts_spec insns : targets_at_starts insns = true ->
  forall p i t, In (p, i) insns -> In t (targets i) -> In t (map fst insns).
Proof.
  unfold targets_at_starts. rewrite forallb_forall. intros H p i t Hi Ht. specialize (H (p, i) Hi). cbn [snd] in H.
  rewrite forallb_forall in H. apply mem_N_In. apply H. exact Ht.
Qed.
Lemma nonvacuous4_holds : nonvacuous4.
Proof.
  unfold nonvacuous4. split; [apply perm_swap|]. split; [vm_compute; reflexivity|]. split.
  - assert (B : forall b, forallb (fun x => x <? 256) b = true -> is_bytes b).
    { intros b Hb. apply Forall_forall. intros x Hx. rewrite forallb_forall in Hb. apply N.ltb_lt. apply Hb. exact Hx. }
    unfold class_bytes_ok. split.
    { apply Forall_forall. intros e He.
      assert (E : forallb (fun e => match e with EUtf8 b => forallb (fun x => x <? 256) b | _ => true end) (rc_pool ex_class) = true)
        by (vm_compute; reflexivity).
      rewrite forallb_forall in E. specialize (E e He). destruct e; try exact I. apply B. exact E. }
    cbn. repeat match goal with
           | |- _ /\ _ => split
           | |- True => exact I
           | |- is_bytes _ => apply B; vm_compute; reflexivity
           end.
  - split; [|split; [exact nonvacuous13_holds|]].
    + destruct (build_code true [] [] ex_two_tables) as [cd|] eqn:E; [|vm_compute in E; discriminate E].
      exists cd. split; [reflexivity|]. vm_compute in E. injection E as <-. reflexivity.
    + destruct (read_code_raw (code_in_of (posf_of (layout ex_ch ex_body)) ex_tables ex_bytes)) as [cr|] eqn:E; [|vm_compute in E; discriminate E].
      exists cr. split; [reflexivity|]. split.
      * apply Forall_forall. intros x Hx.
        assert (A : forallb (fun x => x <? 256) ex_bytes = true) by (vm_compute; reflexivity).
        rewrite forallb_forall in A. apply N.ltb_lt. apply A. exact Hx.
      * apply targets_at_starts_spec. vm_compute in E. injection E as <-. vm_compute. reflexivity.
Qed.
