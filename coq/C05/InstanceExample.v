(* C05 — non-vacuity of the instantiated history theorem: a concrete three-version history
   (root 1.0, child 1.1, grandchild 1.2~server-0.2) with a nested and a doubly nested class, a
   rename, additions, removals and comment edits satisfies every hypothesis ([hist_ok] = true), and
   the conclusion is additionally checked by evaluating the instantiated model: the directory is
   computed, resolved, and every version is answered by the extension of its mapping set — equal
   up to the order of the maps, and NOT literally equal for the grandchild (the order differs), so
   equivalence is the right notion.
   The mapping sets below are generated text (strings as code points); in words:
     1.0: class A "pkg/Outer" (comment, field f:I "count", method m(I)V "run" with comment and
          parameter 0 "arg"), nested class A$B "Inner", class C "pkg/Gone" with a commented field
     1.1: A renamed to "pkg/Outer2", field h:Z added (with comment), method comment edited,
          class C removed, class D "pkg/Added" added
     1.2~server-0.2: A$B renamed to "Inner2" and given a method, A$B$C "Deep" added, parameter
          removed, field f removed, class comment of A edited, classes listed in another order *)
From FB Require Import C05.Model C05.Theory6.
From FB Require Import C04.Model C04.Text C04.Hyps C04.Theory2.
From FB Require Import C05.Bridge C05.Instance C05.InstanceDir.

Definition ex_v0 : mappings :=
  mkMappings [[105; 110; 116]; ns_named] None
  [ mkClass [(Some [65]); (Some [112; 107; 103; 47; 79; 117; 116; 101; 114])] (Some [111; 117; 116; 101; 114; 32; 100; 111; 99])
      [mkField [73] [(Some [102]); (Some [99; 111; 117; 110; 116])] None]
      [mkMeth [40; 73; 41; 86] [(Some [109]); (Some [114; 117; 110])] (Some [109; 32; 100; 111; 99]) [mkParam 0 [None; (Some [97; 114; 103])] None]];
    mkClass [(Some [65; 36; 66]); (Some [73; 110; 110; 101; 114])] None
      []
      [];
    mkClass [(Some [67]); (Some [112; 107; 103; 47; 71; 111; 110; 101])] None
      [mkField [74] [(Some [103]); (Some [111; 108; 100])] (Some [103; 111; 110; 101; 32; 119; 105; 116; 104; 32; 105; 116; 115; 32; 99; 108; 97; 115; 115])]
      [] ].

Definition ex_v1 : mappings :=
  mkMappings [[105; 110; 116]; ns_named] None
  [ mkClass [(Some [65]); (Some [112; 107; 103; 47; 79; 117; 116; 101; 114; 50])] (Some [111; 117; 116; 101; 114; 32; 100; 111; 99])
      [mkField [73] [(Some [102]); (Some [99; 111; 117; 110; 116])] None;
       mkField [90] [(Some [104]); (Some [102; 108; 97; 103])] (Some [97; 100; 100; 101; 100; 32; 102; 105; 101; 108; 100])]
      [mkMeth [40; 73; 41; 86] [(Some [109]); (Some [114; 117; 110])] (Some [109; 32; 100; 111; 99; 44; 32; 101; 100; 105; 116; 101; 100]) [mkParam 0 [None; (Some [97; 114; 103])] None]];
    mkClass [(Some [65; 36; 66]); (Some [73; 110; 110; 101; 114])] None
      []
      [];
    mkClass [(Some [68]); (Some [112; 107; 103; 47; 65; 100; 100; 101; 100])] (Some [97; 32; 110; 101; 119; 32; 99; 108; 97; 115; 115])
      []
      [] ].

Definition ex_v2 : mappings :=
  mkMappings [[105; 110; 116]; ns_named] None
  [ mkClass [(Some [68]); (Some [112; 107; 103; 47; 65; 100; 100; 101; 100])] (Some [97; 32; 110; 101; 119; 32; 99; 108; 97; 115; 115])
      []
      [];
    mkClass [(Some [65]); (Some [112; 107; 103; 47; 79; 117; 116; 101; 114; 50])] (Some [111; 117; 116; 101; 114; 32; 100; 111; 99; 32; 118; 50])
      [mkField [90] [(Some [104]); (Some [102; 108; 97; 103])] (Some [97; 100; 100; 101; 100; 32; 102; 105; 101; 108; 100])]
      [mkMeth [40; 73; 41; 86] [(Some [109]); (Some [114; 117; 110])] (Some [109; 32; 100; 111; 99; 44; 32; 101; 100; 105; 116; 101; 100]) []];
    mkClass [(Some [65; 36; 66]); (Some [73; 110; 110; 101; 114; 50])] None
      []
      [mkMeth [40; 41; 86] [(Some [110]); (Some [116; 105; 99; 107])] None []];
    mkClass [(Some [65; 36; 66; 36; 67]); (Some [68; 101; 101; 112])] None
      []
      [] ].

Definition s_v0 : str := [49; 46; 48].   (* 1.0 *)
Definition s_v1 : str := [49; 46; 49].   (* 1.1 *)
Definition s_v2 : str := [49; 46; 50; 126; 115; 101; 114; 118; 101; 114; 45; 48; 46; 50].   (* 1.2~server-0.2 *)
Definition s_k2a : str := [49; 46; 50].   (* 1.2 *)
Definition s_k2b : str := [115; 101; 114; 118; 101; 114; 45; 48; 46; 50].   (* server-0.2 *)
Definition s_outer_inner2 : str := [112; 107; 103; 47; 79; 117; 116; 101; 114; 50; 36; 73; 110; 110; 101; 114; 50].   (* pkg/Outer2$Inner2 *)
Definition s_deep : str := [112; 107; 103; 47; 79; 117; 116; 101; 114; 50; 36; 73; 110; 110; 101; 114; 50; 36; 68; 101; 101; 112].   (* pkg/Outer2$Inner2$Deep *)

Definition ex_hist : history :=
  mkHist [(s_v0, ex_v0); (s_v1, ex_v1); (s_v2, ex_v2)] [(s_v0, s_v1); (s_v1, s_v2)].

(* what the instantiated model answers for a lookup name *)
Definition answer (h : history) (k : str) : res (list (res mappings)) :=
  match dir_of h with
  | Ok d => match resolve (load_root vg_ops) d with Ok g => Ok (candidates_by_name vg_ops g k) | Err => Err end
  | Err => Err
  end.
(* exactly one candidate, equal up to order (equal canonical forms) to extend (H v) *)
Definition answers_ok (h : history) (k v : str) : bool :=
  match answer h k, X11.extend (hget h v) ns_named with
  | Ok [Ok r], Ok e => equivb r e
  | _, _ => false
  end.
Definition class_named (M : mappings) (key name : str) : bool :=
  existsb (fun c => opt_eqb str_eqb (nth 0 (c_names c) None) (Some key) && opt_eqb str_eqb (nth 1 (c_names c) None) (Some name)) (ms_classes M).

Definition instantiated_nonvacuous : Prop :=
  hist_ok ex_hist = true
  /\ ewalk (h_edges ex_hist) s_v0 [s_v1; s_v2]
  /\ answers_ok ex_hist s_v0 s_v0 = true /\ answers_ok ex_hist s_v1 s_v1 = true
  /\ answers_ok ex_hist s_k2a s_v2 = true /\ answers_ok ex_hist s_k2b s_v2 = true
  (* the answer carries the extended names of the nested classes ... *)
  /\ (exists r, answer ex_hist s_k2b = Ok [Ok r]
        /\ class_named r [65; 36; 66] s_outer_inner2 = true /\ class_named r [65; 36; 66; 36; 67] s_deep = true
        (* ... and is equal to extend (H v) only up to order *)
        /\ exists e, X11.extend ex_v2 ns_named = Ok e /\ mappings_eqb r e = false /\ equivb r e = true)
  (* the three files really are a root file and two diffs *)
  /\ (exists d, dir_of ex_hist = Ok d /\ map (fun f => classify (fst f)) d = [FRoot s_v0; FEdge s_v0 s_v1; FEdge s_v1 s_v2]).

Lemma instantiated_nonvacuous_holds : instantiated_nonvacuous.
Proof.
  unfold instantiated_nonvacuous. repeat split; try (vm_compute; reflexivity).
  - left. reflexivity.
  - right. left. reflexivity.
  - eexists. split; [vm_compute; reflexivity|]. split; [vm_compute; reflexivity|]. split; [vm_compute; reflexivity|].
    eexists. split; [vm_compute; reflexivity|]. split; vm_compute; reflexivity.
  - eexists. split; vm_compute; reflexivity.
Qed.

(* the theorem applied to the example *)
Lemma example_sound :
  exists vr d g, hd_error (map fst (h_versions ex_hist)) = Some vr /\ dir_of ex_hist = Ok d /\ resolve (load_root vg_ops) d = Ok g /\
    forall L, ewalk (h_edges ex_hist) vr L -> let v := last L vr in forall k, In k (keys v) ->
    exists sp i, get g k = Ok (sp, i) /\ nth_error (g_nodes g) i = Some v
      /\ candidates_by_name vg_ops g k <> []
      /\ forall r, In r (candidates_by_name vg_ops g k) -> res_rel mequiv r (X11.extend (hget ex_hist v) ns_named).
Proof. apply history_dir_sound. vm_compute. reflexivity. Qed.
