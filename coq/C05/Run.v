(* C05 correspondence cases: one case per (directory, listing order).  The contents of the
   files are opaque tokens; the operations the version graph composes are given as finite
   tables that the harness filled by calling quill's own reader / contract / apply / extend
   on the real file contents (ids = equal canonical mapping sets).  The model then has to
   reproduce everything observable of VersionGraph: node order, names, depths, root,
   adjacency in petgraph order, every lookup, get_all of several name lists, get_diff of every
   node pair (which edge file is read), and for every queried name the answer of
   apply_diffs must be one of the model's candidates (shortest paths).
   CInst cases: selected directories once more with their REAL contents, through the instantiated
   model of C05/Instance.v (no tables). *)
From FB Require Export C05.Model Base.Run Quill.Mappings.
From FB Require C05.Instance.

Definition ntbl := list (N * N).
Fixpoint nlookup (k : N) (t : ntbl) : res N :=
  match t with
  | [] => Err
  | (k', x) :: t' => if N.eqb k k' then Ok x else nlookup k t'
  end.
Fixpoint nlookup2 (k1 k2 : N) (t : list (N * N * N)) : res N :=
  match t with
  | [] => Err
  | (a, b, x) :: t' => if N.eqb k1 a && N.eqb k2 b then Ok x else nlookup2 k1 k2 t'
  end.

Record tables := mkTables {
  t_tiny : ntbl;                  (* content token -> id of the parsed mapping set *)
  t_contract : ntbl;
  t_diff : list N;                (* content tokens that parse as a tiny diff *)
  t_apply : list (N * N * N);     (* (diff token, mapping id) -> mapping id *)
  t_extend : ntbl }.

Definition tops (t : tables) : ops N N N :=
  mkOps (fun c => nlookup c (t_tiny t))
        (fun m => nlookup m (t_contract t))
        (fun c => if mem_N c (t_diff t) then Ok c else Err)
        (fun d m => nlookup2 d m (t_apply t))
        (fun m => nlookup m (t_extend t)).

(* strings (file names, version names, queried names) are written once per case in a string
   table and referred to by index *)
Record view := mkView {
  v_nodes : list (N * N);                 (* versions(): name and depth by node index *)
  v_root : N;                             (* the node is_root_then_get_mappings accepts *)
  v_rootmap : N;                          (* id of root_mapping *)
  v_children : list (list N);             (* children(v), per node, in iteration order *)
  v_parents : list (list N);              (* parents(v) *)
  v_gets : list (N * option (N * N));     (* get(name): Split (0 None, 1 First, 2 Second), node *)
  v_applies : list (N * res N);           (* get(name) then apply_diffs: id of the answer *)
  v_getalls : list (list N * res (list (N * N)));   (* get_all(names): the (Split, node) answers in order *)
  v_diffids : ntbl;                       (* content token -> id of the diff it parses to *)
  v_getdiffs : list (N * N * res (option N)) }.     (* get_diff(parent node, node): id of the diff read *)

Inductive case :=
| CDir (strs : list str) (d : list (N * N)) (wf : bool) (t : tables) (r : res view)
  (* wf: what the harness' reference reader says about the hypothesis [well_formed] of the theorems *)
| CInst (d : list (str * str)) (r : res (list (str * res mappings))).
  (* the INSTANTIATED model (C05/Instance.v: vg_ops = C03 read, C11 contract/extend, C04 read/apply) on the
     real file contents (code points), against VersionGraph::resolve (Err) and, for every lookup name that
     get() knows, apply_diffs: the answer must be one of the model's candidates up to the order of the maps *)

Definition sget (strs : list str) (i : N) : str := nth (N.to_nat i) strs [].

Definition split_code (s : vsplit) : N := match s with SNone => 0 | SFirst => 1 | SSecond => 2 end.
Definition nn (l : list nat) : list N := map N.of_nat l.
Definition lN_eqb := list_eqb N.eqb.

Definition get_eqb (strs : list str) (g : graph N N) (q : N * option (N * N)) : bool :=
  match get g (sget strs (fst q)), snd q with
  | Ok (s, i), Some (s', i') => N.eqb (split_code s) s' && N.eqb (N.of_nat i) i'
  | Err, None => true
  | _, _ => false
  end.
Definition apply_ok (strs : list str) (t : tables) (g : graph N N) (q : N * res N) : bool :=
  existsb (fun c => res_eqb N.eqb c (snd q)) (candidates_by_name (tops t) g (sget strs (fst q))).

Definition getall_eqb (strs : list str) (g : graph N N) (q : list N * res (list (N * N))) : bool :=
  res_eqb (list_eqb (pair_eqb N.eqb N.eqb))
    (match get_all g (map (sget strs) (fst q)) with
     | Ok l => Ok (map (fun x => (split_code (fst x), N.of_nat (snd x))) l)
     | Err => Err
     end) (snd q).
Definition getdiff_eqb (t : tables) (ids : ntbl) (g : graph N N) (q : N * N * res (option N)) : bool :=
  match get_diff (tops t) g (N.to_nat (fst (fst q))) (N.to_nat (snd (fst q))), snd q with
  | Ok None, Ok None => true
  | Ok (Some c), Ok (Some i) => res_eqb N.eqb (nlookup c ids) (Ok i)
  | Err, Err => true
  | _, _ => false
  end.

Definition inst_ok (g : graph str mappings) (q : str * res mappings) : bool :=
  existsb (fun c => res_eqb equivb c (snd q)) (candidates_by_name FB.C05.Instance.vg_ops g (fst q)).

Definition check (c : case) : bool :=
  match c with
  | CInst d r =>
      match resolve_dir (load_root FB.C05.Instance.vg_ops) d, r with
      | Err, Err => true
      | Ok g, Ok qs => forallb (inst_ok g) qs
      | _, _ => false
      end
  | CDir strs d0 wf t r =>
      let d := map (fun f => (sget strs (fst f), snd f)) d0 in
      Bool.eqb (well_formed d && nodup_strb (map fst d)) wf &&
      match resolve_dir (load_root (tops t)) d, r with
      | Err, Err => true
      | Ok g, Ok v =>
          let idx := seq 0 (length (g_nodes g)) in
          list_eqb (pair_eqb str_eqb N.eqb) (combine (g_nodes g) (nn (g_depths g))) (map (fun x => (sget strs (fst x), snd x)) (v_nodes v))
          && Nat.eqb (length (g_depths g)) (length (g_nodes g))
          && N.eqb (N.of_nat (g_root g)) (v_root v)
          && N.eqb (g_root_mapping g) (v_rootmap v)
          && list_eqb lN_eqb (map (fun i => nn (succs (g_edges g) i)) idx) (v_children v)
          && list_eqb lN_eqb (map (fun i => nn (preds (g_edges g) i)) idx) (v_parents v)
          && forallb (get_eqb strs g) (v_gets v)
          && forallb (apply_ok strs t g) (v_applies v)
          && forallb (getall_eqb strs g) (v_getalls v)
          && forallb (getdiff_eqb t (v_diffids v) g) (v_getdiffs v)
      | _, _ => false
      end
  end.
