(* C05 — lookup, malformed directories (cycle, unknown name, unreachable version),
   soundness with respect to a history, uniqueness on trees *)
From FB Require Import C05.Model C05.Theory1 C05.Theory2 C05.Theory3.
From Coq Require Import Lia Permutation.

(* ---------- what resolve = Ok means ---------- *)
Lemma resolve_ok {C M} (lr : C -> res M) (d : list (file C)) g :
  resolve lr d = Ok g ->
  exists st f, scan_dir scan0 d = Ok st /\ sc_root st = Some (g_root g, f) /\ lr (snd f) = Ok (g_root_mapping g)
    /\ g_versions g = sc_tbl st /\ g_nodes g = sc_nodes st /\ g_edges g = sc_edges st
    /\ walk (S (length (sc_nodes st))) (sc_edges st) (g_root g) [([], g_root g)] (repeat O (length (sc_nodes st))) = Ok (g_depths g).
Proof.
  unfold resolve. destruct (scan_dir scan0 d) as [st|]; [|discriminate].
  destruct (sc_root st) as [[r f]|] eqn:R; [|discriminate].
  destruct (lr (snd f)) as [m|] eqn:L; [|discriminate].
  destruct (walk _ _ _ _ _) as [ds|] eqn:W; [|discriminate].
  intros [= <-]. exists st, f. cbn. auto 10.
Qed.

(* resolve = Ok: every walk from the root has at most |nodes| edges *)
Lemma resolve_walks_bounded {C M} (lr : C -> res M) (d : list (file C)) g l :
  resolve lr d = Ok g -> fwalk (g_edges g) (g_root g) l -> (length l <= length (g_nodes g))%nat.
Proof.
  intros H Hw. destruct (resolve_ok lr d g H) as (st & f & _ & _ & _ & _ & En & Ee & W).
  rewrite En, Ee in *. destruct (Nat.le_gt_cases (length l) (length (sc_nodes st))) as [Hle|Hgt]; [exact Hle|].
  exfalso. assert (E : walk (S (length (sc_nodes st))) (sc_edges st) (g_root g) [([], g_root g)] (repeat O (length (sc_nodes st))) = Err).
  { apply walk_err_iff. exists l. split; [exact Hw|lia]. }
  congruence.
Qed.

(* ---------- lookup ---------- *)
Lemma lookup_from_at U ns i v k x :
  WF U -> incl ns U -> NoDup ns -> nth_error ns i = Some v -> key_entry v i k = Some x -> lookup_from 0 ns k = Some x.
Proof.
  intros HW Hi Hnd Hn He. destruct (key_entry_some v i k x He) as [Hk Hx].
  assert (Hv : In v ns) by (eapply nth_error_In; exact Hn).
  destruct (lookup_from 0 ns k) as [[sp j]|] eqn:L.
  - pose proof (lookup_hits_version U ns k sp j v HW Hi (Hi v Hv) Hk L) as Hj.
    assert (j = i) as ->.
    { apply (proj1 (NoDup_nth_error ns) Hnd); [apply nth_error_Some; congruence|congruence]. }
    destruct (lookup_from_some 0 ns k sp i L) as (w & Hw & _ & Hke). rewrite Nat.sub_0_r in Hw.
    assert (w = v) by congruence. subst w. congruence.
  - exfalso. apply (proj1 (lookup_from_none 0 ns k) L v Hv Hk).
Qed.

(* every plain version under its name, every a~b version under a and under b *)
Theorem lookup {C M} (lr : C -> res M) (d : list (file C)) g :
  well_formed d = true -> resolve lr d = Ok g ->
  forall v, In v (dir_versions d) ->
  exists i, nth_error (g_nodes g) i = Some v /\
    match split_once sep_split v with
    | None => get g v = Ok (SNone, i)
    | Some (a, b) => get g a = Ok (SFirst, i) /\ get g b = Ok (SSecond, i)
    end.
Proof.
  intros Hwf Hres v Hv. destruct (resolve_ok lr d g Hres) as (st & f & Hscan & _ & _ & Et & En & _ & _).
  pose proof (scan_wf d st Hwf Hscan) as [[Hi [Hnd Ht]] Hnodes _ _].
  apply Hnodes in Hv. destruct (In_nth_error _ _ Hv) as [i Hn]. exists i. rewrite En. split; [exact Hn|].
  pose proof (wf_versions_WF _ Hwf) as HW. unfold get. rewrite Et.
  assert (G : forall k x, key_entry v i k = Some x -> tbl_get k (sc_tbl st) = Some x).
  { intros k x He. rewrite Ht. apply (lookup_from_at (dir_versions d) _ i v k x HW Hi Hnd Hn He). }
  destruct (split_once sep_split v) as [[a b]|] eqn:E.
  - assert (Hab : a <> b).
    { destruct HW as [W1 _]. specialize (W1 v (Hi v Hv)). unfold keys in W1. rewrite E in W1.
      inversion W1 as [|? ? Hx _]; subst. intros ->. apply Hx. left. reflexivity. }
    split.
    + rewrite (G a (SFirst, i)); [reflexivity|]. unfold key_entry. rewrite E, str_eqb_refl. reflexivity.
    + rewrite (G b (SSecond, i)); [reflexivity|]. unfold key_entry. rewrite E, str_eqb_refl.
      destruct (str_eqb_spec b a); [congruence|reflexivity].
  - rewrite (G v (SNone, i)); [reflexivity|]. unfold key_entry. rewrite E, str_eqb_refl. reflexivity.
Qed.

(* ---------- unknown names (every directory, well-formed or not) ---------- *)
Lemma tbl_get_app_none k t k' x : tbl_get k (t ++ [(k', x)]) <> None -> tbl_get k t <> None \/ k = k'.
Proof.
  rewrite tbl_get_app. destruct (tbl_get k t); [left; discriminate|].
  destruct (str_eqb_spec k k'); [right; assumption|congruence].
Qed.

Lemma add_node_keys t ns v t' ns' i k :
  add_node t ns v = (t', ns', i) -> tbl_get k t' <> None -> tbl_get k t <> None \/ In k (keys v).
Proof.
  unfold add_node, keys. destruct (split_once sep_split v) as [[a b]|].
  - destruct (tbl_get a t) as [[sp j]|].
    + destruct (tbl_get b t) eqn:Gb.
      * intros [= <- <- <-] H. left. exact H.
      * intros [= <- <- <-] H. apply tbl_get_app_none in H. destruct H as [H| ->]; [left; exact H|right; right; left; reflexivity].
    + destruct (tbl_get b (t ++ [(a, (SFirst, length ns))])) eqn:Gb.
      * intros [= <- <- <-] H. apply tbl_get_app_none in H. destruct H as [H| ->]; [left; exact H|right; left; reflexivity].
      * intros [= <- <- <-] H. apply tbl_get_app_none in H. destruct H as [H| ->]; [|right; right; left; reflexivity].
        apply tbl_get_app_none in H. destruct H as [H| ->]; [left; exact H|right; left; reflexivity].
  - destruct (tbl_get v t) as [[sp j]|].
    + intros [= <- <- <-] H. left. exact H.
    + intros [= <- <- <-] H. apply tbl_get_app_none in H. destruct H as [H| ->]; [left; exact H|right; left; reflexivity].
Qed.

Lemma scan_step_keys {C} (st st' : scan C) f k :
  scan_step st f = Ok st' -> tbl_get k (sc_tbl st') <> None ->
  tbl_get k (sc_tbl st) <> None \/ exists v, In v (file_versions (fst f)) /\ In k (keys v).
Proof.
  rewrite scan_step_classify. unfold file_versions. destruct (classify (fst f)) as [vs|p v| |].
  - destruct (add_node (sc_tbl st) (sc_nodes st) vs) as [[t ns] i] eqn:A. destruct (sc_root st); [discriminate|].
    intros [= <-] H. cbn [sc_tbl] in H. destruct (add_node_keys _ _ _ _ _ _ k A H) as [H1|H1]; [left; exact H1|].
    right. exists vs. split; [left; reflexivity|exact H1].
  - destruct (add_node (sc_tbl st) (sc_nodes st) v) as [[t1 ns1] iv] eqn:A1.
    destruct (add_node t1 ns1 p) as [[t2 ns2] ip] eqn:A2. intros [= <-] H. cbn [sc_tbl] in H.
    destruct (add_node_keys _ _ _ _ _ _ k A2 H) as [H1|H1].
    + destruct (add_node_keys _ _ _ _ _ _ k A1 H1) as [H2|H2]; [left; exact H2|].
      right. exists v. split; [left; reflexivity|exact H2].
    + right. exists p. split; [right; left; reflexivity|exact H1].
  - discriminate.
  - intros [= <-] H. left. exact H.
Qed.

Lemma scan_dir_keys {C} (d : list (file C)) (st st' : scan C) k :
  scan_dir st d = Ok st' -> tbl_get k (sc_tbl st') <> None ->
  tbl_get k (sc_tbl st) <> None \/ exists v, In v (dir_versions d) /\ In k (keys v).
Proof.
  revert st. induction d as [|f d IH]; intros st; cbn [scan_dir].
  - intros [= <-] H. left. exact H.
  - destruct (scan_step st f) as [s1|] eqn:E; [|discriminate]. intros Hd H.
    destruct (IH s1 Hd H) as [H1|(v & Hv & Hk)].
    + destruct (scan_step_keys st s1 f k E H1) as [H2|(v & Hv & Hk)]; [left; exact H2|].
      right. exists v. split; [|exact Hk]. unfold dir_versions. cbn [flat_map]. apply in_or_app. left. exact Hv.
    + right. exists v. split; [|exact Hk]. unfold dir_versions. cbn [flat_map]. apply in_or_app. right. exact Hv.
Qed.

Theorem unknown_name_err {C M} (lr : C -> res M) (d : list (file C)) g name :
  resolve lr d = Ok g -> (forall v, In v (dir_versions d) -> ~ In name (keys v)) -> get g name = Err.
Proof.
  intros Hres Hn. destruct (resolve_ok lr d g Hres) as (st & f & Hscan & _ & _ & Et & _).
  unfold get. rewrite Et. destruct (tbl_get name (sc_tbl st)) eqn:G; [|reflexivity]. exfalso.
  destruct (scan_dir_keys d scan0 st name Hscan) as [H|(v & Hv & Hk)]; [congruence|apply H; reflexivity|].
  apply (Hn v Hv Hk).
Qed.

(* ---------- cycles ---------- *)
Theorem long_walk_err {C M} (lr : C -> res M) (d : list (file C)) st r f l :
  scan_dir scan0 d = Ok st -> sc_root st = Some (r, f) ->
  fwalk (sc_edges st) r l -> (S (length (sc_nodes st)) <= length l)%nat -> resolve lr d = Err.
Proof.
  intros Hs Hr Hw Hl. unfold resolve. rewrite Hs, Hr. destruct (lr (snd f)); [|reflexivity].
  rewrite (proj2 (walk_err_iff (sc_edges st) r (length (sc_nodes st)) _)); [reflexivity|].
  exists l. split; assumption.
Qed.

(* a cycle that can be reached from the root, in the graph the scan built (every directory) *)
Theorem reachable_cycle_err {C M} (lr : C -> res M) (d : list (file C)) st r f l c :
  scan_dir scan0 d = Ok st -> sc_root st = Some (r, f) ->
  fwalk (sc_edges st) r l -> c <> [] -> fwalk (sc_edges st) (last l r) c -> last c (last l r) = last l r ->
  resolve lr d = Err.
Proof.
  intros Hs Hr Hl Hc Hw Hlast.
  destruct (fwalk_pump (sc_edges st) (last l r) c (S (length (sc_nodes st))) Hw Hlast) as [P _].
  apply (long_walk_err lr d st r f (l ++ concat (repeat c (S (length (sc_nodes st))))) Hs Hr).
  - apply fwalk_app. split; assumption.
  - rewrite app_length. pose proof (concat_repeat_length c (S (length (sc_nodes st))) Hc). lia.
Qed.

(* ---------- names and indices on well-formed directories ---------- *)
Definition nedge {C} (d : list (file C)) (a b : str) : Prop := exists f, In f d /\ classify (fst f) = FEdge a b.
Fixpoint nwalk {C} (d : list (file C)) (h : str) (l : list str) : Prop :=
  match l with
  | [] => True
  | v :: l' => nedge d h v /\ nwalk d v l'
  end.

Lemma in_dir_edges {C} (d : list (file C)) p v f : In (p, v, f) (dir_edges d) <-> In f d /\ classify (fst f) = FEdge p v.
Proof.
  unfold dir_edges. rewrite in_flat_map. split.
  - intros (g & Hg & Hin). destruct (classify (fst g)) eqn:K; try destruct Hin.
    + injection H as <- <- <-. auto.
    + destruct H.
  - intros [Hf K]. exists f. split; [exact Hf|]. rewrite K. left. reflexivity.
Qed.

Lemma Forall2_in_l {A B} (P : A -> B -> Prop) l l' x : Forall2 P l l' -> In x l -> exists y, In y l' /\ P x y.
Proof.
  intros H. induction H as [|a b l l' Hab _ IH]; intros Hin; [destruct Hin|].
  destruct Hin as [<-|Hin]; [exists b; split; [left; reflexivity|exact Hab]|].
  destruct (IH Hin) as (y & Hy & Hp). exists y. split; [right; exact Hy|exact Hp].
Qed.
Lemma Forall2_in_r {A B} (P : A -> B -> Prop) l l' y : Forall2 P l l' -> In y l' -> exists x, In x l /\ P x y.
Proof.
  intros H. induction H as [|a b l l' Hab _ IH]; intros Hin; [destruct Hin|].
  destruct Hin as [<-|Hin]; [exists a; split; [left; reflexivity|exact Hab]|].
  destruct (IH Hin) as (x & Hx & Hp). exists x. split; [right; exact Hx|exact Hp].
Qed.

Lemma nth_error_inj {A} (l : list A) i j x : NoDup l -> nth_error l i = Some x -> nth_error l j = Some x -> i = j.
Proof.
  intros Hnd Hi Hj. apply (proj1 (NoDup_nth_error l) Hnd); [apply nth_error_Some; congruence|congruence].
Qed.

(* an edge of the graph is an edge file, and conversely *)
Lemma succs_nedge {C} U (d : list (file C)) st a b :
  SInv U d st -> In b (succs (sc_edges st) a) ->
  exists va vb, nth_error (sc_nodes st) a = Some va /\ nth_error (sc_nodes st) b = Some vb /\ nedge d va vb.
Proof.
  intros [_ _ He _] Hb. apply in_succs in Hb. destruct Hb as (e & Hin & <- & <-).
  destruct (Forall2_in_l _ _ _ e He Hin) as ([[p v] f] & Hne & (Hf & Hs & Hd)). cbn [fst snd] in *.
  exists p, v. split; [exact Hs|]. split; [exact Hd|]. apply in_dir_edges in Hne. exists f. exact Hne.
Qed.

Lemma nedge_succs {C} U (d : list (file C)) st a va vb :
  SInv U d st -> nth_error (sc_nodes st) a = Some va -> nedge d va vb ->
  exists b, nth_error (sc_nodes st) b = Some vb /\ In b (succs (sc_edges st) a).
Proof.
  intros [[_ [Hnd _]] _ He _] Ha (f & Hf & K).
  assert (Hne : In (va, vb, f) (dir_edges d)) by (apply in_dir_edges; auto).
  destruct (Forall2_in_r _ _ _ _ He Hne) as (e & Hin & (_ & Hs & Hd)). cbn [fst snd] in *.
  exists (e_dst e). split; [exact Hd|]. apply in_succs. exists e. split; [exact Hin|]. split; [|reflexivity].
  apply (nth_error_inj _ _ _ va Hnd Hs Ha).
Qed.

Definition named (ns : list str) (l : list nat) (L : list str) : Prop := Forall2 (fun i v => nth_error ns i = Some v) l L.

Lemma named_last ns l L a va : named ns l L -> nth_error ns a = Some va -> nth_error ns (last l a) = Some (last L va).
Proof.
  intros H. revert a va. induction H as [|i v l L Hiv _ IH]; intros a va Ha; [exact Ha|].
  assert (E1 : last (i :: l) a = last l i) by (destruct l as [|y l']; [reflexivity|exact (last_cons_default l' y a i)]).
  assert (E2 : last (v :: L) va = last L v) by (destruct L as [|y L']; [reflexivity|exact (last_cons_default L' y va v)]).
  rewrite E1, E2. apply IH. exact Hiv.
Qed.

Lemma fwalk_nwalk {C} U (d : list (file C)) st : SInv U d st -> forall l a va,
  nth_error (sc_nodes st) a = Some va -> fwalk (sc_edges st) a l -> exists L, named (sc_nodes st) l L /\ nwalk d va L.
Proof.
  intros HS. induction l as [|b l IH]; intros a va Ha Hw.
  - exists []. split; [constructor|exact I].
  - destruct Hw as [Hb Hw]. destruct (succs_nedge U d st a b HS Hb) as (va' & vb & Ha' & Hvb & Hne).
    assert (va' = va) by congruence. subst va'.
    destruct (IH b vb Hvb Hw) as (L & HL & HW). exists (vb :: L). split; [constructor; assumption|split; assumption].
Qed.

Lemma nwalk_fwalk {C} U (d : list (file C)) st : SInv U d st -> forall L a va,
  nth_error (sc_nodes st) a = Some va -> nwalk d va L -> exists l, named (sc_nodes st) l L /\ fwalk (sc_edges st) a l.
Proof.
  intros HS. induction L as [|vb L IH]; intros a va Ha Hw.
  - exists []. split; [constructor|exact I].
  - destruct Hw as [Hne Hw]. destruct (nedge_succs U d st a va vb HS Ha Hne) as (b & Hb & Hs).
    destruct (IH b vb Hb Hw) as (l & Hl & Hf). exists (b :: l). split; [constructor; assumption|split; assumption].
Qed.

Lemma named_length ns l L : named ns l L -> length l = length L.
Proof. intros H. induction H; cbn [length]; congruence. Qed.

(* name-level statement of the cycle theorem *)
Lemma nwalk_app {C} (d : list (file C)) h l1 l2 : nwalk d h (l1 ++ l2) <-> nwalk d h l1 /\ nwalk d (last l1 h) l2.
Proof.
  revert h. induction l1 as [|x l1 IH]; intros h; cbn [app nwalk].
  - cbn [last]. tauto.
  - rewrite IH. assert (E : last (x :: l1) h = last l1 x) by (destruct l1 as [|y l1']; [reflexivity|exact (last_cons_default l1' y h x)]).
    rewrite E. tauto.
Qed.

Lemma nwalk_pump {C} (d : list (file C)) h c n :
  nwalk d h c -> last c h = h -> nwalk d h (concat (repeat c n)) /\ last (concat (repeat c n)) h = h.
Proof.
  intros Hc Hl. induction n as [|n [IH1 IH2]]; cbn [repeat concat]; [split; [exact I|reflexivity]|].
  split; [apply nwalk_app; rewrite Hl; auto|rewrite last_app, Hl; exact IH2].
Qed.

Lemma root_of_dir {C M} (lr : C -> res M) (d : list (file C)) g :
  well_formed d = true -> resolve lr d = Ok g ->
  exists st f vr, scan_dir scan0 d = Ok st /\ SInv (dir_versions d) d st /\ In f d /\ classify (fst f) = FRoot vr
    /\ nth_error (g_nodes g) (g_root g) = Some vr /\ lr (snd f) = Ok (g_root_mapping g)
    /\ (forall f', In f' d -> is_tiny_name (fst f') = true -> f' = f)
    /\ g_versions g = sc_tbl st /\ g_nodes g = sc_nodes st /\ g_edges g = sc_edges st.
Proof.
  intros Hwf Hres. destruct (resolve_ok lr d g Hres) as (st & f & Hscan & Hr & Hl & Et & En & Ee & _).
  pose proof (scan_wf d st Hwf Hscan) as HS. pose proof (si_root _ _ _ HS) as R. rewrite Hr in R.
  destruct R as (Hf & (vr & K & Hn) & Hu). exists st, f, vr. rewrite En. auto 12.
Qed.

Theorem cycle_err {C M} (lr : C -> res M) (d : list (file C)) f vr L Cy :
  well_formed d = true -> In f d -> classify (fst f) = FRoot vr ->
  nwalk d vr L -> Cy <> [] -> nwalk d (last L vr) Cy -> last Cy (last L vr) = last L vr ->
  resolve lr d = Err.
Proof.
  intros Hwf Hf K HL Hne HC Hlast. destruct (resolve lr d) as [g|] eqn:Hres; [exfalso|reflexivity].
  destruct (root_of_dir lr d g Hwf Hres) as (st & f0 & vr0 & Hscan & HS & Hf0 & K0 & Hroot & _ & Hu & _ & En & Ee).
  assert (f = f0) by (apply Hu; [exact Hf|apply is_tiny_classify; exists vr; exact K]). subst f0.
  assert (vr0 = vr) by congruence. subst vr0.
  set (n := S (length (sc_nodes st))).
  destruct (nwalk_pump d (last L vr) Cy n HC Hlast) as [P _].
  assert (HW : nwalk d vr (L ++ concat (repeat Cy n))) by (apply nwalk_app; split; assumption).
  rewrite En in Hroot. destruct (nwalk_fwalk _ d st HS _ _ _ Hroot HW) as (l & Hnamed & Hfw).
  pose proof (resolve_walks_bounded lr d g l Hres) as Hb. rewrite Ee, En in Hb. specialize (Hb Hfw).
  apply named_length in Hnamed. rewrite Hnamed, app_length in Hb.
  pose proof (concat_repeat_length Cy n Hne). unfold n in *. lia.
Qed.

(* ---------- unreachable versions ---------- *)
Theorem unreachable_err {C M D} (o : ops C M D) (g : graph C M) v :
  (forall l, fwalk (g_edges g) (g_root g) l -> last l (g_root g) <> v) -> candidates o g v = [Err].
Proof.
  intros H. unfold candidates. destruct (shortest_paths g v) as [|p ps] eqn:E; [reflexivity|]. exfalso.
  assert (Hp : In p (shortest_paths g v)) by (rewrite E; left; reflexivity).
  apply shortest_paths_spec in Hp. destruct Hp as (l & _ & Hw & Hl & _). apply (H l Hw Hl).
Qed.

Theorem unreachable_err_named {C M D} (o : ops C M D) (d : list (file C)) g v i sp k :
  well_formed d = true -> resolve (load_root o) d = Ok g ->
  get g k = Ok (sp, i) -> nth_error (g_nodes g) i = Some v ->
  (forall vr f L, In f d -> classify (fst f) = FRoot vr -> nwalk d vr L -> last L vr <> v) ->
  candidates_by_name o g k = [Err].
Proof.
  intros Hwf Hres Hget Hv Hun. unfold candidates_by_name. rewrite Hget. apply unreachable_err.
  intros l Hw Hl. destruct (root_of_dir _ d g Hwf Hres) as (st & f & vr & _ & HS & Hf & K & Hroot & _ & _ & _ & En & Ee).
  rewrite Ee in Hw. rewrite En in Hroot, Hv. destruct (fwalk_nwalk _ d st HS l _ _ Hroot Hw) as (L & Hnamed & HW).
  pose proof (named_last _ _ _ _ _ Hnamed Hroot) as Hlast. rewrite Hl in Hlast.
  apply (Hun vr f L Hf K HW). congruence.
Qed.
