(* C05 — round 5: the instantiated history theorem WITHOUT the three restrictions it inherits is false of the model, shown on
   three two-version histories (root r, child v, one edge file print (diff (H r) (H v))):
     F4  (C04's open finding): v gives a class the EMPTY comment — the `.tinydiff` line reads back as "no comment action";
     F3  (C04's open finding): v gives a parameter a first-namespace name — a diff does not carry it;
     top: v changes the comment of the mapping set itself — the `.tinydiff` text has no line for it.
   In each case every other hypothesis holds ([hist_ok_full] = [hist_ok] minus exactly these three exclusions), resolve
   succeeds, and the one candidate for v is NOT extend (H v) even up to map order. *)
From FB Require Import C05.Model C05.Theory6.
From FB Require Import C04.Model C04.Text C04.Hyps C04.Theory2.
From FB Require Import C05.Bridge C05.Instance C05.InstanceDir.
From FB Require C03.Model C11.Model.

Definition version_ok_full (M : mappings) : bool :=
  wf M && two_ns M && str_eqb (nth 1 (ms_ns M) []) ns_named && FB.C04.Hyps.named M && textual_mappings M.
Definition edge_ok_full (A B : mappings) : bool := list_eqb str_eqb (ms_ns A) (ms_ns B).
Definition edge_check_full (h : history) (pv : str * str) : bool :=
  negb (mem_N sep_edge (fst pv))
  && Nat.ltb (hrank (fst pv) (h_versions h)) (hrank (snd pv) (h_versions h))
  && version_ok_full (hget h (fst pv)) && version_ok_full (hget h (snd pv)) && edge_ok_full (hget h (fst pv)) (hget h (snd pv)).
Definition hist_ok_full (h : history) : bool :=
  match h_versions h with
  | [] => false
  | (vr, M) :: _ => version_ok_full M && root_ok M && forallb (edge_check_full h) (h_edges h) && wf_versions (hist_versions h vr)
  end.

(* the conclusion of C05_history_dir_sound *)
Definition history_dir_conclusion (h : history) : Prop :=
  exists vr d g, hd_error (map fst (h_versions h)) = Some vr /\ dir_of h = Ok d /\ resolve (load_root vg_ops) d = Ok g /\
    forall L, ewalk (h_edges h) vr L -> let v := last L vr in forall k, In k (keys v) ->
    exists sp i, get g k = Ok (sp, i) /\ nth_error (g_nodes g) i = Some v
      /\ candidates_by_name vg_ops g k <> []
      /\ forall r, In r (candidates_by_name vg_ops g k) -> res_rel mequiv r (X11.extend (hget h v) ns_named).

(* the unrestricted statement: NOT proved — refuted below *)
Definition history_sound_instantiated_full : Prop := forall h, hist_ok_full h = true -> history_dir_conclusion h.

Lemma conclusion_refute h vr v k d g r e :
  hd_error (map fst (h_versions h)) = Some vr -> dir_of h = Ok d -> resolve (load_root vg_ops) d = Ok g ->
  In (vr, v) (h_edges h) -> In k (keys v) -> In (Ok r) (candidates_by_name vg_ops g k) ->
  X11.extend (hget h v) ns_named = Ok e -> ~ mequiv r e -> ~ history_dir_conclusion h.
Proof.
  intros E1 E2 E3 Hedge Hk Hin He Hne (vr' & d' & g' & F1 & F2 & F3 & Hall).
  assert (vr' = vr) by congruence. subst vr'. assert (d' = d) by congruence. subst d'. assert (g' = g) by congruence. subst g'.
  destruct (Hall [v] (conj Hedge I) k Hk) as (sp & i & _ & _ & _ & Hr).
  specialize (Hr (Ok r) Hin). cbn [last] in Hr. rewrite He in Hr. exact (Hne Hr).
Qed.

Definition w_ns : list str := [[105; 110; 116]; ns_named].
Definition s_wr : str := [114].    (* r *)
Definition s_wv : str := [118].    (* v *)
Definition w_hist (A B : mappings) : history := mkHist [(s_wr, A); (s_wv, B)] [(s_wr, s_wv)].

(* F4: class a -> A; the child gives it the empty comment *)
Definition f4_r : mappings := mkMappings w_ns None [mkClass [Some [97]; Some [65]] None [] []].
Definition f4_v : mappings := mkMappings w_ns None [mkClass [Some [97]; Some [65]] (Some []) [] []].
(* F3: class a -> A with method m()V -> m; the child adds parameter 0 with names [p, arg] *)
Definition f3_r : mappings := mkMappings w_ns None
  [mkClass [Some [97]; Some [65]] None [] [mkMeth [40; 41; 86] [Some [109]; Some [109]] None []]].
Definition f3_v : mappings := mkMappings w_ns None
  [mkClass [Some [97]; Some [65]] None [] [mkMeth [40; 41; 86] [Some [109]; Some [109]] None [mkParam 0 [Some [112]; Some [97; 114; 103]] None]]].
(* top: the child changes the comment of the mapping set *)
Definition top_r : mappings := mkMappings w_ns None [mkClass [Some [97]; Some [65]] None [] []].
Definition top_v : mappings := mkMappings w_ns (Some [120]) [mkClass [Some [97]; Some [65]] None [] []].

Lemma f4_refutes : hist_ok_full (w_hist f4_r f4_v) = true /\ has_empty_comment f4_v = true /\ ~ history_dir_conclusion (w_hist f4_r f4_v).
Proof.
  split; [vm_compute; reflexivity|]. split; [vm_compute; reflexivity|].
  eapply (conclusion_refute _ s_wr s_wv s_wv);
    [vm_compute; reflexivity|vm_compute; reflexivity|vm_compute; reflexivity|left; reflexivity|left; reflexivity|vm_compute; left; reflexivity|vm_compute; reflexivity|].
  intros (_ & _ & _ & _ & Hc). specialize (Hc [97]). vm_compute in Hc. destruct Hc as (_ & Hd & _). discriminate.
Qed.

Lemma f3_refutes : hist_ok_full (w_hist f3_r f3_v) = true /\ f3_class f3_r f3_v = true /\ ~ history_dir_conclusion (w_hist f3_r f3_v).
Proof.
  split; [vm_compute; reflexivity|]. split; [vm_compute; reflexivity|].
  eapply (conclusion_refute _ s_wr s_wv s_wv);
    [vm_compute; reflexivity|vm_compute; reflexivity|vm_compute; reflexivity|left; reflexivity|left; reflexivity|vm_compute; left; reflexivity|vm_compute; reflexivity|].
  intros (_ & _ & _ & _ & Hc). specialize (Hc [97]). vm_compute in Hc. destruct Hc as (_ & _ & _ & _ & _ & Hm).
  specialize (Hm ([109], [40; 41; 86])). vm_compute in Hm. destruct Hm as (_ & _ & _ & _ & _ & Hp). specialize (Hp 0%N). vm_compute in Hp. discriminate.
Qed.

Lemma top_refutes : hist_ok_full (w_hist top_r top_v) = true /\ ms_doc top_r <> ms_doc top_v /\ ~ history_dir_conclusion (w_hist top_r top_v).
Proof.
  split; [vm_compute; reflexivity|]. split; [discriminate|].
  eapply (conclusion_refute _ s_wr s_wv s_wv);
    [vm_compute; reflexivity|vm_compute; reflexivity|vm_compute; reflexivity|left; reflexivity|left; reflexivity|vm_compute; left; reflexivity|vm_compute; reflexivity|].
  intros (_ & Hd & _). vm_compute in Hd. discriminate.
Qed.

Theorem history_sound_instantiated_full_refuted : ~ history_sound_instantiated_full.
Proof. intros Hfull. destruct f4_refutes as (Hok & _ & Hn). exact (Hn (Hfull _ Hok)). Qed.

(* [hist_ok_full] is [hist_ok] minus exactly the three exclusions *)
Lemma hist_ok_full_weaker h : hist_ok h = true -> hist_ok_full h = true.
Proof.
  unfold hist_ok, hist_ok_full. destruct (h_versions h) as [|[vr M] rest]; [auto|].
  rewrite !andb_true_iff. intros (((H1 & H2) & H3) & H4).
  assert (V : forall X, version_ok X = true -> version_ok_full X = true).
  { intros X. unfold version_ok, version_ok_full. rewrite !andb_true_iff. tauto. }
  split; [split; [split; [apply V; exact H1|exact H2]|]|exact H4].
  rewrite forallb_forall in *. intros pv Hpv. specialize (H3 pv Hpv). unfold edge_check, edge_check_full in *.
  rewrite !andb_true_iff in *. destruct H3 as ((((A1 & A2) & A3) & A4) & A5).
  split; [split; [split; [split; [exact A1|exact A2]|apply V; exact A3]|apply V; exact A4]|].
  unfold edge_ok in A5. unfold edge_ok_full. rewrite !andb_true_iff in A5. tauto.
Qed.
