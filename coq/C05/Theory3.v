(* C05 — graph theory of the model: walks, the loop-detecting walk of resolve, shortest paths *)
From FB Require Import C05.Model C05.Theory1.
From Coq Require Import Lia.

(* ---------- walks ---------- *)
Fixpoint fwalk {C} (es : list (edge C)) (h : nat) (l : list nat) : Prop :=
  match l with
  | [] => True
  | v :: l' => In v (succs es h) /\ fwalk es v l'
  end.

Lemma in_succs {C} (es : list (edge C)) a b : In b (succs es a) <-> exists e, In e es /\ e_src e = a /\ e_dst e = b.
Proof.
  unfold succs, out_edges. rewrite in_map_iff. split.
  - intros (e & Hd & He). apply in_rev in He. apply filter_In in He. destruct He as [He Hs].
    apply Nat.eqb_eq in Hs. exists e. auto.
  - intros (e & He & Hs & Hd). exists e. split; [exact Hd|]. apply -> in_rev. apply filter_In. split; [exact He|].
    apply Nat.eqb_eq. exact Hs.
Qed.

Lemma last_cons_default {A} (l : list A) x d d' : last (x :: l) d = last (x :: l) d'.
Proof. revert x. induction l as [|y l IH]; intros x; [reflexivity|]. cbn [last] in *. apply (IH y). Qed.

Lemma last_app {A} (a b : list A) d : last (a ++ b) d = last b (last a d).
Proof.
  revert d. induction a as [|x a IH]; intros d; [reflexivity|].
  destruct a as [|y a].
  - cbn [app]. destruct b as [|z b]; [reflexivity|]. cbn [last]. apply last_cons_default.
  - specialize (IH d). cbn [app last] in *. exact IH.
Qed.

Lemma last_rev_hd {A} (p : list A) d : last (rev p) d = hd d p.
Proof. destruct p as [|x p]; [reflexivity|]. cbn [rev hd]. rewrite last_app. reflexivity. Qed.

Lemma fwalk_app {C} (es : list (edge C)) h l1 l2 : fwalk es h (l1 ++ l2) <-> fwalk es h l1 /\ fwalk es (last l1 h) l2.
Proof.
  revert h. induction l1 as [|x l1 IH]; intros h; cbn [app fwalk].
  - cbn [last]. tauto.
  - rewrite IH. assert (E : last (x :: l1) h = last l1 x) by (destruct l1 as [|y l1']; [reflexivity|exact (last_cons_default l1' y h x)]). rewrite E. tauto.
Qed.

(* going round a cycle any number of times *)
Lemma fwalk_pump {C} (es : list (edge C)) h c n :
  fwalk es h c -> last c h = h -> fwalk es h (concat (repeat c n)) /\ last (concat (repeat c n)) h = h.
Proof.
  intros Hc Hl. induction n as [|n [IH1 IH2]]; cbn [repeat concat]; [split; [exact I|reflexivity]|].
  split; [apply fwalk_app; rewrite Hl; auto|rewrite last_app, Hl; exact IH2].
Qed.

Lemma concat_repeat_length {A} (c : list A) n : c <> [] -> (n <= length (concat (repeat c n)))%nat.
Proof.
  intros Hc. induction n as [|n IH]; cbn [repeat concat]; [lia|]. rewrite app_length.
  destruct c; [congruence|]. cbn [length]. lia.
Qed.

(* a walk that runs into one of its own nodes again can be made as long as we like *)
Lemma loop_pumps {C} (es : list (edge C)) root L v N :
  fwalk es root L -> In v (succs es (last L root)) -> In v L -> exists l, fwalk es root l /\ (N <= length l)%nat.
Proof.
  intros HL Hv Hin. destruct (in_split v L Hin) as (l1 & l2 & ->).
  pose proof HL as HL0. apply fwalk_app in HL. destruct HL as [H1 H2]. cbn [fwalk] in H2. destruct H2 as [H2a H2b].
  set (h := last (l1 ++ v :: l2) root) in *.
  assert (Hh : last (v :: l2) h = h).
  { unfold h at 2. rewrite last_app. apply last_cons_default. }
  assert (Hc : fwalk es h (v :: l2)) by (split; assumption).
  destruct (fwalk_pump es h (v :: l2) N Hc Hh) as [P1 _].
  exists ((l1 ++ v :: l2) ++ concat (repeat (v :: l2) N)). split.
  - apply fwalk_app. split; [exact HL0|exact P1].
  - rewrite app_length. pose proof (concat_repeat_length (v :: l2) N ltac:(discriminate)). lia.
Qed.

(* ---------- the walk of resolve ---------- *)
Definition walker_ok {C} (es : list (edge C)) (root : nat) (w : walker) : Prop :=
  fwalk es root (rev (fst w)) /\ snd w = hd root (fst w).

Lemma memn_In x l : memn x l = true <-> In x l.
Proof.
  unfold memn. rewrite existsb_exists. split.
  - intros (y & Hy & E). apply Nat.eqb_eq in E. subst. exact Hy.
  - intros H. exists x. split; [exact H|apply Nat.eqb_refl].
Qed.

Lemma in_expand {C} (es : list (edge C)) w w' : In w' (expand es w) <-> exists v, In v (succs es (snd w)) /\ w' = (v :: fst w, v).
Proof.
  unfold expand. rewrite in_map_iff. split; intros (v & H1 & H2); exists v; [split; [exact H2|symmetry; exact H1]|split; [symmetry; exact H2|exact H1]].
Qed.

Lemma expand_ok {C} (es : list (edge C)) root w w' k :
  walker_ok es root w -> length (fst w) = k -> In w' (expand es w) -> walker_ok es root w' /\ length (fst w') = S k.
Proof.
  intros [Hw Hh] Hk Hin. apply in_expand in Hin. destruct Hin as (v & Hv & ->). unfold walker_ok. cbn [fst snd].
  split; [|cbn [length]; lia]. split; [|reflexivity].
  assert (E : rev (v :: fst w) = rev (fst w) ++ [v]) by reflexivity. rewrite E. clear E.
  apply (proj2 (fwalk_app es root (rev (fst w)) [v])). split; [exact Hw|].
  rewrite (last_rev_hd (fst w) root), <- Hh. cbn [fwalk]. auto.
Qed.

Lemma walk_S {C} f (es : list (edge C)) root level ds : level <> [] ->
  walk (S f) es root level ds =
  if existsb (loops es) level then Err
  else walk f es root (flat_map (expand es) level) (fold_left (upd_depth root) level ds).
Proof. destruct level; [congruence|reflexivity]. Qed.
Lemma walk_O {C} (es : list (edge C)) root level ds : level <> [] -> walk O es root level ds = Err.
Proof. destruct level; [congruence|reflexivity]. Qed.

(* a long walk from some walker's head: the walk of resolve fails (loop found or out of fuel) *)
Lemma walk_long_err {C} (es : list (edge C)) root fuel : forall level ds p h l,
  In (p, h) level -> fwalk es h l -> (fuel <= length l)%nat -> walk fuel es root level ds = Err.
Proof.
  induction fuel as [|f IH]; intros level ds p h l Hin Hw Hlen.
  - apply walk_O. intros ->. destruct Hin.
  - rewrite walk_S by (intros ->; destruct Hin).
    destruct (existsb (loops es) level); [reflexivity|].
    destruct l as [|v l']; [cbn in Hlen; lia|]. destruct Hw as [Hv Hw'].
    apply (IH _ _ (v :: p) v l'); [|exact Hw'|cbn in Hlen; lia].
    apply in_flat_map. exists (p, h). split; [exact Hin|]. apply in_expand. exists v. split; [exact Hv|reflexivity].
Qed.

(* conversely a failure exhibits a long walk from the root *)
Lemma walk_err_long {C} (es : list (edge C)) root fuel : forall level ds k,
  (forall w, In w level -> walker_ok es root w /\ length (fst w) = k) ->
  walk fuel es root level ds = Err -> exists l, fwalk es root l /\ (k + fuel <= length l)%nat.
Proof.
  induction fuel as [|f IH]; intros level ds k Hok.
  - destruct level as [|w0 lv]; [discriminate|]. intros _. destruct (Hok w0 (or_introl eq_refl)) as [[Hw _] Hk].
    exists (rev (fst w0)). split; [exact Hw|]. rewrite rev_length. lia.
  - destruct level as [|w0 lv] eqn:EL; [discriminate|]. rewrite <- EL in *. rewrite walk_S by (rewrite EL; discriminate).
    destruct (existsb (loops es) level) eqn:Lp.
    + intros _. apply existsb_exists in Lp. destruct Lp as (w & Hw & Hl). unfold loops in Hl.
      apply existsb_exists in Hl. destruct Hl as (v & Hv & Hm). apply memn_In in Hm.
      destruct (Hok w Hw) as [[Hwalk Hh] _].
      apply (loop_pumps es root (rev (fst w)) v (k + S f) Hwalk).
      * rewrite last_rev_hd, <- Hh. exact Hv.
      * apply -> in_rev. exact Hm.
    + intros H.
      assert (Hok' : forall w', In w' (flat_map (expand es) level) -> walker_ok es root w' /\ length (fst w') = S k).
      { intros w' Hw'. apply in_flat_map in Hw'. destruct Hw' as (w & Hw & Hex).
        destruct (Hok w Hw) as [Hwok Hk]. apply (expand_ok es root w w' k Hwok Hk Hex). }
      destruct (IH _ _ (S k) Hok' H) as (l & Hl & Hlen).
      exists l. split; [exact Hl|lia].
Qed.

Theorem walk_err_iff {C} (es : list (edge C)) root n ds :
  walk (S n) es root [([], root)] ds = Err <-> exists l, fwalk es root l /\ (S n <= length l)%nat.
Proof.
  split.
  - intros H.
    assert (Hok : forall w, In w [(@nil nat, root)] -> walker_ok es root w /\ length (fst w) = 0%nat).
    { intros w [<-|[]]. split; [split; [exact I|reflexivity]|reflexivity]. }
    destruct (walk_err_long es root (S n) _ ds 0 Hok H) as (l & Hl & Hlen).
    exists l. split; [exact Hl|lia].
  - intros (l & Hl & Hlen). apply (walk_long_err es root (S n) _ ds [] root l); [left; reflexivity|exact Hl|exact Hlen].
Qed.

(* ---------- shortest paths ---------- *)
Definition level_ok {C} (es : list (edge C)) (root k : nat) (level : list (list nat)) : Prop :=
  forall p, In p level <-> exists l, p = rev (root :: l) /\ fwalk es root l /\ length l = k.

Lemma level_ok_0 {C} (es : list (edge C)) root : level_ok es root 0 [[root]].
Proof.
  intros p. split.
  - intros [<-|[]]. exists []. split; [reflexivity|]. split; [exact I|reflexivity].
  - intros (l & -> & _ & Hl). destruct l; [left; reflexivity|discriminate].
Qed.

Lemma hd_rev_cons {A} (r : A) l : exists t, rev (r :: l) = last l r :: t.
Proof.
  destruct (rev (r :: l)) as [|x t] eqn:E.
  - exfalso. apply (f_equal (@length A)) in E. rewrite rev_length in E. discriminate.
  - exists t. f_equal. pose proof (last_rev_hd (rev (r :: l)) r) as H. rewrite rev_involutive in H.
    rewrite E in H. cbn [hd] in H. rewrite <- H. destruct l; reflexivity.
Qed.

Lemma level_ok_step {C} (es : list (edge C)) root k level :
  level_ok es root k level -> level_ok es root (S k) (flat_map (extend_walk es) level).
Proof.
  intros HL q. rewrite in_flat_map. split.
  - intros (p & Hp & Hq). apply HL in Hp. destruct Hp as (l & -> & Hw & Hk).
    destruct (hd_rev_cons root l) as [t Et]. unfold extend_walk in Hq. rewrite Et in Hq.
    apply in_map_iff in Hq. destruct Hq as (v & <- & Hv). exists (l ++ [v]). rewrite <- Et. split.
    + change (root :: l ++ [v]) with ((root :: l) ++ [v]). rewrite rev_app_distr. reflexivity.
    + split; [apply fwalk_app; split; [exact Hw|cbn [fwalk]; auto]|rewrite app_length; cbn [length]; lia].
  - intros (l' & -> & Hw & Hk). destruct (exists_last (l := l')) as (l & v & ->); [intros ->; discriminate|].
    apply fwalk_app in Hw. destruct Hw as [Hw [Hv _]]. rewrite app_length in Hk. cbn [length] in Hk.
    exists (rev (root :: l)). split; [apply HL; exists l; split; [reflexivity|split; [exact Hw|lia]]|].
    destruct (hd_rev_cons root l) as [t Et]. unfold extend_walk. rewrite Et. apply in_map_iff. exists v.
    split; [|exact Hv]. rewrite <- Et. change (root :: l ++ [v]) with ((root :: l) ++ [v]). rewrite rev_app_distr. reflexivity.
Qed.

Lemma ends_at_rev target root l : ends_at target (rev (root :: l)) = true <-> last l root = target.
Proof.
  destruct (hd_rev_cons root l) as [t Et]. rewrite Et. cbn [ends_at]. apply Nat.eqb_eq.
Qed.

Definition minimal_to {C} (es : list (edge C)) (root target k : nat) (l : list nat) : Prop :=
  forall l', fwalk es root l' -> last l' root = target -> (k <= length l')%nat -> (length l <= length l')%nat.

Lemma shortest_spec {C} (es : list (edge C)) root target fuel : forall k level,
  level_ok es root k level ->
  forall p, In p (shortest fuel es target level) <->
    exists l, p = rev (root :: l) /\ fwalk es root l /\ last l root = target
              /\ (k <= length l < k + fuel)%nat /\ minimal_to es root target k l.
Proof.
  induction fuel as [|f IH]; intros k level HL p.
  - cbn [shortest]. split; [intros []|]. intros (l & _ & _ & _ & H & _). lia.
  - cbn [shortest]. destruct (filter (ends_at target) level) as [|x hits] eqn:F.
    + assert (Hno : forall l, fwalk es root l -> length l = k -> last l root <> target).
      { intros l Hw Hk Hl. assert (Hin : In (rev (root :: l)) (filter (ends_at target) level)).
        { apply filter_In. split; [apply HL; exists l; auto|apply ends_at_rev; exact Hl]. }
        rewrite F in Hin. destruct Hin. }
      rewrite (IH (S k) _ (level_ok_step es root k level HL) p). split.
      * intros (l & Hp & Hw & Hl & Hlen & Hmin). exists l. split; [exact Hp|]. split; [exact Hw|]. split; [exact Hl|].
        split; [lia|]. intros l' Hw' Hl' Hk'. apply Hmin; [exact Hw'|exact Hl'|].
        destruct (Nat.eq_dec (length l') k) as [E|E]; [exfalso; apply (Hno l' Hw' E Hl')|lia].
      * intros (l & Hp & Hw & Hl & Hlen & Hmin). exists l. split; [exact Hp|]. split; [exact Hw|]. split; [exact Hl|].
        assert (length l <> k) by (intros E; apply (Hno l Hw E Hl)).
        split; [lia|]. intros l' Hw' Hl' Hk'. apply Hmin; [exact Hw'|exact Hl'|lia].
    + rewrite <- F. rewrite filter_In. split.
      * intros [Hin He]. apply HL in Hin. destruct Hin as (l & -> & Hw & Hk). apply ends_at_rev in He.
        exists l. split; [reflexivity|]. split; [exact Hw|]. split; [exact He|]. split; [lia|].
        intros l' _ _ Hk'. lia.
      * intros (l & -> & Hw & Hl & Hlen & Hmin).
        assert (Hx : In x (filter (ends_at target) level)) by (rewrite F; left; reflexivity).
        apply filter_In in Hx. destruct Hx as [Hx Hxe]. apply HL in Hx. destruct Hx as (lx & -> & Hwx & Hkx).
        apply ends_at_rev in Hxe. pose proof (Hmin lx Hwx Hxe ltac:(lia)) as Hle.
        split; [apply HL; exists l; split; [reflexivity|split; [exact Hw|lia]]|apply ends_at_rev; exact Hl].
Qed.

(* the forward paths *)
Theorem shortest_paths_spec {C M} (g : graph C M) v path :
  In path (shortest_paths g v) <->
  exists l, path = g_root g :: l /\ fwalk (g_edges g) (g_root g) l /\ last l (g_root g) = v
            /\ (length l <= length (g_nodes g))%nat /\ minimal_to (g_edges g) (g_root g) v 0 l.
Proof.
  unfold shortest_paths. rewrite in_map_iff. split.
  - intros (p & <- & Hp). apply (shortest_spec (g_edges g) (g_root g) v _ 0 _ (level_ok_0 _ _)) in Hp.
    destruct Hp as (l & -> & Hw & Hl & Hlen & Hmin). exists l. rewrite rev_involutive.
    split; [reflexivity|]. split; [exact Hw|]. split; [exact Hl|]. split; [lia|exact Hmin].
  - intros (l & -> & Hw & Hl & Hlen & Hmin). exists (rev (g_root g :: l)). split; [apply rev_involutive|].
    apply (shortest_spec (g_edges g) (g_root g) v _ 0 _ (level_ok_0 _ _)). exists l.
    split; [reflexivity|]. split; [exact Hw|]. split; [exact Hl|]. split; [lia|exact Hmin].
Qed.

(* ---------- the fold along a path, from the far end ---------- *)
Lemma fold_path_snoc {C M D} (o : ops C M D) (es : list (edge C)) : forall l h v m,
  fold_path o es m ((h :: l) ++ [v]) =
  match fold_path o es m (h :: l) with Ok m' => step o es (last l h) v m' | Err => Err end.
Proof.
  induction l as [|x l IH]; intros h v m.
  - cbn [app fold_path last]. destruct (step o es h v m); reflexivity.
  - change ((h :: x :: l) ++ [v]) with (h :: (x :: l) ++ [v]).
    cbn [fold_path]. change ((x :: l) ++ [v]) with (x :: (l ++ [v])) at 1. cbv iota beta.
    destruct (step o es h x m) as [m1|]; [|reflexivity].
    change (x :: l ++ [v]) with ((x :: l) ++ [v]). rewrite IH.
    assert (E : last (x :: l) h = last l x) by (destruct l as [|y l']; [reflexivity|exact (last_cons_default l' y h x)]). rewrite E. reflexivity.
Qed.
