(* C05 — executable model of /repo/src/version_graph.rs (VersionGraph::resolve, ::get,
   ::apply_diffs).  Definitions only; the proofs are in Theory*.v.

   A directory is the list of its (file name, content) pairs in the order `read_dir` lists them;
   resolve sorts it by file name first ([resolve_dir], since fix 'the version graph does not depend on the listing order').
   The operations version_graph composes (reading a .tiny / .tinydiff file, contracting and
   extending inner class names, applying a diff) are NOT modelled here (they belong to C03,
   C04, C11): they are explicit parameters, bundled in [ops].  A graph node is its index in
   creation order, exactly petgraph's NodeIndex. *)
From FB Require Export Base.Str Base.Run Base.Sort C05.Consts.
From Coq Require Export Arith.PeanoNat.

(* ---------- str::split_once / str::strip_suffix ---------- *)
Fixpoint split_once (c : N) (s : str) : option (str * str) :=
  match s with
  | [] => None
  | x :: s' =>
      if N.eqb x c then Some ([], s')
      else match split_once c s' with
           | Some (a, b) => Some (x :: a, b)
           | None => None
           end
  end.

Definition strip_suffix (suf s : str) : option str :=
  let n := (length s - length suf)%nat in
  if (length suf <=? length s)%nat && str_eqb (skipn n s) suf then Some (firstn n s) else None.

(* ---------- the lookup table `versions: IndexMap<String, (Split, NodeIndex)>` ---------- *)
Inductive vsplit := SNone | SFirst | SSecond.
Definition table := list (str * (vsplit * nat)).     (* insertion order *)

Fixpoint tbl_get (k : str) (t : table) : option (vsplit * nat) :=
  match t with
  | [] => None
  | (k', x) :: t' => if str_eqb k k' then Some x else tbl_get k t'
  end.

(* `add_node`: `entry(..).or_insert_with(..)` — the first insertion of a key wins; a node is
   created only when the (first) key was vacant; its name is the whole version string. *)
Definition add_node (t : table) (ns : list str) (v : str) : table * list str * nat :=
  match split_once sep_split v with
  | Some (client, server) =>
      let '(t1, ns1, i) :=
        match tbl_get client t with
        | Some (_, i) => (t, ns, i)
        | None => (t ++ [(client, (SFirst, length ns))], ns ++ [v], length ns)
        end in
      (match tbl_get server t1 with Some _ => t1 | None => t1 ++ [(server, (SSecond, i))] end, ns1, i)
  | None =>
      match tbl_get v t with
      | Some (_, i) => (t, ns, i)
      | None => (t ++ [(v, (SNone, length ns))], ns ++ [v], length ns)
      end
  end.

(* ---------- the directory scan ---------- *)
Definition file (C : Type) := (str * C)%type.
Definition edge (C : Type) := (nat * nat * file C)%type.       (* parent, child, the .tinydiff file *)
Definition e_src {C} (e : edge C) : nat := fst (fst e).
Definition e_dst {C} (e : edge C) : nat := snd (fst e).
Definition e_file {C} (e : edge C) : file C := snd e.

Record scan (C : Type) := mkScan {
  sc_tbl : table;
  sc_nodes : list str;                  (* NodeData.name by node index *)
  sc_edges : list (edge C);             (* insertion order *)
  sc_root : option (nat * file C) }.
Arguments mkScan {C}. Arguments sc_tbl {C}. Arguments sc_nodes {C}. Arguments sc_edges {C}. Arguments sc_root {C}.

Definition scan_step {C} (st : scan C) (f : file C) : res (scan C) :=
  match strip_suffix ext_tiny (fst f) with
  | Some vs =>
      let '(t, ns, v) := add_node (sc_tbl st) (sc_nodes st) vs in
      match sc_root st with
      | Some _ => Err                                            (* "multiple roots present" *)
      | None => Ok (mkScan t ns (sc_edges st) (Some (v, f)))
      end
  | None =>
      match strip_suffix ext_diff (fst f) with
      | Some raw =>
          match split_once sep_edge raw with
          | None => Err                                          (* no `#` in the name *)
          | Some (parent, version) =>
              let '(t1, ns1, v) := add_node (sc_tbl st) (sc_nodes st) version in
              let '(t2, ns2, p) := add_node t1 ns1 parent in
              Ok (mkScan t2 ns2 (sc_edges st ++ [(p, v, f)]) (sc_root st))
          end
      | None => Ok st                                            (* other files are ignored *)
      end
  end.

Fixpoint scan_dir {C} (st : scan C) (d : list (file C)) : res (scan C) :=
  match d with
  | [] => Ok st
  | f :: d' => match scan_step st f with Ok st' => scan_dir st' d' | Err => Err end
  end.

Definition scan0 {C} : scan C := mkScan [] [] [] None.

(* ---------- petgraph adjacency: a node's edge list is a stack, newest edge first ---------- *)
Definition out_edges {C} (es : list (edge C)) (a : nat) : list (edge C) :=
  rev (filter (fun e => Nat.eqb (e_src e) a) es).
Definition in_edges {C} (es : list (edge C)) (a : nat) : list (edge C) :=
  rev (filter (fun e => Nat.eqb (e_dst e) a) es).
Definition succs {C} (es : list (edge C)) (a : nat) : list nat := map e_dst (out_edges es a).  (* neighbors_directed(a, Outgoing) *)
Definition preds {C} (es : list (edge C)) (a : nat) : list nat := map e_src (in_edges es a).   (* neighbors_directed(a, Incoming) *)
Definition find_edge {C} (es : list (edge C)) (a b : nat) : option (edge C) :=
  find (fun e => Nat.eqb (e_dst e) b) (out_edges es a).

(* ---------- the walk from the root (depths, loop detection) ----------
   The Rust code keeps a FIFO queue of (path, head); path = the nodes visited after the root.
   A FIFO queue serves all walkers with |path| = k before any with |path| = k+1, in the order
   they were pushed; the model processes the queue generation by generation.  [path] is only
   used through `contains` and `len`, so it is kept newest-first. *)
Definition walker := (list nat * nat)%type.
Definition memn (x : nat) (l : list nat) : bool := existsb (Nat.eqb x) l.

Fixpoint set_nth {A} (l : list A) (i : nat) (x : A) : list A :=
  match l, i with
  | [], _ => []
  | _ :: l', O => x :: l'
  | y :: l', S i' => y :: set_nth l' i' x
  end.

Definition upd_depth (root : nat) (ds : list nat) (w : walker) : list nat :=
  let '(path, head) := w in
  if Nat.eqb head root then ds
  else let old := nth head ds O in
       set_nth ds head (if Nat.eqb old 0 then length path else Nat.min (length path) old).

Definition loops {C} (es : list (edge C)) (w : walker) : bool :=
  existsb (fun v => memn v (fst w)) (succs es (snd w)).
Definition expand {C} (es : list (edge C)) (w : walker) : list walker :=
  map (fun v => (v :: fst w, v)) (succs es (snd w)).

Fixpoint walk {C} (fuel : nat) (es : list (edge C)) (root : nat) (level : list walker) (ds : list nat) : res (list nat) :=
  match level with
  | [] => Ok ds
  | _ :: _ =>
      match fuel with
      | O => Err                                                  (* excluded by walk_fuel_suffices *)
      | S f =>
          if existsb (loops es) level then Err                    (* "found a loop in the version graph" *)
          else walk f es root (flat_map (expand es) level) (fold_left (upd_depth root) level ds)
      end
  end.

(* ---------- VersionGraph ---------- *)
Record graph (C M : Type) := mkGraph {
  g_root : nat;
  g_root_mapping : M;
  g_versions : table;
  g_nodes : list str;
  g_depths : list nat;
  g_edges : list (edge C) }.
Arguments mkGraph {C M}. Arguments g_root {C M}. Arguments g_root_mapping {C M}. Arguments g_versions {C M}.
Arguments g_nodes {C M}. Arguments g_depths {C M}. Arguments g_edges {C M}.

Definition resolve {C M} (load_root : C -> res M) (d : list (file C)) : res (graph C M) :=
  match scan_dir scan0 d with
  | Err => Err
  | Ok st =>
      match sc_root st with
      | None => Err                                               (* "version graph does not have a root" *)
      | Some (root, f) =>
          match load_root (snd f) with
          | Err => Err
          | Ok m =>
              let n := length (sc_nodes st) in
              match walk (S n) (sc_edges st) root [([], root)] (repeat O n) with
              | Err => Err
              | Ok ds => Ok (mkGraph root m (sc_tbl st) (sc_nodes st) ds (sc_edges st))
              end
          end
      end
  end.

(* ---------- the directory listing ----------
   `files.sort_by_key(|file| file.file_name())`: resolve goes through the entries of the directory in the order of their
   names (OsString order = byte order of the UTF-8 names = code point order), whatever order `read_dir` lists them in;
   [resolve] above is the function of the sequence in which the files are processed, [resolve_dir] is
   VersionGraph::resolve on a directory given in listing order.  (Two entries of a directory never have the same name.) *)
Definition file_leb {C} (a b : file C) : bool := match str_cmp (fst a) (fst b) with Gt => false | _ => true end.
Definition sort_files {C} (d : list (file C)) : list (file C) := isort file_leb d.
(* [dir_sorted] (C05/Consts.v) is read off the source by translate/c05_consts.py: whether the scan loop runs over the entries
   sorted by file name *)
Definition resolve_dir {C M} (load_root : C -> res M) (d : list (file C)) : res (graph C M) :=
  resolve load_root (if dir_sorted then sort_files d else d).

Definition get {C M} (g : graph C M) (name : str) : res (vsplit * nat) :=
  match tbl_get name (g_versions g) with Some x => Ok x | None => Err end.

(* ---------- the composed operations (parameters) ---------- *)
Record ops (C M D : Type) := mkOps {
  parse_tiny : C -> res M;        (* quill::tiny_v2::read_file            (C03) *)
  contract : M -> res M;          (* contract_inner_class_names("named")  (C11) *)
  parse_diff : C -> res D;        (* quill::tiny_v2_diff::read_file       (C04) *)
  apply : D -> M -> res M;        (* MappingsDiff::apply_to(_, "named")   (C04) *)
  extend : M -> res M }.          (* extend_inner_class_names("named")    (C11) *)
Arguments mkOps {C M D}. Arguments parse_tiny {C M D}. Arguments contract {C M D}.
Arguments parse_diff {C M D}. Arguments apply {C M D}. Arguments extend {C M D}.

Definition load_root {C M D} (o : ops C M D) (c : C) : res M :=
  match parse_tiny o c with Ok m => contract o m | Err => Err end.

(* ---------- apply_diffs ----------
   petgraph::algo::astar with unit edge cost and zero heuristic returns *a* shortest path
   (which one is not specified here); the model enumerates all of them.  Walks are kept
   newest-first while they are grown. *)
Definition extend_walk {C} (es : list (edge C)) (p : list nat) : list (list nat) :=
  match p with
  | [] => []
  | h :: _ => map (fun v => v :: p) (succs es h)
  end.
Definition ends_at (target : nat) (p : list nat) : bool :=
  match p with h :: _ => Nat.eqb h target | [] => false end.

Fixpoint shortest {C} (fuel : nat) (es : list (edge C)) (target : nat) (level : list (list nat)) : list (list nat) :=
  match fuel with
  | O => []
  | S f =>
      match filter (ends_at target) level with
      | [] => shortest f es target (flat_map (extend_walk es) level)
      | hits => hits
      end
  end.

Definition shortest_paths {C M} (g : graph C M) (v : nat) : list (list nat) :=
  map (@rev nat) (shortest (S (length (g_nodes g))) (g_edges g) v [[g_root g]]).

(* `.windows(2).try_fold(root_mapping, |m, [a, b]| find_edge, read the diff, apply it)` *)
Definition step {C M D} (o : ops C M D) (es : list (edge C)) (a b : nat) (m : M) : res M :=
  match find_edge es a b with
  | None => Err
  | Some e =>
      match parse_diff o (snd (e_file e)) with
      | Err => Err
      | Ok d => apply o d m
      end
  end.
Fixpoint fold_path {C M D} (o : ops C M D) (es : list (edge C)) (m : M) (path : list nat) : res M :=
  match path with
  | a :: rest =>
      match rest with
      | b :: _ => match step o es a b m with Ok m' => fold_path o es m' rest | Err => Err end
      | [] => Ok m
      end
  | [] => Ok m
  end.
Definition run_path {C M D} (o : ops C M D) (g : graph C M) (path : list nat) : res M :=
  match fold_path o (g_edges g) (g_root_mapping g) path with
  | Ok m => extend o m
  | Err => Err
  end.

(* the set of answers `apply_diffs` may give for node v *)
Definition candidates {C M D} (o : ops C M D) (g : graph C M) (v : nat) : list (res M) :=
  match shortest_paths g v with
  | [] => [Err]                                                    (* "there is no path in between" *)
  | ps => map (run_path o g) ps
  end.

(* `graph.get(name)` followed by `graph.apply_diffs(entry)` *)
Definition candidates_by_name {C M D} (o : ops C M D) (g : graph C M) (name : str) : list (res M) :=
  match get g name with
  | Err => [Err]
  | Ok (_, v) => candidates o g v
  end.

(* ---------- the neighbouring accessors ---------- *)
(* `get_all`: `iter.map(|s| self.get(s)).collect::<Result<Vec<_>>>()` — the answers in order, or the
   (first) error *)
Fixpoint get_all {C M} (g : graph C M) (names : list str) : res (list (vsplit * nat)) :=
  match names with
  | [] => Ok []
  | k :: rest =>
      match get g k with
      | Err => Err
      | Ok x => match get_all g rest with Ok l => Ok (x :: l) | Err => Err end
      end
  end.

(* `get_diff(parent, version)`: `find_edge`, then read that edge's file; no edge = Ok(None) *)
Definition get_diff {C M D} (o : ops C M D) (g : graph C M) (a b : nat) : res (option D) :=
  match find_edge (g_edges g) a b with
  | None => Ok None
  | Some e => match parse_diff o (snd (e_file e)) with Ok d => Ok (Some d) | Err => Err end
  end.

(* ---------- name-level reading of a directory (specification side) ---------- *)
Definition keys (v : str) : list str :=
  match split_once sep_split v with Some (a, b) => [a; b] | None => [v] end.

Inductive fkind := FRoot (v : str) | FEdge (parent child : str) | FBad | FOther.
Definition classify (name : str) : fkind :=
  match strip_suffix ext_tiny name with
  | Some v => FRoot v
  | None =>
      match strip_suffix ext_diff name with
      | Some raw => match split_once sep_edge raw with Some (p, v) => FEdge p v | None => FBad end
      | None => FOther
      end
  end.
(* the version strings a file name mentions, in the order add_node is called on them *)
Definition file_versions (name : str) : list str :=
  match classify name with FRoot v => [v] | FEdge p v => [v; p] | _ => [] end.
Definition dir_versions {C} (d : list (file C)) : list str := flat_map (fun f => file_versions (fst f)) d.

Definition memb (x : str) (l : list str) : bool := existsb (str_eqb x) l.
Fixpoint nodup_strb (l : list str) : bool :=
  match l with [] => true | x :: l' => negb (memb x l') && nodup_strb l' end.
Definition disjointb (a b : list str) : bool := forallb (fun x => negb (memb x b)) a.

(* well-formed: the lookup names (plain names, both halves of a~b names) of different version
   strings are different, and the two halves of one name differ *)
Definition wf_versions (vs : list str) : bool :=
  forallb (fun u => nodup_strb (keys u) && forallb (fun w => str_eqb u w || disjointb (keys u) (keys w)) vs) vs.
Definition well_formed {C} (d : list (file C)) : bool := wf_versions (dir_versions d).
