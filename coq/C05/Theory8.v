(* C05 — every index is a node; the depths resolve computes are the breadth-first distances;
   resolve fails exactly on the malformed directories (pigeonhole: a long walk contains a cycle);
   the accessors get_all / get_diff *)
From FB Require Import C05.Model C05.Theory1 C05.Theory2 C05.Theory3 C05.Theory4 C05.Theory6.
From Coq Require Import Lia.

(* ====================================================================================== *)
(* 1. every index the scan hands out is a node — for EVERY directory (collisions included) *)
(* ====================================================================================== *)
Definition tbl_bounded (t : table) (n : nat) : Prop := forall k sp i, tbl_get k t = Some (sp, i) -> (i < n)%nat.

Lemma tbl_bounded_snoc t n k' sp' i' : tbl_bounded t n -> (i' < n)%nat -> tbl_bounded (t ++ [(k', (sp', i'))]) n.
Proof.
  intros H Hi k sp i. rewrite tbl_get_app. destruct (tbl_get k t) as [[s j]|] eqn:G.
  - intros [= <- <-]. apply (H k s j G).
  - destruct (str_eqb k k'); [intros [= <- <-]; exact Hi|discriminate].
Qed.

Lemma tbl_bounded_mono t n m : tbl_bounded t n -> (n <= m)%nat -> tbl_bounded t m.
Proof. intros H Hle k sp i G. specialize (H k sp i G). lia. Qed.

Lemma add_node_bounded t ns v t' ns' i :
  tbl_bounded t (length ns) -> add_node t ns v = (t', ns', i) ->
  tbl_bounded t' (length ns') /\ (i < length ns')%nat /\ (length ns <= length ns')%nat.
Proof.
  intros Hb. unfold add_node.
  assert (Hs : forall x : str, length (ns ++ [x]) = S (length ns)) by (intros x; rewrite app_length; cbn [length]; lia).
  destruct (split_once sep_split v) as [[a b]|].
  - destruct (tbl_get a t) as [[sp j]|] eqn:Ga.
    + pose proof (Hb a sp j Ga) as Hj.
      destruct (tbl_get b t); intros [= <- <- <-]; (split; [|split; [exact Hj|lia]]); [exact Hb|].
      apply tbl_bounded_snoc; assumption.
    + destruct (tbl_get b (t ++ [(a, (SFirst, length ns))])); intros [= <- <- <-]; rewrite Hs;
        (split; [|split; lia]).
      * apply tbl_bounded_snoc; [apply (tbl_bounded_mono t (length ns)); [exact Hb|lia]|lia].
      * apply tbl_bounded_snoc; [|lia]. apply tbl_bounded_snoc; [apply (tbl_bounded_mono t (length ns)); [exact Hb|lia]|lia].
  - destruct (tbl_get v t) as [[sp j]|] eqn:Gv.
    + intros [= <- <- <-]. split; [exact Hb|]. split; [apply (Hb v sp j Gv)|lia].
    + intros [= <- <- <-]. rewrite Hs. split; [|split; lia].
      apply tbl_bounded_snoc; [apply (tbl_bounded_mono t (length ns)); [exact Hb|lia]|lia].
Qed.

Definition scan_bounded {C} (st : scan C) : Prop :=
  tbl_bounded (sc_tbl st) (length (sc_nodes st))
  /\ (forall e, In e (sc_edges st) -> (e_src e < length (sc_nodes st))%nat /\ (e_dst e < length (sc_nodes st))%nat)
  /\ (forall r f, sc_root st = Some (r, f) -> (r < length (sc_nodes st))%nat).

Lemma scan_step_bounded {C} (st st' : scan C) f : scan_bounded st -> scan_step st f = Ok st' -> scan_bounded st'.
Proof.
  intros (Ht & He & Hr). rewrite scan_step_classify. destruct (classify (fst f)) as [vs|p v| |].
  - destruct (add_node (sc_tbl st) (sc_nodes st) vs) as [[t ns] i] eqn:A.
    destruct (add_node_bounded _ _ _ _ _ _ Ht A) as (Ht' & Hi & Hle).
    destruct (sc_root st); [discriminate|]. intros [= <-]. unfold scan_bounded. cbn [sc_tbl sc_nodes sc_edges sc_root].
    split; [exact Ht'|]. split.
    + intros e Hin. destruct (He e Hin). lia.
    + intros r f0 [= <- <-]. exact Hi.
  - destruct (add_node (sc_tbl st) (sc_nodes st) v) as [[t1 ns1] iv] eqn:A1.
    destruct (add_node t1 ns1 p) as [[t2 ns2] ip] eqn:A2.
    destruct (add_node_bounded _ _ _ _ _ _ Ht A1) as (Ht1 & Hiv & Hle1).
    destruct (add_node_bounded _ _ _ _ _ _ Ht1 A2) as (Ht2 & Hip & Hle2).
    intros [= <-]. unfold scan_bounded. cbn [sc_tbl sc_nodes sc_edges sc_root].
    split; [exact Ht2|]. split.
    + intros e Hin. apply in_app_or in Hin. destruct Hin as [Hin|[<-|[]]].
      * destruct (He e Hin). lia.
      * unfold e_src, e_dst. cbn [fst snd]. lia.
    + intros r f0 Hrf. specialize (Hr r f0 Hrf). lia.
  - discriminate.
  - intros [= <-]. split; [exact Ht|]. split; [exact He|exact Hr].
Qed.

Lemma scan_dir_bounded {C} (d : list (file C)) : forall (st st' : scan C),
  scan_bounded st -> scan_dir st d = Ok st' -> scan_bounded st'.
Proof.
  induction d as [|f d IH]; intros st st' Hb; cbn [scan_dir].
  - intros [= <-]. exact Hb.
  - destruct (scan_step st f) as [s1|] eqn:E; [|discriminate]. apply IH. apply (scan_step_bounded st s1 f Hb E).
Qed.

Lemma scan0_bounded {C} : @scan_bounded C scan0.
Proof.
  split; [intros k sp i; discriminate|]. split; [intros e []|intros r f; discriminate].
Qed.

(* ====================================================================================== *)
(* 2. the depths                                                                          *)
(* ====================================================================================== *)
Lemma set_nth_length {A} (l : list A) : forall i x, length (set_nth l i x) = length l.
Proof. induction l as [|y l IH]; intros [|i] x; cbn [set_nth length]; try reflexivity. rewrite IH. reflexivity. Qed.

Lemma nth_set_nth_same (l : list nat) : forall i x, (i < length l)%nat -> nth i (set_nth l i x) 0%nat = x.
Proof.
  induction l as [|y l IH]; intros [|i] x H; cbn [length] in H; try lia; cbn [set_nth nth]; [reflexivity|].
  apply IH. lia.
Qed.

Lemma nth_set_nth_other (l : list nat) : forall i j x, i <> j -> nth i (set_nth l j x) 0%nat = nth i l 0%nat.
Proof.
  induction l as [|y l IH]; intros i j x H.
  - destruct j; reflexivity.
  - destruct j as [|j]; destruct i as [|i]; cbn [set_nth nth]; try reflexivity; [congruence|].
    apply IH. congruence.
Qed.

Lemma nth_set_nth_beyond (l : list nat) : forall i j x, (length l <= i)%nat -> nth i (set_nth l j x) 0%nat = nth i l 0%nat.
Proof.
  intros i j x H. rewrite (nth_overflow l) by exact H. apply nth_overflow. rewrite set_nth_length. exact H.
Qed.

Definition newdepth (k old : nat) : nat := if Nat.eqb old 0 then k else Nat.min k old.

Lemma newdepth_idem k old : newdepth k (newdepth k old) = newdepth k old.
Proof.
  unfold newdepth. destruct (Nat.eqb_spec old 0) as [->|Ho].
  - destruct (Nat.eqb_spec k 0); lia.
  - destruct (Nat.eqb_spec (Nat.min k old) 0); lia.
Qed.

Lemma upd_depth_length root ds w : length (upd_depth root ds w) = length ds.
Proof. destruct w as [p h]. unfold upd_depth. destruct (Nat.eqb h root); [reflexivity|apply set_nth_length]. Qed.

Lemma upd_depth_nth root ds p h i :
  nth i (upd_depth root ds (p, h)) 0%nat =
  if (Nat.eqb i h && negb (Nat.eqb h root) && Nat.ltb i (length ds))%bool then newdepth (length p) (nth i ds 0%nat) else nth i ds 0%nat.
Proof.
  unfold upd_depth. destruct (Nat.eqb_spec h root) as [->|Hr].
  - rewrite Bool.andb_false_r. reflexivity.
  - cbn [negb]. rewrite Bool.andb_true_r. destruct (Nat.eqb_spec i h) as [->|Hih].
    + cbn [andb]. destruct (Nat.ltb_spec h (length ds)) as [Hlt|Hge].
      * rewrite nth_set_nth_same by exact Hlt. reflexivity.
      * apply nth_set_nth_beyond. exact Hge.
    + cbn [andb]. apply nth_set_nth_other. exact Hih.
Qed.

(* one generation of walkers, all with |path| = k *)
Lemma fold_upd_spec root k : forall (level : list walker) ds,
  (forall w, In w level -> length (fst w) = k) ->
  let ds' := fold_left (upd_depth root) level ds in
  length ds' = length ds /\
  forall i,
    ((i = root \/ (length ds <= i)%nat \/ ~ (exists w, In w level /\ snd w = i)) -> nth i ds' 0%nat = nth i ds 0%nat) /\
    (i <> root -> (i < length ds)%nat -> (exists w, In w level /\ snd w = i) -> nth i ds' 0%nat = newdepth k (nth i ds 0%nat)).
Proof.
  induction level as [|[p h] level IH]; intros ds Hk; cbn [fold_left].
  - split; [reflexivity|]. intros i. split; [reflexivity|]. intros _ _ (w & [] & _).
  - assert (Hk' : forall w, In w level -> length (fst w) = k) by (intros w Hw; apply Hk; right; exact Hw).
    assert (Hp : length p = k) by (apply (Hk (p, h)); left; reflexivity).
    destruct (IH (upd_depth root ds (p, h)) Hk') as [Hlen IHi]. rewrite upd_depth_length in Hlen.
    split; [exact Hlen|]. intros i. destruct (IHi i) as [IHa IHb]. rewrite upd_depth_length in IHa, IHb.
    pose proof (upd_depth_nth root ds p h i) as Hn. rewrite Hp in Hn.
    split.
    + intros Hc. rewrite IHa.
      * rewrite Hn. destruct (Nat.eqb_spec i h) as [->|Hih]; [|reflexivity].
        destruct (Nat.eqb_spec h root) as [E|E]; [reflexivity|]. cbn [negb andb].
        destruct (Nat.ltb_spec h (length ds)) as [Hlt|Hge]; [|reflexivity].
        exfalso. destruct Hc as [Hc|[Hc|Hc]]; [congruence|lia|]. apply Hc. exists (p, h). split; [left; reflexivity|reflexivity].
      * destruct Hc as [Hc|[Hc|Hc]]; [left; exact Hc|right; left; exact Hc|].
        right. right. intros (w & Hw & Hs). apply Hc. exists w. split; [right; exact Hw|exact Hs].
    + intros Hir Hlt Hex.
      destruct (existsb (fun w : walker => Nat.eqb (snd w) i) level) eqn:Ex.
      * apply existsb_exists in Ex. destruct Ex as (w & Hw & Hs). apply Nat.eqb_eq in Hs.
        rewrite IHb; [|exact Hir|exact Hlt|exists w; split; assumption].
        rewrite Hn. destruct (Nat.eqb_spec i h) as [->|Hih]; [|reflexivity].
        destruct (Nat.eqb_spec h root) as [E|E]; [congruence|]. cbn [negb andb].
        destruct (Nat.ltb_spec h (length ds)) as [_|Hge]; [apply newdepth_idem|lia].
      * assert (Hno : ~ (exists w, In w level /\ snd w = i)).
        { intros (w & Hw & Hs). assert (T : existsb (fun w : walker => Nat.eqb (snd w) i) level = true).
          { apply existsb_exists. exists w. split; [exact Hw|apply Nat.eqb_eq; exact Hs]. } congruence. }
        rewrite IHa by (right; right; exact Hno).
        destruct Hex as (w & [<-|Hw] & Hs); [|exfalso; apply Hno; exists w; split; assumption].
        cbn [snd] in Hs. subst h. rewrite Hn. rewrite Nat.eqb_refl.
        destruct (Nat.eqb_spec i root) as [E|E]; [congruence|]. cbn [negb andb].
        destruct (Nat.ltb_spec i (length ds)) as [_|Hge]; [reflexivity|lia].
Qed.

(* the k-th generation of walkers = all walks with k edges from the root *)
Definition wlevel_ok {C} (es : list (edge C)) (root k : nat) (level : list walker) : Prop :=
  forall w, In w level <-> exists l, w = (rev l, last l root) /\ fwalk es root l /\ length l = k.

Lemma wlevel_ok_0 {C} (es : list (edge C)) root : wlevel_ok es root 0 [([], root)].
Proof.
  intros w. split.
  - intros [<-|[]]. exists []. split; [reflexivity|]. split; [exact I|reflexivity].
  - intros (l & -> & _ & Hl). destruct l; [left; reflexivity|discriminate].
Qed.

Lemma wlevel_ok_step {C} (es : list (edge C)) root k level :
  wlevel_ok es root k level -> wlevel_ok es root (S k) (flat_map (expand es) level).
Proof.
  intros HL w'. rewrite in_flat_map. split.
  - intros (w & Hw & Hex). apply HL in Hw. destruct Hw as (l & -> & Hwalk & Hk).
    apply in_expand in Hex. cbn [fst snd] in Hex. destruct Hex as (v & Hv & ->).
    exists (l ++ [v]). split; [|split].
    + rewrite rev_app_distr, last_app. reflexivity.
    + apply fwalk_app. split; [exact Hwalk|]. cbn [fwalk]. auto.
    + rewrite app_length. cbn [length]. lia.
  - intros (l' & -> & Hwalk & Hk). destruct (exists_last (l := l')) as (l & v & ->); [intros ->; discriminate|].
    apply fwalk_app in Hwalk. destruct Hwalk as [Hwalk [Hv _]]. rewrite app_length in Hk. cbn [length] in Hk.
    exists (rev l, last l root). split.
    + apply HL. exists l. split; [reflexivity|]. split; [exact Hwalk|lia].
    + apply in_expand. cbn [fst snd]. exists v. split; [exact Hv|]. rewrite rev_app_distr, last_app. reflexivity.
Qed.

Lemma fwalk_firstn {C} (es : list (edge C)) root l k : fwalk es root l -> fwalk es root (firstn k l).
Proof.
  intros H. rewrite <- (firstn_skipn k l) in H. apply fwalk_app in H. exact (proj1 H).
Qed.

(* what is known about the depths before generation k is processed / at the end *)
Definition depths_upto {C} (es : list (edge C)) (root k : nat) (ds : list nat) : Prop :=
  nth root ds 0%nat = 0%nat /\
  forall i, i <> root -> (i < length ds)%nat ->
    (nth i ds 0%nat = 0%nat /\ forall l, fwalk es root l -> last l root = i -> (k <= length l)%nat)
    \/ (exists l, fwalk es root l /\ last l root = i /\ length l = nth i ds 0%nat /\ (length l < k)%nat /\ minimal_to es root i 0 l).

Definition depths_final {C} (es : list (edge C)) (root : nat) (ds : list nat) : Prop :=
  nth root ds 0%nat = 0%nat /\
  forall i, i <> root -> (i < length ds)%nat ->
    (nth i ds 0%nat = 0%nat /\ forall l, fwalk es root l -> last l root <> i)
    \/ (exists l, fwalk es root l /\ last l root = i /\ length l = nth i ds 0%nat /\ minimal_to es root i 0 l).

Lemma depths_upto_step {C} (es : list (edge C)) root k level ds :
  wlevel_ok es root k level -> depths_upto es root k ds ->
  depths_upto es root (S k) (fold_left (upd_depth root) level ds).
Proof.
  intros HL [Hroot Hall].
  assert (Hk : forall w, In w level -> length (fst w) = k).
  { intros w Hw. apply HL in Hw. destruct Hw as (l & -> & _ & Hl). cbn [fst]. rewrite rev_length. exact Hl. }
  destruct (fold_upd_spec root k level ds Hk) as [Hlen Hi]. split.
  - rewrite (proj1 (Hi root)) by (left; reflexivity). exact Hroot.
  - intros i Hir Hlt. rewrite Hlen in Hlt. destruct (Hi i) as [Ha Hb].
    destruct (existsb (fun w : walker => Nat.eqb (snd w) i) level) eqn:Ex.
    + apply existsb_exists in Ex. destruct Ex as (w & Hw & Hs). apply Nat.eqb_eq in Hs.
      rewrite Hb; [|exact Hir|exact Hlt|exists w; split; assumption].
      apply HL in Hw. destruct Hw as (l0 & -> & Hw0 & Hl0). cbn [snd] in Hs.
      destruct (Hall i Hir Hlt) as [[Hz Hmin]|(l & Hw & Hl & Hd & Hlk & Hmin)].
      * right. exists l0. rewrite Hz. unfold newdepth. cbn [Nat.eqb].
        split; [exact Hw0|]. split; [exact Hs|]. split; [exact Hl0|]. split; [lia|].
        intros l' Hw' Hl' _. rewrite Hl0. apply Hmin; assumption.
      * right. exists l. rewrite <- Hd. unfold newdepth.
        assert (Hne : length l <> 0%nat) by (destruct l; [cbn in Hl; congruence|discriminate]).
        destruct (Nat.eqb_spec (length l) 0); [contradiction|].
        split; [exact Hw|]. split; [exact Hl|]. split; [lia|]. split; [lia|exact Hmin].
    + assert (Hno : ~ (exists w, In w level /\ snd w = i)).
      { intros (w & Hw & Hs). assert (T : existsb (fun w : walker => Nat.eqb (snd w) i) level = true).
        { apply existsb_exists. exists w. split; [exact Hw|apply Nat.eqb_eq; exact Hs]. } congruence. }
      rewrite Ha by (right; right; exact Hno).
      destruct (Hall i Hir Hlt) as [[Hz Hmin]|(l & Hw & Hl & Hd & Hlk & Hmin)].
      * left. split; [exact Hz|]. intros l Hw Hl. pose proof (Hmin l Hw Hl) as Hge.
        destruct (Nat.eq_dec (length l) k) as [E|E]; [|lia]. exfalso. apply Hno.
        exists (rev l, last l root). split; [|exact Hl]. apply HL. exists l. auto.
      * right. exists l. split; [exact Hw|]. split; [exact Hl|]. split; [exact Hd|]. split; [lia|exact Hmin].
Qed.

Lemma walk_depths {C} (es : list (edge C)) root : forall fuel level ds k ds',
  wlevel_ok es root k level -> depths_upto es root k ds ->
  walk fuel es root level ds = Ok ds' -> length ds' = length ds /\ depths_final es root ds'.
Proof.
  induction fuel as [|f IH]; intros level ds k ds' HL HD.
  - destruct level as [|w lv]; [|discriminate]. intros [= <-]. split; [reflexivity|].
    destruct HD as [Hroot Hall]. split; [exact Hroot|]. intros i Hir Hlt.
    destruct (Hall i Hir Hlt) as [[Hz Hmin]|(l & Hw & Hl & Hd & _ & Hm)]; [left|right; exists l; auto].
    split; [exact Hz|]. intros l Hw Hl. pose proof (Hmin l Hw Hl) as Hge.
    assert (Hin : In (rev (firstn k l), last (firstn k l) root) (@nil walker)).
    { apply HL. exists (firstn k l). split; [reflexivity|]. split; [apply fwalk_firstn; exact Hw|apply firstn_length_le; exact Hge]. }
    destruct Hin.
  - destruct level as [|w lv] eqn:EL.
    + intros [= <-]. split; [reflexivity|].
      destruct HD as [Hroot Hall]. split; [exact Hroot|]. intros i Hir Hlt.
      destruct (Hall i Hir Hlt) as [[Hz Hmin]|(l & Hw & Hl & Hd & _ & Hm)]; [left|right; exists l; auto].
      split; [exact Hz|]. intros l Hw Hl. pose proof (Hmin l Hw Hl) as Hge.
      assert (Hin : In (rev (firstn k l), last (firstn k l) root) (@nil walker)).
      { apply HL. exists (firstn k l). split; [reflexivity|]. split; [apply fwalk_firstn; exact Hw|apply firstn_length_le; exact Hge]. }
      destruct Hin.
    + rewrite <- EL in *. rewrite walk_S by (rewrite EL; discriminate).
      destruct (existsb (loops es) level); [discriminate|]. intros H.
      destruct (IH _ _ (S k) ds' (wlevel_ok_step es root k level HL) (depths_upto_step es root k level ds HL HD) H) as [Hlen Hfin].
      split; [|exact Hfin]. rewrite Hlen.
      assert (Hk : forall w, In w level -> length (fst w) = k).
      { intros w0 Hw0. apply HL in Hw0. destruct Hw0 as (l & -> & _ & Hl). cbn [fst]. rewrite rev_length. exact Hl. }
      exact (proj1 (fold_upd_spec root k level ds Hk)).
Qed.

Lemma depths_upto_0 {C} (es : list (edge C)) root n : depths_upto es root 0 (repeat 0%nat n).
Proof.
  assert (Hn : forall i, nth i (repeat 0%nat n) 0%nat = 0%nat) by (intros i; apply nth_repeat).
  split; [apply Hn|]. intros i _ _. left. split; [apply Hn|]. intros; lia.
Qed.

(* the statement about resolve *)
Theorem depth_spec {C M} (lr : C -> res M) (d : list (file C)) g :
  resolve lr d = Ok g ->
  length (g_depths g) = length (g_nodes g) /\
  nth (g_root g) (g_depths g) 0%nat = 0%nat /\
  forall i, i <> g_root g -> (i < length (g_nodes g))%nat ->
    (nth i (g_depths g) 0%nat = 0%nat /\ forall l, fwalk (g_edges g) (g_root g) l -> last l (g_root g) <> i)
    \/ (exists l, fwalk (g_edges g) (g_root g) l /\ last l (g_root g) = i
                  /\ length l = nth i (g_depths g) 0%nat /\ minimal_to (g_edges g) (g_root g) i 0 l).
Proof.
  intros H. destruct (resolve_ok lr d g H) as (st & f & _ & _ & _ & _ & En & Ee & W).
  destruct (walk_depths (sc_edges st) (g_root g) _ _ _ 0 _ (wlevel_ok_0 _ _) (depths_upto_0 _ _ _) W) as [Hlen [Hroot Hall]].
  rewrite repeat_length in Hlen. rewrite En, Ee. split; [exact Hlen|]. split; [exact Hroot|].
  intros i Hir Hlt. apply Hall; [exact Hir|rewrite Hlen; exact Hlt].
Qed.

(* ... hence: the depth of a version is the number of diffs apply_diffs folds for it *)
Corollary depth_is_path_length {C M} (lr : C -> res M) (d : list (file C)) g i path :
  resolve lr d = Ok g -> (i < length (g_nodes g))%nat -> In path (shortest_paths g i) ->
  length path = S (nth i (g_depths g) 0%nat).
Proof.
  intros H Hlt Hp. apply shortest_paths_spec in Hp. destruct Hp as (l & -> & Hw & Hl & _ & Hmin).
  cbn [length]. f_equal. destruct (depth_spec lr d g H) as (_ & Hroot & Hall).
  destruct (Nat.eq_dec i (g_root g)) as [->|Hir].
  - rewrite Hroot. pose proof (Hmin [] I eq_refl (Nat.le_0_l _)) as Hle. cbn [length] in Hle. lia.
  - destruct (Hall i Hir Hlt) as [[_ Hno]|(l0 & Hw0 & Hl0 & Hd0 & Hmin0)]; [exfalso; apply (Hno l Hw Hl)|].
    pose proof (Hmin l0 Hw0 Hl0 (Nat.le_0_l _)). pose proof (Hmin0 l Hw Hl (Nat.le_0_l _)). lia.
Qed.

(* every index resolve hands out is a node: root, edge ends, lookups *)
Theorem indices_valid {C M} (lr : C -> res M) (d : list (file C)) g :
  resolve lr d = Ok g ->
  (g_root g < length (g_nodes g))%nat
  /\ (forall e, In e (g_edges g) -> (e_src e < length (g_nodes g))%nat /\ (e_dst e < length (g_nodes g))%nat)
  /\ (forall k sp i, get g k = Ok (sp, i) -> (i < length (g_nodes g))%nat)
  /\ (forall l, fwalk (g_edges g) (g_root g) l -> forall x, In x l -> (x < length (g_nodes g))%nat).
Proof.
  intros H. destruct (resolve_ok lr d g H) as (st & f & Hscan & Hr & _ & Et & En & Ee & _).
  destruct (scan_dir_bounded d scan0 st scan0_bounded Hscan) as (Hb & He & Hrt). rewrite En, Ee.
  split; [apply (Hrt _ f Hr)|]. split; [exact He|]. split.
  - intros k sp i. unfold get. rewrite Et. destruct (tbl_get k (sc_tbl st)) as [[sp' i']|] eqn:G; [|discriminate].
    intros [= <- <-]. apply (Hb k sp' i' G).
  - intros l. generalize (g_root g). induction l as [|v l IH]; intros h Hw x Hx; [destruct Hx|].
    destruct Hw as [Hv Hw]. destruct Hx as [<-|Hx]; [|apply (IH v Hw x Hx)].
    apply in_succs in Hv. destruct Hv as (e & Hin & _ & <-). apply (He e Hin).
Qed.

(* ====================================================================================== *)
(* 3. resolve fails exactly on the malformed directories                                  *)
(* ====================================================================================== *)
Lemma dup_split (l : list nat) : ~ NoDup l -> exists a x b c, l = a ++ x :: b ++ x :: c.
Proof.
  induction l as [|y l IH]; intros H; [exfalso; apply H; constructor|].
  destruct (in_dec Nat.eq_dec y l) as [Hin|Hnin].
  - destruct (in_split y l Hin) as (b & c & ->). exists [], y, b, c. reflexivity.
  - destruct IH as (a & x & b & c & ->); [intros ND; apply H; constructor; assumption|].
    exists (y :: a), x, b, c. reflexivity.
Qed.

Lemma pigeonhole (l : list nat) n : (forall x, In x l -> (x < n)%nat) -> (n < length l)%nat ->
  exists a x b c, l = a ++ x :: b ++ x :: c.
Proof.
  intros Hb Hlen. apply dup_split. intros ND.
  assert (Hincl : incl l (seq 0 n)) by (intros x Hx; apply in_seq; specialize (Hb x Hx); lia).
  pose proof (NoDup_incl_length ND Hincl) as Hle. rewrite seq_length in Hle. lia.
Qed.

Definition reachable_cycle {C} (es : list (edge C)) (root : nat) : Prop :=
  exists l c, fwalk es root l /\ c <> [] /\ fwalk es (last l root) c /\ last c (last l root) = last l root.

Lemma fwalk_dst_bounded {C} (es : list (edge C)) n : (forall e, In e es -> (e_dst e < n)%nat) ->
  forall l h, fwalk es h l -> forall x, In x l -> (x < n)%nat.
Proof.
  intros He. induction l as [|v l IH]; intros h Hw x Hx; [destruct Hx|].
  destruct Hw as [Hv Hw]. destruct Hx as [<-|Hx]; [|apply (IH v Hw x Hx)].
  apply in_succs in Hv. destruct Hv as (e & Hin & _ & <-). apply (He e Hin).
Qed.

Lemma last_snoc {A} (l : list A) x d : last (l ++ [x]) d = x.
Proof. rewrite last_app. reflexivity. Qed.

(* a walk with at least as many edges as there are nodes runs through some node twice *)
Lemma long_walk_cycle {C} (es : list (edge C)) root n l :
  (forall e, In e es -> (e_dst e < n)%nat) -> (root < n)%nat -> fwalk es root l -> (n <= length l)%nat ->
  reachable_cycle es root.
Proof.
  intros He Hr Hw Hlen.
  destruct (pigeonhole (root :: l) n) as (a & x & b & c & E).
  { intros y [<-|Hy]; [exact Hr|apply (fwalk_dst_bounded es n He l root Hw y Hy)]. }
  { cbn [length]. lia. }
  destruct a as [|r a].
  - cbn [app] in E. injection E as <- ->.
    assert (E2 : b ++ root :: c = (b ++ [root]) ++ c) by (rewrite <- app_assoc; reflexivity).
    rewrite E2 in Hw. apply fwalk_app in Hw. destruct Hw as [Hc _].
    exists [], (b ++ [root]). cbn [last]. split; [exact I|]. split; [destruct b; discriminate|]. split; [exact Hc|apply last_snoc].
  - cbn [app] in E. injection E as <- ->.
    assert (E2 : a ++ x :: b ++ x :: c = (a ++ [x]) ++ (b ++ [x]) ++ c) by (rewrite <- !app_assoc; reflexivity).
    rewrite E2 in Hw. apply fwalk_app in Hw. destruct Hw as [H1 H2]. apply fwalk_app in H2. destruct H2 as [H2 _].
    rewrite last_snoc in H2.
    exists (a ++ [x]), (b ++ [x]). rewrite !last_snoc. split; [exact H1|]. split; [destruct b; discriminate|]. split; [exact H2|reflexivity].
Qed.

Theorem walk_err_iff_cycle {C} (es : list (edge C)) root n ds :
  (forall e, In e es -> (e_dst e < n)%nat) -> (root < n)%nat ->
  walk (S n) es root [([], root)] ds = Err <-> reachable_cycle es root.
Proof.
  intros He Hr. rewrite walk_err_iff. split.
  - intros (l & Hw & Hlen). apply (long_walk_cycle es root n l He Hr Hw). lia.
  - intros (l & c & Hl & Hc & Hw & Hlast).
    destruct (fwalk_pump es (last l root) c (S n) Hw Hlast) as [P _].
    exists (l ++ concat (repeat c (S n))). split; [apply fwalk_app; split; assumption|].
    rewrite app_length. pose proof (concat_repeat_length c (S n) Hc). lia.
Qed.

(* the number of root files decides what the scan records *)
Lemma scan_dir_root_count {C} (d : list (file C)) : forall (st st' : scan C),
  scan_dir st d = Ok st' -> root_count st' = (root_count st + tiny_count d)%nat.
Proof.
  induction d as [|f d IH]; intros st st'; cbn [scan_dir].
  - intros [= <-]. unfold tiny_count. cbn. lia.
  - destruct (scan_step st f) as [s1|] eqn:E; [|discriminate]. intros H. rewrite (IH s1 st' H).
    unfold tiny_count. cbn [filter]. destruct (scan_step_root st s1 f E) as [Ht Hf].
    destruct (is_tiny_name (fst f)) eqn:T.
    + destruct (Ht eq_refl) as [Hn (v & Hv)]. unfold root_count. rewrite Hn, Hv. cbn [length]. lia.
    + unfold root_count. rewrite (Hf eq_refl). lia.
Qed.

Lemma scan_dir_root_file {C} (d : list (file C)) : forall (st st' : scan C) r f,
  scan_dir st d = Ok st' -> sc_root st' = Some (r, f) ->
  sc_root st = Some (r, f) \/ (In f d /\ is_tiny_name (fst f) = true).
Proof.
  induction d as [|x d IH]; intros st st' r f; cbn [scan_dir].
  - intros [= <-] H. left. exact H.
  - destruct (scan_step st x) as [s1|] eqn:E; [|discriminate]. intros H Hr.
    destruct (IH s1 st' r f H Hr) as [H1|[H1 H2]]; [|right; split; [right; exact H1|exact H2]].
    destruct (scan_step_root st s1 x E) as [Ht Hf]. destruct (is_tiny_name (fst x)) eqn:T.
    + destruct (Ht eq_refl) as [_ (v & Hv)]. rewrite Hv in H1. injection H1 as <- <-. right. split; [left; reflexivity|exact T].
    + rewrite (Hf eq_refl) in H1. left. exact H1.
Qed.

(* EVERY directory: resolve fails iff a `.tinydiff` name has no `#`, or the number of `.tiny` files is
   not one, or the root file does not load, or the graph the scan built has a cycle that can be
   reached from the root *)
Theorem resolve_err_iff {C M} (lr : C -> res M) (d : list (file C)) :
  resolve lr d = Err <->
  has_bad d = true \/ tiny_count d <> 1%nat \/
  exists st r f, scan_dir scan0 d = Ok st /\ sc_root st = Some (r, f) /\ In f d /\ is_tiny_name (fst f) = true
    /\ (lr (snd f) = Err \/ reachable_cycle (sc_edges st) r).
Proof.
  unfold resolve. destruct (scan_dir scan0 d) as [st|] eqn:Sc.
  2:{ split; [intros _|reflexivity]. apply scan_dir_err_iff in Sc. unfold root_count in Sc. cbn [scan0 sc_root] in Sc.
      destruct Sc as [Sc|Sc]; [left; exact Sc|right; left; lia]. }
  assert (Hnb : has_bad d = false).
  { destruct (has_bad d) eqn:B; [|reflexivity]. exfalso.
    assert (E : scan_dir scan0 d = Err) by (apply scan_dir_err_iff; left; exact B). congruence. }
  pose proof (scan_dir_root_count d scan0 st Sc) as Hcnt. unfold root_count at 2 in Hcnt. cbn [scan0 sc_root] in Hcnt.
  assert (Hle : (tiny_count d <= 1)%nat).
  { destruct (Nat.le_gt_cases (tiny_count d) 1) as [Hle|Hgt]; [exact Hle|]. exfalso.
    assert (E : scan_dir scan0 d = Err) by (apply scan_dir_err_iff; right; unfold root_count; cbn [scan0 sc_root]; lia). congruence. }
  destruct (scan_dir_bounded d scan0 st scan0_bounded Sc) as (_ & He & Hrt).
  destruct (sc_root st) as [[r f]|] eqn:R.
  - unfold root_count in Hcnt. rewrite R in Hcnt.
    destruct (scan_dir_root_file d scan0 st r f Sc R) as [H0|[Hf Ht]]; [discriminate|].
    assert (Hcyc : walk (S (length (sc_nodes st))) (sc_edges st) r [([], r)] (repeat 0%nat (length (sc_nodes st))) = Err
                   <-> reachable_cycle (sc_edges st) r).
    { apply walk_err_iff_cycle; [intros e Hin; apply (He e Hin)|apply (Hrt r f eq_refl)]. }
    destruct (lr (snd f)) as [m|] eqn:L.
    + destruct (walk _ _ _ _ _) as [ds|] eqn:W.
      * split; [discriminate|]. intros [H|[H|(st' & r' & f' & [= <-] & R' & _ & _ & [H|H])]]; [congruence|lia| |].
        -- rewrite R in R'. injection R' as <- <-. congruence.
        -- rewrite R in R'. injection R' as <- <-. apply Hcyc in H. discriminate.
      * split; [intros _|reflexivity]. right. right. exists st, r, f.
        split; [reflexivity|]. split; [exact R|]. split; [exact Hf|]. split; [exact Ht|]. right. apply Hcyc. reflexivity.
    + split; [intros _|reflexivity]. right. right. exists st, r, f.
      split; [reflexivity|]. split; [exact R|]. split; [exact Hf|]. split; [exact Ht|]. left. exact L.
  - unfold root_count in Hcnt. rewrite R in Hcnt. split; [intros _|reflexivity]. right. left. lia.
Qed.

(* ====================================================================================== *)
(* 4. the accessors                                                                       *)
(* ====================================================================================== *)
Theorem get_all_spec {C M} (g : graph C M) (names : list str) :
  (forall l, get_all g names = Ok l <-> Forall2 (fun k x => get g k = Ok x) names l)
  /\ (get_all g names = Err <-> exists k, In k names /\ get g k = Err).
Proof.
  induction names as [|k names [IH1 IH2]]; cbn [get_all].
  - split.
    + intros l. split; [intros [= <-]; constructor|intros H; inversion H; reflexivity].
    + split; [discriminate|intros (k & [] & _)].
  - destruct (get g k) as [x|] eqn:G.
    + destruct (get_all g names) as [l0|] eqn:GA.
      * split.
        -- intros l. split.
           ++ intros [= <-]. constructor; [exact G|]. apply IH1. reflexivity.
           ++ intros H. inversion H as [|? y ? l1 Hy Hrest]; subst. apply IH1 in Hrest. congruence.
        -- split; [discriminate|]. intros (k' & [<-|Hin] & Hk'); [congruence|].
           assert (E : @Ok (list (vsplit * nat)) l0 = Err) by (apply (proj2 IH2); exists k'; split; assumption).
           discriminate.
      * split.
        -- intros l. split; [discriminate|]. intros H. inversion H as [|? y ? l1 Hy Hrest]; subst. apply IH1 in Hrest. discriminate.
        -- split; [intros _|reflexivity]. destruct (proj1 IH2 eq_refl) as (k' & Hin & Hk'). exists k'. split; [right; exact Hin|exact Hk'].
    + split.
      * intros l. split; [discriminate|]. intros H. inversion H as [|? y ? l1 Hy Hrest]; subst. congruence.
      * split; [intros _|reflexivity]. exists k. split; [left; reflexivity|exact G].
Qed.

(* the diff apply_diffs applies for the step a -> b is the one get_diff reports *)
Theorem step_get_diff {C M D} (o : ops C M D) (g : graph C M) a b m :
  step o (g_edges g) a b m = match get_diff o g a b with Ok (Some dd) => apply o dd m | _ => Err end.
Proof.
  unfold step, get_diff. destruct (find_edge (g_edges g) a b) as [e|]; [|reflexivity].
  destruct (parse_diff o (snd (e_file e))); reflexivity.
Qed.

(* get_diff finds something exactly for the edges of the graph *)
Theorem get_diff_none_iff {C M D} (o : ops C M D) (g : graph C M) a b :
  get_diff o g a b = Ok None <-> ~ In b (succs (g_edges g) a).
Proof.
  unfold get_diff, find_edge, succs. destruct (find _ (out_edges (g_edges g) a)) as [e|] eqn:F.
  - split.
    + destruct (parse_diff o (snd (e_file e))); discriminate.
    + intros H. exfalso. apply H. apply find_some in F. destruct F as [Hin Hd]. apply Nat.eqb_eq in Hd.
      apply in_map_iff. exists e. split; assumption.
  - split; [intros _|reflexivity]. intros Hin. apply in_map_iff in Hin. destruct Hin as (e & Hd & Hin).
    pose proof (find_none _ _ F e Hin) as Hn. cbn beta in Hn. rewrite Hd, Nat.eqb_refl in Hn. discriminate.
Qed.

(* ====================================================================================== *)
(* 5. the same on the file names, for well-formed directories                             *)
(* ====================================================================================== *)
(* resolve fails iff: a `.tinydiff` name without `#`, or not exactly one `.tiny` file, or the root file does
   not load, or the versions named by the `.tinydiff` files contain a cycle that can be reached from the root *)
Theorem malformed_iff {C M} (lr : C -> res M) (d : list (file C)) :
  well_formed d = true ->
  (resolve lr d = Err <->
   has_bad d = true \/ tiny_count d <> 1%nat \/
   exists f vr, In f d /\ classify (fst f) = FRoot vr /\
     (lr (snd f) = Err \/
      exists L Cy, nwalk d vr L /\ Cy <> [] /\ nwalk d (last L vr) Cy /\ last Cy (last L vr) = last L vr)).
Proof.
  intros Hwf. split.
  - intros H. apply resolve_err_iff in H. destruct H as [H|[H|(st & r & f & Sc & R & Hf & Ht & H)]]; [left; exact H|right; left; exact H|].
    right. right. pose proof (scan_wf d st Hwf Sc) as HS. pose proof (si_root _ _ _ HS) as Rt. rewrite R in Rt.
    destruct Rt as (_ & (vr & K & Hn) & _). exists f, vr. split; [exact Hf|]. split; [exact K|].
    destruct H as [H|(l & c & Hl & Hc & Hw & Hlast)]; [left; exact H|right].
    destruct (fwalk_nwalk _ d st HS l r vr Hn Hl) as (L & HnL & HL).
    pose proof (named_last _ _ _ r vr HnL Hn) as Hlast_n.
    destruct (fwalk_nwalk _ d st HS c (last l r) (last L vr) Hlast_n Hw) as (Cy & HnC & HC).
    exists L, Cy. split; [exact HL|]. split.
    + intros ->. apply named_length in HnC. destruct c; [congruence|discriminate].
    + split; [exact HC|]. pose proof (named_last _ _ _ (last l r) (last L vr) HnC Hlast_n) as E.
      rewrite Hlast in E. congruence.
  - intros [H|[H|(f & vr & Hf & K & [H|(L & Cy & HL & Hne & HC & Hlast)])]].
    + apply resolve_err_iff. left. exact H.
    + apply resolve_err_iff. right. left. exact H.
    + destruct (resolve lr d) as [g|] eqn:Hres; [exfalso|reflexivity].
      destruct (root_of_dir lr d g Hwf Hres) as (st & f0 & vr0 & _ & _ & _ & _ & _ & Hl & Hu & _).
      assert (f = f0) by (apply Hu; [exact Hf|apply is_tiny_classify; exists vr; exact K]). subst f0. congruence.
    + apply (cycle_err lr d f vr L Cy Hwf Hf K HL Hne HC Hlast).
Qed.

(* ====================================================================================== *)
(* 6. non-vacuity                                                                         *)
(* ====================================================================================== *)
From FB Require Import C05.Example.

(* root r with children a and b, and the cycle a -> b -> a: entered from outside at both of its members *)
Definition cyclic2 : list (file N) :=
  [([114;46;116;105;110;121], 0%N); ([114;35;97;46;116;105;110;121;100;105;102;102], 1%N); ([114;35;98;46;116;105;110;121;100;105;102;102], 2%N);
   ([97;35;98;46;116;105;110;121;100;105;102;102], 3%N); ([98;35;97;46;116;105;110;121;100;105;102;102], 4%N)].

Definition nonvacuous8 : Prop :=
  (* depths: the diamond r -> a, r -> b, a -> c, b -> c and the repository's fixture *)
  (exists g, resolve (load_root toy) diamond = Ok g /\ g_depths g = [0; 1; 1; 2]%nat /\ g_root g = 0%nat
             /\ map (@length nat) (shortest_paths g 3) = [3; 3]%nat)
  /\ (exists g, resolve (load_root toy) fixture = Ok g /\ g_depths g = [2; 1; 0; 1; 2]%nat /\ g_root g = 2%nat)
  (* malformed_iff: a well-formed directory with one root, no bad name, a readable root — and a cycle *)
  /\ well_formed cyclic2 = true /\ has_bad cyclic2 = false /\ tiny_count cyclic2 = 1%nat /\ resolve (load_root toy) cyclic2 = Err
  /\ (exists st, scan_dir scan0 cyclic2 = Ok st /\ sc_root st = Some (0%nat, ([114;46;116;105;110;121], 0%N))
                 /\ reachable_cycle (sc_edges st) 0)
  (* the accessors on the fixture *)
  /\ (exists g, resolve (load_root toy) fixture = Ok g
        /\ get_all g [s_1_5; s_1_4] = Ok [(SNone, 4%nat); (SFirst, 3%nat)]
        /\ get_all g [s_1_5; s_c] = Err
        /\ get_diff toy g 3 4 = Ok (Some 4%N) /\ get_diff toy g 4 3 = Ok None).

Lemma nonvacuous8_holds : nonvacuous8.
Proof.
  unfold nonvacuous8.
  split. { eexists. split; [vm_compute; reflexivity|]. split; [reflexivity|]. split; [reflexivity|]. vm_compute. reflexivity. }
  split. { eexists. split; [vm_compute; reflexivity|]. split; reflexivity. }
  split. { vm_compute. reflexivity. }
  split. { vm_compute. reflexivity. }
  split. { vm_compute. reflexivity. }
  split. { vm_compute. reflexivity. }
  split.
  { eexists. split; [vm_compute; reflexivity|]. split; [reflexivity|].
    exists [1%nat], [2%nat; 1%nat]. cbn [sc_edges last].
    split; [cbn; auto|]. split; [discriminate|]. split; [cbn; auto|reflexivity]. }
  eexists. split; [vm_compute; reflexivity|].
  split; [vm_compute; reflexivity|]. split; [vm_compute; reflexivity|]. split; vm_compute; reflexivity.
Qed.
