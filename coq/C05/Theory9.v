(* C05 — the root file: what is written is the EXTENDED root set; C03's hypothesis [textual] on it follows
   from [textual] of the contracted set (extended names are `$`-joins of names that are textual already) *)
From FB Require Import Base.Str Quill.Mappings.
From FB Require C03.Model C11.Model C05.Instance.
From FB Require Import C18.Model.
From Coq Require Import Lia Bool Arith.PeanoNat List.
Import ListNotations.

Module X03 := FB.C03.Model.
Module X11 := FB.C11.Model.

(* ---------- strings ---------- *)
Lemma ends_cr_app_cons (a : str) x b : X03.ends_cr (a ++ x :: b) = X03.ends_cr (x :: b).
Proof.
  induction a as [|y a IH]; [reflexivity|].
  cbn [app]. destruct (a ++ x :: b) as [|z r] eqn:E.
  - destruct a; discriminate.
  - cbn [X03.ends_cr]. cbn [X03.ends_cr] in IH. exact IH.
Qed.

Lemma ends_cr_cons_nonnil x (b : str) : b <> [] -> X03.ends_cr (x :: b) = X03.ends_cr b.
Proof. destruct b; [congruence|reflexivity]. Qed.

Lemma cell_ok_join r m : X03.cell_ok r = true -> X03.cell_ok m = true -> X03.cell_ok (join_inner r m) = true.
Proof.
  unfold X03.cell_ok, join_inner. rewrite !andb_true_iff, !negb_true_iff. intros [Hr _] [Hm Hc]. split.
  - unfold X03.no_tab_lf in *. rewrite forallb_app. cbn [forallb]. rewrite Hr, Hm. reflexivity.
  - rewrite ends_cr_app_cons. destruct m as [|y m]; [reflexivity|]. rewrite ends_cr_cons_nonnil by discriminate. exact Hc.
Qed.

Lemma scalar_only_join r m : X03.scalar_only r = true -> X03.scalar_only m = true -> X03.scalar_only (join_inner r m) = true.
Proof.
  unfold X03.scalar_only, join_inner. intros Hr Hm. rewrite forallb_app. cbn [forallb]. rewrite Hr, Hm. reflexivity.
Qed.

(* split_on over a concatenation whose second part starts with a character that is not the separator *)
Lemma split_on_nonnil c s : split_on c s <> [].
Proof.
  induction s as [|x s IH]; [discriminate|]. cbn [split_on]. destruct (N.eqb x c); [discriminate|].
  destruct (split_on c s); discriminate.
Qed.

Lemma split_on_cons_other c x s : N.eqb x c = false ->
  split_on c (x :: s) = (x :: hd [] (split_on c s)) :: tl (split_on c s).
Proof.
  intros H. cbn [split_on]. rewrite H. destruct (split_on c s) as [|p ps] eqn:E; [exfalso; apply (split_on_nonnil c s E)|reflexivity].
Qed.

(* the parts of a concatenation: the last part of [a] and the first part of [b] are glued *)
Lemma split_on_app c (a b : str) :
  split_on c (a ++ b) =
  removelast (split_on c a) ++ (last (split_on c a) [] ++ hd [] (split_on c b)) :: tl (split_on c b).
Proof.
  induction a as [|y a IH].
  - cbn [app split_on removelast last]. destruct (split_on c b) as [|q qs] eqn:E; [exfalso; apply (split_on_nonnil c b E)|reflexivity].
  - cbn [app]. cbn [split_on]. destruct (N.eqb y c).
    + rewrite IH. destruct (split_on c a) as [|p ps] eqn:Ea; [exfalso; apply (split_on_nonnil c a Ea)|]. reflexivity.
    + rewrite IH. destruct (split_on c a) as [|p ps] eqn:Ea; [exfalso; apply (split_on_nonnil c a Ea)|].
      destruct ps as [|q ps]; reflexivity.
Qed.

Lemma forallb_removelast_last {A} (P : A -> bool) (l : list A) d : l <> [] ->
  forallb P l = true -> forallb P (removelast l) = true /\ P (last l d) = true.
Proof.
  intros Hne H. rewrite (app_removelast_last d Hne) in H. rewrite forallb_app in H. cbn [forallb] in H.
  rewrite !andb_true_iff in H. tauto.
Qed.

Lemma unq_app p q : is_valid_unqualified_name p = true -> is_valid_unqualified_name q = true ->
  is_valid_unqualified_name (p ++ q) = true.
Proof.
  unfold is_valid_unqualified_name. rewrite !andb_true_iff. intros [Hp1 Hp2] [_ Hq2]. split.
  - destruct p; [discriminate|reflexivity].
  - rewrite forallb_app, Hp2, Hq2. reflexivity.
Qed.

Lemma valid_class_join r m : is_valid_obj_class_name r = true -> is_valid_obj_class_name m = true ->
  is_valid_obj_class_name (join_inner r m) = true.
Proof.
  unfold is_valid_obj_class_name, join_inner. rewrite !andb_true_iff, !negb_true_iff. intros [Hr1 Hr2] [_ Hm2]. split.
  - destruct r as [|x r]; [cbn in Hr2; discriminate|]. cbn [app starts_with] in *. exact Hr1.
  - rewrite split_on_app.
    assert (Hd : N.eqb cDOLLAR cSLASH = false) by reflexivity.
    rewrite (split_on_cons_other cSLASH cDOLLAR m Hd). cbn [hd tl].
    destruct (forallb_removelast_last is_valid_unqualified_name (split_on cSLASH r) [] (split_on_nonnil _ _) Hr2) as [Ha Hl].
    rewrite forallb_app. cbn [forallb]. rewrite Ha. cbn [andb].
    destruct (split_on cSLASH m) as [|q qs] eqn:Em; [exfalso; apply (split_on_nonnil _ _ Em)|].
    cbn [forallb hd tl] in *. apply andb_true_iff in Hm2. destruct Hm2 as [Hq Hqs]. rewrite Hqs, andb_true_r.
    apply unq_app; [exact Hl|]. change (cDOLLAR :: q) with ([cDOLLAR] ++ q). apply unq_app; [reflexivity|exact Hq].
Qed.

Lemma name_ok_join r m :
  X03.name_ok is_valid_obj_class_name r = true -> X03.name_ok is_valid_obj_class_name m = true ->
  X03.name_ok is_valid_obj_class_name (join_inner r m) = true.
Proof.
  unfold X03.name_ok. rewrite !andb_true_iff. intros [[R1 R2] R3] [[M1 M2] M3].
  split; [split|]; [apply cell_ok_join|apply scalar_only_join|apply valid_class_join]; assumption.
Qed.

(* ---------- map / extend ---------- *)
Lemma names_textual_nth valid (l : names) i b :
  X03.names_textual valid l = true -> nth_name l i = Some b -> X03.name_ok valid b = true.
Proof.
  unfold X03.names_textual, nth_name. intros H Hn.
  destruct (Nat.le_gt_cases (length l) i) as [Hge|Hlt]; [rewrite nth_overflow in Hn by exact Hge; discriminate|].
  pose proof (nth_In l None Hlt) as Hin. rewrite Hn in Hin.
  rewrite forallb_forall in H. apply (H _ Hin).
Qed.

Lemma names_textual_set_nth valid (l : names) : forall i r,
  X03.names_textual valid l = true -> X03.name_ok valid r = true -> X03.names_textual valid (X11.set_nth l i (Some r)) = true.
Proof.
  unfold X03.names_textual. induction l as [|y l IH]; intros [|i] r Hl Hr; cbn [X11.set_nth forallb] in *; try reflexivity.
  - apply andb_true_iff in Hl. destruct Hl as [_ Hl]. rewrite Hr, Hl. reflexivity.
  - apply andb_true_iff in Hl. destruct Hl as [Hy Hl]. rewrite Hy. cbn [andb]. apply IH; assumption.
Qed.

Definition classes_textual (cs : list class) : Prop :=
  forall c, In c cs -> X03.names_textual is_valid_obj_class_name (c_names c) = true.

Lemma map_name_ok cs ns : classes_textual cs -> forall fuel name mapped r,
  X03.name_ok is_valid_obj_class_name mapped = true ->
  X11.map_name fuel cs ns name mapped = Ok r -> X03.name_ok is_valid_obj_class_name r = true.
Proof.
  intros Hcs. induction fuel as [|f IH]; intros name mapped r Hm; cbn [X11.map_name].
  - destruct (split_inner name) as [[parent i]|]; [discriminate|]. intros [= <-]. exact Hm.
  - destruct (split_inner name) as [[parent i]|]; [|intros [= <-]; exact Hm].
    unfold X11.get_class_name, X11.find_class. destruct (find (X11.has_key parent) cs) as [c|] eqn:F; [|discriminate].
    destruct (nth_name (c_names c) ns) as [mp|] eqn:N; [|discriminate].
    destruct (X11.map_name f cs ns parent mp) as [result|] eqn:Mp; [|discriminate]. intros [= <-].
    apply find_some in F. destruct F as [Hin _].
    apply name_ok_join; [|exact Hm]. apply (IH parent mp result); [|exact Mp].
    apply (names_textual_nth _ _ ns mp (Hcs c Hin) N).
Qed.

Lemma extend_names_textual cs ns l l' : classes_textual cs ->
  X03.names_textual is_valid_obj_class_name l = true -> X11.extend_names cs ns l = Ok l' ->
  X03.names_textual is_valid_obj_class_name l' = true.
Proof.
  intros Hcs Hl. unfold X11.extend_names. destruct ns as [|ns]; [discriminate|].
  destruct l as [|head l0]; [discriminate|]. destruct l0 as [|x l1]; [discriminate|].
  destruct (nth_name (head :: x :: l1) (S ns)) as [b|] eqn:N; [|intros [= <-]; exact Hl].
  destruct head as [src|]; [|discriminate].
  destruct (X11.map_name (length src) cs (S ns) src b) as [r|] eqn:Mp; [|discriminate]. intros [= <-].
  apply (names_textual_set_nth is_valid_obj_class_name (Some src :: x :: l1) (S ns) r Hl).
  apply (map_name_ok cs (S ns) Hcs (length src) src b r); [|exact Mp]. apply (names_textual_nth _ _ (S ns) b Hl N).
Qed.

Lemma mapM_forallb {A B} (f : A -> res B) (P : A -> bool) (Q : B -> bool) :
  (forall x y, P x = true -> f x = Ok y -> Q y = true) ->
  forall l l', forallb P l = true -> X11.mapM f l = Ok l' -> forallb Q l' = true.
Proof.
  intros Hf. induction l as [|x l IH]; intros l' Hl; cbn [X11.mapM].
  - intros [= <-]. reflexivity.
  - cbn [forallb] in Hl. apply andb_true_iff in Hl. destruct Hl as [Hx Hl].
    destruct (f x) as [y|] eqn:Fx; [|discriminate]. destruct (X11.mapM f l) as [ys|] eqn:Ml; [|discriminate].
    intros [= <-]. cbn [forallb]. rewrite (Hf x y Hx Fx), (IH ys Hl eq_refl). reflexivity.
Qed.

(* C03's [textual] survives the extension of inner class names, for every namespace *)
Theorem textual_extend (M : mappings) (name : str) e :
  X03.textual M = true -> X11.extend M name = Ok e -> X03.textual e = true.
Proof.
  unfold X03.textual, X11.extend, X11.extend_idx. rewrite andb_true_iff. intros [Hns Hcl].
  destruct (X11.ns_index (ms_ns M) name) as [ns|]; [|discriminate].
  destruct (X11.mapM (X11.extend_class (ms_classes M) ns) (ms_classes M)) as [cs|] eqn:Mm; [|discriminate].
  intros [= <-]. cbn [ms_ns ms_classes]. rewrite Hns. cbn [andb].
  assert (Hcs : classes_textual (ms_classes M)).
  { intros c Hin. rewrite forallb_forall in Hcl. specialize (Hcl c Hin). unfold X03.textual_class in Hcl.
    rewrite !andb_true_iff in Hcl. tauto. }
  apply (fun Hf => mapM_forallb (X11.extend_class (ms_classes M) ns) X03.textual_class X03.textual_class Hf (ms_classes M) cs Hcl Mm).
  intros c c' Hc. unfold X11.extend_class. destruct (X11.extend_names (ms_classes M) ns (c_names c)) as [l|] eqn:En; [|discriminate].
  intros [= <-]. unfold X03.textual_class in *. cbn [c_names c_fields c_methods]. rewrite !andb_true_iff in Hc. destruct Hc as [[H1 H2] H3].
  rewrite (extend_names_textual _ _ _ _ Hcs H1 En), H2, H3. reflexivity.
Qed.

(* hence the root hypothesis of the instantiated history theorem can be given on the contracted set alone *)
Theorem root_ok_from_contracted (M : mappings) e :
  X11.simple_names M 1 = true -> X03.textual M = true -> X11.extend M FB.C05.Consts.ns_named = Ok e ->
  FB.C05.Instance.root_ok M = true.
Proof.
  intros Hs Ht He. unfold FB.C05.Instance.root_ok. rewrite Hs, He. cbn [andb]. apply (textual_extend M _ e Ht He).
Qed.

(* non-vacuity: the root of the three-version example history (nested and doubly nested classes) satisfies the
   hypotheses on the contracted set, its extension succeeds and differs from it *)
From FB Require C05.InstanceExample.
Definition nonvacuous9 : Prop :=
  X11.simple_names FB.C05.InstanceExample.ex_v0 1 = true /\ X03.textual FB.C05.InstanceExample.ex_v0 = true
  /\ exists e, X11.extend FB.C05.InstanceExample.ex_v0 FB.C05.Consts.ns_named = Ok e
       /\ e <> FB.C05.InstanceExample.ex_v0 /\ X03.textual e = true.
Lemma nonvacuous9_holds : nonvacuous9.
Proof.
  split; [vm_compute; reflexivity|]. split; [vm_compute; reflexivity|].
  eexists. split; [vm_compute; reflexivity|]. split; [intros E; vm_compute in E; discriminate|vm_compute; reflexivity].
Qed.
