(* C05 — non-vacuity: the repository's own fixture (tests/version-graph/graph) and two small
   directories satisfy the hypotheses, and the model computes the expected answers on them.
   Contents are tokens; the toy operations record which diffs were applied in which order. *)
From FB Require Import C05.Model.
From Coq Require Import Permutation.

Definition toy : ops N (list N) N :=
  mkOps (fun c => Ok [c]) (fun m => Ok m) (fun c => Ok c) (fun d m => Ok (m ++ [d])) (fun m => Ok m).

Definition fixture : list (file N) := [([49;46;50;126;115;101;114;118;101;114;45;48;46;50;35;49;46;49;126;115;101;114;118;101;114;45;48;46;49;46;116;105;110;121;100;105;102;102], 1); ([49;46;51;35;49;46;50;126;115;101;114;118;101;114;45;48;46;50;46;116;105;110;121;100;105;102;102], 2); ([49;46;51;35;49;46;52;126;115;101;114;118;101;114;45;48;46;52;46;116;105;110;121;100;105;102;102], 3); ([49;46;51;46;116;105;110;121], 0); ([49;46;52;126;115;101;114;118;101;114;45;48;46;52;35;49;46;53;46;116;105;110;121;100;105;102;102], 4)].
Definition diamond : list (file N) := [([114;46;116;105;110;121], 0); ([114;35;97;46;116;105;110;121;100;105;102;102], 1); ([114;35;98;46;116;105;110;121;100;105;102;102], 2); ([97;35;99;46;116;105;110;121;100;105;102;102], 3); ([98;35;99;46;116;105;110;121;100;105;102;102], 4)].
Definition cyclic : list (file N) := [([114;46;116;105;110;121], 0); ([114;35;97;46;116;105;110;121;100;105;102;102], 1); ([97;35;98;46;116;105;110;121;100;105;102;102], 2); ([98;35;97;46;116;105;110;121;100;105;102;102], 3)].

Definition s_1_5 : str := [49;46;53].
Definition s_server_0_1 : str := [115;101;114;118;101;114;45;48;46;49].
Definition s_1_4 : str := [49;46;52].
Definition s_c : str := [99].

Definition answers (d : list (file N)) (k : str) : res (list (res (list N))) :=
  match resolve (load_root toy) d with Ok g => Ok (candidates_by_name toy g k) | Err => Err end.

Definition nonvacuous : Prop :=
  well_formed fixture = true /\ nodup_strb (map fst fixture) = true
  /\ answers fixture s_1_5 = Ok [Ok [0; 3; 4]]
  /\ answers fixture s_server_0_1 = Ok [Ok [0; 2; 1]]
  /\ answers (rev fixture) s_1_5 = Ok [Ok [0; 3; 4]]
  /\ (exists g i, resolve (load_root toy) fixture = Ok g /\ get g s_1_4 = Ok (SFirst, i))
  /\ well_formed diamond = true
  /\ (exists a b, answers diamond s_c = Ok [a; b] /\ a <> b)        (* a non-confluent diamond: two candidates *)
  /\ well_formed cyclic = true /\ resolve (load_root toy) cyclic = Err.

Lemma nonvacuous_holds : nonvacuous.
Proof.
  unfold nonvacuous. repeat split; try (vm_compute; reflexivity).
  - eexists. eexists. split; vm_compute; reflexivity.
  - eexists. eexists. split; [vm_compute; reflexivity|discriminate].
Qed.
