(* C05 — round 5:
   1. `get` answers EXACTLY the lookup names of the directory (every directory, collisions included): every other
      string — with or without `~` / `#`, empty, a prefix of a key, a whole `a~b` name — is refused;
   2. the FIFO walker queue of `resolve`, as the Rust loop is written, computes what the level-by-level [walk] computes
      (so the level-by-level formulation leaves the trusted base);
   3. shortest paths on ANY graph whose indices are nodes (not only on resolved graphs): |nodes|+1 levels find a path to
      every node that can be reached at all (pigeonhole: cut the cycles out of a walk);
   4. all walks to a node fold to the same value  <->  the edge files are the record of a history. *)
From FB Require Import C05.Model C05.Theory1 C05.Theory2 C05.Theory3 C05.Theory4 C05.Theory5 C05.Theory8.
From Coq Require Import Lia.

(* ====================================================================================== *)
(* 1. lookup: answered iff a lookup name                                                  *)
(* ====================================================================================== *)
Lemma tbl_get_app_keep k t k' x : tbl_get k t <> None -> tbl_get k (t ++ [(k', x)]) <> None.
Proof. rewrite tbl_get_app. destruct (tbl_get k t); [discriminate|congruence]. Qed.
Lemma tbl_get_app_new k t x : tbl_get k (t ++ [(k, x)]) <> None.
Proof. rewrite tbl_get_app. destruct (tbl_get k t); [discriminate|]. rewrite str_eqb_refl. discriminate. Qed.

(* add_node keeps every key and makes every lookup name of its version a key *)
Lemma add_node_has_keys t ns v t' ns' i :
  add_node t ns v = (t', ns', i) ->
  (forall k, tbl_get k t <> None -> tbl_get k t' <> None) /\ (forall k, In k (keys v) -> tbl_get k t' <> None).
Proof.
  unfold add_node, keys. destruct (split_once sep_split v) as [[a b]|].
  - destruct (tbl_get a t) as [[sp j]|] eqn:Ga.
    + destruct (tbl_get b t) as [y|] eqn:Gb; intros [= <- <- <-].
      * split; [auto|]. intros k [<-|[<-|[]]]; congruence.
      * split; [intros k H; apply tbl_get_app_keep; exact H|].
        intros k [<-|[<-|[]]]; [apply tbl_get_app_keep; congruence|apply tbl_get_app_new].
    + destruct (tbl_get b (t ++ [(a, (SFirst, length ns))])) as [y|] eqn:Gb; intros [= <- <- <-].
      * split; [intros k H; apply tbl_get_app_keep; exact H|].
        intros k [<-|[<-|[]]]; [apply tbl_get_app_new|congruence].
      * split; [intros k H; apply tbl_get_app_keep, tbl_get_app_keep; exact H|].
        intros k [<-|[<-|[]]]; [apply tbl_get_app_keep, tbl_get_app_new|apply tbl_get_app_new].
  - destruct (tbl_get v t) as [[sp j]|] eqn:Gv; intros [= <- <- <-].
    + split; [auto|]. intros k [<-|[]]. congruence.
    + split; [intros k H; apply tbl_get_app_keep; exact H|]. intros k [<-|[]]. apply tbl_get_app_new.
Qed.

Lemma scan_step_has_keys {C} (st st' : scan C) f :
  scan_step st f = Ok st' ->
  (forall k, tbl_get k (sc_tbl st) <> None -> tbl_get k (sc_tbl st') <> None)
  /\ (forall v k, In v (file_versions (fst f)) -> In k (keys v) -> tbl_get k (sc_tbl st') <> None).
Proof.
  rewrite scan_step_classify. unfold file_versions. destruct (classify (fst f)) as [vs|p v| |].
  - destruct (add_node (sc_tbl st) (sc_nodes st) vs) as [[t ns] i] eqn:A. destruct (sc_root st); [discriminate|].
    intros [= <-]. cbn [sc_tbl]. destruct (add_node_has_keys _ _ _ _ _ _ A) as [H1 H2].
    split; [exact H1|]. intros v k [<-|[]] Hk. apply H2. exact Hk.
  - destruct (add_node (sc_tbl st) (sc_nodes st) v) as [[t1 ns1] iv] eqn:A1.
    destruct (add_node t1 ns1 p) as [[t2 ns2] ip] eqn:A2. intros [= <-]. cbn [sc_tbl].
    destruct (add_node_has_keys _ _ _ _ _ _ A1) as [H1 H2]. destruct (add_node_has_keys _ _ _ _ _ _ A2) as [H3 H4].
    split; [intros k H; apply H3, H1, H|]. intros w k [<-|[<-|[]]] Hk; [apply H3, H2, Hk|apply H4, Hk].
  - discriminate.
  - intros [= <-]. split; [auto|]. intros v k [].
Qed.

Lemma scan_dir_has_keys {C} (d : list (file C)) : forall (st st' : scan C),
  scan_dir st d = Ok st' ->
  (forall k, tbl_get k (sc_tbl st) <> None -> tbl_get k (sc_tbl st') <> None)
  /\ (forall v k, In v (dir_versions d) -> In k (keys v) -> tbl_get k (sc_tbl st') <> None).
Proof.
  induction d as [|f d IH]; intros st st'; cbn [scan_dir].
  - intros [= <-]. split; [auto|]. intros v k [].
  - destruct (scan_step st f) as [s1|] eqn:E; [|discriminate]. intros H.
    destruct (scan_step_has_keys st s1 f E) as [H1 H2]. destruct (IH s1 st' H) as [H3 H4].
    split; [intros k Hk; apply H3, H1, Hk|]. intros v k Hv Hk. unfold dir_versions in Hv. cbn [flat_map] in Hv.
    apply in_app_or in Hv. destruct Hv as [Hv|Hv]; [apply H3; apply (H2 v k Hv Hk)|apply (H4 v k Hv Hk)].
Qed.

(* the lookup names of a directory: the plain version strings and both halves of the `a~b` strings its file names mention *)
Definition lookup_name {C} (d : list (file C)) (s : str) : Prop := exists v, In v (dir_versions d) /\ In s (keys v).
Definition lookup_nameb {C} (d : list (file C)) (s : str) : bool := existsb (fun v => memb s (keys v)) (dir_versions d).

Lemma lookup_nameb_spec {C} (d : list (file C)) s : lookup_nameb d s = true <-> lookup_name d s.
Proof.
  unfold lookup_nameb, lookup_name. rewrite existsb_exists. split; intros (v & Hv & Hk); exists v; (split; [exact Hv|]); apply memb_In; exact Hk.
Qed.

(* EVERY directory, EVERY string: refused iff not a lookup name *)
Theorem get_err_iff {C M} (lr : C -> res M) (d : list (file C)) g s :
  resolve lr d = Ok g -> (get g s = Err <-> ~ lookup_name d s).
Proof.
  intros Hres. split.
  - intros Hg (v & Hv & Hk). destruct (resolve_ok lr d g Hres) as (st & f & Hscan & _ & _ & Et & _).
    destruct (scan_dir_has_keys d scan0 st Hscan) as [_ H]. specialize (H v s Hv Hk).
    unfold get in Hg. rewrite Et in Hg. destruct (tbl_get s (sc_tbl st)); [discriminate|congruence].
  - intros Hn. apply (unknown_name_err lr d g s Hres). intros v Hv Hk. apply Hn. exists v. auto.
Qed.

Corollary get_decides {C M} (lr : C -> res M) (d : list (file C)) g s :
  resolve lr d = Ok g -> if lookup_nameb d s then exists x, get g s = Ok x else get g s = Err.
Proof.
  intros Hres. destruct (lookup_nameb d s) eqn:E.
  - apply lookup_nameb_spec in E. destruct (get g s) as [x|] eqn:G; [exists x; reflexivity|].
    exfalso. apply (proj1 (get_err_iff lr d g s Hres) G E).
  - apply (get_err_iff lr d g s Hres). intros H. apply lookup_nameb_spec in H. congruence.
Qed.

(* a string with a `~` is a lookup name only as the second half of a version string with two `~`:
   where no version string has two, every string containing `~` is refused — the whole name `a~b` included *)
Theorem get_tilde_refused {C M} (lr : C -> res M) (d : list (file C)) g s :
  resolve lr d = Ok g ->
  (forall v a b, In v (dir_versions d) -> split_once sep_split v = Some (a, b) -> ~ In sep_split b) ->
  In sep_split s -> get g s = Err.
Proof.
  intros Hres Hsimple Hs. apply (get_err_iff lr d g s Hres). intros (v & Hv & Hk). unfold keys in Hk.
  destruct (split_once sep_split v) as [[a b]|] eqn:E.
  - destruct Hk as [<-|[<-|[]]].
    + apply split_once_some in E. destruct E as [_ Hn]. exact (Hn Hs).
    + exact (Hsimple v a b Hv E Hs).
  - destruct Hk as [<-|[]]. apply split_once_none in E. exact (E Hs).
Qed.

(* well-formed directories: what is answered is the version the name belongs to, with the right half *)
Theorem get_spec_wf {C M} (lr : C -> res M) (d : list (file C)) g s :
  well_formed d = true -> resolve lr d = Ok g ->
  match get g s with
  | Err => ~ lookup_name d s
  | Ok (sp, i) => exists v, In v (dir_versions d) /\ nth_error (g_nodes g) i = Some v /\ key_entry v i s = Some (sp, i)
  end.
Proof.
  intros Hwf Hres. destruct (get g s) as [[sp i]|] eqn:G; [|apply (get_err_iff lr d g s Hres); exact G].
  assert (Hl : lookup_name d s).
  { destruct (lookup_nameb d s) eqn:E; [apply lookup_nameb_spec; exact E|].
    pose proof (get_decides lr d g s Hres) as H. rewrite E in H. congruence. }
  destruct Hl as (v & Hv & Hk). exists v. split; [exact Hv|].
  destruct (lookup lr d g Hwf Hres v Hv) as (j & Hj & Hget).
  pose proof (wf_versions_WF _ Hwf) as [W1 _]. specialize (W1 v Hv).
  unfold keys in Hk, W1. unfold key_entry. destruct (split_once sep_split v) as [[a b]|] eqn:E.
  - destruct Hget as [Ha Hb].
    assert (Hab : a <> b). { inversion W1 as [|? ? Hx _]; subst. intros ->. apply Hx. left. reflexivity. }
    destruct Hk as [<-|[<-|[]]].
    + assert (E2 : Ok (sp, i) = Ok (SFirst, j)) by (rewrite <- G, <- Ha; reflexivity). injection E2 as -> ->.
      split; [exact Hj|]. rewrite str_eqb_refl. reflexivity.
    + assert (E2 : Ok (sp, i) = Ok (SSecond, j)) by (rewrite <- G, <- Hb; reflexivity). injection E2 as -> ->.
      split; [exact Hj|]. destruct (str_eqb_spec b a) as [Eba|_]; [congruence|]. rewrite str_eqb_refl. reflexivity.
  - destruct Hk as [<-|[]]. assert (E2 : Ok (sp, i) = Ok (SNone, j)) by (rewrite <- G, <- Hget; reflexivity). injection E2 as -> ->.
    split; [exact Hj|]. rewrite str_eqb_refl. reflexivity.
Qed.

(* the same with [key_entry] unfolded *)
Theorem get_spec_wf_unfolded {C M} (lr : C -> res M) (d : list (file C)) g s :
  well_formed d = true -> resolve lr d = Ok g ->
  match get g s with
  | Err => ~ lookup_name d s
  | Ok (sp, i) => exists v, In v (dir_versions d) /\ nth_error (g_nodes g) i = Some v /\
      match split_once sep_split v with
      | Some (a, b) => (s = a /\ sp = SFirst) \/ (s <> a /\ s = b /\ sp = SSecond)
      | None => s = v /\ sp = SNone
      end
  end.
Proof.
  intros Hwf Hres. pose proof (get_spec_wf lr d g s Hwf Hres) as H.
  destruct (get g s) as [[sp i]|]; [|exact H]. destruct H as (v & Hv & Hn & Hk). exists v. split; [exact Hv|]. split; [exact Hn|].
  unfold key_entry in Hk. destruct (split_once sep_split v) as [[a b]|].
  - destruct (str_eqb_spec s a) as [->|Hna]; [injection Hk as <-; left; auto|].
    destruct (str_eqb_spec s b) as [->|Hnb]; [injection Hk as <-; right; auto|discriminate].
  - destruct (str_eqb_spec s v) as [->|Hnv]; [injection Hk as <-; auto|discriminate].
Qed.

(* ====================================================================================== *)
(* 2. the FIFO queue of resolve = the level-by-level walk                                  *)
(* ====================================================================================== *)
(* The Rust loop, as written:
     let mut walkers: VecDeque<_> = [ (Vec::new(), root) ].into();
     while let Some((path, head)) = walkers.pop_front() {
         <update graph[head].depth from path.len()>                                 -- [upd_depth]
         for v in graph.neighbors_directed(head, Outgoing) {
             if path.contains(&v) { bail!(..) }                                       -- [loops]
             walkers.push_back((path + [v], v));                                      -- [expand], appended at the back
         } }
   as a big-step relation: [qrun q ds r] = from queue q and depths ds the loop ends with r (bail = Err; the pushes and the
   depth update made before a bail are not observable).  No fuel: a run that does not end has no derivation. *)
Inductive qrun {C} (es : list (edge C)) (root : nat) : list walker -> list nat -> res (list nat) -> Prop :=
| qrun_done ds : qrun es root [] ds (Ok ds)
| qrun_loop w q ds : loops es w = true -> qrun es root (w :: q) ds Err
| qrun_step w q ds r : loops es w = false ->
    qrun es root (q ++ expand es w) (upd_depth root ds w) r -> qrun es root (w :: q) ds r.

Lemma qrun_det {C} (es : list (edge C)) root q ds r r' : qrun es root q ds r -> qrun es root q ds r' -> r = r'.
Proof.
  intros H. revert r'. induction H as [ds|w q ds Hl|w q ds r Hl H IH]; intros r' H'.
  - inversion H'; subst. reflexivity.
  - inversion H'; subst; [reflexivity|congruence].
  - inversion H'; subst; [congruence|]. apply IH. assumption.
Qed.

(* the relation is the loop and nothing else: one step of unfolding *)
Lemma qrun_unfold {C} (es : list (edge C)) root q ds r :
  qrun es root q ds r <->
  match q with
  | [] => r = Ok ds
  | w :: q' => if loops es w then r = Err else qrun es root (q' ++ expand es w) (upd_depth root ds w) r
  end.
Proof.
  split.
  - intros H. destruct H as [ds|w q ds Hl|w q ds r Hl H]; [reflexivity|rewrite Hl; reflexivity|rewrite Hl; exact H].
  - destruct q as [|w q'].
    + intros ->. constructor.
    + destruct (loops es w) eqn:Hl; [intros ->; apply qrun_loop; exact Hl|intros H; apply qrun_step; assumption].
Qed.

(* serving one whole generation: the queue holds the rest of the generation followed by the children pushed so far *)
Lemma qrun_level {C} (es : list (edge C)) root : forall level next ds r,
  existsb (loops es) level = false ->
  qrun es root (next ++ flat_map (expand es) level) (fold_left (upd_depth root) level ds) r ->
  qrun es root (level ++ next) ds r.
Proof.
  induction level as [|w level IH]; intros next ds r Hn H.
  - cbn [flat_map fold_left app] in *. rewrite app_nil_r in H. exact H.
  - cbn [existsb] in Hn. apply orb_false_iff in Hn. destruct Hn as [Hw Hn].
    cbn [app]. apply qrun_step; [exact Hw|]. rewrite <- app_assoc. apply (IH _ _ _ Hn).
    cbn [flat_map fold_left] in H. rewrite <- app_assoc. exact H.
Qed.

Lemma qrun_level_err {C} (es : list (edge C)) root : forall level next ds,
  existsb (loops es) level = true -> qrun es root (level ++ next) ds Err.
Proof.
  induction level as [|w level IH]; intros next ds H; [discriminate|].
  cbn [app]. destruct (loops es w) eqn:Hw; [apply qrun_loop; exact Hw|].
  cbn [existsb] in H. rewrite Hw in H. cbn [orb] in H. apply qrun_step; [exact Hw|]. rewrite <- app_assoc. apply IH. exact H.
Qed.

Lemma walk_qrun_ok {C} (es : list (edge C)) root : forall f level ds ds',
  walk f es root level ds = Ok ds' -> qrun es root level ds (Ok ds').
Proof.
  induction f as [|f IH]; intros level ds ds' H.
  - destruct level; cbn [walk] in H; [injection H as <-; constructor|discriminate].
  - destruct level as [|w lv] eqn:EL; [cbn [walk] in H; injection H as <-; constructor|]. rewrite <- EL in *.
    rewrite walk_S in H by (rewrite EL; discriminate).
    destruct (existsb (loops es) level) eqn:Lp; [discriminate|].
    rewrite <- (app_nil_r level). apply qrun_level; [exact Lp|]. cbn [app]. apply IH. exact H.
Qed.

(* a walker's path never repeats a node, so it is shorter than the number of nodes: the fuel of [walk] is never what ends it *)
Definition wpath_ok (n k : nat) (w : walker) : Prop :=
  NoDup (fst w) /\ length (fst w) = k /\ forall x, In x (fst w) -> (x < n)%nat.

Lemma expand_wpath_ok {C} (es : list (edge C)) n k w w' :
  (forall e, In e es -> (e_dst e < n)%nat) -> wpath_ok n k w -> loops es w = false -> In w' (expand es w) -> wpath_ok n (S k) w'.
Proof.
  intros He (Hnd & Hk & Hb) Hl Hin. apply in_expand in Hin. destruct Hin as (v & Hv & ->). unfold wpath_ok. cbn [fst].
  assert (Hnin : ~ In v (fst w)).
  { intros Hin. unfold loops in Hl. assert (X : existsb (fun v => memn v (fst w)) (succs es (snd w)) = true); [|congruence].
    apply existsb_exists. exists v. split; [exact Hv|apply memn_In; exact Hin]. }
  split; [constructor; assumption|]. split; [cbn [length]; lia|].
  intros x [<-|Hx]; [|apply Hb; exact Hx]. apply in_succs in Hv. destruct Hv as (e & Hin & _ & <-). apply He. exact Hin.
Qed.

Lemma walk_err_qrun {C} (es : list (edge C)) root n : (forall e, In e es -> (e_dst e < n)%nat) ->
  forall f level ds k, (forall w, In w level -> wpath_ok n k w) -> (k + f = S n)%nat ->
  walk f es root level ds = Err -> qrun es root level ds Err.
Proof.
  intros He. induction f as [|f IH]; intros level ds k Hok Hk H.
  - destruct level as [|w lv]; [cbn [walk] in H; discriminate|]. exfalso. destruct (Hok w (or_introl eq_refl)) as (Hnd & Hlen & Hb).
    assert (Hincl : incl (fst w) (seq 0 n)) by (intros x Hx; apply in_seq; specialize (Hb x Hx); lia).
    pose proof (NoDup_incl_length Hnd Hincl) as Hle. rewrite seq_length in Hle. lia.
  - destruct level as [|w lv] eqn:EL; [cbn [walk] in H; discriminate|]. rewrite <- EL in *.
    rewrite walk_S in H by (rewrite EL; discriminate).
    destruct (existsb (loops es) level) eqn:Lp.
    + rewrite <- (app_nil_r level). apply qrun_level_err. exact Lp.
    + rewrite <- (app_nil_r level). apply qrun_level; [exact Lp|]. cbn [app].
      apply (IH _ _ (S k)); [|lia|exact H].
      intros w' Hw'. apply in_flat_map in Hw'. destruct Hw' as (w0 & Hw0 & Hex).
      apply (expand_wpath_ok es n k w0 w' He (Hok w0 Hw0)); [|exact Hex].
      destruct (loops es w0) eqn:L0; [|reflexivity]. exfalso.
      assert (X : existsb (loops es) level = true) by (apply existsb_exists; exists w0; auto). congruence.
Qed.

(* THE EQUIVALENCE: on a graph whose edge targets are nodes (n nodes), the FIFO loop ends with r exactly if the
   level-by-level walk with n+1 generations of fuel returns r — depths and Ok/Err alike; in particular it always ends *)
Theorem queue_generations {C} (es : list (edge C)) root n ds r :
  (forall e, In e es -> (e_dst e < n)%nat) ->
  qrun es root [([], root)] ds r <-> walk (S n) es root [([], root)] ds = r.
Proof.
  intros He.
  assert (B : forall r', walk (S n) es root [([], root)] ds = r' -> qrun es root [([], root)] ds r').
  { intros [ds'|] H; [apply (walk_qrun_ok es root _ _ _ _ H)|].
    apply (walk_err_qrun es root n He (S n) _ ds 0); [|lia|exact H].
    intros w [<-|[]]. split; [constructor|]. split; [reflexivity|intros x []]. }
  split; [|apply B]. intros H. apply (qrun_det es root _ ds _ _ (B _ eq_refl) H).
Qed.

(* resolve, with the walk specified by the FIFO loop: a relation that transcribes the Rust function ... *)
Definition resolve_fifo {C M} (lr : C -> res M) (d : list (file C)) (out : res (graph C M)) : Prop :=
  match scan_dir scan0 d with
  | Err => out = Err
  | Ok st =>
      match sc_root st with
      | None => out = Err
      | Some (root, f) =>
          match lr (snd f) with
          | Err => out = Err
          | Ok m =>
              exists rd, qrun (sc_edges st) root [([], root)] (repeat O (length (sc_nodes st))) rd
                /\ out = match rd with
                         | Ok ds => Ok (mkGraph root m (sc_tbl st) (sc_nodes st) ds (sc_edges st))
                         | Err => Err
                         end
          end
      end
  end.

(* ... and the executable model computes exactly it *)
Theorem resolve_is_fifo {C M} (lr : C -> res M) (d : list (file C)) out :
  resolve_fifo lr d out <-> resolve lr d = out.
Proof.
  unfold resolve_fifo, resolve. destruct (scan_dir scan0 d) as [st|] eqn:Hs; [|split; congruence].
  destruct (sc_root st) as [[root f]|]; [|split; congruence].
  destruct (lr (snd f)) as [m|]; [|split; congruence].
  pose proof (scan_dir_bounded d scan0 st scan0_bounded Hs) as (_ & Hb & _).
  assert (He : forall e, In e (sc_edges st) -> (e_dst e < length (sc_nodes st))%nat) by (intros e Hin; apply (Hb e Hin)).
  split.
  - intros (rd & Hq & ->). apply (queue_generations _ _ _ _ _ He) in Hq. rewrite Hq. reflexivity.
  - intros <-. exists (walk (S (length (sc_nodes st))) (sc_edges st) root [([], root)] (repeat 0%nat (length (sc_nodes st)))).
    split; [apply (queue_generations _ _ _ _ _ He); reflexivity|reflexivity].
Qed.

(* ====================================================================================== *)
(* 3. shortest paths on any graph whose indices are nodes                                 *)
(* ====================================================================================== *)
(* cutting cycles out: whatever a walk reaches is reached by a walk with fewer edges than there are nodes *)
Lemma walk_shorten {C} (es : list (edge C)) root n : (forall e, In e es -> (e_dst e < n)%nat) -> (root < n)%nat ->
  forall m l, (length l <= m)%nat -> fwalk es root l ->
  exists l', fwalk es root l' /\ last l' root = last l root /\ (length l' < n)%nat.
Proof.
  intros He Hr. induction m as [|m IH]; intros l Hm Hw.
  - destruct l; [|cbn in Hm; lia]. exists []. split; [exact I|]. split; [reflexivity|cbn; lia].
  - destruct (Nat.lt_ge_cases (length l) n) as [Hlt|Hge]; [exists l; auto|].
    destruct (pigeonhole (root :: l) n) as (a & x & b & c & E).
    { intros y [<-|Hy]; [exact Hr|apply (fwalk_dst_bounded es n He l root Hw y Hy)]. }
    { cbn [length]. lia. }
    destruct a as [|r a].
    + cbn [app] in E. injection E as <- ->.
      assert (Hlen : (length c <= m)%nat) by (rewrite app_length in Hm; cbn [length] in Hm; lia).
      assert (E2 : b ++ root :: c = (b ++ [root]) ++ c) by (rewrite <- app_assoc; reflexivity).
      rewrite E2 in Hw |- *. apply fwalk_app in Hw. destruct Hw as [_ Hc]. rewrite last_snoc in Hc.
      destruct (IH c Hlen Hc) as (l' & H1 & H2 & H3).
      exists l'. split; [exact H1|]. split; [|exact H3]. rewrite H2, last_app, last_snoc. reflexivity.
    + cbn [app] in E. injection E as <- ->.
      assert (Hlen : (length ((a ++ [x]) ++ c) <= m)%nat) by (repeat (rewrite !app_length in Hm |- * || cbn [length] in Hm |- *); lia).
      assert (E2 : a ++ x :: b ++ x :: c = (a ++ [x]) ++ (b ++ [x]) ++ c) by (rewrite <- !app_assoc; reflexivity).
      rewrite E2 in Hw |- *. apply fwalk_app in Hw. destruct Hw as [H1 H2]. apply fwalk_app in H2. destruct H2 as [_ H2].
      rewrite !last_snoc in H2.
      destruct (IH ((a ++ [x]) ++ c) Hlen) as (l' & G1 & G2 & G3).
      { apply fwalk_app. split; [exact H1|]. rewrite last_snoc. exact H2. }
      exists l'. split; [exact G1|]. split; [|exact G3]. rewrite G2.
      rewrite (last_app (a ++ [x]) c), (last_app (a ++ [x]) ((b ++ [x]) ++ c)), (last_app (b ++ [x]) c), !last_snoc. reflexivity.
Qed.

(* [shortest_paths] with its |nodes|+1 levels of fuel finds a path exactly to the nodes that can be reached at all *)
Theorem shortest_any_graph {C M} (g : graph C M) v :
  (forall e, In e (g_edges g) -> (e_dst e < length (g_nodes g))%nat) -> (g_root g < length (g_nodes g))%nat ->
  (shortest_paths g v <> [] <-> exists l, fwalk (g_edges g) (g_root g) l /\ last l (g_root g) = v).
Proof.
  intros He Hr. split.
  - intros H. destruct (shortest_paths g v) as [|p ps] eqn:E; [congruence|].
    assert (Hp : In p (shortest_paths g v)) by (rewrite E; left; reflexivity).
    apply shortest_paths_spec in Hp. destruct Hp as (l & _ & Hw & Hl & _). exists l. auto.
  - intros (l & Hw & Hl). destruct (walk_shorten _ _ _ He Hr (length l) l (le_n _) Hw) as (l' & Hw' & Hl' & Hlen).
    unfold shortest_paths. intros E. apply map_eq_nil in E. revert E.
    apply (shortest_nonempty (g_edges g) (g_root g) v _ 0 _ (level_ok_0 _ _) l' Hw'); [congruence|lia].
Qed.

(* hence on any such graph: `apply_diffs` has no path exactly for the nodes no walk from the root reaches *)
Corollary candidates_no_path_iff {C M D} (o : ops C M D) (g : graph C M) v :
  (forall e, In e (g_edges g) -> (e_dst e < length (g_nodes g))%nat) -> (g_root g < length (g_nodes g))%nat ->
  (shortest_paths g v = [] <-> forall l, fwalk (g_edges g) (g_root g) l -> last l (g_root g) <> v).
Proof.
  intros He Hr. pose proof (shortest_any_graph g v He Hr) as [H1 H2]. split.
  - intros E l Hw Hl. apply H2; [exists l; auto|exact E].
  - intros Hn. destruct (shortest_paths g v) as [|p ps] eqn:E; [reflexivity|]. exfalso.
    destruct H1 as (l & Hw & Hl); [discriminate|]. apply (Hn l Hw Hl).
Qed.

(* ====================================================================================== *)
(* 4. confluence                                                                          *)
(* ====================================================================================== *)
(* [history_on o g Hm]: Hm assigns a mapping set to every node such that the root mapping is Hm(root) and every edge file
   out of a node that can be reached from the root turns Hm(source) into Hm(target) *)
Definition reach {C M} (g : graph C M) (a : nat) : Prop := exists l, fwalk (g_edges g) (g_root g) l /\ last l (g_root g) = a.
Definition history_on {C M D} (o : ops C M D) (g : graph C M) (Hm : nat -> M) : Prop :=
  Hm (g_root g) = g_root_mapping g /\
  forall a b, reach g a -> In b (succs (g_edges g) a) -> step o (g_edges g) a b (Hm a) = Ok (Hm b).
(* [walks_confluent o g]: every walk from the root folds without error, and two walks to the same node fold to the same set *)
Definition fold_from_root {C M D} (o : ops C M D) (g : graph C M) (l : list nat) : res M :=
  fold_path o (g_edges g) (g_root_mapping g) (g_root g :: l).
Definition walks_confluent {C M D} (o : ops C M D) (g : graph C M) : Prop :=
  (forall l, fwalk (g_edges g) (g_root g) l -> exists m, fold_from_root o g l = Ok m) /\
  (forall l1 l2, fwalk (g_edges g) (g_root g) l1 -> fwalk (g_edges g) (g_root g) l2 ->
     last l1 (g_root g) = last l2 (g_root g) -> fold_from_root o g l1 = fold_from_root o g l2).

Lemma history_folds {C M D} (o : ops C M D) (g : graph C M) Hm : history_on o g Hm ->
  forall l, fwalk (g_edges g) (g_root g) l -> fold_from_root o g l = Ok (Hm (last l (g_root g))).
Proof.
  intros [H0 He] l. unfold fold_from_root. induction l as [|v l IH] using rev_ind; intros Hw.
  - cbn [fold_path last]. rewrite H0. reflexivity.
  - apply fwalk_app in Hw. destruct Hw as [Hw [Hv _]].
    change (g_root g :: l ++ [v]) with ((g_root g :: l) ++ [v]). rewrite fold_path_snoc, (IH Hw).
    rewrite last_app. cbn [last]. apply He; [exists l; auto|exact Hv].
Qed.

Theorem confluent_iff_history {C M D} (o : ops C M D) (g : graph C M) :
  (forall e, In e (g_edges g) -> (e_dst e < length (g_nodes g))%nat) -> (g_root g < length (g_nodes g))%nat ->
  (walks_confluent o g <-> exists Hm, history_on o g Hm).
Proof.
  intros Hbe Hbr. split.
  - intros [Htot Hconf].
    (* the history: the fold along the first shortest path the model finds *)
    pose (pick := fun a => match shortest_paths g a with p :: _ => tl p | [] => [] end).
    pose (Hm := fun a => match fold_from_root o g (pick a) with Ok m => m | Err => g_root_mapping g end).
    assert (Hpick : forall a, reach g a -> fwalk (g_edges g) (g_root g) (pick a) /\ last (pick a) (g_root g) = a).
    { intros a Ha. unfold pick. destruct (shortest_paths g a) as [|p ps] eqn:E.
      - exfalso. apply (proj2 (shortest_any_graph g a Hbe Hbr) Ha). exact E.
      - assert (Hp : In p (shortest_paths g a)) by (rewrite E; left; reflexivity).
        apply shortest_paths_spec in Hp. destruct Hp as (l0 & -> & Hw0 & Hl0 & _). cbn [tl]. auto. }
    assert (HmOk : forall a, reach g a -> fold_from_root o g (pick a) = Ok (Hm a)).
    { intros a Ha. destruct (Hpick a Ha) as [Hw _]. destruct (Htot _ Hw) as (m & Hf). unfold Hm. rewrite Hf. reflexivity. }
    exists Hm. split.
    + assert (Hr : reach g (g_root g)) by (exists []; split; [exact I|reflexivity]).
      destruct (Hpick _ Hr) as [Hw Hl]. pose proof (HmOk _ Hr) as Hf.
      rewrite (Hconf (pick (g_root g)) [] Hw I Hl) in Hf. unfold fold_from_root in Hf. cbn [fold_path] in Hf. congruence.
    + intros a b Ha Hb. destruct (Hpick a Ha) as [Hw Hl]. pose proof (HmOk a Ha) as Hf.
      assert (Hwb : fwalk (g_edges g) (g_root g) (pick a ++ [b])).
      { apply fwalk_app. split; [exact Hw|]. rewrite Hl. cbn [fwalk]. auto. }
      assert (Hrb : reach g b) by (exists (pick a ++ [b]); split; [exact Hwb|apply last_snoc]).
      destruct (Hpick b Hrb) as [Hw' Hl']. pose proof (HmOk b Hrb) as Hf'.
      rewrite <- (Hconf (pick a ++ [b]) (pick b) Hwb Hw') in Hf' by (rewrite last_snoc, Hl'; reflexivity).
      unfold fold_from_root in Hf', Hf. change (g_root g :: pick a ++ [b]) with ((g_root g :: pick a) ++ [b]) in Hf'.
      rewrite fold_path_snoc, Hf, Hl in Hf'. exact Hf'.
  - intros (Hm & HH). split.
    + intros l Hw. exists (Hm (last l (g_root g))). apply (history_folds o g Hm HH l Hw).
    + intros l1 l2 H1 H2 E. rewrite (history_folds o g Hm HH l1 H1), (history_folds o g Hm HH l2 H2), E. reflexivity.
Qed.

(* under confluence there is one answer: the candidates of a node that can be reached are all [extend (Hm v)] *)
Corollary history_single_answer {C M D} (o : ops C M D) (g : graph C M) Hm v :
  history_on o g Hm -> forall r, In r (candidates o g v) -> shortest_paths g v <> [] -> r = extend o (Hm v).
Proof.
  intros HH r Hr Hne. unfold candidates in Hr. destruct (shortest_paths g v) as [|p ps] eqn:E; [congruence|].
  rewrite <- E in Hr. apply in_map_iff in Hr. destruct Hr as (q & <- & Hq).
  apply shortest_paths_spec in Hq. destruct Hq as (l & -> & Hw & Hl & _).
  unfold run_path. pose proof (history_folds o g Hm HH l Hw) as Hf. unfold fold_from_root in Hf. rewrite Hf, Hl. reflexivity.
Qed.
