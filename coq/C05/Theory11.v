(* C05 — round 5: confluence with the composed operations INSTANTIATED.
   A directory that is the printed record of a history (C05/Instance.v: [printed_history]) is confluent: whichever shortest
   path `apply_diffs` takes, the answers are equal up to the order of the maps.  Conversely a directory on which two shortest
   paths fold to different sets is the record of NO history; a concrete such directory (a diamond whose two last diffs rename
   the same class differently) is evaluated with the instantiated model: two candidates, not equivalent. *)
From FB Require Import C05.Model C05.Theory1 C05.Theory2 C05.Theory3 C05.Theory4 C05.Theory6 C05.Sim.
From FB Require Import C04.Model C04.Text C04.Hyps C04.Theory2.
From FB Require Import C05.Compat C05.Bridge C05.Instance C05.InstanceDir.
From FB Require C03.Model C11.Model.

Lemma res_rel_mequiv_sym a b : res_rel mequiv a b -> res_rel mequiv b a.
Proof. destruct a, b; cbn; auto. apply mequiv_sym. Qed.
Lemma res_rel_mequiv_trans a b c : res_rel mequiv a b -> res_rel mequiv b c -> res_rel mequiv a c.
Proof. destruct a, b, c; cbn; try tauto. apply mequiv_trans. Qed.

(* a printed history is confluent: all candidates of a version agree *)
Theorem history_confluent (H : str -> mappings) (d : list (file str)) (rank : str -> nat) :
  well_formed d = true -> has_bad d = false -> tiny_count d = 1%nat ->
  (forall f p v, In f d -> classify (fst f) = FEdge p v -> (rank p < rank v)%nat) ->
  printed_history H d ->
  exists g, resolve (load_root vg_ops) d = Ok g /\
    forall v, reachable d v -> forall k, In k (keys v) ->
    forall r1 r2, In r1 (candidates_by_name vg_ops g k) -> In r2 (candidates_by_name vg_ops g k) -> res_rel mequiv r1 r2.
Proof.
  intros Hwf Hbad Htiny Hrank HP.
  destruct (history_sound_instantiated H d rank Hwf Hbad Htiny Hrank HP) as (g & Hres & Hall).
  exists g. split; [exact Hres|]. intros v Hv k Hk r1 r2 H1 H2.
  destruct (Hall v Hv k Hk) as (sp & i & _ & _ & _ & Hr).
  apply (res_rel_mequiv_trans r1 (X11.extend (H v) ns_named) r2); [apply Hr; exact H1|apply res_rel_mequiv_sym, Hr; exact H2].
Qed.

(* two shortest paths that fold differently: the directory is the printed record of no history whatsoever *)
Theorem nonconfluent_no_history (d : list (file str)) (rank : str -> nat) g v k r1 r2 :
  well_formed d = true -> has_bad d = false -> tiny_count d = 1%nat ->
  (forall f p v, In f d -> classify (fst f) = FEdge p v -> (rank p < rank v)%nat) ->
  resolve (load_root vg_ops) d = Ok g -> reachable d v -> In k (keys v) ->
  In r1 (candidates_by_name vg_ops g k) -> In r2 (candidates_by_name vg_ops g k) -> ~ res_rel mequiv r1 r2 ->
  forall H, ~ printed_history H d.
Proof.
  intros Hwf Hbad Htiny Hrank Hres Hv Hk H1 H2 Hne H HP.
  destruct (history_confluent H d rank Hwf Hbad Htiny Hrank HP) as (g' & Hres' & Hall).
  assert (g' = g) by congruence. subst g'. apply Hne. apply (Hall v Hv k Hk r1 r2 H1 H2).
Qed.

(* ---------- a concrete non-confluent directory, real file contents ---------- *)
Definition nc_ns : list str := [[105; 110; 116]; ns_named].
Definition nc_class (name : str) : class := mkClass [Some [97]; Some name] None [] [].
Definition nc_m0 : mappings := mkMappings nc_ns None [nc_class [112; 107; 103; 47; 65]].                      (* a -> pkg/A *)
Definition nc_mx : mappings := mkMappings nc_ns None [nc_class [112; 107; 103; 47; 86; 105; 97; 88]].        (* a -> pkg/ViaX *)
Definition nc_my : mappings := mkMappings nc_ns None [nc_class [112; 107; 103; 47; 86; 105; 97; 89]].        (* a -> pkg/ViaY *)
Definition s_r : str := [114]. Definition s_x : str := [120]. Definition s_y : str := [121]. Definition s_z : str := [122].

Definition nc_edge (p v : str) (A B : mappings) : res (file str) :=
  match diff A B with Ok dd => Ok (edge_name p v, print dd) | Err => Err end.
(* r.tiny, r#x, r#y (nothing changes), x#z (pkg/A becomes pkg/ViaX), y#z (pkg/A becomes pkg/ViaY) *)
Definition nc_dir : res (list (file str)) :=
  match root_file s_r nc_m0, nc_edge s_r s_x nc_m0 nc_m0, nc_edge s_r s_y nc_m0 nc_m0, nc_edge s_x s_z nc_m0 nc_mx, nc_edge s_y s_z nc_m0 nc_my with
  | Ok f0, Ok f1, Ok f2, Ok f3, Ok f4 => Ok [f0; f1; f2; f3; f4]
  | _, _, _, _, _ => Err
  end.
Definition nc_answers (perm : list (file str) -> list (file str)) (k : str) : res (list (res mappings)) :=
  match nc_dir with
  | Ok d => match resolve (load_root vg_ops) (perm d) with Ok g => Ok (candidates_by_name vg_ops g k) | Err => Err end
  | Err => Err
  end.
Definition two_inequivalent (a : res (list (res mappings))) : bool :=
  match a with Ok [Ok r1; Ok r2] => negb (equivb r1 r2) | _ => false end.

Definition nonconfluent_example : Prop :=
  (exists d, nc_dir = Ok d /\ well_formed d = true /\ has_bad d = false /\ tiny_count d = 1%nat
     /\ map (fun f => classify (fst f)) d = [FRoot s_r; FEdge s_r s_x; FEdge s_r s_y; FEdge s_x s_z; FEdge s_y s_z])
  (* the version at the bottom of the diamond has two candidate answers that are not equal even up to order,
     in the listing order as written and in the reverse one; x and y have one *)
  /\ two_inequivalent (nc_answers (fun d => d) s_z) = true
  /\ two_inequivalent (nc_answers (@rev _) s_z) = true
  /\ (exists r, nc_answers (fun d => d) s_x = Ok [Ok r]).

Lemma nonconfluent_example_holds : nonconfluent_example.
Proof.
  unfold nonconfluent_example. split; [|split; [vm_compute; reflexivity|split; [vm_compute; reflexivity|]]].
  - eexists. split; [vm_compute; reflexivity|]. repeat split; vm_compute; reflexivity.
  - eexists. vm_compute. reflexivity.
Qed.
