(* C05 — soundness with respect to a history; uniqueness of the answer on trees *)
From FB Require Import C05.Model C05.Theory1 C05.Theory2 C05.Theory3 C05.Theory4.
From Coq Require Import Lia Permutation.

Lemma find_edge_some {C} (es : list (edge C)) a b :
  In b (succs es a) -> exists e, find_edge es a b = Some e /\ In e es /\ e_src e = a /\ e_dst e = b.
Proof.
  intros Hb. unfold find_edge. unfold succs in Hb. apply in_map_iff in Hb. destruct Hb as (e0 & Hd0 & He0).
  destruct (find (fun e => Nat.eqb (e_dst e) b) (out_edges es a)) as [e|] eqn:F.
  - apply find_some in F. destruct F as [He Hd]. apply Nat.eqb_eq in Hd. exists e. split; [reflexivity|].
    unfold out_edges in He. apply in_rev in He. apply filter_In in He. destruct He as [He Hs]. apply Nat.eqb_eq in Hs. auto.
  - exfalso. pose proof (find_none _ _ F e0 He0) as Hn. cbn beta in Hn. rewrite Hd0, Nat.eqb_refl in Hn. discriminate.
Qed.

(* the fold along any walk from the root arrives at the history's mapping set of the end node *)
Lemma fold_history {C M D} (o : ops C M D) (R : M -> M -> Prop) (es : list (edge C)) (Hm : nat -> M) root m0 :
  (forall a b c, R a b -> R b c -> R a c) ->
  (forall dd a a' b, R a' a -> apply o dd a = Ok b -> exists b', apply o dd a' = Ok b' /\ R b' b) ->
  R m0 (Hm root) ->
  (forall e, In e es -> exists dd b, parse_diff o (snd (e_file e)) = Ok dd /\ apply o dd (Hm (e_src e)) = Ok b /\ R b (Hm (e_dst e))) ->
  forall l, fwalk es root l -> exists m, fold_path o es m0 (root :: l) = Ok m /\ R m (Hm (last l root)).
Proof.
  intros Rt Rapply R0 He l. induction l as [|v l IH] using rev_ind; intros Hw.
  - exists m0. split; [reflexivity|exact R0].
  - apply fwalk_app in Hw. destruct Hw as [Hw [Hv _]]. destruct (IH Hw) as (m1 & F1 & R1).
    change (root :: l ++ [v]) with ((root :: l) ++ [v]). rewrite fold_path_snoc, F1.
    destruct (find_edge_some es _ _ Hv) as (e & Fe & Hin & Hs & Hd). unfold step. rewrite Fe.
    destruct (He e Hin) as (dd & b & Pd & Ap & Rb). rewrite Pd. rewrite Hs in Ap. rewrite Hd in Rb.
    destruct (Rapply dd _ m1 b R1 Ap) as (b' & Ap' & Rb'). exists b'. split; [exact Ap'|].
    rewrite last_app. cbn [last]. apply (Rt _ b); assumption.
Qed.

Lemma shortest_nonempty {C} (es : list (edge C)) root target fuel : forall k level,
  level_ok es root k level -> forall l, fwalk es root l -> last l root = target ->
  (k <= length l < k + fuel)%nat -> shortest fuel es target level <> [].
Proof.
  induction fuel as [|f IH]; intros k level HL l Hw Hl Hlen; [lia|]. cbn [shortest].
  destruct (filter (ends_at target) level) as [|x hits] eqn:F; [|discriminate].
  apply (IH (S k) _ (level_ok_step es root k level HL) l Hw Hl).
  destruct (Nat.eq_dec (length l) k) as [E|E]; [|lia]. exfalso.
  assert (Hin : In (rev (root :: l)) (filter (ends_at target) level)).
  { apply filter_In. split; [apply HL; exists l; auto|apply ends_at_rev; exact Hl]. }
  rewrite F in Hin. destruct Hin.
Qed.

Lemma candidates_of_paths {C M D} (o : ops C M D) (g : graph C M) v l r :
  fwalk (g_edges g) (g_root g) l -> last l (g_root g) = v -> (length l <= length (g_nodes g))%nat ->
  In r (candidates o g v) -> exists p, In p (shortest_paths g v) /\ r = run_path o g p.
Proof.
  intros Hw Hl Hlen. unfold candidates. destruct (shortest_paths g v) as [|p ps] eqn:E.
  - exfalso. unfold shortest_paths in E. apply map_eq_nil in E. revert E.
    apply (shortest_nonempty (g_edges g) (g_root g) v _ 0 _ (level_ok_0 _ _) l Hw Hl). lia.
  - intros Hr. apply in_map_iff in Hr. destruct Hr as (q & <- & Hq). exists q. split; [exact Hq|reflexivity].
Qed.

(* history soundness: R relates a mapping set to what the history says it should be (equality, or
   equality up to insertion order); the laws of the composed operations are explicit premises. *)
Theorem history_sound {C M D} (o : ops C M D) (R : M -> M -> Prop) (H : str -> M) (d : list (file C)) g :
  well_formed d = true -> resolve (load_root o) d = Ok g ->
  (* laws of the parameters *)
  (forall a b c, R a b -> R b c -> R a c) ->
  (forall dd a a' b, R a' a -> apply o dd a = Ok b -> exists b', apply o dd a' = Ok b' /\ R b' b) ->
  (forall a a' e, R a' a -> extend o a = Ok e -> exists e', extend o a' = Ok e' /\ R e' e) ->
  (* the directory was produced from the history H *)
  (forall f vr m, In f d -> classify (fst f) = FRoot vr -> load_root o (snd f) = Ok m -> R m (H vr)) ->
  (forall f p v, In f d -> classify (fst f) = FEdge p v ->
     exists dd b, parse_diff o (snd f) = Ok dd /\ apply o dd (H p) = Ok b /\ R b (H v)) ->
  (* then every reachable version is answered by its extended mapping set *)
  forall k sp i v, get g k = Ok (sp, i) -> nth_error (g_nodes g) i = Some v ->
  (exists vr f L, In f d /\ classify (fst f) = FRoot vr /\ nwalk d vr L /\ last L vr = v) ->
  forall e', extend o (H v) = Ok e' ->
  forall r, In r (candidates_by_name o g k) -> exists e, r = Ok e /\ R e e'.
Proof.
  intros Hwf Hres Rt Rapply Rext Hroot Hedge k sp i v Hget Hv (vr & f & L & Hf & K & HW & HL) e' He' r Hr.
  unfold candidates_by_name in Hr. rewrite Hget in Hr.
  destruct (root_of_dir _ d g Hwf Hres) as (st & f0 & vr0 & Hscan & HS & Hf0 & K0 & Hrn & Hlr & Hu & _ & En & Ee).
  assert (f = f0) by (apply Hu; [exact Hf|apply is_tiny_classify; exists vr; exact K]). subst f0.
  assert (vr0 = vr) by congruence. subst vr0.
  rewrite En in Hrn, Hv. destruct (nwalk_fwalk _ d st HS L _ _ Hrn HW) as (l & Hnamed & Hfw).
  pose proof (named_last _ _ _ _ _ Hnamed Hrn) as Hlast. rewrite HL in Hlast.
  pose proof HS as [[_ [Hnd _]] _ Hedges _].
  assert (Hli : last l (g_root g) = i) by (apply (nth_error_inj _ _ _ v Hnd Hlast Hv)).
  rewrite <- Ee in Hfw.
  pose proof (resolve_walks_bounded _ d g l Hres Hfw) as Hb.
  destruct (candidates_of_paths o g i l r Hfw Hli Hb Hr) as (p & Hp & ->).
  apply shortest_paths_spec in Hp. destruct Hp as (l' & -> & Hw' & Hl' & _ & _).
  set (Hm := fun j => H (nth j (sc_nodes st) [])).
  destruct (fold_history o R (g_edges g) Hm (g_root g) (g_root_mapping g) Rt Rapply) with (l := l') as (m & Fm & Rm).
  - unfold Hm. rewrite (nth_error_nth _ _ _ Hrn). apply (Hroot f vr _ Hf K Hlr).
  - intros e Hin. rewrite Ee in Hin. destruct (Forall2_in_l _ _ _ e Hedges Hin) as ([[p v0] f1] & Hne & (Hfile & Hs & Hd)).
    cbn [fst snd] in *. apply in_dir_edges in Hne. destruct Hne as [Hf1 K1].
    unfold Hm. rewrite (nth_error_nth _ _ _ Hs), (nth_error_nth _ _ _ Hd). rewrite Hfile. apply (Hedge f1 p v0 Hf1 K1).
  - exact Hw'.
  - unfold run_path. rewrite Fm. rewrite Hl' in Rm. unfold Hm in Rm. rewrite (nth_error_nth _ _ _ Hv) in Rm.
    destruct (Rext _ m e' Rm He') as (e & Ee' & Re). exists e. split; [exact Ee'|exact Re].
Qed.

(* the instance R := eq *)
Corollary history_sound_eq {C M D} (o : ops C M D) (H : str -> M) (d : list (file C)) g :
  well_formed d = true -> resolve (load_root o) d = Ok g ->
  (forall f vr, In f d -> classify (fst f) = FRoot vr -> load_root o (snd f) = Ok (H vr)) ->
  (forall f p v, In f d -> classify (fst f) = FEdge p v -> exists dd, parse_diff o (snd f) = Ok dd /\ apply o dd (H p) = Ok (H v)) ->
  forall k sp i v, get g k = Ok (sp, i) -> nth_error (g_nodes g) i = Some v ->
  (exists vr f L, In f d /\ classify (fst f) = FRoot vr /\ nwalk d vr L /\ last L vr = v) ->
  forall r, In r (candidates_by_name o g k) -> r = extend o (H v).
Proof.
  intros Hwf Hres Hroot Hedge k sp i v Hget Hv Hreach r Hr.
  destruct (extend o (H v)) as [e'|] eqn:Ex.
  - destruct (history_sound o eq H d g Hwf Hres) with (k := k) (sp := sp) (i := i) (v := v) (e' := e') (r := r) as (e & -> & ->); auto.
    + intros; congruence.
    + intros dd a a' b -> Hab. exists b. auto.
    + intros a a' e -> Hae. exists e. auto.
    + intros f vr m Hf K Hl. rewrite (Hroot f vr Hf K) in Hl. congruence.
    + intros f p v0 Hf K. destruct (Hedge f p v0 Hf K) as (dd & Pd & Ap). exists dd, (H v0). auto.
  - (* extend fails on the history's own mapping set: every candidate fails as well *)
    unfold candidates_by_name in Hr. rewrite Hget in Hr.
    destruct Hreach as (vr & f & L & Hf & K & HW & HL).
    destruct (root_of_dir _ d g Hwf Hres) as (st & f0 & vr0 & Hscan & HS & Hf0 & K0 & Hrn & Hlr & Hu & _ & En & Ee).
    assert (f = f0) by (apply Hu; [exact Hf|apply is_tiny_classify; exists vr; exact K]). subst f0.
    assert (vr0 = vr) by congruence. subst vr0.
    rewrite En in Hrn, Hv. destruct (nwalk_fwalk _ d st HS L _ _ Hrn HW) as (l & Hnamed & Hfw).
    pose proof (named_last _ _ _ _ _ Hnamed Hrn) as Hlast. rewrite HL in Hlast.
    pose proof HS as [[_ [Hnd _]] _ Hedges _].
    assert (Hli : last l (g_root g) = i) by (apply (nth_error_inj _ _ _ v Hnd Hlast Hv)).
    rewrite <- Ee in Hfw. pose proof (resolve_walks_bounded _ d g l Hres Hfw) as Hb.
    destruct (candidates_of_paths o g i l r Hfw Hli Hb Hr) as (p & Hp & ->).
    apply shortest_paths_spec in Hp. destruct Hp as (l' & -> & Hw' & Hl' & _ & _).
    set (Hm := fun j => H (nth j (sc_nodes st) [])).
    destruct (fold_history o eq (g_edges g) Hm (g_root g) (g_root_mapping g)) with (l := l') as (m & Fm & Rm).
    + intros; congruence.
    + intros dd a a' b -> Hab. exists b. auto.
    + unfold Hm. rewrite (nth_error_nth _ _ _ Hrn). rewrite (Hroot f vr Hf K) in Hlr. congruence.
    + intros e Hin. rewrite Ee in Hin. destruct (Forall2_in_l _ _ _ e Hedges Hin) as ([[p v0] f1] & Hne & (Hfile & Hs & Hd)).
      cbn [fst snd] in *. apply in_dir_edges in Hne. destruct Hne as [Hf1 K1].
      unfold Hm. rewrite (nth_error_nth _ _ _ Hs), (nth_error_nth _ _ _ Hd). rewrite Hfile.
      destruct (Hedge f1 p v0 Hf1 K1) as (dd & Pd & Ap). exists dd, (H v0). auto.
    + exact Hw'.
    + unfold run_path. rewrite Fm, Rm, Hl'. unfold Hm. rewrite (nth_error_nth _ _ _ Hv). exact Ex.
Qed.

(* the directory is literally the printed history: write/print/diff_of are further parameters,
   the laws of C03 (text round trip), C04 (diff/apply through the text form) and C11
   (contract after extend) are premises *)
Corollary history_sound_composed {C M D} (o : ops C M D) (R : M -> M -> Prop) (good : M -> Prop)
    (write_tiny : M -> C) (print_diff : D -> C) (diff_of : M -> M -> res D)
    (H : str -> M) (d : list (file C)) g :
  well_formed d = true -> resolve (load_root o) d = Ok g ->
  (forall a b c, R a b -> R b c -> R a c) ->
  (forall dd a a' b, R a' a -> apply o dd a = Ok b -> exists b', apply o dd a' = Ok b' /\ R b' b) ->
  (forall a a' e, R a' a -> extend o a = Ok e -> exists e', extend o a' = Ok e' /\ R e' e) ->
  (* C03 + C11: reading back the written extended form and contracting it gives the original *)
  (forall m e m', good m -> extend o m = Ok e -> load_root o (write_tiny e) = Ok m' -> R m' m) ->
  (* C04: the printed diff of a and b reads back as a diff that turns a into b *)
  (forall a b dd, good a -> good b -> diff_of a b = Ok dd ->
     exists dd' b', parse_diff o (print_diff dd) = Ok dd' /\ apply o dd' a = Ok b' /\ R b' b) ->
  (* the directory is the printed history *)
  (forall v, In v (dir_versions d) -> good (H v)) ->
  (forall f vr, In f d -> classify (fst f) = FRoot vr -> exists e, extend o (H vr) = Ok e /\ snd f = write_tiny e) ->
  (forall f p v, In f d -> classify (fst f) = FEdge p v -> exists dd, diff_of (H p) (H v) = Ok dd /\ snd f = print_diff dd) ->
  forall k sp i v, get g k = Ok (sp, i) -> nth_error (g_nodes g) i = Some v ->
  (exists vr f L, In f d /\ classify (fst f) = FRoot vr /\ nwalk d vr L /\ last L vr = v) ->
  forall e', extend o (H v) = Ok e' ->
  forall r, In r (candidates_by_name o g k) -> exists e, r = Ok e /\ R e e'.
Proof.
  intros Hwf Hres Rt Rapply Rext Lroot Ldiff Hgood Hrootf Hedgef.
  assert (Hin_versions : forall f x, In f d -> In x (file_versions (fst f)) -> In x (dir_versions d)).
  { intros f x Hf Hx. unfold dir_versions. apply in_flat_map. exists f. auto. }
  apply (history_sound o R H d g Hwf Hres Rt Rapply Rext).
  - intros f vr m Hf K Hl. destruct (Hrootf f vr Hf K) as (e & Ex & Ec). rewrite Ec in Hl.
    apply (Lroot (H vr) e m); [|exact Ex|exact Hl]. apply Hgood. apply (Hin_versions f); [exact Hf|].
    unfold file_versions. rewrite K. left. reflexivity.
  - intros f p v Hf K. destruct (Hedgef f p v Hf K) as (dd & Dd & Ec). rewrite Ec.
    apply (Ldiff (H p) (H v) dd); [| |exact Dd]; apply Hgood; apply (Hin_versions f); try exact Hf;
      unfold file_versions; rewrite K; [right; left; reflexivity|left; reflexivity].
Qed.

(* ---------- trees: exactly one candidate ---------- *)
Definition in_degree_le_1 {C} (es : list (edge C)) : Prop :=
  forall a b v, In v (succs es a) -> In v (succs es b) -> a = b.

Lemma tree_walk_unique {C} (es : list (edge C)) root : in_degree_le_1 es -> forall l1 l2,
  fwalk es root l1 -> fwalk es root l2 -> length l1 = length l2 -> last l1 root = last l2 root -> l1 = l2.
Proof.
  intros Ht l1. induction l1 as [|x l1 IH] using rev_ind; intros l2 H1 H2 Hlen Hlast.
  - destruct l2; [reflexivity|discriminate].
  - destruct (exists_last (l := l2)) as (l2' & y & ->).
    { intros ->. rewrite app_length in Hlen. cbn in Hlen. lia. }
    rewrite !last_app in Hlast. cbn [last] in Hlast. subst y.
    apply fwalk_app in H1. destruct H1 as [H1 [Hx1 _]]. apply fwalk_app in H2. destruct H2 as [H2 [Hx2 _]].
    rewrite !app_length in Hlen. cbn [length] in Hlen.
    rewrite (IH l2' H1 H2 ltac:(lia) (Ht _ _ _ Hx1 Hx2)). reflexivity.
Qed.

Lemma candidates_nonempty {C M D} (o : ops C M D) (g : graph C M) v : candidates o g v <> [].
Proof. unfold candidates. destruct (shortest_paths g v); discriminate. Qed.

Theorem tree_unique {C M D} (o : ops C M D) (g : graph C M) v :
  in_degree_le_1 (g_edges g) -> exists r, forall x, In x (candidates o g v) <-> x = r.
Proof.
  intros Ht.
  assert (Hall : forall p q, In p (shortest_paths g v) -> In q (shortest_paths g v) -> p = q).
  { intros p q Hp Hq. apply shortest_paths_spec in Hp, Hq.
    destruct Hp as (l1 & -> & W1 & L1 & _ & M1). destruct Hq as (l2 & -> & W2 & L2 & _ & M2). f_equal.
    apply (tree_walk_unique (g_edges g) (g_root g) Ht l1 l2 W1 W2); [|congruence].
    pose proof (M1 l2 W2 L2 ltac:(lia)). pose proof (M2 l1 W1 L1 ltac:(lia)). lia. }
  unfold candidates. destruct (shortest_paths g v) as [|p ps] eqn:E.
  - exists Err. intros x. split; [intros [<-|[]]; reflexivity|intros ->; left; reflexivity].
  - exists (run_path o g p). intros x. split.
    + intros Hx. apply in_map_iff in Hx. destruct Hx as (q & <- & Hq). f_equal. apply Hall; [exact Hq|left; reflexivity].
    + intros ->. left. reflexivity.
Qed.

(* a directory in which no version is the child of two different parents is a tree *)
Theorem tree_dir {C M} (lr : C -> res M) (d : list (file C)) g :
  well_formed d = true -> resolve lr d = Ok g ->
  (forall f1 f2 p1 p2 v, In f1 d -> In f2 d -> classify (fst f1) = FEdge p1 v -> classify (fst f2) = FEdge p2 v -> p1 = p2) ->
  in_degree_le_1 (g_edges g).
Proof.
  intros Hwf Hres Htree a b v Ha Hb.
  destruct (root_of_dir _ d g Hwf Hres) as (st & _ & _ & _ & HS & _ & _ & _ & _ & _ & _ & _ & Ee).
  rewrite Ee in Ha, Hb. destruct (succs_nedge _ d st a v HS Ha) as (va & vv & Hna & Hnv & (f1 & Hf1 & K1)).
  destruct (succs_nedge _ d st b v HS Hb) as (vb & vv' & Hnb & Hnv' & (f2 & Hf2 & K2)).
  assert (vv' = vv) by congruence. subst vv'.
  pose proof (Htree f1 f2 va vb vv Hf1 Hf2 K1 K2) as E. subst vb.
  destruct HS as [[_ [Hnd _]] _ _ _]. apply (nth_error_inj _ _ _ va Hnd Hna Hnb).
Qed.
