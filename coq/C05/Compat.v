(* C05 bridging — C04's apply respects C04's equivalence [mequiv] (equality up to the order of every
   map): applying a well-formed diff to two equivalent mapping sets either fails on both or gives
   equivalent results.  Proved from C04's key-by-key specification of one map level
   (apply_map_spec), generically in the level, then instantiated at the four levels and at the
   mappings level.  (This lemma is not part of C04; it is what lets C04's inverse law be iterated
   along a path of the version graph, where the running mapping set is only equivalent to the
   history's.) *)
From FB Require Import C04.Model C04.Hyps C04.Theory C04.Theory2.
From Coq Require Import Lia.

(* ---------- one key ---------- *)
Lemma entry_compat {K D T} (L : level K D T) (E : T -> T -> Prop) k od ot ot' o :
  (forall t t' f to t1, E t' t -> l_chg L t f to = Ok t1 -> exists t1', l_chg L t' f to = Ok t1' /\ E t1' t1) ->
  (forall d t t' t2, od = Some d -> E t' t -> l_child L d t = Ok t2 -> exists t2', l_child L d t' = Ok t2' /\ E t2' t2) ->
  (forall k b t0, l_mk L k b = Ok t0 -> E t0 t0) ->
  opt_rel E ot' ot ->
  entry_apply L k od ot = Ok o ->
  exists o', entry_apply L k od ot' = Ok o' /\ opt_rel E o' o.
Proof.
  intros Hchg Hchild Hmk Hrel H.
  destruct od as [d|].
  - destruct ot as [t|], ot' as [t'|]; cbn [opt_rel] in Hrel; try contradiction; cbn [entry_apply] in *.
    + destruct (l_info L d) as [|b|a|a b].
      * apply bind_ok in H. destruct H as (t2 & Hc & [= <-]).
        destruct (Hchild d t t' t2 eq_refl Hrel Hc) as (t2' & Hc' & E2). exists (Some t2'). rewrite Hc'. split; [reflexivity|exact E2].
      * apply bind_ok in H. destruct H as (t1 & Hg & H). apply bind_ok in H. destruct H as (t2 & Hc & [= <-]).
        destruct (Hchg t t' _ _ t1 Hrel Hg) as (t1' & Hg' & E1).
        destruct (Hchild d t1 t1' t2 eq_refl E1 Hc) as (t2' & Hc' & E2).
        exists (Some t2'). rewrite Hg'. cbn [bind]. rewrite Hc'. split; [reflexivity|exact E2].
      * apply bind_ok in H. destruct H as (t1 & Hg & [= <-]).
        destruct (Hchg t t' _ _ t1 Hrel Hg) as (t1' & Hg' & E1).
        exists None. rewrite Hg'. split; [reflexivity|exact I].
      * apply bind_ok in H. destruct H as (t1 & Hg & H). apply bind_ok in H. destruct H as (t2 & Hc & [= <-]).
        destruct (Hchg t t' _ _ t1 Hrel Hg) as (t1' & Hg' & E1).
        destruct (Hchild d t1 t1' t2 eq_refl E1 Hc) as (t2' & Hc' & E2).
        exists (Some t2'). rewrite Hg'. cbn [bind]. rewrite Hc'. split; [reflexivity|exact E2].
    + destruct (l_info L d) as [|b|a|a b]; try discriminate.
      apply bind_ok in H. destruct H as (t0 & Hm & H). apply bind_ok in H. destruct H as (t2 & Hc & [= <-]).
      destruct (Hchild d t0 t0 t2 eq_refl (Hmk _ _ _ Hm) Hc) as (t2' & Hc' & E2).
      assert (t2' = t2) by congruence. subst t2'.
      exists (Some t2). rewrite Hm. cbn [bind]. rewrite Hc. split; [reflexivity|exact E2].
  - cbn [entry_apply] in *. injection H as <-. exists ot'. split; [reflexivity|exact Hrel].
Qed.

(* ---------- one map level ---------- *)
Theorem level_compat {K D T} (L : level K D T) (HL : level_ok L) (E : T -> T -> Prop) ds ts ts' r :
  NoDup (map (l_dkey L) ds) -> NoDup (map (l_tkey L) ts) -> NoDup (map (l_tkey L) ts') ->
  (forall k, opt_rel E (tfind L k ts') (tfind L k ts)) ->
  (forall t t' f to t1, E t' t -> l_chg L t f to = Ok t1 -> exists t1', l_chg L t' f to = Ok t1' /\ E t1' t1) ->
  (forall d t t' t2, In d ds -> E t' t -> l_child L d t = Ok t2 -> exists t2', l_child L d t' = Ok t2' /\ E t2' t2) ->
  (forall k b t0, l_mk L k b = Ok t0 -> E t0 t0) ->
  apply_map_L L ds ts = Ok r ->
  exists r', apply_map_L L ds ts' = Ok r' /\ NoDup (map (l_tkey L) r') /\ NoDup (map (l_tkey L) r)
             /\ forall k, opt_rel E (tfind L k r') (tfind L k r).
Proof.
  intros Hd Ht Ht' Hrel Hchg Hchild Hmk Hr.
  pose proof (apply_map_spec L HL ds ts Hd Ht) as S. rewrite Hr in S. destruct S as [Hndr Hent].
  assert (Hk : forall k, exists o', entry_apply L k (dfind L k ds) (tfind L k ts') = Ok o' /\ opt_rel E o' (tfind L k r)).
  { intros k. apply (entry_compat L E k (dfind L k ds) (tfind L k ts) (tfind L k ts') (tfind L k r)); auto.
    intros d t t' t2 Hdf. apply Hchild. unfold dfind in Hdf.
    apply (find_key_some _ (lo_keqb L HL)) in Hdf. tauto. }
  pose proof (apply_map_spec L HL ds ts' Hd Ht') as S'.
  destruct (apply_map_L L ds ts') as [r'|].
  - destruct S' as [Hndr' Hent']. exists r'. split; [reflexivity|]. split; [exact Hndr'|]. split; [exact Hndr|].
    intros k. destruct (Hk k) as (o' & Ho' & Ho). rewrite Hent' in Ho'. injection Ho' as <-. exact Ho.
  - exfalso. destruct S' as (k & _ & Ek). destruct (Hk k) as (o' & Ho' & _). congruence.
Qed.

(* ---------- parameters and fields: the equivalence of entries is equality ---------- *)
Lemma eq_chg {T} (chg : T -> option str -> option str -> res T) :
  forall t t' f to t1, t' = t -> chg t f to = Ok t1 -> exists t1', chg t' f to = Ok t1' /\ t1' = t1.
Proof. intros t t' f to t1 -> H. exists t1. auto. Qed.

Lemma params_compat n tns ds ts ts' r :
  NoDup (map pd_index ds) -> params_eqv ts' ts -> apply_params n tns ds ts = Ok r ->
  exists r', apply_params n tns ds ts' = Ok r' /\ params_eqv r' r.
Proof.
  intros Hd (Ht' & Ht & Hf) Hr.
  destruct (level_compat (Lparam n tns) (Lparam_ok n tns) eq ds ts ts' r) as (r' & Hr' & N' & N & F); auto.
  - intros k. apply opt_rel_eq. apply Hf.
  - apply eq_chg.
  - intros d t t' t2 _ -> H. exists t2. auto.
  - exists r'. split; [exact Hr'|]. split; [exact N'|]. split; [exact N|]. intros k. apply opt_rel_eq. apply F.
Qed.

Lemma fields_compat n tns ds ts ts' r :
  n <> O -> NoDup (map fdkey ds) -> fields_eqv ts' ts -> apply_fields n tns ds ts = Ok r ->
  exists r', apply_fields n tns ds ts' = Ok r' /\ fields_eqv r' r.
Proof.
  intros Hn Hd (Ht' & Ht & Hf) Hr.
  destruct (level_compat (Lfield n tns) (Lfield_ok n tns Hn) eq ds ts ts' r) as (r' & Hr' & N' & N & F); auto.
  - intros k. apply opt_rel_eq. apply Hf.
  - apply eq_chg.
  - intros d t t' t2 _ -> H. exists t2. auto.
  - exists r'. split; [exact Hr'|]. split; [exact N'|]. split; [exact N|]. intros k. apply opt_rel_eq. apply F.
Qed.

(* ---------- methods ---------- *)
Lemma chg_meth_compat tns t t' f to t1 :
  meth_eqv t' t -> chg_meth tns t f to = Ok t1 -> exists t1', chg_meth tns t' f to = Ok t1' /\ meth_eqv t1' t1.
Proof.
  intros (E1 & E2 & E3 & E4) H. unfold chg_meth in *. apply bind_ok in H. destruct H as (l & Hl & [= <-]).
  rewrite E2, Hl. cbn [bind]. eexists. split; [reflexivity|]. repeat split; cbn; try assumption; apply E4.
Qed.

Lemma apply_meth_compat n tns d t t' t2 :
  wf_mdiff d = true -> meth_eqv t' t -> apply_meth n tns d t = Ok t2 ->
  exists t2', apply_meth n tns d t' = Ok t2' /\ meth_eqv t2' t2.
Proof.
  intros Hd (E1 & E2 & E3 & E4) H. apply (nodupb_NoDup _ N_eqb_ok) in Hd.
  unfold apply_meth in *. apply bind_ok in H. destruct H as (doc & Hdoc & H). apply bind_ok in H. destruct H as (ps & Hps & [= <-]).
  destruct (params_compat n tns _ _ _ _ Hd E4 Hps) as (ps' & Hps' & Eps).
  rewrite E3, Hdoc. cbn [bind]. rewrite Hps'. cbn [bind]. eexists. split; [reflexivity|].
  repeat split; cbn; try assumption; apply Eps.
Qed.

Lemma new_meth_refl n tns k b t0 : new_meth n tns k b = Ok t0 -> meth_eqv t0 t0.
Proof.
  unfold new_meth. intros H. apply bind_ok in H. destruct H as (l & _ & [= <-]).
  repeat split; cbn; try constructor.
Qed.

Lemma meths_compat n tns ds ts ts' r :
  n <> O -> NoDup (map mdkey ds) -> forallb wf_mdiff ds = true -> meths_eqv ts' ts ->
  apply_meths n tns ds ts = Ok r -> exists r', apply_meths n tns ds ts' = Ok r' /\ meths_eqv r' r.
Proof.
  intros Hn Hd Hw (Ht' & Ht & Hf) Hr. rewrite forallb_forall in Hw.
  destruct (level_compat (Lmeth n tns) (Lmeth_ok n tns Hn) meth_eqv ds ts ts' r) as (r' & Hr' & N' & N & F); auto.
  - apply chg_meth_compat.
  - intros d t t' t2 Hin. apply apply_meth_compat. apply Hw. exact Hin.
  - apply new_meth_refl.
  - exists r'. split; [exact Hr'|]. split; [exact N'|]. split; [exact N|exact F].
Qed.

(* ---------- classes ---------- *)
Lemma chg_class_compat tns t t' f to t1 :
  class_eqv t' t -> chg_class tns t f to = Ok t1 -> exists t1', chg_class tns t' f to = Ok t1' /\ class_eqv t1' t1.
Proof.
  intros (E1 & E2 & E3 & E4) H. unfold chg_class in *. apply bind_ok in H. destruct H as (l & Hl & [= <-]).
  rewrite E1, Hl. cbn [bind]. eexists. split; [reflexivity|]. repeat split; cbn; try assumption; try apply E3; apply E4.
Qed.

Lemma apply_class_compat n tns d t t' t2 :
  n <> O -> wf_cdiff d = true -> class_eqv t' t -> apply_class n tns d t = Ok t2 ->
  exists t2', apply_class n tns d t' = Ok t2' /\ class_eqv t2' t2.
Proof.
  intros Hn Hd (E1 & E2 & E3 & E4) H. unfold wf_cdiff in Hd. rewrite !andb_true_iff in Hd. destruct Hd as ((Hdf & Hdm) & Hwm).
  apply (nodupb_NoDup _ key2_eqb_ok) in Hdf, Hdm.
  unfold apply_class in *. apply bind_ok in H. destruct H as (doc & Hdoc & H). apply bind_ok in H. destruct H as (fs & Hfs & H).
  apply bind_ok in H. destruct H as (ms & Hms & [= <-]).
  destruct (fields_compat n tns _ _ _ _ Hn Hdf E3 Hfs) as (fs' & Hfs' & Efs).
  destruct (meths_compat n tns _ _ _ _ Hn Hdm Hwm E4 Hms) as (ms' & Hms' & Ems).
  rewrite E2, Hdoc. cbn [bind]. rewrite Hfs'. cbn [bind]. rewrite Hms'. cbn [bind]. eexists. split; [reflexivity|].
  repeat split; cbn; try assumption; try apply Efs; apply Ems.
Qed.

Lemma new_class_refl n tns k b t0 : new_class n tns k b = Ok t0 -> class_eqv t0 t0.
Proof.
  unfold new_class. intros H. apply bind_ok in H. destruct H as (l & _ & [= <-]).
  repeat split; cbn; try constructor.
Qed.

Lemma classes_compat n tns ds ts ts' r :
  n <> O -> NoDup (map cd_name ds) -> forallb wf_cdiff ds = true -> classes_eqv ts' ts ->
  apply_classes n tns ds ts = Ok r -> exists r', apply_classes n tns ds ts' = Ok r' /\ classes_eqv r' r.
Proof.
  intros Hn Hd Hw (Ht' & Ht & Hf) Hr. rewrite forallb_forall in Hw.
  destruct (level_compat (Lclass n tns) (Lclass_ok n tns Hn) class_eqv ds ts ts' r) as (r' & Hr' & N' & N & F); auto.
  - apply chg_class_compat.
  - intros d t t' t2 Hin. apply apply_class_compat; [exact Hn|]. apply Hw. exact Hin.
  - apply new_class_refl.
  - exists r'. split; [exact Hr'|]. split; [exact N'|]. split; [exact N|exact F].
Qed.

(* ---------- mapping sets ---------- *)
Theorem apply_at_compat tns d t t' r :
  wf_diff d = true -> ms_ns t <> [] -> mequiv t' t -> apply_at tns d t = Ok r ->
  exists r', apply_at tns d t' = Ok r' /\ mequiv r' r.
Proof.
  intros Hd Hns (E1 & E2 & E3) H. unfold wf_diff in Hd. rewrite andb_true_iff in Hd. destruct Hd as [Hdc Hw].
  apply (nodupb_NoDup _ str_eqb_ok) in Hdc.
  assert (Hn : length (ms_ns t) <> O) by (destruct (ms_ns t); [contradiction|discriminate]).
  unfold apply_at in *. cbv zeta in *. apply bind_ok in H. destruct H as (ns' & Hns' & H).
  apply bind_ok in H. destruct H as (doc & Hdoc & H). apply bind_ok in H. destruct H as (cs & Hcs & [= <-]).
  destruct (classes_compat _ tns _ _ _ _ Hn Hdc Hw E3 Hcs) as (cs' & Hcs' & Ecs).
  rewrite E1, E2, Hns', Hdoc. cbn [bind]. rewrite Hcs'. cbn [bind]. eexists. split; [reflexivity|].
  split; [reflexivity|]. split; [reflexivity|exact Ecs].
Qed.

Theorem apply_to_compat d t t' nsname r :
  wf_diff d = true -> mequiv t' t -> apply_to d t nsname = Ok r ->
  exists r', apply_to d t' nsname = Ok r' /\ mequiv r' r.
Proof.
  intros Hd E H. pose proof E as (E1 & _). unfold apply_to in *. rewrite E1.
  destruct (index_of nsname (ms_ns t)) as [tns|] eqn:I; [|discriminate].
  apply (apply_at_compat tns d t t' r Hd); [|exact E|exact H].
  intros Hnil. rewrite Hnil in I. discriminate.
Qed.

(* ---------- mequiv is an equivalence on mapping sets with distinct keys ---------- *)
Lemma opt_rel_trans {A} (R : A -> A -> Prop) (a b c : option A) :
  (forall x y z, R x y -> R y z -> R x z) -> opt_rel R a b -> opt_rel R b c -> opt_rel R a c.
Proof. intros HT. destruct a, b, c; cbn; try tauto. apply HT. Qed.

Lemma opt_rel_sym {A} (R : A -> A -> Prop) (a b : option A) :
  (forall x y, R x y -> R y x) -> opt_rel R a b -> opt_rel R b a.
Proof. intros HS. destruct a, b; cbn; try tauto. apply HS. Qed.

Lemma params_eqv_trans a b c : params_eqv a b -> params_eqv b c -> params_eqv a c.
Proof. intros (A1 & A2 & A3) (B1 & B2 & B3). repeat split; auto. intros k. rewrite A3. apply B3. Qed.
Lemma params_eqv_sym a b : params_eqv a b -> params_eqv b a.
Proof. intros (A1 & A2 & A3). repeat split; auto. Qed.
Lemma fields_eqv_trans a b c : fields_eqv a b -> fields_eqv b c -> fields_eqv a c.
Proof. intros (A1 & A2 & A3) (B1 & B2 & B3). repeat split; auto. intros k. rewrite A3. apply B3. Qed.
Lemma fields_eqv_sym a b : fields_eqv a b -> fields_eqv b a.
Proof. intros (A1 & A2 & A3). repeat split; auto. Qed.

Lemma meth_eqv_trans a b c : meth_eqv a b -> meth_eqv b c -> meth_eqv a c.
Proof.
  intros (A1 & A2 & A3 & A4) (B1 & B2 & B3 & B4). repeat split; try congruence; try apply A4; try apply B4.
  intros k. destruct A4 as (_ & _ & A4), B4 as (_ & _ & B4). rewrite A4. apply B4.
Qed.
Lemma meth_eqv_sym a b : meth_eqv a b -> meth_eqv b a.
Proof. intros (A1 & A2 & A3 & A4). repeat split; try congruence; apply params_eqv_sym in A4; apply A4. Qed.

Lemma meths_eqv_trans a b c : meths_eqv a b -> meths_eqv b c -> meths_eqv a c.
Proof.
  intros (A1 & A2 & A3) (B1 & B2 & B3). repeat split; auto. intros k.
  apply (opt_rel_trans meth_eqv _ (mfind k b) _ meth_eqv_trans); auto.
Qed.
Lemma meths_eqv_sym a b : meths_eqv a b -> meths_eqv b a.
Proof. intros (A1 & A2 & A3). repeat split; auto. intros k. apply (opt_rel_sym _ _ _ meth_eqv_sym). apply A3. Qed.

Lemma class_eqv_trans a b c : class_eqv a b -> class_eqv b c -> class_eqv a c.
Proof.
  intros (A1 & A2 & A3 & A4) (B1 & B2 & B3 & B4). split; [congruence|]. split; [congruence|].
  split; [eapply fields_eqv_trans; eassumption|eapply meths_eqv_trans; eassumption].
Qed.
Lemma class_eqv_sym a b : class_eqv a b -> class_eqv b a.
Proof.
  intros (A1 & A2 & A3 & A4). split; [congruence|]. split; [congruence|].
  split; [apply fields_eqv_sym; assumption|apply meths_eqv_sym; assumption].
Qed.

Lemma classes_eqv_trans a b c : classes_eqv a b -> classes_eqv b c -> classes_eqv a c.
Proof.
  intros (A1 & A2 & A3) (B1 & B2 & B3). repeat split; auto. intros k.
  apply (opt_rel_trans class_eqv _ (cfind k b) _ class_eqv_trans); auto.
Qed.
Lemma classes_eqv_sym a b : classes_eqv a b -> classes_eqv b a.
Proof. intros (A1 & A2 & A3). repeat split; auto. intros k. apply (opt_rel_sym _ _ _ class_eqv_sym). apply A3. Qed.

Theorem mequiv_trans a b c : mequiv a b -> mequiv b c -> mequiv a c.
Proof.
  intros (A1 & A2 & A3) (B1 & B2 & B3). split; [congruence|]. split; [congruence|].
  eapply classes_eqv_trans; eassumption.
Qed.
Theorem mequiv_sym a b : mequiv a b -> mequiv b a.
Proof. intros (A1 & A2 & A3). split; [congruence|]. split; [congruence|]. apply classes_eqv_sym. exact A3. Qed.
