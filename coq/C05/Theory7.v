(* C05 — the candidates do not depend on the listing order *)
From FB Require Import C05.Model C05.Theory1 C05.Theory2 C05.Theory3 C05.Theory4 C05.Theory5 C05.Theory6.
From Coq Require Import Lia Permutation.

Lemma in_candidates {C M D} (o : ops C M D) (g : graph C M) v p :
  In p (shortest_paths g v) -> In (run_path o g p) (candidates o g v).
Proof.
  intros Hp. unfold candidates. destruct (shortest_paths g v) as [|q qs]; [destruct Hp|]. apply in_map. exact Hp.
Qed.

Lemma twin_of_resolve {C M} (lr : C -> res M) (d d' : list (file C)) g g' :
  well_formed d = true -> nodup_strb (map fst d) = true -> Permutation d d' ->
  resolve lr d = Ok g -> resolve lr d' = Ok g' ->
  exists st st', twin d d' st st'
    /\ g_versions g = sc_tbl st /\ g_nodes g = sc_nodes st /\ g_edges g = sc_edges st
    /\ g_versions g' = sc_tbl st' /\ g_nodes g' = sc_nodes st' /\ g_edges g' = sc_edges st'
    /\ corr st st' (g_root g) (g_root g') /\ g_root_mapping g = g_root_mapping g'
    /\ length (sc_nodes st) = length (sc_nodes st').
Proof.
  intros Hwf Hnd HP Hres Hres'.
  pose proof (resolve_perm lr d d' Hwf Hnd HP) as GE. rewrite Hres, Hres' in GE.
  pose proof (wf_versions_WF _ Hwf) as HW.
  assert (HW' : WF (dir_versions d')).
  { apply (WF_incl (dir_versions d)); [exact HW|]. intros x Hx. eapply Permutation_in; [symmetry; apply dir_versions_perm; exact HP|exact Hx]. }
  destruct (resolve_ok lr d g Hres) as (st & f & Hscan & Hr & Hl & Et & En & Ee & _).
  destruct (resolve_ok lr d' g' Hres') as (st' & f' & Hscan' & Hr' & Hl' & Et' & En' & Ee' & _).
  exists st, st'.
  assert (T : twin d d' st st').
  { constructor; [apply scan_WF; assumption|apply scan_WF; assumption| |apply nodup_strb_NoDup; exact Hnd].
    intros x. split; apply Permutation_in; [exact HP|symmetry; exact HP]. }
  split; [exact T|]. repeat (split; [assumption|]).
  split; [apply (root_twin d d' st st' _ f _ f' T Hr Hr')|]. split; [apply (ge_rootmap _ _ GE)|].
  rewrite <- En, <- En'. apply Permutation_length. apply (ge_nodes _ _ GE).
Qed.

(* a walk of the second graph to the twin of i, carried back to the first graph *)
Lemma walk_back {C} (d d' : list (file C)) st st' r r' i i' l' :
  Permutation d d' -> twin d d' st st' -> corr st st' r r' -> corr st st' i i' ->
  fwalk (sc_edges st') r' l' -> last l' r' = i' ->
  exists l, fwalk (sc_edges st) r l /\ last l r = i /\ length l = length l'.
Proof.
  intros HP T Hr Hi Hw Hl. pose proof (twin_sym d d' st st' HP T) as T'.
  destruct (corr_fwalk d' d st' st T' l' r' r (corr_sym _ _ _ _ Hr) Hw) as (l & Hc & Hwl).
  exists l. split; [exact Hwl|]. split; [|symmetry; apply (Forall2_length _ _ _ Hc)].
  pose proof (corr_last st' st l' l r' r Hc (corr_sym _ _ _ _ Hr)) as HL. rewrite Hl in HL.
  apply (corr_inj d' d st' st i' _ _ T' HL (corr_sym _ _ _ _ Hi)).
Qed.

Lemma candidates_twin {C M D} (o : ops C M D) (d d' : list (file C)) g g' i i' r :
  well_formed d = true -> nodup_strb (map fst d) = true -> Permutation d d' ->
  resolve (load_root o) d = Ok g -> resolve (load_root o) d' = Ok g' ->
  (exists v, nth_error (g_nodes g) i = Some v /\ nth_error (g_nodes g') i' = Some v) ->
  In r (candidates o g i) -> In r (candidates o g' i').
Proof.
  intros Hwf Hnd HP Hres Hres' Hi Hr.
  destruct (twin_of_resolve _ d d' g g' Hwf Hnd HP Hres Hres') as (st & st' & T & Et & En & Ee & Et' & En' & Ee' & Hroot & Hmap & Hlen).
  rewrite En, En' in Hi. change (corr st st' i i') in Hi.
  unfold candidates in Hr. destruct (shortest_paths g i) as [|p ps] eqn:E.
  - destruct Hr as [<-|[]]. unfold candidates. destruct (shortest_paths g' i') as [|p' ps'] eqn:E'; [left; reflexivity|]. exfalso.
    assert (Hp' : In p' (shortest_paths g' i')) by (rewrite E'; left; reflexivity).
    apply shortest_paths_spec in Hp'. destruct Hp' as (l' & _ & Hw' & Hl' & _ & _). rewrite Ee' in Hw'.
    destruct (walk_back d d' st st' _ _ i i' l' HP T Hroot Hi Hw' Hl') as (l & Hw & Hl & _).
    rewrite <- Ee in Hw. pose proof (resolve_walks_bounded _ d g l Hres Hw) as Hb.
    unfold shortest_paths in E. apply map_eq_nil in E. revert E.
    apply (shortest_nonempty (g_edges g) (g_root g) i _ 0 _ (level_ok_0 _ _) l Hw Hl). lia.
  - rewrite <- E in Hr. apply in_map_iff in Hr. destruct Hr as (q & <- & Hq).
    apply shortest_paths_spec in Hq. destruct Hq as (l & -> & Hw & Hl & Hb & Hmin). rewrite Ee in Hw.
    destruct (corr_fwalk d d' st st' T l _ _ Hroot Hw) as (l' & Hc & Hw').
    assert (Hl'i : last l' (g_root g') = i').
    { pose proof (corr_last st st' l l' _ _ Hc Hroot) as HL. rewrite Hl in HL. apply (corr_inj d d' st st' i _ _ T HL Hi). }
    assert (Hp' : In (g_root g' :: l') (shortest_paths g' i')).
    { apply shortest_paths_spec. exists l'. split; [reflexivity|]. split; [rewrite Ee'; exact Hw'|]. split; [exact Hl'i|].
      split; [rewrite <- (Forall2_length _ _ _ Hc), En', <- Hlen, <- En; exact Hb|].
      intros l2' Hw2' Hl2' _. rewrite Ee' in Hw2'.
      destruct (walk_back d d' st st' _ _ i i' l2' HP T Hroot Hi Hw2' Hl2') as (l2 & Hw2 & Hl2 & Hlen2).
      rewrite <- Ee in Hw2. pose proof (Hmin l2 Hw2 Hl2 ltac:(lia)) as Hle.
      rewrite <- (Forall2_length _ _ _ Hc), <- Hlen2. exact Hle. }
    assert (Erun : run_path o g (g_root g :: l) = run_path o g' (g_root g' :: l')).
    { unfold run_path. rewrite Ee, Ee', Hmap. rewrite (corr_fold o d d' st st' T l l' _ _ _ Hroot Hc Hw). reflexivity. }
    rewrite Erun. apply in_candidates. exact Hp'.
Qed.

Lemma get_valid {C} U (d : list (file C)) st k sp i :
  SInv U d st -> tbl_get k (sc_tbl st) = Some (sp, i) -> exists w, nth_error (sc_nodes st) i = Some w.
Proof.
  intros [[_ [_ Ht]] _ _ _] H. rewrite Ht in H. destruct (lookup_from_some 0 _ k sp i H) as (w & Hw & _ & _).
  rewrite Nat.sub_0_r in Hw. exists w. exact Hw.
Qed.

Theorem candidates_perm {C M D} (o : ops C M D) (d d' : list (file C)) g g' :
  well_formed d = true -> nodup_strb (map fst d) = true -> Permutation d d' ->
  resolve (load_root o) d = Ok g -> resolve (load_root o) d' = Ok g' ->
  forall k r, In r (candidates_by_name o g k) <-> In r (candidates_by_name o g' k).
Proof.
  intros Hwf Hnd HP Hres Hres' k r.
  pose proof (resolve_perm (load_root o) d d' Hwf Hnd HP) as GE. rewrite Hres, Hres' in GE.
  destruct (twin_of_resolve _ d d' g g' Hwf Hnd HP Hres Hres') as (st & st' & T & Et & En & Ee & Et' & En' & Ee' & _).
  pose proof (ge_get _ _ GE k) as G. unfold get_named in G. unfold candidates_by_name, get.
  assert (Hwf' : well_formed d' = true /\ nodup_strb (map fst d') = true).
  { split.
    - unfold well_formed, wf_versions. apply forallb_forall. intros u Hu.
      assert (Hu0 : In u (dir_versions d)) by (eapply Permutation_in; [symmetry; apply dir_versions_perm; exact HP|exact Hu]).
      unfold well_formed, wf_versions in Hwf. rewrite forallb_forall in Hwf. pose proof (Hwf u Hu0) as H0.
      apply andb_true_iff in H0. destruct H0 as [H1 H2]. apply andb_true_iff. split; [exact H1|].
      apply forallb_forall. intros w Hw. rewrite forallb_forall in H2. apply H2.
      eapply Permutation_in; [symmetry; apply dir_versions_perm; exact HP|exact Hw].
    - apply nodup_strb_NoDup. eapply Permutation_NoDup; [apply Permutation_map; exact HP|apply nodup_strb_NoDup; exact Hnd]. }
  destruct Hwf' as [Hwf' Hnd'].
  destruct (tbl_get k (g_versions g)) as [[sp i]|] eqn:Gk; destruct (tbl_get k (g_versions g')) as [[sp' i']|] eqn:Gk'; try discriminate G.
  - injection G as <- Hn. rewrite Et in Gk. rewrite Et' in Gk'.
    destruct (get_valid _ d st k sp i (tw_s _ _ _ _ T) Gk) as (w & Hw).
    destruct (get_valid _ d' st' k sp i' (tw_s' _ _ _ _ T) Gk') as (w' & Hw').
    rewrite En, En' in Hn. rewrite (nth_error_nth _ _ _ Hw), (nth_error_nth _ _ _ Hw') in Hn. subst w'.
    split.
    + apply (candidates_twin o d d' g g' i i' r Hwf Hnd HP Hres Hres'). exists w. rewrite En, En'. auto.
    + apply (candidates_twin o d' d g' g i' i r Hwf' Hnd' (Permutation_sym HP) Hres' Hres). exists w. rewrite En, En'. auto.
  - reflexivity.
Qed.
