(* C05 — the instantiated history theorem for a CONCRETE directory computed from a history:
   a history is a list of versions (root first, every parent before its children) with their
   mapping sets, and a list of edges (parent, child); [dir_of] writes the root file
   `<root>.tiny` = write (extend root) and one file `<parent>#<child>.tinydiff` = print (diff parent child)
   per edge.  All hypotheses are one boolean, [hist_ok]. *)
From FB Require Import C05.Model C05.Theory1 C05.Theory2 C05.Theory3 C05.Theory4 C05.Theory5 C05.Theory6 C05.Sim.
From FB Require Import C04.Model C04.Text C04.Hyps C04.Theory C04.Theory2 C04.TextTheory2 C04.TextTheory3.
From FB Require Import C05.Compat C05.Bridge C05.Instance.
From FB Require C03.Model C11.Model C11.Theory.
From FB Require Props.C03 Props.C04 Props.C11.
From Coq Require Import Lia Permutation.

Record history := mkHist { h_versions : list (str * mappings); h_edges : list (str * str) }.

Fixpoint hfind (v : str) (l : list (str * mappings)) : option mappings :=
  match l with [] => None | (w, M) :: l' => if str_eqb v w then Some M else hfind v l' end.
Definition empty_mappings : mappings := mkMappings [] None [].
Definition hget (h : history) (v : str) : mappings :=
  match hfind v (h_versions h) with Some M => M | None => empty_mappings end.
(* position in the version list: parents come first *)
Fixpoint hrank (v : str) (l : list (str * mappings)) : nat :=
  match l with [] => O | (w, _) :: l' => if str_eqb v w then O else S (hrank v l') end.

Definition root_name (v : str) : str := v ++ ext_tiny.
Definition edge_name (p v : str) : str := (p ++ sep_edge :: v) ++ ext_diff.

Definition root_file (v : str) (M : mappings) : res (file str) :=
  match X11.extend M ns_named with
  | Ok e => match X03.write e with Ok t => Ok (root_name v, t) | Err => Err end
  | Err => Err
  end.
Definition edge_file (h : history) (pv : str * str) : res (file str) :=
  match diff (hget h (fst pv)) (hget h (snd pv)) with
  | Ok dd => Ok (edge_name (fst pv) (snd pv), print dd)
  | Err => Err
  end.
Definition dir_of (h : history) : res (list (file str)) :=
  match h_versions h with
  | [] => Err
  | (vr, M) :: _ =>
      match root_file vr M, X11.mapM (edge_file h) (h_edges h) with
      | Ok rf, Ok es => Ok (rf :: es)
      | _, _ => Err
      end
  end.

(* ---------- the hypotheses, as one boolean ---------- *)
Definition edge_check (h : history) (pv : str * str) : bool :=
  negb (mem_N sep_edge (fst pv))
  && Nat.ltb (hrank (fst pv) (h_versions h)) (hrank (snd pv) (h_versions h))
  && version_ok (hget h (fst pv)) && version_ok (hget h (snd pv)) && edge_ok (hget h (fst pv)) (hget h (snd pv)).
Definition hist_versions (h : history) (vr : str) : list str := vr :: flat_map (fun pv => [snd pv; fst pv]) (h_edges h).
Definition hist_ok (h : history) : bool :=
  match h_versions h with
  | [] => false
  | (vr, M) :: _ =>
      version_ok M && root_ok M && forallb (edge_check h) (h_edges h) && wf_versions (hist_versions h vr)
  end.

(* a walk along the edges of the history *)
Fixpoint ewalk (es : list (str * str)) (a : str) (L : list str) : Prop :=
  match L with [] => True | v :: L' => In (a, v) es /\ ewalk es v L' end.

(* ---------- file names ---------- *)
Lemma classify_root_name v : classify (root_name v) = FRoot v.
Proof. unfold classify, root_name. rewrite strip_suffix_app. reflexivity. Qed.

Lemma not_tiny_diff x : strip_suffix ext_tiny (x ++ ext_diff) = None.
Proof.
  destruct (strip_suffix ext_tiny (x ++ ext_diff)) as [a|] eqn:E; [|reflexivity]. exfalso.
  apply strip_suffix_some in E. apply (f_equal (@rev N)) in E. rewrite !rev_app_distr in E.
  unfold ext_diff, ext_tiny in E. cbn [rev app] in E. discriminate.
Qed.

Lemma classify_edge_name_of p v : ~ In sep_edge p -> classify (edge_name p v) = FEdge p v.
Proof.
  intros Hp. unfold classify, edge_name. rewrite not_tiny_diff, strip_suffix_app.
  assert (E : split_once sep_edge (p ++ sep_edge :: v) = Some (p, v)) by (apply split_once_some; auto).
  rewrite E. reflexivity.
Qed.

(* ---------- the directory of a good history ---------- *)
Lemma hget_root vr M rest es : hget (mkHist ((vr, M) :: rest) es) vr = M.
Proof. unfold hget. cbn [h_versions hfind]. rewrite str_eqb_refl. reflexivity. Qed.

Lemma edge_check_spec h pv : edge_check h pv = true ->
  ~ In sep_edge (fst pv) /\ (hrank (fst pv) (h_versions h) < hrank (snd pv) (h_versions h))%nat
  /\ version_ok (hget h (fst pv)) = true /\ version_ok (hget h (snd pv)) = true
  /\ edge_ok (hget h (fst pv)) (hget h (snd pv)) = true.
Proof.
  unfold edge_check. rewrite !andb_true_iff, negb_true_iff. intros ((((H1 & H2) & H3) & H4) & H5).
  split; [apply FB.C11.Theory.mem_N_false; exact H1|]. split; [apply Nat.ltb_lt; exact H2|]. auto.
Qed.

Lemma edge_diff_ok A B : version_ok A = true -> version_ok B = true -> edge_ok A B = true -> exists dd, diff A B = Ok dd.
Proof.
  intros HA HB He.
  destruct (version_ok_spec A HA) as (HwA & H2A & _ & HnA & _). destruct (version_ok_spec B HB) as (HwB & _ & _ & HnB & _).
  unfold edge_ok in He. rewrite !andb_true_iff in He. destruct He as ((Hns & _) & _). apply list_str_eqb_eq in Hns.
  apply (FB.Props.C04.C04_diff_ok_iff A B HwA HwB). auto.
Qed.

Record dir_shape (h : history) (vr : str) (M : mappings) (d : list (file str)) : Prop := mkShape {
  ds_root : exists e t, X11.extend M ns_named = Ok e /\ X03.write e = Ok t /\ In (root_name vr, t) d;
  ds_files : forall f, In f d ->
     (exists e t, X11.extend M ns_named = Ok e /\ X03.write e = Ok t /\ f = (root_name vr, t))
     \/ (exists pv dd, In pv (h_edges h) /\ diff (hget h (fst pv)) (hget h (snd pv)) = Ok dd
                       /\ f = (edge_name (fst pv) (snd pv), print dd));
  ds_edges : forall pv, In pv (h_edges h) -> exists dd, diff (hget h (fst pv)) (hget h (snd pv)) = Ok dd
                       /\ In (edge_name (fst pv) (snd pv), print dd) d;
  ds_versions : dir_versions d = hist_versions h vr;
  ds_bad : has_bad d = false;
  ds_tiny : tiny_count d = 1%nat }.

Lemma edge_files_shape h : forall es fs,
  (forall pv, In pv es -> ~ In sep_edge (fst pv)) ->
  Forall2 (fun pv f => edge_file h pv = Ok f) es fs ->
  dir_versions fs = flat_map (fun pv => [snd pv; fst pv]) es /\ has_bad fs = false /\ tiny_count fs = O.
Proof.
  intros es fs Hp H. induction H as [|pv f es fs Hf _ IH]; [repeat split|].
  destruct IH as (I1 & I2 & I3); [intros x Hx; apply Hp; right; exact Hx|].
  unfold edge_file in Hf. destruct (diff _ _) as [dd|]; [|discriminate]. injection Hf as <-.
  pose proof (classify_edge_name_of (fst pv) (snd pv) (Hp pv (or_introl eq_refl))) as K.
  unfold dir_versions, has_bad, tiny_count in *. cbn [flat_map existsb filter fst].
  unfold file_versions at 1. unfold is_bad at 1. rewrite is_tiny_of_classify, K. cbn [app orb]. rewrite I1, I2, I3. auto.
Qed.

Theorem dir_of_ok h : hist_ok h = true ->
  exists vr M rest d, h_versions h = (vr, M) :: rest /\ dir_of h = Ok d /\ dir_shape h vr M d.
Proof.
  unfold hist_ok, dir_of. destruct (h_versions h) as [|[vr M] rest] eqn:Hv; [discriminate|].
  rewrite !andb_true_iff. intros (((HvM & HrM) & Hedges) & Hwfv). rewrite forallb_forall in Hedges.
  exists vr, M, rest.
  (* the root file *)
  destruct (version_ok_spec M HvM) as (Hw & _ & (n0 & Ens & Hn0) & _).
  pose proof HrM as HrM'. unfold root_ok in HrM'. apply andb_true_iff in HrM'. destruct HrM' as [_ Htx].
  destruct (X11.extend M ns_named) as [e|] eqn:He; [|discriminate].
  pose proof (ns_index_named n0 Hn0) as Hidx. rewrite <- Ens in Hidx.
  assert (Hei : X11.extend_idx M 1 = Ok e) by (unfold X11.extend in He; rewrite Hidx in He; exact He).
  destruct (FB.Props.C11.C11_extend_preserves_wf M 1 e Hw Hei) as [Hwe _].
  destruct (FB.Props.C03.C03_read_write e Hwe Htx) as (t & Hwr & _).
  unfold root_file. rewrite He, Hwr.
  (* the edge files *)
  destruct (X11.mapM (edge_file h) (h_edges h)) as [fs|] eqn:Hm.
  2:{ exfalso. apply FB.C11.Theory.mapM_err in Hm. destruct Hm as (pv & Hin & Herr).
      destruct (edge_check_spec h pv (Hedges pv Hin)) as (_ & _ & HA & HB & HE).
      destruct (edge_diff_ok _ _ HA HB HE) as (dd & Hd). unfold edge_file in Herr. rewrite Hd in Herr. discriminate. }
  apply FB.C11.Theory.mapM_ok in Hm. eexists. split; [reflexivity|]. split; [reflexivity|].
  assert (Hp : forall pv, In pv (h_edges h) -> ~ In sep_edge (fst pv)).
  { intros pv Hin. apply (edge_check_spec h pv (Hedges pv Hin)). }
  destruct (edge_files_shape h _ _ Hp Hm) as (S1 & S2 & S3).
  constructor.
  - exists e, t. repeat split; auto. left. reflexivity.
  - intros f [<-|Hf]; [left; exists e, t; auto|right].
    destruct (Forall2_in_r _ _ _ f Hm Hf) as (pv & Hin & Hpf). cbn beta in Hpf. unfold edge_file in Hpf.
    destruct (diff _ _) as [dd|] eqn:Hd; [|discriminate]. injection Hpf as <-. exists pv, dd. auto.
  - intros pv Hin. destruct (Forall2_in_l _ _ _ pv Hm Hin) as (f & Hf & Hpf). cbn beta in Hpf. unfold edge_file in Hpf.
    destruct (diff _ _) as [dd|] eqn:Hd; [|discriminate]. injection Hpf as <-. exists dd. split; [reflexivity|right; exact Hf].
  - unfold hist_versions. change (dir_versions ((root_name vr, t) :: fs)) with (file_versions (root_name vr) ++ dir_versions fs).
    unfold file_versions. rewrite classify_root_name, S1. reflexivity.
  - unfold has_bad. cbn [existsb fst]. unfold is_bad at 1. rewrite classify_root_name. exact S2.
  - unfold tiny_count. cbn [filter fst]. rewrite is_tiny_of_classify, classify_root_name. cbn [length]. unfold tiny_count in S3. rewrite S3. reflexivity.
Qed.

(* ---------- the end-to-end theorem on the computed directory ---------- *)
Theorem history_dir_sound h : hist_ok h = true ->
  exists vr d g, hd_error (map fst (h_versions h)) = Some vr /\ dir_of h = Ok d /\ resolve (load_root vg_ops) d = Ok g /\
    forall L, ewalk (h_edges h) vr L -> let v := last L vr in forall k, In k (keys v) ->
    exists sp i, get g k = Ok (sp, i) /\ nth_error (g_nodes g) i = Some v
      /\ candidates_by_name vg_ops g k <> []
      /\ forall r, In r (candidates_by_name vg_ops g k) -> res_rel mequiv r (X11.extend (hget h v) ns_named).
Proof.
  intros Hok. destruct (dir_of_ok h Hok) as (vr & M & rest & d & Hv & Hd & [Sroot Sfiles Sedges Sver Sbad Stiny]).
  unfold hist_ok in Hok. rewrite Hv in Hok. rewrite !andb_true_iff in Hok. destruct Hok as (((HvM & HrM) & Hedges) & Hwfv).
  rewrite forallb_forall in Hedges.
  assert (HgM : hget h vr = M) by (unfold hget; rewrite Hv; cbn [hfind]; rewrite str_eqb_refl; reflexivity).
  (* classification of every file of d *)
  assert (Hcl_root : forall f vr', In f d -> classify (fst f) = FRoot vr' ->
            vr' = vr /\ exists e, X11.extend M ns_named = Ok e /\ X03.write e = Ok (snd f)).
  { intros f vr' Hf K. destruct (Sfiles f Hf) as [(e & t & He & Hwr & ->)|(pv & dd & Hin & _ & ->)]; cbn [fst snd] in *.
    - rewrite classify_root_name in K. injection K as <-. split; [reflexivity|]. exists e. auto.
    - rewrite (classify_edge_name_of _ _ (proj1 (edge_check_spec h pv (Hedges pv Hin)))) in K. discriminate. }
  assert (Hcl_edge : forall f p v, In f d -> classify (fst f) = FEdge p v ->
            In (p, v) (h_edges h) /\ exists dd, diff (hget h p) (hget h v) = Ok dd /\ snd f = print dd).
  { intros f p v Hf K. destruct (Sfiles f Hf) as [(e & t & He & Hwr & ->)|(pv & dd & Hin & Hdd & ->)]; cbn [fst snd] in *.
    - rewrite classify_root_name in K. discriminate.
    - rewrite (classify_edge_name_of _ _ (proj1 (edge_check_spec h pv (Hedges pv Hin)))) in K. injection K as <- <-.
      split; [destruct pv; exact Hin|]. exists dd. auto. }
  assert (Hph : printed_history (hget h) d).
  { split; [|split].
    - intros v Hin. rewrite Sver in Hin. destruct Hin as [<-|Hin]; [rewrite HgM; exact HvM|].
      apply in_flat_map in Hin. destruct Hin as (pv & Hpv & Hin).
      destruct (edge_check_spec h pv (Hedges pv Hpv)) as (_ & _ & HA & HB & _).
      destruct Hin as [<-|[<-|[]]]; assumption.
    - intros f vr' Hf K. destruct (Hcl_root f vr' Hf K) as (-> & e & He & Hwr). rewrite HgM. split; [exact HrM|]. exists e. auto.
    - intros f p v Hf K. destruct (Hcl_edge f p v Hf K) as (Hin & dd & Hdd & Hpr).
      destruct (edge_check_spec h (p, v) (Hedges _ Hin)) as (_ & _ & _ & _ & HE). cbn [fst snd] in HE. split; [exact HE|]. exists dd. auto. }
  destruct (history_sound_instantiated (hget h) d (fun v => hrank v (h_versions h))) as (g & Hres & Hall); auto.
  { unfold well_formed. rewrite Sver. exact Hwfv. }
  { intros f p v Hf K. destruct (Hcl_edge f p v Hf K) as (Hin & _).
    apply (edge_check_spec h (p, v) (Hedges _ Hin)). }
  exists vr, d, g. split; [rewrite Hv; reflexivity|]. split; [exact Hd|]. split; [exact Hres|].
  intros L HL v k Hk. apply Hall; [|exact Hk].
  destruct Sroot as (e & t & _ & _ & Hrf). exists vr, (root_name vr, t), L. split; [exact Hrf|]. split; [apply classify_root_name|].
  split; [|reflexivity]. clear - HL Sedges Hedges. revert HL. generalize vr. induction L as [|x L IH]; intros a HL; [exact I|].
  destruct HL as [Hin HL]. split; [|apply IH; exact HL].
  destruct (Sedges (a, x) Hin) as (dd & _ & Hf). cbn [fst snd] in Hf. exists (edge_name a x, print dd). split; [exact Hf|].
  cbn [fst]. apply classify_edge_name_of. apply (edge_check_spec h (a, x) (Hedges _ Hin)).
Qed.
