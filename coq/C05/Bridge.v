(* C05 bridging — the developments of C03, C04 and C11 were written independently; this file
   connects their vocabularies through C04's equivalence [mequiv] (equality up to the order of
   every map):
   - C03's canonical form [canon M] (what [read (write M)] returns) is mequiv to M;
   - C11's contract and extend respect mequiv;
   - C11's namespace lookup [ns_index] is C04's [index_of]. *)
From FB Require Import C04.Model C04.Hyps C04.Theory C04.Theory2 C05.Compat.
From FB Require C11.Model C11.Theory C11.Theory2 C18.Model C05.Theory4.
From Coq Require Import Lia Permutation.

Module X11 := FB.C11.Model.
Module T11 := FB.C11.Theory.

(* ---------- generic: lookups through map / permutation ---------- *)
Lemma find_key_map {K T} keqb (key : T -> K) (f : T -> T) k l :
  (forall x, key (f x) = key x) -> find_key keqb key k (map f l) = option_map f (find_key keqb key k l).
Proof.
  intros Hk. induction l as [|x l IH]; [reflexivity|]. cbn [map find_key]. rewrite Hk.
  destruct (keqb k (key x)); [reflexivity|exact IH].
Qed.

Lemma map_key_map {K T} (key : T -> K) (f : T -> T) l : (forall x, key (f x) = key x) -> map key (map f l) = map key l.
Proof. intros Hk. rewrite map_map. apply map_ext. exact Hk. Qed.

Lemma eqv_perm_map {K T} keqb (HK : keqb_ok keqb) (key : T -> K) (f : T -> T) (E : T -> T -> Prop) l l' :
  (forall x, key (f x) = key x) -> NoDup (map key l) -> Permutation l' (map f l) ->
  (forall x, In x l -> E (f x) x) ->
  NoDup (map key l') /\ forall k, opt_rel E (find_key keqb key k l') (find_key keqb key k l).
Proof.
  intros Hk Hnd Hp HE.
  assert (Hnd' : NoDup (map key l')).
  { eapply Permutation_NoDup; [apply Permutation_map; symmetry; exact Hp|]. rewrite (map_key_map key f l Hk). exact Hnd. }
  split; [exact Hnd'|]. intros k.
  rewrite (find_key_perm keqb HK key l' (map f l) k Hnd' Hp), (find_key_map keqb key f k l Hk).
  destruct (find_key keqb key k l) as [x|] eqn:F; cbn [option_map opt_rel]; [|exact I].
  apply HE. apply (find_key_some keqb HK key k l x F).
Qed.

(* ---------- C03: canon M is mequiv to M ---------- *)
Lemma canon_params ps le : NoDup (map pkey ps) -> params_eqv (isort le ps) ps.
Proof.
  intros Hnd. destruct (eqv_perm_map N.eqb N_eqb_ok pkey (fun x => x) eq ps (isort le ps)) as [N F]; auto.
  - rewrite map_id. apply isort_perm.
  - split; [exact N|]. split; [exact Hnd|]. intros k. apply opt_rel_eq. apply F.
Qed.

Lemma canon_fields fs le : NoDup (map fkey fs) -> fields_eqv (isort le fs) fs.
Proof.
  intros Hnd. destruct (eqv_perm_map key2_eqb key2_eqb_ok fkey (fun x => x) eq fs (isort le fs)) as [N F]; auto.
  - rewrite map_id. apply isort_perm.
  - split; [exact N|]. split; [exact Hnd|]. intros k. apply opt_rel_eq. apply F.
Qed.

Lemma canon_meth_eqv m : q_meth m -> meth_eqv (canon_meth m) m.
Proof.
  intros Hq. unfold canon_meth. split; [reflexivity|]. split; [reflexivity|]. split; [reflexivity|].
  cbn [m_params]. apply canon_params. exact Hq.
Qed.

Lemma canon_meths ms le : NoDup (map mkey ms) -> Forall q_meth ms -> meths_eqv (isort le (map canon_meth ms)) ms.
Proof.
  intros Hnd Hq. rewrite Forall_forall in Hq.
  destruct (eqv_perm_map key2_eqb key2_eqb_ok mkey canon_meth meth_eqv ms (isort le (map canon_meth ms))) as [N F]; auto.
  - apply isort_perm.
  - intros x Hx. apply canon_meth_eqv. apply Hq. exact Hx.
  - split; [exact N|]. split; [exact Hnd|exact F].
Qed.

Lemma canon_class_eqv c : q_class c -> class_eqv (canon_class c) c.
Proof.
  intros (Hf & Hm & Hq). unfold canon_class. split; [reflexivity|]. split; [reflexivity|]. cbn [c_fields c_methods].
  split; [apply canon_fields; exact Hf|apply canon_meths; assumption].
Qed.

Theorem canon_mequiv M : wf M = true -> mequiv (canon M) M.
Proof.
  intros Hw. destruct (wf_q_classes M Hw) as [Hq Hnd]. rewrite Forall_forall in Hq.
  unfold canon. split; [reflexivity|]. split; [reflexivity|]. cbn [ms_classes].
  destruct (eqv_perm_map str_eqb str_eqb_ok ckey canon_class class_eqv (ms_classes M)
              (isort (fun a b => is_le (class_cmp a b)) (map canon_class (ms_classes M)))) as [N F]; auto.
  - apply isort_perm.
  - intros x Hx. apply canon_class_eqv. apply Hq. exact Hx.
  - split; [exact N|]. split; [exact Hnd|exact F].
Qed.

(* ---------- C11 / C04: the two namespace lookups are the same function ---------- *)
Lemma ns_index_index_of l name : X11.ns_index l name = index_of name l.
Proof.
  induction l as [|x l IH]; [reflexivity|]. cbn [X11.ns_index index_of]. rewrite IH. reflexivity.
Qed.

(* ---------- C11: contract respects mequiv ---------- *)
Lemma set_nth11_fname (l : names) i x : fname (X11.set_nth l (S i) x) = fname l.
Proof. destruct l as [|[y|] l]; reflexivity. Qed.

Lemma classes_eqv_map (f : class -> class) l' l :
  (forall c, ckey (f c) = ckey c) -> (forall c' c, class_eqv c' c -> class_eqv (f c') (f c)) ->
  classes_eqv l' l -> classes_eqv (map f l') (map f l).
Proof.
  intros Hk Hf (N' & N & F). split; [rewrite (map_key_map ckey f l' Hk); exact N'|].
  split; [rewrite (map_key_map ckey f l Hk); exact N|].
  intros k. unfold cfind. rewrite !(find_key_map str_eqb ckey f k _ Hk). specialize (F k). unfold cfind in F.
  destruct (find_key str_eqb ckey k l') as [c'|], (find_key str_eqb ckey k l) as [c|]; cbn [option_map opt_rel] in *; auto.
Qed.

Theorem contract_idx_compat ns M' M : ns <> O -> mequiv M' M -> mequiv (X11.contract_idx M' ns) (X11.contract_idx M ns).
Proof.
  intros Hns (E1 & E2 & E3). unfold X11.contract_idx. split; [exact E1|]. split; [exact E2|]. cbn [ms_classes].
  destruct ns as [|i]; [contradiction|].
  apply classes_eqv_map; [| |exact E3].
  - intros c. unfold ckey, X11.contract_class, X11.contract_names. cbn [c_names]. apply set_nth11_fname.
  - intros c' c (A1 & A2 & A3 & A4). unfold X11.contract_class. cbn. rewrite A1, A2. repeat split; try apply A3; apply A4.
Qed.

(* ---------- C11: extend respects mequiv ---------- *)
Lemma str_eqb_sym a b : str_eqb a b = str_eqb b a.
Proof.
  destruct (str_eqb a b) eqn:E.
  - apply str_eqb_eq in E. subst. symmetry. apply str_eqb_refl.
  - symmetry. apply str_eqb_neq. apply str_eqb_neq in E. congruence.
Qed.

Lemma find_class_cfind cs k : k <> [] -> X11.find_class cs k = cfind k cs.
Proof.
  intros Hk. unfold X11.find_class, cfind. induction cs as [|c cs IH]; [reflexivity|]. cbn [find find_key]. rewrite IH.
  assert (E : X11.has_key k c = str_eqb k (ckey c)).
  { unfold X11.has_key, class_key, first_name, ckey, fname. destruct (c_names c) as [|[n|] l].
    - symmetry. apply str_eqb_neq. exact Hk.
    - apply str_eqb_sym.
    - symmetry. apply str_eqb_neq. exact Hk. }
  rewrite E. reflexivity.
Qed.

Lemma get_class_name_compat cs' cs k ns :
  classes_eqv cs' cs -> k <> [] -> X11.get_class_name cs' k ns = X11.get_class_name cs k ns.
Proof.
  intros (_ & _ & F) Hk. unfold X11.get_class_name. rewrite !find_class_cfind by exact Hk. specialize (F k).
  destruct (cfind k cs') as [c'|], (cfind k cs) as [c|]; cbn [opt_rel] in F; try contradiction; [|reflexivity].
  destruct F as (E & _). rewrite E. reflexivity.
Qed.

Lemma split_inner_parent_nonempty s p i : FB.C18.Model.split_inner s = Some (p, i) -> p <> [].
Proof.
  unfold FB.C18.Model.split_inner. destruct (FB.C18.Model.rsplit_once cDOLLAR s) as [[p0 i0]|]; [|discriminate].
  destruct p0 as [|x p0]; cbn [FB.C18.Model.is_nil negb andb]; [discriminate|].
  match goal with |- (if ?b then _ else _) = _ -> _ => destruct b end; [|discriminate]. intros [= <- _]. discriminate.
Qed.

Lemma map_name_compat cs' cs ns : classes_eqv cs' cs -> forall fuel name mapped,
  X11.map_name fuel cs' ns name mapped = X11.map_name fuel cs ns name mapped.
Proof.
  intros HE. induction fuel as [|f IH]; intros name mapped; cbn [X11.map_name];
    destruct (FB.C18.Model.split_inner name) as [[p i]|] eqn:S; try reflexivity.
  rewrite (get_class_name_compat cs' cs p ns HE (split_inner_parent_nonempty _ _ _ S)).
  destruct (X11.get_class_name cs p ns) as [mp|]; [|reflexivity]. rewrite IH. reflexivity.
Qed.

Lemma extend_names_compat cs' cs ns l : classes_eqv cs' cs -> X11.extend_names cs' ns l = X11.extend_names cs ns l.
Proof.
  intros HE. unfold X11.extend_names. destruct ns as [|i]; [reflexivity|].
  destruct l as [|h [|h2 t]]; try reflexivity.
  destruct (nth_name (h :: h2 :: t) (S i)); [|reflexivity]. destruct h as [src|]; [|reflexivity].
  rewrite (map_name_compat cs' cs (S i) HE). reflexivity.
Qed.

Lemma extend_names_fname cs ns l l' : X11.extend_names cs ns l = Ok l' -> fname l' = fname l.
Proof.
  unfold X11.extend_names. destruct ns as [|i]; [discriminate|].
  destruct l as [|h [|h2 t]]; try discriminate.
  destruct (nth_name (h :: h2 :: t) (S i)); [|intros [= <-]; reflexivity].
  destruct h as [src|]; [|discriminate].
  destruct (X11.map_name _ _ _ _ _); [|discriminate]. intros [= <-]. reflexivity.
Qed.

Lemma extend_class_key cs ns c o : X11.extend_class cs ns c = Ok o -> ckey o = ckey c.
Proof.
  unfold X11.extend_class. destruct (X11.extend_names cs ns (c_names c)) as [l|] eqn:E; [|discriminate].
  intros [= <-]. unfold ckey. cbn [c_names]. apply (extend_names_fname _ _ _ _ E).
Qed.

Lemma extend_class_compat cs' cs ns c' c o :
  classes_eqv cs' cs -> class_eqv c' c -> X11.extend_class cs ns c = Ok o ->
  exists o', X11.extend_class cs' ns c' = Ok o' /\ class_eqv o' o.
Proof.
  intros HE (A1 & A2 & A3 & A4). unfold X11.extend_class. rewrite A1, (extend_names_compat cs' cs ns _ HE).
  destruct (X11.extend_names cs ns (c_names c)) as [l|]; [|discriminate]. intros [= <-].
  eexists. split; [reflexivity|]. repeat split; cbn; try assumption; try apply A3; apply A4.
Qed.

Lemma Forall2_keys {T K} (key : T -> K) (P : T -> T -> Prop) l o :
  (forall c x, P c x -> key x = key c) -> Forall2 P l o -> map key o = map key l.
Proof. intros Hk H. induction H as [|c x l o Hcx _ IH]; [reflexivity|]. cbn [map]. rewrite IH, (Hk c x Hcx). reflexivity. Qed.

Lemma find_Forall2 {T K} keqb (key : T -> K) (P : T -> T -> Prop) k l o :
  (forall c x, P c x -> key x = key c) -> Forall2 P l o ->
  match find_key keqb key k l with
  | Some c => exists x, find_key keqb key k o = Some x /\ P c x
  | None => find_key keqb key k o = None
  end.
Proof.
  intros Hk H. induction H as [|c x l o Hcx _ IH]; [reflexivity|]. cbn [find_key]. rewrite (Hk c x Hcx).
  destruct (keqb k (key c)); [exists x; auto|exact IH].
Qed.

Lemma classes_eqv_partner cs' cs c' : classes_eqv cs' cs -> In c' cs' -> exists c, In c cs /\ class_eqv c' c.
Proof.
  intros (N' & _ & F) Hin. specialize (F (ckey c')). unfold cfind in F.
  rewrite (find_key_in str_eqb str_eqb_ok ckey cs' c' N' Hin) in F.
  destruct (find_key str_eqb ckey (ckey c') cs) as [c|] eqn:Fc; cbn [opt_rel] in F; [|contradiction].
  exists c. split; [apply (find_key_some str_eqb str_eqb_ok ckey _ _ _ Fc)|exact F].
Qed.

Theorem extend_idx_compat M' M ns e :
  mequiv M' M -> X11.extend_idx M ns = Ok e -> exists e', X11.extend_idx M' ns = Ok e' /\ mequiv e' e.
Proof.
  intros (E1 & E2 & E3) H. unfold X11.extend_idx in *.
  destruct (X11.mapM (X11.extend_class (ms_classes M) ns) (ms_classes M)) as [out|] eqn:Hm; [|discriminate]. injection H as <-.
  apply T11.mapM_ok in Hm.
  destruct (X11.mapM (X11.extend_class (ms_classes M') ns) (ms_classes M')) as [out'|] eqn:Hm'.
  - apply T11.mapM_ok in Hm'. eexists. split; [reflexivity|]. split; [exact E1|]. split; [exact E2|]. cbn [ms_classes].
    pose proof E3 as (N' & N & F).
    pose proof (Forall2_keys ckey _ _ _ (fun c x => extend_class_key _ ns c x) Hm) as K.
    pose proof (Forall2_keys ckey _ _ _ (fun c x => extend_class_key _ ns c x) Hm') as K'.
    split; [rewrite K'; exact N'|]. split; [rewrite K; exact N|]. intros k.
    pose proof (find_Forall2 str_eqb ckey _ k _ _ (fun c x => extend_class_key _ ns c x) Hm) as Q.
    pose proof (find_Forall2 str_eqb ckey _ k _ _ (fun c x => extend_class_key _ ns c x) Hm') as Q'.
    specialize (F k). unfold cfind in *.
    destruct (find_key str_eqb ckey k (ms_classes M')) as [c'|], (find_key str_eqb ckey k (ms_classes M)) as [c|];
      cbn [opt_rel] in F; try contradiction.
    + destruct Q as (x & Fx & Px), Q' as (x' & Fx' & Px'). rewrite Fx, Fx'. cbn [opt_rel].
      destruct (extend_class_compat _ _ ns c' c x E3 F Px) as (o' & Ho' & Eo). congruence.
    + rewrite Q, Q'. exact I.
  - exfalso. apply T11.mapM_err in Hm'. destruct Hm' as (c' & Hin' & Herr).
    destruct (classes_eqv_partner _ _ c' E3 Hin') as (c & Hin & Ec).
    destruct (FB.C05.Theory4.Forall2_in_l _ _ _ c Hm Hin) as (x & _ & Px). cbn beta in Px.
    destruct (extend_class_compat _ _ ns c' c x E3 Ec Px) as (o' & Ho' & _). congruence.
Qed.

Theorem extend_compat M' M name e :
  mequiv M' M -> X11.extend M name = Ok e -> exists e', X11.extend M' name = Ok e' /\ mequiv e' e.
Proof.
  intros HE H. pose proof HE as (E1 & _). unfold X11.extend in *. rewrite E1.
  destruct (X11.ns_index (ms_ns M) name) as [ns|]; [|discriminate]. apply (extend_idx_compat M' M ns e HE H).
Qed.

Theorem contract_compat M' M name r :
  mequiv M' M -> X11.contract M name = Ok r -> exists r', X11.contract M' name = Ok r' /\ mequiv r' r.
Proof.
  intros HE H. pose proof HE as (E1 & _). unfold X11.contract in *. rewrite E1.
  destruct (X11.ns_index (ms_ns M) name) as [[|i]|]; try discriminate. injection H as <-.
  eexists. split; [reflexivity|]. apply contract_idx_compat; [discriminate|exact HE].
Qed.
