(* C05 — independence of the listing order: permuting the directory changes neither whether
   resolve succeeds, nor the graph (up to the numbering of the nodes), nor the candidates. *)
From FB Require Import C05.Model C05.Theory1 C05.Theory2 C05.Theory3 C05.Theory4 C05.Theory5.
From Coq Require Import Lia Permutation.

(* ---------- when does the scan fail ---------- *)
Definition root_count {C} (st : scan C) : nat := match sc_root st with Some _ => 1 | None => 0 end.
Definition tiny_count {C} (d : list (file C)) : nat := length (filter (fun f => is_tiny_name (fst f)) d).
Definition is_bad (n : str) : bool := match classify n with FBad => true | _ => false end.
Definition has_bad {C} (d : list (file C)) : bool := existsb (fun f => is_bad (fst f)) d.

Lemma is_tiny_of_classify n : is_tiny_name n = match classify n with FRoot _ => true | _ => false end.
Proof.
  unfold is_tiny_name, classify. destruct (strip_suffix ext_tiny n); [reflexivity|].
  destruct (strip_suffix ext_diff n) as [raw|]; [destruct (split_once sep_edge raw) as [[p v]|]|]; reflexivity.
Qed.

Lemma scan_dir_err_iff {C} (d : list (file C)) : forall st,
  scan_dir st d = Err <-> has_bad d = true \/ (2 <= root_count st + tiny_count d)%nat.
Proof.
  induction d as [|f d IH]; intros st.
  - cbn. unfold root_count. destruct (sc_root st); split; try discriminate; intros [H|H]; try discriminate; lia.
  - cbn [scan_dir]. rewrite scan_step_classify. unfold has_bad, tiny_count. cbn [existsb filter].
    unfold is_bad at 1. rewrite is_tiny_of_classify.
    fold (@has_bad C d). destruct (classify (fst f)) as [vs|p v| |] eqn:K.
    + destruct (add_node (sc_tbl st) (sc_nodes st) vs) as [[t ns] i]. cbn [orb length]. fold (@tiny_count C d).
      unfold root_count at 1. destruct (sc_root st) as [r0|].
      * split; [intros _; right; lia|reflexivity].
      * rewrite IH. unfold root_count. cbn [sc_root]. split; (intros [H|H]; [left; exact H|right; lia]).
    + destruct (add_node (sc_tbl st) (sc_nodes st) v) as [[t1 ns1] iv]. destruct (add_node t1 ns1 p) as [[t2 ns2] ip].
      cbn [orb]. fold (@tiny_count C d). rewrite IH. unfold root_count. cbn [sc_root]. reflexivity.
    + cbn [orb]. split; [intros _; left; reflexivity|reflexivity].
    + cbn [orb]. fold (@tiny_count C d). apply IH.
Qed.

Lemma perm_filter_length {A} (p : A -> bool) l l' : Permutation l l' -> length (filter p l) = length (filter p l').
Proof.
  intros H. induction H as [|x l l' _ IH|x y l|l l' l'' _ IH1 _ IH2]; cbn [filter].
  - reflexivity.
  - destruct (p x); cbn [length]; congruence.
  - destruct (p x), (p y); reflexivity.
  - congruence.
Qed.

Lemma perm_existsb {A} (p : A -> bool) l l' : Permutation l l' -> existsb p l = existsb p l'.
Proof.
  intros H. destruct (existsb p l) eqn:E.
  - symmetry. apply existsb_exists in E. destruct E as (x & Hx & Hp). apply existsb_exists. exists x.
    split; [eapply Permutation_in; eassumption|exact Hp].
  - destruct (existsb p l') eqn:E'; [|reflexivity]. apply existsb_exists in E'. destruct E' as (x & Hx & Hp).
    assert (existsb p l = true); [|congruence]. apply existsb_exists. exists x.
    split; [eapply Permutation_in; [symmetry; eassumption|exact Hx]|exact Hp].
Qed.

Lemma scan_err_perm {C} (d d' : list (file C)) : Permutation d d' -> scan_dir scan0 d = Err <-> scan_dir scan0 d' = Err.
Proof.
  intros HP. rewrite !scan_dir_err_iff. unfold has_bad, tiny_count.
  rewrite (perm_existsb _ d d' HP), (perm_filter_length _ d d' HP). reflexivity.
Qed.

(* ---------- two scans of the same set of files ---------- *)
Lemma dir_versions_perm {C} (d d' : list (file C)) : Permutation d d' -> Permutation (dir_versions d) (dir_versions d').
Proof. intros H. unfold dir_versions. apply Permutation_flat_map. exact H. Qed.

Lemma scan_WF {C} (d : list (file C)) st : WF (dir_versions d) -> scan_dir scan0 d = Ok st -> SInv (dir_versions d) d st.
Proof. intros HW H. apply (scan_dir_sinv (dir_versions d) d [] scan0 st HW (incl_refl _) (sinv_scan0 _) H). Qed.

(* both scans describe the same files *)
Record twin {C} (d d' : list (file C)) (st st' : scan C) : Prop := mkTwin {
  tw_s : SInv (dir_versions d) d st;
  tw_s' : SInv (dir_versions d') d' st';
  tw_files : forall f, In f d <-> In f d';
  tw_names : NoDup (map fst d) }.

Lemma twin_sym {C} (d d' : list (file C)) st st' : Permutation d d' -> twin d d' st st' -> twin d' d st' st.
Proof.
  intros HP [H1 H2 H3 H4]. constructor; [exact H2|exact H1|intros f; symmetry; apply H3|].
  eapply Permutation_NoDup; [|exact H4]. apply Permutation_map. exact HP.
Qed.

Definition corr {C} (st st' : scan C) (a a' : nat) : Prop :=
  exists v, nth_error (sc_nodes st) a = Some v /\ nth_error (sc_nodes st') a' = Some v.

Lemma nedge_twin {C} (d d' : list (file C)) st st' a b : twin d d' st st' -> nedge d a b -> nedge d' a b.
Proof. intros T (f & Hf & K). exists f. split; [apply (tw_files _ _ _ _ T); exact Hf|exact K]. Qed.

Lemma corr_succs {C} (d d' : list (file C)) st st' a a' b :
  twin d d' st st' -> corr st st' a a' -> In b (succs (sc_edges st) a) ->
  exists b', corr st st' b b' /\ In b' (succs (sc_edges st') a').
Proof.
  intros T (va & Ha & Ha') Hb. destruct (succs_nedge _ d st a b (tw_s _ _ _ _ T) Hb) as (va0 & vb & Ha0 & Hvb & Hne).
  assert (va0 = va) by congruence. subst va0.
  destruct (nedge_succs _ d' st' a' va vb (tw_s' _ _ _ _ T) Ha' (nedge_twin d d' st st' _ _ T Hne)) as (b' & Hb' & Hs).
  exists b'. split; [exists vb; auto|exact Hs].
Qed.

Lemma corr_inj {C} (d d' : list (file C)) st st' a a' a'' : twin d d' st st' -> corr st st' a a' -> corr st st' a a'' -> a' = a''.
Proof.
  intros T (v & H1 & H2) (w & H3 & H4). assert (w = v) by congruence. subst w.
  destruct (tw_s' _ _ _ _ T) as [[_ [Hnd _]] _ _ _]. apply (nth_error_inj _ _ _ v Hnd H2 H4).
Qed.

Lemma corr_fwalk {C} (d d' : list (file C)) st st' : twin d d' st st' -> forall l a a',
  corr st st' a a' -> fwalk (sc_edges st) a l -> exists l', Forall2 (corr st st') l l' /\ fwalk (sc_edges st') a' l'.
Proof.
  intros T. induction l as [|b l IH]; intros a a' Ha Hw.
  - exists []. split; [constructor|exact I].
  - destruct Hw as [Hb Hw]. destruct (corr_succs d d' st st' a a' b T Ha Hb) as (b' & Hbb & Hs).
    destruct (IH b b' Hbb Hw) as (l' & Hl & Hw'). exists (b' :: l'). split; [constructor; assumption|split; assumption].
Qed.

Lemma corr_last {C} (st st' : scan C) l l' a a' : Forall2 (corr st st') l l' -> corr st st' a a' -> corr st st' (last l a) (last l' a').
Proof.
  intros H. revert a a'. induction H as [|i i' l l' Hi _ IH]; intros a a' Ha; [exact Ha|].
  assert (E1 : last (i :: l) a = last l i) by (destruct l as [|y t]; [reflexivity|exact (last_cons_default t y a i)]).
  assert (E2 : last (i' :: l') a' = last l' i') by (destruct l' as [|y t]; [reflexivity|exact (last_cons_default t y a' i')]).
  rewrite E1, E2. apply IH. exact Hi.
Qed.

Lemma Forall2_length {A B} (P : A -> B -> Prop) l l' : Forall2 P l l' -> length l = length l'.
Proof. intros H. induction H; cbn [length]; congruence. Qed.

(* the name of an edge file is determined by the versions it connects *)
Lemma classify_edge_name n p v : classify n = FEdge p v -> n = (p ++ sep_edge :: v) ++ ext_diff.
Proof.
  unfold classify. destruct (strip_suffix ext_tiny n); [discriminate|].
  destruct (strip_suffix ext_diff n) as [raw|] eqn:S; [|discriminate].
  destruct (split_once sep_edge raw) as [[p0 v0]|] eqn:E; [|discriminate]. intros [= <- <-].
  apply strip_suffix_some in S. apply split_once_some in E. destruct E as [-> _]. exact S.
Qed.

Lemma NoDup_fst_inj {A B} (l : list (A * B)) x y : NoDup (map fst l) -> In x l -> In y l -> fst x = fst y -> x = y.
Proof.
  induction l as [|z l IH]; intros Hnd Hx Hy E; [destruct Hx|]. cbn [map] in Hnd. inversion Hnd as [|? ? Hz Hnd']; subst.
  destruct Hx as [<-|Hx], Hy as [<-|Hy]; [reflexivity| | |apply IH; assumption].
  - exfalso. apply Hz. rewrite E. apply in_map. exact Hy.
  - exfalso. apply Hz. rewrite <- E. apply in_map. exact Hx.
Qed.

Lemma edge_file_of {C} U (d : list (file C)) st e :
  SInv U d st -> In e (sc_edges st) ->
  exists p v, In (e_file e) d /\ classify (fst (e_file e)) = FEdge p v
              /\ nth_error (sc_nodes st) (e_src e) = Some p /\ nth_error (sc_nodes st) (e_dst e) = Some v.
Proof.
  intros [_ _ He _] Hin. destruct (Forall2_in_l _ _ _ e He Hin) as ([[p v] f] & Hne & (Hf & Hs & Hd)).
  cbn [fst snd] in *. apply in_dir_edges in Hne. destruct Hne as [Hfd K]. exists p, v. rewrite Hf. auto.
Qed.

Lemma corr_step {C M D} (o : ops C M D) (d d' : list (file C)) st st' a a' b b' m :
  twin d d' st st' -> corr st st' a a' -> corr st st' b b' -> In b (succs (sc_edges st) a) ->
  step o (sc_edges st) a b m = step o (sc_edges st') a' b' m.
Proof.
  intros T Ha Hb Hs. destruct (corr_succs d d' st st' a a' b T Ha Hs) as (b'' & Hb'' & Hs').
  assert (b'' = b') by (apply (corr_inj d d' st st' b b'' b' T Hb'' Hb)). subst b''.
  destruct (find_edge_some _ _ _ Hs) as (e & Fe & Hin & Hsrc & Hdst).
  destruct (find_edge_some _ _ _ Hs') as (e' & Fe' & Hin' & Hsrc' & Hdst').
  unfold step. rewrite Fe, Fe'.
  destruct (edge_file_of _ d st e (tw_s _ _ _ _ T) Hin) as (p & v & Hf & K & Hp & Hv).
  destruct (edge_file_of _ d' st' e' (tw_s' _ _ _ _ T) Hin') as (p' & v' & Hf' & K' & Hp' & Hv').
  destruct Ha as (va & Ha1 & Ha2). destruct Hb as (vb & Hb1 & Hb2).
  rewrite Hsrc in Hp. rewrite Hdst in Hv. rewrite Hsrc' in Hp'. rewrite Hdst' in Hv'.
  assert (p = va) by congruence. assert (v = vb) by congruence. assert (p' = va) by congruence. assert (v' = vb) by congruence. subst.
  assert (E : e_file e = e_file e').
  { apply (NoDup_fst_inj d _ _ (tw_names _ _ _ _ T) Hf); [apply (tw_files _ _ _ _ T); exact Hf'|].
    rewrite (classify_edge_name _ _ _ K), (classify_edge_name _ _ _ K'). reflexivity. }
  rewrite E. reflexivity.
Qed.

Lemma corr_fold {C M D} (o : ops C M D) (d d' : list (file C)) st st' : twin d d' st st' -> forall l l' a a' m,
  corr st st' a a' -> Forall2 (corr st st') l l' -> fwalk (sc_edges st) a l ->
  fold_path o (sc_edges st) m (a :: l) = fold_path o (sc_edges st') m (a' :: l').
Proof.
  intros T. induction l as [|b l IH]; intros l' a a' m Ha Hl Hw.
  - inversion Hl; subst. reflexivity.
  - inversion Hl as [|? b' ? l'' Hb Hl']; subst. destruct Hw as [Hs Hw]. cbn [fold_path].
    rewrite (corr_step o d d' st st' a a' b b' m T Ha Hb Hs).
    destruct (step o (sc_edges st') a' b' m) as [m1|]; [|reflexivity]. apply (IH l'' b b' m1 Hb Hl' Hw).
Qed.

(* ---------- the graphs ---------- *)
Definition get_named {C M} (g : graph C M) (k : str) : option (vsplit * str) :=
  match tbl_get k (g_versions g) with Some (sp, i) => Some (sp, nth i (g_nodes g) []) | None => None end.
Definition edges_named {C M} (g : graph C M) : list (str * str * file C) :=
  map (fun e => (nth (e_src e) (g_nodes g) [], nth (e_dst e) (g_nodes g) [], e_file e)) (g_edges g).

Record graph_equiv {C M} (g g' : graph C M) : Prop := mkGE {
  ge_nodes : Permutation (g_nodes g) (g_nodes g');
  ge_root : nth (g_root g) (g_nodes g) [] = nth (g_root g') (g_nodes g') [];
  ge_rootmap : g_root_mapping g = g_root_mapping g';
  ge_get : forall k, get_named g k = get_named g' k;
  ge_edges : Permutation (edges_named g) (edges_named g') }.

Definition key_split (v k : str) : option vsplit := match key_entry v 0 k with Some (sp, _) => Some sp | None => None end.

Lemma key_entry_shift v i j k : key_entry v i k = match key_entry v j k with Some (sp, _) => Some (sp, i) | None => None end.
Proof.
  unfold key_entry. destruct (split_once sep_split v) as [[a b]|].
  - destruct (str_eqb k a); [reflexivity|]. destruct (str_eqb k b); reflexivity.
  - destruct (str_eqb k v); reflexivity.
Qed.

Lemma get_named_spec {C} (d : list (file C)) st k sp v :
  WF (dir_versions d) -> SInv (dir_versions d) d st ->
  (match tbl_get k (sc_tbl st) with Some (sp, i) => Some (sp, nth i (sc_nodes st) []) | None => None end = Some (sp, v)
   <-> In v (dir_versions d) /\ key_split v k = Some sp).
Proof.
  intros HW [[Hi [Hnd Ht]] Hnodes _ _]. rewrite Ht. split.
  - destruct (lookup_from 0 (sc_nodes st) k) as [[sp0 i]|] eqn:L; [|discriminate]. intros [= <- <-].
    destruct (lookup_from_some 0 _ k sp0 i L) as (w & Hw & _ & Hk). rewrite Nat.sub_0_r in Hw.
    rewrite (nth_error_nth _ _ _ Hw). split; [apply Hnodes; eapply nth_error_In; exact Hw|].
    unfold key_split. rewrite (key_entry_shift w 0 i k), Hk. reflexivity.
  - intros [Hv Hk]. apply Hnodes in Hv. destruct (In_nth_error _ _ Hv) as [i Hn].
    unfold key_split in Hk. destruct (key_entry v 0 k) as [[sp0 j]|] eqn:E; [|discriminate]. injection Hk as ->.
    assert (Hke : key_entry v i k = Some (sp, i)) by (rewrite (key_entry_shift v i 0 k), E; reflexivity).
    rewrite (lookup_from_at (dir_versions d) _ i v k _ HW Hi Hnd Hn Hke). rewrite (nth_error_nth _ _ _ Hn). reflexivity.
Qed.

Lemma edges_named_scan {C} U (d : list (file C)) st :
  SInv U d st -> map (fun e => (nth (e_src e) (sc_nodes st) [], nth (e_dst e) (sc_nodes st) [], e_file e)) (sc_edges st) = dir_edges d.
Proof.
  intros [_ _ He _]. induction He as [|e ne es nes (Hf & Hs & Hd) _ IH]; [reflexivity|].
  cbn [map]. rewrite IH. f_equal. destruct ne as [[p v] f]. cbn [fst snd] in *.
  rewrite (nth_error_nth _ _ _ Hs), (nth_error_nth _ _ _ Hd), Hf. reflexivity.
Qed.

Lemma dir_edges_perm {C} (d d' : list (file C)) : Permutation d d' -> Permutation (dir_edges d) (dir_edges d').
Proof. intros H. unfold dir_edges. apply Permutation_flat_map. exact H. Qed.

Lemma root_twin {C} (d d' : list (file C)) st st' r f r' f' :
  twin d d' st st' -> sc_root st = Some (r, f) -> sc_root st' = Some (r', f') -> f = f' /\ corr st st' r r'.
Proof.
  intros T Hr Hr'. pose proof (si_root _ _ _ (tw_s _ _ _ _ T)) as R. pose proof (si_root _ _ _ (tw_s' _ _ _ _ T)) as R'.
  rewrite Hr in R. rewrite Hr' in R'. destruct R as (Hf & (v & K & Hn) & Hu). destruct R' as (Hf' & (v' & K' & Hn') & _).
  assert (E : f' = f) by (apply Hu; [apply (tw_files _ _ _ _ T); exact Hf'|apply is_tiny_classify; exists v'; exact K']).
  subst f'. split; [reflexivity|]. exists v. split; [exact Hn|]. congruence.
Qed.

(* long walks exist on one side iff on the other *)
Lemma long_walk_twin {C} (d d' : list (file C)) st st' r r' n :
  twin d d' st st' -> corr st st' r r' ->
  (exists l, fwalk (sc_edges st) r l /\ (n <= length l)%nat) -> exists l', fwalk (sc_edges st') r' l' /\ (n <= length l')%nat.
Proof.
  intros T Hr (l & Hw & Hl). destruct (corr_fwalk d d' st st' T l r r' Hr Hw) as (l' & Hc & Hw').
  exists l'. split; [exact Hw'|]. rewrite <- (Forall2_length _ _ _ Hc). exact Hl.
Qed.

Lemma corr_sym {C} (st st' : scan C) a a' : corr st st' a a' -> corr st' st a' a.
Proof. intros (v & H1 & H2). exists v. auto. Qed.

Theorem resolve_perm {C M} (lr : C -> res M) (d d' : list (file C)) :
  well_formed d = true -> nodup_strb (map fst d) = true -> Permutation d d' ->
  match resolve lr d, resolve lr d' with
  | Ok g, Ok g' => graph_equiv g g'
  | Err, Err => True
  | _, _ => False
  end.
Proof.
  intros Hwf Hnd HP.
  pose proof (wf_versions_WF _ Hwf) as HW.
  assert (HW' : WF (dir_versions d')).
  { apply (WF_incl (dir_versions d)); [exact HW|]. intros x Hx. eapply Permutation_in; [symmetry; apply dir_versions_perm; exact HP|exact Hx]. }
  apply nodup_strb_NoDup in Hnd.
  unfold resolve. pose proof (scan_err_perm d d' HP) as Herr.
  destruct (scan_dir scan0 d) as [st|] eqn:Sc; destruct (scan_dir scan0 d') as [st'|] eqn:Sc';
    try (exfalso; destruct Herr as [H1 H2]; (discriminate (H1 eq_refl) || discriminate (H2 eq_refl))); [|exact I].
  assert (T : twin d d' st st').
  { constructor; [apply scan_WF; assumption|apply scan_WF; assumption| |exact Hnd].
    intros f. split; apply Permutation_in; [exact HP|symmetry; exact HP]. }
  pose proof (si_root _ _ _ (tw_s _ _ _ _ T)) as R. pose proof (si_root _ _ _ (tw_s' _ _ _ _ T)) as R'.
  destruct (sc_root st) as [[r f]|] eqn:Hr; destruct (sc_root st') as [[r' f']|] eqn:Hr'.
  - destruct (root_twin d d' st st' r f r' f' T Hr Hr') as [<- Hc].
    destruct (lr (snd f)) as [m|]; [|exact I].
    assert (Hlen : length (sc_nodes st) = length (sc_nodes st')).
    { apply Permutation_length. apply NoDup_Permutation.
      - destruct (tw_s _ _ _ _ T) as [[_ [H _]] _ _ _]. exact H.
      - destruct (tw_s' _ _ _ _ T) as [[_ [H _]] _ _ _]. exact H.
      - intros x. rewrite (si_nodes _ _ _ (tw_s _ _ _ _ T)), (si_nodes _ _ _ (tw_s' _ _ _ _ T)).
        split; apply Permutation_in; [apply dir_versions_perm; exact HP|symmetry; apply dir_versions_perm; exact HP]. }
    pose proof (walk_err_iff (sc_edges st) r (length (sc_nodes st)) (repeat O (length (sc_nodes st)))) as W.
    pose proof (walk_err_iff (sc_edges st') r' (length (sc_nodes st')) (repeat O (length (sc_nodes st')))) as W'.
    destruct (walk _ (sc_edges st) _ _ _) as [ds|] eqn:Ew; destruct (walk _ (sc_edges st') _ _ _) as [ds'|] eqn:Ew'.
    + (* both succeed: the graphs are equivalent *)
      constructor; cbn [g_nodes g_root g_root_mapping g_versions g_edges].
      * apply NoDup_Permutation.
        -- destruct (tw_s _ _ _ _ T) as [[_ [H _]] _ _ _]. exact H.
        -- destruct (tw_s' _ _ _ _ T) as [[_ [H _]] _ _ _]. exact H.
        -- intros x. rewrite (si_nodes _ _ _ (tw_s _ _ _ _ T)), (si_nodes _ _ _ (tw_s' _ _ _ _ T)).
           split; apply Permutation_in; [apply dir_versions_perm; exact HP|symmetry; apply dir_versions_perm; exact HP].
      * destruct Hc as (v & H1 & H2). rewrite (nth_error_nth _ _ _ H1), (nth_error_nth _ _ _ H2). reflexivity.
      * reflexivity.
      * intros k. unfold get_named. cbn [g_versions g_nodes].
        pose proof (get_named_spec d st k) as G. pose proof (get_named_spec d' st' k) as G'.
        destruct (match tbl_get k (sc_tbl st) with Some (sp, i) => Some (sp, nth i (sc_nodes st) []) | None => None end) as [[sp v]|] eqn:E.
        -- symmetry. apply (G' sp v HW' (tw_s' _ _ _ _ T)). destruct (proj1 (G sp v HW (tw_s _ _ _ _ T)) eq_refl) as [Hv Hk].
           split; [eapply Permutation_in; [apply dir_versions_perm; exact HP|exact Hv]|exact Hk].
        -- destruct (match tbl_get k (sc_tbl st') with Some (sp, i) => Some (sp, nth i (sc_nodes st') []) | None => None end) as [[sp v]|] eqn:E'; [|reflexivity].
           destruct (proj1 (G' sp v HW' (tw_s' _ _ _ _ T)) eq_refl) as [Hv Hk].
           assert (X : None = Some (sp, v)); [|discriminate X]. apply (G sp v HW (tw_s _ _ _ _ T)).
           split; [eapply Permutation_in; [symmetry; apply dir_versions_perm; exact HP|exact Hv]|exact Hk].
      * unfold edges_named. cbn [g_edges g_nodes].
        rewrite (edges_named_scan _ d st (tw_s _ _ _ _ T)), (edges_named_scan _ d' st' (tw_s' _ _ _ _ T)).
        apply dir_edges_perm. exact HP.
    + exfalso. destruct (proj1 W' eq_refl) as (l' & Hw' & Hl').
      destruct (long_walk_twin d' d st' st r' r (S (length (sc_nodes st'))) (twin_sym d d' st st' HP T) (corr_sym _ _ _ _ Hc)) as (l & Hw & Hl).
      { exists l'. split; [exact Hw'|exact Hl']. }
      assert (X : @Ok (list nat) ds = Err); [|discriminate X]. apply W. exists l. split; [exact Hw|]. rewrite Hlen. exact Hl.
    + exfalso. destruct (proj1 W eq_refl) as (l & Hw & Hl).
      destruct (long_walk_twin d d' st st' r r' (S (length (sc_nodes st))) T Hc) as (l' & Hw' & Hl').
      { exists l. split; [exact Hw|exact Hl]. }
      assert (X : @Ok (list nat) ds' = Err); [|discriminate X]. apply W'. exists l'. split; [exact Hw'|]. rewrite <- Hlen. exact Hl'.
    + exact I.
  - exfalso. destruct R as (Hf & (v & K & _) & _). assert (Hf' : In f d') by (apply (tw_files _ _ _ _ T); exact Hf).
    specialize (R' f Hf'). assert (is_tiny_name (fst f) = true) by (apply is_tiny_classify; exists v; exact K). congruence.
  - exfalso. destruct R' as (Hf' & (v & K & _) & _). assert (Hf : In f' d) by (apply (tw_files _ _ _ _ T); exact Hf').
    specialize (R f' Hf). assert (is_tiny_name (fst f') = true) by (apply is_tiny_classify; exists v; exact K). congruence.
  - exact I.
Qed.
