(* C05 — the lookup table and the directory scan on well-formed directories:
   the state reached is described by the file names alone. *)
From FB Require Import C05.Model C05.Theory1.
From Coq Require Import Lia Permutation.

(* ---------- boolean helpers ---------- *)
Lemma memb_In x l : memb x l = true <-> In x l.
Proof.
  unfold memb. rewrite existsb_exists. split.
  - intros (y & Hy & E). apply str_eqb_eq in E. subst. exact Hy.
  - intros H. exists x. split; [exact H|apply str_eqb_refl].
Qed.
Lemma memb_false x l : memb x l = false <-> ~ In x l.
Proof. rewrite <- memb_In. destruct (memb x l); split; congruence. Qed.

Lemma nodup_strb_NoDup l : nodup_strb l = true <-> NoDup l.
Proof.
  induction l as [|x l IH]; cbn [nodup_strb].
  - split; [constructor|reflexivity].
  - rewrite andb_true_iff, negb_true_iff, memb_false, IH. split.
    + intros [H1 H2]. constructor; assumption.
    + intros H. inversion H; subst. split; assumption.
Qed.

Lemma disjointb_spec a b : disjointb a b = true <-> forall x, In x a -> ~ In x b.
Proof.
  unfold disjointb. rewrite forallb_forall. split.
  - intros H x Hx. apply memb_false. apply negb_true_iff. apply H. exact Hx.
  - intros H x Hx. apply negb_true_iff. apply memb_false. apply H. exact Hx.
Qed.

(* well-formedness as a proposition: membership-based, hence independent of order *)
Definition WF (U : list str) : Prop :=
  (forall u, In u U -> NoDup (keys u)) /\
  (forall u w k, In u U -> In w U -> In k (keys u) -> In k (keys w) -> u = w).

Lemma wf_versions_WF U : wf_versions U = true -> WF U.
Proof.
  unfold wf_versions. rewrite forallb_forall. intros H. split.
  - intros u Hu. specialize (H u Hu). apply andb_true_iff in H. apply nodup_strb_NoDup. apply H.
  - intros u w k Hu Hw Hku Hkw. specialize (H u Hu). apply andb_true_iff in H. destruct H as [_ H].
    rewrite forallb_forall in H. specialize (H w Hw). apply orb_true_iff in H. destruct H as [H|H].
    + apply str_eqb_eq. exact H.
    + exfalso. apply (proj1 (disjointb_spec _ _) H k Hku Hkw).
Qed.

Lemma WF_incl U V : WF U -> incl V U -> WF V.
Proof. intros [H1 H2] Hi. split; [intros u Hu; apply H1, Hi, Hu|intros u w k Hu Hw; apply H2; apply Hi; assumption]. Qed.

(* ---------- the table described by the node list ---------- *)
Definition key_entry (v : str) (i : nat) (k : str) : option (vsplit * nat) :=
  match split_once sep_split v with
  | Some (a, b) => if str_eqb k a then Some (SFirst, i) else if str_eqb k b then Some (SSecond, i) else None
  | None => if str_eqb k v then Some (SNone, i) else None
  end.

Fixpoint lookup_from (i : nat) (ns : list str) (k : str) : option (vsplit * nat) :=
  match ns with
  | [] => None
  | v :: ns' => match key_entry v i k with Some x => Some x | None => lookup_from (S i) ns' k end
  end.

Lemma key_entry_some v i k x : key_entry v i k = Some x -> In k (keys v) /\ snd x = i.
Proof.
  unfold key_entry, keys. destruct (split_once sep_split v) as [[a b]|].
  - destruct (str_eqb_spec k a) as [->|_]; [intros [= <-]; split; [left; reflexivity|reflexivity]|].
    destruct (str_eqb_spec k b) as [->|_]; [intros [= <-]; split; [right; left; reflexivity|reflexivity]|discriminate].
  - destruct (str_eqb_spec k v) as [->|_]; [intros [= <-]; split; [left; reflexivity|reflexivity]|discriminate].
Qed.

Lemma key_entry_none v i k : key_entry v i k = None <-> ~ In k (keys v).
Proof.
  unfold key_entry, keys. destruct (split_once sep_split v) as [[a b]|].
  - destruct (str_eqb_spec k a) as [->|Ha].
    + split; [discriminate|]. intros H. exfalso. apply H. left. reflexivity.
    + destruct (str_eqb_spec k b) as [->|Hb].
      * split; [discriminate|]. intros H. exfalso. apply H. right. left. reflexivity.
      * split; [|reflexivity]. intros _ [H|[H|[]]]; congruence.
  - destruct (str_eqb_spec k v) as [->|Hv].
    + split; [discriminate|]. intros H. exfalso. apply H. left. reflexivity.
    + split; [|reflexivity]. intros _ [H|[]]. congruence.
Qed.

Lemma tbl_get_app k t k' x :
  tbl_get k (t ++ [(k', x)]) = match tbl_get k t with Some y => Some y | None => if str_eqb k k' then Some x else None end.
Proof.
  induction t as [|[k0 x0] t IH]; cbn [tbl_get app]; [reflexivity|].
  destruct (str_eqb k k0); [reflexivity|exact IH].
Qed.

Lemma lookup_from_app i ns v k :
  lookup_from i (ns ++ [v]) k = match lookup_from i ns k with Some x => Some x | None => key_entry v (i + length ns) k end.
Proof.
  revert i. induction ns as [|w ns IH]; intros i; cbn [lookup_from app length].
  - rewrite Nat.add_0_r. destruct (key_entry v i k); reflexivity.
  - destruct (key_entry w i k); [reflexivity|]. rewrite IH. replace (S i + length ns)%nat with (i + S (length ns))%nat by lia. reflexivity.
Qed.

Lemma lookup_from_some i ns k sp j :
  lookup_from i ns k = Some (sp, j) ->
  exists w, nth_error ns (j - i) = Some w /\ (i <= j)%nat /\ key_entry w j k = Some (sp, j).
Proof.
  revert i. induction ns as [|v ns IH]; intros i; cbn [lookup_from]; [discriminate|].
  destruct (key_entry v i k) as [x|] eqn:E.
  - intros [= ->]. destruct (key_entry_some v i k _ E) as [_ Hj]. cbn in Hj. subst j.
    exists v. rewrite Nat.sub_diag. split; [reflexivity|]. split; [lia|exact E].
  - intros H. destruct (IH (S i) H) as (w & Hn & Hle & Hk). exists w.
    replace (j - i)%nat with (S (j - S i)) by lia. split; [exact Hn|]. split; [lia|exact Hk].
Qed.

Lemma lookup_from_none i ns k : lookup_from i ns k = None <-> forall w, In w ns -> ~ In k (keys w).
Proof.
  revert i. induction ns as [|v ns IH]; intros i; cbn [lookup_from].
  - split; [intros _ w []|reflexivity].
  - destruct (key_entry v i k) as [x|] eqn:E.
    + split; [discriminate|]. intros H. exfalso. apply (H v (or_introl eq_refl)). apply (key_entry_some v i k x E).
    + rewrite IH. split.
      * intros H w [<-|Hw]; [apply key_entry_none with (i := i); exact E|apply H; exact Hw].
      * intros H w Hw. apply H. right. exact Hw.
Qed.

Definition Inv (U : list str) (t : table) (ns : list str) : Prop :=
  incl ns U /\ NoDup ns /\ forall k, tbl_get k t = lookup_from 0 ns k.

Lemma NoDup_snoc {A} (l : list A) x : NoDup l -> ~ In x l -> NoDup (l ++ [x]).
Proof.
  intros Hl Hx. apply NoDup_rev in Hl. rewrite <- (rev_involutive (l ++ [x])). apply NoDup_rev.
  rewrite rev_app_distr. cbn. constructor; [rewrite <- in_rev; exact Hx|exact Hl].
Qed.

Lemma nth_error_snoc {A} (l : list A) x : nth_error (l ++ [x]) (length l) = Some x.
Proof. rewrite nth_error_app2 by lia. rewrite Nat.sub_diag. reflexivity. Qed.

(* the node a lookup finds is the version itself *)
Lemma lookup_hits_version U ns k sp j v :
  WF U -> incl ns U -> In v U -> In k (keys v) -> lookup_from 0 ns k = Some (sp, j) -> nth_error ns j = Some v.
Proof.
  intros [_ W2] Hi Hv Hk L. destruct (lookup_from_some 0 ns k sp j L) as (w & Hn & _ & He).
  rewrite Nat.sub_0_r in Hn. destruct (key_entry_some w j k _ He) as [Hkw _].
  assert (w = v) as <-; [|exact Hn]. apply (W2 w v k); auto. apply Hi. eapply nth_error_In. exact Hn.
Qed.

Theorem add_node_wf U t ns v t' ns' i :
  WF U -> In v U -> Inv U t ns -> add_node t ns v = (t', ns', i) ->
  Inv U t' ns' /\ nth_error ns' i = Some v /\ (In v ns -> ns' = ns) /\ (~ In v ns -> ns' = ns ++ [v]).
Proof.
  intros HW Hv (Hi & Hnd & Ht). unfold add_node.
  assert (Hkeys : keys v = match split_once sep_split v with Some (a, b) => [a; b] | None => [v] end) by reflexivity.
  destruct (split_once sep_split v) as [[a b]|] eqn:E.
  - assert (Ha : In a (keys v)) by (rewrite Hkeys; left; reflexivity).
    assert (Hb : In b (keys v)) by (rewrite Hkeys; right; left; reflexivity).
    rewrite (Ht a). destruct (lookup_from 0 ns a) as [[sp j]|] eqn:L.
    + pose proof (lookup_hits_version U ns a sp j v HW Hi Hv Ha L) as Hn.
      assert (Hin : In v ns) by (eapply nth_error_In; exact Hn).
      destruct (tbl_get b t) as [y|] eqn:Gb.
      * intros [= <- <- <-]. split; [repeat split; assumption|]. split; [exact Hn|]. split; [reflexivity|]. intros H; contradiction.
      * exfalso. rewrite Ht in Gb. apply (proj1 (lookup_from_none 0 ns b) Gb v Hin Hb).
    + assert (Hnin : ~ In v ns) by (intros Hin; apply (proj1 (lookup_from_none 0 ns a) L v Hin Ha)).
      rewrite tbl_get_app. rewrite (Ht b).
      assert (Lb : lookup_from 0 ns b = None).
      { destruct (lookup_from 0 ns b) as [[sp j]|] eqn:Lb; [|reflexivity]. exfalso. apply Hnin.
        eapply nth_error_In. apply (lookup_hits_version U ns b sp j v HW Hi Hv Hb Lb). }
      rewrite Lb.
      assert (Hab : a <> b).
      { destruct HW as [W1 _]. specialize (W1 v Hv). rewrite Hkeys in W1. inversion W1 as [|? ? Hx _]; subst.
        intros ->. apply Hx. left. reflexivity. }
      destruct (str_eqb_spec b a) as [Hba|_]; [congruence|].
      intros [= <- <- <-]. split; [|split; [apply nth_error_snoc|split; [intros H; contradiction|reflexivity]]].
      split; [intros x Hx; apply in_app_or in Hx; destruct Hx as [Hx|[<-|[]]]; [apply Hi; exact Hx|exact Hv]|].
      split; [apply NoDup_snoc; assumption|].
      intros k. rewrite !tbl_get_app, lookup_from_app, Ht. destruct (lookup_from 0 ns k); [reflexivity|].
      unfold key_entry. rewrite E. cbn [Nat.add]. destruct (str_eqb k a); [reflexivity|]. destruct (str_eqb k b); reflexivity.
  - assert (Hk : In v (keys v)) by (rewrite Hkeys; left; reflexivity).
    rewrite (Ht v). destruct (lookup_from 0 ns v) as [[sp j]|] eqn:L.
    + pose proof (lookup_hits_version U ns v sp j v HW Hi Hv Hk L) as Hn.
      intros [= <- <- <-]. split; [repeat split; assumption|]. split; [exact Hn|]. split; [reflexivity|].
      intros H. exfalso. apply H. eapply nth_error_In. exact Hn.
    + assert (Hnin : ~ In v ns) by (intros Hin; apply (proj1 (lookup_from_none 0 ns v) L v Hin Hk)).
      intros [= <- <- <-]. split; [|split; [apply nth_error_snoc|split; [intros H; contradiction|reflexivity]]].
      split; [intros x Hx; apply in_app_or in Hx; destruct Hx as [Hx|[<-|[]]]; [apply Hi; exact Hx|exact Hv]|].
      split; [apply NoDup_snoc; assumption|].
      intros k. rewrite tbl_get_app, lookup_from_app, Ht. destruct (lookup_from 0 ns k); [reflexivity|].
      unfold key_entry. rewrite E. cbn [Nat.add]. reflexivity.
Qed.

(* nodes only ever get appended *)
Lemma add_node_prefix t ns v t' ns' i : add_node t ns v = (t', ns', i) -> exists ext, ns' = ns ++ ext.
Proof.
  unfold add_node. destruct (split_once sep_split v) as [[a b]|].
  - destruct (tbl_get a t) as [[sp j]|].
    + destruct (tbl_get b t); intros [= <- <- <-]; exists []; rewrite app_nil_r; reflexivity.
    + destruct (tbl_get b (t ++ [(a, (SFirst, length ns))])); intros [= <- <- <-]; exists [v]; reflexivity.
  - destruct (tbl_get v t) as [[sp j]|]; intros [= <- <- <-]; [exists []; rewrite app_nil_r|exists [v]]; reflexivity.
Qed.

Lemma nth_error_prefix {A} (l ext : list A) i x : nth_error l i = Some x -> nth_error (l ++ ext) i = Some x.
Proof. intros H. rewrite nth_error_app1; [exact H|]. apply nth_error_Some. congruence. Qed.

(* ---------- the scan in terms of classify ---------- *)
Lemma is_tiny_classify n : is_tiny_name n = true <-> exists v, classify n = FRoot v.
Proof.
  unfold is_tiny_name, classify. destruct (strip_suffix ext_tiny n) as [v|].
  - split; [intros _; exists v; reflexivity|reflexivity].
  - split; [discriminate|]. intros [v H]. destruct (strip_suffix ext_diff n) as [raw|]; [destruct (split_once sep_edge raw) as [[p c]|]|]; discriminate.
Qed.

Lemma scan_step_classify {C} (st : scan C) (f : file C) :
  scan_step st f =
  match classify (fst f) with
  | FRoot vs =>
      let '(t, ns, v) := add_node (sc_tbl st) (sc_nodes st) vs in
      match sc_root st with Some _ => Err | None => Ok (mkScan t ns (sc_edges st) (Some (v, f))) end
  | FEdge parent version =>
      let '(t1, ns1, v) := add_node (sc_tbl st) (sc_nodes st) version in
      let '(t2, ns2, p) := add_node t1 ns1 parent in
      Ok (mkScan t2 ns2 (sc_edges st ++ [(p, v, f)]) (sc_root st))
  | FBad => Err
  | FOther => Ok st
  end.
Proof.
  unfold scan_step, classify. destruct (strip_suffix ext_tiny (fst f)); [reflexivity|].
  destruct (strip_suffix ext_diff (fst f)) as [raw|]; [|reflexivity].
  destruct (split_once sep_edge raw) as [[p v]|]; reflexivity.
Qed.

Definition is_edge_name (n : str) : bool := match classify n with FEdge _ _ => true | _ => false end.

(* name-level reading of the edges and of the root *)
Definition dir_edges {C} (d : list (file C)) : list (str * str * file C) :=
  flat_map (fun f => match classify (fst f) with FEdge p v => [(p, v, f)] | _ => [] end) d.

Definition edge_ok {C} (ns : list str) (e : edge C) (ne : str * str * file C) : Prop :=
  e_file e = snd ne /\ nth_error ns (e_src e) = Some (fst (fst ne)) /\ nth_error ns (e_dst e) = Some (snd (fst ne)).

Record SInv {C} (U : list str) (d : list (file C)) (st : scan C) : Prop := mkSInv {
  si_inv : Inv U (sc_tbl st) (sc_nodes st);
  si_nodes : forall v, In v (sc_nodes st) <-> In v (dir_versions d);
  si_edges : Forall2 (edge_ok (sc_nodes st)) (sc_edges st) (dir_edges d);
  si_root : match sc_root st with
            | None => forall f, In f d -> is_tiny_name (fst f) = false
            | Some (r, f) => In f d /\ (exists v, classify (fst f) = FRoot v /\ nth_error (sc_nodes st) r = Some v)
                             /\ (forall f', In f' d -> is_tiny_name (fst f') = true -> f' = f)
            end }.

Lemma dir_versions_app {C} (d1 d2 : list (file C)) : dir_versions (d1 ++ d2) = dir_versions d1 ++ dir_versions d2.
Proof. unfold dir_versions. apply flat_map_app. Qed.
Lemma dir_edges_app {C} (d1 d2 : list (file C)) : dir_edges (d1 ++ d2) = dir_edges d1 ++ dir_edges d2.
Proof. unfold dir_edges. apply flat_map_app. Qed.

Lemma edge_ok_prefix {C} ns ext (es : list (edge C)) nes :
  Forall2 (edge_ok ns) es nes -> Forall2 (edge_ok (ns ++ ext)) es nes.
Proof.
  intros H. induction H as [|e ne es nes (H1 & H2 & H3) _ IH]; constructor; [|exact IH].
  split; [exact H1|]. split; apply nth_error_prefix; assumption.
Qed.

Lemma scan_step_sinv {C} U (d : list (file C)) st f st' :
  WF U -> incl (dir_versions (d ++ [f])) U -> SInv U d st -> scan_step st f = Ok st' -> SInv U (d ++ [f]) st'.
Proof.
  intros HW HU [Hinv Hnodes Hedges Hroot]. rewrite scan_step_classify.
  rewrite dir_versions_app in HU. unfold dir_versions at 2 in HU. cbn [flat_map] in HU. rewrite app_nil_r in HU.
  assert (HV : dir_versions (d ++ [f]) = dir_versions d ++ file_versions (fst f)).
  { rewrite dir_versions_app. unfold dir_versions at 2. cbn [flat_map]. rewrite app_nil_r. reflexivity. }
  assert (HE : dir_edges (d ++ [f]) = dir_edges d ++ match classify (fst f) with FEdge p v => [(p, v, f)] | _ => [] end).
  { rewrite dir_edges_app. unfold dir_edges at 2. cbn [flat_map]. rewrite app_nil_r. reflexivity. }
  unfold file_versions in HU, HV.
  destruct (classify (fst f)) as [vs|p v| |] eqn:K.
  - (* root file *)
    destruct (add_node (sc_tbl st) (sc_nodes st) vs) as [[t ns] i] eqn:A.
    destruct (sc_root st) as [r0|] eqn:R; [discriminate|]. intros [= <-].
    assert (Hvs : In vs U) by (apply HU; apply in_or_app; right; left; reflexivity).
    destruct (add_node_wf U _ _ vs t ns i HW Hvs Hinv A) as (Hinv' & Hn & Hsame & Hnew).
    destruct (add_node_prefix _ _ _ _ _ _ A) as [ext Hext].
    constructor; cbn [sc_tbl sc_nodes sc_edges sc_root].
    + exact Hinv'.
    + intros x. rewrite HV, in_app_iff. cbn [In]. rewrite <- Hnodes.
      destruct (in_dec (list_eq_dec N.eq_dec) vs (sc_nodes st)) as [Hin|Hnin].
      * rewrite (Hsame Hin). split; [auto|]. intros [H|[<-|[]]]; assumption.
      * rewrite (Hnew Hnin), in_app_iff. cbn [In]. tauto.
    + rewrite HE, app_nil_r, Hext. apply edge_ok_prefix. exact Hedges.
    + split; [apply in_or_app; right; left; reflexivity|]. split; [exists vs; split; [exact K|exact Hn]|].
      intros f' Hf' T. apply in_app_or in Hf'. destruct Hf' as [Hf'|[<-|[]]]; [|reflexivity].
      rewrite (Hroot f' Hf') in T. discriminate.
  - (* edge file *)
    destruct (add_node (sc_tbl st) (sc_nodes st) v) as [[t1 ns1] iv] eqn:A1.
    destruct (add_node t1 ns1 p) as [[t2 ns2] ip] eqn:A2. intros [= <-].
    assert (Hv : In v U) by (apply HU; apply in_or_app; right; left; reflexivity).
    assert (Hp : In p U) by (apply HU; apply in_or_app; right; right; left; reflexivity).
    destruct (add_node_wf U _ _ v t1 ns1 iv HW Hv Hinv A1) as (Hinv1 & Hn1 & Hsame1 & Hnew1).
    destruct (add_node_wf U _ _ p t2 ns2 ip HW Hp Hinv1 A2) as (Hinv2 & Hn2 & Hsame2 & Hnew2).
    destruct (add_node_prefix _ _ _ _ _ _ A1) as [ext1 Hext1].
    destruct (add_node_prefix _ _ _ _ _ _ A2) as [ext2 Hext2].
    constructor; cbn [sc_tbl sc_nodes sc_edges sc_root].
    + exact Hinv2.
    + intros x. rewrite HV, in_app_iff. cbn [In]. rewrite <- Hnodes.
      assert (H1 : In x ns1 <-> In x (sc_nodes st) \/ v = x).
      { destruct (in_dec (list_eq_dec N.eq_dec) v (sc_nodes st)) as [Hin|Hnin].
        - rewrite (Hsame1 Hin). split; [auto|]. intros [H|<-]; assumption.
        - rewrite (Hnew1 Hnin), in_app_iff. cbn [In]. tauto. }
      assert (H2 : In x ns2 <-> In x ns1 \/ p = x).
      { destruct (in_dec (list_eq_dec N.eq_dec) p ns1) as [Hin|Hnin].
        - rewrite (Hsame2 Hin). split; [auto|]. intros [H|<-]; assumption.
        - rewrite (Hnew2 Hnin), in_app_iff. cbn [In]. tauto. }
      rewrite H2, H1. tauto.
    + rewrite HE. apply Forall2_app.
      * rewrite Hext2, Hext1, <- app_assoc. apply edge_ok_prefix. exact Hedges.
      * constructor; [|constructor]. split; [reflexivity|]. cbn [e_src e_dst fst snd]. split; [exact Hn2|].
        rewrite Hext2. apply nth_error_prefix. exact Hn1.
    + destruct (sc_root st) as [[r g]|] eqn:R.
      * destruct Hroot as (Hg & (vr & Kr & Hnr) & Huniq). split; [apply in_or_app; left; exact Hg|].
        split; [exists vr; split; [exact Kr|rewrite Hext2, Hext1, <- app_assoc; apply nth_error_prefix; exact Hnr]|].
        intros f' Hf' T. apply in_app_or in Hf'. destruct Hf' as [Hf'|[<-|[]]]; [apply Huniq; assumption|].
        apply is_tiny_classify in T. destruct T as [x T]. congruence.
      * intros f' Hf'. apply in_app_or in Hf'. destruct Hf' as [Hf'|[<-|[]]]; [apply Hroot; exact Hf'|].
        destruct (is_tiny_name (fst f)) eqn:T; [|reflexivity]. apply is_tiny_classify in T. destruct T as [x T]. congruence.
  - discriminate.
  - intros [= <-]. constructor.
    + exact Hinv.
    + intros x. rewrite HV, app_nil_r. apply Hnodes.
    + rewrite HE, app_nil_r. exact Hedges.
    + destruct (sc_root st) as [[r g]|] eqn:R.
      * destruct Hroot as (Hg & Hex & Huniq). split; [apply in_or_app; left; exact Hg|]. split; [exact Hex|].
        intros f' Hf' T. apply in_app_or in Hf'. destruct Hf' as [Hf'|[<-|[]]]; [apply Huniq; assumption|].
        apply is_tiny_classify in T. destruct T as [x T]. congruence.
      * intros f' Hf'. apply in_app_or in Hf'. destruct Hf' as [Hf'|[<-|[]]]; [apply Hroot; exact Hf'|].
        destruct (is_tiny_name (fst f)) eqn:T; [|reflexivity]. apply is_tiny_classify in T. destruct T as [x T]. congruence.
Qed.

Lemma scan_dir_sinv {C} U (d2 d1 : list (file C)) st st' :
  WF U -> incl (dir_versions (d1 ++ d2)) U -> SInv U d1 st -> scan_dir st d2 = Ok st' -> SInv U (d1 ++ d2) st'.
Proof.
  revert d1 st. induction d2 as [|f d2 IH]; intros d1 st HW HU HS; cbn [scan_dir].
  - intros [= <-]. rewrite app_nil_r. exact HS.
  - destruct (scan_step st f) as [s1|] eqn:E; [|discriminate]. intros H.
    replace (d1 ++ f :: d2) with ((d1 ++ [f]) ++ d2) in * by (rewrite <- app_assoc; reflexivity).
    apply (IH (d1 ++ [f]) s1 HW HU); [|exact H].
    apply (scan_step_sinv U d1 st f s1 HW); [|exact HS|exact E].
    intros x Hx. apply HU. rewrite dir_versions_app. apply in_or_app. left. exact Hx.
Qed.

Lemma sinv_scan0 {C} U : @SInv C U [] scan0.
Proof.
  constructor; cbn.
  - split; [intros x []|]. split; [constructor|reflexivity].
  - intros v. reflexivity.
  - constructor.
  - intros f [].
Qed.

(* the state the scan of a well-formed directory reaches *)
Theorem scan_wf {C} (d : list (file C)) st :
  well_formed d = true -> scan_dir scan0 d = Ok st -> SInv (dir_versions d) d st.
Proof.
  intros Hwf H. apply (scan_dir_sinv (dir_versions d) d [] scan0 st); [apply wf_versions_WF; exact Hwf|apply incl_refl|apply sinv_scan0|exact H].
Qed.
