(* C05 — round 5: VersionGraph::resolve goes through the directory in the order of the file names ([resolve_dir] =
   [resolve] after [sort_files]).  Hence for EVERY directory (collisions of lookup names, non-confluent diamonds, malformed
   ones included) the graph — node indices, edge order, depths, lookup table — is literally the same for every listing
   order; and since all hypotheses of the theorems about [resolve] are about WHICH files there are, never about their
   order, those theorems hold for [resolve_dir] on the directory as listed. *)
From FB Require Import C05.Model C05.Theory1 C05.Theory2 C05.Theory3 C05.Theory4 C05.Theory6 C05.Theory8 C05.Theory10.
From FB Require Import C05.Instance C05.Theory11 C05.Example.
From FB Require C04.Theory2 C11.Model.
From Coq Require Import Lia Permutation.

(* holds because the constant generated from the source says that resolve sorts ([dir_sorted] = true) *)
Lemma resolve_dir_eq {C M} (lr : C -> res M) (d : list (file C)) : resolve_dir lr d = resolve lr (sort_files d).
Proof. reflexivity. Qed.

Lemma sort_files_perm {C} (d : list (file C)) : Permutation (sort_files d) d.
Proof. apply isort_perm. Qed.

Lemma file_leb_total {C} (P : file C -> Prop) : total_on (@file_leb C) P.
Proof.
  intros a b _ _. unfold file_leb. rewrite (str_cmp_antisym (fst a) (fst b)).
  destruct (str_cmp (fst a) (fst b)); cbn [CompOpp]; auto.
Qed.
Lemma file_leb_trans {C} (P : file C -> Prop) : trans_on (@file_leb C) P.
Proof.
  intros a b c _ _ _. unfold file_leb.
  destruct (str_cmp (fst a) (fst b)) eqn:E1; try discriminate; destruct (str_cmp (fst b) (fst c)) eqn:E2; try discriminate; intros _ _.
  - apply str_cmp_eq in E1, E2. rewrite E1, E2. rewrite (proj2 (str_cmp_eq (fst c) (fst c)) eq_refl). reflexivity.
  - apply str_cmp_eq in E1. rewrite E1, E2. reflexivity.
  - apply str_cmp_eq in E2. rewrite <- E2, E1. reflexivity.
  - rewrite (str_cmp_trans Lt _ _ _ E1 E2). reflexivity.
Qed.
Lemma file_leb_antisym {C} (d : list (file C)) : NoDup (map fst d) -> antisym_on (@file_leb C) (fun f => In f d).
Proof.
  intros Hnd a b Ha Hb. unfold file_leb. rewrite (str_cmp_antisym (fst a) (fst b)).
  destruct (str_cmp (fst a) (fst b)) eqn:E; cbn [CompOpp]; try discriminate. intros _ _.
  apply str_cmp_eq in E. apply (NoDup_fst_inj d a b Hnd Ha Hb E).
Qed.

(* the sorted sequence depends on the set of files only *)
Theorem sort_files_unique {C} (d d' : list (file C)) :
  nodup_strb (map fst d) = true -> Permutation d d' -> sort_files d = sort_files d'.
Proof.
  intros Hnd HP. apply nodup_strb_NoDup in Hnd. unfold sort_files.
  apply (sorted_perm_unique file_leb (fun f => In f d)); [apply file_leb_total|apply file_leb_trans|apply file_leb_antisym; exact Hnd| |exact HP].
  apply Forall_forall. auto.
Qed.

(* EVERY directory: the listing order changes nothing — the same graph, literally *)
Theorem resolve_dir_perm {C M} (lr : C -> res M) (d d' : list (file C)) :
  nodup_strb (map fst d) = true -> Permutation d d' -> resolve_dir lr d = resolve_dir lr d'.
Proof. intros Hnd HP. rewrite !resolve_dir_eq, (sort_files_unique d d' Hnd HP). reflexivity. Qed.

(* ---------- the hypotheses of the theorems do not see the order ---------- *)
Lemma forallb_perm {A} (p : A -> bool) l l' : Permutation l l' -> forallb p l = forallb p l'.
Proof.
  intros H. induction H as [|x l l' _ IH|x y l|l l' l'' _ IH1 _ IH2]; cbn [forallb].
  - reflexivity.
  - rewrite IH. reflexivity.
  - destruct (p x), (p y); reflexivity.
  - congruence.
Qed.

Lemma forallb_same {A} (p q : A -> bool) l : (forall x, p x = q x) -> forallb p l = forallb q l.
Proof. intros H. induction l as [|x l IH]; cbn [forallb]; [reflexivity|]. rewrite H, IH. reflexivity. Qed.

Lemma wf_versions_perm U U' : Permutation U U' -> wf_versions U = wf_versions U'.
Proof.
  intros HP. unfold wf_versions. rewrite (forallb_perm _ U U' HP). apply forallb_same. intros u.
  rewrite (forallb_perm _ U U' HP). reflexivity.
Qed.

Lemma well_formed_perm {C} (d d' : list (file C)) : Permutation d d' -> well_formed d = well_formed d'.
Proof. intros HP. unfold well_formed. apply wf_versions_perm, dir_versions_perm, HP. Qed.
Lemma has_bad_perm {C} (d d' : list (file C)) : Permutation d d' -> has_bad d = has_bad d'.
Proof. intros HP. unfold has_bad. apply perm_existsb, HP. Qed.
Lemma tiny_count_perm {C} (d d' : list (file C)) : Permutation d d' -> tiny_count d = tiny_count d'.
Proof. intros HP. unfold tiny_count. apply perm_filter_length, HP. Qed.

Lemma nwalk_incl {C} (d d' : list (file C)) : incl d d' -> forall L h, nwalk d h L -> nwalk d' h L.
Proof.
  intros Hi. induction L as [|v L IH]; intros h; cbn [nwalk]; [auto|].
  intros [(f & Hf & K) Hw]. split; [exists f; split; [apply Hi; exact Hf|exact K]|apply IH; exact Hw].
Qed.
Lemma perm_incl {A} (l l' : list A) : Permutation l l' -> incl l l'.
Proof. intros HP x Hx. eapply Permutation_in; eassumption. Qed.

Lemma lookup_name_perm {C} (d d' : list (file C)) s : Permutation d d' -> lookup_name d s -> lookup_name d' s.
Proof.
  intros HP (v & Hv & Hk). exists v. split; [|exact Hk]. eapply Permutation_in; [apply dir_versions_perm; exact HP|exact Hv].
Qed.

Lemma reachable_perm {C} (d d' : list (file C)) v : Permutation d d' -> reachable d v -> reachable d' v.
Proof.
  intros HP (vr & f & L & Hf & K & Hw & Hl). exists vr, f, L. split; [eapply Permutation_in; eassumption|].
  split; [exact K|]. split; [apply (nwalk_incl d d' (perm_incl _ _ HP)); exact Hw|exact Hl].
Qed.

Lemma printed_history_perm H (d d' : list (file str)) : Permutation d d' -> printed_history H d -> printed_history H d'.
Proof.
  intros HP (H1 & H2 & H3). pose proof (Permutation_sym HP) as HP'. split; [|split].
  - intros v Hv. apply H1. eapply Permutation_in; [apply dir_versions_perm; exact HP'|exact Hv].
  - intros f vr Hf. apply H2. eapply Permutation_in; eassumption.
  - intros f p v Hf. apply H3. eapply Permutation_in; eassumption.
Qed.

(* ---------- the main statements for the directory as listed ---------- *)
(* lookup: every string that is not a lookup name is refused *)
Theorem dir_get_err_iff {C M} (lr : C -> res M) (d : list (file C)) g s :
  resolve_dir lr d = Ok g -> (get g s = Err <-> ~ lookup_name d s).
Proof.
  intros Hres. rewrite resolve_dir_eq in Hres. rewrite (get_err_iff lr (sort_files d) g s Hres).
  pose proof (sort_files_perm d) as HP. split; intros Hn Hl; apply Hn.
  - apply (lookup_name_perm d (sort_files d) s (Permutation_sym HP) Hl).
  - apply (lookup_name_perm (sort_files d) d s HP Hl).
Qed.

(* error iff malformed, on the file names *)
Theorem dir_malformed_iff {C M} (lr : C -> res M) (d : list (file C)) :
  well_formed d = true ->
  (resolve_dir lr d = Err <->
   has_bad d = true \/ tiny_count d <> 1%nat \/
   exists f vr, In f d /\ classify (fst f) = FRoot vr /\
     (lr (snd f) = Err \/
      exists L Cy, nwalk d vr L /\ Cy <> [] /\ nwalk d (last L vr) Cy /\ last Cy (last L vr) = last L vr)).
Proof.
  intros Hwf. pose proof (sort_files_perm d) as HP. pose proof (Permutation_sym HP) as HP'.
  rewrite resolve_dir_eq. rewrite (malformed_iff lr (sort_files d)) by (rewrite (well_formed_perm _ _ HP); exact Hwf).
  rewrite (has_bad_perm _ _ HP), (tiny_count_perm _ _ HP).
  split; (intros [Hb|[Ht|(f & vr & Hf & K & Hrest)]]; [left; exact Hb|right; left; exact Ht|right; right]); exists f, vr.
  - split; [eapply Permutation_in; eassumption|]. split; [exact K|]. destruct Hrest as [He|(L & Cy & H1 & H2 & H3 & H4)]; [left; exact He|right].
    exists L, Cy. split; [apply (nwalk_incl _ _ (perm_incl _ _ HP)); exact H1|]. split; [exact H2|]. split; [apply (nwalk_incl _ _ (perm_incl _ _ HP)); exact H3|exact H4].
  - split; [eapply Permutation_in; eassumption|]. split; [exact K|]. destruct Hrest as [He|(L & Cy & H1 & H2 & H3 & H4)]; [left; exact He|right].
    exists L, Cy. split; [apply (nwalk_incl _ _ (perm_incl _ _ HP')); exact H1|]. split; [exact H2|]. split; [apply (nwalk_incl _ _ (perm_incl _ _ HP')); exact H3|exact H4].
Qed.

(* the end-to-end theorem *)
Theorem dir_history_sound_instantiated (H : str -> FB.Quill.Mappings.mappings) (d : list (file str)) (rank : str -> nat) :
  well_formed d = true -> has_bad d = false -> tiny_count d = 1%nat ->
  (forall f p v, In f d -> classify (fst f) = FEdge p v -> (rank p < rank v)%nat) ->
  printed_history H d ->
  exists g, resolve_dir (load_root vg_ops) d = Ok g /\
    forall v, reachable d v -> forall k, In k (keys v) ->
    exists sp i, get g k = Ok (sp, i) /\ nth_error (g_nodes g) i = Some v
      /\ candidates_by_name vg_ops g k <> []
      /\ (forall r, In r (candidates_by_name vg_ops g k) -> res_rel FB.C04.Theory2.mequiv r (FB.C11.Model.extend (H v) ns_named))
      /\ (forall r1 r2, In r1 (candidates_by_name vg_ops g k) -> In r2 (candidates_by_name vg_ops g k) -> res_rel FB.C04.Theory2.mequiv r1 r2).
Proof.
  intros Hwf Hbad Htiny Hrank HP. pose proof (sort_files_perm d) as HS. pose proof (Permutation_sym HS) as HS'.
  destruct (history_sound_instantiated H (sort_files d) rank) as (g & Hres & Hall).
  { rewrite (well_formed_perm _ _ HS). exact Hwf. }
  { rewrite (has_bad_perm _ _ HS). exact Hbad. }
  { rewrite (tiny_count_perm _ _ HS). exact Htiny. }
  { intros f p v Hf. apply Hrank. eapply Permutation_in; eassumption. }
  { apply (printed_history_perm H d _ HS'). exact HP. }
  exists g. split; [rewrite resolve_dir_eq; exact Hres|]. intros v Hv k Hk.
  destruct (Hall v (reachable_perm d _ v HS' Hv) k Hk) as (sp & i & H1 & H2 & H3 & H4).
  exists sp, i. split; [exact H1|]. split; [exact H2|]. split; [exact H3|]. split; [exact H4|].
  intros r1 r2 Hr1 Hr2.
  apply (res_rel_mequiv_trans r1 (FB.C11.Model.extend (H v) ns_named) r2); [apply H4; exact Hr1|apply res_rel_mequiv_sym, H4; exact Hr2].
Qed.

(* the sorted sequence is sorted *)
Lemma sort_files_sorted {C} (d : list (file C)) : Sorted (fun a b => file_leb a b = true) (sort_files d).
Proof. apply (isort_sorted file_leb (fun _ => True)); [apply file_leb_total|apply Forall_forall; auto]. Qed.

(* ---------- non-vacuity: the repository's fixture and the non-confluent diamond ---------- *)
Definition refused (d : list (file N)) (s : str) : bool :=
  match resolve_dir (load_root toy) d with Ok g => match get g s with Err => true | Ok _ => false end | Err => false end.
Definition answered (d : list (file N)) (s : str) : bool :=
  match resolve_dir (load_root toy) d with Ok g => match get g s with Err => false | Ok _ => true end | Err => false end.
Definition dir_answers (d : list (file N)) (k : str) : res (list (res (list N))) :=
  match resolve_dir (load_root toy) d with Ok g => Ok (candidates_by_name toy g k) | Err => Err end.

Definition nonvacuous12 : Prop :=
  (* lookups on tests/version-graph/graph: the halves are answered ... *)
  answered fixture [49;46;52] = true /\ answered fixture [115;101;114;118;101;114;45;48;46;52] = true /\ answered fixture [49;46;51] = true
  (* ... and refused are: the whole name 1.4~server-0.4, the mismatched pairing 1.4~server-0.2, 1.3~x, the empty string, the
     prefix "1.", "1.4~", "~1.4", "1.3#1.4", "1.3.tiny", "1.3 " *)
  /\ forallb (refused fixture)
       [ [49;46;52;126;115;101;114;118;101;114;45;48;46;52]; [49;46;52;126;115;101;114;118;101;114;45;48;46;50]; [49;46;51;126;120]; [];
         [49;46]; [49;46;52;126]; [126;49;46;52]; [49;46;51;35;49;46;52]; [49;46;51;46;116;105;110;121]; [49;46;51;32] ] = true
  /\ lookup_nameb fixture [49;46;52] = true /\ lookup_nameb fixture [49;46;52;126;115;101;114;118;101;114;45;48;46;52] = false
  (* every listing order gives literally the same graph, also on the non-confluent diamond *)
  /\ resolve_dir (load_root toy) (rev fixture) = resolve_dir (load_root toy) fixture
  /\ resolve_dir (load_root toy) (rev diamond) = resolve_dir (load_root toy) diamond
  /\ (exists a b, dir_answers diamond s_c = Ok [a; b] /\ a <> b /\ dir_answers (rev diamond) s_c = Ok [a; b])
  /\ sort_files (rev fixture) = fixture /\ rev fixture <> fixture.

Lemma nonvacuous12_holds : nonvacuous12.
Proof.
  unfold nonvacuous12. repeat split; try (vm_compute; reflexivity).
  - eexists. eexists. split; [vm_compute; reflexivity|]. split; [discriminate|vm_compute; reflexivity].
  - vm_compute. discriminate.
Qed.
