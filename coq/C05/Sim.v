(* C05 — history soundness in simulation form, and success of resolve on acyclic directories.

   [history_sound] (Theory5) asks for laws of the composed operations that hold for ALL diffs and
   ALL mapping sets (compatibility of apply / extend with the comparison relation).  The concrete
   operations of C04 satisfy such laws only for well-formed diffs; the simulation form below asks,
   per edge file, exactly what is needed: from any representative of the parent's mapping set the
   edge's diff leads to a representative of the child's.  It is used by C05/Instance.v. *)
From FB Require Import C05.Model C05.Theory1 C05.Theory2 C05.Theory3 C05.Theory4 C05.Theory5 C05.Theory6.
From Coq Require Import Lia Permutation.

Lemma fold_sim {C M D} (o : ops C M D) (es : list (edge C)) (Inv : nat -> M -> Prop) root m0 :
  Inv root m0 ->
  (forall e, In e es -> forall m, Inv (e_src e) m ->
     exists dd b, parse_diff o (snd (e_file e)) = Ok dd /\ apply o dd m = Ok b /\ Inv (e_dst e) b) ->
  forall l, fwalk es root l -> exists m, fold_path o es m0 (root :: l) = Ok m /\ Inv (last l root) m.
Proof.
  intros R0 He l. induction l as [|v l IH] using rev_ind; intros Hw.
  - exists m0. split; [reflexivity|exact R0].
  - apply fwalk_app in Hw. destruct Hw as [Hw [Hv _]]. destruct (IH Hw) as (m1 & F1 & R1).
    change (root :: l ++ [v]) with ((root :: l) ++ [v]). rewrite fold_path_snoc, F1.
    destruct (find_edge_some es _ _ Hv) as (e & Fe & Hin & Hs & Hd). unfold step. rewrite Fe.
    rewrite <- Hs in R1. destruct (He e Hin m1 R1) as (dd & b & Pd & Ap & Rb). rewrite Pd.
    exists b. split; [exact Ap|]. rewrite last_app. cbn [last]. rewrite <- Hd. exact Rb.
Qed.

(* [Inv v m]: m is an acceptable representative of the mapping set of version v *)
Theorem history_sim {C M D} (o : ops C M D) (Inv : str -> M -> Prop) (d : list (file C)) g :
  well_formed d = true -> resolve (load_root o) d = Ok g ->
  (forall f vr m, In f d -> classify (fst f) = FRoot vr -> load_root o (snd f) = Ok m -> Inv vr m) ->
  (forall f p v, In f d -> classify (fst f) = FEdge p v -> forall m, Inv p m ->
     exists dd b, parse_diff o (snd f) = Ok dd /\ apply o dd m = Ok b /\ Inv v b) ->
  forall k sp i v, get g k = Ok (sp, i) -> nth_error (g_nodes g) i = Some v ->
  (exists vr f L, In f d /\ classify (fst f) = FRoot vr /\ nwalk d vr L /\ last L vr = v) ->
  forall r, In r (candidates_by_name o g k) -> exists m, Inv v m /\ r = extend o m.
Proof.
  intros Hwf Hres Hroot Hedge k sp i v Hget Hv (vr & f & L & Hf & K & HW & HL) r Hr.
  unfold candidates_by_name in Hr. rewrite Hget in Hr.
  destruct (root_of_dir _ d g Hwf Hres) as (st & f0 & vr0 & Hscan & HS & Hf0 & K0 & Hrn & Hlr & Hu & _ & En & Ee).
  assert (f = f0) by (apply Hu; [exact Hf|apply is_tiny_classify; exists vr; exact K]). subst f0.
  assert (vr0 = vr) by congruence. subst vr0.
  rewrite En in Hrn, Hv. destruct (nwalk_fwalk _ d st HS L _ _ Hrn HW) as (l & Hnamed & Hfw).
  pose proof (named_last _ _ _ _ _ Hnamed Hrn) as Hlast. rewrite HL in Hlast.
  pose proof HS as [[_ [Hnd _]] _ Hedges _].
  assert (Hli : last l (g_root g) = i) by (apply (nth_error_inj _ _ _ v Hnd Hlast Hv)).
  rewrite <- Ee in Hfw.
  pose proof (resolve_walks_bounded _ d g l Hres Hfw) as Hb.
  destruct (candidates_of_paths o g i l r Hfw Hli Hb Hr) as (p & Hp & ->).
  apply shortest_paths_spec in Hp. destruct Hp as (l' & -> & Hw' & Hl' & _ & _).
  set (I := fun j m => Inv (nth j (sc_nodes st) []) m).
  destruct (fold_sim o (g_edges g) I (g_root g) (g_root_mapping g)) with (l := l') as (m & Fm & Rm).
  - unfold I. rewrite (nth_error_nth _ _ _ Hrn). apply (Hroot f vr _ Hf K Hlr).
  - intros e Hin m Hm. rewrite Ee in Hin. destruct (Forall2_in_l _ _ _ e Hedges Hin) as ([[p v0] f1] & Hne & (Hfile & Hs & Hd)).
    cbn [fst snd] in *. apply in_dir_edges in Hne. destruct Hne as [Hf1 K1].
    unfold I in *. rewrite (nth_error_nth _ _ _ Hs) in Hm. rewrite (nth_error_nth _ _ _ Hd). rewrite Hfile.
    apply (Hedge f1 p v0 Hf1 K1 m Hm).
  - exact Hw'.
  - unfold run_path. rewrite Fm. rewrite Hl' in Rm. unfold I in Rm. rewrite (nth_error_nth _ _ _ Hv) in Rm.
    exists m. split; [exact Rm|reflexivity].
Qed.

(* every reachable version is answered (the candidate list is never empty) *)
Lemma candidates_by_name_nonempty {C M D} (o : ops C M D) (g : graph C M) k : candidates_by_name o g k <> [].
Proof.
  unfold candidates_by_name. destruct (get g k) as [[sp i]|]; [apply candidates_nonempty|discriminate].
Qed.

(* ---------- resolve succeeds on an acyclic directory with exactly one root file ---------- *)
Lemma nwalk_rank {C} (d : list (file C)) (rank : str -> nat) :
  (forall f p v, In f d -> classify (fst f) = FEdge p v -> (rank p < rank v)%nat) ->
  forall L h, nwalk d h L -> (forall x, In x L -> (rank h < rank x)%nat) /\ NoDup (h :: L).
Proof.
  intros Hr. induction L as [|v L IH]; intros h Hw.
  - split; [intros x []|]. constructor; [intros []|constructor].
  - destruct Hw as [(f & Hf & K) Hw]. destruct (IH v Hw) as [Hlt Hnd]. pose proof (Hr f h v Hf K) as Hhv.
    assert (Hall : forall x, In x (v :: L) -> (rank h < rank x)%nat).
    { intros x [<-|Hx]; [exact Hhv|]. specialize (Hlt x Hx). lia. }
    split; [exact Hall|]. constructor; [|exact Hnd]. intros Hin. specialize (Hall h Hin). lia.
Qed.

Lemma named_nodup ns l L : named ns l L -> NoDup L -> NoDup l.
Proof.
  intros H. induction H as [|i v l L Hiv Hrest IH]; intros Hnd; [constructor|].
  inversion Hnd as [|? ? Hv Hnd']; subst. constructor; [|apply IH; exact Hnd'].
  intros Hin. destruct (Forall2_in_l _ _ _ i Hrest Hin) as (w & Hw & Hiw). cbn beta in Hiw.
  assert (w = v) by congruence. subst w. contradiction.
Qed.

Lemma named_bounded ns l L : named ns l L -> forall i, In i l -> (i < length ns)%nat.
Proof.
  intros H i Hin. destruct (Forall2_in_l _ _ _ i H Hin) as (w & _ & Hiw). cbn beta in Hiw.
  apply nth_error_Some. congruence.
Qed.

Theorem resolve_succeeds {C M} (lr : C -> res M) (d : list (file C)) (rank : str -> nat) :
  well_formed d = true -> has_bad d = false -> tiny_count d = 1%nat ->
  (forall f, In f d -> is_tiny_name (fst f) = true -> exists m, lr (snd f) = Ok m) ->
  (forall f p v, In f d -> classify (fst f) = FEdge p v -> (rank p < rank v)%nat) ->
  exists g, resolve lr d = Ok g.
Proof.
  intros Hwf Hbad Htiny Hload Hrank.
  destruct (scan_dir scan0 d) as [st|] eqn:Sc.
  2:{ exfalso. apply scan_dir_err_iff in Sc. destruct Sc as [Sc|Sc]; [congruence|].
      unfold root_count in Sc. cbn [scan0 sc_root] in Sc. lia. }
  pose proof (scan_wf d st Hwf Sc) as HS. pose proof (si_root _ _ _ HS) as R.
  unfold resolve. rewrite Sc.
  destruct (sc_root st) as [[r f]|] eqn:Hr.
  2:{ exfalso. unfold tiny_count in Htiny.
      assert (E : filter (fun f => is_tiny_name (fst f)) d = []).
      { clear - R. induction d as [|x d IH]; [reflexivity|]. cbn [filter]. rewrite (R x (or_introl eq_refl)).
        apply IH. intros f Hf. apply R. right. exact Hf. }
      rewrite E in Htiny. discriminate. }
  destruct R as (Hf & (v & K & Hn) & Hu).
  destruct (Hload f Hf) as (m & Hm); [apply is_tiny_classify; exists v; exact K|]. rewrite Hm.
  destruct (walk _ (sc_edges st) r _ _) as [ds|] eqn:W; [eexists; reflexivity|]. exfalso.
  apply walk_err_iff in W. destruct W as (l & Hw & Hlen).
  destruct (fwalk_nwalk _ d st HS l r v Hn Hw) as (L & Hnamed & HW).
  destruct (nwalk_rank d rank Hrank L v HW) as [_ Hnd].
  assert (Hnamed' : named (sc_nodes st) (r :: l) (v :: L)) by (constructor; assumption).
  pose proof (named_nodup _ _ _ Hnamed' Hnd) as Hndl.
  assert (Hincl : incl (r :: l) (seq 0 (length (sc_nodes st)))).
  { intros i Hi. apply in_seq. pose proof (named_bounded _ _ _ Hnamed' i Hi). lia. }
  pose proof (NoDup_incl_length Hndl Hincl) as Hle. rewrite seq_length in Hle. cbn [length] in Hle. lia.
Qed.
