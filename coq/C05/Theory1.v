(* C05 — string helpers, the scan, and the malformed-directory theorems that need no graph theory *)
From FB Require Import C05.Model.
From Coq Require Import Lia.

(* ---------- split_once / strip_suffix ---------- *)
Lemma split_once_some c s a b : split_once c s = Some (a, b) <-> s = a ++ c :: b /\ ~ In c a.
Proof.
  revert a b. induction s as [|x s IH]; intros a b; cbn [split_once].
  - split; [discriminate|]. intros [H _]. destruct a; discriminate.
  - destruct (N.eqb_spec x c) as [->|Hn].
    + split.
      * intros [= <- <-]. split; [reflexivity|intros []].
      * intros [H Hni]. destruct a as [|y a].
        -- cbn in H. injection H as ->. reflexivity.
        -- cbn in H. injection H as -> _. exfalso. apply Hni. left. reflexivity.
    + destruct (split_once c s) as [[a' b']|] eqn:E.
      * split.
        -- intros [= <- <-]. destruct (proj1 (IH a' b') eq_refl) as [-> Hni]. split; [reflexivity|].
           intros [H|H]; [congruence|auto].
        -- intros [H Hni]. destruct a as [|y a]; cbn in H.
           ++ injection H as H _. congruence.
           ++ injection H as -> H. assert (Some (a', b') = Some (a, b)) as [= -> ->]; [|reflexivity].
              apply IH. split; [exact H|]. intros Hin. apply Hni. right. exact Hin.
      * split; [discriminate|]. intros [H Hni]. destruct a as [|y a]; cbn in H.
        -- injection H as H _. congruence.
        -- injection H as -> H. assert (None = Some (a, b)); [|discriminate].
           apply IH. split; [exact H|]. intros Hin. apply Hni. right. exact Hin.
Qed.

Lemma split_once_none c s : split_once c s = None <-> ~ In c s.
Proof.
  induction s as [|x s IH]; cbn [split_once].
  - split; [intros _ []|reflexivity].
  - destruct (N.eqb_spec x c) as [->|Hn].
    + split; [discriminate|]. intros H. exfalso. apply H. left. reflexivity.
    + destruct (split_once c s) as [[a b]|].
      * split; [discriminate|]. intros H. exfalso.
        assert (Some (a, b) = None); [|discriminate]. apply IH. intros Hin. apply H. right. exact Hin.
      * split; [|reflexivity]. intros _ [H|H]; [congruence|]. revert H. apply IH. reflexivity.
Qed.

Lemma strip_suffix_some suf s a : strip_suffix suf s = Some a <-> s = a ++ suf.
Proof.
  unfold strip_suffix. split.
  - destruct (Nat.leb_spec (length suf) (length s)) as [Hle|Hlt]; cbn [andb]; [|discriminate].
    destruct (str_eqb_spec (skipn (length s - length suf) s) suf) as [E|E]; [|discriminate].
    intros [= <-]. rewrite <- (firstn_skipn (length s - length suf) s) at 1. rewrite E. reflexivity.
  - intros ->. rewrite app_length.
    replace (length a + length suf - length suf)%nat with (length a) by lia.
    destruct (Nat.leb_spec (length suf) (length a + length suf)) as [_|Hlt]; [|lia]. cbn [andb].
    rewrite skipn_app, skipn_all, Nat.sub_diag. cbn [skipn app].
    rewrite str_eqb_refl. rewrite firstn_app, firstn_all, Nat.sub_diag. cbn [firstn]. rewrite app_nil_r. reflexivity.
Qed.

Lemma strip_suffix_app suf a : strip_suffix suf (a ++ suf) = Some a.
Proof. apply strip_suffix_some. reflexivity. Qed.

(* ---------- scan: general facts (every directory) ---------- *)
Lemma scan_dir_app {C} (st : scan C) d1 d2 :
  scan_dir st (d1 ++ d2) = match scan_dir st d1 with Ok st' => scan_dir st' d2 | Err => Err end.
Proof.
  revert st. induction d1 as [|f d1 IH]; intros st; cbn [scan_dir app]; [reflexivity|].
  destruct (scan_step st f); [apply IH|reflexivity].
Qed.

Definition is_tiny_name (n : str) : bool := match strip_suffix ext_tiny n with Some _ => true | None => false end.

Lemma scan_step_root {C} (st st' : scan C) f :
  scan_step st f = Ok st' ->
  (is_tiny_name (fst f) = true -> sc_root st = None /\ exists v, sc_root st' = Some (v, f)) /\
  (is_tiny_name (fst f) = false -> sc_root st' = sc_root st).
Proof.
  unfold scan_step, is_tiny_name. destruct (strip_suffix ext_tiny (fst f)) as [vs|].
  - destruct (add_node (sc_tbl st) (sc_nodes st) vs) as [[t ns] v].
    destruct (sc_root st) as [r|]; [discriminate|]. intros [= <-]. split; [|discriminate].
    intros _. split; [reflexivity|]. exists v. reflexivity.
  - destruct (strip_suffix ext_diff (fst f)) as [raw|].
    + destruct (split_once sep_edge raw) as [[p v]|]; [|discriminate].
      destruct (add_node (sc_tbl st) (sc_nodes st) v) as [[t1 ns1] vi].
      destruct (add_node t1 ns1 p) as [[t2 ns2] pi]. intros [= <-]. split; [discriminate|reflexivity].
    + intros [= <-]. split; [discriminate|reflexivity].
Qed.

(* no file is a .tiny file: the root stays absent *)
Lemma scan_dir_no_tiny {C} (d : list (file C)) (st st' : scan C) :
  (forall f, In f d -> is_tiny_name (fst f) = false) ->
  scan_dir st d = Ok st' -> sc_root st' = sc_root st.
Proof.
  revert st. induction d as [|f d IH]; intros st Hd; cbn [scan_dir].
  - intros [= <-]. reflexivity.
  - destruct (scan_step st f) as [st1|] eqn:E; [|discriminate]. intros H.
    rewrite (IH st1); [|intros g Hg; apply Hd; right; exact Hg|exact H].
    apply (scan_step_root st st1 f E). apply Hd. left. reflexivity.
Qed.

(* once a root is recorded it stays recorded *)
Lemma scan_dir_root_stays {C} (d : list (file C)) (st st' : scan C) r :
  sc_root st = Some r -> scan_dir st d = Ok st' -> exists r', sc_root st' = Some r'.
Proof.
  revert st r. induction d as [|f d IH]; intros st r Hr; cbn [scan_dir].
  - intros [= <-]. exists r. exact Hr.
  - destruct (scan_step st f) as [st1|] eqn:E; [|discriminate].
    destruct (is_tiny_name (fst f)) eqn:T.
    + destruct (proj1 (scan_step_root st st1 f E) T) as [Hn _]. congruence.
    + pose proof (proj2 (scan_step_root st st1 f E) T) as Hs. rewrite Hr in Hs. apply (IH st1 r Hs).
Qed.

(* ---------- malformed directories ---------- *)
Theorem no_root_err {C M} (lr : C -> res M) (d : list (file C)) :
  (forall f, In f d -> is_tiny_name (fst f) = false) -> resolve lr d = Err.
Proof.
  intros Hd. unfold resolve. destruct (scan_dir scan0 d) as [st|] eqn:E; [|reflexivity].
  rewrite (scan_dir_no_tiny d scan0 st Hd E). reflexivity.
Qed.

Theorem two_roots_err {C M} (lr : C -> res M) (d1 d2 d3 : list (file C)) f1 f2 :
  is_tiny_name (fst f1) = true -> is_tiny_name (fst f2) = true ->
  resolve lr (d1 ++ f1 :: d2 ++ f2 :: d3) = Err.
Proof.
  intros T1 T2. unfold resolve.
  replace (d1 ++ f1 :: d2 ++ f2 :: d3) with ((d1 ++ [f1]) ++ d2 ++ f2 :: d3) by (rewrite <- app_assoc; reflexivity).
  rewrite scan_dir_app. destruct (scan_dir scan0 (d1 ++ [f1])) as [sa|] eqn:Ea; [|reflexivity].
  rewrite scan_dir_app in Ea. destruct (scan_dir scan0 d1) as [s0|]; [|discriminate].
  cbn [scan_dir] in Ea. destruct (scan_step s0 f1) as [s1|] eqn:E1; [|discriminate]. injection Ea as <-.
  destruct (proj1 (scan_step_root s0 s1 f1 E1) T1) as [_ [v1 Hr1]].
  rewrite scan_dir_app. destruct (scan_dir s1 d2) as [s2|] eqn:E2; [|reflexivity].
  destruct (scan_dir_root_stays d2 s1 s2 _ Hr1 E2) as [r2 Hr2].
  cbn [scan_dir]. destruct (scan_step s2 f2) as [s3|] eqn:E3; [|reflexivity].
  destruct (proj1 (scan_step_root s2 s3 f2 E3) T2) as [Hn _]. congruence.
Qed.

(* a .tinydiff file whose name has no `#` *)
Theorem diff_name_without_hash_err {C M} (lr : C -> res M) (d1 d2 : list (file C)) f raw :
  strip_suffix ext_tiny (fst f) = None -> strip_suffix ext_diff (fst f) = Some raw -> ~ In sep_edge raw ->
  resolve lr (d1 ++ f :: d2) = Err.
Proof.
  intros T D H. unfold resolve. rewrite scan_dir_app.
  destruct (scan_dir scan0 d1) as [s|]; [|reflexivity]. cbn [scan_dir]. unfold scan_step.
  rewrite T, D. rewrite (proj2 (split_once_none sep_edge raw) H). reflexivity.
Qed.

(* the root file cannot be read (or its inner class names cannot be contracted) *)
Theorem root_unreadable_err {C M} (lr : C -> res M) (d : list (file C)) :
  (forall f, In f d -> is_tiny_name (fst f) = true -> lr (snd f) = Err) -> resolve lr d = Err.
Proof.
  intros H. unfold resolve. destruct (scan_dir scan0 d) as [st|] eqn:E; [|reflexivity].
  destruct (sc_root st) as [[r f]|] eqn:R; [|reflexivity].
  assert (Hf : In f d /\ is_tiny_name (fst f) = true).
  { clear H. assert (G : forall d (s s' : scan C), scan_dir s d = Ok s' ->
      forall r f, sc_root s' = Some (r, f) -> sc_root s = Some (r, f) \/ (In f d /\ is_tiny_name (fst f) = true)).
    { clear. induction d as [|g d IH]; intros s s'; cbn [scan_dir].
      - intros [= <-] r f Hr. left. exact Hr.
      - destruct (scan_step s g) as [s1|] eqn:E1; [|discriminate]. intros E r f Hr.
        destruct (IH s1 s' E r f Hr) as [H1|[H1 H2]].
        + destruct (is_tiny_name (fst g)) eqn:T.
          * destruct (proj1 (scan_step_root s s1 g E1) T) as [_ [v Hv]]. rewrite Hv in H1. injection H1 as _ <-.
            right. split; [left; reflexivity|exact T].
          * left. rewrite <- (proj2 (scan_step_root s s1 g E1) T). exact H1.
        + right. split; [right; exact H1|exact H2]. }
    destruct (G d scan0 st E r f R) as [H0|H0]; [discriminate|exact H0]. }
  rewrite (H f (proj1 Hf) (proj2 Hf)). reflexivity.
Qed.
