(* C05 — the version graph with its composed operations INSTANTIATED by the models of C03 (Tiny v2
   text), C04 (diff / apply / .tinydiff text) and C11 (inner class names), and the end-to-end
   history theorem obtained by composing the pinned theorems of those properties
   (Props/C03.v, Props/C04.v, Props/C11.v) along every path of the graph.

   What src/version_graph.rs does with the files (checked against the source):
     resolve:      root_mapping = tiny_v2::read_file(root.tiny)?.contract_inner_class_names("named")?
     apply_diffs:  fold over the path:  m := tiny_v2_diff::read_file(edge)?.apply_to(m, "named")?
                   finally               m.extend_inner_class_names("named")
   so the root file holds the EXTENDED form of the root version, every diff file relates the
   CONTRACTED forms of its two versions, and the answer is the extended form again. *)
From FB Require Import C05.Model C05.Theory1 C05.Theory2 C05.Theory3 C05.Theory4 C05.Theory5 C05.Theory6 C05.Sim.
From FB Require Import C04.Model C04.Text C04.Hyps C04.Theory C04.Theory2 C04.TextTheory2 C04.TextTheory3.
From FB Require Import C05.Compat C05.Bridge.
From FB Require C03.Model C11.Model.
From FB Require Props.C03 Props.C04 Props.C11.
From Coq Require Import Lia Permutation.

Module X03 := FB.C03.Model.

(* ---------- the instance ---------- *)
Definition vg_ops : ops str mappings mdiffs :=
  mkOps (fun c => X03.read 2 c)                        (* quill::tiny_v2::read_file : Mappings<2>   (C03) *)
        (fun m => X11.contract m ns_named)             (* contract_inner_class_names("named")        (C11) *)
        (fun c => FB.C04.Text.read c)                  (* quill::tiny_v2_diff::read_file             (C04) *)
        (fun d m => apply_to d m ns_named)             (* MappingsDiff::apply_to(_, "named")         (C04) *)
        (fun m => X11.extend m ns_named).              (* extend_inner_class_names("named")          (C11) *)

(* ---------- the decidable hypotheses ---------- *)
(* one version: what C04's inverse law through the text form needs of each side, with "named" as the
   second (= target) namespace *)
Definition version_ok (M : mappings) : bool :=
  wf M && two_ns M && str_eqb (nth 1 (ms_ns M) []) ns_named && FB.C04.Hyps.named M
  && textual_mappings M && negb (has_empty_comment M).
(* one edge: same namespaces, same top-level comment (the .tinydiff text has no line for it), and not
   in C04's known class F3 (a parameter's first-namespace name is not part of a diff) *)
Definition edge_ok (A B : mappings) : bool :=
  list_eqb str_eqb (ms_ns A) (ms_ns B) && opt_eqb str_eqb (ms_doc A) (ms_doc B) && negb (f3_class A B).
(* the root: C11's hypothesis of contract ∘ extend = id, and C03's hypothesis on what is written *)
Definition root_ok (M : mappings) : bool :=
  X11.simple_names M 1 && match X11.extend M ns_named with Ok e => X03.textual e | Err => false end.

(* the directory is the printed history H: the root file is write (extend (H root)), the file of an
   edge p -> v is print (diff (H p) (H v)) *)
Definition printed_history (H : str -> mappings) (d : list (file str)) : Prop :=
  (forall v, In v (dir_versions d) -> version_ok (H v) = true)
  /\ (forall f vr, In f d -> classify (fst f) = FRoot vr ->
        root_ok (H vr) = true /\ exists e, X11.extend (H vr) ns_named = Ok e /\ X03.write e = Ok (snd f))
  /\ (forall f p v, In f d -> classify (fst f) = FEdge p v ->
        edge_ok (H p) (H v) = true /\ exists dd, diff (H p) (H v) = Ok dd /\ snd f = print dd).

Definition reachable {C} (d : list (file C)) (v : str) : Prop :=
  exists vr f L, In f d /\ classify (fst f) = FRoot vr /\ nwalk d vr L /\ last L vr = v.

Definition res_rel {A} (R : A -> A -> Prop) (a b : res A) : Prop :=
  match a, b with Ok x, Ok y => R x y | Err, Err => True | _, _ => False end.

(* ---------- unfolding the hypotheses ---------- *)
Lemma version_ok_spec M : version_ok M = true ->
  wf M = true /\ two_ns M = true /\ (exists n0, ms_ns M = [n0; ns_named] /\ n0 <> ns_named)
  /\ FB.C04.Hyps.named M = true /\ textual_mappings M = true /\ has_empty_comment M = false.
Proof.
  unfold version_ok. rewrite !andb_true_iff, negb_true_iff. intros (((((Hw & H2) & Hn) & Hnm) & Ht) & He).
  repeat split; auto. unfold two_ns in H2. destruct (ms_ns M) as [|n0 [|n1 [|? ?]]]; try discriminate.
  cbn [nth] in Hn. apply str_eqb_eq in Hn. subst n1. exists n0. split; [reflexivity|].
  apply negb_true_iff in H2. apply str_eqb_neq in H2. exact H2.
Qed.

Lemma ns_index_named n0 : n0 <> ns_named -> X11.ns_index [n0; ns_named] ns_named = Some 1%nat.
Proof.
  intros Hn. cbn [X11.ns_index]. apply str_eqb_neq in Hn. rewrite Hn, str_eqb_refl. reflexivity.
Qed.

Lemma extend_idx_ns M ns e : X11.extend_idx M ns = Ok e -> ms_ns e = ms_ns M.
Proof. unfold X11.extend_idx. destruct (X11.mapM _ _); [|discriminate]. intros [= <-]. reflexivity. Qed.

(* ---------- the root file: C03 round trip, then C11 contract after extend ---------- *)
Lemma root_loads M e t :
  version_ok M = true -> root_ok M = true -> X11.extend M ns_named = Ok e -> X03.write e = Ok t ->
  exists m, load_root vg_ops t = Ok m /\ mequiv m M.
Proof.
  intros Hv Hr He Hwr. destruct (version_ok_spec M Hv) as (Hw & _ & (n0 & Ens & Hn0) & _).
  unfold root_ok in Hr. rewrite He in Hr. apply andb_true_iff in Hr. destruct Hr as [Hs Htx].
  pose proof (ns_index_named n0 Hn0) as Hidx. rewrite <- Ens in Hidx.
  assert (Hei : X11.extend_idx M 1 = Ok e) by (unfold X11.extend in He; rewrite Hidx in He; exact He).
  destruct (FB.Props.C11.C11_extend_preserves_wf M 1 e Hw Hei) as [Hwe _].
  pose proof (extend_idx_ns _ _ _ Hei) as Ense.
  destruct (FB.Props.C03.C03_read_write e Hwe Htx) as (t' & Hwr' & Hrd).
  assert (t' = t) by congruence. subst t'. rewrite Ense, Ens in Hrd. cbn [length] in Hrd.
  assert (Hc : X11.contract e ns_named = Ok M).
  { apply (FB.Props.C11.C11_contract_extend M ns_named 1 e Hidx); [discriminate|exact Hs|exact He]. }
  destruct (contract_compat (canon e) e ns_named M (canon_mequiv e Hwe) Hc) as (m & Hm & Em).
  exists m. split; [|exact Em]. unfold load_root, vg_ops. cbn [parse_tiny contract]. rewrite Hrd. exact Hm.
Qed.

(* ---------- one edge file: C04's inverse law through the text form, from any representative ---------- *)
Lemma edge_steps A B dd m :
  version_ok A = true -> version_ok B = true -> edge_ok A B = true -> diff A B = Ok dd -> mequiv m A ->
  exists d' b, parse_diff vg_ops (print dd) = Ok d' /\ apply vg_ops d' m = Ok b /\ mequiv b B.
Proof.
  intros HA HB He Hd Hm.
  destruct (version_ok_spec A HA) as (HwA & H2A & (n0 & EnsA & _) & HnA & HtA & HeA).
  destruct (version_ok_spec B HB) as (HwB & _ & _ & HnB & HtB & HeB).
  unfold edge_ok in He. rewrite !andb_true_iff, negb_true_iff in He. destruct He as ((Hns & Hdoc) & H3).
  apply list_str_eqb_eq in Hns. apply opt_str_eqb_eq in Hdoc.
  assert (Hinv : inverse_hyps A B) by (unfold inverse_hyps; auto 10).
  assert (H4 : f4_class A B = false) by (unfold f4_class; rewrite HeA, HeB; reflexivity).
  destruct (FB.Props.C04.C04_diff_textual A B dd HwA HwB HtA HtB H4 Hdoc Hd) as [Htx Hne].
  destruct (FB.Props.C04.C04_diff_apply_partial A B Hinv H3) as (d0 & r0 & Hd0 & Hr0 & E0).
  assert (d0 = dd) by congruence. subst d0. rewrite EnsA in Hr0. cbn [nth] in Hr0.
  assert (Hwd : wf_diff dd = true).
  { unfold textual_diff in Htx. rewrite !andb_true_iff in Htx. tauto. }
  destruct (apply_to_compat dd A m ns_named r0 Hwd Hm Hr0) as (b & Hb & Eb).
  exists (norm dd), b. unfold vg_ops. cbn [parse_diff apply]. split; [apply FB.Props.C04.C04_read_print; exact Htx|].
  split; [apply FB.Props.C04.C04_apply_norm; assumption|]. apply (mequiv_trans b r0 B); assumption.
Qed.

(* ---------- reachable versions are mentioned in the directory ---------- *)
Lemma nwalk_versions {C} (d : list (file C)) : forall L h, nwalk d h L -> In h (dir_versions d) -> In (last L h) (dir_versions d).
Proof.
  induction L as [|v L IH]; intros h Hw Hh; [exact Hh|]. destruct Hw as [(f & Hf & K) Hw].
  assert (E : last (v :: L) h = last L v) by (destruct L as [|y L']; [reflexivity|exact (last_cons_default L' y h v)]).
  rewrite E. apply IH; [exact Hw|]. unfold dir_versions. apply in_flat_map. exists f. split; [exact Hf|].
  unfold file_versions. rewrite K. left. reflexivity.
Qed.

Lemma reachable_version {C} (d : list (file C)) v : reachable d v -> In v (dir_versions d).
Proof.
  intros (vr & f & L & Hf & K & HW & <-). apply nwalk_versions; [exact HW|].
  unfold dir_versions. apply in_flat_map. exists f. split; [exact Hf|]. unfold file_versions. rewrite K. left. reflexivity.
Qed.

(* ---------- the end-to-end theorem ---------- *)
Theorem history_sound_instantiated (H : str -> mappings) (d : list (file str)) (rank : str -> nat) :
  well_formed d = true -> has_bad d = false -> tiny_count d = 1%nat ->
  (forall f p v, In f d -> classify (fst f) = FEdge p v -> (rank p < rank v)%nat) ->
  printed_history H d ->
  exists g, resolve (load_root vg_ops) d = Ok g /\
    forall v, reachable d v -> forall k, In k (keys v) ->
    exists sp i, get g k = Ok (sp, i) /\ nth_error (g_nodes g) i = Some v
      /\ candidates_by_name vg_ops g k <> []
      /\ forall r, In r (candidates_by_name vg_ops g k) -> res_rel mequiv r (X11.extend (H v) ns_named).
Proof.
  intros Hwf Hbad Htiny Hrank (Hver & Hrootf & Hedgef).
  assert (Hin_versions : forall f x, In f d -> In x (file_versions (fst f)) -> In x (dir_versions d)).
  { intros f x Hf Hx. unfold dir_versions. apply in_flat_map. exists f. auto. }
  assert (Hroot_load : forall f vr, In f d -> classify (fst f) = FRoot vr ->
            exists m, load_root vg_ops (snd f) = Ok m /\ mequiv m (H vr)).
  { intros f vr Hf K. destruct (Hrootf f vr Hf K) as (Hr & e & He & Hwr).
    apply (root_loads (H vr) e (snd f)); auto. apply Hver. apply (Hin_versions f); [exact Hf|].
    unfold file_versions. rewrite K. left. reflexivity. }
  destruct (resolve_succeeds (load_root vg_ops) d rank Hwf Hbad Htiny) as (g & Hres).
  { intros f Hf Ht. apply is_tiny_classify in Ht. destruct Ht as (vr & K).
    destruct (Hroot_load f vr Hf K) as (m & Hm & _). exists m. exact Hm. }
  { exact Hrank. }
  exists g. split; [exact Hres|]. intros v Hreach k Hk.
  pose proof (reachable_version d v Hreach) as Hv.
  destruct (lookup _ d g Hwf Hres v Hv) as (i & Hi & Hget).
  assert (Hg : exists sp, get g k = Ok (sp, i)).
  { unfold keys in Hk. destruct (split_once sep_split v) as [[a b]|].
    - destruct Hget as [Ha Hb]. destruct Hk as [<-|[<-|[]]]; eauto.
    - destruct Hk as [<-|[]]. eauto. }
  destruct Hg as (sp & Hg). exists sp, i. split; [exact Hg|]. split; [exact Hi|].
  split; [apply candidates_by_name_nonempty|]. intros r Hr.
  destruct (history_sim vg_ops (fun v m => mequiv m (H v)) d g Hwf Hres) with (k := k) (sp := sp) (i := i) (v := v) (r := r)
    as (m & Em & ->); auto.
  - intros f vr m Hf K Hl. destruct (Hroot_load f vr Hf K) as (m' & Hm' & Em'). congruence.
  - intros f p v0 Hf K m Em. destruct (Hedgef f p v0 Hf K) as (He & dd & Hd & ->).
    apply (edge_steps (H p) (H v0) dd m); auto; apply Hver; apply (Hin_versions f); try exact Hf;
      unfold file_versions; rewrite K; [right; left; reflexivity|left; reflexivity].
  - unfold vg_ops. cbn [extend]. unfold res_rel.
    destruct (X11.extend m ns_named) as [e|] eqn:E1; destruct (X11.extend (H v) ns_named) as [e'|] eqn:E2.
    + destruct (extend_compat m (H v) ns_named e' Em E2) as (e0 & He0 & Ee). congruence.
    + destruct (extend_compat (H v) m ns_named e (mequiv_sym _ _ Em) E1) as (e0 & He0 & _). congruence.
    + destruct (extend_compat m (H v) ns_named e' Em E2) as (e0 & He0 & _). congruence.
    + exact I.
Qed.
