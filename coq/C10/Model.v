(* C10 — executable model of the two "dummy mapping" filters of quill:
     Mappings::remove_dummy(namespace)                         quill/src/action/remove_dummy.rs
     MappingsDiff::insert_dummy_and_contract_inner_names()     quill/src/action/insert_dummy.rs
   Definitions only.  An IndexMap is the list of its entries in insertion order; `retain` is
   `filter` (it keeps the order); a nested `retain` that first rewrites / filters the children of
   a node and then decides about the node itself is `filter keep (map rewrite l)`.
   The placeholder constants come from C10/Consts.v, generated from the Rust source. *)
From FB Require Export Quill.Mappings C10.Consts.

(* ------------------------------------------------------------------------------------------ *)
(* remove_dummy                                                                                 *)

(* Namespaces::get_namespace: index of the first namespace with that name *)
Fixpoint find_ns (name : str) (l : list str) : option nat :=
  match l with
  | [] => None
  | x :: l' => if str_eqb x name then Some O else option_map S (find_ns name l')
  end.

(* `names[namespace].as_ref().is_some_and(|x| x.starts_with(p1) || … || x == e1 || …)` *)
Definition has_prefix_in (ps : list str) (x : str) : bool := existsb (fun p => starts_with p x) ps.
Definition eq_any (es : list str) (x : str) : bool := existsb (str_eqb x) es.
Definition is_placeholder (ps es : list str) (o : option str) : bool :=
  match o with
  | Some x => has_prefix_in ps x || eq_any es x
  | None => false
  end.

Definition is_nil {A} (l : list A) : bool := match l with [] => true | _ => false end.

Definition ph_param (i : nat) (p : param) : bool := is_placeholder param_prefixes param_exact (nth_name (p_names p) i).
Definition ph_field (i : nat) (f : field) : bool := is_placeholder field_prefixes field_exact (nth_name (f_names f) i).
Definition ph_meth (i : nat) (m : meth) : bool := is_placeholder method_prefixes method_exact (nth_name (m_names m) i).
Definition ph_class (i : nat) (c : class) : bool := is_placeholder class_prefixes class_exact (nth_name (c_names c) i).

(* the closures' return values; for methods and classes they look at the already filtered children *)
Definition keep_param (i : nat) (p : param) : bool := is_some (p_doc p) || negb (ph_param i p).
Definition keep_field (i : nat) (f : field) : bool := is_some (f_doc f) || negb (ph_field i f).
Definition rd_meth (i : nat) (m : meth) : meth :=
  mkMeth (m_desc m) (m_names m) (m_doc m) (filter (keep_param i) (m_params m)).
Definition keep_meth (i : nat) (m : meth) : bool :=
  is_some (m_doc m) || negb (is_nil (m_params m)) || negb (ph_meth i m).
Definition rd_class (i : nat) (c : class) : class :=
  mkClass (c_names c) (c_doc c)
    (filter (keep_field i) (c_fields c))
    (filter (keep_meth i) (map (rd_meth i) (c_methods c))).
Definition keep_class (i : nat) (c : class) : bool :=
  is_some (c_doc c) || negb (is_nil (c_fields c)) || negb (is_nil (c_methods c)) || negb (ph_class i c).

Definition remove_dummy_at (i : nat) (M : mappings) : mappings :=
  mkMappings (ms_ns M) (ms_doc M) (filter (keep_class i) (map (rd_class i) (ms_classes M))).

Definition remove_dummy (M : mappings) (namespace : str) : res mappings :=
  match find_ns namespace (ms_ns M) with
  | Some i => Ok (remove_dummy_at i M)
  | None => Err
  end.

(* ------------------------------------------------------------------------------------------ *)
(* the diff tree (quill/src/tree/mappings_diff.rs); keys are stored beside the nodes            *)

Inductive action (A : Type) : Type :=
| ANone
| AAdd (b : A)
| ARemove (a : A)
| AEdit (a b : A).
Arguments ANone {A}.
Arguments AAdd {A} b.
Arguments ARemove {A} a.
Arguments AEdit {A} a b.

Record dparam := mkDParam { dp_index : N; dp_info : action str; dp_doc : action str }.
Record dfield := mkDField { df_name : str; df_desc : str; df_info : action str; df_doc : action str }.
Record dmeth := mkDMeth { dm_name : str; dm_desc : str; dm_info : action str; dm_doc : action str;
                          dm_params : list dparam }.
Record dclass := mkDClass { dc_name : str; dc_info : action str; dc_doc : action str;
                            dc_fields : list dfield; dc_methods : list dmeth }.
Record mdiff := mkDiff { d_info : action str; d_doc : action str; d_classes : list dclass }.

(* Action::is_diff *)
Definition is_diff (a : action str) : bool :=
  match a with
  | ANone => false
  | AAdd _ => true
  | ARemove _ => true
  | AEdit a b => negb (str_eqb a b)
  end.

(* the `match &v.info` of every level: the value left in v.info … *)
Definition fix_info (placeholder : str) (a : action str) : action str :=
  match a with
  | ARemove x => AEdit x placeholder
  | other => other
  end.
(* … and `validator_check` *)
Definition validator (a : action str) : bool :=
  match a with
  | AAdd _ => false
  | _ => true
  end.

(* format!("{}", usize): decimal digits, most significant first *)
Fixpoint dec_loop (fuel : nat) (n : N) (acc : str) : str :=
  match fuel with
  | O => acc
  | S fuel' =>
      let acc' := (48 + n mod 10) :: acc in
      if N.eqb (n / 10) 0 then acc' else dec_loop fuel' (n / 10) acc'
  end.
Definition dec (n : N) : str := dec_loop (S (N.to_nat (N.log2 n))) n [].

(* ObjClassNameSlice::get_inner_class_name: rsplit_once('$') with its four refusals *)
Fixpoint rsplit_once (c : N) (s : str) : option (str * str) :=
  match s with
  | [] => None
  | x :: s' =>
      match rsplit_once c s' with
      | Some (p, i) => Some (x :: p, i)
      | None => if N.eqb x c then Some ([], s') else None
      end
  end.
Definition ends_with_char (c : N) (s : str) : bool :=
  match rev s with x :: _ => N.eqb x c | [] => false end.
Definition inner_class_name (s : str) : option str :=
  match rsplit_once cDOLLAR s with
  | Some (p, i) =>
      if negb (is_nil p) && negb (is_nil i) && negb (ends_with_char cSLASH p) && negb (mem_N cSLASH i)
      then Some i else None
  | None => None
  end.

(* the placeholders *)
Definition param_placeholder (index : N) : str := insert_param_prefix ++ dec index.
Definition class_placeholder (key : str) : str :=
  match inner_class_name key with Some i => i | None => key end.

Definition changed (info doc : action str) : bool := validator info && (is_diff info || is_diff doc).

Definition fix_dparam (p : dparam) : dparam :=
  mkDParam (dp_index p) (fix_info (param_placeholder (dp_index p)) (dp_info p)) (dp_doc p).
Definition keep_dparam (p : dparam) : bool := changed (dp_info p) (dp_doc p).

Definition fix_dfield (f : dfield) : dfield :=
  mkDField (df_name f) (df_desc f) (fix_info (df_name f) (df_info f)) (df_doc f).
Definition keep_dfield (f : dfield) : bool := changed (df_info f) (df_doc f).

Definition fix_dmeth (m : dmeth) : dmeth :=
  mkDMeth (dm_name m) (dm_desc m) (fix_info (dm_name m) (dm_info m)) (dm_doc m)
    (filter keep_dparam (map fix_dparam (dm_params m))).
Definition keep_dmeth (m : dmeth) : bool :=
  changed (dm_info m) (dm_doc m) || negb (is_nil (dm_params m)).

Definition fix_dclass (c : dclass) : dclass :=
  mkDClass (dc_name c) (fix_info (class_placeholder (dc_name c)) (dc_info c)) (dc_doc c)
    (filter keep_dfield (map fix_dfield (dc_fields c)))
    (filter keep_dmeth (map fix_dmeth (dc_methods c))).
Definition keep_dclass (c : dclass) : bool :=
  changed (dc_info c) (dc_doc c) || negb (is_nil (dc_fields c)) || negb (is_nil (dc_methods c)).

(* the function never fails (`Ok(self)`); the model is a plain function *)
Definition insert_dummy (d : mdiff) : mdiff :=
  mkDiff (d_info d) (d_doc d) (filter keep_dclass (map fix_dclass (d_classes d))).
