(* C10 theory, third part (round 4):
   - both filters commute with reordering of the entries at EVERY level (classes, fields, methods,
     parameters), not only at the top: IndexMap insertion order plays no role;
   - the result of remove_dummy is a sub-tree of its input: every node of the result is a node
     of the input with the same names / descriptor / comment, in the same relative order;
   - insert_dummy never invents keys or comments: every node of the result is a node of the
     input with the same key and comment action, and its name action is the input's, rewritten;
   - the retain conditions of insert_dummy, case by case: (addition | anything else) x
     (a child is kept | none is);
   - the shape of every retain condition as a boolean function of its atoms, REGENERATED from the
     Rust source (C10/Shapes.v, translate/c10_consts.py), is the one the model hard-codes. *)
From FB Require Import C10.Model C10.Shapes C10.Theory C10.Theory2.
From Coq Require Import Permutation.

(* ------------------------------------------------------------------------------------------ *)
(* equal up to order, with related elements                                                      *)

Definition PermBy {A} (R : A -> A -> Prop) (l l' : list A) : Prop :=
  exists l0, Permutation l l0 /\ Forall2 R l0 l'.

Lemma PermBy_refl {A} (R : A -> A -> Prop) l : (forall a, R a a) -> PermBy R l l.
Proof.
  intros HR. exists l. split; [apply Permutation_refl|]. induction l; constructor; auto.
Qed.

Lemma Forall2_filter_map {A} (R : A -> A -> Prop) (k : A -> bool) (f : A -> A) l l' :
  (forall a b, R a b -> R (f a) (f b) /\ k (f a) = k (f b)) ->
  Forall2 R l l' -> Forall2 R (filter k (map f l)) (filter k (map f l')).
Proof.
  intros H HF. induction HF as [|a b l l' Hab _ IH]; cbn [map filter]; [constructor|].
  destruct (H a b Hab) as [HR Hk]. rewrite <- Hk. destruct (k (f a)); [constructor; assumption|exact IH].
Qed.

Lemma PermBy_filter_map {A} (R : A -> A -> Prop) (k : A -> bool) (f : A -> A) l l' :
  (forall a b, R a b -> R (f a) (f b) /\ k (f a) = k (f b)) ->
  PermBy R l l' -> PermBy R (filter k (map f l)) (filter k (map f l')).
Proof.
  intros H (l0 & HP & HF). exists (filter k (map f l0)). split.
  - apply perm_filter. apply Permutation_map. exact HP.
  - apply Forall2_filter_map; assumption.
Qed.

Lemma perm_is_nil {A} (l l' : list A) : Permutation l l' -> is_nil l = is_nil l'.
Proof.
  intros H. destruct l as [|x l]; destruct l' as [|y l']; try reflexivity.
  - apply Permutation_nil in H. discriminate.
  - apply Permutation_sym, Permutation_nil in H. discriminate.
Qed.

Lemma PermBy_is_nil {A} (R : A -> A -> Prop) l l' : PermBy R l l' -> is_nil l = is_nil l'.
Proof.
  intros (l0 & HP & HF). rewrite (perm_is_nil _ _ HP). destruct HF; reflexivity.
Qed.

(* ------------------------------------------------------------------------------------------ *)
(* remove_dummy and reordering, all levels                                                       *)

Definition PermMeth (m m' : meth) : Prop :=
  m_desc m' = m_desc m /\ m_names m' = m_names m /\ m_doc m' = m_doc m
  /\ Permutation (m_params m) (m_params m').
Definition PermClass (c c' : class) : Prop :=
  c_names c' = c_names c /\ c_doc c' = c_doc c
  /\ Permutation (c_fields c) (c_fields c') /\ PermBy PermMeth (c_methods c) (c_methods c').
Definition PermMappings (M M' : mappings) : Prop :=
  ms_ns M' = ms_ns M /\ ms_doc M' = ms_doc M /\ PermBy PermClass (ms_classes M) (ms_classes M').

Lemma PermMeth_refl m : PermMeth m m.
Proof. repeat split; apply Permutation_refl. Qed.
Lemma PermClass_refl c : PermClass c c.
Proof. repeat split; [apply Permutation_refl|apply PermBy_refl, PermMeth_refl]. Qed.
Lemma PermMappings_refl M : PermMappings M M.
Proof. repeat split. apply PermBy_refl, PermClass_refl. Qed.

Lemma rd_meth_perm i m m' :
  PermMeth m m' -> PermMeth (rd_meth i m) (rd_meth i m') /\ keep_meth i (rd_meth i m) = keep_meth i (rd_meth i m').
Proof.
  intros (Hd & Hn & Hc & Hp). split.
  - unfold PermMeth, rd_meth. cbn [m_desc m_names m_doc m_params]. repeat split; auto.
    apply perm_filter. exact Hp.
  - unfold keep_meth, ph_meth, rd_meth. cbn [m_desc m_names m_doc m_params]. rewrite Hn, Hc.
    rewrite (perm_is_nil _ _ (perm_filter (keep_param i) _ _ Hp)). reflexivity.
Qed.

Lemma rd_class_perm i c c' :
  PermClass c c' -> PermClass (rd_class i c) (rd_class i c') /\ keep_class i (rd_class i c) = keep_class i (rd_class i c').
Proof.
  intros (Hn & Hc & Hf & Hm).
  assert (HM : PermBy PermMeth (filter (keep_meth i) (map (rd_meth i) (c_methods c)))
                               (filter (keep_meth i) (map (rd_meth i) (c_methods c')))).
  { apply PermBy_filter_map; [|exact Hm]. intros a b Hab. apply rd_meth_perm. exact Hab. }
  split.
  - unfold PermClass, rd_class. cbn [c_names c_doc c_fields c_methods]. repeat split; auto.
    apply perm_filter. exact Hf.
  - unfold keep_class, ph_class, rd_class. cbn [c_names c_doc c_fields c_methods]. rewrite Hn, Hc.
    rewrite (perm_is_nil _ _ (perm_filter (keep_field i) _ _ Hf)), (PermBy_is_nil _ _ _ HM). reflexivity.
Qed.

Theorem remove_dummy_at_perm_deep i M M' :
  PermMappings M M' -> PermMappings (remove_dummy_at i M) (remove_dummy_at i M').
Proof.
  intros (Hn & Hd & Hc). unfold PermMappings, remove_dummy_at. cbn [ms_ns ms_doc ms_classes].
  repeat split; auto. apply PermBy_filter_map; [|exact Hc]. intros a b Hab. apply rd_class_perm. exact Hab.
Qed.

Theorem remove_dummy_perm_deep M M' ns R :
  PermMappings M M' -> remove_dummy M ns = Ok R ->
  exists R', remove_dummy M' ns = Ok R' /\ PermMappings R R'.
Proof.
  intros HP. pose proof HP as (Hn & _ & _). unfold remove_dummy. rewrite Hn.
  destruct (find_ns ns (ms_ns M)) as [i|]; [|discriminate]. intros [= <-].
  exists (remove_dummy_at i M'). split; [reflexivity|]. apply remove_dummy_at_perm_deep. exact HP.
Qed.

(* ------------------------------------------------------------------------------------------ *)
(* insert_dummy and reordering, all levels                                                       *)

Definition PermDMeth (m m' : dmeth) : Prop :=
  dm_name m' = dm_name m /\ dm_desc m' = dm_desc m /\ dm_info m' = dm_info m /\ dm_doc m' = dm_doc m
  /\ Permutation (dm_params m) (dm_params m').
Definition PermDClass (c c' : dclass) : Prop :=
  dc_name c' = dc_name c /\ dc_info c' = dc_info c /\ dc_doc c' = dc_doc c
  /\ Permutation (dc_fields c) (dc_fields c') /\ PermBy PermDMeth (dc_methods c) (dc_methods c').
Definition PermDiff (d d' : mdiff) : Prop :=
  d_info d' = d_info d /\ d_doc d' = d_doc d /\ PermBy PermDClass (d_classes d) (d_classes d').

Lemma PermDiff_refl d : PermDiff d d.
Proof.
  repeat split. apply PermBy_refl. intros c. repeat split; [apply Permutation_refl|].
  apply PermBy_refl. intros m. repeat split. apply Permutation_refl.
Qed.

Lemma fix_dmeth_perm m m' :
  PermDMeth m m' -> PermDMeth (fix_dmeth m) (fix_dmeth m') /\ keep_dmeth (fix_dmeth m) = keep_dmeth (fix_dmeth m').
Proof.
  intros (Hn & Hd & Hi & Hc & Hp).
  assert (HP : Permutation (filter keep_dparam (map fix_dparam (dm_params m)))
                           (filter keep_dparam (map fix_dparam (dm_params m')))).
  { apply perm_filter, Permutation_map. exact Hp. }
  split.
  - unfold PermDMeth, fix_dmeth. cbn [dm_name dm_desc dm_info dm_doc dm_params]. rewrite Hn, Hi. repeat split; auto.
  - unfold keep_dmeth, fix_dmeth. cbn [dm_name dm_desc dm_info dm_doc dm_params]. rewrite Hn, Hi, Hc.
    rewrite (perm_is_nil _ _ HP). reflexivity.
Qed.

Lemma fix_dclass_perm c c' :
  PermDClass c c' -> PermDClass (fix_dclass c) (fix_dclass c') /\ keep_dclass (fix_dclass c) = keep_dclass (fix_dclass c').
Proof.
  intros (Hn & Hi & Hc & Hf & Hm).
  assert (HF : Permutation (filter keep_dfield (map fix_dfield (dc_fields c)))
                           (filter keep_dfield (map fix_dfield (dc_fields c')))).
  { apply perm_filter, Permutation_map. exact Hf. }
  assert (HM : PermBy PermDMeth (filter keep_dmeth (map fix_dmeth (dc_methods c)))
                                (filter keep_dmeth (map fix_dmeth (dc_methods c')))).
  { apply PermBy_filter_map; [|exact Hm]. intros a b Hab. apply fix_dmeth_perm. exact Hab. }
  split.
  - unfold PermDClass, fix_dclass. cbn [dc_name dc_info dc_doc dc_fields dc_methods]. rewrite Hn, Hi. repeat split; auto.
  - unfold keep_dclass, fix_dclass. cbn [dc_name dc_info dc_doc dc_fields dc_methods]. rewrite Hn, Hi, Hc.
    rewrite (perm_is_nil _ _ HF), (PermBy_is_nil _ _ _ HM). reflexivity.
Qed.

Theorem insert_dummy_perm_deep d d' : PermDiff d d' -> PermDiff (insert_dummy d) (insert_dummy d').
Proof.
  intros (Hi & Hd & Hc). unfold PermDiff, insert_dummy. cbn [d_info d_doc d_classes].
  repeat split; auto. apply PermBy_filter_map; [|exact Hc]. intros a b Hab. apply fix_dclass_perm. exact Hab.
Qed.

(* ------------------------------------------------------------------------------------------ *)
(* sub-trees: the result consists of nodes of the input, in the same relative order              *)

(* [Sub R l' l]: l' is a subsequence of l, up to R *)
Inductive Sub {A B} (R : B -> A -> Prop) : list B -> list A -> Prop :=
| Sub_nil l : Sub R [] l
| Sub_skip b l' l : Sub R l' l -> Sub R l' (b :: l)
| Sub_take a b l' l : R a b -> Sub R l' l -> Sub R (a :: l') (b :: l).

Lemma sub_filter_map {A B} (R : B -> A -> Prop) (k : B -> bool) (f : A -> B) l :
  (forall a, In a l -> R (f a) a) -> Sub R (filter k (map f l)) l.
Proof.
  induction l as [|a l IH]; intros H; cbn [map filter]; [constructor|].
  assert (IH' : Sub R (filter k (map f l)) l) by (apply IH; intros x Hx; apply H; right; exact Hx).
  destruct (k (f a)); [apply Sub_take; [apply H; left; reflexivity|exact IH']|apply Sub_skip; exact IH'].
Qed.

Lemma sub_filter {A} (k : A -> bool) l : Sub eq (filter k l) l.
Proof.
  induction l as [|a l IH]; cbn [filter]; [constructor|].
  destruct (k a); [apply Sub_take; [reflexivity|exact IH]|apply Sub_skip; exact IH].
Qed.

Lemma sub_in {A B} (R : B -> A -> Prop) l' l : Sub R l' l -> forall b, In b l' -> exists a, In a l /\ R b a.
Proof.
  induction 1 as [l|b0 l' l _ IH|a0 b0 l' l Hab _ IH]; intros b Hb.
  - destruct Hb.
  - destruct (IH b Hb) as (a & Ha & HR). exists a. split; [right; exact Ha|exact HR].
  - destruct Hb as [<-|Hb]; [exists b0; split; [left; reflexivity|exact Hab]|].
    destruct (IH b Hb) as (a & Ha & HR). exists a. split; [right; exact Ha|exact HR].
Qed.

Lemma sub_length {A B} (R : B -> A -> Prop) l' l : Sub R l' l -> (length l' <= length l)%nat.
Proof. induction 1; cbn [length]; lia. Qed.

Definition SubMeth (m' m : meth) : Prop :=
  m_desc m' = m_desc m /\ m_names m' = m_names m /\ m_doc m' = m_doc m /\ Sub eq (m_params m') (m_params m).
Definition SubClass (c' c : class) : Prop :=
  c_names c' = c_names c /\ c_doc c' = c_doc c
  /\ Sub eq (c_fields c') (c_fields c) /\ Sub SubMeth (c_methods c') (c_methods c).
Definition SubMappings (M' M : mappings) : Prop :=
  ms_ns M' = ms_ns M /\ ms_doc M' = ms_doc M /\ Sub SubClass (ms_classes M') (ms_classes M).

Lemma rd_meth_sub i m : SubMeth (rd_meth i m) m.
Proof. unfold SubMeth, rd_meth. cbn [m_desc m_names m_doc m_params]. repeat split. apply sub_filter. Qed.

Lemma rd_class_sub i c : SubClass (rd_class i c) c.
Proof.
  unfold SubClass, rd_class. cbn [c_names c_doc c_fields c_methods]. repeat split; [apply sub_filter|].
  apply sub_filter_map. intros m _. apply rd_meth_sub.
Qed.

Theorem remove_dummy_at_subtree i M : SubMappings (remove_dummy_at i M) M.
Proof.
  unfold SubMappings, remove_dummy_at. cbn [ms_ns ms_doc ms_classes]. repeat split.
  apply sub_filter_map. intros c _. apply rd_class_sub.
Qed.

Theorem remove_dummy_subtree M ns R : remove_dummy M ns = Ok R -> SubMappings R M.
Proof.
  unfold remove_dummy. destruct (find_ns ns (ms_ns M)) as [i|]; [|discriminate].
  intros [= <-]. apply remove_dummy_at_subtree.
Qed.

(* the diff side: same keys, same comment actions; the name action is the input's, rewritten *)
Definition DSubParam (p' p : dparam) : Prop :=
  dp_index p' = dp_index p /\ dp_doc p' = dp_doc p
  /\ dp_info p' = fix_info (param_placeholder (dp_index p)) (dp_info p).
Definition DSubField (f' f : dfield) : Prop :=
  df_name f' = df_name f /\ df_desc f' = df_desc f /\ df_doc f' = df_doc f
  /\ df_info f' = fix_info (df_name f) (df_info f).
Definition DSubMeth (m' m : dmeth) : Prop :=
  dm_name m' = dm_name m /\ dm_desc m' = dm_desc m /\ dm_doc m' = dm_doc m
  /\ dm_info m' = fix_info (dm_name m) (dm_info m) /\ Sub DSubParam (dm_params m') (dm_params m).
Definition DSubClass (c' c : dclass) : Prop :=
  dc_name c' = dc_name c /\ dc_doc c' = dc_doc c
  /\ dc_info c' = fix_info (class_placeholder (dc_name c)) (dc_info c)
  /\ Sub DSubField (dc_fields c') (dc_fields c) /\ Sub DSubMeth (dc_methods c') (dc_methods c).
Definition DSubDiff (d' d : mdiff) : Prop :=
  d_info d' = d_info d /\ d_doc d' = d_doc d /\ Sub DSubClass (d_classes d') (d_classes d).

Theorem insert_dummy_subtree d : DSubDiff (insert_dummy d) d.
Proof.
  unfold DSubDiff, insert_dummy. cbn [d_info d_doc d_classes]. repeat split.
  apply sub_filter_map. intros c _.
  unfold DSubClass, fix_dclass. cbn [dc_name dc_info dc_doc dc_fields dc_methods]. repeat split.
  - apply sub_filter_map. intros f _. unfold DSubField, fix_dfield. cbn. repeat split.
  - apply sub_filter_map. intros m _.
    unfold DSubMeth, fix_dmeth. cbn [dm_name dm_desc dm_info dm_doc dm_params]. repeat split.
    apply sub_filter_map. intros p _. unfold DSubParam, fix_dparam. cbn. repeat split.
Qed.

(* ------------------------------------------------------------------------------------------ *)
(* the retain conditions of insert_dummy, case by case                                           *)

(* the node's own contribution when it is not an addition *)
Definition OwnChange (ph : str) (info doc : action str) : Prop :=
  (match info with ANone => False | AAdd _ => True | ARemove a => a <> ph | AEdit a b => a <> b end) \/ IsDiff doc.

Lemma changes_add ph info doc : IsAdd info -> ~ Changes ph info doc.
Proof. intros Ha (Hn & _). contradiction. Qed.

Lemma changes_not_add ph info doc : ~ IsAdd info -> (Changes ph info doc <-> OwnChange ph info doc).
Proof. intros Hn. unfold Changes, OwnChange. tauto. Qed.

Theorem insert_retain_cases :
  (* leaves: an addition is never kept, whatever its comment action *)
  (forall p, IsAdd (dp_info p) -> ~ KeptDParam p) /\
  (forall f, IsAdd (df_info f) -> ~ KeptDField f) /\
  (forall p, ~ IsAdd (dp_info p) -> (KeptDParam p <-> OwnChange (param_placeholder (dp_index p)) (dp_info p) (dp_doc p))) /\
  (forall f, ~ IsAdd (df_info f) -> (KeptDField f <-> OwnChange (df_name f) (df_info f) (df_doc f))) /\
  (* methods: addition x (kept parameter | none), other x (kept parameter | none) *)
  (forall m, IsAdd (dm_info m) -> (KeptDMeth m <-> exists p, In p (dm_params m) /\ KeptDParam p)) /\
  (forall m, ~ IsAdd (dm_info m) -> (exists p, In p (dm_params m) /\ KeptDParam p) -> KeptDMeth m) /\
  (forall m, ~ IsAdd (dm_info m) -> ~ (exists p, In p (dm_params m) /\ KeptDParam p) ->
     (KeptDMeth m <-> OwnChange (dm_name m) (dm_info m) (dm_doc m))) /\
  (* classes likewise *)
  (forall c, IsAdd (dc_info c) ->
     (KeptDClass c <-> (exists f, In f (dc_fields c) /\ KeptDField f) \/ (exists m, In m (dc_methods c) /\ KeptDMeth m))) /\
  (forall c, ~ IsAdd (dc_info c) ->
     ((exists f, In f (dc_fields c) /\ KeptDField f) \/ (exists m, In m (dc_methods c) /\ KeptDMeth m)) -> KeptDClass c) /\
  (forall c, ~ IsAdd (dc_info c) ->
     ~ ((exists f, In f (dc_fields c) /\ KeptDField f) \/ (exists m, In m (dc_methods c) /\ KeptDMeth m)) ->
     (KeptDClass c <-> OwnChange (class_placeholder (dc_name c)) (dc_info c) (dc_doc c))).
Proof.
  split; [intros p Ha; apply changes_add; exact Ha|].
  split; [intros f Ha; apply changes_add; exact Ha|].
  split; [intros p Hn; apply changes_not_add; exact Hn|].
  split; [intros f Hn; apply changes_not_add; exact Hn|].
  split.
  { intros m Ha. unfold KeptDMeth. pose proof (changes_add (dm_name m) _ (dm_doc m) Ha). tauto. }
  split; [intros m _ H; right; exact H|].
  split.
  { intros m Hn Hc. unfold KeptDMeth. rewrite (changes_not_add _ _ _ Hn). tauto. }
  split.
  { intros c Ha. unfold KeptDClass. pose proof (changes_add (class_placeholder (dc_name c)) _ (dc_doc c) Ha). tauto. }
  split; [intros c _ H; unfold KeptDClass; tauto|].
  intros c Hn Hc. unfold KeptDClass. rewrite (changes_not_add _ _ _ Hn). tauto.
Qed.

(* ------------------------------------------------------------------------------------------ *)
(* the retain conditions regenerated from the Rust source are the ones of the model              *)

Theorem retain_shapes :
  (* remove_dummy.rs: boolean shape of the four closures' results *)
  (forall doc name, rd_shape_param doc name = doc || negb name) /\
  (forall doc name, rd_shape_field doc name = doc || negb name) /\
  (forall doc params_empty name, rd_shape_method doc params_empty name = doc || negb params_empty || negb name) /\
  (forall doc fields_empty methods_empty name,
     rd_shape_class doc fields_empty methods_empty name = doc || negb fields_empty || negb methods_empty || negb name) /\
  (* insert_dummy.rs *)
  (forall check info doc, ins_shape_param check info doc = check && (info || doc)) /\
  (forall check info doc, ins_shape_field check info doc = check && (info || doc)) /\
  (forall check info doc params_empty,
     ins_shape_method check info doc params_empty = check && (info || doc) || negb params_empty) /\
  (forall check info doc fields_empty methods_empty,
     ins_shape_class check info doc fields_empty methods_empty =
     check && (info || doc) || negb fields_empty || negb methods_empty) /\
  (* validator_check: value per Action variant (None, Add, Remove, Edit), and which variants are rewritten to Edit *)
  ins_validator_param = (true, false, true, true) /\ ins_validator_field = (true, false, true, true) /\
  ins_validator_method = (true, false, true, true) /\ ins_validator_class = (true, false, true, true) /\
  ins_rewrites_param = (false, false, true, false) /\ ins_rewrites_field = (false, false, true, false) /\
  ins_rewrites_method = (false, false, true, false) /\ ins_rewrites_class = (false, false, true, false) /\
  (* name tests: every prefix test is `<name>.as_inner().starts_with(..)` on the WHOLE name *)
  rd_name_receivers_plain = true.
Proof.
  repeat split; try reflexivity;
    repeat (let b := fresh "b" in intros b; destruct b); reflexivity.
Qed.

(* ... and these are literally the conditions of the model *)
Theorem model_uses_shapes i :
  (forall p, keep_param i p = rd_shape_param (is_some (p_doc p)) (ph_param i p)) /\
  (forall f, keep_field i f = rd_shape_field (is_some (f_doc f)) (ph_field i f)) /\
  (forall m, keep_meth i m = rd_shape_method (is_some (m_doc m)) (is_nil (m_params m)) (ph_meth i m)) /\
  (forall c, keep_class i c = rd_shape_class (is_some (c_doc c)) (is_nil (c_fields c)) (is_nil (c_methods c)) (ph_class i c)) /\
  (forall p, keep_dparam p = ins_shape_param (validator (dp_info p)) (is_diff (dp_info p)) (is_diff (dp_doc p))) /\
  (forall f, keep_dfield f = ins_shape_field (validator (df_info f)) (is_diff (df_info f)) (is_diff (df_doc f))) /\
  (forall m, keep_dmeth m = ins_shape_method (validator (dm_info m)) (is_diff (dm_info m)) (is_diff (dm_doc m)) (is_nil (dm_params m))) /\
  (forall c, keep_dclass c = ins_shape_class (validator (dc_info c)) (is_diff (dc_info c)) (is_diff (dc_doc c))
                               (is_nil (dc_fields c)) (is_nil (dc_methods c))) /\
  (forall a : action str, validator a = match a with ANone => true | AAdd _ => false | ARemove _ => true | AEdit _ _ => true end).
Proof.
  (* through the extensional statement, so that a harmless rewrite of the Rust condition (operands
     reordered, extra parentheses) keeps this provable *)
  destruct retain_shapes as (S1 & S2 & S3 & S4 & S5 & S6 & S7 & S8 & _).
  split; [intros x; rewrite S1; reflexivity|].
  split; [intros x; rewrite S2; reflexivity|].
  split; [intros x; rewrite S3; reflexivity|].
  split; [intros x; rewrite S4; reflexivity|].
  split; [intros x; rewrite S5; reflexivity|].
  split; [intros x; rewrite S6; reflexivity|].
  split; [intros x; rewrite S7; reflexivity|].
  split; [intros x; rewrite S8; reflexivity|].
  intros x; destruct x; reflexivity.
Qed.

(* ------------------------------------------------------------------------------------------ *)
(* restatements used by Props/C10.v *)

Lemma own_change_definition ph info doc :
  OwnChange ph info doc <->
  (match info with ANone => False | AAdd _ => True | ARemove a => a <> ph | AEdit a b => a <> b end)
  \/ (match doc with ANone => False | AAdd _ => True | ARemove _ => True | AEdit a b => a <> b end).
Proof. unfold OwnChange. destruct doc; cbn [IsDiff]; tauto. Qed.

Lemma perm_definitions :
  (forall A (R : A -> A -> Prop) l l', PermBy R l l' <-> exists l0, Permutation l l0 /\ Forall2 R l0 l') /\
  (forall m m', PermMeth m m' <->
     m_desc m' = m_desc m /\ m_names m' = m_names m /\ m_doc m' = m_doc m /\ Permutation (m_params m) (m_params m')) /\
  (forall c c', PermClass c c' <->
     c_names c' = c_names c /\ c_doc c' = c_doc c /\ Permutation (c_fields c) (c_fields c')
     /\ PermBy PermMeth (c_methods c) (c_methods c')) /\
  (forall M M', PermMappings M M' <->
     ms_ns M' = ms_ns M /\ ms_doc M' = ms_doc M /\ PermBy PermClass (ms_classes M) (ms_classes M')) /\
  (forall M, PermMappings M M) /\ (forall d, PermDiff d d).
Proof.
  split; [intros; reflexivity|]. split; [intros; reflexivity|]. split; [intros; reflexivity|].
  split; [intros; reflexivity|]. split; [apply PermMappings_refl|apply PermDiff_refl].
Qed.

Lemma sub_definitions :
  (forall A B (R : B -> A -> Prop) l' l, Sub R l' l ->
     (forall b, In b l' -> exists a, In a l /\ R b a) /\ (length l' <= length l)%nat) /\
  (forall m' m, SubMeth m' m <->
     m_desc m' = m_desc m /\ m_names m' = m_names m /\ m_doc m' = m_doc m /\ Sub eq (m_params m') (m_params m)) /\
  (forall c' c, SubClass c' c <->
     c_names c' = c_names c /\ c_doc c' = c_doc c /\ Sub eq (c_fields c') (c_fields c)
     /\ Sub SubMeth (c_methods c') (c_methods c)) /\
  (forall M' M, SubMappings M' M <->
     ms_ns M' = ms_ns M /\ ms_doc M' = ms_doc M /\ Sub SubClass (ms_classes M') (ms_classes M)) /\
  (forall c' c, DSubClass c' c <->
     dc_name c' = dc_name c /\ dc_doc c' = dc_doc c
     /\ dc_info c' = fix_info (class_placeholder (dc_name c)) (dc_info c)
     /\ Sub DSubField (dc_fields c') (dc_fields c) /\ Sub DSubMeth (dc_methods c') (dc_methods c)) /\
  (forall d' d, DSubDiff d' d <->
     d_info d' = d_info d /\ d_doc d' = d_doc d /\ Sub DSubClass (d_classes d') (d_classes d)).
Proof.
  split; [intros A B R l' l H; split; [apply (sub_in R l' l H)|apply (sub_length R l' l H)]|].
  split; [intros; reflexivity|]. split; [intros; reflexivity|]. split; [intros; reflexivity|].
  split; [intros; reflexivity|]. intros; reflexivity.
Qed.

(* the class placeholder predicate, on all names *)
Lemma class_placeholder_predicate i c :
  ph_class i c = true <->
  exists x r, nth_name (c_names c) i = Some x /\
    (x = [67;95] ++ r \/
     x = [110;101;116;47;109;105;110;101;99;114;97;102;116;47;117;110;109;97;112;112;101;100;47;67;95] ++ r).
Proof.
  unfold ph_class. rewrite is_placeholder_spec. unfold Placeholder.
  destruct placeholder_constants as (Hp & He & _). rewrite Hp, He.
  split.
  - intros (x & Hx & [(p & r & Hin & Hxe)|[]]). exists x, r. split; [exact Hx|].
    destruct Hin as [<-|[<-|[]]]; [left|right]; exact Hxe.
  - intros (x & r & Hx & H). exists x. split; [exact Hx|]. left.
    destruct H as [-> | ->]; eexists; exists r; (split; [|reflexivity]); cbn [In]; auto.
Qed.
