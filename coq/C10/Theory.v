(* C10 — theory of the dummy filters: declarative specification of what is kept, equivalence
   of the executable model with it, idempotence, and "never orphans", for ALL trees. *)
From FB Require Import C10.Model.
From Coq Require Import Lia.

(* ------------------------------------------------------------------------------------------ *)
(* generic facts about filter / map                                                             *)

Lemma filter_idem {A} (k : A -> bool) l : filter k (filter k l) = filter k l.
Proof.
  induction l as [|a l IH]; cbn [filter]; [reflexivity|].
  destruct (k a) eqn:E; cbn [filter]; rewrite ?E, IH; reflexivity.
Qed.

Lemma filter_map_idem {A} (k : A -> bool) (f : A -> A) l :
  (forall x, f (f x) = f x) ->
  filter k (map f (filter k (map f l))) = filter k (map f l).
Proof.
  intros Hf. induction l as [|a l IH]; cbn [map filter]; [reflexivity|].
  destruct (k (f a)) eqn:E; cbn [map filter]; [|exact IH].
  rewrite Hf, E, IH. reflexivity.
Qed.

Lemma is_nil_false_iff {A} (l : list A) : is_nil l = false <-> exists x, In x l.
Proof.
  destruct l as [|a l]; cbn [is_nil]; split.
  - discriminate.
  - intros (x & []).
  - intros _. exists a. left. reflexivity.
  - reflexivity.
Qed.

Lemma is_nil_true_iff {A} (l : list A) : is_nil l = true <-> l = [].
Proof. destruct l; cbn [is_nil]; split; congruence. Qed.

Lemma negb_is_nil_filter {A B} (k : B -> bool) (f : A -> B) l :
  negb (is_nil (filter k (map f l))) = true <-> exists a, In a l /\ k (f a) = true.
Proof.
  rewrite negb_true_iff, is_nil_false_iff. split.
  - intros (y & Hy). apply filter_In in Hy. destruct Hy as (Hy & Hk).
    apply in_map_iff in Hy. destruct Hy as (a & <- & Ha). exists a. split; assumption.
  - intros (a & Ha & Hk). exists (f a). apply filter_In. split; [apply in_map; exact Ha|exact Hk].
Qed.

(* ------------------------------------------------------------------------------------------ *)
(* "retained": the declarative reading of a nested retain.  [Retained keep R l l'] says that l'
   consists, in the same order, of one R-image of exactly those elements of l that satisfy keep. *)

Inductive Retained {A B} (keep : A -> Prop) (R : A -> B -> Prop) : list A -> list B -> Prop :=
| Ret_nil : Retained keep R [] []
| Ret_drop a l l' : ~ keep a -> Retained keep R l l' -> Retained keep R (a :: l) l'
| Ret_take a b l l' : keep a -> R a b -> Retained keep R l l' -> Retained keep R (a :: l) (b :: l').

Lemma retained_intro {A B} (keep : A -> Prop) (R : A -> B -> Prop) (k : B -> bool) (f : A -> B) l :
  (forall a, In a l -> (k (f a) = true <-> keep a)) ->
  (forall a, In a l -> keep a -> R a (f a)) ->
  Retained keep R l (filter k (map f l)).
Proof.
  induction l as [|a l IH]; intros Hk HR; cbn [map filter]; [constructor|].
  assert (IH' : Retained keep R l (filter k (map f l))).
  { apply IH; intros x Hx; [apply Hk|apply HR]; right; exact Hx. }
  destruct (k (f a)) eqn:E.
  - assert (Ha : keep a) by (apply Hk; [left; reflexivity|exact E]).
    apply Ret_take; [exact Ha|apply HR; [left; reflexivity|exact Ha]|exact IH'].
  - apply Ret_drop; [|exact IH'].
    intros Ha. apply Hk in Ha; [congruence|left; reflexivity].
Qed.

Lemma retained_unique {A B} (keep : A -> Prop) (R : A -> B -> Prop) (k : B -> bool) (f : A -> B) l l' :
  (forall a, In a l -> (k (f a) = true <-> keep a)) ->
  (forall a b, In a l -> keep a -> R a b -> b = f a) ->
  Retained keep R l l' -> l' = filter k (map f l).
Proof.
  intros Hk HR H. induction H as [|a l l' Hn H IH|a b l l' Ha Hab H IH]; cbn [map filter].
  - reflexivity.
  - destruct (k (f a)) eqn:E.
    + exfalso. apply Hn. apply Hk; [left; reflexivity|exact E].
    + apply IH; intros x; intros; [apply Hk|eapply HR]; try right; eassumption.
  - assert (E : k (f a) = true) by (apply Hk; [left; reflexivity|exact Ha]).
    rewrite E. f_equal.
    + apply HR; [left; reflexivity|exact Ha|exact Hab].
    + apply IH; intros x; intros; [apply Hk|eapply HR]; try right; eassumption.
Qed.

(* what Retained means element-wise *)
Lemma retained_in {A B} (keep : A -> Prop) (R : A -> B -> Prop) l l' :
  Retained keep R l l' -> forall b, In b l' -> exists a, In a l /\ keep a /\ R a b.
Proof.
  intros H. induction H as [|a l l' Hn H IH|a b0 l l' Ha Hab H IH]; intros b Hb.
  - destruct Hb.
  - destruct (IH b Hb) as (x & Hx & Hkx & HRx). exists x. split; [right; exact Hx|split; assumption].
  - destruct Hb as [<-|Hb].
    + exists a. split; [left; reflexivity|split; assumption].
    + destruct (IH b Hb) as (x & Hx & Hkx & HRx). exists x. split; [right; exact Hx|split; assumption].
Qed.

Lemma retained_kept_in {A B} (keep : A -> Prop) (R : A -> B -> Prop) l l' :
  Retained keep R l l' -> forall a, In a l -> keep a -> exists b, In b l' /\ R a b.
Proof.
  intros H. induction H as [|a0 l l' Hn H IH|a0 b0 l l' Ha Hab H IH]; intros a Hin Hka.
  - destruct Hin.
  - destruct Hin as [<-|Hin]; [contradiction|]. exact (IH a Hin Hka).
  - destruct Hin as [<-|Hin].
    + exists b0. split; [left; reflexivity|exact Hab].
    + destruct (IH a Hin Hka) as (b & Hb & HRb). exists b. split; [right; exact Hb|exact HRb].
Qed.

Lemma retained_length {A B} (keep : A -> Prop) (R : A -> B -> Prop) l l' :
  Retained keep R l l' -> (length l' <= length l)%nat.
Proof. intros H. induction H; cbn [length]; lia. Qed.

(* ------------------------------------------------------------------------------------------ *)
(* namespace lookup                                                                             *)

(* i is the index of the first namespace called ns *)
Definition NsIndex (ns : str) (l : list str) (i : nat) : Prop :=
  nth_error l i = Some ns /\ forall j, (j < i)%nat -> nth_error l j <> Some ns.

Lemma find_ns_spec ns l i : find_ns ns l = Some i <-> NsIndex ns l i.
Proof.
  revert i. induction l as [|x l IH]; intros i; cbn [find_ns].
  - split; [discriminate|]. intros (H & _). destruct i; discriminate.
  - destruct (str_eqb_spec x ns) as [->|Hne].
    + split.
      * intros [= <-]. split; [reflexivity|]. intros j Hj. lia.
      * intros (Hi & Hlt). destruct i as [|i]; [reflexivity|].
        exfalso. apply (Hlt O); [lia|reflexivity].
    + destruct (find_ns ns l) as [k|] eqn:E; cbn [option_map].
      * split.
        -- intros [= <-]. destruct (proj1 (IH k) eq_refl) as (Hk & Hlt). split; [exact Hk|].
           intros [|j] Hj; cbn [nth_error]; [congruence|]. apply Hlt. lia.
        -- intros (Hi & Hlt). destruct i as [|i]; cbn [nth_error] in Hi; [congruence|].
           f_equal. assert (Hik : Some k = Some i); [|congruence]. apply IH. split; [exact Hi|].
           intros j Hj. apply (Hlt (S j)). lia.
      * split; [discriminate|]. intros (Hi & Hlt). destruct i as [|i]; cbn [nth_error] in Hi; [congruence|].
        assert (Hik : None = Some i); [|discriminate]. apply IH. split; [exact Hi|].
        intros j Hj. apply (Hlt (S j)). lia.
Qed.

Lemma find_ns_none ns l : find_ns ns l = None <-> ~ In ns l.
Proof.
  induction l as [|x l IH]; cbn [find_ns In]; [tauto|].
  destruct (str_eqb_spec x ns) as [->|Hne].
  - split; [discriminate|]. intros H. exfalso. apply H. left. reflexivity.
  - destruct (find_ns ns l); cbn [option_map].
    + split; [discriminate|]. intros H. exfalso. apply H. right.
      destruct (in_dec (list_eq_dec N.eq_dec) ns l) as [Hin|Hnin]; [exact Hin|].
      apply IH in Hnin. discriminate.
    + split; [|reflexivity]. intros _ [Heq|Hin]; [congruence|]. apply (proj1 IH); [reflexivity|exact Hin].
Qed.

(* ------------------------------------------------------------------------------------------ *)
(* placeholder names, declaratively                                                             *)

(* the name is present and (starts with one of the prefixes or equals one of the exact names) *)
Definition Placeholder (ps es : list str) (o : option str) : Prop :=
  exists x, o = Some x /\ ((exists p r, In p ps /\ x = p ++ r) \/ In x es).

Lemma has_prefix_in_spec ps x : has_prefix_in ps x = true <-> exists p r, In p ps /\ x = p ++ r.
Proof.
  unfold has_prefix_in. rewrite existsb_exists. split.
  - intros (p & Hp & Hs). apply starts_with_app in Hs. destruct Hs as (r & ->). exists p, r. split; [exact Hp|reflexivity].
  - intros (p & r & Hp & ->). exists p. split; [exact Hp|]. apply starts_with_app. exists r. reflexivity.
Qed.

Lemma eq_any_spec es x : eq_any es x = true <-> In x es.
Proof.
  unfold eq_any. rewrite existsb_exists. split.
  - intros (e & He & Heq). apply str_eqb_eq in Heq. subst. exact He.
  - intros H. exists x. split; [exact H|apply str_eqb_refl].
Qed.

Lemma is_placeholder_spec ps es o : is_placeholder ps es o = true <-> Placeholder ps es o.
Proof.
  unfold is_placeholder, Placeholder. destruct o as [x|].
  - rewrite orb_true_iff, has_prefix_in_spec, eq_any_spec. split.
    + intros H. exists x. split; [reflexivity|exact H].
    + intros (y & [= <-] & H). exact H.
  - split; [discriminate|]. intros (y & Hy & _). discriminate.
Qed.

Lemma is_placeholder_false ps es o : is_placeholder ps es o = false <-> ~ Placeholder ps es o.
Proof.
  rewrite <- is_placeholder_spec. destruct (is_placeholder ps es o); split; congruence.
Qed.

Lemma is_some_true_iff {A} (o : option A) : is_some o = true <-> o <> None.
Proof. destruct o; cbn [is_some]; split; congruence. Qed.

(* ------------------------------------------------------------------------------------------ *)
(* remove_dummy: who is kept                                                                    *)

Definition PhParam i (p : param) := Placeholder param_prefixes param_exact (nth_name (p_names p) i).
Definition PhField i (f : field) := Placeholder field_prefixes field_exact (nth_name (f_names f) i).
Definition PhMeth i (m : meth) := Placeholder method_prefixes method_exact (nth_name (m_names m) i).
Definition PhClass i (c : class) := Placeholder class_prefixes class_exact (nth_name (c_names c) i).

(* kept <-> has a comment \/ has a kept child \/ its name in the chosen namespace is absent or
   not a placeholder *)
Definition KeptParam (i : nat) (p : param) : Prop := p_doc p <> None \/ ~ PhParam i p.
Definition KeptField (i : nat) (f : field) : Prop := f_doc f <> None \/ ~ PhField i f.
Definition KeptMeth (i : nat) (m : meth) : Prop :=
  m_doc m <> None \/ (exists p, In p (m_params m) /\ KeptParam i p) \/ ~ PhMeth i m.
Definition KeptClass (i : nat) (c : class) : Prop :=
  c_doc c <> None
  \/ (exists f, In f (c_fields c) /\ KeptField i f)
  \/ (exists m, In m (c_methods c) /\ KeptMeth i m)
  \/ ~ PhClass i c.

(* a kept entry is returned unchanged apart from its children list *)
Definition SpecMeth (i : nat) (m m' : meth) : Prop :=
  m_desc m' = m_desc m /\ m_names m' = m_names m /\ m_doc m' = m_doc m
  /\ Retained (KeptParam i) eq (m_params m) (m_params m').
Definition SpecClass (i : nat) (c c' : class) : Prop :=
  c_names c' = c_names c /\ c_doc c' = c_doc c
  /\ Retained (KeptField i) eq (c_fields c) (c_fields c')
  /\ Retained (KeptMeth i) (SpecMeth i) (c_methods c) (c_methods c').
Definition SpecMappings (i : nat) (M M' : mappings) : Prop :=
  ms_ns M' = ms_ns M /\ ms_doc M' = ms_doc M
  /\ Retained (KeptClass i) (SpecClass i) (ms_classes M) (ms_classes M').

Lemma keep_param_iff i p : keep_param i p = true <-> KeptParam i p.
Proof.
  unfold keep_param, KeptParam, ph_param, PhParam.
  rewrite orb_true_iff, is_some_true_iff, negb_true_iff, is_placeholder_false. tauto.
Qed.

Lemma keep_field_iff i f : keep_field i f = true <-> KeptField i f.
Proof.
  unfold keep_field, KeptField, ph_field, PhField.
  rewrite orb_true_iff, is_some_true_iff, negb_true_iff, is_placeholder_false. tauto.
Qed.

Lemma some_kept_param i l :
  negb (is_nil (filter (keep_param i) l)) = true <-> exists p, In p l /\ KeptParam i p.
Proof.
  rewrite <- (map_id l) at 1. rewrite negb_is_nil_filter.
  split; intros (p & Hp & Hk); exists p; (split; [exact Hp|]); apply keep_param_iff; exact Hk.
Qed.

Lemma keep_meth_iff i m : keep_meth i (rd_meth i m) = true <-> KeptMeth i m.
Proof.
  unfold keep_meth, KeptMeth, ph_meth, PhMeth, rd_meth; cbn [m_doc m_params m_names].
  rewrite !orb_true_iff, is_some_true_iff, some_kept_param, negb_true_iff, is_placeholder_false. tauto.
Qed.

Lemma some_kept_field i l :
  negb (is_nil (filter (keep_field i) l)) = true <-> exists f, In f l /\ KeptField i f.
Proof.
  rewrite <- (map_id l) at 1. rewrite negb_is_nil_filter.
  split; intros (p & Hp & Hk); exists p; (split; [exact Hp|]); apply keep_field_iff; exact Hk.
Qed.

Lemma some_kept_meth i l :
  negb (is_nil (filter (keep_meth i) (map (rd_meth i) l))) = true <-> exists m, In m l /\ KeptMeth i m.
Proof.
  rewrite negb_is_nil_filter.
  split; intros (p & Hp & Hk); exists p; (split; [exact Hp|]); apply keep_meth_iff; exact Hk.
Qed.

Lemma keep_class_iff i c : keep_class i (rd_class i c) = true <-> KeptClass i c.
Proof.
  unfold keep_class, KeptClass, ph_class, PhClass, rd_class; cbn [c_doc c_fields c_methods c_names].
  rewrite !orb_true_iff, is_some_true_iff, some_kept_field, some_kept_meth, negb_true_iff, is_placeholder_false.
  tauto.
Qed.

(* the model satisfies the specification … *)
Lemma rd_meth_spec i m : SpecMeth i m (rd_meth i m).
Proof.
  unfold SpecMeth, rd_meth; cbn [m_desc m_names m_doc m_params].
  repeat split. rewrite <- (map_id (m_params m)) at 2.
  apply retained_intro; intros p _; [apply keep_param_iff|reflexivity].
Qed.

Lemma rd_class_spec i c : SpecClass i c (rd_class i c).
Proof.
  unfold SpecClass, rd_class; cbn [c_names c_doc c_fields c_methods].
  repeat split.
  - rewrite <- (map_id (c_fields c)) at 2.
    apply retained_intro; intros f _; [apply keep_field_iff|reflexivity].
  - apply retained_intro; intros m _; [apply keep_meth_iff|intros _; apply rd_meth_spec].
Qed.

Lemma remove_dummy_at_spec i M : SpecMappings i M (remove_dummy_at i M).
Proof.
  unfold SpecMappings, remove_dummy_at; cbn [ms_ns ms_doc ms_classes].
  repeat split.
  apply retained_intro; intros c _; [apply keep_class_iff|intros _; apply rd_class_spec].
Qed.

(* … and the specification determines the result *)
Lemma spec_meth_unique i m m' : SpecMeth i m m' -> m' = rd_meth i m.
Proof.
  intros (Hd & Hn & Hdoc & Hp).
  apply (retained_unique _ _ (keep_param i) (fun x => x)) in Hp.
  - rewrite map_id in Hp. destruct m'; cbn in *. unfold rd_meth. subst. reflexivity.
  - intros p _. apply keep_param_iff.
  - intros a b _ _ H. symmetry. exact H.
Qed.

Lemma spec_class_unique i c c' : SpecClass i c c' -> c' = rd_class i c.
Proof.
  intros (Hn & Hdoc & Hf & Hm).
  apply (retained_unique _ _ (keep_field i) (fun x => x)) in Hf.
  2: { intros f _. apply keep_field_iff. }
  2: { intros a b _ _ H. symmetry. exact H. }
  apply (retained_unique _ _ (keep_meth i) (rd_meth i)) in Hm.
  2: { intros m _. apply keep_meth_iff. }
  2: { intros a b _ _ H. apply spec_meth_unique. exact H. }
  rewrite map_id in Hf. destruct c'; cbn in *. unfold rd_class. subst. reflexivity.
Qed.

Lemma spec_mappings_unique i M M' : SpecMappings i M M' -> M' = remove_dummy_at i M.
Proof.
  intros (Hn & Hdoc & Hc).
  apply (retained_unique _ _ (keep_class i) (rd_class i)) in Hc.
  2: { intros c _. apply keep_class_iff. }
  2: { intros a b _ _ H. apply spec_class_unique. exact H. }
  destruct M'; cbn in *. unfold remove_dummy_at. subst. reflexivity.
Qed.

(* Theorem 1 *)
Theorem remove_dummy_spec M ns M' :
  remove_dummy M ns = Ok M' <-> exists i, NsIndex ns (ms_ns M) i /\ SpecMappings i M M'.
Proof.
  unfold remove_dummy. split.
  - destruct (find_ns ns (ms_ns M)) as [i|] eqn:E; [|discriminate].
    intros [= <-]. exists i. split; [apply find_ns_spec; exact E|apply remove_dummy_at_spec].
  - intros (i & Hi & Hs). apply find_ns_spec in Hi. rewrite Hi.
    f_equal. symmetry. apply spec_mappings_unique. exact Hs.
Qed.

Theorem remove_dummy_err_iff M ns : remove_dummy M ns = Err <-> ~ In ns (ms_ns M).
Proof.
  unfold remove_dummy. rewrite <- find_ns_none.
  destruct (find_ns ns (ms_ns M)); split; congruence.
Qed.

(* element-wise reading of Theorem 1: which classes / fields / methods / parameters survive *)
Theorem remove_dummy_class_kept_iff i M c :
  In c (ms_classes M) ->
  (In (rd_class i c) (ms_classes (remove_dummy_at i M)) <-> KeptClass i c).
Proof.
  intros Hc. unfold remove_dummy_at; cbn [ms_classes]. rewrite filter_In, keep_class_iff. split.
  - tauto.
  - intros H. split; [apply in_map; exact Hc|exact H].
Qed.

Theorem remove_dummy_classes_exactly i M c' :
  In c' (ms_classes (remove_dummy_at i M)) <->
  exists c, In c (ms_classes M) /\ KeptClass i c /\ c' = rd_class i c.
Proof.
  unfold remove_dummy_at; cbn [ms_classes]. rewrite filter_In, in_map_iff. split.
  - intros ((c & <- & Hc) & Hk). exists c. repeat split; [exact Hc|apply keep_class_iff; exact Hk].
  - intros (c & Hc & Hk & ->). split; [exists c; split; [reflexivity|exact Hc]|apply keep_class_iff; exact Hk].
Qed.

Theorem rd_class_methods_exactly i c m' :
  In m' (c_methods (rd_class i c)) <-> exists m, In m (c_methods c) /\ KeptMeth i m /\ m' = rd_meth i m.
Proof.
  unfold rd_class; cbn [c_methods]. rewrite filter_In, in_map_iff. split.
  - intros ((m & <- & Hm) & Hk). exists m. repeat split; [exact Hm|apply keep_meth_iff; exact Hk].
  - intros (m & Hm & Hk & ->). split; [exists m; split; [reflexivity|exact Hm]|apply keep_meth_iff; exact Hk].
Qed.

Theorem rd_class_fields_exactly i c f :
  In f (c_fields (rd_class i c)) <-> In f (c_fields c) /\ KeptField i f.
Proof. unfold rd_class; cbn [c_fields]. rewrite filter_In, keep_field_iff. tauto. Qed.

Theorem rd_meth_params_exactly i m p :
  In p (m_params (rd_meth i m)) <-> In p (m_params m) /\ KeptParam i p.
Proof. unfold rd_meth; cbn [m_params]. rewrite filter_In, keep_param_iff. tauto. Qed.

(* Theorem 2: idempotence *)
Lemma rd_meth_idem i m : rd_meth i (rd_meth i m) = rd_meth i m.
Proof. unfold rd_meth; cbn [m_desc m_names m_doc m_params]. rewrite filter_idem. reflexivity. Qed.

Lemma rd_class_idem i c : rd_class i (rd_class i c) = rd_class i c.
Proof.
  unfold rd_class; cbn [c_names c_doc c_fields c_methods].
  rewrite filter_idem, (filter_map_idem _ _ _ (rd_meth_idem i)). reflexivity.
Qed.

Lemma remove_dummy_at_idem i M : remove_dummy_at i (remove_dummy_at i M) = remove_dummy_at i M.
Proof.
  unfold remove_dummy_at; cbn [ms_ns ms_doc ms_classes].
  rewrite (filter_map_idem _ _ _ (rd_class_idem i)). reflexivity.
Qed.

Theorem remove_dummy_idem M ns M' : remove_dummy M ns = Ok M' -> remove_dummy M' ns = Ok M'.
Proof.
  unfold remove_dummy. destruct (find_ns ns (ms_ns M)) as [i|] eqn:E; [|discriminate].
  intros [= <-]. cbn [remove_dummy_at ms_ns]. rewrite E. f_equal. apply remove_dummy_at_idem.
Qed.

(* Theorem 3: an entry that is removed has no child that would have been retained *)
Theorem never_orphans_class i c :
  ~ KeptClass i c ->
  (forall f, In f (c_fields c) -> ~ KeptField i f) /\ (forall m, In m (c_methods c) -> ~ KeptMeth i m).
Proof.
  intros H. split.
  - intros f Hf Hk. apply H. right. left. exists f. split; assumption.
  - intros m Hm Hk. apply H. right. right. left. exists m. split; assumption.
Qed.

Theorem never_orphans_meth i m :
  ~ KeptMeth i m -> forall p, In p (m_params m) -> ~ KeptParam i p.
Proof. intros H p Hp Hk. apply H. right. left. exists p. split; assumption. Qed.

(* the same on the executable side: a class the filter drops has no field and no method left,
   a method it drops has no parameter left *)
Theorem never_orphans_exec i M c :
  In c (ms_classes M) -> ~ In (rd_class i c) (ms_classes (remove_dummy_at i M)) ->
  c_fields (rd_class i c) = [] /\ c_methods (rd_class i c) = []
  /\ c_doc c = None /\ PhClass i c.
Proof.
  intros Hc Hn. rewrite (remove_dummy_class_kept_iff i M c Hc) in Hn.
  rewrite <- keep_class_iff in Hn. apply not_true_is_false in Hn.
  unfold keep_class in Hn. rewrite !orb_false_iff, !negb_false_iff in Hn.
  destruct Hn as (((Hd & Hf) & Hm) & Hp).
  apply is_nil_true_iff in Hf. apply is_nil_true_iff in Hm.
  repeat split; [exact Hf|exact Hm| |apply is_placeholder_spec; exact Hp].
  cbn [rd_class c_doc] in Hd. destruct (c_doc c); [discriminate|reflexivity].
Qed.

Theorem never_orphans_exec_meth i c m :
  In m (c_methods c) -> ~ In (rd_meth i m) (c_methods (rd_class i c)) ->
  m_params (rd_meth i m) = [] /\ m_doc m = None /\ PhMeth i m.
Proof.
  intros Hm Hn.
  assert (Hk : keep_meth i (rd_meth i m) = false).
  { apply not_true_is_false. intros Hk. apply Hn. unfold rd_class; cbn [c_methods].
    apply filter_In. split; [apply in_map; exact Hm|exact Hk]. }
  unfold keep_meth in Hk. rewrite !orb_false_iff, !negb_false_iff in Hk.
  destruct Hk as ((Hd & Hp) & Hph). apply is_nil_true_iff in Hp.
  repeat split; [exact Hp| |apply is_placeholder_spec; exact Hph].
  cbn [rd_meth m_doc] in Hd. destruct (m_doc m); [discriminate|reflexivity].
Qed.

(* remove_dummy only ever removes: no entry is added, renamed or re-described *)
Theorem remove_dummy_shrinks i M :
  (length (ms_classes (remove_dummy_at i M)) <= length (ms_classes M))%nat.
Proof. destruct (remove_dummy_at_spec i M) as (_ & _ & H). eapply retained_length. exact H. Qed.

(* ------------------------------------------------------------------------------------------ *)
(* insert_dummy                                                                                 *)

(* Action::is_diff *)
Definition IsDiff (a : action str) : Prop :=
  match a with
  | ANone => False
  | AAdd _ => True
  | ARemove _ => True
  | AEdit a b => a <> b
  end.
Definition IsAdd (a : action str) : Prop := exists b, a = AAdd b.
Definition IsRemove (a : action str) : Prop := exists x, a = ARemove x.

(* every removal becomes an edit back to the placeholder; everything else stays *)
Inductive Rewritten (ph : str) : action str -> action str -> Prop :=
| RwNone : Rewritten ph ANone ANone
| RwAdd b : Rewritten ph (AAdd b) (AAdd b)
| RwRemove a : Rewritten ph (ARemove a) (AEdit a ph)
| RwEdit a b : Rewritten ph (AEdit a b) (AEdit a b).

Lemma rewritten_iff ph a a' : Rewritten ph a a' <-> a' = fix_info ph a.
Proof.
  split.
  - intros H. destruct H; reflexivity.
  - intros ->. destruct a; cbn [fix_info]; constructor.
Qed.

(* the node itself amounts to a change: it is not an (illegal) addition, and after the rewrite
   its name action or its comment action is a difference *)
Definition Changes (ph : str) (info doc : action str) : Prop :=
  ~ IsAdd info /\ ((match info with
                    | ANone => False
                    | AAdd _ => True
                    | ARemove a => a <> ph
                    | AEdit a b => a <> b
                    end) \/ IsDiff doc).

Lemma is_diff_iff a : is_diff a = true <-> IsDiff a.
Proof.
  destruct a as [|b|x|x y]; cbn [is_diff IsDiff]; try (split; [discriminate|tauto]); try tauto.
  rewrite negb_true_iff, str_eqb_neq. tauto.
Qed.

Lemma changed_iff ph info doc : changed (fix_info ph info) doc = true <-> Changes ph info doc.
Proof.
  unfold changed, Changes, IsAdd.
  rewrite andb_true_iff, orb_true_iff, !is_diff_iff.
  destruct info as [|b|x|x y]; cbn [fix_info validator IsDiff].
  - split; [intros (_ & H); split; [intros (b & Hb); discriminate|exact H]|intros (_ & H); split; [reflexivity|exact H]].
  - split; [intros (H & _); discriminate|intros (H & _); exfalso; apply H; exists b; reflexivity].
  - split; [intros (_ & H); split; [intros (b & Hb); discriminate|exact H]|intros (_ & H); split; [reflexivity|exact H]].
  - split; [intros (_ & H); split; [intros (b & Hb); discriminate|exact H]|intros (_ & H); split; [reflexivity|exact H]].
Qed.

Definition KeptDParam (p : dparam) : Prop := Changes (param_placeholder (dp_index p)) (dp_info p) (dp_doc p).
Definition KeptDField (f : dfield) : Prop := Changes (df_name f) (df_info f) (df_doc f).
Definition KeptDMeth (m : dmeth) : Prop :=
  Changes (dm_name m) (dm_info m) (dm_doc m) \/ (exists p, In p (dm_params m) /\ KeptDParam p).
Definition KeptDClass (c : dclass) : Prop :=
  Changes (class_placeholder (dc_name c)) (dc_info c) (dc_doc c)
  \/ (exists f, In f (dc_fields c) /\ KeptDField f)
  \/ (exists m, In m (dc_methods c) /\ KeptDMeth m).

Definition SpecDParam (p p' : dparam) : Prop :=
  dp_index p' = dp_index p /\ dp_doc p' = dp_doc p
  /\ Rewritten (param_placeholder (dp_index p)) (dp_info p) (dp_info p').
Definition SpecDField (f f' : dfield) : Prop :=
  df_name f' = df_name f /\ df_desc f' = df_desc f /\ df_doc f' = df_doc f
  /\ Rewritten (df_name f) (df_info f) (df_info f').
Definition SpecDMeth (m m' : dmeth) : Prop :=
  dm_name m' = dm_name m /\ dm_desc m' = dm_desc m /\ dm_doc m' = dm_doc m
  /\ Rewritten (dm_name m) (dm_info m) (dm_info m')
  /\ Retained KeptDParam SpecDParam (dm_params m) (dm_params m').
Definition SpecDClass (c c' : dclass) : Prop :=
  dc_name c' = dc_name c /\ dc_doc c' = dc_doc c
  /\ Rewritten (class_placeholder (dc_name c)) (dc_info c) (dc_info c')
  /\ Retained KeptDField SpecDField (dc_fields c) (dc_fields c')
  /\ Retained KeptDMeth SpecDMeth (dc_methods c) (dc_methods c').
Definition SpecDiff (d d' : mdiff) : Prop :=
  d_info d' = d_info d /\ d_doc d' = d_doc d
  /\ Retained KeptDClass SpecDClass (d_classes d) (d_classes d').

Lemma keep_dparam_iff p : keep_dparam (fix_dparam p) = true <-> KeptDParam p.
Proof. unfold keep_dparam, fix_dparam, KeptDParam; cbn [dp_info dp_doc]. apply changed_iff. Qed.

Lemma keep_dfield_iff f : keep_dfield (fix_dfield f) = true <-> KeptDField f.
Proof. unfold keep_dfield, fix_dfield, KeptDField; cbn [df_info df_doc]. apply changed_iff. Qed.

Lemma keep_dmeth_iff m : keep_dmeth (fix_dmeth m) = true <-> KeptDMeth m.
Proof.
  unfold keep_dmeth, fix_dmeth, KeptDMeth; cbn [dm_info dm_doc dm_params].
  rewrite orb_true_iff, changed_iff, negb_is_nil_filter.
  split; (intros [H|(p & Hp & Hk)]; [left; exact H|right; exists p; split; [exact Hp|apply keep_dparam_iff; exact Hk]]).
Qed.

Lemma keep_dclass_iff c : keep_dclass (fix_dclass c) = true <-> KeptDClass c.
Proof.
  unfold keep_dclass, fix_dclass, KeptDClass; cbn [dc_info dc_doc dc_fields dc_methods].
  rewrite !orb_true_iff, changed_iff, !negb_is_nil_filter.
  split.
  - intros [[H|(f & Hf & Hk)]|(m & Hm & Hk)].
    + left; exact H.
    + right; left. exists f. split; [exact Hf|apply keep_dfield_iff; exact Hk].
    + right; right. exists m. split; [exact Hm|apply keep_dmeth_iff; exact Hk].
  - intros [H|[(f & Hf & Hk)|(m & Hm & Hk)]].
    + left; left; exact H.
    + left; right. exists f. split; [exact Hf|apply keep_dfield_iff; exact Hk].
    + right. exists m. split; [exact Hm|apply keep_dmeth_iff; exact Hk].
Qed.

Lemma fix_dparam_spec p : SpecDParam p (fix_dparam p).
Proof. unfold SpecDParam, fix_dparam; cbn [dp_index dp_doc dp_info]. repeat split. apply rewritten_iff. reflexivity. Qed.

Lemma fix_dfield_spec f : SpecDField f (fix_dfield f).
Proof. unfold SpecDField, fix_dfield; cbn [df_name df_desc df_doc df_info]. repeat split. apply rewritten_iff. reflexivity. Qed.

Lemma fix_dmeth_spec m : SpecDMeth m (fix_dmeth m).
Proof.
  unfold SpecDMeth, fix_dmeth; cbn [dm_name dm_desc dm_doc dm_info dm_params].
  repeat split; [apply rewritten_iff; reflexivity|].
  apply retained_intro; intros p _; [apply keep_dparam_iff|intros _; apply fix_dparam_spec].
Qed.

Lemma fix_dclass_spec c : SpecDClass c (fix_dclass c).
Proof.
  unfold SpecDClass, fix_dclass; cbn [dc_name dc_doc dc_info dc_fields dc_methods].
  repeat split; [apply rewritten_iff; reflexivity| |].
  - apply retained_intro; intros f _; [apply keep_dfield_iff|intros _; apply fix_dfield_spec].
  - apply retained_intro; intros m _; [apply keep_dmeth_iff|intros _; apply fix_dmeth_spec].
Qed.

Lemma insert_dummy_satisfies d : SpecDiff d (insert_dummy d).
Proof.
  unfold SpecDiff, insert_dummy; cbn [d_info d_doc d_classes]. repeat split.
  apply retained_intro; intros c _; [apply keep_dclass_iff|intros _; apply fix_dclass_spec].
Qed.

Lemma spec_dparam_unique p p' : SpecDParam p p' -> p' = fix_dparam p.
Proof.
  intros (Hi & Hd & Hr). apply rewritten_iff in Hr.
  destruct p'; cbn in *. unfold fix_dparam. subst. reflexivity.
Qed.

Lemma spec_dfield_unique f f' : SpecDField f f' -> f' = fix_dfield f.
Proof.
  intros (Hn & Hde & Hd & Hr). apply rewritten_iff in Hr.
  destruct f'; cbn in *. unfold fix_dfield. subst. reflexivity.
Qed.

Lemma spec_dmeth_unique m m' : SpecDMeth m m' -> m' = fix_dmeth m.
Proof.
  intros (Hn & Hde & Hd & Hr & Hp). apply rewritten_iff in Hr.
  apply (retained_unique _ _ keep_dparam fix_dparam) in Hp.
  2: { intros p _. apply keep_dparam_iff. }
  2: { intros a b _ _ H. apply spec_dparam_unique. exact H. }
  destruct m'; cbn in *. unfold fix_dmeth. subst. reflexivity.
Qed.

Lemma spec_dclass_unique c c' : SpecDClass c c' -> c' = fix_dclass c.
Proof.
  intros (Hn & Hd & Hr & Hf & Hm). apply rewritten_iff in Hr.
  apply (retained_unique _ _ keep_dfield fix_dfield) in Hf.
  2: { intros f _. apply keep_dfield_iff. }
  2: { intros a b _ _ H. apply spec_dfield_unique. exact H. }
  apply (retained_unique _ _ keep_dmeth fix_dmeth) in Hm.
  2: { intros m _. apply keep_dmeth_iff. }
  2: { intros a b _ _ H. apply spec_dmeth_unique. exact H. }
  destruct c'; cbn in *. unfold fix_dclass. subst. reflexivity.
Qed.

(* Theorem 4 *)
Theorem insert_dummy_spec d d' : insert_dummy d = d' <-> SpecDiff d d'.
Proof.
  split.
  - intros <-. apply insert_dummy_satisfies.
  - intros (Hi & Hd & Hc).
    apply (retained_unique _ _ keep_dclass fix_dclass) in Hc.
    2: { intros c _. apply keep_dclass_iff. }
    2: { intros a b _ _ H. apply spec_dclass_unique. exact H. }
    destruct d'; cbn in *. unfold insert_dummy. subst. reflexivity.
Qed.

(* consequences of Theorem 4, clause by clause of the property statement *)

(* a predicate on every name action of a diff tree *)
Definition AllInfos (P : action str -> Prop) (d : mdiff) : Prop :=
  forall c, In c (d_classes d) ->
    P (dc_info c)
    /\ (forall f, In f (dc_fields c) -> P (df_info f))
    /\ (forall m, In m (dc_methods c) -> P (dm_info m) /\ forall p, In p (dm_params m) -> P (dp_info p)).

Lemma fix_info_not_remove ph a : ~ IsRemove (fix_info ph a).
Proof. intros (x & H). destruct a; discriminate. Qed.

(* no removal is left anywhere *)
Theorem insert_dummy_no_remove d : AllInfos (fun a => ~ IsRemove a) (insert_dummy d).
Proof.
  intros c Hc. unfold insert_dummy in Hc; cbn [d_classes] in Hc.
  apply filter_In in Hc. destruct Hc as (Hc & _). apply in_map_iff in Hc. destruct Hc as (c0 & <- & _).
  unfold fix_dclass; cbn [dc_info dc_fields dc_methods]. split; [apply fix_info_not_remove|]. split.
  - intros f Hf. apply filter_In in Hf. destruct Hf as (Hf & _). apply in_map_iff in Hf.
    destruct Hf as (f0 & <- & _). apply fix_info_not_remove.
  - intros m Hm. apply filter_In in Hm. destruct Hm as (Hm & _). apply in_map_iff in Hm.
    destruct Hm as (m0 & <- & _). unfold fix_dmeth; cbn [dm_info dm_params]. split; [apply fix_info_not_remove|].
    intros p Hp. apply filter_In in Hp. destruct Hp as (Hp & _). apply in_map_iff in Hp.
    destruct Hp as (p0 & <- & _). apply fix_info_not_remove.
Qed.

Lemma changed_not_add info doc : changed info doc = true -> ~ IsAdd info.
Proof. unfold changed. intros H (b & ->). cbn in H. discriminate. Qed.

(* additions of fields and of parameters are discarded *)
Theorem insert_dummy_no_added_field d c f :
  In c (d_classes (insert_dummy d)) -> In f (dc_fields c) -> ~ IsAdd (df_info f).
Proof.
  intros Hc Hf. unfold insert_dummy in Hc; cbn [d_classes] in Hc.
  apply filter_In in Hc. destruct Hc as (Hc & _). apply in_map_iff in Hc. destruct Hc as (c0 & <- & _).
  unfold fix_dclass in Hf; cbn [dc_fields] in Hf. apply filter_In in Hf. destruct Hf as (_ & Hk).
  exact (changed_not_add _ _ Hk).
Qed.

Theorem insert_dummy_no_added_param d c m p :
  In c (d_classes (insert_dummy d)) -> In m (dc_methods c) -> In p (dm_params m) -> ~ IsAdd (dp_info p).
Proof.
  intros Hc Hm Hp. unfold insert_dummy in Hc; cbn [d_classes] in Hc.
  apply filter_In in Hc. destruct Hc as (Hc & _). apply in_map_iff in Hc. destruct Hc as (c0 & <- & _).
  unfold fix_dclass in Hm; cbn [dc_methods] in Hm. apply filter_In in Hm. destruct Hm as (Hm & _).
  apply in_map_iff in Hm. destruct Hm as (m0 & <- & _).
  unfold fix_dmeth in Hp; cbn [dm_params] in Hp. apply filter_In in Hp. destruct Hp as (_ & Hk).
  exact (changed_not_add _ _ Hk).
Qed.

(* additions of methods and classes survive only with remaining children *)
Theorem insert_dummy_added_class_has_children d c :
  In c (d_classes (insert_dummy d)) -> IsAdd (dc_info c) -> dc_fields c <> [] \/ dc_methods c <> [].
Proof.
  intros Hc Ha. unfold insert_dummy in Hc; cbn [d_classes] in Hc.
  apply filter_In in Hc. destruct Hc as (_ & Hk). unfold keep_dclass in Hk.
  rewrite !orb_true_iff, !negb_true_iff in Hk. destruct Hk as [[Hk|Hk]|Hk].
  - exfalso. exact (changed_not_add _ _ Hk Ha).
  - left. intros E. rewrite E in Hk. discriminate.
  - right. intros E. rewrite E in Hk. discriminate.
Qed.

Theorem insert_dummy_added_meth_has_children d c m :
  In c (d_classes (insert_dummy d)) -> In m (dc_methods c) -> IsAdd (dm_info m) -> dm_params m <> [].
Proof.
  intros Hc Hm Ha. unfold insert_dummy in Hc; cbn [d_classes] in Hc.
  apply filter_In in Hc. destruct Hc as (Hc & _). apply in_map_iff in Hc. destruct Hc as (c0 & <- & _).
  unfold fix_dclass in Hm; cbn [dc_methods] in Hm. apply filter_In in Hm. destruct Hm as (_ & Hk).
  unfold keep_dmeth in Hk. rewrite orb_true_iff, negb_true_iff in Hk. destruct Hk as [Hk|Hk].
  - exfalso. exact (changed_not_add _ _ Hk Ha).
  - intros E. rewrite E in Hk. discriminate.
Qed.

(* a node is dropped iff it changes nothing and has no remaining children *)
Theorem insert_dummy_class_kept_iff d c :
  In c (d_classes d) -> (In (fix_dclass c) (d_classes (insert_dummy d)) <-> KeptDClass c).
Proof.
  intros Hc. unfold insert_dummy; cbn [d_classes]. rewrite filter_In, keep_dclass_iff. split.
  - tauto.
  - intros H. split; [apply in_map; exact Hc|exact H].
Qed.

Theorem insert_dummy_meth_kept_iff c m :
  In m (dc_methods c) -> (In (fix_dmeth m) (dc_methods (fix_dclass c)) <-> KeptDMeth m).
Proof.
  intros Hm. unfold fix_dclass; cbn [dc_methods]. rewrite filter_In, keep_dmeth_iff. split.
  - tauto.
  - intros H. split; [apply in_map; exact Hm|exact H].
Qed.

Theorem insert_dummy_field_kept_iff c f :
  In f (dc_fields c) -> (In (fix_dfield f) (dc_fields (fix_dclass c)) <-> KeptDField f).
Proof.
  intros Hf. unfold fix_dclass; cbn [dc_fields]. rewrite filter_In, keep_dfield_iff. split.
  - tauto.
  - intros H. split; [apply in_map; exact Hf|exact H].
Qed.

Theorem insert_dummy_param_kept_iff m p :
  In p (dm_params m) -> (In (fix_dparam p) (dm_params (fix_dmeth m)) <-> KeptDParam p).
Proof.
  intros Hp. unfold fix_dmeth; cbn [dm_params]. rewrite filter_In, keep_dparam_iff. split.
  - tauto.
  - intros H. split; [apply in_map; exact Hp|exact H].
Qed.

(* Theorem 5: idempotence *)
Lemma fix_info_idem ph a : fix_info ph (fix_info ph a) = fix_info ph a.
Proof. destruct a; reflexivity. Qed.

Lemma fix_dparam_idem p : fix_dparam (fix_dparam p) = fix_dparam p.
Proof. unfold fix_dparam; cbn [dp_index dp_info dp_doc]. rewrite fix_info_idem. reflexivity. Qed.

Lemma fix_dfield_idem f : fix_dfield (fix_dfield f) = fix_dfield f.
Proof. unfold fix_dfield; cbn [df_name df_desc df_info df_doc]. rewrite fix_info_idem. reflexivity. Qed.

Lemma fix_dmeth_idem m : fix_dmeth (fix_dmeth m) = fix_dmeth m.
Proof.
  unfold fix_dmeth; cbn [dm_name dm_desc dm_info dm_doc dm_params].
  rewrite fix_info_idem, (filter_map_idem _ _ _ fix_dparam_idem). reflexivity.
Qed.

Lemma fix_dclass_idem c : fix_dclass (fix_dclass c) = fix_dclass c.
Proof.
  unfold fix_dclass; cbn [dc_name dc_info dc_doc dc_fields dc_methods].
  rewrite fix_info_idem, (filter_map_idem _ _ _ fix_dfield_idem), (filter_map_idem _ _ _ fix_dmeth_idem).
  reflexivity.
Qed.

Theorem insert_dummy_idem d : insert_dummy (insert_dummy d) = insert_dummy d.
Proof.
  unfold insert_dummy; cbn [d_info d_doc d_classes].
  rewrite (filter_map_idem _ _ _ fix_dclass_idem). reflexivity.
Qed.
