(* C10 correspondence cases: input together with what the implementation answered.
   Results are compared up to the order of the entries (every level sorted by key), because the
   property is about WHICH entries survive, not about IndexMap order. *)
From FB Require Export C10.Model Base.Run.

Definition action_eqb (a b : action str) : bool :=
  match a, b with
  | ANone, ANone => true
  | AAdd x, AAdd y => str_eqb x y
  | ARemove x, ARemove y => str_eqb x y
  | AEdit x1 x2, AEdit y1 y2 => str_eqb x1 y1 && str_eqb x2 y2
  | _, _ => false
  end.

Definition dparam_eqb (a b : dparam) : bool :=
  N.eqb (dp_index a) (dp_index b) && action_eqb (dp_info a) (dp_info b) && action_eqb (dp_doc a) (dp_doc b).
Definition dfield_eqb (a b : dfield) : bool :=
  str_eqb (df_name a) (df_name b) && str_eqb (df_desc a) (df_desc b)
  && action_eqb (df_info a) (df_info b) && action_eqb (df_doc a) (df_doc b).
Definition dmeth_eqb (a b : dmeth) : bool :=
  str_eqb (dm_name a) (dm_name b) && str_eqb (dm_desc a) (dm_desc b)
  && action_eqb (dm_info a) (dm_info b) && action_eqb (dm_doc a) (dm_doc b)
  && list_eqb dparam_eqb (dm_params a) (dm_params b).
Definition dclass_eqb (a b : dclass) : bool :=
  str_eqb (dc_name a) (dc_name b) && action_eqb (dc_info a) (dc_info b) && action_eqb (dc_doc a) (dc_doc b)
  && list_eqb dfield_eqb (dc_fields a) (dc_fields b) && list_eqb dmeth_eqb (dc_methods a) (dc_methods b).
Definition mdiff_eqb (a b : mdiff) : bool :=
  action_eqb (d_info a) (d_info b) && action_eqb (d_doc a) (d_doc b)
  && list_eqb dclass_eqb (d_classes a) (d_classes b).

(* keys are unique in an IndexMap, so sorting by key is canonical *)
Definition dparam_le (a b : dparam) : bool := N.leb (dp_index a) (dp_index b).
Definition dfield_le (a b : dfield) : bool :=
  is_le (lex (str_cmp (df_name a) (df_name b)) (str_cmp (df_desc a) (df_desc b))).
Definition dmeth_le (a b : dmeth) : bool :=
  is_le (lex (str_cmp (dm_name a) (dm_name b)) (str_cmp (dm_desc a) (dm_desc b))).
Definition dclass_le (a b : dclass) : bool := is_le (str_cmp (dc_name a) (dc_name b)).

Definition canon_dmeth (m : dmeth) : dmeth :=
  mkDMeth (dm_name m) (dm_desc m) (dm_info m) (dm_doc m) (isort dparam_le (dm_params m)).
Definition canon_dclass (c : dclass) : dclass :=
  mkDClass (dc_name c) (dc_info c) (dc_doc c)
    (isort dfield_le (dc_fields c)) (isort dmeth_le (map canon_dmeth (dc_methods c))).
Definition canon_diff (d : mdiff) : mdiff :=
  mkDiff (d_info d) (d_doc d) (isort dclass_le (map canon_dclass (d_classes d))).
Definition diff_equivb (a b : mdiff) : bool := mdiff_eqb (canon_diff a) (canon_diff b).

Inductive case :=
| CRemove (M : mappings) (namespace : str) (r : res mappings)   (* Mappings::remove_dummy *)
| CInsert (d : mdiff) (r : res mdiff)                           (* MappingsDiff::insert_dummy_and_contract_inner_names *)
| CDec (n : N) (s : str)                                        (* format!("{}", n) of a usize *)
| CInner (s : str) (r : option str).                            (* ObjClassName::get_inner_class_name *)

Definition check (c : case) : bool :=
  match c with
  | CRemove M ns r => res_eqb equivb (remove_dummy M ns) r
  | CInsert d r => res_eqb diff_equivb (Ok (insert_dummy d)) r
  | CDec n s => str_eqb (dec n) s
  | CInner s r => opt_eqb str_eqb (inner_class_name s) r
  end.
