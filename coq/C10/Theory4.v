(* C10 theory, round 5: the simple-inner-name placeholder of a removed class uses C10's own transcription
   of ObjClassNameSlice::get_inner_class_name (C10/Model.v inner_class_name).  It is the same function
   as the one C18 characterises completely and C11 extends / contracts with (C18/Model.v split_inner,
   inner_name): the split at the LAST `$` with the four refusals. *)
From FB Require Import Base.Str.
From FB Require C10.Model C18.Model.

Lemma rsplit_once_same c s : FB.C10.Model.rsplit_once c s = FB.C18.Model.rsplit_once c s.
Proof.
  induction s as [|x s IH]; cbn [FB.C10.Model.rsplit_once FB.C18.Model.rsplit_once]; [reflexivity|].
  rewrite IH. reflexivity.
Qed.

Theorem inner_class_name_is_C18 s : FB.C10.Model.inner_class_name s = FB.C18.Model.inner_name s.
Proof.
  unfold FB.C10.Model.inner_class_name, FB.C18.Model.inner_name, FB.C18.Model.split_inner.
  rewrite rsplit_once_same. destruct (FB.C18.Model.rsplit_once cDOLLAR s) as [[p i]|]; [|reflexivity].
  change (FB.C10.Model.ends_with_char cSLASH p) with (FB.C18.Model.ends_with_char cSLASH p).
  destruct p as [|a p]; destruct i as [|b i]; cbn [FB.C10.Model.is_nil FB.C18.Model.is_nil negb andb]; try reflexivity.
  destruct (negb (FB.C18.Model.ends_with_char cSLASH (a :: p)) && negb (mem_N cSLASH (b :: i))); reflexivity.
Qed.

(* hence: the placeholder of a removed class is the inner name where the key is splittable, else the key *)
Theorem class_placeholder_is_C18 key :
  FB.C10.Model.class_placeholder key = match FB.C18.Model.split_inner key with Some (_, i) => i | None => key end.
Proof.
  unfold FB.C10.Model.class_placeholder. rewrite inner_class_name_is_C18. unfold FB.C18.Model.inner_name.
  destruct (FB.C18.Model.split_inner key) as [[p i]|]; reflexivity.
Qed.

(* names whose simple name starts with `$` directly behind a package (or at the very beginning) are
   NOT inner class names: the outer part would be empty or end in `/` *)
Theorem dollar_leading_not_split pkg rest :
  ~ In cDOLLAR rest ->
  (pkg = [] \/ exists q, pkg = q ++ [cSLASH]) ->
  FB.C10.Model.class_placeholder (pkg ++ cDOLLAR :: rest) = pkg ++ cDOLLAR :: rest.
Proof.
  intros Hr Hp. unfold FB.C10.Model.class_placeholder, FB.C10.Model.inner_class_name.
  assert (E : FB.C10.Model.rsplit_once cDOLLAR (pkg ++ cDOLLAR :: rest) = Some (pkg, rest)).
  { assert (Hn : FB.C10.Model.rsplit_once cDOLLAR rest = None).
    { induction rest as [|x r IH]; [reflexivity|]. cbn [FB.C10.Model.rsplit_once].
      rewrite IH by (intros H; apply Hr; right; exact H).
      destruct (N.eqb_spec x cDOLLAR) as [->|_]; [exfalso; apply Hr; left; reflexivity|reflexivity]. }
    clear Hp. induction pkg as [|y pkg IH]; cbn [app FB.C10.Model.rsplit_once].
    - rewrite Hn, N.eqb_refl. reflexivity.
    - rewrite IH. reflexivity. }
  rewrite E. destruct Hp as [->|(q & ->)]; [reflexivity|].
  assert (Hq : FB.C10.Model.is_nil (q ++ [cSLASH]) = false) by (destruct q; reflexivity).
  assert (He : FB.C10.Model.ends_with_char cSLASH (q ++ [cSLASH]) = true).
  { unfold FB.C10.Model.ends_with_char. rewrite rev_app_distr. cbn [rev app]. apply N.eqb_refl. }
  rewrite Hq, He. cbn [negb andb]. destruct (negb (FB.C10.Model.is_nil rest)); reflexivity.
Qed.
