(* C10 — theory, second part: the constants, the definitions restated, the placeholders
   (decimal index, simple inner name), permutation invariance, non-vacuity. *)
From FB Require Import C10.Model C10.Theory.
From Coq Require Import Lia ZArith.
Local Ltac Zify.zify_post_hook ::= Z.div_mod_to_equations.

Lemma placeholder_constants :
  class_prefixes = [[67;95]; [110;101;116;47;109;105;110;101;99;114;97;102;116;47;117;110;109;97;112;112;101;100;47;67;95]]
  /\ class_exact = []
  /\ field_prefixes = [[102;95]] /\ field_exact = []
  /\ method_prefixes = [[109;95]] /\ method_exact = [[60;105;110;105;116;62]; [60;99;108;105;110;105;116;62]]
  /\ param_prefixes = [[112;95]] /\ param_exact = []
  /\ insert_param_prefix = [112;95].
Proof. repeat split; reflexivity. Qed.

Lemma kept_definitions i :
  (forall p, KeptParam i p <-> p_doc p <> None \/ ~ Placeholder param_prefixes param_exact (nth_name (p_names p) i))
  /\ (forall f, KeptField i f <-> f_doc f <> None \/ ~ Placeholder field_prefixes field_exact (nth_name (f_names f) i))
  /\ (forall m, KeptMeth i m <->
        m_doc m <> None \/ (exists p, In p (m_params m) /\ KeptParam i p)
        \/ ~ Placeholder method_prefixes method_exact (nth_name (m_names m) i))
  /\ (forall c, KeptClass i c <->
        c_doc c <> None \/ (exists f, In f (c_fields c) /\ KeptField i f)
        \/ (exists m, In m (c_methods c) /\ KeptMeth i m)
        \/ ~ Placeholder class_prefixes class_exact (nth_name (c_names c) i))
  /\ (forall ps es o, Placeholder ps es o <->
        exists x, o = Some x /\ ((exists p r, In p ps /\ x = p ++ r) \/ In x es)).
Proof.
  split; [intros p; exact (iff_refl _)|].
  split; [intros f; exact (iff_refl _)|].
  split; [intros m; exact (iff_refl _)|].
  split; [intros c; exact (iff_refl _)|].
  intros ps es o; exact (iff_refl _).
Qed.

Lemma insert_definitions :
  (forall ph info doc, Changes ph info doc <->
      ~ (exists b, info = AAdd b)
      /\ ((match info with ANone => False | AAdd _ => True | ARemove a => a <> ph | AEdit a b => a <> b end)
          \/ (match doc with ANone => False | AAdd _ => True | ARemove _ => True | AEdit a b => a <> b end)))
  /\ (forall p, KeptDParam p <-> Changes (insert_param_prefix ++ dec (dp_index p)) (dp_info p) (dp_doc p))
  /\ (forall f, KeptDField f <-> Changes (df_name f) (df_info f) (df_doc f))
  /\ (forall m, KeptDMeth m <-> Changes (dm_name m) (dm_info m) (dm_doc m) \/ exists p, In p (dm_params m) /\ KeptDParam p)
  /\ (forall c, KeptDClass c <->
        Changes (class_placeholder (dc_name c)) (dc_info c) (dc_doc c)
        \/ (exists f, In f (dc_fields c) /\ KeptDField f) \/ (exists m, In m (dc_methods c) /\ KeptDMeth m))
  /\ (forall ph a a', Rewritten ph a a' <->
        match a with ARemove x => a' = AEdit x ph | _ => a' = a end).
Proof.
  split; [intros ph info doc; exact (iff_refl _)|].
  split; [intros p; exact (iff_refl _)|].
  split; [intros f; exact (iff_refl _)|].
  split; [intros m; exact (iff_refl _)|].
  split; [intros c; exact (iff_refl _)|].
  intros ph a a'. rewrite rewritten_iff. destruct a; cbn [fix_info]; exact (iff_refl _).
Qed.

(* ------------------------------------------------------------------------------------------ *)
(* dec prints the decimal representation                                                        *)

Definition undec_from (a : N) (s : str) : N := fold_left (fun a c => 10 * a + (c - 48)) s a.
Definition undec (s : str) : N := undec_from 0 s.

Definition DecOf (n : N) (ds : str) : Prop :=
  ds <> [] /\ Forall (fun c => 48 <= c <= 57) ds
  /\ (exists m, forall a, undec_from a ds = a * m + n)
  /\ (n <> 0 -> hd 48 ds <> 48).

Lemma log2_div10_lt n : n / 10 <> 0 -> N.log2 (n / 10) < N.log2 n.
Proof.
  intros H.
  assert (Hn : 10 <= n).
  { destruct (N.lt_ge_cases n 10) as [Hlt|Hge]; [|exact Hge]. apply N.div_small in Hlt. congruence. }
  assert (H2 : n / 10 <= n / 2) by (apply N.div_le_compat_l; lia).
  assert (H3 : n / 2 = N.shiftr n 1) by (rewrite N.shiftr_div_pow2, N.pow_1_r; reflexivity).
  assert (H4 : N.log2 (n / 2) = N.log2 n - 1) by (rewrite H3; apply N.log2_shiftr).
  assert (H5 : 0 < N.log2 n) by (apply N.log2_pos; lia).
  assert (H6 : N.log2 (n / 10) <= N.log2 (n / 2)) by (apply N.log2_le_mono; exact H2).
  lia.
Qed.

Lemma dec_loop_spec fuel : forall n acc,
  (N.to_nat (N.log2 n) < fuel)%nat -> exists ds, dec_loop fuel n acc = ds ++ acc /\ DecOf n ds.
Proof.
  induction fuel as [|fuel IH]; intros n acc Hf; [lia|].
  cbn [dec_loop].
  assert (Hmod : n mod 10 < 10) by (apply N.mod_lt; lia).
  assert (Hdm : n = 10 * (n / 10) + n mod 10) by (apply N.div_mod; lia).
  destruct (N.eqb_spec (n / 10) 0) as [Hz|Hnz].
  - exists [48 + n mod 10]. split; [reflexivity|].
    assert (Hn : n = n mod 10) by lia.
    unfold DecOf. split; [discriminate|]. split; [constructor; [lia|constructor]|]. split.
    + exists 10. intros a. unfold undec_from. cbn [fold_left]. lia.
    + intros Hn0. cbn [hd]. lia.
  - destruct (IH (n / 10) ((48 + n mod 10) :: acc)) as (ds & Hds & Hne & Hall & (m & Hm) & Hhd).
    { pose proof (log2_div10_lt n Hnz). lia. }
    exists (ds ++ [48 + n mod 10]). split; [rewrite Hds, <- app_assoc; reflexivity|].
    unfold DecOf. split; [destruct ds; discriminate|]. split.
    + apply Forall_app. split; [exact Hall|constructor; [lia|constructor]].
    + split.
      * exists (10 * m). intros a. unfold undec_from. rewrite fold_left_app. fold (undec_from a ds).
        rewrite Hm. cbn [fold_left]. nia.
      * intros _. destruct ds as [|d ds]; [congruence|]. cbn [app hd]. cbn [hd] in Hhd. apply Hhd. exact Hnz.
Qed.

Lemma dec_is_decimal n :
  undec (dec n) = n /\ Forall (fun c => 48 <= c <= 57) (dec n) /\ dec n <> []
  /\ (n <> 0 -> hd 48 (dec n) <> 48).
Proof.
  unfold dec. destruct (dec_loop_spec (S (N.to_nat (N.log2 n))) n []) as (ds & Hds & Hne & Hall & (m & Hm) & Hhd); [lia|].
  rewrite Hds, app_nil_r. repeat split; try assumption.
  unfold undec. rewrite Hm. lia.
Qed.

(* ------------------------------------------------------------------------------------------ *)
(* the simple inner name                                                                        *)

Lemma rsplit_once_none c s : rsplit_once c s = None <-> ~ In c s.
Proof.
  induction s as [|x s IH]; cbn [rsplit_once In]; [tauto|].
  destruct (rsplit_once c s) as [[p i]|].
  - split; [discriminate|]. intros H. exfalso. apply H. right.
    destruct (in_dec N.eq_dec c s) as [Hin|Hnin]; [exact Hin|]. apply IH in Hnin. discriminate.
  - destruct (N.eqb_spec x c) as [->|Hne].
    + split; [discriminate|]. intros H. exfalso. apply H. left. reflexivity.
    + split; [|reflexivity]. intros _ [Heq|Hin]; [congruence|]. apply (proj1 IH); [reflexivity|exact Hin].
Qed.

Lemma rsplit_once_sound c s : forall p i, rsplit_once c s = Some (p, i) -> s = p ++ c :: i /\ ~ In c i.
Proof.
  induction s as [|x s IH]; intros p i; cbn [rsplit_once]; [discriminate|].
  destruct (rsplit_once c s) as [[p' i']|] eqn:E.
  - intros [= <- <-]. destruct (IH p' i' eq_refl) as (-> & Hn). split; [reflexivity|exact Hn].
  - destruct (N.eqb_spec x c) as [->|Hne]; [|discriminate].
    intros [= <- <-]. split; [reflexivity|]. apply rsplit_once_none. exact E.
Qed.

Lemma rsplit_once_complete c p i : ~ In c i -> rsplit_once c (p ++ c :: i) = Some (p, i).
Proof.
  intros Hn. induction p as [|x p IH]; cbn [app rsplit_once].
  - apply rsplit_once_none in Hn. rewrite Hn, N.eqb_refl. reflexivity.
  - rewrite IH. reflexivity.
Qed.

Lemma ends_with_char_iff c p : ends_with_char c p = true <-> exists o, p = o ++ [c].
Proof.
  unfold ends_with_char. destruct (rev p) as [|x l] eqn:E.
  - split; [discriminate|]. intros (o & ->). rewrite rev_app_distr in E. discriminate.
  - assert (Hp : p = rev l ++ [x]) by (rewrite <- (rev_involutive p), E; reflexivity).
    rewrite N.eqb_eq. split.
    + intros ->. exists (rev l). exact Hp.
    + intros (o & Ho). rewrite Ho in Hp. apply app_inj_tail in Hp. symmetry. apply Hp.
Qed.

Definition InnerOk (outer inner : str) : Prop :=
  outer <> [] /\ inner <> [] /\ (forall o, outer <> o ++ [cSLASH]) /\ ~ In cSLASH inner.

Lemma inner_ok_definition outer inner :
  InnerOk outer inner <->
  outer <> [] /\ inner <> [] /\ (forall o, outer <> o ++ [cSLASH]) /\ ~ In cSLASH inner.
Proof. exact (iff_refl _). Qed.

Lemma inner_cond_iff p i :
  negb (is_nil p) && negb (is_nil i) && negb (ends_with_char cSLASH p) && negb (mem_N cSLASH i) = true
  <-> InnerOk p i.
Proof.
  unfold InnerOk. rewrite !andb_true_iff, !negb_true_iff. split.
  - intros (((Hp & Hi) & He) & Hm). repeat split.
    + intros ->. discriminate.
    + intros ->. discriminate.
    + intros o Ho. assert (H : ends_with_char cSLASH p = true) by (apply ends_with_char_iff; exists o; exact Ho). congruence.
    + intros Hin. apply mem_N_In in Hin. congruence.
  - intros (Hp & Hi & He & Hm). repeat split.
    + destruct p; [congruence|reflexivity].
    + destruct i; [congruence|reflexivity].
    + destruct (ends_with_char cSLASH p) eqn:E; [|reflexivity]. apply ends_with_char_iff in E. destruct E as (o & Ho). exfalso. exact (He o Ho).
    + destruct (mem_N cSLASH i) eqn:E; [|reflexivity]. apply mem_N_In in E. contradiction.
Qed.

(* key = outer$inner at the LAST `$`: the placeholder is inner when the split is admissible, the whole key otherwise *)
Lemma class_placeholder_spec key :
  (forall outer inner, key = outer ++ cDOLLAR :: inner -> ~ In cDOLLAR inner -> InnerOk outer inner ->
      class_placeholder key = inner)
  /\ ((forall outer inner, key = outer ++ cDOLLAR :: inner -> ~ In cDOLLAR inner -> ~ InnerOk outer inner) ->
      class_placeholder key = key).
Proof.
  unfold class_placeholder, inner_class_name. split.
  - intros outer inner -> Hn Hok. rewrite (rsplit_once_complete _ _ _ Hn).
    apply inner_cond_iff in Hok. rewrite Hok. reflexivity.
  - intros H. destruct (rsplit_once cDOLLAR key) as [[p i]|] eqn:E; [|reflexivity].
    apply rsplit_once_sound in E. destruct E as (Hk & Hn).
    destruct (negb (is_nil p) && negb (is_nil i) && negb (ends_with_char cSLASH p) && negb (mem_N cSLASH i)) eqn:C; [|reflexivity].
    apply inner_cond_iff in C. exfalso. exact (H p i Hk Hn C).
Qed.

(* ------------------------------------------------------------------------------------------ *)
(* order plays no role                                                                          *)

Lemma perm_filter {A} (k : A -> bool) l l' : Permutation l l' -> Permutation (filter k l) (filter k l').
Proof.
  intros H. induction H as [|x l l' H IH|x y l|l l' l'' H1 IH1 H2 IH2]; cbn [filter].
  - constructor.
  - destruct (k x); [constructor|]; exact IH.
  - destruct (k x), (k y); try apply Permutation_refl. apply perm_swap.
  - eapply Permutation_trans; eassumption.
Qed.

Lemma remove_dummy_perm i M M' :
  ms_ns M = ms_ns M' -> ms_doc M = ms_doc M' -> Permutation (ms_classes M) (ms_classes M') ->
  Permutation (ms_classes (remove_dummy_at i M)) (ms_classes (remove_dummy_at i M')).
Proof.
  intros _ _ H. unfold remove_dummy_at; cbn [ms_classes]. apply perm_filter, Permutation_map. exact H.
Qed.

Lemma insert_dummy_perm d d' :
  Permutation (d_classes d) (d_classes d') ->
  Permutation (d_classes (insert_dummy d)) (d_classes (insert_dummy d')).
Proof.
  intros H. unfold insert_dummy; cbn [d_classes]. apply perm_filter, Permutation_map. exact H.
Qed.

(* ------------------------------------------------------------------------------------------ *)
(* the result of remove_dummy is again a legal mapping set (rows complete, keys present, unique)  *)

Lemma forallb_filter {A} (P k : A -> bool) l : forallb P l = true -> forallb P (filter k l) = true.
Proof.
  intros H. apply forallb_forall. intros x Hx. apply filter_In in Hx.
  exact (proj1 (forallb_forall P l) H x (proj1 Hx)).
Qed.

Lemma forallb_map_imp {A} (P : A -> bool) (f : A -> A) l :
  (forall x, P x = true -> P (f x) = true) -> forallb P l = true -> forallb P (map f l) = true.
Proof.
  intros Hf H. apply forallb_forall. intros y Hy. apply in_map_iff in Hy. destruct Hy as (x & <- & Hx).
  apply Hf. exact (proj1 (forallb_forall P l) H x Hx).
Qed.

Lemma existsb_sub {A B} (q : B -> bool) (key : A -> B) (k : A -> bool) l :
  existsb q (map key (filter k l)) = true -> existsb q (map key l) = true.
Proof.
  rewrite !existsb_exists. intros (b & Hb & Hq). exists b. split; [|exact Hq].
  apply in_map_iff in Hb. destruct Hb as (x & <- & Hx). apply filter_In in Hx. apply in_map. exact (proj1 Hx).
Qed.

Lemma nodupb_filter {A B} (eqb : B -> B -> bool) (key : A -> B) (k : A -> bool) l :
  nodupb eqb (map key l) = true -> nodupb eqb (map key (filter k l)) = true.
Proof.
  induction l as [|x l IH]; cbn [map filter nodupb]; [reflexivity|].
  rewrite andb_true_iff, negb_true_iff. intros (Hx & Hl).
  destruct (k x); cbn [map nodupb]; [|exact (IH Hl)].
  rewrite andb_true_iff, negb_true_iff. split; [|exact (IH Hl)].
  destruct (existsb (eqb (key x)) (map key (filter k l))) eqn:E; [|reflexivity].
  apply existsb_sub in E. congruence.
Qed.

Lemma wf_meth_rd n i m : wf_meth n m = true -> wf_meth n (rd_meth i m) = true.
Proof.
  unfold wf_meth, rd_meth, meth_key; cbn [m_names m_desc m_params].
  rewrite !andb_true_iff. intros (((Hn & Hk) & Hp) & Hd).
  repeat split; [exact Hn|exact Hk|apply forallb_filter; exact Hp|apply nodupb_filter; exact Hd].
Qed.

Lemma meth_key_rd i m : meth_key (rd_meth i m) = meth_key m.
Proof. reflexivity. Qed.

Lemma wf_class_rd n i c : wf_class n c = true -> wf_class n (rd_class i c) = true.
Proof.
  unfold wf_class, rd_class, class_key; cbn [c_names c_fields c_methods].
  rewrite !andb_true_iff. intros (((((Hn & Hk) & Hf) & Hfd) & Hm) & Hmd).
  repeat split; [exact Hn|exact Hk|apply forallb_filter; exact Hf|apply nodupb_filter; exact Hfd| |].
  - apply forallb_filter, forallb_map_imp; [intros m; apply wf_meth_rd|exact Hm].
  - apply nodupb_filter. rewrite map_map. rewrite (map_ext _ meth_key (meth_key_rd i)). exact Hmd.
Qed.

Lemma class_key_rd i c : class_key (rd_class i c) = class_key c.
Proof. reflexivity. Qed.

Lemma remove_dummy_wf M ns M' : wf M = true -> remove_dummy M ns = Ok M' -> wf M' = true.
Proof.
  unfold remove_dummy. destruct (find_ns ns (ms_ns M)) as [i|]; [|discriminate].
  intros Hwf [= <-]. unfold wf in *. unfold remove_dummy_at; cbn [ms_ns ms_classes].
  rewrite !andb_true_iff in *. destruct Hwf as (((H2 & Hns) & Hc) & Hd).
  repeat split; [exact H2|exact Hns| |].
  - apply forallb_filter, forallb_map_imp; [intros c; apply wf_class_rd|exact Hc].
  - apply nodupb_filter. rewrite map_map. rewrite (map_ext _ class_key (class_key_rd i)). exact Hd.
Qed.

(* ------------------------------------------------------------------------------------------ *)
(* non-vacuity: the repository's own fixture (quill/tests/remove_dummy_{input,output}.tiny)     *)

Definition fixture_in : mappings :=
  (mkMappings [[110;97;109;101;115;112;97;99;101;65]; [110;97;109;101;115;112;97;99;101;66]] None [(mkClass [(Some [97;47;109;105;110;101;99;114;97;102;116;47;99;108;97;115;115]); (Some [110;101;116;47;109;105;110;101;99;114;97;102;116;47;117;110;109;97;112;112;101;100;47;67;95;102;111;111])] None [] []);
    (mkClass [(Some [97;47;109;105;110;101;99;114;97;102;116;47;111;110;101;47;119;105;116;104;47;109;101;109;98;101;114;115]); (Some [110;101;116;47;109;105;110;101;99;114;97;102;116;47;117;110;109;97;112;112;101;100;47;67;95;98;97;114])] (Some [65;32;99;111;109;109;101;110;116]) [] []);
    (mkClass [(Some [97;110;100;47;97;110;111;116;104;101;114;47;111;110;101]); (Some [110;101;116;47;109;105;110;101;99;114;97;102;116;47;117;110;109;97;112;112;101;100;47;67;95;105;115;70;117;110;110;121])] None [] [(mkMeth [40;41;86] [(Some [97]); (Some [118;111;105;100])] None [])]);
    (mkClass [(Some [97;110;100;47;110;111;119;47;116;111]); (Some [116;104;101;47;109;101;109;98;101;114;115;47;109;101;109;98;101;114;115])] None [] [(mkMeth [40;73;73;41;86] [(Some [97]); (Some [115;97;109;112;108;101;77;101;116;104;111;100])] None [(mkParam 0 [(Some [115;111;109;101;80;97;114;97;109]); (Some [112;95;49;50;51;52;53;54;55;55;55;55;55;55])] (Some [87;111;110;39;116;32;103;101;116;32;114;101;109;111;118;101;100]));
    (mkParam 1 [(Some [98;117;116;84;104;105;115;79;110;101]); (Some [112;95;119;105;108;108])] None)])]);
    (mkClass [(Some [97;110;111;116;104;101;114;47;117;110;109;97;112;112;101;100;47;99;108;97;115;115]); (Some [67;95;49;50;51;52])] None [] []);
    (mkClass [(Some [110;111;119;47;116;111]); (Some [116;104;101;47;109;101;109;98;101;114;115])] None [(mkField [73] [(Some [97]); (Some [102;95])] None);
    (mkField [73] [(Some [98]); (Some [102;95])] (Some [84;104;105;115;32;111;110;101;32;100;111;101;115;110;39;116;32;103;101;116;32;114;101;109;111;118;101;100]))] [(mkMeth [40;41;86] [(Some [60;99;108;105;110;105;116;62]); (Some [60;99;108;105;110;105;116;62])] None []);
    (mkMeth [40;41;86] [(Some [60;105;110;105;116;62]); (Some [60;105;110;105;116;62])] None []);
    (mkMeth [40;41;86] [(Some [97;77;101;116;104;111;100]); (Some [109;95;49;50;51;52;53;54;55])] (Some [84;104;105;115;32;119;111;110;39;116;32;102;108;121]) []);
    (mkMeth [40;41;86] [(Some [97;77;101;116;104;111;100;50]); (Some [109;95;49;50;51])] None []);
    (mkMeth [40;73;41;86] [(Some [60;99;108;105;110;105;116;62]); (Some [60;99;108;105;110;105;116;62])] None [(mkParam 1 [(Some [112;95;49]); (Some [115;111;109;101;79;116;104;101;114;73;110;116])] None)]);
    (mkMeth [40;73;41;86] [(Some [60;105;110;105;116;62]); (Some [60;105;110;105;116;62])] None [(mkParam 0 [(Some [112;95;48]); (Some [115;111;109;101;73;110;116])] None)])]);
    (mkClass [(Some [121;101;116;47;97;110;111;116;104;101;114;47;111;110;101]); (Some [67;95;49;50;51;52;53])] None [(mkField [73] [(Some [97]); (Some [98])] None)] [])]).
Definition fixture_ns : str := [110;97;109;101;115;112;97;99;101;66].
Definition fixture_out : mappings :=
  (mkMappings [[110;97;109;101;115;112;97;99;101;65]; [110;97;109;101;115;112;97;99;101;66]] None [(mkClass [(Some [97;47;109;105;110;101;99;114;97;102;116;47;111;110;101;47;119;105;116;104;47;109;101;109;98;101;114;115]); (Some [110;101;116;47;109;105;110;101;99;114;97;102;116;47;117;110;109;97;112;112;101;100;47;67;95;98;97;114])] (Some [65;32;99;111;109;109;101;110;116]) [] []);
    (mkClass [(Some [97;110;100;47;97;110;111;116;104;101;114;47;111;110;101]); (Some [110;101;116;47;109;105;110;101;99;114;97;102;116;47;117;110;109;97;112;112;101;100;47;67;95;105;115;70;117;110;110;121])] None [] [(mkMeth [40;41;86] [(Some [97]); (Some [118;111;105;100])] None [])]);
    (mkClass [(Some [97;110;100;47;110;111;119;47;116;111]); (Some [116;104;101;47;109;101;109;98;101;114;115;47;109;101;109;98;101;114;115])] None [] [(mkMeth [40;73;73;41;86] [(Some [97]); (Some [115;97;109;112;108;101;77;101;116;104;111;100])] None [(mkParam 0 [(Some [115;111;109;101;80;97;114;97;109]); (Some [112;95;49;50;51;52;53;54;55;55;55;55;55;55])] (Some [87;111;110;39;116;32;103;101;116;32;114;101;109;111;118;101;100]))])]);
    (mkClass [(Some [110;111;119;47;116;111]); (Some [116;104;101;47;109;101;109;98;101;114;115])] None [(mkField [73] [(Some [98]); (Some [102;95])] (Some [84;104;105;115;32;111;110;101;32;100;111;101;115;110;39;116;32;103;101;116;32;114;101;109;111;118;101;100]))] [(mkMeth [40;41;86] [(Some [97;77;101;116;104;111;100]); (Some [109;95;49;50;51;52;53;54;55])] (Some [84;104;105;115;32;119;111;110;39;116;32;102;108;121]) []);
    (mkMeth [40;73;41;86] [(Some [60;99;108;105;110;105;116;62]); (Some [60;99;108;105;110;105;116;62])] None [(mkParam 1 [(Some [112;95;49]); (Some [115;111;109;101;79;116;104;101;114;73;110;116])] None)]);
    (mkMeth [40;73;41;86] [(Some [60;105;110;105;116;62]); (Some [60;105;110;105;116;62])] None [(mkParam 0 [(Some [112;95;48]); (Some [115;111;109;101;73;110;116])] None)])]);
    (mkClass [(Some [121;101;116;47;97;110;111;116;104;101;114;47;111;110;101]); (Some [67;95;49;50;51;52;53])] None [(mkField [73] [(Some [97]); (Some [98])] None)] [])]).

(* a diff exercising every clause: a removed class with an inner-class key, an added class that
   survives only through its method's removed parameter, an added field, a node that changes nothing *)
Definition example_diff : mdiff :=
  mkDiff ANone ANone
    [ mkDClass [97;47;79;36;73] (ARemove [88]) ANone [] [];
      mkDClass [66] (AAdd [89]) ANone
        [ mkDField [102] [73] (AAdd [103]) ANone ]
        [ mkDMeth [109] [40;73;41;86] (AAdd [110]) ANone [ mkDParam 12 (ARemove [120]) ANone; mkDParam 3 (AAdd [121]) ANone ] ];
      mkDClass [67] ANone (AEdit [100] [100]) [] [ mkDMeth [109] [40;41;86] (ARemove [109]) ANone [] ] ].
Definition example_diff_out : mdiff :=
  mkDiff ANone ANone
    [ mkDClass [97;47;79;36;73] (AEdit [88] [73]) ANone [] [];
      mkDClass [66] (AAdd [89]) ANone []
        [ mkDMeth [109] [40;73;41;86] (AAdd [110]) ANone [ mkDParam 12 (AEdit [120] [112;95;49;50]) ANone ] ] ].

Definition nonvacuous : Prop :=
  remove_dummy fixture_in fixture_ns = Ok fixture_out
  /\ (length (ms_classes fixture_in) = 7 /\ length (ms_classes fixture_out) = 5)%nat
  /\ wf fixture_in = true
  /\ insert_dummy example_diff = example_diff_out.

Lemma nonvacuous_holds : nonvacuous.
Proof. unfold nonvacuous. repeat split; vm_compute; reflexivity. Qed.
