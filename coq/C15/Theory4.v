(* C15, round 5: SpecializedMethods::remap on its own.

   add_specialized_methods_to_mappings detects the bridge pairs in official names and re-expresses BOTH tables of the
   SpecializedMethods value — bridge_to_specialized (every bridge with its delegate) and specialized_to_bridge (per
   delegate the one bridge kept by the tie-break) — in intermediary names before it inserts anything.  The two tables
   are not inverse to each other: several bridges may share one delegate.  This file states what `remap` does to each
   table (Model.remap_pairs, Model.remap_both, Model.remap_sm), for every remapper table R and provider list I:

     remap_pairs_exact      every pair has an image and the images of the keys are pairwise distinct  ==>  the result is
                            EXACTLY the list of images, in the same order (nothing dropped, nothing merged)
     remap_pairs_identity   a remapper that renames nothing returns the table itself
     remap_pairs_general    without injectivity: one entry per key, and the entry of b' is the image of the delegate of
                            the LAST pair whose bridge becomes b' (remap collects into a map)
     remap_pairs_err_iff    Err exactly when some component of some pair has no image
     remap_both_*           the same for the value as a whole: both tables, independently
     remap_keeps_inverse    the relation between the two tables (C15_s2b_spec) survives an injective remap
     add_uses_remap_sm      the table that reaches the insertion loop is the first component of remap_sm *)
From FB Require Import C15.Model C15.Theory C15.Theory2.

(* e' is the image of the pair e *)
Definition img (f : mref -> res mref) (e e' : mref * mref) : Prop :=
  f (fst e) = Ok (fst e') /\ f (snd e) = Ok (snd e').

Lemma remap_fold_fresh R I l : forall l' t,
  Forall2 (img (map_method_ref_obj R I)) l l' ->
  NoDup (map fst l') ->
  (forall k, In k (map fst l') -> ~ In k (map fst t)) ->
  fold_left (remap_step R I) l (Ok t) = Ok (t ++ l').
Proof.
  induction l as [|[b s] l IH]; intros l' t HF Hnd Hfresh.
  - inversion HF; subst. cbn [fold_left]. rewrite app_nil_r. reflexivity.
  - inversion HF as [|e e' l0 l0' [Hb Hs] HF']; subst. destruct e' as [b' s']. cbn [fst snd] in Hb, Hs.
    cbn [fold_left]. unfold remap_step at 2. cbn [fst snd]. rewrite Hb, Hs.
    cbn [map fst] in Hnd. inversion Hnd as [|? ? Hnotin Hnd']; subst.
    rewrite (map_put_fresh mref_eqb mref_eqb_dec).
    2:{ apply Hfresh. left. reflexivity. }
    rewrite (IH l0' (t ++ [(b', s')]) HF' Hnd').
    + rewrite <- app_assoc. reflexivity.
    + intros k Hk Hin. rewrite map_app, in_app_iff in Hin. cbn [map fst In] in Hin. destruct Hin as [Hin|[<-|[]]].
      * apply (Hfresh k); [right; exact Hk|exact Hin].
      * exact (Hnotin Hk).
Qed.

(* injective case: the table is preserved entry by entry, order included *)
Theorem remap_pairs_exact R I l l' :
  Forall2 (img (map_method_ref_obj R I)) l l' -> NoDup (map fst l') -> remap_pairs R I l = Ok l'.
Proof.
  intros HF Hnd. rewrite remap_pairs_fold. rewrite (remap_fold_fresh R I l l' [] HF Hnd); [reflexivity|].
  intros k _ [].
Qed.

Lemma Forall2_refl_on {A} (P : A -> A -> Prop) l : (forall x, In x l -> P x x) -> Forall2 P l l.
Proof. induction l as [|a l IH]; intros H; constructor; [apply H; left; reflexivity|apply IH; intros x Hx; apply H; right; exact Hx]. Qed.

Theorem remap_pairs_identity R I l :
  (forall e, In e l -> map_method_ref_obj R I (fst e) = Ok (fst e) /\ map_method_ref_obj R I (snd e) = Ok (snd e)) ->
  NoDup (map fst l) -> remap_pairs R I l = Ok l.
Proof. intros H Hnd. apply remap_pairs_exact; [apply Forall2_refl_on; exact H|exact Hnd]. Qed.

(* general case *)
Theorem remap_pairs_general R I l P :
  remap_pairs R I l = Ok P ->
  NoDup (map fst P) /\
  (forall b', map_get mref_eqb b' P = last_remap (map_method_ref_obj R I) l b') /\
  (forall b' s', In (b', s') P -> exists b s, In (b, s) l /\ map_method_ref_obj R I b = Ok b' /\ map_method_ref_obj R I s = Ok s') /\
  (forall b s, In (b, s) l -> exists b' s' s'', map_method_ref_obj R I b = Ok b' /\ map_method_ref_obj R I s = Ok s' /\ In (b', s'') P).
Proof.
  intros Hp. pose proof Hp as Hp0. rewrite remap_pairs_fold in Hp.
  assert (Hget : forall b', map_get mref_eqb b' P = last_remap (map_method_ref_obj R I) l b').
  { intros b'. rewrite (remap_fold_get _ _ _ _ _ Hp b'). cbn [map_get]. destruct (last_remap _ l b'); reflexivity. }
  split; [apply (remap_fold_NoDup _ _ _ _ _ Hp); constructor|]. split; [exact Hget|]. split.
  - intros b' s' Hi. destruct (remap_pairs_In _ _ _ _ _ Hp0 b' s' Hi) as [[]|H]. exact H.
  - intros b s Hi. destruct (remap_fold_total _ _ _ _ _ Hp b s Hi) as (b' & s' & E1 & E2).
    destruct (last_remap_hit _ l b s b' s' Hi E1 E2) as (x & Hx).
    exists b', s', x. split; [exact E1|]. split; [exact E2|].
    apply (map_get_Some_In mref_eqb mref_eqb_dec). rewrite Hget. exact Hx.
Qed.

Lemma remap_fold_ok_all R I l : forall t,
  (forall e, In e l -> exists a b, map_method_ref_obj R I (fst e) = Ok a /\ map_method_ref_obj R I (snd e) = Ok b) ->
  exists P, fold_left (remap_step R I) l (Ok t) = Ok P.
Proof.
  induction l as [|e l IH]; intros t H; [exists t; reflexivity|].
  cbn [fold_left]. unfold remap_step at 2. destruct (H e (or_introl eq_refl)) as (a & b & Ea & Eb). rewrite Ea, Eb.
  apply IH. intros e' He'. apply H. right. exact He'.
Qed.

Theorem remap_pairs_err_iff R I l :
  remap_pairs R I l = Err <->
  exists e, In e l /\ (map_method_ref_obj R I (fst e) = Err \/ map_method_ref_obj R I (snd e) = Err).
Proof.
  rewrite remap_pairs_fold. split.
  - intros He. generalize (@nil (mref * mref)) as t, He. clear He. induction l as [|e l IH]; intros t He; [discriminate|].
    cbn [fold_left] in He. unfold remap_step at 2 in He.
    destruct (map_method_ref_obj R I (fst e)) as [a|] eqn:Ea; [|exists e; split; [left; reflexivity|left; exact Ea]].
    destruct (map_method_ref_obj R I (snd e)) as [b|] eqn:Eb; [|exists e; split; [left; reflexivity|right; exact Eb]].
    destruct (IH _ He) as (e' & Hi & H). exists e'. split; [right; exact Hi|exact H].
  - intros (e & Hi & He). destruct (fold_left (remap_step R I) l (Ok [])) as [P|] eqn:E; [|reflexivity]. exfalso.
    destruct e as [b s]. destruct (remap_fold_total _ _ _ _ _ E b s Hi) as (b' & s' & E1 & E2). cbn [fst snd] in He.
    destruct He as [He|He]; congruence.
Qed.

(* ---- the value as a whole: both tables ---- *)
Theorem remap_both_ok_iff R I b2s s2b P Q :
  remap_both R I (b2s, s2b) = Ok (P, Q) <-> remap_pairs R I b2s = Ok P /\ remap_pairs R I s2b = Ok Q.
Proof.
  unfold remap_both. cbn [fst snd]. destruct (remap_pairs R I b2s) as [P0|], (remap_pairs R I s2b) as [Q0|]; split;
    try discriminate; try (intros [H1 H2]; discriminate).
  - intros [= -> ->]. auto.
  - intros [[= ->] [= ->]]. reflexivity.
Qed.

Theorem remap_both_err_iff R I b2s s2b :
  remap_both R I (b2s, s2b) = Err <-> remap_pairs R I b2s = Err \/ remap_pairs R I s2b = Err.
Proof.
  unfold remap_both. cbn [fst snd]. destruct (remap_pairs R I b2s) as [P0|], (remap_pairs R I s2b) as [Q0|]; split; auto;
    try discriminate; intros [H|H]; discriminate.
Qed.

(* both tables are preserved, entry by entry and in order, by a remap whose key images are pairwise distinct *)
Theorem remap_both_exact R I b2s s2b P Q :
  Forall2 (img (map_method_ref_obj R I)) b2s P -> NoDup (map fst P) ->
  Forall2 (img (map_method_ref_obj R I)) s2b Q -> NoDup (map fst Q) ->
  remap_both R I (b2s, s2b) = Ok (P, Q).
Proof.
  intros H1 N1 H2 N2. apply remap_both_ok_iff. split; apply remap_pairs_exact; assumption.
Qed.

(* "nothing is lost": every bridge of bridge_to_specialized is a key of the remapped table and every delegate of
   specialized_to_bridge is a key of the remapped table — with no hypothesis on the remapper *)
Theorem remap_both_keeps_keys R I b2s s2b P Q :
  remap_both R I (b2s, s2b) = Ok (P, Q) ->
  (forall b s, In (b, s) b2s -> exists b' x, map_method_ref_obj R I b = Ok b' /\ In (b', x) P) /\
  (forall s b, In (s, b) s2b -> exists s' x, map_method_ref_obj R I s = Ok s' /\ In (s', x) Q).
Proof.
  intros H. apply remap_both_ok_iff in H. destruct H as [Hp Hq].
  destruct (remap_pairs_general _ _ _ _ Hp) as (_ & _ & _ & Kp). destruct (remap_pairs_general _ _ _ _ Hq) as (_ & _ & _ & Kq).
  split.
  - intros b s Hi. destruct (Kp b s Hi) as (b' & s' & x & E1 & _ & Hx). exists b', x. auto.
  - intros s b Hi. destruct (Kq s b Hi) as (s' & b' & x & E1 & _ & Hx). exists s', x. auto.
Qed.

(* the relation between the two tables that detection establishes (C15_s2b_spec) survives: an entry of the remapped
   specialized_to_bridge names a bridge of the remapped bridge_to_specialized with that delegate (when no two bridges
   of the jar are merged by the remapper), and every delegate of a remapped pair has an entry (always) *)
Theorem remap_keeps_inverse J R I b2s s2b P Q :
  get_specialized J = Ok (b2s, s2b) ->
  remap_both R I (b2s, s2b) = Ok (P, Q) ->
  (forall b1 s1 b2 s2 x, In (b1, s1) b2s -> In (b2, s2) b2s ->
     map_method_ref_obj R I b1 = Ok x -> map_method_ref_obj R I b2 = Ok x -> b1 = b2) ->
  (forall s' b', In (s', b') Q -> In (b', s') P) /\
  (forall b' s', In (b', s') P -> exists b'', In (s', b'') Q) /\
  NoDup (map fst P) /\ NoDup (map fst Q).
Proof.
  intros Hg H Hinj. apply remap_both_ok_iff in H. destruct H as [Hp Hq].
  destruct (remap_pairs_general _ _ _ _ Hp) as (Np & Gp & Sp & Kp).
  destruct (remap_pairs_general _ _ _ _ Hq) as (Nq & Gq & Sq & Kq).
  destruct (s2b_spec J b2s s2b Hg) as (I1 & I2 & _).
  split; [|split; [|split; assumption]].
  - intros s' b' Hi. destruct (Sq _ _ Hi) as (s & b & Hsb & Es & Eb). pose proof (I1 _ _ Hsb) as Hbs.
    destruct (last_remap_hit _ b2s b s b' s' Hbs Eb Es) as (x & Hx).
    apply (map_get_Some_In mref_eqb mref_eqb_dec). rewrite Gp, Hx. f_equal.
    destruct (last_remap_Some _ _ _ _ Hx) as (l1 & b0 & s0 & l2 & El & F1 & F2 & _).
    assert (Hin0 : In (b0, s0) b2s) by (rewrite El; apply in_app_iff; right; left; reflexivity).
    assert (b0 = b) by (exact (Hinj b0 s0 b s b' Hin0 Hbs F1 Eb)). subst b0.
    assert (s0 = s).
    { apply (bridge_pair_fun J b); apply (bridge_iff J _ _ Hg); assumption. }
    subst s0. congruence.
  - intros b' s' Hi. destruct (Sp _ _ Hi) as (b & s & Hbs & Eb & Es). destruct (I2 _ _ Hbs) as (b0 & Hsb).
    destruct (Kq s b0 Hsb) as (s1 & b1 & x & E1 & _ & Hx). exists x. congruence.
Qed.

(* ---- the function the build calls goes through remap_sm ---- *)
Theorem add_uses_remap_sm J cal libs M M' :
  add_specialized J cal libs M = Ok M' ->
  exists P Q, remap_sm J cal libs = Ok (P, Q) /\ add_pairs (named_ref J cal libs M) P M = Ok M'.
Proof.
  unfold add_specialized, remap_sm, remap_both, named_ref, cal_remapper, named_remapper.
  destruct (ns_index s_official (ms_ns cal) 0) as [o|]; [|discriminate].
  destruct (ns_index s_intermediary (ms_ns cal) 0) as [i|]; [|discriminate].
  destruct (remapper_b cal o i) as [Rc|]; [|discriminate].
  destruct (ns_index s_intermediary (ms_ns M) 0) as [i2|]; [|discriminate].
  destruct (ns_index s_named (ms_ns M) 0) as [n2|]; [|discriminate].
  destruct (remapper_b M i2 n2) as [Rn|]; [|discriminate].
  destruct (get_specialized J) as [[b2s s2b]|]; [|discriminate]. cbn [fst snd].
  destruct (remap_pairs Rc (map prov_of_jar (J :: libs)) b2s) as [P|]; [|discriminate].
  destruct (remap_pairs Rc (map prov_of_jar (J :: libs)) s2b) as [Q|]; [|discriminate].
  intros Ha. exists P, Q. split; [reflexivity|exact Ha].
Qed.

Theorem remap_sm_err_add_err J cal libs M : remap_sm J cal libs = Err -> add_specialized J cal libs M = Err.
Proof.
  unfold add_specialized, remap_sm, remap_both.
  destruct (ns_index s_official (ms_ns cal) 0) as [o|]; [|reflexivity].
  destruct (ns_index s_intermediary (ms_ns cal) 0) as [i|]; [|reflexivity].
  destruct (remapper_b cal o i) as [Rc|]; [|reflexivity].
  destruct (ns_index s_intermediary (ms_ns M) 0) as [i2|]; [|reflexivity].
  destruct (ns_index s_named (ms_ns M) 0) as [n2|]; [|reflexivity].
  destruct (remapper_b M i2 n2) as [Rn|]; [|reflexivity].
  destruct (get_specialized J) as [[b2s s2b]|]; [|reflexivity]. cbn [fst snd].
  destruct (remap_pairs Rc (map prov_of_jar (J :: libs)) b2s) as [P|]; [|reflexivity].
  destruct (remap_pairs Rc (map prov_of_jar (J :: libs)) s2b) as [Q|]; [discriminate|reflexivity].
Qed.

(* remap_sm in terms of the detected tables and the calamus lookup cal_ref *)
Theorem remap_sm_spec J cal libs P Q :
  remap_sm J cal libs = Ok (P, Q) ->
  exists b2s s2b, get_specialized J = Ok (b2s, s2b) /\
    NoDup (map fst P) /\ NoDup (map fst Q) /\
    (forall k, map_get mref_eqb k P = last_remap (cal_ref J cal libs) b2s k) /\
    (forall k, map_get mref_eqb k Q = last_remap (cal_ref J cal libs) s2b k) /\
    (forall b s, In (b, s) b2s -> exists b' x, cal_ref J cal libs b = Ok b' /\ In (b', x) P) /\
    (forall s b, In (s, b) s2b -> exists s' x, cal_ref J cal libs s = Ok s' /\ In (s', x) Q).
Proof.
  unfold remap_sm, cal_ref, cal_remapper.
  destruct (ns_index s_official (ms_ns cal) 0) as [o|]; [|discriminate].
  destruct (ns_index s_intermediary (ms_ns cal) 0) as [i|]; [|discriminate].
  destruct (remapper_b cal o i) as [Rc|]; [|discriminate].
  destruct (get_specialized J) as [[b2s s2b]|]; [|discriminate].
  intros H. exists b2s, s2b. split; [reflexivity|].
  destruct (remap_both_keeps_keys _ _ _ _ _ _ H) as (K1 & K2).
  apply remap_both_ok_iff in H. destruct H as [Hp Hq].
  destruct (remap_pairs_general _ _ _ _ Hp) as (Np & Gp & _ & _).
  destruct (remap_pairs_general _ _ _ _ Hq) as (Nq & Gq & _ & _).
  repeat split; assumption.
Qed.

(* ---- non-vacuity.  Two bridges share one delegate (class A and its subclass B each carry a flagged bridge
   m(Object)V that invokes A.m(LI;)V): bridge_to_specialized has two entries, specialized_to_bridge one (A's bridge,
   the one higher in the hierarchy).  Calamus renames A -> net/C_0 with m(Object)V -> m_1, m(LI;)V -> m_2, and
   B -> net/C_1 with a NAME-LESS entry for the bridge (no intermediary name: the name is inherited from A's row).
   remap keeps both entries of the first table and the one entry of the second. *)
Definition x_A : str := [65]. Definition x_B : str := [66]. Definition x_I : str := [73].
Definition x_m : str := [109].
Definition x_dI : str := [40; 76; 73; 59; 41; 86].                                   (* (LI;)V *)
Definition x_C0 : str := [110; 101; 116; 47; 67; 95; 48].                             (* net/C_0 *)
Definition x_C1 : str := [110; 101; 116; 47; 67; 95; 49].                             (* net/C_1 *)
Definition x_m1 : str := [109; 95; 49]. Definition x_m2 : str := [109; 95; 50].
Definition acc_bridge := mkAcc false false false true true.
Definition x_jar : jar :=
  [mkJC x_A (Some s_object) []
     [mkJM x_m x_dI acc_plain (Some [IOther]);
      mkJM x_m d_obj acc_bridge (Some [IOther; IVirtual (x_A, (x_m, x_dI)); IOther])];
   mkJC x_B (Some x_A) []
     [mkJM x_m d_obj acc_bridge (Some [IOther; ISpecial (x_A, (x_m, x_dI)) false; IOther])];
   mkJC x_I (Some s_object) [] []].
Definition x_cal : mappings :=
  mkMappings [s_official; s_intermediary] None
    [mkClass [Some x_A; Some x_C0] None [] [mkMeth d_obj [Some x_m; Some x_m1] None []; mkMeth x_dI [Some x_m; Some x_m2] None []];
     mkClass [Some x_B; Some x_C1] None [] [mkMeth d_obj [Some x_m; None] None []]].
Definition x_b2s : pairs := [((x_A, (x_m, d_obj)), (x_A, (x_m, x_dI))); ((x_B, (x_m, d_obj)), (x_A, (x_m, x_dI)))].
Definition x_s2b : pairs := [((x_A, (x_m, x_dI)), (x_A, (x_m, d_obj)))].
Definition x_P : pairs := [((x_C0, (x_m1, d_obj)), (x_C0, (x_m2, x_dI))); ((x_C1, (x_m1, d_obj)), (x_C0, (x_m2, x_dI)))].
Definition x_Q : pairs := [((x_C0, (x_m2, x_dI)), (x_C0, (x_m1, d_obj)))].

Definition remap_example : Prop :=
  get_specialized x_jar = Ok (x_b2s, x_s2b) /\
  remap_sm x_jar x_cal [] = Ok (x_P, x_Q) /\
  Forall2 (img (cal_ref x_jar x_cal [])) x_b2s x_P /\ NoDup (map fst x_P) /\
  Forall2 (img (cal_ref x_jar x_cal [])) x_s2b x_Q /\ NoDup (map fst x_Q) /\
  (* the identity: an empty calamus set renames nothing *)
  remap_sm x_jar ex_cal [] = Ok (x_b2s, x_s2b) /\
  (* inverting the second table would lose B's bridge *)
  length x_P = 2%nat /\ length x_Q = 1%nat.

Lemma NoDup_by_eqb (l : list mref) : nodupb mref_eqb l = true -> NoDup l.
Proof. apply (nodupb_NoDup mref_eqb). exact mref_eqb_eq. Qed.

Lemma remap_example_holds : remap_example.
Proof.
  unfold remap_example.
  split; [vm_compute; reflexivity|]. split; [vm_compute; reflexivity|].
  split; [repeat constructor; vm_compute; reflexivity|].
  split; [apply NoDup_by_eqb; vm_compute; reflexivity|].
  split; [repeat constructor; vm_compute; reflexivity|].
  split; [apply NoDup_by_eqb; vm_compute; reflexivity|].
  split; [vm_compute; reflexivity|]. split; reflexivity.
Qed.

(* ---- entries without a name in the target (or source) namespace name nothing ----
   Mappings::remapper_b registers a member only when it has a name in BOTH namespaces of the remapper, and a class row
   only when the class has: a name-less entry (legal tiny v2: it carries a parameter name or a javadoc) leaves the
   table as it is, so a lookup that finds nothing else in the owner's row goes on to the super types. *)
Theorem nameless_method_ignored Tf Tt from to t m :
  nth_name (m_names m) from = None \/ nth_name (m_names m) to = None ->
  add_method_row Tf Tt from to (Ok t) m = Ok t.
Proof.
  unfold add_method_row. intros [H|H]; rewrite H; [reflexivity|]. destruct (nth_name (m_names m) from); reflexivity.
Qed.

Theorem nameless_class_ignored Tf Tt from to R c :
  nth_name (c_names c) from = None \/ nth_name (c_names c) to = None ->
  add_class_row Tf Tt from to (Ok R) c = Ok R.
Proof.
  unfold add_class_row. intros [H|H]; rewrite H; [reflexivity|]. destruct (nth_name (c_names c) from); reflexivity.
Qed.

(* a row whose table lacks the key does not answer: the super types are asked, in order *)
Theorem lookup_goes_on R I owner k f :
  (forall cl, map_get str_eqb owner R = Some cl -> map_get key_eqb k (snd cl) = None) ->
  map_method_fail (S f) R I owner k
  = match supers I owner with
    | Some ss => first_some (fun s => map_method_fail f R I s k) ss
    | None => Ok None
    end.
Proof.
  intros H. change (map_method_fail (S f) R I owner k) with
    (match (match map_get str_eqb owner R with Some cl => map_get key_eqb k (snd cl) | None => None end) with
     | Some v => Ok (Some v)
     | None => match supers I owner with
               | Some ss => first_some (fun s => map_method_fail f R I s k) ss
               | None => Ok None
               end
     end).
  destruct (map_get str_eqb owner R) as [cl|] eqn:E.
  - rewrite (H cl eq_refl). reflexivity.
  - reflexivity.
Qed.

(* pinned, end to end: Sub extends Mid extends Base; the bridge Sub.m(Object)V forwards to Sub.m(Integer)V.  The named
   mappings hold a NAME-LESS entry for the bridge in Sub's own row and the real name (setData) in Base's row: the
   delegate is named setData, the name-less entry stays as it is. *)
Definition nl_Base : str := [66; 97; 115; 101]. Definition nl_Mid : str := [77; 105; 100]. Definition nl_Sub : str := [83; 117; 98].
Definition nl_C1 : str := [110; 101; 116; 47; 67; 95; 49]. Definition nl_C2 : str := [110; 101; 116; 47; 67; 95; 50].
Definition nl_C3 : str := [110; 101; 116; 47; 67; 95; 51].
Definition nl_pBase : str := [112; 47; 66]. Definition nl_pMid : str := [112; 47; 77]. Definition nl_pSub : str := [112; 47; 83].
Definition nl_setData : str := [115; 101; 116; 68; 97; 116; 97].
Definition nl_value : str := [118; 97; 108; 117; 101].
Definition nl_jar : jar :=
  [mkJC nl_Base (Some s_object) [] [mkJM x_m d_obj acc_plain (Some [IOther])];
   mkJC nl_Mid (Some nl_Base) [] [];
   mkJC nl_Sub (Some nl_Mid) []
     [mkJM x_m d_int acc_plain (Some [IOther]);
      mkJM x_m d_obj acc_bridge (Some [IOther; IVirtual (nl_Sub, (x_m, d_int)); IOther])]].
Definition nl_cal : mappings :=
  mkMappings [s_official; s_intermediary] None
    [mkClass [Some nl_Base; Some nl_C1] None [] [mkMeth d_obj [Some x_m; Some x_m1] None []];
     mkClass [Some nl_Mid; Some nl_C2] None [] [];
     mkClass [Some nl_Sub; Some nl_C3] None [] [mkMeth d_int [Some x_m; Some x_m2] None []]].
Definition nl_nameless : meth := mkMeth d_obj [Some x_m1; None] None [mkParam 1 [None; Some nl_value] None].
Definition nl_maps : mappings :=
  mkMappings [s_intermediary; s_named] None
    [mkClass [Some nl_C1; Some nl_pBase] None [] [mkMeth d_obj [Some x_m1; Some nl_setData] None []];
     mkClass [Some nl_C2; Some nl_pMid] None [] [];
     mkClass [Some nl_C3; Some nl_pSub] None [] [nl_nameless]].
Definition nl_result : mappings :=
  mkMappings [s_intermediary; s_named] None
    [mkClass [Some nl_C1; Some nl_pBase] None [] [mkMeth d_obj [Some x_m1; Some nl_setData] None []];
     mkClass [Some nl_C2; Some nl_pMid] None [] [];
     mkClass [Some nl_C3; Some nl_pSub] None [] [nl_nameless; mkMeth d_int [Some x_m2; Some nl_setData] None []]].
Definition nameless_example : Prop :=
  wf nl_maps = true /\ wf nl_cal = true /\
  add_specialized nl_jar nl_cal [] nl_maps = Ok nl_result /\
  named_ref nl_jar nl_cal [] nl_maps (nl_C3, (x_m1, d_obj)) = Ok nl_setData.
Lemma nameless_example_holds : nameless_example.
Proof. unfold nameless_example. repeat split; vm_compute; reflexivity. Qed.

(* ---- bridge chains: the name a delegate receives is looked up in the GIVEN mappings ----
   add_specialized computes every name with named_ref J cal libs M, M being the mapping set it was handed (the remapper
   is built before the loop and never sees the clone the loop writes to; C15_add_specialized_exact / C15_bridge_gets_name
   state the frame with named_ref ... M).  Pinned on a chain A -> B -> C in one class: A = get()Object (named nameA)
   forwards to B = get()Number (named nameB), itself a bridge that forwards to C = get()Integer.  B, as A's delegate,
   receives nameA; C receives nameB — the name the GIVEN mappings give to B, not the name written for B a moment
   earlier — whichever of A and B comes first in the class file. *)
Definition ch_E : str := [69]. Definition ch_get : str := [103; 101; 116].
Definition ch_dInt : str := [40; 41; 76; 106; 97; 118; 97; 47; 108; 97; 110; 103; 47; 73; 110; 116; 101; 103; 101; 114; 59].   (* ()Ljava/lang/Integer; *)
Definition ch_dNum : str := [40; 41; 76; 106; 97; 118; 97; 47; 108; 97; 110; 103; 47; 78; 117; 109; 98; 101; 114; 59].           (* ()Ljava/lang/Number; *)
Definition ch_dObj : str := [40; 41; 76; 106; 97; 118; 97; 47; 108; 97; 110; 103; 47; 79; 98; 106; 101; 99; 116; 59].           (* ()Ljava/lang/Object; *)
Definition ch_nameA : str := [110; 97; 109; 101; 65]. Definition ch_nameB : str := [110; 97; 109; 101; 66].
Definition ch_A : jmeth := mkJM ch_get ch_dObj acc_bridge (Some [IOther; IVirtual (ch_E, (ch_get, ch_dNum)); IOther]).
Definition ch_B : jmeth := mkJM ch_get ch_dNum acc_bridge (Some [IOther; IVirtual (ch_E, (ch_get, ch_dInt)); IOther]).
Definition ch_C : jmeth := mkJM ch_get ch_dInt acc_plain (Some [IOther]).
Definition ch_jar_AB : jar := [mkJC ch_E (Some s_object) [] [ch_A; ch_B; ch_C]].
Definition ch_jar_BA : jar := [mkJC ch_E (Some s_object) [] [ch_C; ch_B; ch_A]].
Definition ch_maps : mappings :=
  mkMappings [s_intermediary; s_named] None
    [mkClass [Some ch_E; Some ch_E] None []
       [mkMeth ch_dObj [Some ch_get; Some ch_nameA] None []; mkMeth ch_dNum [Some ch_get; Some ch_nameB] None []]].
Definition ch_result : mappings :=
  mkMappings [s_intermediary; s_named] None
    [mkClass [Some ch_E; Some ch_E] None []
       [mkMeth ch_dObj [Some ch_get; Some ch_nameA] None [];
        mkMeth ch_dNum [Some ch_get; Some ch_nameA] None [];
        mkMeth ch_dInt [Some ch_get; Some ch_nameB] None []]].
Definition chain_example : Prop :=
  add_specialized ch_jar_AB ex_cal [] ch_maps = Ok ch_result /\
  add_specialized ch_jar_BA ex_cal [] ch_maps = Ok ch_result /\
  named_ref ch_jar_AB ex_cal [] ch_maps (ch_E, (ch_get, ch_dNum)) = Ok ch_nameB /\
  named_ref ch_jar_AB ex_cal [] ch_maps (ch_E, (ch_get, ch_dObj)) = Ok ch_nameA.
Lemma chain_example_holds : chain_example.
Proof. unfold chain_example. repeat split; vm_compute; reflexivity. Qed.
