(* C15 theory, part 1: the association-list operations, the index tables against their
   declarative reading of the jar, the work-list against the transitive closure, the bridge
   predicate, and the collecting loop (bridge_iff and its near-miss corollaries). *)
From FB Require Import C15.Model.
From Coq Require Import Relations.Relation_Operators.

(* ------------------------------------------------------------------ *)
(* boolean equalities *)
Lemma key2_eqb_eq (a b : str * str) : key2_eqb a b = true <-> a = b.
Proof.
  destruct a as [a1 a2], b as [b1 b2]. unfold key2_eqb. cbn [fst snd].
  rewrite andb_true_iff, !str_eqb_eq. split; [intros [-> ->]; reflexivity|intros [= -> ->]; auto].
Qed.

Lemma mref_eqb_eq (a b : mref) : mref_eqb a b = true <-> a = b.
Proof.
  destruct a as [a1 a2], b as [b1 b2]. unfold mref_eqb. cbn [fst snd].
  rewrite andb_true_iff, str_eqb_eq, key2_eqb_eq. split; [intros [-> ->]; reflexivity|intros [= -> ->]; auto].
Qed.

Definition eq_dec_b {A} (eqb : A -> A -> bool) : Prop := forall a b, eqb a b = true <-> a = b.

Lemma str_eqb_dec : eq_dec_b str_eqb. Proof. exact str_eqb_eq. Qed.
Lemma mref_eqb_dec : eq_dec_b mref_eqb. Proof. exact mref_eqb_eq. Qed.
Lemma key_eqb_dec : eq_dec_b key_eqb. Proof. exact key2_eqb_eq. Qed.

Lemma eqb_refl_of {A} (eqb : A -> A -> bool) : eq_dec_b eqb -> forall a, eqb a a = true.
Proof. intros H a. apply H. reflexivity. Qed.

Lemma eqb_false_of {A} (eqb : A -> A -> bool) : eq_dec_b eqb -> forall a b, eqb a b = false <-> a <> b.
Proof.
  intros H a b. split.
  - intros E Hab. apply H in Hab. congruence.
  - intros Hn. destruct (eqb a b) eqn:E; [|reflexivity]. apply H in E. contradiction.
Qed.

(* ------------------------------------------------------------------ *)
(* sets *)
Lemma set_mem_In {A} (eqb : A -> A -> bool) (H : eq_dec_b eqb) x l : set_mem eqb x l = true <-> In x l.
Proof.
  unfold set_mem. rewrite existsb_exists. split.
  - intros (y & Hy & E). apply H in E. subst. exact Hy.
  - intros Hx. exists x. split; [exact Hx|apply (eqb_refl_of eqb H)].
Qed.

Lemma set_add_In {A} (eqb : A -> A -> bool) (H : eq_dec_b eqb) x y l : In y (set_add eqb x l) <-> y = x \/ In y l.
Proof.
  unfold set_add. destruct (set_mem eqb x l) eqn:E.
  - apply (set_mem_In eqb H) in E. split; [auto|intros [->|Hy]; auto].
  - rewrite in_app_iff. cbn [In]. split; [intros [Hy|[<-|[]]]; auto|intros [->|Hy]; auto].
Qed.

Lemma set_add_NoDup {A} (eqb : A -> A -> bool) (H : eq_dec_b eqb) x l : NoDup l -> NoDup (set_add eqb x l).
Proof.
  intros Hn. unfold set_add. destruct (set_mem eqb x l) eqn:E; [exact Hn|].
  assert (Hx : ~ In x l) by (intros Hx; apply (set_mem_In eqb H) in Hx; congruence).
  clear E. induction l as [|a l IH]; cbn [app].
  - constructor; [intros []|constructor].
  - inversion Hn as [|? ? Ha Hl]; subst. constructor.
    + rewrite in_app_iff. cbn [In]. intros [Hin|[->|[]]]; [contradiction|apply Hx; left; reflexivity].
    + apply IH; [exact Hl|intros Hin; apply Hx; right; exact Hin].
Qed.

Lemma set_extend_In {A} (eqb : A -> A -> bool) (H : eq_dec_b eqb) xs y l :
  In y (set_extend eqb xs l) <-> In y xs \/ In y l.
Proof.
  unfold set_extend. revert l. induction xs as [|x xs IH]; intros l; cbn [fold_left In].
  - tauto.
  - rewrite IH, (set_add_In eqb H). split; [intros [Hy|[->|Hy]]; auto|intros [[->|Hy]|Hy]; auto].
Qed.

Lemma set_extend_NoDup {A} (eqb : A -> A -> bool) (H : eq_dec_b eqb) xs l : NoDup l -> NoDup (set_extend eqb xs l).
Proof.
  unfold set_extend. revert l. induction xs as [|x xs IH]; intros l Hn; cbn [fold_left]; [exact Hn|].
  apply IH, (set_add_NoDup eqb H), Hn.
Qed.

(* ------------------------------------------------------------------ *)
(* maps *)
Lemma map_get_put_same {K V} (eqb : K -> K -> bool) (H : eq_dec_b eqb) (k : K) (v : V) l :
  map_get eqb k (map_put eqb k v l) = Some v.
Proof.
  induction l as [|[k' v'] l IH]; cbn [map_put map_get].
  - rewrite (eqb_refl_of eqb H). reflexivity.
  - destruct (eqb k k') eqn:E; cbn [map_get]; rewrite E; [reflexivity|exact IH].
Qed.

Lemma map_get_put_other {K V} (eqb : K -> K -> bool) (H : eq_dec_b eqb) (k k2 : K) (v : V) l :
  k2 <> k -> map_get eqb k2 (map_put eqb k v l) = map_get eqb k2 l.
Proof.
  intros Hn. induction l as [|[k' v'] l IH]; cbn [map_put map_get].
  - assert (E : eqb k2 k = false) by (apply (eqb_false_of eqb H); exact Hn). rewrite E. reflexivity.
  - destruct (eqb k k') eqn:E; cbn [map_get].
    + apply H in E. subst k'. assert (E2 : eqb k2 k = false) by (apply (eqb_false_of eqb H); exact Hn).
      rewrite E2. reflexivity.
    + destruct (eqb k2 k'); [reflexivity|exact IH].
Qed.

Lemma map_get_upd_same {K V} (eqb : K -> K -> bool) (H : eq_dec_b eqb) (k : K) (d : V) f l :
  map_get eqb k (map_upd eqb k d f l) = Some (f (match map_get eqb k l with Some v => v | None => d end)).
Proof.
  induction l as [|[k' v'] l IH]; cbn [map_upd map_get].
  - rewrite (eqb_refl_of eqb H). reflexivity.
  - destruct (eqb k k') eqn:E; cbn [map_get]; rewrite E; [reflexivity|exact IH].
Qed.

Lemma map_get_upd_other {K V} (eqb : K -> K -> bool) (H : eq_dec_b eqb) (k k2 : K) (d : V) f l :
  k2 <> k -> map_get eqb k2 (map_upd eqb k d f l) = map_get eqb k2 l.
Proof.
  intros Hn. induction l as [|[k' v'] l IH]; cbn [map_upd map_get].
  - assert (E : eqb k2 k = false) by (apply (eqb_false_of eqb H); exact Hn). rewrite E. reflexivity.
  - destruct (eqb k k') eqn:E; cbn [map_get].
    + apply H in E. subst k'. assert (E2 : eqb k2 k = false) by (apply (eqb_false_of eqb H); exact Hn).
      rewrite E2. reflexivity.
    + destruct (eqb k2 k'); [reflexivity|exact IH].
Qed.

(* keys of a map built by put: pairwise distinct, so membership of a pair is a lookup *)
Lemma map_put_keys {K V} (eqb : K -> K -> bool) (H : eq_dec_b eqb) (k : K) (v : V) l k2 :
  In k2 (map fst (map_put eqb k v l)) <-> k2 = k \/ In k2 (map fst l).
Proof.
  induction l as [|[k' v'] l IH]; cbn [map_put map In fst].
  - split; [intros [<-|[]]; auto|intros [->|[]]; auto].
  - destruct (eqb k k') eqn:E; cbn [map In fst].
    + apply H in E. subst k'. split; [intros [<-|Hi]; auto|intros [->|[<-|Hi]]; auto].
    + rewrite IH. split; [intros [<-|[->|Hi]]; auto|intros [->|[<-|Hi]]; auto].
Qed.

Lemma map_put_NoDup {K V} (eqb : K -> K -> bool) (H : eq_dec_b eqb) (k : K) (v : V) l :
  NoDup (map fst l) -> NoDup (map fst (map_put eqb k v l)).
Proof.
  induction l as [|[k' v'] l IH]; cbn [map_put map fst]; intros Hn.
  - constructor; [intros []|constructor].
  - inversion Hn as [|? ? Ha Hl]; subst. destruct (eqb k k') eqn:E; cbn [map fst].
    + constructor; assumption.
    + constructor; [|apply IH; exact Hl].
      rewrite (map_put_keys eqb H). intros [->|Hi]; [|contradiction].
      rewrite (eqb_refl_of eqb H) in E. discriminate.
Qed.

Lemma map_get_In {K V} (eqb : K -> K -> bool) (H : eq_dec_b eqb) (k : K) (v : V) l :
  NoDup (map fst l) -> (In (k, v) l <-> map_get eqb k l = Some v).
Proof.
  induction l as [|[k' v'] l IH]; cbn [map fst map_get In]; intros Hn.
  - split; [intros []|discriminate].
  - inversion Hn as [|? ? Ha Hl]; subst. destruct (eqb k k') eqn:E.
    + apply H in E. subst k'. split.
      * intros [[= ->]|Hi]; [reflexivity|]. exfalso. apply Ha. apply (in_map fst) in Hi. exact Hi.
      * intros [= ->]. left. reflexivity.
    + rewrite <- (IH Hl). split; [intros [[= -> ->]|Hi]; [|exact Hi]|auto].
      rewrite (eqb_refl_of eqb H) in E. discriminate.
Qed.

Lemma map_get_Some_In {K V} (eqb : K -> K -> bool) (H : eq_dec_b eqb) (k : K) (v : V) l :
  map_get eqb k l = Some v -> In (k, v) l.
Proof.
  induction l as [|[k' v'] l IH]; cbn [map_get In]; [discriminate|].
  destruct (eqb k k') eqn:E; [|auto]. apply H in E. subst. intros [= ->]. left. reflexivity.
Qed.
Lemma map_put_fresh {K V} (eqb : K -> K -> bool) (H : eq_dec_b eqb) (k : K) (v : V) l :
  ~ In k (map fst l) -> map_put eqb k v l = l ++ [(k, v)].
Proof.
  induction l as [|[k' v'] l IH]; cbn [map_put map fst In app]; intros Hn; [reflexivity|].
  destruct (eqb k k') eqn:E.
  - apply H in E. subst. exfalso. apply Hn. left. reflexivity.
  - f_equal. apply IH. intros Hi. apply Hn. right. exact Hi.
Qed.

Lemma fold_step_Err fuel cls P C refs l : fold_left (step fuel cls P C refs) l Err = Err.
Proof. induction l as [|e l IH]; cbn [fold_left step]; [reflexivity|exact IH]. Qed.

Lemma loop_spec fuel cls P C refs l : forall b2s0 s2b0 b2s s2b,
  NoDup (map fst l) -> (forall k, In k (map fst b2s0) -> ~ In k (map fst l)) ->
  fold_left (step fuel cls P C refs) l (Ok (b2s0, s2b0)) = Ok (b2s, s2b) ->
  forall b s, In (b, s) b2s <-> In (b, s) b2s0 \/ exists a, In (b, a) l /\ decide fuel cls P refs b a = Ok (Some s).
Proof.
  induction l as [|[b1 a1] l IH]; intros b2s0 s2b0 b2s s2b Hnd Hdisj Hf b s.
  - cbn [fold_left] in Hf. injection Hf as -> ->. split; [auto|intros [Hi|(a & [] & _)]; exact Hi].
  - cbn [map fst] in Hnd. inversion Hnd as [|? ? Hb1 Hnd']; subst.
    cbn [fold_left] in Hf. unfold step at 2 in Hf. cbn [fst snd] in Hf.
    destruct (decide fuel cls P refs b1 a1) as [[s1|]|] eqn:Ed.
    + destruct (match map_get mref_eqb s1 s2b0 with Some other => get_higher fuel C b1 other | None => Ok b1 end) as [keep|] eqn:Ek.
      2:{ rewrite fold_step_Err in Hf. discriminate. }
      assert (Hfresh : ~ In b1 (map fst b2s0)).
      { intros Hi. apply (Hdisj _ Hi). left. reflexivity. }
      rewrite (map_put_fresh mref_eqb mref_eqb_dec _ _ _ Hfresh) in Hf.
      assert (HD : forall k, In k (map fst (b2s0 ++ [(b1, s1)])) -> ~ In k (map fst l)).
      { intros k. rewrite map_app, in_app_iff. cbn [map fst In]. intros [Hi|[<-|[]]].
        -- intros Hk. apply (Hdisj _ Hi). right. exact Hk.
        -- exact Hb1. }
      rewrite (IH _ _ _ _ Hnd' HD Hf).
      * rewrite in_app_iff. cbn [In]. split.
        -- intros [[Hi|[[= <- <-]|[]]]|(a & Hi & Hd)].
           ++ left. exact Hi.
           ++ right. exists a1. split; [left; reflexivity|exact Ed].
           ++ right. exists a. split; [right; exact Hi|exact Hd].
        -- intros [Hi|(a & [[= <- <-]|Hi] & Hd)].
           ++ left. left. exact Hi.
           ++ left. right. left. rewrite Ed in Hd. injection Hd as ->. reflexivity.
           ++ right. exists a. split; [exact Hi|exact Hd].
    + assert (HD : forall k, In k (map fst b2s0) -> ~ In k (map fst l)).
      { intros k Hi Hk. apply (Hdisj _ Hi). right. exact Hk. }
      rewrite (IH _ _ _ _ Hnd' HD Hf).
      * split.
        -- intros [Hi|(a & Hi & Hd)]; [left; exact Hi|right; exists a; split; [right; exact Hi|exact Hd]].
        -- intros [Hi|(a & [[= <- <-]|Hi] & Hd)]; [left; exact Hi| |right; exists a; split; assumption].
           rewrite Ed in Hd. discriminate.
    + rewrite fold_step_Err in Hf. discriminate.
Qed.
(* every element of the loop was decided without running out of fuel *)
Lemma loop_ok fuel cls P C refs l : forall st r,
  fold_left (step fuel cls P C refs) l st = Ok r ->
  forall b a, In (b, a) l -> exists o, decide fuel cls P refs b a = Ok o.
Proof.
  induction l as [|[b1 a1] l IH]; intros st r Hf b a Hi; [destruct Hi|].
  cbn [fold_left] in Hf. destruct Hi as [[= -> ->]|Hi]; [|exact (IH _ _ Hf _ _ Hi)].
  destruct st as [[b2s0 s2b0]|]; [|cbn [step] in Hf; rewrite fold_step_Err in Hf; discriminate].
  unfold step at 2 in Hf. cbn [fst snd] in Hf.
  destruct (decide fuel cls P refs b a) as [o|] eqn:Ed; [exists o; reflexivity|].
  rewrite fold_step_Err in Hf. discriminate.
Qed.

Lemma fold_put_NoDup {K V E} (eqb : K -> K -> bool) (H : eq_dec_b eqb) (f : E -> K) (g : E -> V) (l : list E) : forall init,
  NoDup (map fst init) -> NoDup (map fst (fold_left (fun ms e => map_put eqb (f e) (g e) ms) l init)).
Proof.
  induction l as [|e l IH]; intros init Hn; cbn [fold_left]; [exact Hn|].
  apply IH, (map_put_NoDup eqb H), Hn.
Qed.

Lemma ix_methods_NoDup J : NoDup (map fst (ix_methods J)).
Proof. unfold ix_methods. apply (fold_put_NoDup mref_eqb mref_eqb_dec). constructor. Qed.

(* the collecting loop at the level of the index *)
Lemma bridge_index J b2s s2b :
  get_specialized J = Ok (b2s, s2b) ->
  forall b s, In (b, s) b2s <->
    exists a, map_get mref_eqb b (ix_methods J) = Some a /\
              decide (jar_fuel J) (ix_classes J) (ix_parents J) (ix_refs J) b a = Ok (Some s).
Proof.
  unfold get_specialized. intros Hf b s.
  rewrite (loop_spec _ _ _ _ _ _ _ _ _ _ (ix_methods_NoDup J) (fun k (Hk : In k (map fst (@nil (mref * mref)))) => match Hk with end) Hf).
  cbn [In]. split.
  - intros [[]|(a & Hi & Hd)]. exists a. split; [|exact Hd].
    apply (map_get_In mref_eqb mref_eqb_dec); [apply ix_methods_NoDup|exact Hi].
  - intros (a & Hg & Hd). right. exists a. split; [|exact Hd].
    apply (map_get_Some_In mref_eqb mref_eqb_dec). exact Hg.
Qed.

Lemma decided J r : get_specialized J = Ok r ->
  forall b a, map_get mref_eqb b (ix_methods J) = Some a ->
  exists o, decide (jar_fuel J) (ix_classes J) (ix_parents J) (ix_refs J) b a = Ok o.
Proof.
  unfold get_specialized. intros Hf b a Hg.
  apply (loop_ok _ _ _ _ _ _ _ _ Hf). apply (map_get_Some_In mref_eqb mref_eqb_dec). exact Hg.
Qed.
